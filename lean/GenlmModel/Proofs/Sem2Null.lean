import GenlmModel.Proofs.Sem2

/-! Semantic preservation of `_push_null_weights` (property C06) relative to the null weights, in
every commutative semiring.

`nullChoices` expands a body into all ways of deleting symbols (each deleted symbol pays its null
weight).  The key algebraic lemma `Sem2Aux.KL` says that this is exactly the decomposition of
`Wbody` according to which body symbols yield the empty string. -/
namespace Genlm
set_option linter.unusedSectionVars false
open UnfoldAux

namespace Sem2Aux
section
variable {σ K : Type} [DecidableEq σ] [CommSemiring K] [DecidableEq K]

/-- sum over the null choices of a body -/
def ncSum (ν : σ → K) (φ : σ → σ) (body : List σ) (B : List σ → K) : K :=
  ((nullChoices ν φ body).map fun p => p.1 * B p.2).sum

theorem ncSum_nil (ν : σ → K) (φ : σ → σ) (B : List σ → K) : ncSum ν φ [] B = B [] := by
  simp [ncSum, nullChoices]

theorem ncSum_cons (ν : σ → K) (φ : σ → σ) (y : σ) (ys : List σ) (B : List σ → K) :
    ncSum ν φ (y :: ys) B = ncSum ν φ ys (fun q => B (φ y :: q)) + ν y * ncSum ν φ ys B := by
  simp only [ncSum, nullChoices, List.map_append, List.map_map, List.sum_append, Function.comp_def]
  congr 1
  rw [← List.sum_map_mul_left]; congr 1; apply List.map_congr_left; intro p _; ring

theorem ncSum_add (ν : σ → K) (φ : σ → σ) (ys : List σ) (A B : List σ → K) :
    ncSum ν φ ys (fun q => A q + B q) = ncSum ν φ ys A + ncSum ν φ ys B := by
  unfold ncSum
  rw [← List.sum_map_add]; congr 1; apply List.map_congr_left; intro p _; ring

theorem ncSum_mul_left (ν : σ → K) (φ : σ → σ) (ys : List σ) (c : K) (B : List σ → K) :
    ncSum ν φ ys (fun q => c * B q) = c * ncSum ν φ ys B := by
  unfold ncSum
  rw [← List.sum_map_mul_left]; congr 1; apply List.map_congr_left; intro p _; ring

theorem ncSum_zero (ν : σ → K) (φ : σ → σ) (ys : List σ) :
    ncSum ν φ ys (fun _ => 0) = 0 := by
  unfold ncSum; apply sum_map_zero; intro p _; exact mul_zero _

theorem ncSum_sum {ι : Type} (ν : σ → K) (φ : σ → σ) (ys : List σ) (l : List ι) (c : ι → K)
    (B : ι → List σ → K) :
    ncSum ν φ ys (fun q => (l.map fun i => c i * B i q).sum)
      = (l.map fun i => c i * ncSum ν φ ys (B i)).sum := by
  induction l with
  | nil => simpa using ncSum_zero ν φ ys
  | cons i l ih =>
    simp only [List.map_cons, List.sum_cons]
    rw [ncSum_add, ncSum_mul_left, ih]

/-- separating the split with an empty left part -/
theorem sum_splits_head (x : List σ) (A B : List σ → K) :
    ((splits x).map fun p => A p.1 * B p.2).sum
      = A [] * B x + ((splits x).map fun p => (if p.1 = [] then 0 else A p.1) * B p.2).sum := by
  cases x with
  | nil => simp [splits]
  | cons a xs => simp [splits, Function.comp_def]

/-- **key algebraic lemma**, generic in a relation `R` (used with `≼` and with `≽`): `Wbody` of a
body is the sum over its null choices, when `ν` stands for the weight of the empty string and the
table `g'` at the renamed symbols stands for the weight of the non-empty strings -/
theorem KL (R : K → K → Prop) (hrefl : ∀ a, R a a)
    (hadd : ∀ a a' b b', R a a' → R b b' → R (a + b) (a' + b'))
    (hmul : ∀ a a' b b', R a a' → R b b' → R (a * b) (a' * b'))
    (V : List σ) (g g' : σ → List σ → K) (ν : σ → K) (φ : σ → σ) (body : List σ)
    (h0 : ∀ y ∈ body, R (Wsym V g y []) (ν y))
    (h1 : ∀ y ∈ body, ∀ u, R (if u = [] then 0 else Wsym V g y u) (Wsym V g' (φ y) u))
    (x : List σ) : R (Wbody V g body x) (ncSum ν φ body (fun q => Wbody V g' q x)) := by
  have hsum : ∀ (l : List (List σ × List σ)) (F F' : List σ × List σ → K),
      (∀ p ∈ l, R (F p) (F' p)) → R (l.map F).sum (l.map F').sum := by
    intro l F F' h
    induction l with
    | nil => exact hrefl _
    | cons p l ih =>
      simp only [List.map_cons, List.sum_cons]
      exact hadd _ _ _ _ (h p (by simp)) (ih (fun q hq => h q (by simp [hq])))
  induction body generalizing x with
  | nil => rw [ncSum_nil]; exact hrefl _
  | cons y ys ih =>
    have ih' := ih (fun s hs => h0 s (by simp [hs])) (fun s hs => h1 s (by simp [hs]))
    rw [ncSum_cons]
    have e1 : Wbody V g (y :: ys) x
        = ((splits x).map fun p => (if p.1 = [] then 0 else Wsym V g y p.1) * Wbody V g ys p.2).sum
          + Wsym V g y [] * Wbody V g ys x := by
      simp only [Wbody, lsum_eq_sum]
      rw [sum_splits_head x (fun u => Wsym V g y u) (fun v => Wbody V g ys v), add_comm]
    have e2 : ncSum ν φ ys (fun q => Wbody V g' (φ y :: q) x)
        = ((splits x).map fun p => Wsym V g' (φ y) p.1 *
            ncSum ν φ ys (fun q => Wbody V g' q p.2)).sum := by
      simp only [Wbody, lsum_eq_sum]
      exact ncSum_sum ν φ ys (splits x) (fun p => Wsym V g' (φ y) p.1)
        (fun p q => Wbody V g' q p.2)
    rw [e1, e2]
    refine hadd _ _ _ _ (hsum _ _ _ ?_) (hmul _ _ _ _ (h0 y (by simp)) (ih' x))
    intro p _
    exact hmul _ _ _ _ (h1 y (by simp) p.1) (ih' p.2)


/-! ### the rules of `pushNull`, one step -/

/-- the renaming `_push_null_weights` applies: symbols with a non-zero null weight, except the
start symbol, are renamed -/
def pnF (nullW : σ → K) (rename : σ → σ) (G : CFG σ K) : σ → σ :=
  fun x => if nullW x = 0 ∨ x = G.S then x else rename x

theorem pnF_term (nullW : σ → K) (rename : σ → σ) (G : CFG σ K) (hV0 : ∀ a ∈ G.V, nullW a = 0)
    {y : σ} (hy : y ∈ G.V) : pnF nullW rename G y = y := by
  unfold pnF; rw [if_pos (Or.inl (hV0 y hy))]

theorem pnF_notV (nullW : σ → K) (rename : σ → σ) (G : CFG σ K) (hrenV : ∀ y, rename y ∉ G.V)
    {y : σ} (hy : y ∉ G.V) : pnF nullW rename G y ∉ G.V := by
  unfold pnF; split
  · exact hy
  · exact hrenV y

theorem pnF_ne_S (nullW : σ → K) (rename : σ → σ) (G : CFG σ K) (hrenS : ∀ y, rename y ≠ G.S)
    {y : σ} (hy : y ≠ G.S) : pnF nullW rename G y ≠ G.S := by
  unfold pnF; split
  · exact hy
  · exact hrenS y

theorem pnF_inj (nullW : σ → K) (rename : σ → σ) (G : CFG σ K)
    (hinj : ∀ y z, rename y = rename z → y = z) {X Y : σ} (hX : ∀ y, rename y ≠ X)
    (hY : ∀ y, rename y ≠ Y) (h : pnF nullW rename G X = pnF nullW rename G Y) : X = Y := by
  unfold pnF at h
  split at h <;> split at h
  · exact h
  · exact absurd h.symm (hX Y)
  · exact absurd h (hY X)
  · exact hinj X Y h

theorem stepL_flatMap (V : List σ) (rs : List (Rule σ K)) (F : Rule σ K → List (Rule σ K))
    (g : σ → List σ → K) (Z : σ) (x : List σ) :
    stepL V (rs.flatMap F) g Z x = (rs.map fun r => stepL V (F r) g Z x).sum := by
  induction rs with
  | nil => simp [stepL_nil]
  | cons r rs ih => rw [List.flatMap_cons, stepL_append, ih]; simp

theorem stepL_map_choice (V : List σ) (L : List (K × List σ)) (c : K) (hd : σ)
    (g : σ → List σ → K) (Z : σ) (x : List σ) :
    stepL V (L.map fun p => (⟨c * p.1, hd, p.2⟩ : Rule σ K)) g Z x
      = if hd = Z then c * (L.map fun p => p.1 * Wbody V g p.2 x).sum else 0 := by
  induction L with
  | nil => simp [stepL_nil]
  | cons p L ih =>
    rw [List.map_cons, stepL_cons, ih]
    by_cases h : hd = Z
    · simp only [h, if_true, List.map_cons, List.sum_cons]; ring
    · simp [h]

theorem stepL_eq_ite (V : List σ) (rs : List (Rule σ K)) (f : σ → List σ → K) (X : σ)
    (x : List σ) :
    stepL V rs f X x = (rs.map fun r => if r.head = X then r.w * Wbody V f r.body x else 0).sum := by
  induction rs with
  | nil => simp [stepL_nil]
  | cons r rs ih => rw [stepL_cons, ih]; simp

/-- one step of the new grammar, spelled out over the rules of the old one -/
theorem pushNull_step (nullW : σ → K) (rename : σ → σ) (G : CFG σ K) (g : σ → List σ → K)
    (Z : σ) (x : List σ) :
    stepL G.V (pushNull nullW rename G).rules g Z x
      = (if G.S = Z then nullW G.S * (if x = [] then 1 else 0) else 0)
        + (G.rules.map fun r => if pnF nullW rename G r.head = Z then
            r.w * (((nullChoices nullW (pnF nullW rename G) r.body).filter
              (fun p => p.2 ≠ [])).map fun p => p.1 * Wbody G.V g p.2 x).sum else 0).sum := by
  show stepL G.V (mkRules (⟨nullW G.S, G.S, []⟩ :: G.rules.flatMap fun r =>
      if r.body = [] then [] else
        ((nullChoices nullW (pnF nullW rename G) r.body).filter (fun p => p.2 ≠ [])).map
          fun p => (⟨r.w * p.1, pnF nullW rename G r.head, p.2⟩ : Rule σ K))) g Z x = _
  rw [stepL_mkRules, stepL_cons, stepL_flatMap]
  congr 2
  apply List.map_congr_left
  intro r _
  split
  · next hb => rw [stepL_nil, hb]; simp [nullChoices]
  · exact stepL_map_choice G.V _ r.w _ g Z x

theorem filter_nc_sum (V : List σ) (g : σ → List σ → K) (ν : σ → K) (φ : σ → σ) (body : List σ)
    (x : List σ) (hx : x ≠ []) :
    (((nullChoices ν φ body).filter (fun p => p.2 ≠ [])).map fun p => p.1 * Wbody V g p.2 x).sum
      = ncSum ν φ body (fun q => Wbody V g q x) := by
  unfold ncSum
  refine (sum_filter_of_zero _ _ _ ?_).symm
  intro p _ hp
  have : p.2 = [] := by simpa using hp
  rw [this]; simp [Wbody, hx]

theorem Wbody_cons_nil_zero (V : List σ) (g : σ → List σ → K) (s : σ) (rest : List σ)
    (h : Wsym V g s [] = 0) : Wbody V g (s :: rest) [] = 0 := by
  simp [Wbody, splits, h]

/-- if the table vanishes at the empty string away from the start symbol, so do all the rules
created from the old ones -/
theorem pushNull_tail_nil (nullW : σ → K) (rename : σ → σ) (G : CFG σ K)
    (hS : G.S ∉ bodySyms G) (hrenS : ∀ y, rename y ≠ G.S) (g : σ → List σ → K)
    (hg : ∀ Z, Z ≠ G.S → g Z [] = 0) (Z : σ) :
    (G.rules.map fun r => if pnF nullW rename G r.head = Z then
        r.w * (((nullChoices nullW (pnF nullW rename G) r.body).filter
          (fun p => p.2 ≠ [])).map fun p => p.1 * Wbody G.V g p.2 []).sum else 0).sum = 0 := by
  apply sum_map_zero
  intro r hr
  split
  · rw [sum_map_zero, mul_zero]
    intro p hp
    obtain ⟨hp, hne⟩ := List.mem_filter.mp hp
    have hne : p.2 ≠ [] := by simpa using hne
    have hsub := nullChoices_sublist nullW (pnF nullW rename G) r.body p hp
    match hp2 : p.2 with
    | [] => exact absurd hp2 hne
    | s :: rest =>
      rw [Wbody_cons_nil_zero, mul_zero]
      have hs : s ∈ p.2 := by rw [hp2]; simp
      obtain ⟨y, hy, rfl⟩ := List.mem_map.mp (hsub.subset hs)
      have hyS : y ≠ G.S := fun e => hS (mem_bodySyms.mpr ⟨r, hr, e ▸ hy⟩)
      unfold Wsym; split
      · simp
      · exact hg _ (pnF_ne_S nullW rename G hrenS hyS)
  · rfl

end
end Sem2Aux

open Sem2Aux
section
variable {σ K : Type} [DecidableEq σ] [CommSemiring K] [DecidableEq K]

/-- **C06.5 (ε)** after `_push_null_weights` only the start symbol derives the empty string … -/
theorem pushNull_nil_other (nullW : σ → K) (rename : σ → σ) (G : CFG σ K)
    (hS : G.S ∉ bodySyms G) (hrenS : ∀ y, rename y ≠ G.S) (n : Nat) (Z : σ) (hZ : Z ≠ G.S) :
    WN (pushNull nullW rename G) n Z [] = 0 := by
  induction n generalizing Z with
  | zero => rfl
  | succ n ih =>
    rw [WN_succ]
    show stepL G.V _ _ _ _ = 0
    rw [pushNull_step, if_neg (fun e => hZ e.symm), zero_add]
    exact pushNull_tail_nil nullW rename G hS hrenS _ (fun Z' hZ' => ih Z' hZ') Z

/-- … with exactly the weight `nullW S`, at every level `≥ 1` -/
theorem pushNull_nil_start (nullW : σ → K) (rename : σ → σ) (G : CFG σ K)
    (hS : G.S ∉ bodySyms G) (hrenS : ∀ y, rename y ≠ G.S) (n : Nat) :
    WN (pushNull nullW rename G) (n + 1) G.S [] = nullW G.S := by
  rw [WN_succ]
  show stepL G.V _ _ _ _ = _
  rw [pushNull_step, if_pos rfl, if_pos rfl, mul_one,
    pushNull_tail_nil nullW rename G hS hrenS _
      (fun Z' hZ' => pushNull_nil_other nullW rename G hS hrenS n Z' hZ') G.S, add_zero]

/-- **C06.5 (⊑)** `_push_null_weights` loses nothing on non-empty strings, level by level, as soon
as `nullW` bounds the level-wise weights of the empty string (for the nonterminals that occur in
bodies), gives zero to terminals, and `rename` produces nonterminals -/
theorem pushNull_le (nullW : σ → K) (rename : σ → σ) (G : CFG σ K)
    (hV0 : ∀ a ∈ G.V, nullW a = 0) (hrenV : ∀ y, rename y ∉ G.V)
    (hN : ∀ r ∈ G.rules, ∀ y ∈ r.body, y ∉ G.V → ∀ n, WN G n y [] ≼ nullW y)
    (n : Nat) (X : σ) (x : List σ) (hx : x ≠ []) :
    WN G n X x ≼ WN (pushNull nullW rename G) n (pnF nullW rename G X) x := by
  induction n generalizing X x with
  | zero => exact le_rfl' _
  | succ n ih =>
    rw [WN_succ, WN_succ]
    show _ ≼ stepL G.V _ _ _ _
    rw [pushNull_step, stepL_eq_ite]
    refine le_trans' ?_ (le_add_left' _ _)
    apply sum_le'
    intro r hr
    split
    · next hh =>
      rw [if_pos (by rw [hh]), filter_nc_sum _ _ _ _ _ _ hx]
      refine mul_le' (le_rfl' _) ?_
      refine KL (· ≼ ·) le_rfl' (fun _ _ _ _ => add_le') (fun _ _ _ _ => mul_le') G.V _ _ nullW _
        r.body ?_ ?_ x
      · intro y hy
        by_cases hyV : y ∈ G.V
        · rw [Wsym_term _ _ _ hyV]; simp only [List.nil_eq, List.cons_ne_self, if_false]
          exact zero_le' _
        · rw [Wsym_nt _ _ _ hyV]; exact hN r hr y hy hyV n
      · intro y hy u
        split
        · exact zero_le' _
        · next hu =>
          by_cases hyV : y ∈ G.V
          · rw [pnF_term nullW rename G hV0 hyV, Wsym_term _ _ _ hyV, Wsym_term _ _ _ hyV]
            exact le_rfl' _
          · rw [Wsym_nt _ _ _ hyV, Wsym_nt _ _ _ (pnF_notV nullW rename G hrenV hyV)]
            exact ih y u hu
    · exact zero_le' _

/-- **C06.5 (⊒)** `_push_null_weights` adds nothing on non-empty strings: if `nullW` is attained
by the level-`N0` weights of the empty string, level `n` of the new grammar is below level `n + N0`
of the old one.  `rename` must be injective and produce names that are new nonterminals. -/
theorem pushNull_ge (nullW : σ → K) (rename : σ → σ) (G : CFG σ K)
    (hS : G.S ∉ bodySyms G) (hV0 : ∀ a ∈ G.V, nullW a = 0)
    (hrenV : ∀ y, rename y ∉ G.V) (hrenS : ∀ y, rename y ≠ G.S)
    (hinj : ∀ y z, rename y = rename z → y = z)
    (hrenH : ∀ y, ∀ r ∈ G.rules, rename y ≠ r.head) (hrenB : ∀ y, rename y ∉ bodySyms G)
    (N0 : Nat) (hN : ∀ r ∈ G.rules, ∀ y ∈ r.body, y ∉ G.V → nullW y ≼ WN G N0 y [])
    (n : Nat) (X : σ) (hX : ∀ y, rename y ≠ X) (x : List σ) (hx : x ≠ []) :
    WN (pushNull nullW rename G) n (pnF nullW rename G X) x ≼ WN G (n + N0) X x := by
  induction n generalizing X x with
  | zero => exact zero_le' _
  | succ n ih =>
    rw [show n + 1 + N0 = (n + N0) + 1 by omega, WN_succ, WN_succ]
    show stepL G.V _ _ _ _ ≼ _
    rw [pushNull_step, stepL_eq_ite]
    have hSt : (if G.S = pnF nullW rename G X then nullW G.S * (if x = [] then 1 else 0) else 0)
        = 0 := by rw [if_neg hx, mul_zero]; simp
    rw [hSt, zero_add]
    apply sum_le'
    intro r hr
    by_cases hh : r.head = X
    · rw [if_pos (by rw [hh]), if_pos hh, filter_nc_sum _ _ _ _ _ _ hx]
      refine mul_le' (le_rfl' _) ?_
      refine KL (fun a b => b ≼ a) le_rfl' (fun _ _ _ _ => add_le') (fun _ _ _ _ => mul_le')
        G.V _ _ nullW _ r.body ?_ ?_ x
      · intro y hy
        by_cases hyV : y ∈ G.V
        · rw [hV0 y hyV]; exact zero_le' _
        · rw [Wsym_nt _ _ _ hyV]
          exact le_trans' (hN r hr y hy hyV) (WN_le_of_le G (by omega) y [])
      · intro y hy u
        by_cases hyV : y ∈ G.V
        · rw [pnF_term nullW rename G hV0 hyV, Wsym_term _ _ _ hyV]
          by_cases hu : u = []
          · subst hu; rw [if_pos rfl, if_neg (by simp)]; exact le_rfl' _
          · rw [if_neg hu, Wsym_term _ _ _ hyV]; exact le_rfl' _
        · rw [Wsym_nt _ _ _ (pnF_notV nullW rename G hrenV hyV)]
          have hyS : y ≠ G.S := fun e => hS (mem_bodySyms.mpr ⟨r, hr, e ▸ hy⟩)
          split
          · next hu =>
            rw [hu, pushNull_nil_other nullW rename G hS hrenS n _
              (pnF_ne_S nullW rename G hrenS hyS)]
            exact le_rfl' _
          · next hu =>
            rw [Wsym_nt _ _ _ hyV]
            exact ih y (fun z e => hrenB z (e ▸ mem_bodySyms.mpr ⟨r, hr, hy⟩)) u hu
    · rw [if_neg hh, if_neg (fun e => hh (pnF_inj nullW rename G hinj
        (fun y e' => hrenH y r hr e') hX e))]
      exact le_rfl' _

/-! ### where the hypotheses on `nullW` come from -/

theorem Wbody_nil_le (V : List σ) (f g : σ → List σ → K) (body : List σ)
    (h : ∀ s ∈ body, s ∉ V → f s [] ≼ g s []) : Wbody V f body [] ≼ Wbody V g body [] := by
  induction body with
  | nil => exact le_rfl' _
  | cons s ss ih =>
    have e : ∀ t : σ → List σ → K, Wbody V t (s :: ss) [] = Wsym V t s [] * Wbody V t ss [] := by
      intro t; simp [Wbody, splits]
    rw [e f, e g]
    refine mul_le' ?_ (ih (fun s' hs' => h s' (by simp [hs'])))
    unfold Wsym; split
    · exact le_rfl' _
    · next hV => exact h s (by simp) hV

/-- a pre-fixed point of the ε-system bounds the weight of the empty string at every level: this is
the hypothesis of `pushNull_le` (the exact null weights, however computed, are such a point) -/
theorem WN_nil_le_of_prefixed (G : CFG σ K) (nullW : σ → K)
    (hpre : ∀ r ∈ G.rules, stepL G.V G.rules (fun Z _ => nullW Z) r.head [] ≼ nullW r.head)
    (n : Nat) (y : σ) : WN G n y [] ≼ nullW y := by
  induction n generalizing y with
  | zero => exact zero_le' _
  | succ n ih =>
    by_cases hy : ∃ r ∈ G.rules, r.head = y
    · obtain ⟨r, hr, rfl⟩ := hy
      rw [WN_succ]
      refine le_trans' ?_ (hpre r hr)
      unfold stepL
      apply sum_le'; intro q _
      exact mul_le' (le_rfl' _) (Wbody_nil_le _ _ _ _ (fun s _ _ => ih s))
    · rw [WN_zero_of_no_rule G (n + 1) y [] (fun r hr e => hy ⟨r, hr, e⟩)]
      exact zero_le' _

/-- **C06.5** `_push_null_weights` preserves the weighted language of non-empty strings relative
to null weights `nullW` at which the level-wise weights of the empty string stabilise (from level
`N0` on): at every old symbol `X`, renamed to `pnF … X`, the level-indexed approximations bound
each other with a shift of `N0` -/
theorem pushNull_preserves (nullW : σ → K) (rename : σ → σ) (G : CFG σ K)
    (hS : G.S ∉ bodySyms G) (hV0 : ∀ a ∈ G.V, nullW a = 0)
    (hrenV : ∀ y, rename y ∉ G.V) (hrenS : ∀ y, rename y ≠ G.S)
    (hinj : ∀ y z, rename y = rename z → y = z)
    (hrenH : ∀ y, ∀ r ∈ G.rules, rename y ≠ r.head) (hrenB : ∀ y, rename y ∉ bodySyms G)
    (N0 : Nat)
    (hstab : ∀ r ∈ G.rules, ∀ y ∈ r.body, y ∉ G.V → ∀ n, N0 ≤ n → WN G n y [] = nullW y)
    (n : Nat) (X : σ) (hX : ∀ y, rename y ≠ X) (x : List σ) (hx : x ≠ []) :
    WN G n X x ≼ WN (pushNull nullW rename G) n (pnF nullW rename G X) x ∧
      WN (pushNull nullW rename G) n (pnF nullW rename G X) x ≼ WN G (n + N0) X x := by
  refine ⟨pushNull_le nullW rename G hV0 hrenV ?_ n X x hx,
    pushNull_ge nullW rename G hS hV0 hrenV hrenS hinj hrenH hrenB N0
      (fun r hr y hy hyV => le_of_eq' (hstab r hr y hy hyV N0 (Nat.le_refl _)).symm) n X hX x hx⟩
  intro r hr y hy hyV m
  rw [← hstab r hr y hy hyV (max m N0) (Nat.le_max_right _ _)]
  exact WN_le_of_le G (Nat.le_max_left _ _) y []

/-- where `≼` is antisymmetric and the weight of the non-empty string `x` at `X` in `G` has
stabilised at `L` from level `N` on, `_push_null_weights` gives `L` from level `N` on -/
theorem pushNull_limit (nullW : σ → K) (rename : σ → σ) (G : CFG σ K)
    (hS : G.S ∉ bodySyms G) (hV0 : ∀ a ∈ G.V, nullW a = 0)
    (hrenV : ∀ y, rename y ∉ G.V) (hrenS : ∀ y, rename y ≠ G.S)
    (hinj : ∀ y z, rename y = rename z → y = z)
    (hrenH : ∀ y, ∀ r ∈ G.rules, rename y ≠ r.head) (hrenB : ∀ y, rename y ∉ bodySyms G)
    (N0 : Nat)
    (hstab : ∀ r ∈ G.rules, ∀ y ∈ r.body, y ∉ G.V → ∀ n, N0 ≤ n → WN G n y [] = nullW y)
    (hanti : ∀ a b : K, a ≼ b → b ≼ a → a = b) (X : σ) (hX : ∀ y, rename y ≠ X) (x : List σ)
    (hx : x ≠ []) (N : Nat) (L : K) (hL : ∀ m, N ≤ m → WN G m X x = L) (n : Nat) (hn : N ≤ n) :
    WN (pushNull nullW rename G) n (pnF nullW rename G X) x = L :=
  limit_transfer hanti (a := fun m => WN G m X x)
    (b := fun m => WN (pushNull nullW rename G) m (pnF nullW rename G X) x)
    (fun _ _ h => WN_le_of_le _ h _ x) N N L hL
    (pushNull_preserves nullW rename G hS hV0 hrenV hrenS hinj hrenH hrenB N0 hstab N X hX x hx).1
    (fun m => ⟨m + N0, Nat.le_add_right _ _,
      (pushNull_preserves nullW rename G hS hV0 hrenV hrenS hinj hrenH hrenB N0 hstab m X hX x hx).2⟩)
    n hn hn

end

/-! ### non-vacuity (`structNullG` of `Proofs/Struct.lean`: `5 → 0 0 (1); 0 → ε (2) | 1 (3)`) -/
section Examples

theorem natLe_nat {a b : ℕ} : a ≼ b ↔ a ≤ b :=
  ⟨fun ⟨c, h⟩ => by omega, fun h => ⟨b - a, by omega⟩⟩

-- the start symbol keeps its name, the nullable `0` is renamed to `100`
example : pnF structNullW (· + 100) structNullG 5 = 5 ∧ pnF structNullW (· + 100) structNullG 0 = 100 := by
  decide
example : WN structNullG 2 5 [1] = 12 ∧ WN (pushNull structNullW (· + 100) structNullG) 2 5 [1] = 12 := by
  decide
example : WN structNullG 1 0 [1] = 3 ∧ WN (pushNull structNullW (· + 100) structNullG) 1 100 [1] = 3 := by
  decide
-- the empty string: only at the start symbol, with weight `nullW S = 4` (= `WN structNullG 2 5 []`)
example : WN structNullG 2 5 [] = 4 ∧ WN (pushNull structNullW (· + 100) structNullG) 1 5 [] = 4 ∧
    WN (pushNull structNullW (· + 100) structNullG) 3 100 [] = 0 := by decide
-- `structNullW` is a pre-fixed point of the ε-system, hence bounds every level
theorem structNull_bound (n y : ℕ) : WN structNullG n y [] ≼ structNullW y :=
  WN_nil_le_of_prefixed structNullG structNullW
    (by
      have : ∀ r ∈ structNullG.rules,
          stepL structNullG.V structNullG.rules (fun Z _ => structNullW Z) r.head [] ≤ structNullW r.head := by
        decide
      exact fun r hr => natLe_nat.mpr (this r hr)) n y
-- … and it is attained at level 1 by the nonterminals that occur in bodies
theorem structNull_attained : ∀ r ∈ structNullG.rules, ∀ y ∈ r.body, y ∉ structNullG.V →
    structNullW y ≼ WN structNullG 1 y [] := by
  have : ∀ r ∈ structNullG.rules, ∀ y ∈ r.body, y ∉ structNullG.V →
      structNullW y ≤ WN structNullG 1 y [] := by decide
  exact fun r hr y hy hV => natLe_nat.mpr (this r hr y hy hV)
-- all hypotheses of the two bounds are met, for every level and every non-empty string
example (n : ℕ) (x : List ℕ) (hx : x ≠ []) :
    WN structNullG n 0 x ≼ WN (pushNull structNullW (· + 100) structNullG) n 100 x ∧
    WN (pushNull structNullW (· + 100) structNullG) n 100 x ≼ WN structNullG (n + 1) 0 x := by
  have hheads : ∀ r ∈ structNullG.rules, r.head < 100 := by decide
  have hbody : ∀ s ∈ bodySyms structNullG, s < 100 := by decide
  exact ⟨pushNull_le structNullW (· + 100) structNullG (by decide)
      (by intro y; simp [structNullG]) (fun _ _ y _ _ m => structNull_bound m y) n 0 x hx,
    pushNull_ge structNullW (· + 100) structNullG (by decide) (by decide)
      (by intro y; simp [structNullG]) (by intro y; simp [structNullG])
      (by intro y z h; simpa using h)
      (by intro y r hr h; have := hheads r hr; omega)
      (by intro y h; have := hbody _ h; omega)
      1 structNull_attained n 0 (by intro y; omega) x hx⟩
-- the hypothesis `G.S ∉ bodySyms G` of `⊒` cannot be dropped: for `S → 1 S (1) | ε (1)` with the
-- exact null weight 1 of `S`, the string `1` has weight 1, but the new grammar
-- `S → ε | 1 S | 1` gives it weight 2 (the un-renamed start symbol still derives `ε`)
def nullBadG : CFG ℕ ℕ := ⟨0, [1], [⟨1, 0, [1, 0]⟩, ⟨1, 0, []⟩]⟩
example : WN nullBadG 2 0 [1] = 1 ∧ WN nullBadG 4 0 [1] = 1 ∧
    WN (pushNull (fun x => if x = 0 then 1 else 0) (· + 100) nullBadG) 2 0 [1] = 2 := by decide

end Examples
end Genlm
