import Mathlib.Computability.RegularExpressions
import Lean.Data.Json
/-! The verified reference matcher for C18/C19: Mathlib's `RegularExpression.rmatch`
(Brzozowski derivatives) with `rmatch_iff_matches'`.  Regex ASTs arrive desugared to the core
operators (the harness expands classes, negated classes and the dot relative to the character set,
bounded repetition, escapes and case-insensitive literals). -/
namespace Genlm.Re
open Lean (Json)

/-- core AST as the harness prints it -/
inductive Ast where
  | empty | eps | chr (c : Char) | alt (a b : Ast) | cat (a b : Ast) | star (a : Ast)
deriving Repr, Inhabited

def Ast.toRE : Ast → RegularExpression Char
  | .empty => 0
  | .eps => 1
  | .chr c => RegularExpression.char c
  | .alt a b => a.toRE + b.toRE
  | .cat a b => a.toRE * b.toRE
  | .star a => RegularExpression.star a.toRE

partial def astOfJson : Json → Except String Ast
  | .str "empty" => pure .empty
  | .str "eps" => pure .eps
  | .arr #[.str "chr", .str s] => match s.toList with
      | [c] => pure (.chr c)
      | _ => throw s!"chr expects one character, got {s}"
  | .arr #[.str "alt", a, b] => do pure (.alt (← astOfJson a) (← astOfJson b))
  | .arr #[.str "cat", a, b] => do pure (.cat (← astOfJson a) (← astOfJson b))
  | .arr #[.str "star", a] => do pure (.star (← astOfJson a))
  | j => throw s!"bad regex ast {j}"

/-- the matcher the real automata are compared with -/
def accepts (a : Ast) (s : String) : Bool := a.toRE.rmatch s.toList

/-- Mathlib: the derivative-based matcher decides exactly the denotation of the expression -/
theorem accepts_iff (a : Ast) (s : String) : accepts a s = true ↔ s.toList ∈ a.toRE.matches' :=
  RegularExpression.rmatch_iff_matches' a.toRE s.toList

end Genlm.Re
