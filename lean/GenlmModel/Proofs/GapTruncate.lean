import GenlmModel.Model.Gaps
import GenlmModel.Proofs.Compose
import GenlmModel.Proofs.LimFst

/-! # `CFG.truncate_length` (property C09, gap A of task E7)

Python (`cfg.py`): `truncate_length(N)` builds the acceptor `m` of all strings over `V` of length `≤ N` (states
`0 … N`, all final, arcs `t --x/1--> t+1` for `x ∈ V`) and returns `self @ m`.  Models: `truncAcceptor`,
`truncateLength` (`Model/Gaps.lean`), on top of `compose` / `FST.diag` (`Model/Compose.lean`, `Model/FstOps.lean`).

* `truncAcceptor_Qk`, `truncAcceptor_Pk` — the acceptor gives weight `1` to the strings over `V` of length `≤ N`
  (on the path of length `|y|`) and `0` to everything else (any commutative semiring);
* `truncateLength_WN` — **level-wise, any commutative semiring**: in the natural preorder `≼`
  `WN H (n+2) S' y ≼ [|y| ≤ N] · WN G n S y ≼ WN H (n+3) S' y` (`H = truncateLength G N`; an exact level-wise identity
  is impossible for `__matmul__`, see `bhShiftG` in `Proofs/Compose.lean`); `truncateLength_WN_long`: strings longer
  than `N` weigh `0` at every level; `truncateLength_limit`: where `≼` is antisymmetric and `WN G · S y` has
  stabilised at `L`, `WN H · S' y` stabilises at `[|y| ≤ N] · L`;
* `truncateLength_WL` — **at the limit over `ℝ≥0∞`**: `WL H S' y = if |y| ≤ N then WL G S y else 0`, for every grammar
  (cyclic ones included) whose heads and start symbol are nonterminals.

Side condition `TruncOK G` (decidable): no rule has a terminal head and the start symbol is not a terminal (the part
of `ComposeOK` that concerns the grammar; the part about the input labels holds by construction, the labels of `m`
being the terminals).  Helper lemmas carry the tag `E7A`. -/
namespace Genlm
set_option linter.unusedSectionVars false
open UnfoldAux WfsaAux FstAux ComposeAux

/-- the side condition of the truncation theorems: heads and start symbol are nonterminals -/
def TruncOK {σ K : Type} [DecidableEq σ] (G : CFG σ K) : Prop :=
  (∀ r ∈ G.rules, r.head ∉ G.V) ∧ G.S ∉ G.V

instance {σ K : Type} [DecidableEq σ] (G : CFG σ K) : Decidable (TruncOK G) := by
  unfold TruncOK; infer_instance

/-! ### the acceptor -/
section Acceptor
variable {σ K : Type} [DecidableEq σ] [CommSemiring K]

theorem truncAcceptor_epsFree (V : List σ) (N : Nat) : (truncAcceptor V N : WFSA Nat σ K).EpsFree := by
  intro e he
  simp only [truncAcceptor, List.mem_flatMap, List.mem_map] at he
  obtain ⟨t, _, x, _, rfl⟩ := he
  simp

/-- one unfolding of `Qk` in the acceptor, from the state `t` -/
theorem truncAcceptor_Qk_succ_E7A (V : List σ) (hV : V.Nodup) (N k t : Nat) (y : List σ) (j : Nat) :
    Qk (truncAcceptor V N : WFSA Nat σ K) (k+1) t y j
      = match y with
        | [] => 0
        | b :: y' => if t < N ∧ b ∈ V then Qk (truncAcceptor V N : WFSA Nat σ K) k (t+1) y' j else 0 := by
  rw [Qk_succ, sum_filter_ite]
  have harcs : (truncAcceptor V N : WFSA Nat σ K).arcs
      = (List.range N).flatMap fun t => V.map fun x => ⟨t, some x, t + 1, 1⟩ := rfl
  rw [harcs, sum_flatMap]
  simp only [List.map_map, Function.comp_def, decide_eq_true_eq, one_mul]
  cases y with
  | nil =>
    simp only [lpeel, List.map_nil, List.sum_nil, ite_self]
    apply sum_map_zero; intro t' _
    apply sum_map_zero; intro x _; rfl
  | cons b y' =>
    simp only [lpeel]
    have h1 : ∀ t' ∈ List.range N, (V.map fun x => if t' = t then
          ((if x = b then [y'] else []).map fun x' =>
            Qk (truncAcceptor V N : WFSA Nat σ K) k (t' + 1) x' j).sum else 0).sum
        = if t' = t then (if b ∈ V then Qk (truncAcceptor V N : WFSA Nat σ K) k (t' + 1) y' j else 0)
          else 0 := by
      intro t' _
      by_cases ht : t' = t
      · simp only [ht, if_true]
        rw [← sum_ite_eq_nodup V hV b (fun _ => Qk (truncAcceptor V N : WFSA Nat σ K) k (t + 1) y' j)]
        apply congrArg
        apply List.map_congr_left
        intro x _
        by_cases hx : x = b
        · simp [hx]
        · have hx' : ¬ b = x := fun h => hx h.symm
          simp [hx, hx']
      · simp only [ht, if_false]
        apply sum_map_zero; intro x _; rfl
    rw [List.map_congr_left h1, sum_range_ite_eq]
    by_cases htN : t < N
    · by_cases hb : b ∈ V
      · simp [htN, hb]
      · simp [htN, hb]
    · simp [htN]

/-- **paths of the truncation acceptor**: from a state `t ≤ N`, the string `y` labels exactly one path (of `|y|`
arcs, to `t + |y|`, weight `1`) if it is a string over `V` and `t + |y| ≤ N`; no path otherwise -/
theorem truncAcceptor_Qk (V : List σ) (hV : V.Nodup) (N k t : Nat) (ht : t ≤ N) (y : List σ) (j : Nat) :
    Qk (truncAcceptor V N : WFSA Nat σ K) k t y j
      = if y.length = k ∧ j = t + k ∧ t + k ≤ N ∧ (∀ a ∈ y, a ∈ V) then 1 else 0 := by
  induction k generalizing t y with
  | zero =>
    rw [Qk_zero]
    by_cases hy : y = []
    · subst hy
      by_cases hj : t = j
      · subst hj; simp [ht]
      · have hj' : ¬ j = t := fun h => hj h.symm
        simp [hj, hj']
    · have : ¬ y.length = 0 := fun h => hy (List.length_eq_zero_iff.mp h)
      simp [hy, this]
  | succ k ih =>
    rw [truncAcceptor_Qk_succ_E7A V hV]
    cases y with
    | nil => simp
    | cons b y' =>
      change (if t < N ∧ b ∈ V then Qk (truncAcceptor V N : WFSA Nat σ K) k (t+1) y' j else 0) = _
      by_cases htN : t < N
      · by_cases hb : b ∈ V
        · rw [if_pos ⟨htN, hb⟩, ih (t+1) (by omega) y']
          have e1 : t + 1 + k = t + (k + 1) := by omega
          simp only [List.length_cons, List.mem_cons, forall_eq_or_imp, hb, true_and, e1,
            Nat.add_right_cancel_iff]
        · rw [if_neg (fun h => hb h.2), if_neg]
          rintro ⟨_, _, _, h⟩
          exact hb (h b (by simp))
      · rw [if_neg (fun h => htN h.1), if_neg]
        rintro ⟨_, _, h, _⟩
        omega

/-- **the truncation acceptor**: weight `1` (on the path of `|y|` arcs) for the strings over `V` of length `≤ N`,
`0` for every other string and every other path length -/
theorem truncAcceptor_Pk (V : List σ) (hV : V.Nodup) (N k : Nat) (y : List σ) :
    Pk (truncAcceptor V N : WFSA Nat σ K) k y
      = if y.length = k ∧ k ≤ N ∧ (∀ a ∈ y, a ∈ V) then 1 else 0 := by
  rw [Pk_eq]
  have hstart : (truncAcceptor V N : WFSA Nat σ K).start = [(0, 1)] := rfl
  have hstop : (truncAcceptor V N : WFSA Nat σ K).stop
      = (0, 1) :: (List.range N).map fun t => (t + 1, 1) := rfl
  rw [hstart, hstop]
  simp only [List.map_cons, List.map_nil, List.sum_cons, List.sum_nil, add_zero, one_mul, mul_one,
    List.map_map, Function.comp_def, truncAcceptor_Qk V hV N k 0 (Nat.zero_le N), Nat.zero_add]
  cases k with
  | zero =>
    have h0 : ∀ t ∈ List.range N,
        (if y.length = 0 ∧ t + 1 = 0 ∧ 0 ≤ N ∧ (∀ a ∈ y, a ∈ V) then (1 : K) else 0) = 0 := by
      intro t _
      rw [if_neg]; rintro ⟨_, h, _⟩; omega
    rw [List.map_congr_left h0]
    simp
  | succ k =>
    rw [if_neg (by rintro ⟨_, h, _⟩; omega), zero_add]
    have h1 : ∀ t ∈ List.range N,
        (if y.length = k + 1 ∧ t + 1 = k + 1 ∧ k + 1 ≤ N ∧ (∀ a ∈ y, a ∈ V) then (1 : K) else 0)
          = if t = k then (if y.length = k + 1 ∧ k + 1 ≤ N ∧ (∀ a ∈ y, a ∈ V) then (1 : K) else 0)
            else 0 := by
      intro t _
      by_cases htk : t = k
      · subst htk; simp
      · rw [if_neg htk, if_neg]; rintro ⟨_, h, _⟩; omega
    rw [List.map_congr_left h1, sum_range_ite_eq]
    by_cases hk : k < N
    · simp [hk]
    · rw [if_neg hk, if_neg]; rintro ⟨_, h, _⟩; omega

end Acceptor

/-! ### the truncated grammar, level-wise (any commutative semiring) -/
section Levelwise
variable {σ K : Type} [DecidableEq σ] [CommSemiring K]

/-- a grammar only derives strings of terminals -/
theorem WN_eq_zero_of_not_over_E7A (G : CFG σ K) (n : Nat) (X : σ) (x : List σ)
    (hx : ¬ ∀ a ∈ x, a ∈ G.V) : WN G n X x = 0 := by
  rw [yields_WN, wsum_eq]
  apply sum_map_zero
  intro p hp
  rw [if_neg, mul_zero]
  rintro rfl
  exact hx (yields_over G n X p hp)

/-- the side conditions of the composition theorems hold for the truncation acceptor -/
theorem truncOK_composeOK (G : CFG σ K) (hG : TruncOK G) (N : Nat) :
    ComposeOK G (FST.diag (truncAcceptor G.V.eraseDups N : WFSA Nat σ K)) where
  head_nt := hG.1
  start_nt := hG.2
  inp_ok := by
    intro e he a ha hV
    exfalso
    simp only [FST.diag, truncAcceptor, List.mem_map, List.mem_flatMap] at he
    obtain ⟨e0, ⟨t, _, x, hx, rfl⟩, rfl⟩ := he
    simp only [Option.some.injEq] at ha
    subst ha
    exact hV (List.mem_eraseDups.mp hx)

/-- the weight the acceptor contributes to the product: `1` up to length `N`, `0` beyond -/
theorem truncAcceptor_product_E7A (G : CFG σ K) (N n : Nat) (y : List σ) :
    WN G n G.S y * Pk (truncAcceptor G.V.eraseDups N : WFSA Nat σ K) y.length y
      = if y.length ≤ N then WN G n G.S y else 0 := by
  rw [truncAcceptor_Pk _ (nodup_eraseDups G.V)]
  by_cases hN : y.length ≤ N
  · by_cases hy : ∀ a ∈ y, a ∈ G.V
    · rw [if_pos ⟨rfl, hN, fun a ha => List.mem_eraseDups.mpr (hy a ha)⟩, if_pos hN, mul_one]
    · rw [WN_eq_zero_of_not_over_E7A G n G.S y hy, zero_mul, if_pos hN]
  · rw [if_neg (fun h => hN h.2.1), if_neg hN, mul_zero]

variable [DecidableEq K]

/-- **`truncate_length`, level-wise (C09)**: the truncated grammar gives a string of length `≤ N` the weight the
grammar gives it, and `0` to longer strings — as a pair of bounds in the natural preorder, the derivation trees of
the Bar-Hillel construction being two to three levels higher than those of `G` -/
theorem truncateLength_WN (G : CFG σ K) (hG : TruncOK G) (N n : Nat) (y : List σ) :
    WN (truncateLength G N) (n + 2) (truncateLength G N).S (tm y)
        ≼ (if y.length ≤ N then WN G n G.S y else 0)
    ∧ (if y.length ≤ N then WN G n G.S y else 0)
        ≼ WN (truncateLength G N) (n + 3) (truncateLength G N).S (tm y) := by
  unfold truncateLength
  rw [compose_eq_composeAll_start, compose_eq_composeAll_start, ← truncAcceptor_product_E7A G N n y]
  exact compose_acceptor_epsfree G _ (truncAcceptor_epsFree _ N) (truncOK_composeOK G hG N) n y

/-- strings longer than `N` weigh `0` in the truncated grammar, at every level (exact, any commutative semiring in
which `0` is the least element of `≼`, e.g. every zero-sum-free one) -/
theorem truncateLength_WN_long (G : CFG σ K) (hG : TruncOK G) (hz : ∀ a : K, a ≼ 0 → a = 0)
    (N n : Nat) (y : List σ) (hy : N < y.length) :
    WN (truncateLength G N) n (truncateLength G N).S (tm y) = 0 := by
  apply hz
  have h := (truncateLength_WN G hG N n y).1
  rw [if_neg (by omega)] at h
  exact nle_trans (ComposeAux.WN_mono _ (by omega) _ _) h

/-- where `≼` is antisymmetric and the weight of `y` in `G` has stabilised at `L`, its weight in the truncated
grammar has stabilised at `[|y| ≤ N] · L` -/
theorem truncateLength_limit (G : CFG σ K) (hG : TruncOK G)
    (hanti : ∀ a b : K, a ≼ b → b ≼ a → a = b) (N M : Nat) (y : List σ) (L : K)
    (hL : ∀ n, M ≤ n → WN G n G.S y = L) (n : Nat) (hn : M + 3 ≤ n) :
    WN (truncateLength G N) n (truncateLength G N).S (tm y) = if y.length ≤ N then L else 0 := by
  obtain ⟨n', rfl⟩ : ∃ n', n = n' + 3 := ⟨n - 3, by omega⟩
  have h1 := (truncateLength_WN G hG N (n' + 1) y).1
  have h2 := (truncateLength_WN G hG N n' y).2
  rw [hL (n' + 1) (by omega)] at h1
  rw [hL n' (by omega)] at h2
  exact hanti _ _ h1 h2

end Levelwise

/-! ### the truncated grammar at the limit (`ℝ≥0∞`) -/
section Limit
open scoped ENNReal
variable {σ : Type} [DecidableEq σ]

/-- the truncation acceptor at the limit -/
theorem truncAcceptor_PL (V : List σ) (hV : V.Nodup) (N : Nat) (y : List σ) :
    PL (truncAcceptor V N : WFSA Nat σ ℝ≥0∞) y = if y.length ≤ N ∧ (∀ a ∈ y, a ∈ V) then 1 else 0 := by
  rw [PL_epsfree _ (truncAcceptor_epsFree V N), truncAcceptor_Pk V hV]
  simp

/-- **`truncate_length` at the limit (C09)**: over `ℝ≥0∞`, with `WL` the sum over ALL derivation trees, the
truncated grammar gives every string of length `≤ N` exactly its weight in `G`, and `0` to every longer string —
for every grammar (cyclic nullable / unary parts, divergence to `∞` included) -/
theorem truncateLength_WL [DecidableEq ℝ≥0∞] (G : CFG σ ℝ≥0∞) (hG : TruncOK G) (N : Nat) (y : List σ) :
    WL (truncateLength G N) (truncateLength G N).S (tm y) = if y.length ≤ N then WL G G.S y else 0 := by
  unfold truncateLength
  rw [compose_WL' G _ (truncOK_composeOK G hG N) y, tsum_eq_single y]
  · rw [diag_TL, if_pos rfl, truncAcceptor_PL _ (nodup_eraseDups G.V)]
    by_cases hN : y.length ≤ N
    · by_cases hy : ∀ a ∈ y, a ∈ G.V
      · rw [if_pos ⟨hN, fun a ha => List.mem_eraseDups.mpr (hy a ha)⟩, if_pos hN, mul_one]
      · rw [WL_eq_zero_of_not_over G G.S y (by push Not at hy; exact hy), zero_mul, if_pos hN]
    · rw [if_neg (fun h => hN h.1), if_neg hN, mul_zero]
  · intro x hx
    rw [diag_TL, if_neg hx, mul_zero]

end Limit

/-! ### non-vacuity -/
section Examples
open scoped ENNReal

/-- `0 → 1 0 (2) | ε (3)`, terminal `1` (the grammar `bhG` of `Proofs/Compose.lean`): `1ᵏ` weighs `2ᵏ · 3` -/
example : TruncOK bhG := by decide

-- the acceptor for `N = 2` over `V = {1}`: three states, two arcs
example : (truncAcceptor [1] 2 : WFSA Nat Nat Nat).start = [(0, 1)]
    ∧ (truncAcceptor [1] 2 : WFSA Nat Nat Nat).stop = [(0, 1), (1, 1), (2, 1)]
    ∧ (truncAcceptor [1] 2 : WFSA Nat Nat Nat).arcs = [⟨0, some 1, 1, 1⟩, ⟨1, some 1, 2, 1⟩] := by decide

-- truncated at length 1: `1` keeps its weight `6`, `1 1` (weight `12` in `bhG`) is cut
example : WN bhG 3 0 [1] = 6 ∧ WN bhG 3 0 [1, 1] = 12 := by decide
set_option maxRecDepth 100000 in
example : WN (truncateLength bhG 1) 5 (truncateLength bhG 1).S (tm [1]) = 6 :=
  (compose_eq_composeAll_start bhG _ 5 _).trans (by decide)
example : WN (truncateLength bhG 1) 7 (truncateLength bhG 1).S (tm [1, 1]) = 0 :=
  truncateLength_WN_long bhG (by decide) (by rintro a ⟨c, h⟩; omega) 1 7 [1, 1] (by decide)
example : WN (truncateLength bhG 1) 5 (truncateLength bhG 1).S (tm [1]) ≼ 6
    ∧ (6 : ℕ) ≼ WN (truncateLength bhG 1) 6 (truncateLength bhG 1).S (tm [1]) := by
  have h := truncateLength_WN bhG (by decide) 1 3 [1]
  rwa [show (if [1].length ≤ 1 then WN bhG 3 bhG.S [1] else 0) = 6 by decide] at h

/-- a cyclic grammar over `ℝ≥0∞`: `0 → 0 (1/2) | 1 0 (1) | ε (1)`: every string has infinitely many trees -/
noncomputable def truncCycG : CFG ℕ ℝ≥0∞ := ⟨0, [1], [⟨2⁻¹, 0, [0]⟩, ⟨1, 0, [1, 0]⟩, ⟨1, 0, []⟩]⟩

theorem truncCycG_ok : TruncOK truncCycG := by
  refine ⟨?_, by decide⟩
  intro r hr
  simp only [truncCycG, List.mem_cons, List.not_mem_nil, or_false] at hr
  rcases hr with rfl | rfl | rfl <;> decide

example [DecidableEq ℝ≥0∞] :
    WL (truncateLength truncCycG 1) (truncateLength truncCycG 1).S (tm [1]) = WL truncCycG 0 [1]
    ∧ WL (truncateLength truncCycG 1) (truncateLength truncCycG 1).S (tm [1, 1]) = 0 :=
  ⟨by rw [truncateLength_WL _ truncCycG_ok]; rfl, by rw [truncateLength_WL _ truncCycG_ok]; rfl⟩

end Examples

end Genlm
