import GenlmModel.Model.EarleyQ
import GenlmModel.Proofs.EarleyNext
/-!
# The agenda of `Earley.next_column` (`Model/EarleyQ.lean`) against the scheduled model

Main results (in `namespace Genlm`; helpers in `Genlm.EarleyAux`):

* `nextColumnQ_eq` : one `next_column` with the agenda (any pop function `pick` returning an item of maximal
  priority, `PickOK`; `popMax_ok`) *is* `nextColumnWith G sched` for the schedule `schedOfRun …` read off the run,
  and this schedule satisfies `SchedOK` — the loop empties the agenda within its fuel (`attachLoopQ_spec`), pops by
  non-increasing priority, and every item it creates has a strictly smaller priority than the item being processed
  (`push_prio`, from `Gen.Earley.priority_strict` and the shape of the keys);
* `earleyChartQ_eq_sched` : the same for whole charts;
* `earleyQ_correct` (C02), `earleyQ_pnext` (C04) : the theorems of `Proofs/Earley.lean`, `Proofs/EarleyNext.lean`
  for the parser with its agenda.
-/

set_option linter.unusedSectionVars false

namespace Genlm.EarleyAux
variable {σ K : Type} [DecidableEq σ] [CommSemiring K]
open IncCkyAux

/-! ### `Q.pop()` -/

/-- what the ATTACH loop needs from the pop function: it returns some item of maximal priority and removes it -/
def PickOK {α : Type} [DecidableEq α] (prio : α → Int) (pick : List α → Option (α × List α)) : Prop :=
  ∀ Q, (pick Q = none → Q = []) ∧
    ∀ m Q', pick Q = some (m, Q') → m ∈ Q ∧ (∀ b ∈ Q, prio b ≤ prio m) ∧ Q.Perm (m :: Q')

theorem popMax_ok {α : Type} [DecidableEq α] (prio : α → Int) : PickOK prio (popMax prio) := by
  intro Q
  induction Q with
  | nil =>
    refine ⟨fun _ => rfl, ?_⟩
    intro m Q' h
    simp [popMax] at h
  | cons a l ih =>
    obtain ⟨ih1, ih2⟩ := ih
    constructor
    · intro h
      simp only [popMax] at h
      cases hp : popMax prio l with
      | none => rw [hp] at h; simp at h
      | some r =>
        rw [hp] at h
        simp only at h
        split at h <;> simp at h
    · intro m Q' h
      simp only [popMax] at h
      cases hp : popMax prio l with
      | none =>
        rw [hp] at h
        simp only [Option.some.injEq, Prod.mk.injEq] at h
        obtain ⟨rfl, rfl⟩ := h
        have hl := ih1 hp
        subst hl
        refine ⟨List.mem_cons_self .., ?_, ?_⟩
        · intro b hb
          rw [List.mem_singleton.mp hb]
        · exact List.Perm.refl _
      | some r =>
        obtain ⟨m', l'⟩ := r
        rw [hp] at h
        simp only at h
        obtain ⟨hm', hmax, hperm⟩ := ih2 m' l' hp
        by_cases hle : prio m' ≤ prio a
        · rw [if_pos hle] at h
          simp only [Option.some.injEq, Prod.mk.injEq] at h
          obtain ⟨rfl, rfl⟩ := h
          refine ⟨List.mem_cons_self .., ?_, ?_⟩
          · intro b hb
            rcases List.mem_cons.mp hb with rfl | hb'
            · exact Int.le_refl _
            · exact Int.le_trans (hmax b hb') hle
          · exact List.Perm.refl _
        · rw [if_neg hle] at h
          simp only [Option.some.injEq, Prod.mk.injEq] at h
          obtain ⟨rfl, rfl⟩ := h
          refine ⟨List.mem_cons_of_mem _ hm', ?_, ?_⟩
          · intro b hb
            rcases List.mem_cons.mp hb with rfl | hb'
            · omega
            · exact hmax b hb'
          · exact (List.Perm.cons a hperm).trans (List.Perm.swap m' a l')

/-! ### `_update` with the agenda -/

theorem eUpdate_ckeys (col : ECol σ K) (I : Nat) (X : σ) (Ys : List σ) (v : K) (key : Nat × σ) :
    key ∈ (eUpdate col I X Ys v).c_chart.map (·.1) ↔
      key ∈ col.c_chart.map (·.1) ∨ (Ys = [] ∧ key = (I, X)) := by
  unfold eUpdate; split
  · next h => simp only [upd_eq_add, mem_keys_add]; simp [h]
  · next h => simp [h]

/-- a sequence of `_update`s that also maintains the agenda -/
def foldUpdQ (st : ECol σ K × List (Nat × σ)) (L : List (EItem σ × K)) : ECol σ K × List (Nat × σ) :=
  L.foldl (fun st e => eUpdateQ st e.1.1 e.1.2.1 e.1.2.2 e.2) st

theorem foldUpdQ_spec (L : List (EItem σ × K)) (st : ECol σ K × List (Nat × σ)) :
    (foldUpdQ st L).1 = foldUpd st.1 L ∧
    ∃ extra, (foldUpdQ st L).2 = st.2 ++ extra ∧ extra.Nodup ∧
      (∀ n ∈ extra, n ∉ st.1.c_chart.map (·.1) ∧ ∃ e ∈ L, e.1 = (n.1, n.2, [])) ∧
      (∀ n, n ∈ (foldUpdQ st L).1.c_chart.map (·.1) ↔ n ∈ st.1.c_chart.map (·.1) ∨ n ∈ extra) := by
  induction L generalizing st with
  | nil => exact ⟨rfl, [], by simp [foldUpdQ], List.nodup_nil, by simp, by simp [foldUpdQ]⟩
  | cons e L ih =>
    obtain ⟨i1, extra1, i2, i3, i4, i5⟩ := ih (eUpdateQ st e.1.1 e.1.2.1 e.1.2.2 e.2)
    have hfold : foldUpdQ st (e :: L) = foldUpdQ (eUpdateQ st e.1.1 e.1.2.1 e.1.2.2 e.2) L := rfl
    rw [hfold]
    refine ⟨by rw [i1]; rfl, ?_⟩
    have hck : ∀ n, n ∈ (eUpdateQ st e.1.1 e.1.2.1 e.1.2.2 e.2).1.c_chart.map (·.1) ↔
        n ∈ st.1.c_chart.map (·.1) ∨ (e.1.2.2 = [] ∧ n = (e.1.1, e.1.2.1)) := by
      intro n; exact eUpdate_ckeys st.1 _ _ _ _ n
    by_cases hnew : e.1.2.2 = [] ∧ st.1.c_chart.has (e.1.1, e.1.2.1) = false
    · -- a new complete item: pushed
      have hq : (eUpdateQ st e.1.1 e.1.2.1 e.1.2.2 e.2).2 = st.2 ++ [(e.1.1, e.1.2.1)] := by
        unfold eUpdateQ; simp only; rw [if_pos hnew]
      have hnk : (e.1.1, e.1.2.1) ∉ st.1.c_chart.map (·.1) := by
        intro hmem
        have := (has_iff st.1.c_chart _).mpr hmem
        rw [hnew.2] at this; cases this
      refine ⟨(e.1.1, e.1.2.1) :: extra1, ?_, ?_, ?_, ?_⟩
      · rw [i2, hq, List.append_assoc]; rfl
      · refine List.nodup_cons.mpr ⟨?_, i3⟩
        intro hmem
        exact (i4 _ hmem).1 ((hck _).mpr (Or.inr ⟨hnew.1, rfl⟩))
      · intro n hn
        rcases List.mem_cons.mp hn with rfl | hn'
        · refine ⟨hnk, e, List.mem_cons_self .., ?_⟩
          obtain ⟨⟨I, X, Ys⟩, v⟩ := e
          simp only at hnew ⊢
          rw [hnew.1]
        · obtain ⟨h1, e', he', h2⟩ := i4 n hn'
          exact ⟨fun hmem => h1 ((hck n).mpr (Or.inl hmem)), e', List.mem_cons_of_mem _ he', h2⟩
      · intro n
        rw [i5, hck, List.mem_cons]
        constructor
        · rintro ((h | ⟨_, h⟩) | h)
          · exact Or.inl h
          · exact Or.inr (Or.inl h)
          · exact Or.inr (Or.inr h)
        · rintro (h | h | h)
          · exact Or.inl (Or.inl h)
          · exact Or.inl (Or.inr ⟨hnew.1, h⟩)
          · exact Or.inr h
    · have hq : (eUpdateQ st e.1.1 e.1.2.1 e.1.2.2 e.2).2 = st.2 := by
        unfold eUpdateQ; simp only; rw [if_neg hnew]
      refine ⟨extra1, by rw [i2, hq], i3, ?_, ?_⟩
      · intro n hn
        obtain ⟨h1, e', he', h2⟩ := i4 n hn
        exact ⟨fun hmem => h1 ((hck n).mpr (Or.inl hmem)), e', List.mem_cons_of_mem _ he', h2⟩
      · intro n
        rw [i5, hck]
        constructor
        · rintro ((h | ⟨h1, h2⟩) | h)
          · exact Or.inl h
          · left
            rw [h2]
            by_contra hnk
            apply hnew
            refine ⟨h1, ?_⟩
            cases hh : st.1.c_chart.has (e.1.1, e.1.2.1) with
            | false => rfl
            | true => exact absurd ((has_iff _ _).mp hh) hnk
          · exact Or.inr h
        · rintro (h | h)
          · exact Or.inl (Or.inl h)
          · exact Or.inr h

end Genlm.EarleyAux

namespace Genlm.EarleyAux
variable {σ K : Type} [DecidableEq σ] [CommSemiring K]
open IncCkyAux

/-! ### the invariant of the ATTACH loop with the agenda -/

/-- `popped`: the items popped so far (in order), `Q`: the agenda, `col`: the column under construction,
`s0`: the column after SCAN -/
structure QInv (G : CFG σ K) (order : σ → Nat) (k : Nat) (cols : List (ECol σ K)) (s0 col : ECol σ K)
    (popped Q : List (Nat × σ)) : Prop where
  nodup : (popped ++ Q).Nodup
  keys : ∀ n, n ∈ col.c_chart.map (·.1) ↔ n ∈ popped ∨ n ∈ Q
  sorted : popped.Pairwise (fun a b => itemPrio G order (k + 1) b ≤ itemPrio G order (k + 1) a)
  below : ∀ a ∈ popped, ∀ b ∈ Q, itemPrio G order (k + 1) b ≤ itemPrio G order (k + 1) a
  cands : ∀ n, n ∈ popped ∨ n ∈ Q → n ∈ schedCands G (k + 1)
  hist : col = popped.foldl (attachOne cols) s0

/-- the `_update`s of one ATTACH iteration -/
def attachL (cols : List (ECol σ K)) (col : ECol σ K) (jy : Nat × σ) : List (EItem σ × K) :=
  ((cols.getD jy.1 (ECol.empty jy.1)).waitingFor jy.2).map fun it =>
    (((it.1, it.2.1, it.2.2.tail) : EItem σ),
      (cols.getD jy.1 (ECol.empty jy.1)).i_chart.get it * col.c_chart.get jy)

theorem attachStepQ_eq (cols : List (ECol σ K)) (col : ECol σ K) (Q' : List (Nat × σ)) (jy : Nat × σ) :
    attachStepQ cols col Q' jy = foldUpdQ (col, Q') (attachL cols col jy) := by
  unfold attachStepQ foldUpdQ attachL
  simp only
  rw [List.foldl_map]

theorem attachOne_eq (cols : List (ECol σ K)) (col : ECol σ K) (jy : Nat × σ)
    (h : jy ∈ col.c_chart.map (·.1)) : attachOne cols col jy = foldUpd col (attachL cols col jy) := by
  unfold attachOne foldUpd attachL
  rw [if_pos ((has_iff _ _).mpr h)]
  simp only
  rw [List.foldl_map]

/-- a complete item created while `(J, Y)` is processed has a strictly smaller priority -/
theorem push_prio (G : CFG σ K) (order : σ → Nat) (hA : Acyc G order) (k : Nat) (cols : List (ECol σ K))
    (hkeys : ∀ J ≤ k, KeysOK G J (cols.getD J (ECol.empty J))) (col : ECol σ K) (jy : Nat × σ)
    (hjy : jy ∈ schedCands G (k + 1)) (n : Nat × σ)
    (hn : ∃ e ∈ attachL cols col jy, e.1 = (n.1, n.2, [])) :
    n ∈ schedCands G (k + 1) ∧ itemPrio G order (k + 1) n < itemPrio G order (k + 1) jy := by
  obtain ⟨hj1, hj2⟩ := (mem_schedCands G (k + 1) jy).mp hjy
  obtain ⟨e, he, hen⟩ := hn
  unfold attachL at he
  obtain ⟨it, hit, rfl⟩ := List.mem_map.mp he
  simp only [Prod.mk.injEq] at hen
  obtain ⟨e1, e2, e3⟩ := hen
  have hitk := mem_waitingFor _ _ _ hit
  have hhead : it.2.2.head? = some jy.2 := by
    have := (List.mem_filter.mp hit).2
    simpa using this
  have hYs : it.2.2 = [jy.2] := by
    match hY : it.2.2, hhead, e3 with
    | [s], hhead, _ =>
      simp only [List.head?_cons, Option.some.injEq] at hhead
      rw [hhead]
  obtain ⟨h1, r, hr, h2, h3⟩ := hkeys jy.1 (by omega) it hitk
  have hX : n.2 ∈ heads G := by rw [← e2, ← h2]; exact mem_heads_of_rule G r hr
  refine ⟨(mem_schedCands G (k + 1) n).mpr ⟨by omega, hX⟩, ?_⟩
  have hm1 := order_le_max G order n.2 hX
  have hm2 := order_le_max G order jy.2 hj2
  have hdep : (n.1 : Int) < jy.1 ∨ ((n.1 : Int) = jy.1 ∧ (order jy.2 : Int) < order n.2) := by
    rcases Nat.lt_or_ge it.1 jy.1 with hlt | hge
    · left; omega
    · right
      have he : it.1 = jy.1 := by omega
      refine ⟨by omega, ?_⟩
      have hb := h3 he
      rw [hYs] at hb
      have := hA.topo r hr (by rw [hb]; rfl) jy.2 (by rw [hb]; simp) (heads_notin_V hA jy.2 hj2)
      rw [h2, e2] at this
      omega
  have := Gen.Earley.priority_strict ((k + 1 : Nat) : Int) n.1 jy.1 (orderMaxArg G order : Int) (order n.2)
    (order jy.2) (by omega) (by omega) (by omega) (by omega) (by omega) hdep
  unfold itemPrio
  omega

section loop
variable {G : CFG σ K} {order : σ → Nat} {k : Nat} {cols : List (ECol σ K)} {s0 : ECol σ K}

theorem qinv_step (hA : Acyc G order) (hkeys : ∀ J ≤ k, KeysOK G J (cols.getD J (ECol.empty J)))
    (pick : List (Nat × σ) → Option ((Nat × σ) × List (Nat × σ)))
    (hpick : PickOK (itemPrio G order (k + 1)) pick) (col : ECol σ K) (popped Q : List (Nat × σ))
    (inv : QInv G order k cols s0 col popped Q) (m : Nat × σ) (Q' : List (Nat × σ))
    (hp : pick Q = some (m, Q')) :
    QInv G order k cols s0 (attachStepQ cols col Q' m).1 (popped ++ [m]) (attachStepQ cols col Q' m).2 := by
  obtain ⟨hmQ, hmax, hperm⟩ := (hpick Q).2 m Q' hp
  have hQperm : Q.Perm (m :: Q') := hperm
  have hmemQ : ∀ n, n ∈ Q ↔ n = m ∨ n ∈ Q' := by
    intro n; rw [hQperm.mem_iff, List.mem_cons]
  have hmkey : m ∈ col.c_chart.map (·.1) := (inv.keys m).mpr (Or.inr hmQ)
  have hmc : m ∈ schedCands G (k + 1) := inv.cands m (Or.inr hmQ)
  rw [attachStepQ_eq]
  obtain ⟨f1, extra, f2, f3, f4, f5⟩ := foldUpdQ_spec (attachL cols col m) (col, Q')
  simp only at f1 f2 f4 f5
  have hextra : ∀ n ∈ extra, n ∈ schedCands G (k + 1) ∧
      itemPrio G order (k + 1) n < itemPrio G order (k + 1) m :=
    fun n hn => push_prio G order hA k cols hkeys col m hmc n (f4 n hn).2
  have hnd1 : (popped ++ [m] ++ Q').Nodup := by
    have : (popped ++ Q).Perm (popped ++ [m] ++ Q') := by
      rw [List.append_assoc]
      exact List.Perm.append_left popped hQperm
    exact this.nodup_iff.mp inv.nodup
  refine ⟨?_, ?_, ?_, ?_, ?_, ?_⟩
  · rw [f2, ← List.append_assoc]
    rw [List.nodup_append]
    refine ⟨hnd1, f3, ?_⟩
    intro a' ha' b hb e
    subst e
    apply (f4 a' hb).1
    rw [inv.keys]
    rcases List.mem_append.mp ha' with h | h
    · rcases List.mem_append.mp h with h' | h'
      · exact Or.inl h'
      · right; rw [hmemQ]; exact Or.inl (List.mem_singleton.mp h')
    · right; rw [hmemQ]; exact Or.inr h
  · intro n
    rw [f5, inv.keys, f2, hmemQ, List.mem_append, List.mem_append, List.mem_singleton]
    constructor
    · rintro ((h | h | h) | h)
      · exact Or.inl (Or.inl h)
      · exact Or.inl (Or.inr h)
      · exact Or.inr (Or.inl h)
      · exact Or.inr (Or.inr h)
    · rintro ((h | h) | h | h)
      · exact Or.inl (Or.inl h)
      · exact Or.inl (Or.inr (Or.inl h))
      · exact Or.inl (Or.inr (Or.inr h))
      · exact Or.inr h
  · rw [List.pairwise_append]
    refine ⟨inv.sorted, List.pairwise_singleton _ _, ?_⟩
    intro a' ha' b hb
    rw [List.mem_singleton.mp hb]
    exact inv.below a' ha' m hmQ
  · intro a' ha' b hb
    rw [f2] at hb
    have hbm : itemPrio G order (k + 1) b ≤ itemPrio G order (k + 1) m := by
      rcases List.mem_append.mp hb with h | h
      · exact hmax b ((hmemQ b).mpr (Or.inr h))
      · exact Int.le_of_lt (hextra b h).2
    rcases List.mem_append.mp ha' with h | h
    · exact Int.le_trans hbm (inv.below a' h m hmQ)
    · rw [List.mem_singleton.mp h]; exact hbm
  · intro n hn
    rw [f2] at hn
    rcases hn with h | h
    · rcases List.mem_append.mp h with h' | h'
      · exact inv.cands n (Or.inl h')
      · rw [List.mem_singleton.mp h']; exact hmc
    · rcases List.mem_append.mp h with h' | h'
      · exact inv.cands n (Or.inr ((hmemQ n).mpr (Or.inr h')))
      · exact (hextra n h').1
  · rw [f1, List.foldl_append, ← inv.hist]
    simp only [List.foldl_cons, List.foldl_nil]
    exact (attachOne_eq cols col m hmkey).symm

/-- **the loop empties the agenda** (the fuel suffices) and keeps the invariant -/
theorem attachLoopQ_spec (hA : Acyc G order) (hkeys : ∀ J ≤ k, KeysOK G J (cols.getD J (ECol.empty J)))
    (pick : List (Nat × σ) → Option ((Nat × σ) × List (Nat × σ)))
    (hpick : PickOK (itemPrio G order (k + 1)) pick) :
    ∀ fuel (col : ECol σ K) (popped Q : List (Nat × σ)), QInv G order k cols s0 col popped Q →
      (schedCands G (k + 1)).length < fuel + popped.length →
      QInv G order k cols s0 (attachLoopQ pick cols fuel col popped Q).1
        (attachLoopQ pick cols fuel col popped Q).2.1 (attachLoopQ pick cols fuel col popped Q).2.2 ∧
      (attachLoopQ pick cols fuel col popped Q).2.2 = [] := by
  intro fuel
  induction fuel with
  | zero =>
    intro col popped Q inv hf
    exfalso
    have hnd : popped.Nodup := (List.nodup_append.mp inv.nodup).1
    have := List.Nodup.length_le_of_subset hnd (fun n hn => inv.cands n (Or.inl hn))
    omega
  | succ fuel ih =>
    intro col popped Q inv hf
    unfold attachLoopQ
    cases hp : pick Q with
    | none =>
      simp only
      have := (hpick Q).1 hp
      subst this
      exact ⟨inv, rfl⟩
    | some r =>
      obtain ⟨m, Q'⟩ := r
      simp only
      apply ih _ _ _ (qinv_step hA hkeys pick hpick col popped Q inv m Q' hp)
      simp only [List.length_append, List.length_singleton]
      omega

end loop
end Genlm.EarleyAux

namespace Genlm.EarleyAux
variable {σ K : Type} [DecidableEq σ] [CommSemiring K]
open IncCkyAux

/-! ### the run of the agenda is a run of a schedule -/

theorem foldUpd_ckeys_mono (L : List (EItem σ × K)) (col : ECol σ K) (n : Nat × σ)
    (h : n ∈ col.c_chart.map (·.1)) : n ∈ (foldUpd col L).c_chart.map (·.1) := by
  induction L generalizing col with
  | nil => exact h
  | cons e L ih =>
    have hfold : foldUpd col (e :: L) = foldUpd (eUpdate col e.1.1 e.1.2.1 e.1.2.2 e.2) L := rfl
    rw [hfold]
    exact ih _ ((eUpdate_ckeys col _ _ _ _ n).mpr (Or.inl h))

theorem attachOne_ckeys_mono (cols : List (ECol σ K)) (col : ECol σ K) (jy n : Nat × σ)
    (h : n ∈ col.c_chart.map (·.1)) : n ∈ (attachOne cols col jy).c_chart.map (·.1) := by
  by_cases hj : jy ∈ col.c_chart.map (·.1)
  · rw [attachOne_eq cols col jy hj]; exact foldUpd_ckeys_mono _ _ n h
  · unfold attachOne
    rw [if_neg]
    · exact h
    · intro hh; exact hj ((has_iff _ _).mp hh)

theorem attachFold_ckeys_mono (cols : List (ECol σ K)) (l : List (Nat × σ)) (col : ECol σ K) (n : Nat × σ)
    (h : n ∈ col.c_chart.map (·.1)) : n ∈ (l.foldl (attachOne cols) col).c_chart.map (·.1) := by
  induction l generalizing col with
  | nil => exact h
  | cons jy l ih => exact ih _ (attachOne_ckeys_mono cols col jy n h)

/-- a candidate that is never a key of `c_chart` is skipped wherever it stands in the schedule -/
theorem attachFold_skip (cols : List (ECol σ K)) (l1 l2 : List (Nat × σ)) (c : Nat × σ) (s : ECol σ K)
    (hc : c ∉ ((l1 ++ l2).foldl (attachOne cols) s).c_chart.map (·.1)) :
    (l1 ++ c :: l2).foldl (attachOne cols) s = (l1 ++ l2).foldl (attachOne cols) s := by
  rw [List.foldl_append, List.foldl_append, List.foldl_cons]
  have hc1 : c ∉ (l1.foldl (attachOne cols) s).c_chart.map (·.1) := by
    intro hmem
    apply hc
    rw [List.foldl_append]
    exact attachFold_ckeys_mono cols l2 _ c hmem
  have : attachOne cols (l1.foldl (attachOne cols) s) c = l1.foldl (attachOne cols) s := by
    unfold attachOne
    rw [if_neg]
    intro hh; exact hc1 ((has_iff _ _).mp hh)
  rw [this]

theorem insertPrio_split {α : Type} (p : α → Int) (c : α) (l : List α) :
    ∃ l1 l2, l = l1 ++ l2 ∧ insertPrio p c l = l1 ++ c :: l2 := by
  induction l with
  | nil => exact ⟨[], [], rfl, rfl⟩
  | cons b l ih =>
    obtain ⟨l1, l2, h1, h2⟩ := ih
    simp only [insertPrio]
    split
    · exact ⟨b :: l1, l2, by rw [h1]; rfl, by rw [h2]; rfl⟩
    · exact ⟨[], b :: l, rfl, rfl⟩

/-- the schedule a run of the agenda corresponds to: the popped items in pop order, with the candidates that never
entered the agenda inserted at the place their priority assigns them -/
def schedOfRun (G : CFG σ K) (order : σ → Nat) (k : Nat) (popped : List (Nat × σ)) : List (Nat × σ) :=
  ((schedCands G (k + 1)).filter (fun c => c ∉ popped)).foldl
    (fun acc c => insertPrio (itemPrio G order (k + 1)) c acc) popped

theorem insertFold_run (cols : List (ECol σ K)) (p : Nat × σ → Int) (s0 final : ECol σ K)
    (rest acc : List (Nat × σ)) (hacc : acc.foldl (attachOne cols) s0 = final)
    (hrest : ∀ c ∈ rest, c ∉ final.c_chart.map (·.1)) :
    (rest.foldl (fun acc c => insertPrio p c acc) acc).foldl (attachOne cols) s0 = final := by
  induction rest generalizing acc with
  | nil => exact hacc
  | cons c rest ih =>
    simp only [List.foldl_cons]
    apply ih _ _ (fun c' hc' => hrest c' (List.mem_cons_of_mem _ hc'))
    obtain ⟨l1, l2, h1, h2⟩ := insertPrio_split p c acc
    rw [h2, attachFold_skip cols l1 l2 c s0 (by rw [← h1, hacc]; exact hrest c (List.mem_cons_self ..)),
      ← h1, hacc]

section loop
variable {G : CFG σ K} {order : σ → Nat} {k : Nat} {cols : List (ECol σ K)} {s0 : ECol σ K}

theorem run_eq_sched (col : ECol σ K) (popped : List (Nat × σ)) (inv : QInv G order k cols s0 col popped []) :
    (schedOfRun G order k popped).foldl (attachOne cols) s0 = col := by
  unfold schedOfRun
  apply insertFold_run cols _ s0 col _ popped inv.hist.symm
  intro c hc hmem
  have := (List.mem_filter.mp hc).2
  simp only [decide_eq_true_eq] at this
  rcases (inv.keys c).mp hmem with h | h
  · exact this h
  · cases h

theorem run_schedOK (hA : Acyc G order) (col : ECol σ K) (popped : List (Nat × σ))
    (inv : QInv G order k cols s0 col popped []) : SchedOK G (k + 1) (schedOfRun G order k popped) := by
  obtain ⟨hperm, hsorted⟩ := foldl_insertPrio_spec (itemPrio G order (k + 1))
    ((schedCands G (k + 1)).filter (fun c => c ∉ popped)) popped inv.sorted
  apply schedOK_of_sorted G order hA (k + 1) _ ?_ hsorted
  refine hperm.trans ?_
  have hpnd : popped.Nodup := by simpa using inv.nodup
  rw [List.perm_ext_iff_of_nodup ?_ (schedCands_nodup G (k + 1))]
  · intro n
    rw [List.mem_append, List.mem_filter]
    simp only [decide_eq_true_eq]
    constructor
    · rintro (h | ⟨h, _⟩)
      · exact inv.cands n (Or.inl h)
      · exact h
    · intro h
      by_cases hp : n ∈ popped
      · exact Or.inl hp
      · exact Or.inr ⟨h, hp⟩
  · rw [List.nodup_append]
    refine ⟨hpnd, (schedCands_nodup G (k + 1)).filter _, ?_⟩
    intro a' ha' b hb e
    subst e
    have := (List.mem_filter.mp hb).2
    simp only [decide_eq_true_eq] at this
    exact this ha'

end loop

/-- **one column**: `next_column` with the agenda computes the column of the scheduled model, for a schedule that
respects the dependencies -/
theorem nextColumnQ_eq (G : CFG σ K) (order : σ → Nat) (hA : Acyc G order) (k : Nat)
    (pick : List (Nat × σ) → Option ((Nat × σ) × List (Nat × σ)))
    (hpick : PickOK (itemPrio G order (k + 1)) pick) (cols : List (ECol σ K)) (hlen : cols.length = k + 1)
    (hk : (cols.getD k (ECol.empty k)).k = k) (hkeys : ∀ J ≤ k, KeysOK G J (cols.getD J (ECol.empty J))) (a : σ) :
    SchedOK G (k + 1) (schedOfRun G order k (nextColumnPreQ G pick cols a).2.1) ∧
    nextColumnQ G pick cols a = nextColumnWith G (schedOfRun G order k (nextColumnPreQ G pick cols a).2.1) cols a := by
  have hlast : cols.getLastD (ECol.empty 0) = cols.getD k (ECol.empty k) := by
    have hk' : k < cols.length := by omega
    rw [List.getLastD_eq_getLast?, List.getLast?_eq_getElem?, List.getD_eq_getElem?_getD, hlen,
      Nat.add_sub_cancel, List.getElem?_eq_getElem hk']
    rfl
  -- the state after SCAN
  have hscan : scanStepQ (cols.getD k (ECol.empty k)) a ((ECol.empty (k + 1) : ECol σ K), []) =
      foldUpdQ ((ECol.empty (k + 1) : ECol σ K), []) (((cols.getD k (ECol.empty k)).waitingFor a).map fun it =>
        (((it.1, it.2.1, it.2.2.tail) : EItem σ), (cols.getD k (ECol.empty k)).i_chart.get it)) := by
    unfold scanStepQ foldUpdQ
    rw [List.foldl_map]
  have hscan' : scanStep (cols.getD k (ECol.empty k)) a (ECol.empty (k + 1) : ECol σ K) =
      foldUpd (ECol.empty (k + 1) : ECol σ K) (((cols.getD k (ECol.empty k)).waitingFor a).map fun it =>
        (((it.1, it.2.1, it.2.2.tail) : EItem σ), (cols.getD k (ECol.empty k)).i_chart.get it)) := by
    unfold scanStep foldUpd
    rw [List.foldl_map]
  obtain ⟨f1, extra, f2, f3, f4, f5⟩ := foldUpdQ_spec
    (((cols.getD k (ECol.empty k)).waitingFor a).map fun it =>
      (((it.1, it.2.1, it.2.2.tail) : EItem σ), (cols.getD k (ECol.empty k)).i_chart.get it))
    ((ECol.empty (k + 1) : ECol σ K), [])
  rw [← hscan] at f1 f2 f5
  rw [← hscan'] at f1
  simp only [List.nil_append] at f2
  have inv0 : QInv G order k cols (scanStep (cols.getD k (ECol.empty k)) a (ECol.empty (k + 1)))
      (scanStepQ (cols.getD k (ECol.empty k)) a ((ECol.empty (k + 1) : ECol σ K), [])).1 []
      (scanStepQ (cols.getD k (ECol.empty k)) a ((ECol.empty (k + 1) : ECol σ K), [])).2 := by
    refine ⟨(by rw [f2]; simpa using f3), ?_, List.Pairwise.nil, (by intro a' ha'; cases ha'), ?_, f1⟩
    · intro n
      rw [f5, f2]
      constructor
      · rintro (h | h)
        · cases h
        · exact Or.inr h
      · rintro (h | h)
        · cases h
        · exact Or.inr h
    · intro n hn
      rcases hn with h | h
      · cases h
      · rw [f2] at h
        obtain ⟨_, e, he, hen⟩ := f4 n h
        obtain ⟨it, hit, rfl⟩ := List.mem_map.mp he
        simp only [Prod.mk.injEq] at hen
        obtain ⟨h1, r, hr, h2, _⟩ := hkeys k (Nat.le_refl k) it (mem_waitingFor _ _ _ hit)
        refine (mem_schedCands G (k + 1) n).mpr ⟨by omega, ?_⟩
        rw [← hen.2.1, ← h2]
        exact mem_heads_of_rule G r hr
  obtain ⟨invF, hQ⟩ := attachLoopQ_spec hA hkeys pick hpick ((schedCands G (k + 1)).length + 1) _ _ _ inv0
    (by simp)
  have hpre : nextColumnPreQ G pick cols a = attachLoopQ pick cols ((schedCands G (k + 1)).length + 1)
      (scanStepQ (cols.getD k (ECol.empty k)) a ((ECol.empty (k + 1) : ECol σ K), [])).1 []
      (scanStepQ (cols.getD k (ECol.empty k)) a ((ECol.empty (k + 1) : ECol σ K), [])).2 := by
    unfold nextColumnPreQ
    simp only
    rw [hlast, hk]
  rw [← hpre] at invF hQ
  rw [hQ] at invF
  refine ⟨run_schedOK hA _ _ invF, ?_⟩
  unfold nextColumnQ nextColumnWith
  congr 1
  unfold nextColumnPre
  simp only
  rw [hlast, hk]
  exact (run_eq_sched _ _ invF).symm

end Genlm.EarleyAux

namespace Genlm.EarleyAux
variable {σ K : Type} [DecidableEq σ] [CommSemiring K]
open IncCkyAux

/-! ### the chart -/

/-- the schedules that the runs of the agenda on the prefixes of `x` correspond to -/
def schQ (G : CFG σ K) (order : σ → Nat) (pick : Nat → List (Nat × σ) → Option ((Nat × σ) × List (Nat × σ)))
    (x : List σ) : Nat → List (Nat × σ)
  | 0 => schedule G order 0
  | k + 1 =>
    match x[k]? with
    | some a => schedOfRun G order k (nextColumnPreQ G (pick (k + 1)) (earleyChartQ G pick (x.take k)) a).2.1
    | none => schedule G order (k + 1)

theorem earleyChartQ_snoc (G : CFG σ K) (pick : Nat → List (Nat × σ) → Option ((Nat × σ) × List (Nat × σ)))
    (p : List σ) (t : σ) :
    earleyChartQ G pick (p ++ [t]) = earleyChartQ G pick p ++ [earleyExtQ G pick (earleyChartQ G pick p) t] := by
  simp only [earleyChartQ, pureChart, List.foldl_append, List.foldl_cons, List.foldl_nil]

theorem chartQ_eq (G : CFG σ K) (order : σ → Nat) (hA : Acyc G order)
    (pick : Nat → List (Nat × σ) → Option ((Nat × σ) × List (Nat × σ)))
    (hpick : ∀ k, PickOK (itemPrio G order k) (pick k)) (x : List σ) :
    ∀ n, n ≤ x.length → (∀ j, j ≤ n → SchedOK G j (schQ G order pick x j)) ∧
      earleyChartQ G pick (x.take n) = earleyChartWith G (schQ G order pick x) (x.take n) := by
  intro n
  induction n with
  | zero =>
    intro _
    refine ⟨?_, rfl⟩
    intro j hj
    obtain rfl : j = 0 := by omega
    exact schedule_ok G order hA 0
  | succ n ih =>
    intro hn
    obtain ⟨ihs, ihc⟩ := ih (by omega)
    have hlt : n < x.length := by omega
    have htake : x.take (n + 1) = x.take n ++ [x[n]] := by
      rw [List.take_add_one, List.getElem?_eq_getElem hlt]; rfl
    obtain ⟨hlen, hshape⟩ := chart_shape G (schQ G order pick x) (x.take n)
    rw [List.length_take, Nat.min_eq_left (by omega)] at hlen hshape
    have hsch : schQ G order pick x (n + 1) = schedOfRun G order n
        (nextColumnPreQ G (pick (n + 1)) (earleyChartWith G (schQ G order pick x) (x.take n)) x[n]).2.1 := by
      show (match x[n]? with
        | some a => schedOfRun G order n (nextColumnPreQ G (pick (n + 1)) (earleyChartQ G pick (x.take n)) a).2.1
        | none => schedule G order (n + 1)) = _
      rw [List.getElem?_eq_getElem hlt, ihc]
    obtain ⟨q1, q2⟩ := nextColumnQ_eq G order hA n (pick (n + 1)) (hpick (n + 1))
      (earleyChartWith G (schQ G order pick x) (x.take n)) hlen (hshape n (Nat.le_refl n)).1
      (fun J hJ => (hshape J hJ).2) x[n]
    rw [← hsch] at q1 q2
    have hlastk : ((earleyChartWith G (schQ G order pick x) (x.take n)).getLastD (ECol.empty 0)).k = n := by
      have hk' : n < (earleyChartWith G (schQ G order pick x) (x.take n)).length := by omega
      rw [List.getLastD_eq_getLast?, List.getLast?_eq_getElem?, hlen, Nat.add_sub_cancel,
        List.getElem?_eq_getElem hk']
      have := (hshape n (Nat.le_refl n)).1
      rw [List.getD_eq_getElem?_getD, List.getElem?_eq_getElem hk'] at this
      exact this
    constructor
    · intro j hj
      rcases Nat.lt_or_ge n j with h | h
      · obtain rfl : j = n + 1 := by omega
        exact q1
      · exact ihs j h
    · rw [htake, earleyChartQ_snoc, earleyChartWith_snoc, ihc]
      congr 2
      unfold earleyExtQ earleyExtWith
      rw [hlastk]
      exact q2

theorem schQ_ok (G : CFG σ K) (order : σ → Nat) (hA : Acyc G order)
    (pick : Nat → List (Nat × σ) → Option ((Nat × σ) × List (Nat × σ)))
    (hpick : ∀ k, PickOK (itemPrio G order k) (pick k)) (x : List σ) (j : Nat) :
    SchedOK G j (schQ G order pick x j) := by
  rcases Nat.lt_or_ge x.length j with h | h
  · match j, h with
    | k + 1, h =>
      show SchedOK G (k + 1) (match x[k]? with
        | some a => schedOfRun G order k (nextColumnPreQ G (pick (k + 1)) (earleyChartQ G pick (x.take k)) a).2.1
        | none => schedule G order (k + 1))
      rw [List.getElem?_eq_none (by omega)]
      exact schedule_ok G order hA (k + 1)
  · exact (chartQ_eq G order hA pick hpick x x.length (Nat.le_refl _)).1 j h

end Genlm.EarleyAux

namespace Genlm
variable {σ K : Type} [DecidableEq σ] [CommSemiring K]
open IncCkyAux EarleyAux

/-- the chart computed with the agenda is the chart of the scheduled model for schedules that respect the
dependencies -/
theorem earleyChartQ_eq_sched (G : CFG σ K) (order : σ → Nat) (hA : Acyc G order)
    (pick : Nat → List (Nat × σ) → Option ((Nat × σ) × List (Nat × σ)))
    (hpick : ∀ k, PickOK (itemPrio G order k) (pick k)) (x : List σ) :
    (∀ j, SchedOK G j (schQ G order pick x j)) ∧
    ∀ n, n ≤ x.length → earleyChartQ G pick (x.take n) = earleyChartWith G (schQ G order pick x) (x.take n) :=
  ⟨schQ_ok G order hA pick hpick x, fun n hn => (chartQ_eq G order hA pick hpick x n hn).2⟩

/-- **C02 for the Earley parser with its agenda**: for every pop function that returns an item of maximal
priority, `Earley(cfg)(x)` is the derivation sum -/
theorem earleyQ_correct (G : CFG σ K) (order : σ → Nat) (M : Nat) (hA : Acyc G order) (hM : OrderBound G order M)
    (pick : Nat → List (Nat × σ) → Option ((Nat × σ) × List (Nat × σ)))
    (hpick : ∀ k, PickOK (itemPrio G order k) (pick k))
    (x : List σ) (hx : ∀ a ∈ x, a ∈ G.V) (n : Nat) (hn : x.length * M + 1 ≤ n) :
    earleyCallQ G pick x = WN G n G.S x := by
  obtain ⟨h1, h2⟩ := earleyChartQ_eq_sched G order hA pick hpick x
  have := h2 x.length (Nat.le_refl _)
  rw [List.take_length] at this
  rw [← earley_correct_sched G order M hA hM (schQ G order pick x) h1 x hx n hn]
  unfold earleyCallQ earleyCallWith
  rw [this]

/-- **C04 for the Earley parser with its agenda** -/
theorem earleyQ_pnext (G : CFG σ K) (order : σ → Nat) (M : Nat) (hA : Acyc G order) (hM : OrderBound G order M)
    (pick : Nat → List (Nat × σ) → Option ((Nat × σ) × List (Nat × σ)))
    (hpick : ∀ k, PickOK (itemPrio G order k) (pick k))
    (p : List σ) (hp : ∀ b ∈ p, b ∈ G.V) (a : σ) (ha : a ∈ G.V) (fuel : Nat)
    (hfuel : helperFuel G order (earleyChartQ G pick p) ≤ fuel) :
    (earleyNextTokenWeights G fuel (earleyChartQ G pick p)).get a = earleyCallQ G pick (p ++ [a]) := by
  obtain ⟨h1, h2⟩ := earleyChartQ_eq_sched G order hA pick hpick (p ++ [a])
  have e1 := h2 p.length (by simp)
  rw [List.take_left' rfl] at e1
  have e2 := h2 (p ++ [a]).length (Nat.le_refl _)
  rw [List.take_length] at e2
  rw [e1] at hfuel ⊢
  rw [earley_pnext_sched G order M hA hM (schQ G order pick (p ++ [a])) h1 p hp a ha fuel hfuel]
  unfold earleyCallQ earleyCallWith
  rw [e2]

/-- the instance for the pop function `popMax` (first pushed among the items of maximal priority) -/
theorem earleyQ_correct_popMax (G : CFG σ K) (order : σ → Nat) (M : Nat) (hA : Acyc G order)
    (hM : OrderBound G order M) (x : List σ) (hx : ∀ a ∈ x, a ∈ G.V) (n : Nat) (hn : x.length * M + 1 ≤ n) :
    earleyCallQ G (earleyPick G order) x = WN G n G.S x :=
  earleyQ_correct G order M hA hM _ (fun _ => popMax_ok _) x hx n hn

end Genlm

/-! ### non-vacuity -/
namespace Genlm.EarleyAux.Examples

example : earleyCallQ exG (earleyPick exG exOrd) [11, 10, 11] = 150 := by decide
example : earleyCallQ exG (earleyPick exG exOrd) [11, 10] = 0 ∧ earleyCallQ exG (earleyPick exG exOrd) [11] = 15 := by
  decide
/-- the pop sequence of column 3 of `a + a` -/
example : (nextColumnPreQ exG (earleyPick exG exOrd 3) (earleyChartQ exG (earleyPick exG exOrd) [11, 10]) 11).2
    = ([(2, 2), (0, 1), (0, 0)], []) := by decide

end Genlm.EarleyAux.Examples
