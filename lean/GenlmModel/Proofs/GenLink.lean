import GenlmModel.Proofs.GenLink.Wfsa
import GenlmModel.Proofs.GenLink.WfsaString
import GenlmModel.Proofs.GenLink.Fst
import GenlmModel.Proofs.GenLink.Cfg
import GenlmModel.Proofs.GenLink.Cfglm
import GenlmModel.Proofs.GenLink.WfsaCfg
import GenlmModel.Proofs.GenLink.WfsaEps
import GenlmModel.Proofs.GenLink.WfsaPush
import GenlmModel.Proofs.GenLink.CfgSpawn
import GenlmModel.Proofs.GenLink.CfgUnfold
import GenlmModel.Proofs.GenLink.CfgMapValues
import GenlmModel.Proofs.GenLink.CfgTruncate
import GenlmModel.Proofs.GenLink.ChartProduct
import GenlmModel.Proofs.GenLink.Lm
/-! # The re-checked tie between the Python BUILDER functions and their hand-written models

`harness/translate.py` regenerates `Generated/Builders.lean` from the library's sources on every run; for every
translated function `f` the theorem `gen_<f>_eq_model` states that the regenerated definition is the mirror model
(equal, or `Same`: equal up to the order of the entries).  One file per group of properties, so that an edit of a
builder breaks exactly the properties whose models it regenerates:

| file | source | theorems | property |
|---|---|---|---|
| `GenLink/Wfsa.lean` | `wfsa/base.py` | `lift`, `zero`, `one`, `reverse`, `__add__`, `__mul__`, `kleene_plus`, `rename` (`spawn` inlined) | C12 |
| `GenLink/WfsaString.lean` | `wfsa/base.py` | `WFSA.from_string` | C12, C10 |
| `GenLink/Fst.lean` | `fst.py` | `diag`, `from_string`, `T`, `project`, `_augment_epsilon_transitions`, `epsilon_filter_fst`, `from_pairs` | C10 |
| `GenLink/Cfg.lean` | `cfg.py` | `prefix_transducer` | C03 |
| `GenLink/Cfglm.lean` | `cfglm.py` | `add_EOS`, `locally_normalize` | C20 |
| `GenLink/WfsaEps.lean` | `wfsa/base.py` | `epsremove` (closure = explicit arguments) | C11 |
| `GenLink/WfsaPush.lean` | `wfsa/base.py` | `push` (= the repaired `pushDrop`), `_trim` | C13 |
| `GenLink/WfsaCfg.lean` | `wfsa/base.py` | `to_cfg` (both recursion directions) | C17 |
| `GenLink/CfgSpawn.lean` | `cfg.py` | `spawn`, `separate_start`, `rename` (`CFG.spawn` also inlined into every caller) | C02, C06, C07 |
| `GenLink/CfgUnfold.lean` | `cfg.py` | `unfold` | C06 |
| `GenLink/CfgMapValues.lean` | `cfg.py` | `map_values` | C07 |
| `GenLink/CfgTruncate.lean` | `cfg.py` | the acceptor built by `truncate_length` | C09 |
| `GenLink/ChartProduct.lean` | `chart.py` | `Chart.product` (`Generated/Folds.lean`) | C20 |
| `GenLink/Lm.lean` | `chart.py`, `lm.py` | `Chart.sum`, `Chart.normalize`, `LM.__call__` (`Generated/Folds.lean`) | C04 |
-/
