import GenlmModel.Proofs.GenLink.Wfsa
import GenlmModel.Proofs.GenLink.WfsaString
import GenlmModel.Proofs.GenLink.Fst
import GenlmModel.Proofs.GenLink.Cfg
import GenlmModel.Proofs.GenLink.Cfglm
/-! # The re-checked tie between the Python BUILDER functions and their hand-written models

`harness/translate.py` regenerates `Generated/Builders.lean` from the library's sources on every run; for every
translated function `f` the theorem `gen_<f>_eq_model` states that the regenerated definition is the mirror model
(equal, or `Same`: equal up to the order of the entries).  One file per group of properties, so that an edit of a
builder breaks exactly the properties whose models it regenerates:

| file | source | theorems | property |
|---|---|---|---|
| `GenLink/Wfsa.lean` | `wfsa/base.py` | `lift`, `zero`, `one`, `reverse`, `__add__`, `__mul__`, `kleene_plus` (`spawn` inlined) | C12 |
| `GenLink/WfsaString.lean` | `wfsa/base.py` | `WFSA.from_string` | C12, C10 |
| `GenLink/Fst.lean` | `fst.py` | `diag`, `from_string`, `T`, `project`, `_augment_epsilon_transitions`, `epsilon_filter_fst`, `from_pairs` | C10 |
| `GenLink/Cfg.lean` | `cfg.py` | `prefix_transducer` | C03 |
| `GenLink/Cfglm.lean` | `cfglm.py` | `add_EOS`, `locally_normalize` | C20 |
-/
