import GenlmModel.Model.Basic
/-!
The classical derivation-tree semantics of a context-free grammar, weights ignored:
`Derives G s x` — there is a derivation tree with root `s` and yield `x`.
A symbol is a terminal iff it is in `G.V`; rules whose head is a terminal are never used
(as in `CFG.derivations`, which tests `is_terminal` first).
-/
namespace Genlm
variable {σ K : Type}

mutual
/-- `Derives G s x`: the symbol `s` derives the terminal string `x` -/
inductive Derives (G : CFG σ K) : σ → List σ → Prop
  | term {a : σ} : a ∈ G.V → Derives G a [a]
  | rule {r : Rule σ K} {x : List σ} :
      r ∈ G.rules → r.head ∉ G.V → DerivesBody G r.body x → Derives G r.head x
/-- `DerivesBody G β x`: the symbol string `β` derives the terminal string `x` -/
inductive DerivesBody (G : CFG σ K) : List σ → List σ → Prop
  | nil : DerivesBody G [] []
  | cons {s : σ} {ss u v : List σ} :
      Derives G s u → DerivesBody G ss v → DerivesBody G (s :: ss) (u ++ v)
end

/-- simultaneous induction principle, packaged as a conjunction -/
theorem Derives.both {G : CFG σ K} {P : σ → List σ → Prop} {Q : List σ → List σ → Prop}
    (hterm : ∀ a, a ∈ G.V → P a [a])
    (hrule : ∀ (r : Rule σ K) x, r ∈ G.rules → r.head ∉ G.V → DerivesBody G r.body x →
      Q r.body x → P r.head x)
    (hnil : Q [] [])
    (hcons : ∀ s ss u v, Derives G s u → DerivesBody G ss v → P s u → Q ss v →
      Q (s :: ss) (u ++ v)) :
    (∀ s x, Derives G s x → P s x) ∧ (∀ β x, DerivesBody G β x → Q β x) :=
  ⟨fun _ _ h => Derives.rec (motive_1 := fun s x _ => P s x) (motive_2 := fun β x _ => Q β x)
      (fun h => hterm _ h) (fun h1 h2 h3 ih => hrule _ _ h1 h2 h3 ih) hnil
      (fun h1 h2 ih1 ih2 => hcons _ _ _ _ h1 h2 ih1 ih2) h,
   fun _ _ h => DerivesBody.rec (motive_1 := fun s x _ => P s x) (motive_2 := fun β x _ => Q β x)
      (fun h => hterm _ h) (fun h1 h2 h3 ih => hrule _ _ h1 h2 h3 ih) hnil
      (fun h1 h2 ih1 ih2 => hcons _ _ _ _ h1 h2 ih1 ih2) h⟩

/-- `Derives` depends on the grammar only through the *sets* `V` and `rules` -/
theorem Derives_congr {G G' : CFG σ K} (hV : ∀ a, a ∈ G.V ↔ a ∈ G'.V)
    (hR : ∀ r, r ∈ G.rules ↔ r ∈ G'.rules) :
    (∀ s x, Derives G s x → Derives G' s x) ∧ (∀ β x, DerivesBody G β x → DerivesBody G' β x) :=
  Derives.both
    (fun _ h => .term ((hV _).1 h))
    (fun _ _ h1 h2 _ ih => .rule ((hR _).1 h1) (fun h => h2 ((hV _).2 h)) ih)
    .nil
    (fun _ _ _ _ _ _ ih1 ih2 => .cons ih1 ih2)

/-- permuting the rule list does not change the derivation relation -/
theorem Derives_perm (G : CFG σ K) {rs : List (Rule σ K)} (h : rs.Perm G.rules) (s : σ)
    (x : List σ) : Derives { G with rules := rs } s x ↔ Derives G s x :=
  ⟨(Derives_congr (G := { G with rules := rs }) (G' := G) (fun _ => Iff.rfl)
      (fun _ => h.mem_iff)).1 s x,
   (Derives_congr (G := G) (G' := { G with rules := rs }) (fun _ => Iff.rfl)
      (fun _ => h.mem_iff.symm)).1 s x⟩

theorem DerivesBody_singleton {G : CFG σ K} {s : σ} {x : List σ} :
    DerivesBody G [s] x ↔ Derives G s x := by
  constructor
  · intro h
    cases h with
    | cons h1 h2 => cases h2; simpa using h1
  · intro h
    have := DerivesBody.cons h DerivesBody.nil
    simpa using this

end Genlm
