import GenlmModel.Proofs.LimTransforms
import GenlmModel.Proofs.UCycle

/-! # The `cnf()` pipeline and `unarycycleremove` preserve the TRUE weighted language over `ℝ≥0∞`

* §E  `cnfL` = the model `cnfModel` of `CFG.cnf` instantiated with the TRUE null weights and the TRUE
      closure of the unary rule graph: it is in Chomsky normal form and has the same weighted
      language (every string, the empty one included) as the input grammar, whatever the nullable
      and unary parts of the input look like (cyclic, divergent, …).
* §D  `unarycycleremove` with the TRUE block closures. -/
namespace Genlm
set_option linter.unusedSectionVars false
open scoped ENNReal
open UnfoldAux Sem2Aux LimAux

/-! ## §E the `cnf()` pipeline -/
section
variable {σ K : Type} [DecidableEq σ] [DecidableEq K] [CommSemiring K]

/-- a rule of `cnfPrep` is the new start rule or a rule of the binarised grammar -/
theorem cnfPrep_mem (gen : Nat → σ) (fresh : σ) (G : CFG σ K) (ctr : Nat) {r : Rule σ K}
    (hr : r ∈ (cnfPrep gen fresh G ctr).rules) :
    r = ⟨1, fresh, [G.S]⟩ ∨
      r ∈ (binarize gen (separateTerminals gen G ctr).1 (separateTerminals gen G ctr).2).1.rules := by
  unfold cnfPrep separateStart at hr
  split at hr
  · rcases List.mem_cons.mp (mem_mkRules.mp hr).1 with h | h
    · exact Or.inl h
    · exact Or.inr h
  · exact Or.inr hr

/-- head / body predicates that hold of `G`'s rules and of the generated names hold of the rules of
`separate_terminals` followed by `binarize` -/
theorem binPrep_inv (Hd Bd : σ → Prop) (gen : Nat → σ) (G : CFG σ K) (ctr : Nat)
    (hgen : ∀ i, gen i ∉ G.V) (hHd : ∀ i, Hd (gen i)) (hBd : ∀ i, Bd (gen i))
    (hG : ∀ r ∈ G.rules, Hd r.head ∧ ∀ s ∈ r.body, Bd s) :
    ∀ r ∈ (binarize gen (separateTerminals gen G ctr).1 (separateTerminals gen G ctr).2).1.rules,
      Hd r.head ∧ ∀ s ∈ r.body, Bd s := by
  have h1 := separateTerminals_inv Hd Bd gen G ctr hgen hHd hBd hG
  have h2 := binarize_ruleInv Hd Bd gen (separateTerminals gen G ctr).1
    (separateTerminals gen G ctr).2 hgen hHd hBd h1
  exact fun r hr => ⟨(h2 r hr).1, (h2 r hr).2.1⟩

/-- … and, if they also hold of `fresh` (head) and of the old start symbol (body), of the rules of
`cnfPrep` -/
theorem cnfPrep_inv (Hd Bd : σ → Prop) (gen : Nat → σ) (fresh : σ) (G : CFG σ K) (ctr : Nat)
    (hgen : ∀ i, gen i ∉ G.V) (hHd : ∀ i, Hd (gen i)) (hBd : ∀ i, Bd (gen i))
    (hG : ∀ r ∈ G.rules, Hd r.head ∧ ∀ s ∈ r.body, Bd s) (hf : Hd fresh) (hS : Bd G.S) :
    ∀ r ∈ (cnfPrep gen fresh G ctr).rules, Hd r.head ∧ ∀ s ∈ r.body, Bd s := by
  intro r hr
  rcases cnfPrep_mem gen fresh G ctr hr with rfl | h
  · exact ⟨hf, fun s hs => by
      have : s = G.S := by simpa using hs
      exact this ▸ hS⟩
  · exact binPrep_inv Hd Bd gen G ctr hgen hHd hBd hG r h

/-- after `separate_start` inside `cnfPrep` the start symbol is on no right-hand side -/
theorem cnfPrep_start_off (gen : Nat → σ) (fresh : σ) (G : CFG σ K) (ctr : Nat)
    (hgen : ∀ i, gen i ∉ G.V) (hgenf : ∀ i, gen i ≠ fresh) (hfS : fresh ≠ G.S)
    (hfb : fresh ∉ bodySyms G) :
    (cnfPrep gen fresh G ctr).S ∉ bodySyms (cnfPrep gen fresh G ctr) := by
  have hB := binPrep_inv (fun _ => True) (fun s => s ≠ fresh) gen G ctr hgen (fun _ => trivial)
    hgenf (fun r hr => ⟨trivial, fun s hs e => hfb (mem_bodySyms.mpr ⟨r, hr, e ▸ hs⟩)⟩)
  have hoff := separateStart_off_rhs
    (binarize gen (separateTerminals gen G ctr).1 (separateTerminals gen G ctr).2).1 fresh
    (fun hm => by
      obtain ⟨r, hr, hm⟩ := mem_bodySyms.mp hm
      exact (hB r hr).2 fresh hm rfl)
    hfS
  simp only [startOffRhs, decide_eq_true_eq] at hoff
  exact hoff

/-- the partial sums of the unary closure never connect another symbol to a symbol that is on no
right-hand side -/
theorem UW_zero_of_off_rhs (G : CFG σ K) (S : σ) (hS : ∀ r ∈ G.rules, S ∉ r.body) (k : Nat)
    (Y : σ) (hY : Y ≠ S) : UW G k Y S = 0 := by
  induction k generalizing Y with
  | zero => exact if_neg hY
  | succ k ih =>
    show (if Y = S then 1 else 0) + UNs G.V G.rules (fun Z => UW G k Z S) Y = 0
    rw [if_neg hY, zero_add]
    unfold UNs
    apply sum_map_zero
    intro r hr
    split
    · next h =>
      have hb := (unary_body h.1).1
      have : uTarget r ≠ S := fun e => hS r hr (by rw [hb, e]; simp)
      show r.w * UW G k (uTarget r) S = 0
      rw [ih _ this, mul_zero]
    · rfl

end

section
variable {σ : Type} [DecidableEq σ] [DecidableEq ℝ≥0∞]

/-- the first three stages of `cnf()` (`separate_terminals → binarize → separate_start`) preserve the
true weighted language -/
theorem cnfPrep_WL (gen : Nat → σ) (fresh : σ) (G : CFG σ ℝ≥0∞) (ctr : Nat)
    (hS : G.S ∉ G.V) (hgen : ∀ i, gen i ∉ G.V)
    (hinj : ∀ i j, ctr < i → ctr < j → gen i = gen j → i = j)
    (hhead : ∀ r ∈ G.rules, ∀ k, ctr < k → r.head ≠ gen k)
    (hbody : ∀ r ∈ G.rules, ∀ s ∈ r.body, ∀ k, ctr < k → s ≠ gen k)
    (hSgen : ∀ k, ctr < k → G.S ≠ gen k)
    (hgenf : ∀ i, gen i ≠ fresh) (hfV : fresh ∉ G.V) (hfS : fresh ≠ G.S)
    (hfh : ∀ r ∈ G.rules, r.head ≠ fresh) (hfb : fresh ∉ bodySyms G) (x : List σ) :
    WL (cnfPrep gen fresh G ctr) (cnfPrep gen fresh G ctr).S x = WL G G.S x := by
  have hB := binPrep_inv (fun s => s ≠ fresh) (fun s => s ≠ fresh) gen G ctr hgen hgenf hgenf
    (fun r hr => ⟨hfh r hr, fun s hs e => hfb (mem_bodySyms.mpr ⟨r, hr, e ▸ hs⟩)⟩)
  have hfresh : Fresh (binarize gen (separateTerminals gen G ctr).1
      (separateTerminals gen G ctr).2).1 fresh :=
    ⟨hfV, hfS, fun r hr => ⟨(hB r hr).1, fun hm => (hB r hr).2 fresh hm rfl⟩⟩
  have h1 := separateStart_WL _ fresh hfresh (show G.S ∉ G.V from hS) x
  have h2 := separateTerminals_binarize_WL gen G ctr (fun k _ => hgen k) hinj hhead hbody G.S
    hSgen x
  exact h1.trans h2

/-- the TRUE null weights of the grammar `cnf()` hands to `_push_null_weights` -/
noncomputable def cnfNullW (gen : Nat → σ) (fresh : σ) (G : CFG σ ℝ≥0∞) (ctr : Nat) : σ → ℝ≥0∞ :=
  nullWL (cnfPrep gen fresh G ctr)

/-- the TRUE unary closure of the grammar `cnf()` hands to `unaryremove` -/
noncomputable def cnfUW (gen : Nat → σ) (fresh : σ) (rename : σ → σ) (G : CFG σ ℝ≥0∞) (ctr : Nat) :
    σ → σ → ℝ≥0∞ :=
  UWL (trim (pushNull (cnfNullW gen fresh G ctr) rename (cnfPrep gen fresh G ctr)))

/-- `cnf()` with the true null weights and the true unary closure -/
noncomputable def cnfL (gen : Nat → σ) (fresh : σ) (rename : σ → σ) (G : CFG σ ℝ≥0∞) (ctr : Nat) :
    CFG σ ℝ≥0∞ :=
  cnfModel gen fresh rename (cnfNullW gen fresh G ctr) (cnfUW gen fresh rename G ctr) G ctr

theorem cnfL_S (gen : Nat → σ) (fresh : σ) (rename : σ → σ) (G : CFG σ ℝ≥0∞) (ctr : Nat) :
    (cnfL gen fresh rename G ctr).S = (cnfPrep gen fresh G ctr).S := rfl

/-- **C06 (limit), the whole `cnf()` pipeline**: with the true null weights and the true unary
closure, the CNF grammar gives EVERY string (the empty one included) the same true weight as the
input grammar.  Hypotheses: only freshness of the names (`gen k` for `k > ctr`, `fresh`, `rename y`
are pairwise different new nonterminals) and `S ∉ V`; nothing about the weights, nothing about the
shape of the nullable or unary parts. -/
theorem cnfL_WL (gen : Nat → σ) (fresh : σ) (rename : σ → σ) (G : CFG σ ℝ≥0∞) (ctr : Nat)
    (hS : G.S ∉ G.V) (hgen : ∀ i, gen i ∉ G.V)
    (hinj : ∀ i j, ctr < i → ctr < j → gen i = gen j → i = j)
    (hhead : ∀ r ∈ G.rules, ∀ k, ctr < k → r.head ≠ gen k)
    (hbody : ∀ r ∈ G.rules, ∀ s ∈ r.body, ∀ k, ctr < k → s ≠ gen k)
    (hSgen : ∀ k, ctr < k → G.S ≠ gen k)
    (hgenf : ∀ i, gen i ≠ fresh) (hfV : fresh ∉ G.V) (hfS : fresh ≠ G.S)
    (hfh : ∀ r ∈ G.rules, r.head ≠ fresh) (hfb : fresh ∉ bodySyms G)
    (hrenV : ∀ y, rename y ∉ G.V) (hrenInj : ∀ y z, rename y = rename z → y = z)
    (hrenS : ∀ y, rename y ≠ G.S) (hrenF : ∀ y, rename y ≠ fresh)
    (hrenG : ∀ y i, rename y ≠ gen i)
    (hrenH : ∀ y, ∀ r ∈ G.rules, rename y ≠ r.head) (hrenB : ∀ y, rename y ∉ bodySyms G)
    (x : List σ) :
    WL (cnfL gen fresh rename G ctr) (cnfL gen fresh rename G ctr).S x = WL G G.S x := by
  have hV := cnfPrep_V gen fresh G ctr
  -- the names produced by `rename` are new with respect to the grammar after stage 3
  have hP := cnfPrep_inv (fun s => ∀ y, rename y ≠ s) (fun s => ∀ y, rename y ≠ s) gen fresh G ctr
    hgen (fun i y => hrenG y i) (fun i y => hrenG y i)
    (fun r hr => ⟨fun y => hrenH y r hr,
      fun s hs y e => hrenB y (mem_bodySyms.mpr ⟨r, hr, e ▸ hs⟩)⟩)
    hrenF hrenS
  have hPS : ∀ y, rename y ≠ (cnfPrep gen fresh G ctr).S := by
    intro y
    rcases cnfPrep_S_cases gen fresh G ctr with h | h <;> rw [h]
    · exact hrenF y
    · exact hrenS y
  have hPSV : (cnfPrep gen fresh G ctr).S ∉ (cnfPrep gen fresh G ctr).V := by
    rw [hV]
    rcases cnfPrep_S_cases gen fresh G ctr with h | h <;> rw [h]
    · exact hfV
    · exact hS
  have hoff := cnfPrep_start_off gen fresh G ctr hgen hgenf hfS hfb
  -- stage 7, 6, 5
  have e7 := trim_WL (unaryRemove (cnfUW gen fresh rename G ctr)
    (trim (pushNull (cnfNullW gen fresh G ctr) rename (cnfPrep gen fresh G ctr)))) x
  have e6 := unaryRemove_WL
    (trim (pushNull (cnfNullW gen fresh G ctr) rename (cnfPrep gen fresh G ctr)))
    (cnfPrep gen fresh G ctr).S x
  have e5 := trim_WL (pushNull (cnfNullW gen fresh G ctr) rename (cnfPrep gen fresh G ctr)) x
  -- stage 4
  have e4 := pushNull_WL_start rename (cnfPrep gen fresh G ctr) hPSV hoff
    (fun y => hV ▸ hrenV y) hPS hrenInj
    (fun y r hr => (hP r hr).1 y)
    (fun y hm => by
      obtain ⟨r, hr, hm⟩ := mem_bodySyms.mp hm
      exact (hP r hr).2 _ hm y rfl) x
  -- stages 1-3
  have e3 := cnfPrep_WL gen fresh G ctr hS hgen hinj hhead hbody hSgen hgenf hfV hfS hfh hfb x
  exact e7.trans (e6.trans (e5.trans (e4.trans e3)))

/-- the true closure satisfies the hypothesis of `cnf_shape`: nothing else is connected to the start
symbol -/
theorem cnfUW_start (gen : Nat → σ) (fresh : σ) (rename : σ → σ) (G : CFG σ ℝ≥0∞) (ctr : Nat)
    (hS : G.S ∉ G.V) (hhead : ∀ r ∈ G.rules, r.head ∉ G.V)
    (hgen : ∀ i, gen i ∉ G.V) (hgenf : ∀ i, gen i ≠ fresh)
    (hfV : fresh ∉ G.V) (hfS : fresh ≠ G.S) (hfb : fresh ∉ bodySyms G)
    (hren : ∀ x, rename x ∉ G.V ∧ rename x ≠ (cnfPrep gen fresh G ctr).S) :
    ∀ Y, Y ≠ (cnfPrep gen fresh G ctr).S →
      cnfUW gen fresh rename G ctr Y (cnfPrep gen fresh G ctr).S = 0 := by
  intro Y hY
  obtain ⟨h3S, h3⟩ := cnfPrep_shape gen fresh G ctr hS hhead hgen hgenf hfV hfS hfb
  have hV := cnfPrep_V gen fresh G ctr
  have h4 := pushNull_shape (cnfNullW gen fresh G ctr) rename (cnfPrep gen fresh G ctr)
    (hV ▸ h3S) (hV ▸ h3) (hV ▸ hren)
  unfold cnfUW UWL
  rw [ENNReal.iSup_eq_zero]
  intro k
  refine UW_zero_of_off_rhs _ _ ?_ k Y hY
  intro r hr
  exact (h4 r ((trim_rules_sub _).subset hr)).1.2.1

/-- **C06 + C07 (limit), `cnf()`**: the grammar `cnf()` computes — with the true null weights and the
true unary closure — is in Chomsky normal form and has the same weighted language as the input
(every string, `ε` included), for every input grammar over `ℝ≥0∞` whose start symbol and heads are
nonterminals, given fresh names. -/
theorem cnfL_correct (gen : Nat → σ) (fresh : σ) (rename : σ → σ) (G : CFG σ ℝ≥0∞) (ctr : Nat)
    (hS : G.S ∉ G.V) (hheadV : ∀ r ∈ G.rules, r.head ∉ G.V) (hgen : ∀ i, gen i ∉ G.V)
    (hinj : ∀ i j, ctr < i → ctr < j → gen i = gen j → i = j)
    (hhead : ∀ r ∈ G.rules, ∀ k, ctr < k → r.head ≠ gen k)
    (hbody : ∀ r ∈ G.rules, ∀ s ∈ r.body, ∀ k, ctr < k → s ≠ gen k)
    (hSgen : ∀ k, ctr < k → G.S ≠ gen k)
    (hgenf : ∀ i, gen i ≠ fresh) (hfV : fresh ∉ G.V) (hfS : fresh ≠ G.S)
    (hfh : ∀ r ∈ G.rules, r.head ≠ fresh) (hfb : fresh ∉ bodySyms G)
    (hrenV : ∀ y, rename y ∉ G.V) (hrenInj : ∀ y z, rename y = rename z → y = z)
    (hrenS : ∀ y, rename y ≠ G.S) (hrenF : ∀ y, rename y ≠ fresh)
    (hrenG : ∀ y i, rename y ≠ gen i)
    (hrenH : ∀ y, ∀ r ∈ G.rules, rename y ≠ r.head) (hrenB : ∀ y, rename y ∉ bodySyms G) :
    inCNFb (cnfL gen fresh rename G ctr) = true ∧
      ∀ x, WL (cnfL gen fresh rename G ctr) (cnfL gen fresh rename G ctr).S x = WL G G.S x := by
  have hren : ∀ x, rename x ∉ G.V ∧ rename x ≠ (cnfPrep gen fresh G ctr).S := by
    intro y
    refine ⟨hrenV y, ?_⟩
    rcases cnfPrep_S_cases gen fresh G ctr with h | h <;> rw [h]
    · exact hrenF y
    · exact hrenS y
  refine ⟨?_, fun x => cnfL_WL gen fresh rename G ctr hS hgen hinj hhead hbody hSgen hgenf hfV hfS
    hfh hfb hrenV hrenInj hrenS hrenF hrenG hrenH hrenB x⟩
  exact cnf_shape gen fresh rename _ _ G ctr hS hheadV hgen hgenf hfV hfS hfb hren
    (cnfUW_start gen fresh rename G ctr hS hheadV hgen hgenf hfV hfS hfb hren)

end

/-! ### non-vacuity of `cnfL_correct` -/
section ExamplesE

/-- `0 → 0 0 (1/4) | ε (1/2) | 1 (1/8) | 0 (1/8)`, terminal `1`: cyclic nullable part AND a unary
cycle; every string has infinitely many derivation trees -/
noncomputable def limCnfG : CFG ℕ ℝ≥0∞ :=
  ⟨0, [1], [⟨1/4, 0, [0, 0]⟩, ⟨1/2, 0, []⟩, ⟨1/8, 0, [1]⟩, ⟨1/8, 0, [0]⟩]⟩

theorem limCnfG_heads : ∀ r ∈ limCnfG.rules, r.head = 0 := by
  intro r hr
  simp only [limCnfG, List.mem_cons, List.not_mem_nil, or_false] at hr
  rcases hr with rfl | rfl | rfl | rfl <;> rfl
theorem limCnfG_body : ∀ s ∈ bodySyms limCnfG, s < 2 := by decide

-- generated names `10, 12, 14, …`, new start symbol `9`, renamed nullables `101, 103, …`
example : inCNFb (cnfL (fun i => 2 * i + 10) 9 (fun y => 2 * y + 101) limCnfG 0) = true ∧
    ∀ x, WL (cnfL (fun i => 2 * i + 10) 9 (fun y => 2 * y + 101) limCnfG 0)
      (cnfL (fun i => 2 * i + 10) 9 (fun y => 2 * y + 101) limCnfG 0).S x = WL limCnfG 0 x :=
  cnfL_correct (fun i => 2 * i + 10) 9 (fun y => 2 * y + 101) limCnfG 0
    (by decide)
    (by intro r hr; rw [limCnfG_heads r hr]; decide)
    (by intro i; simp [limCnfG])
    (by intro i j _ _ h; simpa using h)
    (by intro r hr k _; rw [limCnfG_heads r hr]; omega)
    (by intro r hr s hs k _; have := limCnfG_body s (mem_bodySyms.mpr ⟨r, hr, hs⟩); omega)
    (by intro k _; show (0 : ℕ) ≠ _; omega)
    (by intro i; omega)
    (by decide) (by decide)
    (by intro r hr; rw [limCnfG_heads r hr]; decide)
    (by decide)
    (by intro y; simp [limCnfG])
    (by intro y z h; simpa using h)
    (by intro y; show 2 * y + 101 ≠ (0 : ℕ); omega)
    (by intro y; omega)
    (by intro y i; omega)
    (by intro y r hr; rw [limCnfG_heads r hr]; omega)
    (by intro y h; have := limCnfG_body _ h; omega)

end ExamplesE

/-! ## §D `unarycycleremove` with the TRUE block closures -/
section
open UCycleAux
variable {σ : Type} [DecidableEq σ] [DecidableEq ℝ≥0∞]

theorem UWp_monotone (p : Rule σ ℝ≥0∞ → Bool) (rs : List (Rule σ ℝ≥0∞)) (Y X : σ) :
    Monotone fun k => UWp p rs k Y X :=
  monotone_nat_of_le_succ fun k => le_of_natLe (UWp_mono p rs k Y X)

/-- `CLp` commutes with suprema of chains in both arguments (diagonal index) -/
theorem CLp_iSup (p : Rule σ ℝ≥0∞ → Bool) (rs : List (Rule σ ℝ≥0∞)) (a : ℕ → σ → ℝ≥0∞)
    (h : ℕ → Rule σ ℝ≥0∞ → ℝ≥0∞) (ha : ∀ X, Monotone fun k => a k X)
    (hh : ∀ r, Monotone fun m => h m r) :
    CLp p rs (fun X => ⨆ k, a k X) (fun r => ⨆ m, h m r) = ⨆ n, CLp p rs (a n) (h n) := by
  unfold CLp
  exact sum_ite_mul_iSup rs (fun r => p r = false) (fun r k => a k r.head) (fun r m => h m r)
    (fun r => r.w) (fun r _ => ha r.head) (fun r _ => hh r)

/-- the TRUE closure of the graph of the unary rules inside the blocks `bl` -/
noncomputable def ucUWL (bl : List (List σ)) (G : CFG σ ℝ≥0∞) (X Z : σ) : ℝ≥0∞ :=
  ⨆ k, ucUW bl G k X Z

/-- **(⊑, limit)** block closures above the true ones lose nothing -/
theorem ucycle_WL_le_of_ge (A : σ → σ → ℝ≥0∞) (blocks : List (Block σ ℝ≥0∞)) (bot : σ → σ)
    (G : CFG σ ℝ≥0∞)
    (hnd : (blocks.map (·.nodes)).flatten.Nodup)
    (hclo : ∀ b ∈ blocks, ∀ e ∈ b.clo, e.1.1 ∈ b.nodes ∧ e.1.2 ∈ b.nodes)
    (hinj : ∀ x ∈ (blocks.map (·.nodes)).flatten, ∀ y ∈ (blocks.map (·.nodes)).flatten,
      bot x = bot y → x = y)
    (hfresh : ∀ x ∈ (blocks.map (·.nodes)).flatten, bot x ∉ (blocks.map (·.nodes)).flatten)
    (hheads : ∀ r ∈ G.rules, r.head ∈ (blocks.map (·.nodes)).flatten)
    (hterm : ∀ x ∈ (blocks.map (·.nodes)).flatten, x ∉ G.V ∧ bot x ∉ G.V)
    (hW : ∀ X ∈ (blocks.map (·.nodes)).flatten, ∀ Z ∈ (blocks.map (·.nodes)).flatten,
      ucUWL (blocks.map (·.nodes)) G X Z ≤ ucW A blocks X Z)
    (s : σ) (x : List σ) : WL G s x ≤ WL (unaryCycleRemove A blocks bot G) s x := by
  refine iSup_le fun n => le_iSup_of_le (2 * n) (le_of_natLe ?_)
  exact ucycle_le A blocks bot G hnd hclo hinj hfresh hheads hterm
    (fun k X hX Z hZ => natLe_of_le
      (le_trans (le_iSup (fun k => ucUW (blocks.map (·.nodes)) G k X Z) k) (hW X hX Z hZ))) n s x

/-- **(⊒, levels against the limit)** block closures below the true ones add nothing -/
theorem ucycle_level_le_WL (A : σ → σ → ℝ≥0∞) (blocks : List (Block σ ℝ≥0∞)) (bot : σ → σ)
    (G : CFG σ ℝ≥0∞)
    (hnd : (blocks.map (·.nodes)).flatten.Nodup)
    (hclo : ∀ b ∈ blocks, ∀ e ∈ b.clo, e.1.1 ∈ b.nodes ∧ e.1.2 ∈ b.nodes)
    (hinj : ∀ x ∈ (blocks.map (·.nodes)).flatten, ∀ y ∈ (blocks.map (·.nodes)).flatten,
      bot x = bot y → x = y)
    (hfresh : ∀ x ∈ (blocks.map (·.nodes)).flatten, bot x ∉ (blocks.map (·.nodes)).flatten)
    (hheads : ∀ r ∈ G.rules, r.head ∈ (blocks.map (·.nodes)).flatten)
    (hterm : ∀ x ∈ (blocks.map (·.nodes)).flatten, x ∉ G.V ∧ bot x ∉ G.V)
    (hbody : ∀ r ∈ G.rules, ∀ s ∈ r.body, ∀ u ∈ (blocks.map (·.nodes)).flatten, s ≠ bot u)
    (hW : ∀ X ∈ (blocks.map (·.nodes)).flatten, ∀ Z ∈ (blocks.map (·.nodes)).flatten,
      ucW A blocks X Z ≤ ucUWL (blocks.map (·.nodes)) G X Z)
    (n : Nat) (s : σ) (hs : ∀ u ∈ (blocks.map (·.nodes)).flatten, s ≠ bot u) (x : List σ) :
    WN (unaryCycleRemove A blocks bot G) n s x ≤ WL G s x := by
  have H : SemHyp blocks bot G := ⟨hnd, hclo, hinj, hfresh, hheads, hterm⟩
  have hp : Chain G.V (ucSkipRule (K := ℝ≥0∞) (blocks.map (·.nodes))) :=
    chain_skip G.V _ (fun y hy => (hterm y hy).1)
  induction n generalizing s x with
  | zero => exact zero_le
  | succ n ih =>
    by_cases hsN : s ∈ (blocks.map (·.nodes)).flatten
    · refine le_trans (le_of_natLe (WN_new_le H n hsN x)) ?_
      have h1 : CLp (ucSkipRule (blocks.map (·.nodes))) G.rules (ucW A blocks s)
              (fun r => Wbody G.V (WN (unaryCycleRemove A blocks bot G) n) r.body x)
          ≤ CLp (ucSkipRule (blocks.map (·.nodes))) G.rules
              (fun Z => ⨆ k, UWp (ucSkipRule (blocks.map (·.nodes))) G.rules k s Z)
              (fun r => ⨆ m, Wbody G.V (WN G m) r.body x) := by
        refine le_of_natLe (CLp_le _ _ _ _ _ _ (fun r hr => natLe_of_le ?_) (fun r hr => ?_))
        · exact hW s hsN _ (hheads r hr)
        · rw [← Wbody_WL]
          exact Wbody_le _ _ _ _ (fun s' hs' u => natLe_of_le (ih s' (hbody r hr s' hs') u)) x
      refine le_trans h1 ?_
      rw [CLp_iSup _ _ _ _ (fun X => UWp_monotone _ _ s X)
        (fun r => Wbody_mono G.V (WN G) (monoTab_WN G) r.body x)]
      exact iSup_le fun m =>
        le_trans (le_of_natLe (closure_le_WN_p G _ hp m m s x)) (WN_le_WL G _ s x)
    · rw [WN_zero_of_no_rule _ (n + 1) s x]
      · exact zero_le
      · intro q hq e
        rcases new_head H hq with h | ⟨u, hu, h⟩
        · exact hsN (e ▸ h)
        · exact hs u hu (e ▸ h)

/-- **C06 (limit), `unarycycleremove`**: if the block closures the transformation is given are the
TRUE closures of the unary rules inside the blocks (identity at the `acyclic` nodes), the TRUE
weight of every string at every old node (in particular the start symbol) is preserved.  Side
conditions on the names: those of `ucycle_le` / `ucycle_ge`. -/
theorem ucycle_WL (A : σ → σ → ℝ≥0∞) (blocks : List (Block σ ℝ≥0∞)) (bot : σ → σ)
    (G : CFG σ ℝ≥0∞)
    (hnd : (blocks.map (·.nodes)).flatten.Nodup)
    (hclo : ∀ b ∈ blocks, ∀ e ∈ b.clo, e.1.1 ∈ b.nodes ∧ e.1.2 ∈ b.nodes)
    (hinj : ∀ x ∈ (blocks.map (·.nodes)).flatten, ∀ y ∈ (blocks.map (·.nodes)).flatten,
      bot x = bot y → x = y)
    (hfresh : ∀ x ∈ (blocks.map (·.nodes)).flatten, bot x ∉ (blocks.map (·.nodes)).flatten)
    (hheads : ∀ r ∈ G.rules, r.head ∈ (blocks.map (·.nodes)).flatten)
    (hterm : ∀ x ∈ (blocks.map (·.nodes)).flatten, x ∉ G.V ∧ bot x ∉ G.V)
    (hbody : ∀ r ∈ G.rules, ∀ s ∈ r.body, ∀ u ∈ (blocks.map (·.nodes)).flatten, s ≠ bot u)
    (hW : ∀ X ∈ (blocks.map (·.nodes)).flatten, ∀ Z ∈ (blocks.map (·.nodes)).flatten,
      ucW A blocks X Z = ucUWL (blocks.map (·.nodes)) G X Z)
    (X : σ) (hX : X ∈ (blocks.map (·.nodes)).flatten) (x : List σ) :
    WL (unaryCycleRemove A blocks bot G) X x = WL G X x :=
  le_antisymm
    (iSup_le fun n => ucycle_level_le_WL A blocks bot G hnd hclo hinj hfresh hheads hterm hbody
      (fun Y hY Z hZ => le_of_eq (hW Y hY Z hZ)) n X (fun u hu e => hfresh u hu (e ▸ hX)) x)
    (ucycle_WL_le_of_ge A blocks bot G hnd hclo hinj hfresh hheads hterm
      (fun Y hY Z hZ => le_of_eq (hW Y hY Z hZ).symm) X x)

end

/-! ### non-vacuity of `ucycle_WL`: a convergent but never attained block closure -/
section ExamplesD
open UCycleAux

/-- `0 → 0 (1/2) | 10 (1/2)`, terminal `10`: a unary self-loop of weight `1/2`, closure `Σ 2⁻ᵏ = 2` -/
noncomputable def limUcG : CFG ℕ ℝ≥0∞ := ⟨0, [10], [⟨2⁻¹, 0, [0]⟩, ⟨2⁻¹, 0, [10]⟩]⟩
noncomputable def limUcB : List (Block ℕ ℝ≥0∞) := [⟨[0], [((0, 0), 2)]⟩]
noncomputable def limUcA (X Y : ℕ) : ℝ≥0∞ := if X = 0 ∧ Y = 0 then 2⁻¹ else 0

theorem limUc_nodes : (limUcB.map (·.nodes)).flatten = [0] := rfl

theorem limUc_UNp (g : ℕ → ℝ≥0∞) :
    UNp (ucSkipRule [[0]]) limUcG.rules g 0 = 2⁻¹ * g 0 := by
  have h1 : ucSkipRule (K := ℝ≥0∞) [[0]] ⟨2⁻¹, 0, [0]⟩ = true := by decide
  have h2 : ucSkipRule (K := ℝ≥0∞) [[0]] ⟨2⁻¹, 0, [10]⟩ = false := by decide
  simp [UNp, limUcG, h1, h2, uTarget]

theorem limUc_acyclic : ucAcyclic limUcA limUcB = [] := by
  simp [ucAcyclic, limUcB, limUcA]

theorem limUc_W : ucW limUcA limUcB 0 0 = 2 := by
  unfold ucW
  rw [limUc_acyclic]
  simp [ucClo, ucAllClo, limUcB, wlook]

/-- the partial sums `u_k = Σ_{i ≤ k} 2⁻ⁱ` -/
theorem limUc_succ (k : ℕ) :
    ucUW [[0]] limUcG (k + 1) 0 0 = 1 + 2⁻¹ * ucUW [[0]] limUcG k 0 0 := by
  show (if (0 : ℕ) = 0 then 1 else 0) + UNp _ _ _ _ = _
  rw [limUc_UNp, if_pos rfl]
  rfl

theorem limUc_sup : ucUWL [[0]] limUcG 0 0 = 2 := by
  have hmono : Monotone fun k => ucUW [[0]] limUcG k 0 0 := UWp_monotone _ _ 0 0
  have hle : ∀ k, ucUW [[0]] limUcG k 0 0 ≤ 2 := by
    intro k
    induction k with
    | zero => show (if (0 : ℕ) = 0 then (1 : ℝ≥0∞) else 0) ≤ 2; rw [if_pos rfl]; exact one_le_two
    | succ k ih =>
      rw [limUc_succ]
      calc (1 : ℝ≥0∞) + 2⁻¹ * ucUW [[0]] limUcG k 0 0 ≤ 1 + 2⁻¹ * 2 := by gcongr
        _ = 2 := by rw [ENNReal.inv_mul_cancel (by norm_num) (by norm_num)]; norm_num
  have hfix : ucUWL [[0]] limUcG 0 0 = 1 + 2⁻¹ * ucUWL [[0]] limUcG 0 0 := by
    unfold ucUWL
    rw [ENNReal.mul_iSup, ENNReal.add_iSup, ← Monotone.iSup_nat_add hmono 1]
    exact iSup_congr fun k => limUc_succ k
  have hfin : ucUWL [[0]] limUcG 0 0 ≠ ⊤ :=
    ne_top_of_le_ne_top (by norm_num) (iSup_le hle)
  have h2 : 2⁻¹ * ucUWL [[0]] limUcG 0 0 + 2⁻¹ * ucUWL [[0]] limUcG 0 0
      = 1 + 2⁻¹ * ucUWL [[0]] limUcG 0 0 := by
    rw [← add_mul, ENNReal.inv_two_add_inv_two, one_mul]; exact hfix
  have hfin' : 2⁻¹ * ucUWL [[0]] limUcG 0 0 ≠ ⊤ := ENNReal.mul_ne_top (by norm_num) hfin
  have h3 : 2⁻¹ * ucUWL [[0]] limUcG 0 0 = 1 := (ENNReal.add_left_inj hfin').mp h2
  calc ucUWL [[0]] limUcG 0 0 = 2 * (2⁻¹ * ucUWL [[0]] limUcG 0 0) := by
        rw [← mul_assoc, ENNReal.mul_inv_cancel (by norm_num) (by norm_num), one_mul]
    _ = 2 := by rw [h3, mul_one]

example (x : List ℕ) :
    WL (unaryCycleRemove limUcA limUcB (· + 100) limUcG) 0 x = WL limUcG 0 x :=
  ucycle_WL limUcA limUcB (· + 100) limUcG (by decide)
    (by intro b hb e he
        simp only [limUcB, List.mem_singleton] at hb
        subst hb
        simp only [List.mem_singleton] at he
        subst he
        simp)
    (by intro x _ y _ h; simpa using h)
    (by intro x hx; rw [limUc_nodes] at hx ⊢; simp at hx ⊢)
    (by intro r hr
        simp only [limUcG, List.mem_cons, List.not_mem_nil, or_false] at hr
        rcases hr with rfl | rfl <;> simp [limUc_nodes])
    (by intro x hx; rw [limUc_nodes] at hx; simp at hx; subst hx; simp [limUcG])
    (by intro r hr s hs u hu
        rw [limUc_nodes] at hu; simp at hu; subst hu
        have : ∀ s ∈ bodySyms limUcG, s < 100 := by decide
        have := this s (mem_bodySyms.mpr ⟨r, hr, hs⟩)
        show s ≠ 0 + 100; omega)
    (by intro X hX Z hZ
        rw [limUc_nodes] at hX hZ; simp at hX hZ; subst hX; subst hZ
        rw [limUc_W]; exact limUc_sup.symm)
    0 (by simp [limUc_nodes]) x

end ExamplesD
end Genlm
