import GenlmModel.Model.UCycle
import GenlmModel.Proofs.Linear
import GenlmModel.Proofs.Horn
import GenlmModel.Proofs.Struct
import GenlmModel.Proofs.Sem2Unary
import Mathlib.Logic.Relation
import Mathlib.Data.Int.Basic
import GenlmModel.Model.Semi

/-! `unarycycleremove` leaves no unary cycle (property C07). -/
namespace Genlm
set_option linter.unusedSectionVars false
namespace UCycleAux
section
variable {σ K : Type} [DecidableEq σ] [DecidableEq K] [CommSemiring K]

/-! ### `unaryEdges`, `unaryReach`, `noUnaryCycle` -/

theorem mem_unaryEdges {G : CFG σ K} {X y : σ} :
    (X, y) ∈ unaryEdges G ↔ ∃ r ∈ G.rules, r.head = X ∧ r.body = [y] ∧ y ∉ G.V := by
  unfold unaryEdges
  rw [List.mem_filterMap]
  constructor
  · rintro ⟨r, hr, h⟩
    split at h
    next y' hb =>
      split at h
      · exact absurd h (by simp)
      next hV =>
        have h' := Option.some.inj h
        have h1 : r.head = X := congrArg Prod.fst h'
        have h2 : y' = y := congrArg Prod.snd h'
        subst h2
        exact ⟨r, hr, h1, hb, hV⟩
    · exact absurd h (by simp)
  · rintro ⟨r, hr, rfl, hb, hV⟩
    refine ⟨r, hr, ?_⟩
    rw [hb]
    simp only [if_neg hV]

/-- `unaryReach G X` lists exactly the symbols reachable from `X` by one or more unary edges -/
theorem mem_unaryReach (G : CFG σ K) (X s : σ) :
    s ∈ unaryReach G X ↔ Relation.TransGen (arcRel (unaryEdges G)) X s := by
  unfold unaryReach
  rw [hlfp_spec]
  constructor
  · intro h
    induction h with
    | fire c hc _ ih =>
      rw [List.mem_append, List.mem_map, List.mem_map] at hc
      rcases hc with ⟨e, he, rfl⟩ | ⟨e, he, rfl⟩
      · rw [List.mem_filter, decide_eq_true_eq] at he
        obtain ⟨he, rfl⟩ := he
        exact Relation.TransGen.single he
      · exact Relation.TransGen.tail (ih e.1 (List.mem_singleton.mpr rfl)) he
  · intro h
    induction h with
    | @single b hab =>
      refine Derivable.fire ⟨[], b⟩ ?_ (fun p hp => absurd hp (List.not_mem_nil))
      apply List.mem_append_left
      exact List.mem_map.mpr ⟨(X, b), List.mem_filter.mpr ⟨hab, by simp⟩, rfl⟩
    | @tail b c _ hbc ih =>
      refine Derivable.fire ⟨[b], c⟩ ?_ ?_
      · apply List.mem_append_right
        exact List.mem_map.mpr ⟨(b, c), hbc, rfl⟩
      · intro p hp
        rw [List.mem_singleton] at hp
        subst hp
        exact ih

/-- the Boolean check `noUnaryCycle` decides the absence of a cycle of unary edges -/
theorem noUnaryCycle_iff (G : CFG σ K) :
    noUnaryCycle G = true ↔ ∀ X, ¬ Relation.TransGen (arcRel (unaryEdges G)) X X := by
  unfold noUnaryCycle
  rw [List.all_eq_true]
  constructor
  · intro h X hX
    obtain ⟨Y, hXY, _⟩ := Relation.TransGen.head'_iff.mp hX
    have := h (X, Y) hXY
    rw [decide_eq_true_eq] at this
    exact this ((mem_unaryReach G X X).mpr hX)
  · intro h e _
    rw [decide_eq_true_eq]
    exact fun hm => h e.1 ((mem_unaryReach G e.1 e.1).mp hm)

/-! ### the potential -/

/-- `2 * bucket` for an old symbol, `2 * bucket + 1` for `bot x` -/
def pot (bot : σ → σ) (bl : List (List σ)) (s : σ) : Nat :=
  match bl.flatten.find? (fun x => decide (bot x = s)) with
  | some x => 2 * blockIdx bl x + 1
  | none => 2 * blockIdx bl s

theorem pot_bot (bot : σ → σ) (bl : List (List σ))
    (hinj : ∀ x ∈ bl.flatten, ∀ y ∈ bl.flatten, bot x = bot y → x = y)
    {x : σ} (hx : x ∈ bl.flatten) : pot bot bl (bot x) = 2 * blockIdx bl x + 1 := by
  unfold pot
  cases hf : bl.flatten.find? (fun x' => decide (bot x' = bot x)) with
  | none =>
    rw [List.find?_eq_none] at hf
    exact absurd (hf x hx) (by simp)
  | some x' =>
    have h1 := List.find?_some hf
    rw [decide_eq_true_eq] at h1
    have h2 := List.mem_of_find?_eq_some hf
    rw [hinj x' h2 x hx h1]

theorem pot_node (bot : σ → σ) (bl : List (List σ))
    (hfresh : ∀ x ∈ bl.flatten, bot x ∉ bl.flatten)
    {s : σ} (hs : s ∈ bl.flatten) : pot bot bl s = 2 * blockIdx bl s := by
  unfold pot
  cases hf : bl.flatten.find? (fun x' => decide (bot x' = s)) with
  | none => rfl
  | some x' =>
    have h1 := List.find?_some hf
    rw [decide_eq_true_eq] at h1
    have h2 := List.mem_of_find?_eq_some hf
    exact absurd (h1 ▸ hs) (hfresh x' h2)

/-! ### the rules of the result -/

theorem mem_ucAcyclic {A : σ → σ → K} {blocks : List (Block σ K)} {X : σ} :
    X ∈ ucAcyclic A blocks ↔ ∃ b ∈ blocks, b.nodes = [X] ∧ A X X = 0 := by
  unfold ucAcyclic
  rw [List.mem_filterMap]
  constructor
  · rintro ⟨b, hb, h⟩
    split at h
    next X' hn =>
      split at h
      next hz =>
        have := Option.some.inj h
        subst this
        exact ⟨b, hb, hn, hz⟩
      · exact absurd h (by simp)
    · exact absurd h (by simp)
  · rintro ⟨b, hb, hn, hz⟩
    refine ⟨b, hb, ?_⟩
    rw [hn]
    simp only [if_pos hz]

theorem idx_lt_of_mem {bl : List (List σ)} {u : σ} (hu : u ∈ bl.flatten) :
    blockIdx bl u < bl.length := by
  obtain ⟨N, hN, _⟩ := blockIdx_spec bl u hu
  exact (List.getElem?_eq_some_iff.mp hN).1

/-- a node of a block has the index of that block -/
theorem idx_eq_of_mem {bl : List (List σ)} (hnd : bl.flatten.Nodup) {N : List σ} (hN : N ∈ bl)
    {u v : σ} (hu : u ∈ N) (hv : v ∈ N) : blockIdx bl u = blockIdx bl v := by
  obtain ⟨p, hp⟩ := List.getElem?_of_mem hN
  rw [blockIdx_of_getElem bl hnd p N u hp hu, blockIdx_of_getElem bl hnd p N v hp hv]

/-- two blocks sharing a node are the same -/
theorem block_unique {bl : List (List σ)} (hnd : bl.flatten.Nodup) {N M : List σ} (hN : N ∈ bl)
    (hM : M ∈ bl) {u : σ} (hu : u ∈ N) (hv : u ∈ M) : N = M := by
  obtain ⟨p, hp⟩ := List.getElem?_of_mem hN
  obtain ⟨q, hq⟩ := List.getElem?_of_mem hM
  have h1 := blockIdx_of_getElem bl hnd p N u hp hu
  have h2 := blockIdx_of_getElem bl hnd q M u hq hv
  rw [h1] at h2
  subst h2
  rw [hp] at hq
  exact Option.some.inj hq

theorem mem_ucBlockRules {acyclic : List σ} {bot : σ → σ} {blocks : List (Block σ K)}
    {q : Rule σ K} :
    q ∈ ucBlockRules acyclic bot blocks ↔ ∃ b ∈ blocks, ucSkipBlock acyclic b = false ∧
      ∃ e ∈ b.clo, q = ⟨e.2, e.1.1, [ucBot acyclic bot e.1.2]⟩ := by
  unfold ucBlockRules
  rw [List.mem_flatMap]
  constructor
  · rintro ⟨b, hb, h⟩
    split at h
    · exact absurd h List.not_mem_nil
    next hs =>
      obtain ⟨e, he, rfl⟩ := List.mem_map.mp h
      exact ⟨b, hb, by simpa using hs, e, he, rfl⟩
  · rintro ⟨b, hb, hs, e, he, rfl⟩
    refine ⟨b, hb, ?_⟩
    rw [hs]
    exact List.mem_map.mpr ⟨e, he, rfl⟩

theorem mem_ucKeptRules {acyclic : List σ} {bot : σ → σ} {bl : List (List σ)}
    {rules : List (Rule σ K)} {q : Rule σ K} :
    q ∈ ucKeptRules acyclic bot bl rules ↔ ∃ r ∈ rules, ucSkipRule bl r = false ∧
      q = ⟨r.w, ucBot acyclic bot r.head, r.body⟩ := by
  unfold ucKeptRules
  rw [List.mem_map]
  constructor
  · rintro ⟨r, hr, rfl⟩
    rw [List.mem_filter] at hr
    exact ⟨r, hr.1, by simpa using hr.2, rfl⟩
  · rintro ⟨r, hr, hs, rfl⟩
    exact ⟨r, List.mem_filter.mpr ⟨hr, by simp [hs]⟩, rfl⟩

/-- **every unary edge of the result strictly increases the potential** -/
theorem edge_pot (A : σ → σ → K) (blocks : List (Block σ K)) (bot : σ → σ) (G : CFG σ K)
    (nodes : List σ) (arcs : List (σ × σ))
    (hd : IsSccDecomp nodes arcs (blocks.map (·.nodes)))
    (harcs : ∀ r ∈ G.rules, r.w ≠ 0 → ∀ y, r.body = [y] → y ∉ G.V → (r.head, y) ∈ arcs)
    (hclo : ∀ b ∈ blocks, ∀ e ∈ b.clo, e.1.1 ∈ b.nodes ∧ e.1.2 ∈ b.nodes)
    (hinj : ∀ x ∈ nodes, ∀ y ∈ nodes, bot x = bot y → x = y)
    (hfresh : ∀ x ∈ nodes, bot x ∉ nodes)
    (X Y : σ) (hXY : (X, Y) ∈ unaryEdges (unaryCycleRemove A blocks bot G)) :
    pot bot (blocks.map (·.nodes)) X < pot bot (blocks.map (·.nodes)) Y := by
  have hinj' : ∀ x ∈ (blocks.map (·.nodes)).flatten, ∀ y ∈ (blocks.map (·.nodes)).flatten,
      bot x = bot y → x = y :=
    fun x hx y hy => hinj x ((hd.cover x).mpr hx) y ((hd.cover y).mpr hy)
  have hfresh' : ∀ x ∈ (blocks.map (·.nodes)).flatten, bot x ∉ (blocks.map (·.nodes)).flatten :=
    fun x hx h => hfresh x ((hd.cover x).mpr hx) ((hd.cover _).mpr h)
  obtain ⟨q, hq, rfl, hbody, hV⟩ := mem_unaryEdges.mp hXY
  have hq' : q ∈ ucBlockRules (ucAcyclic A blocks) bot blocks ++
      ucKeptRules (ucAcyclic A blocks) bot (blocks.map (·.nodes)) G.rules ∧ q.w ≠ 0 :=
    mem_mkRules.mp hq
  obtain ⟨hq1, hqw⟩ := hq'
  rcases List.mem_append.mp hq1 with hq2 | hq2
  · -- `X1 → bot X2` inside a cyclic block
    obtain ⟨b, hb, hs, e, he, rfl⟩ := mem_ucBlockRules.mp hq2
    obtain ⟨h1, h2⟩ := hclo b hb e he
    have hbl : b.nodes ∈ blocks.map (·.nodes) := List.mem_map.mpr ⟨b, hb, rfl⟩
    have hf1 : e.1.1 ∈ (blocks.map (·.nodes)).flatten := List.mem_flatten.mpr ⟨_, hbl, h1⟩
    have hf2 : e.1.2 ∈ (blocks.map (·.nodes)).flatten := List.mem_flatten.mpr ⟨_, hbl, h2⟩
    have hna : e.1.2 ∉ ucAcyclic A blocks := by
      intro ha
      obtain ⟨b', hb', hn', _⟩ := mem_ucAcyclic.mp ha
      have hbl' : b'.nodes ∈ blocks.map (·.nodes) := List.mem_map.mpr ⟨b', hb', rfl⟩
      have : b.nodes = b'.nodes :=
        block_unique hd.nodup hbl hbl' h2 (by rw [hn']; exact List.mem_singleton.mpr rfl)
      rw [hn'] at this
      unfold ucSkipBlock at hs
      rw [this] at hs
      simp only [decide_eq_false_iff_not] at hs
      exact hs ha
    simp only [List.cons.injEq, and_true] at hbody
    subst hbody
    unfold ucBot
    rw [if_neg hna, pot_bot bot _ hinj' hf2, pot_node bot _ hfresh' hf1,
      idx_eq_of_mem hd.nodup hbl h1 h2]
    omega
  · -- a kept rule `bot' h → y`
    obtain ⟨r, hr, hs, rfl⟩ := mem_ucKeptRules.mp hq2
    simp only at hbody hqw hV
    have harc := harcs r hr hqw Y hbody hV
    have hcl : r.head ∈ nodes ∧ Y ∈ nodes := hd.closed _ harc
    have hf1 := (hd.cover _).mp hcl.1
    have hf2 := (hd.cover _).mp hcl.2
    have hle : blockIdx (blocks.map (·.nodes)) r.head ≤ blockIdx (blocks.map (·.nodes)) Y :=
      hd.idx_mono (a := r.head) (b := Y) harc
    have hlt : blockIdx (blocks.map (·.nodes)) Y < (blocks.map (·.nodes)).length :=
      idx_lt_of_mem hf2
    unfold ucSkipRule at hs
    rw [hbody] at hs
    simp only [decide_eq_false_iff_not, not_and] at hs
    have hne := hs hlt
    rw [pot_node bot _ hfresh' hf2]
    show pot bot _ (ucBot (ucAcyclic A blocks) bot r.head) < _
    unfold ucBot
    split
    · rw [pot_node bot _ hfresh' hf1]; omega
    · rw [pot_bot bot _ hinj' hf1]; omega

/-! ### `_unary_graph` and `_closure` provide the hypotheses -/

/-- the keys of the matrix returned by `_closure(A, N)` lie in `N × N` -/
theorem lehmann_keys (g : WGraph σ K) (star : K → K) (N : List σ) :
    ∀ e ∈ lehmann g star N, e.1.1 ∈ N ∧ e.1.2 ∈ N := by
  intro e he
  unfold lehmann at he
  split at he
  · rw [List.mem_singleton] at he
    subst he
    exact ⟨List.mem_singleton.mpr rfl, List.mem_singleton.mpr rfl⟩
  · obtain ⟨i, hi, h⟩ := List.mem_flatMap.mp he
    obtain ⟨k, hk, rfl⟩ := List.mem_map.mp h
    exact ⟨hi, hk⟩

/-- every stored key of the chart has a non-zero accumulated value (an invariant of
`WeightedGraph.__setitem__`) -/
def ChartGood (es : List ((σ × σ) × K)) : Prop := ∀ e ∈ es, wlook es e.1 ≠ 0

theorem chartGood_filter (hz : ∀ a b : K, a + b = 0 → a = 0) (es : List ((σ × σ) × K))
    (hg : ChartGood es) (k : σ × σ) (w : K) (hc : wlook es k + w = 0) :
    es.filter (fun e => decide (e.1 ≠ k)) = es := by
  rw [List.filter_eq_self]
  intro e he
  rw [decide_eq_true_eq]
  intro hk
  apply hg e he
  rw [hk]
  exact hz _ _ hc

theorem chartGood_append (es : List ((σ × σ) × K)) (hg : ChartGood es) (k : σ × σ) (w : K)
    (hc : ¬ wlook es k + w = 0) : ChartGood (es ++ [(k, w)]) := by
  intro e he
  rw [Linear.wlook_append, Linear.wlook_cons, Linear.wlook_nil, add_zero]
  show wlook es e.1 + (if k = e.1 then w else 0) ≠ 0
  rcases List.mem_append.mp he with h | h
  · by_cases hk : k = e.1
    · rw [if_pos hk, ← hk]; exact hc
    · rw [if_neg hk, add_zero]; exact hg e h
  · rw [List.mem_singleton] at h
    subst h
    rw [if_pos rfl]; exact hc

/-- where non-zero weights cannot cancel, `_unary_graph` never deletes a key: the chart only grows -/
theorem unaryGraphEdges_mono (hz : ∀ a b : K, a + b = 0 → a = 0) (V : List σ)
    (rs : List (Rule σ K)) (es : List ((σ × σ) × K)) (hg : ChartGood es)
    (p : σ × σ) (hp : p ∈ es.map (·.1)) : p ∈ (unaryGraphEdges V rs es).map (·.1) := by
  induction rs generalizing es with
  | nil => exact hp
  | cons r rs ih =>
    unfold unaryGraphEdges
    split
    · split
      · exact ih es hg hp
      · split
        next hc =>
          rw [chartGood_filter hz es hg _ _ hc]
          exact ih es hg hp
        next hc =>
          apply ih _ (chartGood_append es hg _ _ hc)
          rw [List.map_append, List.mem_append]
          exact Or.inl hp
    · exact ih es hg hp

/-- every unary rule of non-zero weight leaves its key in the chart `E` of `_unary_graph` (so the
key is registered in `incoming` / `outgoing`), where non-zero weights cannot cancel -/
theorem unaryGraphEdges_complete (hz : ∀ a b : K, a + b = 0 → a = 0) (V : List σ)
    (rs : List (Rule σ K)) (es : List ((σ × σ) × K)) (hg : ChartGood es)
    (r : Rule σ K) (hr : r ∈ rs) (hw : r.w ≠ 0) (y : σ) (hb : r.body = [y]) (hV : y ∉ V) :
    (r.head, y) ∈ (unaryGraphEdges V rs es).map (·.1) := by
  induction rs generalizing es with
  | nil => exact absurd hr List.not_mem_nil
  | cons r' rs ih =>
    rcases List.mem_cons.mp hr with rfl | hr'
    · unfold unaryGraphEdges
      rw [hb]
      simp only [if_neg hV]
      split
      next hc =>
        rw [add_comm] at hc
        exact absurd (hz _ _ hc) hw
      next hc =>
        apply unaryGraphEdges_mono hz _ _ _ (chartGood_append es hg _ _ hc)
        rw [List.map_append, List.mem_append]
        exact Or.inr (List.mem_singleton.mpr rfl)
    · unfold unaryGraphEdges
      split
      · split
        · exact ih es hg hr'
        · split
          next hc =>
            rw [chartGood_filter hz es hg _ _ hc]
            exact ih es hg hr'
          next hc => exact ih _ (chartGood_append es hg _ _ hc) hr'
      · exact ih es hg hr'

theorem unaryGraph_arcs (hz : ∀ a b : K, a + b = 0 → a = 0) (G : CFG σ K) (r : Rule σ K)
    (hr : r ∈ G.rules) (hw : r.w ≠ 0) (y : σ)
    (hb : r.body = [y]) (hV : y ∉ G.V) : (r.head, y) ∈ (unaryGraph G).arcs :=
  unaryGraphEdges_complete hz G.V G.rules [] (fun _ h => absurd h List.not_mem_nil) r hr hw y hb hV

/-- the Boolean `unaryArcsComplete` is the hypothesis `harcs` of `ucycle_no_unary_cycle_arcs` -/
theorem unaryArcsComplete_iff (G : CFG σ K) :
    unaryArcsComplete G = true ↔
      ∀ r ∈ G.rules, r.w ≠ 0 → ∀ y, r.body = [y] → y ∉ G.V → (r.head, y) ∈ (unaryGraph G).arcs := by
  unfold unaryArcsComplete
  rw [List.all_eq_true]
  constructor
  · intro h r hr hw y hb hV
    have := h r hr
    rw [hb] at this
    simpa [hV, hw] using this
  · intro h r hr
    split
    next y hb =>
      by_cases hV : y ∈ G.V
      · simp [hV]
      · by_cases hw : r.w = 0
        · simp [hw]
        · simp [hV, hw, h r hr hw y hb hV]
    · rfl

theorem unaryArcsComplete_of_zsf (hz : ∀ a b : K, a + b = 0 → a = 0) (G : CFG σ K) :
    unaryArcsComplete G = true :=
  (unaryArcsComplete_iff G).mpr (unaryGraph_arcs hz G)

end
end UCycleAux

/-! ## Weight preservation (C06)

The development of `Proofs/Sem2Unary.lean` with the test "is a unary rule" replaced by an
arbitrary test `p` on rules whose positives are unary rules (`Chain`); for `unarycycleremove`,
`p = ucSkipRule bl` ("unary rule inside a block"). -/
namespace UCycleAux
section Generic
open UnfoldAux Sem2Aux
variable {σ K : Type} [DecidableEq σ] [DecidableEq K] [CommSemiring K]

/-- the rules selected by `p` are unary rules `head → uTarget` -/
def Chain (V : List σ) (p : Rule σ K → Bool) : Prop :=
  ∀ r, p r = true → r.body = [uTarget r] ∧ uTarget r ∉ V

/-- selected part of a step: `(A · g)(Y)` -/
def UNp (p : Rule σ K → Bool) (rs : List (Rule σ K)) (g : σ → K) (Y : σ) : K :=
  (rs.map fun r => if p r = true ∧ r.head = Y then r.w * g (uTarget r) else 0).sum

/-- the other part of a step, with an arbitrary value `h r` for the body of `r` -/
def NUp (p : Rule σ K → Bool) (rs : List (Rule σ K)) (h : Rule σ K → K) (Y : σ) : K :=
  (rs.map fun r => if p r = false ∧ r.head = Y then r.w * h r else 0).sum

/-- `(Wf · NU)`: the non-selected rules, each weighted by `Wf` at its head -/
def CLp (p : Rule σ K → Bool) (rs : List (Rule σ K)) (Wf : σ → K) (h : Rule σ K → K) : K :=
  (rs.map fun r => if p r = false then Wf r.head * (r.w * h r) else 0).sum

theorem UNp_le (p : Rule σ K → Bool) (rs : List (Rule σ K)) (g g' : σ → K)
    (h : ∀ Z, g Z ≼ g' Z) (Y : σ) : UNp p rs g Y ≼ UNp p rs g' Y := by
  unfold UNp; apply sum_le'; intro r _
  split
  · exact mul_le' (le_rfl' _) (h _)
  · exact le_rfl' _

theorem NUp_le (p : Rule σ K → Bool) (rs : List (Rule σ K)) (h h' : Rule σ K → K)
    (hh : ∀ r ∈ rs, h r ≼ h' r) (Y : σ) : NUp p rs h Y ≼ NUp p rs h' Y := by
  unfold NUp; apply sum_le'; intro r hr
  split
  · exact mul_le' (le_rfl' _) (hh r hr)
  · exact le_rfl' _

theorem CLp_le (p : Rule σ K → Bool) (rs : List (Rule σ K)) (Wf Wf' : σ → K)
    (h h' : Rule σ K → K) (hW : ∀ r ∈ rs, Wf r.head ≼ Wf' r.head) (hh : ∀ r ∈ rs, h r ≼ h' r) :
    CLp p rs Wf h ≼ CLp p rs Wf' h' := by
  unfold CLp; apply sum_le'; intro r hr
  split
  · exact mul_le' (hW r hr) (mul_le' (le_rfl' _) (hh r hr))
  · exact le_rfl' _

theorem CLp_congr (p : Rule σ K → Bool) (rs : List (Rule σ K)) (Wf Wf' : σ → K)
    (h : Rule σ K → K) (hW : ∀ r ∈ rs, Wf r.head = Wf' r.head) :
    CLp p rs Wf h = CLp p rs Wf' h := by
  unfold CLp; congr 1; apply List.map_congr_left; intro r hr
  rw [hW r hr]

/-- a step splits into its selected and its non-selected part -/
theorem stepL_split_p (V : List σ) (p : Rule σ K → Bool) (hp : Chain V p)
    (rs : List (Rule σ K)) (g : σ → List σ → K) (Y : σ) (x : List σ) :
    stepL V rs g Y x
      = UNp p rs (fun Z => g Z x) Y + NUp p rs (fun r => Wbody V g r.body x) Y := by
  rw [stepL_eq_ite]
  unfold UNp NUp
  rw [← List.sum_map_add]
  congr 1; apply List.map_congr_left; intro r _
  by_cases hh : r.head = Y
  · by_cases hu : p r = true
    · obtain ⟨hb, hV⟩ := hp r hu
      have : Wbody V g r.body x = g (uTarget r) x := by
        rw [hb, Wbody_singleton, Wsym_nt V g _ hV]
      simp [hh, hu, this]
    · have hu' : p r = false := by simpa using hu
      simp [hh, hu']
  · simp [hh]

/-- `(I · NU) = NU` -/
theorem CLp_one (p : Rule σ K → Bool) (rs : List (Rule σ K)) (h : Rule σ K → K) (Y : σ) :
    CLp p rs (fun X => if Y = X then 1 else 0) h = NUp p rs h Y := by
  unfold CLp NUp
  congr 1; apply List.map_congr_left; intro r _
  by_cases hu : p r = false
  · by_cases hh : r.head = Y
    · simp [hu, hh]
    · have : ¬ Y = r.head := fun e => hh e.symm
      simp [hu, hh, this]
  · simp [hu]

/-- `((I + A·Wf) · NU)(Y) = NU(Y) + (A · (Wf · NU))(Y)` -/
theorem CLp_succ (p : Rule σ K → Bool) (rs : List (Rule σ K)) (Wf : σ → σ → K)
    (h : Rule σ K → K) (Y : σ) :
    CLp p rs (fun X => (if Y = X then 1 else 0) + UNp p rs (fun Z => Wf Z X) Y) h
      = NUp p rs h Y + UNp p rs (fun Z => CLp p rs (Wf Z) h) Y := by
  rw [← CLp_one p rs h Y]
  unfold CLp UNp
  have e : ∀ r : Rule σ K,
      (if p r = false then
        ((if Y = r.head then 1 else 0) + (rs.map fun q =>
          if p q = true ∧ q.head = Y then q.w * Wf (uTarget q) r.head else 0).sum)
          * (r.w * h r) else 0)
      = (if p r = false then (if Y = r.head then 1 else 0) * (r.w * h r) else 0)
        + (rs.map fun q => if p q = true ∧ q.head = Y then
            q.w * (if p r = false then Wf (uTarget q) r.head * (r.w * h r) else 0)
            else 0).sum := by
    intro r
    by_cases hu : p r = false
    · simp only [hu, if_true, add_mul]
      congr 1
      rw [← List.sum_map_mul_right]
      congr 1; apply List.map_congr_left; intro q _
      split
      · ring
      · rw [zero_mul]
    · simp only [if_neg hu, zero_add]
      symm; apply sum_map_zero; intro q _
      split
      · exact mul_zero _
      · rfl
  rw [List.map_congr_left (fun r _ => e r), List.sum_map_add]
  congr 1
  rw [sum_comm']
  congr 1; apply List.map_congr_left; intro q _
  split
  · rw [← List.sum_map_mul_left]
  · exact sum_map_zero _ _ (fun _ _ => rfl)

theorem UNp_zero (p : Rule σ K → Bool) (rs : List (Rule σ K)) (Y : σ) :
    UNp p rs (fun _ => 0) Y = 0 := by
  unfold UNp; apply sum_map_zero; intro r _
  split
  · exact mul_zero _
  · rfl

/-- `k`-th partial sum `I + A + … + A^k` of the closure of the graph of the selected rules -/
def UWp (p : Rule σ K → Bool) (rs : List (Rule σ K)) : Nat → σ → σ → K
  | 0, Y, X => if Y = X then 1 else 0
  | k+1, Y, X => (if Y = X then 1 else 0) + UNp p rs (fun Z => UWp p rs k Z X) Y

theorem UWp_zero (p : Rule σ K → Bool) (rs : List (Rule σ K)) (Y : σ) :
    UWp p rs 0 Y = fun X => if Y = X then 1 else 0 := by
  funext X; rfl

theorem UWp_succ (p : Rule σ K → Bool) (rs : List (Rule σ K)) (k : Nat) (Y : σ) :
    UWp p rs (k + 1) Y
      = fun X => (if Y = X then 1 else 0) + UNp p rs (fun Z => UWp p rs k Z X) Y := by
  funext X; rfl

theorem UWp_mono (p : Rule σ K → Bool) (rs : List (Rule σ K)) (k : Nat) (Y X : σ) :
    UWp p rs k Y X ≼ UWp p rs (k + 1) Y X := by
  induction k generalizing Y with
  | zero =>
    show (if Y = X then 1 else 0) ≼ (if Y = X then 1 else 0) + _
    exact le_add_right' _ _
  | succ k ih =>
    show (if Y = X then 1 else 0) + _ ≼ (if Y = X then 1 else 0) + _
    exact add_le' (le_rfl' _) (UNp_le _ _ _ _ (fun Z => ih Z) Y)

/-- level `n+1` of `G` is below the `n`-th partial closure applied to the non-selected rules -/
theorem WN_le_closure_p (G : CFG σ K) (p : Rule σ K → Bool) (hp : Chain G.V p) (n : Nat) (Y : σ)
    (x : List σ) :
    WN G (n + 1) Y x
      ≼ CLp p G.rules (UWp p G.rules n Y) (fun r => Wbody G.V (WN G n) r.body x) := by
  induction n generalizing Y with
  | zero =>
    rw [WN_succ, stepL_split_p G.V p hp, UWp_zero, CLp_one]
    have : (fun Z => WN G 0 Z x) = fun _ => 0 := rfl
    rw [this, UNp_zero, zero_add]
    exact le_rfl' _
  | succ n ih =>
    rw [WN_succ, stepL_split_p G.V p hp, UWp_succ, CLp_succ, add_comm]
    refine add_le' (le_rfl' _) (UNp_le _ _ _ _ ?_ Y)
    intro Z
    refine le_trans' (ih Z) (CLp_le _ _ _ _ _ _ (fun _ _ => le_rfl' _) ?_)
    intro r _
    exact Wbody_le _ _ _ _ (fun s _ u => WN_le_succ G n s u) x

/-- the `k`-th partial closure applied to the non-selected rules at level `m` is below level
`m + k + 1` of `G` -/
theorem closure_le_WN_p (G : CFG σ K) (p : Rule σ K → Bool) (hp : Chain G.V p) (k m : Nat)
    (Y : σ) (x : List σ) :
    CLp p G.rules (UWp p G.rules k Y) (fun r => Wbody G.V (WN G m) r.body x)
      ≼ WN G (m + k + 1) Y x := by
  induction k generalizing Y with
  | zero =>
    rw [UWp_zero, CLp_one, Nat.add_zero, WN_succ, stepL_split_p G.V p hp]
    exact le_add_left' _ _
  | succ k ih =>
    rw [UWp_succ, CLp_succ, show m + (k + 1) + 1 = (m + k + 1) + 1 by omega, WN_succ,
      stepL_split_p G.V p hp, add_comm]
    refine add_le' (UNp_le _ _ _ _ (fun Z => ih Z) Y) (NUp_le _ _ _ _ ?_ Y)
    intro r _
    exact Wbody_le _ _ _ _ (fun s _ u => WN_le_of_le G (by omega) s u) x

end Generic
end UCycleAux

/-! ### the steps of the result of `unarycycleremove` -/
section SemDefs
variable {σ K : Type} [DecidableEq σ] [DecidableEq K] [CommSemiring K]

/-- all closure matrices in one chart -/
def ucAllClo (blocks : List (Block σ K)) : List ((σ × σ) × K) := blocks.flatMap (·.clo)

/-- `W[X, Z]` for the block closure `W` of the block of `X` (see `ucClo_eq_B`) -/
def ucClo (blocks : List (Block σ K)) (X Z : σ) : K := wlook (ucAllClo blocks) (X, Z)

/-- the table `unarycycleremove` uses: the identity at the nodes in `acyclic`, the block closure
elsewhere -/
def ucW (A : σ → σ → K) (blocks : List (Block σ K)) (X Z : σ) : K :=
  if X ∈ ucAcyclic A blocks then (if X = Z then 1 else 0) else ucClo blocks X Z

/-- `k`-th partial sum `I + A + … + A^k` of the closure of the graph of the unary rules of `G`
*inside the blocks* `bl` (the rules `unarycycleremove` drops) -/
def ucUW (bl : List (List σ)) (G : CFG σ K) (k : Nat) (X Z : σ) : K :=
  UCycleAux.UWp (ucSkipRule bl) G.rules k X Z

end SemDefs

namespace UCycleAux
section Sem
open UnfoldAux Sem2Aux
variable {σ K : Type} [DecidableEq σ] [DecidableEq K] [CommSemiring K]

/-- well-formedness of the inputs of `unaryCycleRemove` used by the semantic proofs -/
structure SemHyp (blocks : List (Block σ K)) (bot : σ → σ) (G : CFG σ K) : Prop where
  nodup : (blocks.map (·.nodes)).flatten.Nodup
  clo : ∀ b ∈ blocks, ∀ e ∈ b.clo, e.1.1 ∈ b.nodes ∧ e.1.2 ∈ b.nodes
  inj : ∀ x ∈ (blocks.map (·.nodes)).flatten, ∀ y ∈ (blocks.map (·.nodes)).flatten,
    bot x = bot y → x = y
  fresh : ∀ x ∈ (blocks.map (·.nodes)).flatten, bot x ∉ (blocks.map (·.nodes)).flatten
  heads : ∀ r ∈ G.rules, r.head ∈ (blocks.map (·.nodes)).flatten
  term : ∀ x ∈ (blocks.map (·.nodes)).flatten, x ∉ G.V ∧ bot x ∉ G.V

theorem mem_of_idx_lt {bl : List (List σ)} {y : σ} (h : blockIdx bl y < bl.length) :
    y ∈ bl.flatten := by
  unfold blockIdx at h
  obtain ⟨N, hN, hy⟩ := List.findIdx_lt_length.mp h
  exact List.mem_flatten.mpr ⟨N, hN, by simpa using hy⟩

theorem chain_skip (V : List σ) (bl : List (List σ)) (hV : ∀ x ∈ bl.flatten, x ∉ V) :
    Chain V (ucSkipRule (K := K) bl) := by
  intro r hr
  unfold ucSkipRule at hr
  unfold uTarget
  split at hr
  next y hb =>
    rw [hb]
    simp only [decide_eq_true_eq] at hr
    exact ⟨rfl, hV y (mem_of_idx_lt hr.1)⟩
  · exact absurd hr (by simp)

theorem skip_true {ac : List σ} {b : Block σ K} (h : ucSkipBlock ac b = true) :
    ∃ Xa, b.nodes = [Xa] ∧ Xa ∈ ac := by
  unfold ucSkipBlock at h
  split at h
  next Xa hb => exact ⟨Xa, hb, by simpa using h⟩
  · exact absurd h (by simp)

/-- a node of a block that is not skipped is not in `acyclic` -/
theorem not_acyclic_of_unskipped {A : σ → σ → K} {blocks : List (Block σ K)}
    (hnd : (blocks.map (·.nodes)).flatten.Nodup) {b : Block σ K} (hb : b ∈ blocks)
    (hs : ucSkipBlock (ucAcyclic A blocks) b = false) {u : σ} (hu : u ∈ b.nodes) :
    u ∉ ucAcyclic A blocks := by
  intro ha
  obtain ⟨b', hb', hn', _⟩ := mem_ucAcyclic.mp ha
  have hbl : b.nodes ∈ blocks.map (·.nodes) := List.mem_map.mpr ⟨b, hb, rfl⟩
  have hbl' : b'.nodes ∈ blocks.map (·.nodes) := List.mem_map.mpr ⟨b', hb', rfl⟩
  have : b.nodes = b'.nodes :=
    block_unique hnd hbl hbl' hu (by rw [hn']; exact List.mem_singleton.mpr rfl)
  rw [hn'] at this
  unfold ucSkipBlock at hs
  rw [this] at hs
  simp only [decide_eq_false_iff_not] at hs
  exact hs ha

theorem acyclic_mem {A : σ → σ → K} {blocks : List (Block σ K)} {X : σ}
    (h : X ∈ ucAcyclic A blocks) : X ∈ (blocks.map (·.nodes)).flatten := by
  obtain ⟨b, hb, hn, _⟩ := mem_ucAcyclic.mp h
  exact List.mem_flatten.mpr ⟨b.nodes, List.mem_map.mpr ⟨b, hb, rfl⟩,
    by rw [hn]; exact List.mem_singleton.mpr rfl⟩

variable {A : σ → σ → K} {blocks : List (Block σ K)} {bot : σ → σ} {G : CFG σ K}

theorem botp_eq (H : SemHyp blocks bot G) {u v : σ}
    (hu : u ∈ (blocks.map (·.nodes)).flatten) (hv : v ∈ (blocks.map (·.nodes)).flatten) :
    ucBot (ucAcyclic A blocks) bot u = ucBot (ucAcyclic A blocks) bot v ↔ u = v := by
  constructor
  · unfold ucBot
    intro h
    split at h <;> split at h
    · exact h
    · exact absurd (h ▸ hu) (H.fresh v hv)
    · exact absurd (h ▸ hv) (H.fresh u hu)
    · exact H.inj u hu v hv h
  · rintro rfl; rfl

theorem botp_notV (H : SemHyp blocks bot G) {u : σ} (hu : u ∈ (blocks.map (·.nodes)).flatten) :
    ucBot (ucAcyclic A blocks) bot u ∉ G.V := by
  unfold ucBot
  split
  · exact (H.term u hu).1
  · exact (H.term u hu).2

/-- heads of the block rules are cyclic nodes -/
theorem br_head (H : SemHyp blocks bot G) {q : Rule σ K}
    (hq : q ∈ ucBlockRules (ucAcyclic A blocks) bot blocks) :
    q.head ∈ (blocks.map (·.nodes)).flatten ∧ q.head ∉ ucAcyclic A blocks := by
  obtain ⟨b, hb, hs, e, he, rfl⟩ := mem_ucBlockRules.mp hq
  have h1 := (H.clo b hb e he).1
  exact ⟨List.mem_flatten.mpr ⟨b.nodes, List.mem_map.mpr ⟨b, hb, rfl⟩, h1⟩,
    not_acyclic_of_unskipped H.nodup hb hs h1⟩

theorem br_head_ne (H : SemHyp blocks bot G) {q : Rule σ K}
    (hq : q ∈ ucBlockRules (ucAcyclic A blocks) bot blocks) {X2 : σ}
    (hX2 : X2 ∈ (blocks.map (·.nodes)).flatten) :
    q.head ≠ ucBot (ucAcyclic A blocks) bot X2 := by
  obtain ⟨h1, h2⟩ := br_head H hq
  unfold ucBot
  split
  next ha => exact fun e => h2 (e ▸ ha)
  · exact fun e => H.fresh X2 hX2 (e ▸ h1)

/-- heads of the kept rules are acyclic nodes or `bot` of a cyclic node -/
theorem kr_head_ne (H : SemHyp blocks bot G) {q : Rule σ K}
    (hq : q ∈ ucKeptRules (ucAcyclic A blocks) bot (blocks.map (·.nodes)) G.rules) {X : σ}
    (hX : X ∈ (blocks.map (·.nodes)).flatten) (hXa : X ∉ ucAcyclic A blocks) : q.head ≠ X := by
  obtain ⟨r, hr, _, rfl⟩ := mem_ucKeptRules.mp hq
  show ucBot (ucAcyclic A blocks) bot r.head ≠ X
  unfold ucBot
  split
  next ha => exact fun e => hXa (e ▸ ha)
  · exact fun e => H.fresh r.head (H.heads r hr) (e ▸ hX)

/-- **the step at `bot(X2)`**: the kept rules of `X2` -/
theorem step_bot (H : SemHyp blocks bot G) (g : σ → List σ → K) {X2 : σ}
    (hX2 : X2 ∈ (blocks.map (·.nodes)).flatten) (x : List σ) :
    stepL G.V (unaryCycleRemove A blocks bot G).rules g (ucBot (ucAcyclic A blocks) bot X2) x
      = NUp (ucSkipRule (blocks.map (·.nodes))) G.rules (fun r => Wbody G.V g r.body x) X2 := by
  show stepL G.V (mkRules (ucBlockRules (ucAcyclic A blocks) bot blocks ++
    ucKeptRules (ucAcyclic A blocks) bot (blocks.map (·.nodes)) G.rules)) g _ x = _
  rw [stepL_mkRules, stepL_append]
  have h1 : stepL G.V (ucBlockRules (ucAcyclic A blocks) bot blocks) g
      (ucBot (ucAcyclic A blocks) bot X2) x = 0 := by
    rw [stepL_eq_ite]
    apply sum_map_zero
    intro q hq
    rw [if_neg (br_head_ne H hq hX2)]
  rw [h1, zero_add]
  unfold ucKeptRules
  rw [stepL_eq_ite, List.map_map, sum_filter_ite]
  unfold NUp
  congr 1
  apply List.map_congr_left
  intro r hr
  have hiff := botp_eq (A := A) H (H.heads r hr) hX2
  by_cases hp : ucSkipRule (blocks.map (·.nodes)) r = true
  · simp [hp]
  · have hp' : ucSkipRule (blocks.map (·.nodes)) r = false := by simpa using hp
    by_cases hh : r.head = X2
    · simp [hp', hh]
    · have hne : ¬ ucBot (ucAcyclic A blocks) bot r.head = ucBot (ucAcyclic A blocks) bot X2 :=
        fun e => hh (hiff.mp e)
      simp [hp', hh, hne]

theorem sum_flatMap_map {α β : Type} (l : List α) (F : α → List β) (f : β → K) :
    ((l.flatMap F).map f).sum = (l.map fun a => ((F a).map f).sum).sum := by
  induction l with
  | nil => rfl
  | cons a l ih => simp [List.flatMap_cons, ih]

theorem stepL_flatMap' {α : Type} (V : List σ) (l : List α) (F : α → List (Rule σ K))
    (g : σ → List σ → K) (Z : σ) (x : List σ) :
    stepL V (l.flatMap F) g Z x = (l.map fun a => stepL V (F a) g Z x).sum := by
  induction l with
  | nil => simp [stepL_nil]
  | cons a l ih => rw [List.flatMap_cons, stepL_append, ih]; simp

/-- **the step at a cyclic node `X`**: the row `X` of the closure of its block -/
theorem step_cyclic (H : SemHyp blocks bot G) (g : σ → List σ → K) {X : σ}
    (hX : X ∈ (blocks.map (·.nodes)).flatten) (hXa : X ∉ ucAcyclic A blocks) (x : List σ) :
    stepL G.V (unaryCycleRemove A blocks bot G).rules g X x
      = ((ucAllClo blocks).map fun e =>
          if e.1.1 = X then e.2 * g (ucBot (ucAcyclic A blocks) bot e.1.2) x else 0).sum := by
  show stepL G.V (mkRules (ucBlockRules (ucAcyclic A blocks) bot blocks ++
    ucKeptRules (ucAcyclic A blocks) bot (blocks.map (·.nodes)) G.rules)) g _ x = _
  rw [stepL_mkRules, stepL_append]
  have h2 : stepL G.V (ucKeptRules (ucAcyclic A blocks) bot (blocks.map (·.nodes)) G.rules) g X x
      = 0 := by
    rw [stepL_eq_ite]
    apply sum_map_zero
    intro q hq
    rw [if_neg (kr_head_ne H hq hX hXa)]
  rw [h2, add_zero]
  unfold ucBlockRules ucAllClo
  rw [stepL_flatMap', sum_flatMap_map]
  congr 1
  apply List.map_congr_left
  intro b hb
  by_cases hs : ucSkipBlock (ucAcyclic A blocks) b = true
  · rw [if_pos hs, stepL_nil]
    symm
    apply sum_map_zero
    intro e he
    obtain ⟨Xa, hn, ha⟩ := skip_true hs
    have h1 := (H.clo b hb e he).1
    rw [hn, List.mem_singleton] at h1
    rw [if_neg]
    intro e'
    exact hXa (e' ▸ h1 ▸ ha)
  · rw [if_neg hs, stepL_eq_ite, List.map_map]
    congr 1
    apply List.map_congr_left
    intro e he
    have h2 := (H.clo b hb e he).2
    have hmem : e.1.2 ∈ (blocks.map (·.nodes)).flatten :=
      List.mem_flatten.mpr ⟨b.nodes, List.mem_map.mpr ⟨b, hb, rfl⟩, h2⟩
    simp only [Function.comp_apply]
    rw [Wbody_singleton, Wsym_nt G.V g _ (botp_notV H hmem)]

/-- summing the row `X` of the closures against `NU` gives `(W_X · NU)` -/
theorem clo_NUp (p : Rule σ K → Bool) (rs : List (Rule σ K)) (h : Rule σ K → K) (X : σ) :
    ((ucAllClo blocks).map fun e => if e.1.1 = X then e.2 * NUp p rs h e.1.2 else 0).sum
      = CLp p rs (ucClo blocks X) h := by
  unfold NUp CLp ucClo wlook
  simp only [lsum_eq_sum]
  have e1 : ∀ e : (σ × σ) × K,
      (if e.1.1 = X then e.2 * (rs.map fun r =>
        if p r = false ∧ r.head = e.1.2 then r.w * h r else 0).sum else 0)
      = (rs.map fun r => if p r = false ∧ e.1 = (X, r.head) then e.2 * (r.w * h r) else 0).sum := by
    intro e
    by_cases hx : e.1.1 = X
    · rw [if_pos hx, ← List.sum_map_mul_left]
      congr 1; apply List.map_congr_left; intro r _
      have : e.1 = (X, r.head) ↔ r.head = e.1.2 := by
        constructor
        · intro h'; rw [h']
        · intro h'; rw [h', ← hx]
      simp only [this]
      split
      · rfl
      · exact mul_zero _
    · rw [if_neg hx]
      symm; apply sum_map_zero; intro r _
      rw [if_neg]
      rintro ⟨_, h'⟩
      exact hx (by rw [h'])
  have e2 : ∀ r : Rule σ K,
      (if p r = false then
        (((ucAllClo blocks).filter fun e => decide (e.1 = (X, r.head))).map (·.2)).sum
          * (r.w * h r) else 0)
      = ((ucAllClo blocks).map fun e =>
          if p r = false ∧ e.1 = (X, r.head) then e.2 * (r.w * h r) else 0).sum := by
    intro r
    by_cases hp : p r = false
    · rw [if_pos hp, sum_filter_ite, ← List.sum_map_mul_right]
      congr 1; apply List.map_congr_left; intro e _
      by_cases he : e.1 = (X, r.head)
      · simp [hp, he]
      · simp [he]
    · rw [if_neg hp]
      symm; apply sum_map_zero; intro e _
      rw [if_neg]
      exact fun h' => hp h'.1
  rw [List.map_congr_left (fun e _ => e1 e), List.map_congr_left (fun r _ => e2 r), sum_comm']

theorem allClo_mem (H : SemHyp blocks bot G) {e : (σ × σ) × K} (he : e ∈ ucAllClo blocks) :
    e.1.1 ∈ (blocks.map (·.nodes)).flatten ∧ e.1.2 ∈ (blocks.map (·.nodes)).flatten := by
  obtain ⟨b, hb, heb⟩ := List.mem_flatMap.mp he
  obtain ⟨h1, h2⟩ := H.clo b hb e heb
  have hbl : b.nodes ∈ blocks.map (·.nodes) := List.mem_map.mpr ⟨b, hb, rfl⟩
  exact ⟨List.mem_flatten.mpr ⟨_, hbl, h1⟩, List.mem_flatten.mpr ⟨_, hbl, h2⟩⟩

theorem ucW_acyclic {X : σ} (ha : X ∈ ucAcyclic A blocks) (p : Rule σ K → Bool)
    (rs : List (Rule σ K)) (h : Rule σ K → K) :
    CLp p rs (ucW A blocks X) h = NUp p rs h X := by
  rw [← CLp_one]
  apply CLp_congr
  intro r _
  unfold ucW
  rw [if_pos ha]

theorem ucW_cyclic {X : σ} (ha : X ∉ ucAcyclic A blocks) (p : Rule σ K → Bool)
    (rs : List (Rule σ K)) (h : Rule σ K → K) :
    CLp p rs (ucW A blocks X) h = CLp p rs (ucClo blocks X) h := by
  apply CLp_congr
  intro r _
  unfold ucW
  rw [if_neg ha]

theorem step_acyclic (H : SemHyp blocks bot G) (g : σ → List σ → K) {X : σ}
    (ha : X ∈ ucAcyclic A blocks) (x : List σ) :
    stepL G.V (unaryCycleRemove A blocks bot G).rules g X x
      = NUp (ucSkipRule (blocks.map (·.nodes))) G.rules (fun r => Wbody G.V g r.body x) X := by
  have hb := step_bot (A := A) H g (acyclic_mem ha) x
  rw [show ucBot (ucAcyclic A blocks) bot X = X from if_pos ha] at hb
  exact hb

/-- level `n` at `bot(X2)` is below the kept rules of `X2` at level `n` -/
theorem WN_bot_le (H : SemHyp blocks bot G) (n : Nat) {X2 : σ}
    (hX2 : X2 ∈ (blocks.map (·.nodes)).flatten) (x : List σ) :
    WN (unaryCycleRemove A blocks bot G) n (ucBot (ucAcyclic A blocks) bot X2) x
      ≼ NUp (ucSkipRule (blocks.map (·.nodes))) G.rules
          (fun r => Wbody G.V (WN (unaryCycleRemove A blocks bot G) n) r.body x) X2 := by
  cases n with
  | zero => exact zero_le' _
  | succ n =>
    rw [WN_succ]
    show stepL G.V _ _ _ _ ≼ _
    rw [step_bot H _ hX2]
    exact NUp_le _ _ _ _
      (fun r _ => Wbody_le _ _ _ _ (fun s _ u => WN_le_succ _ n s u) x) X2

/-- one level of the result at an old node is below the table applied to the kept rules -/
theorem WN_new_le (H : SemHyp blocks bot G) (n : Nat) {X : σ}
    (hX : X ∈ (blocks.map (·.nodes)).flatten) (x : List σ) :
    WN (unaryCycleRemove A blocks bot G) (n + 1) X x
      ≼ CLp (ucSkipRule (blocks.map (·.nodes))) G.rules (ucW A blocks X)
          (fun r => Wbody G.V (WN (unaryCycleRemove A blocks bot G) n) r.body x) := by
  rw [WN_succ]
  show stepL G.V _ _ _ _ ≼ _
  by_cases ha : X ∈ ucAcyclic A blocks
  · rw [step_acyclic H _ ha, ucW_acyclic ha]
    exact le_rfl' _
  · rw [step_cyclic H _ hX ha, ucW_cyclic ha, ← clo_NUp]
    apply sum_le'
    intro e he
    split
    · exact mul_le' (le_rfl' _) (WN_bot_le H n (allClo_mem H he).2 x)
    · exact le_rfl' _

/-- the table applied to the kept rules at level `m` is below level `m + 2` of the result -/
theorem WN_new_ge (H : SemHyp blocks bot G) (m : Nat) {X : σ}
    (hX : X ∈ (blocks.map (·.nodes)).flatten) (x : List σ) :
    CLp (ucSkipRule (blocks.map (·.nodes))) G.rules (ucW A blocks X)
        (fun r => Wbody G.V (WN (unaryCycleRemove A blocks bot G) m) r.body x)
      ≼ WN (unaryCycleRemove A blocks bot G) (m + 2) X x := by
  by_cases ha : X ∈ ucAcyclic A blocks
  · rw [ucW_acyclic ha, ← step_acyclic H _ ha]
    refine le_trans' (le_of_eq' ?_) (WN_le_succ _ (m + 1) X x)
    rw [WN_succ]
    rfl
  · rw [ucW_cyclic ha, ← clo_NUp]
    apply le_of_eq'
    rw [WN_succ]
    show _ = stepL G.V _ _ _ _
    rw [step_cyclic H _ hX ha]
    congr 1
    apply List.map_congr_left
    intro e he
    rw [WN_succ]
    show _ = if e.1.1 = X then e.2 * stepL G.V _ _ _ _ else 0
    rw [step_bot H _ (allClo_mem H he).2]

/-- the rules of the result have old nodes or `bot` of old nodes as heads -/
theorem new_head (H : SemHyp blocks bot G) {q : Rule σ K}
    (hq : q ∈ (unaryCycleRemove A blocks bot G).rules) :
    q.head ∈ (blocks.map (·.nodes)).flatten ∨
      ∃ u ∈ (blocks.map (·.nodes)).flatten, q.head = bot u := by
  have hq' : q ∈ ucBlockRules (ucAcyclic A blocks) bot blocks ++
      ucKeptRules (ucAcyclic A blocks) bot (blocks.map (·.nodes)) G.rules :=
    (mem_mkRules.mp hq).1
  rcases List.mem_append.mp hq' with h | h
  · exact Or.inl (br_head H h).1
  · obtain ⟨r, hr, _, rfl⟩ := mem_ucKeptRules.mp h
    show ucBot (ucAcyclic A blocks) bot r.head ∈ _ ∨ _
    unfold ucBot
    split
    · exact Or.inl (H.heads r hr)
    · exact Or.inr ⟨r.head, H.heads r hr, rfl⟩

/-- the chart of all closures, read at a row `X`, is the closure matrix of the block of `X` -/
theorem ucClo_eq_B (blocks : List (Block σ K)) (hnd : (blocks.map (·.nodes)).flatten.Nodup)
    (hclo : ∀ b ∈ blocks, ∀ e ∈ b.clo, e.1.1 ∈ b.nodes ∧ e.1.2 ∈ b.nodes)
    {b : Block σ K} (hb : b ∈ blocks) {X : σ} (hX : X ∈ b.nodes) (Z : σ) :
    ucClo blocks X Z = b.B X Z := by
  induction blocks with
  | nil => exact absurd hb List.not_mem_nil
  | cons b0 rest ih =>
    have hsplit : ucClo (b0 :: rest) X Z = wlook b0.clo (X, Z) + ucClo rest X Z := by
      unfold ucClo ucAllClo
      rw [List.flatMap_cons, Linear.wlook_append]
    rw [List.map_cons, List.flatten_cons, List.nodup_append] at hnd
    have hzero_rest : X ∉ (rest.map (·.nodes)).flatten → ucClo rest X Z = 0 := by
      intro h
      unfold ucClo
      apply Linear.wlook_eq_zero
      intro e he hk
      obtain ⟨b', hb', heb⟩ := List.mem_flatMap.mp he
      have h1 := (hclo b' (List.mem_cons_of_mem _ hb') e heb).1
      rw [hk] at h1
      exact h (List.mem_flatten.mpr ⟨b'.nodes, List.mem_map.mpr ⟨b', hb', rfl⟩, h1⟩)
    rw [hsplit]
    rcases List.mem_cons.mp hb with rfl | hb'
    · rw [hzero_rest (fun h => hnd.2.2 X hX X h rfl), add_zero]
      rfl
    · have hXr : X ∈ (rest.map (·.nodes)).flatten :=
        List.mem_flatten.mpr ⟨b.nodes, List.mem_map.mpr ⟨b, hb', rfl⟩, hX⟩
      have h0 : wlook b0.clo (X, Z) = 0 := by
        apply Linear.wlook_eq_zero
        intro e he hk
        have h1 := (hclo b0 (List.mem_cons_self ..) e he).1
        rw [hk] at h1
        exact hnd.2.2 X h1 X hXr rfl
      rw [h0, zero_add]
      exact ih hnd.2.1 (fun b hb => hclo b (List.mem_cons_of_mem _ hb)) hb'

theorem UNp_congr (p : Rule σ K → Bool) (rs : List (Rule σ K)) (g g' : σ → K) (Y : σ)
    (h : ∀ r ∈ rs, p r = true → r.head = Y → g (uTarget r) = g' (uTarget r)) :
    UNp p rs g Y = UNp p rs g' Y := by
  unfold UNp
  congr 1
  apply List.map_congr_left
  intro r hr
  split
  next hc => rw [h r hr hc.1 hc.2]
  · rfl

/-- a table that is attained by the `K0`-th partial sum and is a fixed point of `W ↦ I + A·W` on
the nodes is the value of all later partial sums: the form in which the hypothesis `hW` of
`ucycle_preserves` can be checked by computation -/
theorem ucUW_stable (bl : List (List σ)) (G : CFG σ K) (W : σ → σ → K) (K0 : Nat)
    (h0 : ∀ X ∈ bl.flatten, ∀ Z ∈ bl.flatten, ucUW bl G K0 X Z = W X Z)
    (hfix : ∀ X ∈ bl.flatten, ∀ Z ∈ bl.flatten,
      (if X = Z then 1 else 0) + UNp (ucSkipRule bl) G.rules (fun Y => W Y Z) X = W X Z) :
    ∀ k, K0 ≤ k → ∀ X ∈ bl.flatten, ∀ Z ∈ bl.flatten, ucUW bl G k X Z = W X Z := by
  intro k hk
  induction hk with
  | refl => exact h0
  | @step k _ ih =>
    intro X hX Z hZ
    show (if X = Z then 1 else 0) + UNp (ucSkipRule bl) G.rules
      (fun Y => UWp (ucSkipRule bl) G.rules k Y Z) X = W X Z
    rw [← hfix X hX Z hZ]
    congr 1
    apply UNp_congr
    intro r _ hp _
    have hmem : uTarget r ∈ bl.flatten := by
      unfold ucSkipRule at hp
      unfold uTarget
      split at hp
      next y hb =>
        rw [hb]
        simp only [decide_eq_true_eq] at hp
        exact mem_of_idx_lt hp.1
      · exact absurd hp (by simp)
    exact ih (uTarget r) hmem Z hZ

end Sem
end UCycleAux

open UCycleAux
section
variable {σ K : Type} [DecidableEq σ] [DecidableEq K] [CommSemiring K]

/-- **C07, `unarycycleremove`: the result has no cycle of unary rules** (relational form).
`arcs` is any arc list containing the unary edges of the non-zero rules of `G`, `blocks` (with
their closure matrices, whose *values* are irrelevant here) an SCC decomposition of it. -/
theorem ucycle_no_unary_cycle_rel (A : σ → σ → K) (blocks : List (Block σ K)) (bot : σ → σ)
    (G : CFG σ K) (nodes : List σ) (arcs : List (σ × σ))
    (hd : IsSccDecomp nodes arcs (blocks.map (·.nodes)))
    (harcs : ∀ r ∈ G.rules, r.w ≠ 0 → ∀ y, r.body = [y] → y ∉ G.V → (r.head, y) ∈ arcs)
    (hclo : ∀ b ∈ blocks, ∀ e ∈ b.clo, e.1.1 ∈ b.nodes ∧ e.1.2 ∈ b.nodes)
    (hinj : ∀ x ∈ nodes, ∀ y ∈ nodes, bot x = bot y → x = y)
    (hfresh : ∀ x ∈ nodes, bot x ∉ nodes) :
    ∀ X, ¬ Relation.TransGen (arcRel (unaryEdges (unaryCycleRemove A blocks bot G))) X X := by
  have key : ∀ X Y, Relation.TransGen (arcRel (unaryEdges (unaryCycleRemove A blocks bot G))) X Y →
      pot bot (blocks.map (·.nodes)) X < pot bot (blocks.map (·.nodes)) Y := by
    intro X Y h
    induction h with
    | single h => exact edge_pot A blocks bot G nodes arcs hd harcs hclo hinj hfresh _ _ h
    | tail _ h ih =>
      exact Nat.lt_trans ih (edge_pot A blocks bot G nodes arcs hd harcs hclo hinj hfresh _ _ h)
  exact fun X h => Nat.lt_irrefl _ (key X X h)

/-- **C07, `unarycycleremove`** (Boolean form, general arc list) -/
theorem ucycle_no_unary_cycle_arcs (A : σ → σ → K) (blocks : List (Block σ K)) (bot : σ → σ)
    (G : CFG σ K) (nodes : List σ) (arcs : List (σ × σ))
    (hd : IsSccDecomp nodes arcs (blocks.map (·.nodes)))
    (harcs : ∀ r ∈ G.rules, r.w ≠ 0 → ∀ y, r.body = [y] → y ∉ G.V → (r.head, y) ∈ arcs)
    (hclo : ∀ b ∈ blocks, ∀ e ∈ b.clo, e.1.1 ∈ b.nodes ∧ e.1.2 ∈ b.nodes)
    (hinj : ∀ x ∈ nodes, ∀ y ∈ nodes, bot x = bot y → x = y)
    (hfresh : ∀ x ∈ nodes, bot x ∉ nodes) :
    noUnaryCycle (unaryCycleRemove A blocks bot G) = true :=
  (noUnaryCycle_iff _).mpr
    (ucycle_no_unary_cycle_rel A blocks bot G nodes arcs hd harcs hclo hinj hfresh)

/-- **C07, `unarycycleremove` leaves no unary cycle.**  `blocks` is an SCC decomposition
(sources first) of the graph of the unary rules of `G`, the keys of each closure matrix lie in
its block, and `bot` is injective and fresh on the nodes.  Nothing is assumed about `A` or about
the values of the closure matrices. -/
theorem ucycle_no_unary_cycle (A : σ → σ → K) (blocks : List (Block σ K)) (bot : σ → σ)
    (G : CFG σ K) (nodes : List σ)
    (hd : IsSccDecomp nodes (unaryEdges G) (blocks.map (·.nodes)))
    (hclo : ∀ b ∈ blocks, ∀ e ∈ b.clo, e.1.1 ∈ b.nodes ∧ e.1.2 ∈ b.nodes)
    (hinj : ∀ x ∈ nodes, ∀ y ∈ nodes, bot x = bot y → x = y)
    (hfresh : ∀ x ∈ nodes, bot x ∉ nodes) :
    noUnaryCycle (unaryCycleRemove A blocks bot G) = true :=
  ucycle_no_unary_cycle_arcs A blocks bot G nodes (unaryEdges G) hd
    (fun r hr _ _ hb hV => mem_unaryEdges.mpr ⟨r, hr, rfl, hb, hV⟩) hclo hinj hfresh

/-- **C07 for the code path as it runs**: the graph is `_unary_graph()`, the blocks are
`Blocks` (`_closure` on a decomposition `bl` accepted by `sccCheck` for the keys stored in `E`),
`A = G[·,·]`; `star` is arbitrary.  `harcs` (the Boolean `unaryArcsComplete G`, evaluated by the
driver on every case): no unary rule lost its key in `E` because the accumulated weight cancelled
to zero — `__setitem__` deletes such keys, and then the blocks are not the components of the graph
of the unary rules any more (see `Gcancel` below). -/
theorem ucycle_no_unary_cycle_graph (star : K → K) (bl : List (List σ)) (bot : σ → σ)
    (G : CFG σ K)
    (hchk : sccCheck (unaryGraph G) (unaryGraph G).arcs bl = true)
    (harcs : unaryArcsComplete G = true)
    (hinj : ∀ x ∈ (unaryGraph G).nodes, ∀ y ∈ (unaryGraph G).nodes, bot x = bot y → x = y)
    (hfresh : ∀ x ∈ (unaryGraph G).nodes, bot x ∉ (unaryGraph G).nodes) :
    noUnaryCycle (unaryCycleRemove (unaryGraph G).E (mkBlocks (unaryGraph G) star bl) bot G)
      = true := by
  have hd := (sccCheck_iff (unaryGraph G) (unaryGraph G).arcs bl).mp hchk
  rw [← mkBlocks_nodes (unaryGraph G) star bl] at hd
  refine ucycle_no_unary_cycle_arcs _ _ bot G _ _ hd ((unaryArcsComplete_iff G).mp harcs) ?_
    hinj hfresh
  intro b hb e he
  obtain ⟨N, _, rfl⟩ := List.mem_map.mp hb
  exact lehmann_keys (unaryGraph G) star N e he

/-- … in particular wherever non-zero weights cannot cancel (`ℕ`, `ℝ≥0∞`, Boolean, max-times, the
non-negative reals) -/
theorem ucycle_no_unary_cycle_graph_zsf (hz : ∀ a b : K, a + b = 0 → a = 0) (star : K → K)
    (bl : List (List σ)) (bot : σ → σ) (G : CFG σ K)
    (hchk : sccCheck (unaryGraph G) (unaryGraph G).arcs bl = true)
    (hinj : ∀ x ∈ (unaryGraph G).nodes, ∀ y ∈ (unaryGraph G).nodes, bot x = bot y → x = y)
    (hfresh : ∀ x ∈ (unaryGraph G).nodes, bot x ∉ (unaryGraph G).nodes) :
    noUnaryCycle (unaryCycleRemove (unaryGraph G).E (mkBlocks (unaryGraph G) star bl) bot G)
      = true :=
  ucycle_no_unary_cycle_graph star bl bot G hchk (unaryArcsComplete_of_zsf hz G) hinj hfresh

end
section
open UnfoldAux Sem2Aux
variable {σ K : Type} [DecidableEq σ] [DecidableEq K] [CommSemiring K]

/-- **C06 (⊑), `unarycycleremove` loses nothing**: level `n` of `G` is below level `2 n` of the
result (one level of `G` at a cyclic node is `X → bot X2 → body`), if the table `ucW` (identity at
the `acyclic` nodes, block closures elsewhere) bounds every partial sum of the closure of the
unary rules inside the blocks.  `N` = the nodes of the blocks. -/
theorem ucycle_le (A : σ → σ → K) (blocks : List (Block σ K)) (bot : σ → σ) (G : CFG σ K)
    (hnd : (blocks.map (·.nodes)).flatten.Nodup)
    (hclo : ∀ b ∈ blocks, ∀ e ∈ b.clo, e.1.1 ∈ b.nodes ∧ e.1.2 ∈ b.nodes)
    (hinj : ∀ x ∈ (blocks.map (·.nodes)).flatten, ∀ y ∈ (blocks.map (·.nodes)).flatten,
      bot x = bot y → x = y)
    (hfresh : ∀ x ∈ (blocks.map (·.nodes)).flatten, bot x ∉ (blocks.map (·.nodes)).flatten)
    (hheads : ∀ r ∈ G.rules, r.head ∈ (blocks.map (·.nodes)).flatten)
    (hterm : ∀ x ∈ (blocks.map (·.nodes)).flatten, x ∉ G.V ∧ bot x ∉ G.V)
    (hW : ∀ k, ∀ X ∈ (blocks.map (·.nodes)).flatten, ∀ Z ∈ (blocks.map (·.nodes)).flatten,
      ucUW (blocks.map (·.nodes)) G k X Z ≼ ucW A blocks X Z)
    (n : Nat) (s : σ) (x : List σ) :
    WN G n s x ≼ WN (unaryCycleRemove A blocks bot G) (2 * n) s x := by
  have H : SemHyp blocks bot G := ⟨hnd, hclo, hinj, hfresh, hheads, hterm⟩
  have hp : Chain G.V (ucSkipRule (K := K) (blocks.map (·.nodes))) :=
    chain_skip G.V _ (fun y hy => (hterm y hy).1)
  induction n generalizing s x with
  | zero => exact zero_le' _
  | succ n ih =>
    by_cases hs : s ∈ (blocks.map (·.nodes)).flatten
    · refine le_trans' (WN_le_closure_p G _ hp n s x) ?_
      rw [show 2 * (n + 1) = 2 * n + 2 by omega]
      refine le_trans' ?_ (WN_new_ge H (2 * n) hs x)
      refine CLp_le _ _ _ _ _ _ (fun r hr => hW n s hs _ (hheads r hr)) ?_
      intro r _
      exact Wbody_le _ _ _ _ (fun s' _ u => ih s' u) x
    · rw [WN_zero_of_no_rule G (n + 1) s x (fun r hr e => hs (e ▸ hheads r hr))]
      exact zero_le' _

/-- **C06 (⊒), `unarycycleremove` adds nothing**: if the table `ucW` is below the `K0`-th partial
sum of the closure of the unary rules inside the blocks, level `n` of the result at an old node is
below level `n (K0+1)` of `G`.  `hbody`: no `bot u` occurs in a body of `G`. -/
theorem ucycle_ge (A : σ → σ → K) (blocks : List (Block σ K)) (bot : σ → σ) (G : CFG σ K)
    (K0 : Nat)
    (hnd : (blocks.map (·.nodes)).flatten.Nodup)
    (hclo : ∀ b ∈ blocks, ∀ e ∈ b.clo, e.1.1 ∈ b.nodes ∧ e.1.2 ∈ b.nodes)
    (hinj : ∀ x ∈ (blocks.map (·.nodes)).flatten, ∀ y ∈ (blocks.map (·.nodes)).flatten,
      bot x = bot y → x = y)
    (hfresh : ∀ x ∈ (blocks.map (·.nodes)).flatten, bot x ∉ (blocks.map (·.nodes)).flatten)
    (hheads : ∀ r ∈ G.rules, r.head ∈ (blocks.map (·.nodes)).flatten)
    (hterm : ∀ x ∈ (blocks.map (·.nodes)).flatten, x ∉ G.V ∧ bot x ∉ G.V)
    (hbody : ∀ r ∈ G.rules, ∀ s ∈ r.body, ∀ u ∈ (blocks.map (·.nodes)).flatten, s ≠ bot u)
    (hW : ∀ X ∈ (blocks.map (·.nodes)).flatten, ∀ Z ∈ (blocks.map (·.nodes)).flatten,
      ucW A blocks X Z ≼ ucUW (blocks.map (·.nodes)) G K0 X Z)
    (n : Nat) (s : σ) (hs : ∀ u ∈ (blocks.map (·.nodes)).flatten, s ≠ bot u) (x : List σ) :
    WN (unaryCycleRemove A blocks bot G) n s x ≼ WN G (n * (K0 + 1)) s x := by
  have H : SemHyp blocks bot G := ⟨hnd, hclo, hinj, hfresh, hheads, hterm⟩
  have hp : Chain G.V (ucSkipRule (K := K) (blocks.map (·.nodes))) :=
    chain_skip G.V _ (fun y hy => (hterm y hy).1)
  induction n generalizing s x with
  | zero => exact zero_le' _
  | succ n ih =>
    by_cases hsN : s ∈ (blocks.map (·.nodes)).flatten
    · refine le_trans' (WN_new_le H n hsN x) ?_
      rw [show (n + 1) * (K0 + 1) = n * (K0 + 1) + K0 + 1 by
        rw [Nat.succ_mul]; omega]
      refine le_trans' ?_ (closure_le_WN_p G _ hp K0 (n * (K0 + 1)) s x)
      refine CLp_le _ _ _ _ _ _ (fun r hr => hW s hsN _ (hheads r hr)) ?_
      intro r hr
      exact Wbody_le _ _ _ _ (fun s' hs' u => ih s' (hbody r hr s' hs') u) x
    · rw [WN_zero_of_no_rule _ (n + 1) s x]
      · exact zero_le' _
      · intro q hq e
        rcases new_head H hq with h | ⟨u, hu, h⟩
        · exact hsN (e ▸ h)
        · exact hs u hu (e ▸ h)

/-- **C06, `unarycycleremove` preserves the weighted language** relative to block closures at
which the partial sums of the closure of the in-block unary rules stabilise (from `K0` on): at
every old node `X` (in particular the start symbol) the levels interleave. -/
theorem ucycle_preserves (A : σ → σ → K) (blocks : List (Block σ K)) (bot : σ → σ) (G : CFG σ K)
    (K0 : Nat)
    (hnd : (blocks.map (·.nodes)).flatten.Nodup)
    (hclo : ∀ b ∈ blocks, ∀ e ∈ b.clo, e.1.1 ∈ b.nodes ∧ e.1.2 ∈ b.nodes)
    (hinj : ∀ x ∈ (blocks.map (·.nodes)).flatten, ∀ y ∈ (blocks.map (·.nodes)).flatten,
      bot x = bot y → x = y)
    (hfresh : ∀ x ∈ (blocks.map (·.nodes)).flatten, bot x ∉ (blocks.map (·.nodes)).flatten)
    (hheads : ∀ r ∈ G.rules, r.head ∈ (blocks.map (·.nodes)).flatten)
    (hterm : ∀ x ∈ (blocks.map (·.nodes)).flatten, x ∉ G.V ∧ bot x ∉ G.V)
    (hbody : ∀ r ∈ G.rules, ∀ s ∈ r.body, ∀ u ∈ (blocks.map (·.nodes)).flatten, s ≠ bot u)
    (hW : ∀ k, K0 ≤ k → ∀ X ∈ (blocks.map (·.nodes)).flatten,
      ∀ Z ∈ (blocks.map (·.nodes)).flatten,
      ucUW (blocks.map (·.nodes)) G k X Z = ucW A blocks X Z)
    (n : Nat) (X : σ) (hX : X ∈ (blocks.map (·.nodes)).flatten) (x : List σ) :
    WN G n X x ≼ WN (unaryCycleRemove A blocks bot G) (2 * n) X x ∧
      WN (unaryCycleRemove A blocks bot G) n X x ≼ WN G (n * (K0 + 1)) X x := by
  have hmono : ∀ k m, k ≤ m → ∀ Y Z, ucUW (blocks.map (·.nodes)) G k Y Z
      ≼ ucUW (blocks.map (·.nodes)) G m Y Z := by
    intro k m h
    induction h with
    | refl => intro _ _; exact le_rfl' _
    | step _ ih => intro Y Z; exact le_trans' (ih Y Z) (UWp_mono _ _ _ Y Z)
  constructor
  · refine ucycle_le A blocks bot G hnd hclo hinj hfresh hheads hterm ?_ n X x
    intro k Y hY Z hZ
    rw [← hW (max k K0) (Nat.le_max_right _ _) Y hY Z hZ]
    exact hmono k _ (Nat.le_max_left _ _) Y Z
  · exact ucycle_ge A blocks bot G K0 hnd hclo hinj hfresh hheads hterm hbody
      (fun Y hY Z hZ => le_of_eq' (hW K0 (Nat.le_refl _) Y hY Z hZ).symm) n X
      (fun u hu e => hfresh u hu (e ▸ hX)) x

/-- where `≼` is antisymmetric, the block closures are the values at which the partial sums of
the closure of the in-block unary rules stabilise, and the weight of `x` at the old node `X` in
`G` has stabilised at `L` from level `N` on, `unarycycleremove` gives `L` from level `2 N` on -/
theorem ucycle_limit (A : σ → σ → K) (blocks : List (Block σ K)) (bot : σ → σ) (G : CFG σ K)
    (K0 : Nat)
    (hnd : (blocks.map (·.nodes)).flatten.Nodup)
    (hclo : ∀ b ∈ blocks, ∀ e ∈ b.clo, e.1.1 ∈ b.nodes ∧ e.1.2 ∈ b.nodes)
    (hinj : ∀ x ∈ (blocks.map (·.nodes)).flatten, ∀ y ∈ (blocks.map (·.nodes)).flatten,
      bot x = bot y → x = y)
    (hfresh : ∀ x ∈ (blocks.map (·.nodes)).flatten, bot x ∉ (blocks.map (·.nodes)).flatten)
    (hheads : ∀ r ∈ G.rules, r.head ∈ (blocks.map (·.nodes)).flatten)
    (hterm : ∀ x ∈ (blocks.map (·.nodes)).flatten, x ∉ G.V ∧ bot x ∉ G.V)
    (hbody : ∀ r ∈ G.rules, ∀ s ∈ r.body, ∀ u ∈ (blocks.map (·.nodes)).flatten, s ≠ bot u)
    (hW : ∀ k, K0 ≤ k → ∀ X ∈ (blocks.map (·.nodes)).flatten,
      ∀ Z ∈ (blocks.map (·.nodes)).flatten,
      ucUW (blocks.map (·.nodes)) G k X Z = ucW A blocks X Z)
    (hanti : ∀ a b : K, a ≼ b → b ≼ a → a = b)
    (X : σ) (hX : X ∈ (blocks.map (·.nodes)).flatten) (x : List σ) (N : Nat) (L : K)
    (hL : ∀ m, N ≤ m → WN G m X x = L) (n : Nat) (hn : 2 * N ≤ n) :
    WN (unaryCycleRemove A blocks bot G) n X x = L :=
  limit_transfer hanti (a := fun m => WN G m X x)
    (b := fun m => WN (unaryCycleRemove A blocks bot G) m X x)
    (fun _ _ h => WN_le_of_le _ h X x) N (2 * N) L hL
    (ucycle_preserves A blocks bot G K0 hnd hclo hinj hfresh hheads hterm hbody hW N X hX x).1
    (fun m => ⟨m * (K0 + 1), Nat.le_mul_of_pos_right m (Nat.succ_pos _),
      (ucycle_preserves A blocks bot G K0 hnd hclo hinj hfresh hheads hterm hbody hW
        m X hX x).2⟩) n hn (by omega)

end

/-! ### `has_unary_cycle` -/
section
open UCycleAux
variable {σ K : Type} [DecidableEq σ] [DecidableEq K] [CommSemiring K]

/-- **`has_unary_cycle` decides the existence of a cycle of unary rules**, when `bl` is the SCC
decomposition of the graph of the unary rules (every head is a node, no terminal is). -/
theorem hasUnaryCycle_iff (G : CFG σ K) (nodes : List σ) (bl : List (List σ))
    (hd : IsSccDecomp nodes (unaryEdges G) bl)
    (hheads : ∀ r ∈ G.rules, r.head ∈ nodes) (hterm : ∀ x ∈ nodes, x ∉ G.V) :
    hasUnaryCycle bl G = true ↔ noUnaryCycle G = false := by
  rw [← Bool.not_eq_true, noUnaryCycle_iff]
  unfold hasUnaryCycle
  rw [List.any_eq_true]
  constructor
  · rintro ⟨r, hr, h⟩ hno
    split at h
    next y hb =>
      rw [decide_eq_true_eq] at h
      have hhn := hheads r hr
      have hhf : r.head ∈ bl.flatten := (hd.cover _).mp hhn
      have hyf : y ∈ bl.flatten := mem_of_idx_lt (h ▸ idx_lt_of_mem hhf)
      have hyn : y ∈ nodes := (hd.cover _).mpr hyf
      have hedge : (r.head, y) ∈ unaryEdges G := mem_unaryEdges.mpr ⟨r, hr, rfl, hb, hterm y hyn⟩
      obtain ⟨N, hN, hhN⟩ := blockIdx_spec bl r.head hhf
      obtain ⟨M, hM, hyM⟩ := blockIdx_spec bl y hyf
      rw [h, hM] at hN
      have hNM : M = N := Option.some.inj hN
      subst hNM
      have hscc := (hd.scc r.head hhn y hyn).mp ⟨M, List.mem_of_getElem? hM, hhN, hyM⟩
      exact hno r.head (Relation.TransGen.head' hedge hscc.2)
    · exact absurd h (by simp)
  · intro h
    have h' : ∃ X, Relation.TransGen (arcRel (unaryEdges G)) X X := by
      by_contra hc
      exact h (fun X hX => hc ⟨X, hX⟩)
    obtain ⟨X, hX⟩ := h'
    obtain ⟨Y, hXY, hYX⟩ := Relation.TransGen.head'_iff.mp hX
    obtain ⟨r, hr, rfl, hb, hV⟩ := mem_unaryEdges.mp hXY
    refine ⟨r, hr, ?_⟩
    rw [hb]
    rw [decide_eq_true_eq]
    have hn := hd.closed _ hXY
    obtain ⟨N, hN, hu, hv⟩ := (hd.scc r.head hn.1 Y hn.2).mpr
      ⟨Relation.ReflTransGen.single hXY, hYX⟩
    exact idx_eq_of_mem hd.nodup hN hu hv

/-- for the code path as it runs: the blocks `bl` of `_unary_graph()` pass the SCC check on the
graph of the unary rules (evaluated by the driver on every case; it can fail only when a key of `E`
was cancelled away, see `Gcancel`) -/
theorem hasUnaryCycle_graph (G : CFG σ K) (bl : List (List σ))
    (hchk : sccCheck (unaryGraph G) (unaryEdges G) bl = true)
    (hterm : ∀ x ∈ (unaryGraph G).nodes, x ∉ G.V) :
    hasUnaryCycle bl G = !noUnaryCycle G := by
  have hd := (sccCheck_iff (unaryGraph G) (unaryEdges G) bl).mp hchk
  have hheads : ∀ r ∈ G.rules, r.head ∈ (unaryGraph G).nodes := by
    intro r hr
    unfold unaryGraph
    rw [Linear.mem_linDedup, List.mem_append]
    exact Or.inl (mem_nonterminals.mpr (Or.inr ⟨r, hr, rfl⟩))
  have := hasUnaryCycle_iff G _ bl hd hheads hterm
  cases h1 : hasUnaryCycle bl G <;> cases h2 : noUnaryCycle G <;> simp_all
end

/-! ### non-vacuity: `0 → 1 | 4`, the 2-cycle `1 → 2 (2)`, `2 → 1 (1)`, `1 → 3`, the self-loop
`3 → 3 (2)`, the acyclic `4`; terminal `10`; weights in `ℤ` with the formal `star 2 = -1` -/
section Examples

private def Gx : CFG Nat ℤ :=
  { S := 0, V := [10],
    rules := [⟨1, 0, [1]⟩, ⟨2, 1, [2]⟩, ⟨1, 2, [1]⟩, ⟨1, 1, [3]⟩, ⟨2, 3, [3]⟩, ⟨1, 3, [10]⟩,
      ⟨1, 0, [4]⟩, ⟨1, 4, [10]⟩, ⟨1, 2, [10, 10]⟩] }
private def blx : List (List Nat) := [[0], [4], [1, 2], [3]]
private def zstar (a : ℤ) : ℤ := if a = 0 then 1 else if a = 2 then -1 else 0
private def botx (x : Nat) : Nat := x + 100

/-- the input has unary cycles -/
example : noUnaryCycle Gx = false := by decide
/-- … which `has_unary_cycle` reports, on the blocks of `_unary_graph()` -/
example : hasUnaryCycle blx Gx = true := by decide
example : hasUnaryCycle blx Gx = !noUnaryCycle Gx :=
  hasUnaryCycle_graph Gx blx (by decide) (by decide)
/-- the hypotheses of `ucycle_no_unary_cycle_graph` hold … -/
example : sccCheck (unaryGraph Gx) (unaryGraph Gx).arcs blx = true := by decide
example : ∀ x ∈ (unaryGraph Gx).nodes, ∀ y ∈ (unaryGraph Gx).nodes, botx x = botx y → x = y := by
  decide
example : ∀ x ∈ (unaryGraph Gx).nodes, botx x ∉ (unaryGraph Gx).nodes := by decide
/-- … as do those of `ucycle_no_unary_cycle` (stated with `unaryEdges`) -/
example : IsSccDecomp (unaryGraph Gx).nodes (unaryEdges Gx)
    ((mkBlocks (unaryGraph Gx) zstar blx).map (·.nodes)) :=
  (sccCheck_iff (unaryGraph Gx) (unaryEdges Gx) _).mp (by decide)
/-- `star` unfolds at every pivot `_closure` uses, so the block matrices are closures -/
example : ∀ N ∈ blx, ∀ a ∈ lehmannPivots (unaryGraph Gx) zstar N, zstar a = 1 + a * zstar a := by
  decide
/-- the output: `X1 → bot X2` for the blocks `{1,2}` and `{3}`, the rule `3 → 3` and the rules
inside `{1,2}` are gone, `0` and `4` keep their names -/
example : (unaryCycleRemove (unaryGraph Gx).E (mkBlocks (unaryGraph Gx) zstar blx) botx Gx).rules =
    [⟨-1, 1, [101]⟩, ⟨-2, 1, [102]⟩, ⟨-1, 2, [101]⟩, ⟨-1, 2, [102]⟩, ⟨-1, 3, [103]⟩,
      ⟨1, 0, [1]⟩, ⟨1, 101, [3]⟩, ⟨1, 103, [10]⟩, ⟨1, 0, [4]⟩, ⟨1, 4, [10]⟩,
      ⟨1, 102, [10, 10]⟩] := by decide
example : noUnaryCycle
    (unaryCycleRemove (unaryGraph Gx).E (mkBlocks (unaryGraph Gx) zstar blx) botx Gx) = true :=
  ucycle_no_unary_cycle_graph zstar blx botx Gx (by decide) (by decide) (by decide) (by decide)

/-! **Cancelling weights** (`WeightedGraph.__setitem__`, visible through `_unary_graph`).  At the
pinned commit `A[i,j] += w` did not store a new value that was zero, so the chart kept the *old*
value: with the rules `0 → 0 (2)`, `0 → 0 (-2)`, `0 → 10 (1)` the accumulated weight `G[0,0]` was
`2`, node `0` was treated as cyclic with closure `star 2` and the weight of `[10]` changed from `1`
to `star 2 = -1` (finding F16; in Python with `Float` and the weights `0.5, -0.5`: from `1.0` to
`2.0`).  The fix (44ba871) deletes the key; the model mirrors the fixed code, and the harness runs
exactly this grammar (corpus case `corpus_cancel`), so the reverse patch is a structural
disagreement on `_unary_graph`. -/
private def Gstale : CFG Nat ℤ := ⟨0, [10], [⟨2, 0, [0]⟩, ⟨-2, 0, [0]⟩, ⟨1, 0, [10]⟩]⟩
example : (unaryGraph Gstale).edges = [] := by decide
example : (unaryGraph Gstale).E 0 0 = 0 := by decide
example : WN Gstale 1 0 [10] = 1 ∧ WN Gstale 2 0 [10] = 1 ∧ WN Gstale 3 0 [10] = 1 := by decide
example : (unaryCycleRemove (unaryGraph Gstale).E (mkBlocks (unaryGraph Gstale) zstar [[0]]) botx
    Gstale).rules = [⟨1, 0, [10]⟩] := by decide
example : WN (unaryCycleRemove (unaryGraph Gstale).E (mkBlocks (unaryGraph Gstale) zstar [[0]]) botx
    Gstale) 2 0 [10] = 1 := by decide
/-- the self-loop cancelled, but the two rules `0 → 0` are dropped all the same (`bucket[0] ==
bucket[0]`), so `harcs` fails here and the conclusion holds nevertheless -/
example : unaryArcsComplete Gstale = false := by decide

/-! The hypothesis `harcs` of `ucycle_no_unary_cycle_graph` cannot be dropped: `0 → 1 (2)`,
`0 → 1 (-2)`, `1 → 0 (1)`.  The edge `0 → 1` cancels, `_unary_graph` has the single arc `1 → 0`,
both nodes are acyclic singleton blocks (sources first: `[1], [0]`), every rule is kept, and the
output still has the cycle `0 → 1 → 0` of unary *rules* (whose weights cancel). -/
private def Gcancel : CFG Nat ℤ :=
  ⟨0, [10], [⟨2, 0, [1]⟩, ⟨-2, 0, [1]⟩, ⟨1, 1, [0]⟩, ⟨1, 1, [10]⟩]⟩
example : (unaryGraph Gcancel).arcs = [(1, 0)] := by decide
example : sccCheck (unaryGraph Gcancel) (unaryGraph Gcancel).arcs [[1], [0]] = true := by decide
example : unaryArcsComplete Gcancel = false := by decide
example : (unaryCycleRemove (unaryGraph Gcancel).E (mkBlocks (unaryGraph Gcancel) zstar [[1], [0]])
    botx Gcancel).rules = Gcancel.rules := by decide
example : noUnaryCycle (unaryCycleRemove (unaryGraph Gcancel).E
    (mkBlocks (unaryGraph Gcancel) zstar [[1], [0]]) botx Gcancel) = false := by decide
/-- `has_unary_cycle` (which looks at the blocks of `_unary_graph`) answers "no" on it -/
example : hasUnaryCycle [[1], [0]] Gcancel = false := by decide

end Examples

/-! ### non-vacuity of the weight-preservation theorems: the same grammar over the Boolean
semiring (where `≼` is antisymmetric and the closures of the cyclic blocks are attained) -/
section ExamplesSem
open UCycleAux UnfoldAux

local instance : CommSemiring BoolW where
  add := (· + ·)
  zero := 0
  mul := (· * ·)
  one := 1
  add_assoc := by rintro ⟨a⟩ ⟨b⟩ ⟨c⟩; cases a <;> cases b <;> cases c <;> rfl
  zero_add := by rintro ⟨a⟩; cases a <;> rfl
  add_zero := by rintro ⟨a⟩; cases a <;> rfl
  add_comm := by rintro ⟨a⟩ ⟨b⟩; cases a <;> cases b <;> rfl
  left_distrib := by rintro ⟨a⟩ ⟨b⟩ ⟨c⟩; cases a <;> cases b <;> cases c <;> rfl
  right_distrib := by rintro ⟨a⟩ ⟨b⟩ ⟨c⟩; cases a <;> cases b <;> cases c <;> rfl
  zero_mul := by rintro ⟨a⟩; cases a <;> rfl
  mul_zero := by rintro ⟨a⟩; cases a <;> rfl
  mul_assoc := by rintro ⟨a⟩ ⟨b⟩ ⟨c⟩; cases a <;> cases b <;> cases c <;> rfl
  one_mul := by rintro ⟨a⟩; cases a <;> rfl
  mul_one := by rintro ⟨a⟩; cases a <;> rfl
  mul_comm := by rintro ⟨a⟩ ⟨b⟩; cases a <;> cases b <;> rfl
  nsmul := nsmulRec
  npow := npowRec

private def Gb : CFG Nat BoolW :=
  { S := 0, V := [10],
    rules := [⟨1, 0, [1]⟩, ⟨1, 1, [2]⟩, ⟨1, 2, [1]⟩, ⟨1, 1, [3]⟩, ⟨1, 3, [3]⟩, ⟨1, 3, [10]⟩,
      ⟨1, 0, [4]⟩, ⟨1, 4, [10]⟩, ⟨1, 2, [10, 10]⟩] }
/-- `Blocks` as the code computes them (`star` is constantly `one` in the Boolean semiring) -/
private def Bb : List (Block Nat BoolW) := mkBlocks (unaryGraph Gb) (fun _ => 1) blx
private def Db : CFG Nat BoolW := unaryCycleRemove (unaryGraph Gb).E Bb botx Gb

example : sccCheck (unaryGraph Gb) (unaryGraph Gb).arcs blx = true := by decide
example : noUnaryCycle Gb = false ∧ noUnaryCycle Db = true := by decide

/-- the block closures are the values of the partial sums `I + A` and of all later ones -/
private theorem Gb_stab : ∀ k, 1 ≤ k → ∀ X ∈ (Bb.map (·.nodes)).flatten,
    ∀ Z ∈ (Bb.map (·.nodes)).flatten,
    ucUW (Bb.map (·.nodes)) Gb k X Z = ucW (unaryGraph Gb).E Bb X Z :=
  ucUW_stable _ Gb _ 1 (by decide) (by decide)

/-- all hypotheses of `ucycle_preserves` hold -/
example (n X : ℕ) (hX : X ∈ (Bb.map (·.nodes)).flatten) (x : List ℕ) :
    WN Gb n X x ≼ WN Db (2 * n) X x ∧ WN Db n X x ≼ WN Gb (n * 2) X x :=
  ucycle_preserves _ Bb botx Gb 1 (by decide) (by decide) (by decide) (by decide) (by decide)
    (by decide) (by decide) Gb_stab n X hX x

private theorem BoolW_anti : ∀ a b : BoolW, a ≼ b → b ≼ a → a = b := by
  rintro ⟨a⟩ ⟨b⟩ ⟨⟨c⟩, h1⟩ ⟨⟨d⟩, h2⟩
  cases a <;> cases b <;> cases c <;> cases d <;>
    first | rfl | exact absurd h1 (by decide) | exact absurd h2 (by decide)

/-- … and those of `ucycle_limit` -/
example (X : ℕ) (hX : X ∈ (Bb.map (·.nodes)).flatten) (x : List ℕ) (N : ℕ) (L : BoolW)
    (hL : ∀ m, N ≤ m → WN Gb m X x = L) (n : ℕ) (hn : 2 * N ≤ n) : WN Db n X x = L :=
  ucycle_limit _ Bb botx Gb 1 (by decide) (by decide) (by decide) (by decide) (by decide)
    (by decide) (by decide) Gb_stab BoolW_anti X hX x N L hL n hn

/-- the factor 2 between the levels is attained at the cyclic node `2`
(`2 → 1 → 3 → 10` becomes `2 → bot 1 → 3 → bot 3 → 10`) -/
example : WN Gb 3 2 [10] = 1 ∧ WN Db 3 2 [10] = 0 ∧ WN Db 4 2 [10] = 1 := by decide

end ExamplesSem

end Genlm
