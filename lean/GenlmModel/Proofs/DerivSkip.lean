import GenlmModel.Proofs.Deriv

/-! `CFG.derivative` with the `SKIP` branch (property C03, continued).

`derivative(a)` does not create rules for `slash X` when `slash X` is already a nonterminal of the
grammar (`if slash(r.head, a) in self.N: continue`).  This happens as soon as a grammar is
differentiated twice by the same token (`derivatives`): the first derivative already contains the
symbols `slash X` together with their rules.

`derivative_skip_le/ge` prove the specification of `Proofs/Deriv.lean` for an arbitrary grammar `G`
that may already contain slash symbols, relative to two *semantic* facts about `G`:

* `hSk`  : a symbol `slash s` that is already a nonterminal of `G` already is the derivative of `s`
  (cofinally, with level shifts `c1`, `c2`);
* `hDead`: a symbol `slash s` that is not a nonterminal of `G` but occurs in a body of `G`
  (where it is useless) belongs to an `s` that derives no string starting with `a`.

`derivative_twice_le/ge` discharge both for `G := derivative slash U a G₀` with `G₀` free of slash
symbols: differentiating twice by the same token is correct.  The semiring must be zero-sum-free
(`a + b = 0 → a = 0`, implied by antisymmetry of `≼`) for the upper bounds. -/
namespace Genlm
set_option linter.unusedSectionVars false
open UnfoldAux Sem2Aux DerivAux

namespace DerivAux
section
variable {σ K : Type} [DecidableEq σ] [CommSemiring K] [DecidableEq K]

/-- `SKIP`: the inner loop creates nothing -/
theorem go_skip (slash : σ → σ) (U : σ → K) (a : σ) (G : CFG σ K) (N : List σ) (r : Rule σ K)
    (hskip : slash r.head ∈ N) (k : Nat) (ys : List σ) (delta : K) :
    derivative.go slash U a G N r k ys delta = [] := by
  induction ys generalizing k delta with
  | nil => simp [derivative.go]
  | cons y rest ih => rw [derivative.go, if_pos hskip, if_pos hskip, ih]; rfl

/-- one step at a slash symbol that is new (not yet a nonterminal of `G`) -/
theorem derivative_step_new (slash : σ → σ) (U : σ → K) (a : σ) (G : CFG σ K)
    (hinj : ∀ X Y, slash X = slash Y → X = Y) (hslV : ∀ y, slash y ∉ G.V)
    (g : σ → List σ → K) (X : σ) (hX : slash X ∉ nonterminals G) (x : List σ) :
    stepL G.V (derivative slash U a G).rules g (slash X) x
      = (G.rules.map fun r => if r.head = X then
          r.w * DB G.V a U (fun y u => g (slash y) u) g r.body x else 0).sum := by
  show stepL G.V (mkRules (G.rules.flatMap fun r =>
      r :: derivative.go slash U a G (nonterminals G) r 0 r.body 1)) g (slash X) x = _
  rw [stepL_mkRules, stepL_flatMap]
  congr 1
  apply List.map_congr_left
  intro r hr
  have hne : ¬ r.head = slash X := fun e =>
    hX (mem_nonterminals.mpr (Or.inr ⟨r, hr, e⟩))
  rw [stepL_cons, if_neg hne, zero_add]
  by_cases hsk : slash r.head ∈ nonterminals G
  · have hh : ¬ r.head = X := fun e => hX (e ▸ hsk)
    rw [go_skip slash U a G _ r hsk, stepL_nil, if_neg hh]
  · rw [go_step slash U a G _ r hsk hslV]
    by_cases hh : r.head = X
    · rw [if_pos (by rw [hh]), if_pos hh, one_mul]
    · rw [if_neg (fun e => hh (hinj _ _ e)), if_neg hh]

/-- one step at a symbol for which `derivative` creates no rule: only the rules of `G` count -/
theorem derivative_step_stable (slash : σ → σ) (U : σ → K) (a : σ) (G : CFG σ K)
    (g : σ → List σ → K) (Z : σ) (hZ : ∀ X, slash X ∉ nonterminals G → slash X ≠ Z)
    (x : List σ) :
    stepL G.V (derivative slash U a G).rules g Z x = stepL G.V G.rules g Z x := by
  show stepL G.V (mkRules (G.rules.flatMap fun r =>
      r :: derivative.go slash U a G (nonterminals G) r 0 r.body 1)) g Z x = _
  rw [stepL_mkRules, stepL_flatMap, stepL_eq_ite]
  congr 1
  apply List.map_congr_left
  intro r _
  rw [stepL_cons]
  by_cases hsk : slash r.head ∈ nonterminals G
  · rw [go_skip slash U a G _ r hsk, stepL_nil, add_zero]
  · rw [stepL_zero_of_heads _ _ _ _ _ (fun q hq => by
      rw [go_head slash U a G _ r 0 r.body 1 q hq]; exact hZ _ hsk), add_zero]

/-- at every symbol the derivative grammar has at least the rules of `G` -/
theorem derivative_step_ge_old (slash : σ → σ) (U : σ → K) (a : σ) (G : CFG σ K)
    (g : σ → List σ → K) (Z : σ) (x : List σ) :
    stepL G.V G.rules g Z x ≼ stepL G.V (derivative slash U a G).rules g Z x := by
  show _ ≼ stepL G.V (mkRules (G.rules.flatMap fun r =>
      r :: derivative.go slash U a G (nonterminals G) r 0 r.body 1)) g Z x
  rw [stepL_mkRules, stepL_flatMap, stepL_eq_ite]
  apply sum_le'
  intro r _
  rw [stepL_cons]
  exact le_add_right' _ _

theorem eq_zero_of_le_zero (hzsf : ∀ a b : K, a + b = 0 → a = 0) {a : K} (h : a ≼ 0) : a = 0 := by
  obtain ⟨c, hc⟩ := h
  exact hzsf a c hc.symm

end
end DerivAux

section
variable {σ K : Type} [DecidableEq σ] [CommSemiring K] [DecidableEq K]

/-- the derivative grammar contains `G`: nothing is lost at any symbol, at any level.  No
hypothesis. -/
theorem derivative_contains (slash : σ → σ) (U : σ → K) (a : σ) (G : CFG σ K) (n : Nat) (Z : σ)
    (x : List σ) : WN G n Z x ≼ WN (derivative slash U a G) n Z x := by
  induction n generalizing Z x with
  | zero => exact le_rfl' _
  | succ n ih =>
    rw [WN_succ, WN_succ]
    show _ ≼ stepL G.V _ _ _ _
    exact le_trans' (stepL_le _ _ _ _ (fun s u => ih s u) Z x)
      (derivative_step_ge_old slash U a G _ Z x)

/-- **C03 with `SKIP` (⊑)**: `G` may already contain slash symbols, provided those that are
nonterminals of `G` already dominate the derivative of their symbol (`hSk`, with a level shift
`c1`) -/
theorem derivative_skip_le (slash : σ → σ) (U : σ → K) (a : σ) (G : CFG σ K)
    (hinj : ∀ X Y, slash X = slash Y → X = Y) (hslV : ∀ y, slash y ∉ G.V)
    (hN : ∀ r ∈ G.rules, ∀ s ∈ r.body, s ∉ G.V → ∀ n, WN G n s [] ≼ U s)
    (c1 : Nat)
    (hSk : ∀ s, slash s ∈ nonterminals G → ∀ n u, WN G n s (a :: u) ≼ WN G (n + c1) (slash s) u)
    (n : Nat) (X : σ) (y : List σ) :
    WN G n X (a :: y) ≼ WN (derivative slash U a G) (n + c1) (slash X) y := by
  induction n generalizing X y with
  | zero => exact zero_le' _
  | succ n ih =>
    by_cases hX : slash X ∈ nonterminals G
    · exact le_trans' (hSk X hX (n + 1) y) (derivative_contains slash U a G _ _ y)
    · rw [show n + 1 + c1 = (n + c1) + 1 by omega, WN_succ, WN_succ]
      show _ ≼ stepL G.V _ _ _ _
      rw [derivative_step_new slash U a G hinj hslV _ X hX, stepL_eq_ite]
      apply sum_le'
      intro r hr
      split
      · refine mul_le' (le_rfl' _) ?_
        rw [Wbody_cons_eq_DB]
        apply DB_le
        · intro s hs
          by_cases hsV : s ∈ G.V
          · rw [Wsym_term _ _ _ hsV]; simp only [List.nil_eq, List.cons_ne_self, if_false]
            exact zero_le' _
          · rw [Wsym_nt _ _ _ hsV]; exact hN r hr s hs hsV n
        · intro s _ _ u; exact ih s u
        · intro s _ _ u
          exact le_trans' (WN_le_of_le G (Nat.le_add_right n c1) s u)
            (derivative_contains slash U a G _ s u)
      · exact le_rfl' _

/-- **C03 with `SKIP` (⊒)**, in a zero-sum-free semiring.  (a) symbols for which no rule is
created, and body symbols of `G`, gain nothing; (b) `slash X` is below the derivative of `X`, with
the level shift `N0 + c2`. -/
theorem derivative_skip_ge (slash : σ → σ) (U : σ → K) (a : σ) (G : CFG σ K)
    (hinj : ∀ X Y, slash X = slash Y → X = Y) (hslV : ∀ y, slash y ∉ G.V)
    (hzsf : ∀ a b : K, a + b = 0 → a = 0)
    (hV0 : ∀ b ∈ G.V, U b = 0) (N0 : Nat)
    (hN : ∀ r ∈ G.rules, ∀ s ∈ r.body, s ∉ G.V → U s ≼ WN G N0 s [])
    (c2 : Nat)
    (hSk : ∀ s, slash s ∈ nonterminals G → ∀ n u, WN G n (slash s) u ≼ WN G (n + c2) s (a :: u))
    (hDead : ∀ s, slash s ∉ nonterminals G → slash s ∈ bodySyms G → ∀ n u, WN G n s (a :: u) = 0)
    (n : Nat) :
    (∀ Z, (Z ∈ bodySyms G ∨ ∀ X, slash X ∉ nonterminals G → slash X ≠ Z) →
        ∀ x, WN (derivative slash U a G) n Z x ≼ WN G n Z x) ∧
    (∀ X y, WN (derivative slash U a G) n (slash X) y ≼ WN G (n + (N0 + c2)) X (a :: y)) := by
  induction n with
  | zero => exact ⟨fun _ _ _ => le_rfl' _, fun _ _ => zero_le' _⟩
  | succ n ih =>
    obtain ⟨iha, ihb⟩ := ih
    -- symbols for which no rule is created
    have stable : ∀ Z, (∀ X, slash X ∉ nonterminals G → slash X ≠ Z) →
        ∀ x, WN (derivative slash U a G) (n + 1) Z x ≼ WN G (n + 1) Z x := by
      intro Z hZ x
      rw [WN_succ, WN_succ]
      show stepL G.V _ _ _ _ ≼ _
      rw [derivative_step_stable slash U a G _ Z hZ]
      exact stepL_le_nt _ _ _ _
        (fun r hr s hs _ u => iha s (Or.inl (mem_bodySyms.mpr ⟨r, hr, hs⟩)) u) Z x
    have hb : ∀ X y, WN (derivative slash U a G) (n + 1) (slash X) y
        ≼ WN G (n + 1 + (N0 + c2)) X (a :: y) := by
      intro X y
      by_cases hX : slash X ∈ nonterminals G
      · refine le_trans' (stable (slash X) (fun X' hX' e => hX' (e ▸ hX)) y) ?_
        exact le_trans' (hSk X hX (n + 1) y) (WN_le_of_le G (by omega) X _)
      · rw [show n + 1 + (N0 + c2) = (n + (N0 + c2)) + 1 by omega, WN_succ, WN_succ]
        show stepL G.V _ _ _ _ ≼ _
        rw [derivative_step_new slash U a G hinj hslV _ X hX, stepL_eq_ite]
        apply sum_le'
        intro r hr
        split
        · refine mul_le' (le_rfl' _) ?_
          rw [Wbody_cons_eq_DB]
          apply DB_le
          · intro s hs
            by_cases hsV : s ∈ G.V
            · rw [hV0 s hsV]; exact zero_le' _
            · rw [Wsym_nt _ _ _ hsV]
              exact le_trans' (hN r hr s hs hsV) (WN_le_of_le G (by omega) s [])
          · intro s _ _ u; exact ihb s u
          · intro s hs _ u
            exact le_trans' (iha s (Or.inl (mem_bodySyms.mpr ⟨r, hr, hs⟩)) u)
              (WN_le_of_le G (by omega) s u)
        · exact le_rfl' _
    refine ⟨?_, hb⟩
    intro Z hZ x
    by_cases hZ' : ∀ X, slash X ∉ nonterminals G → slash X ≠ Z
    · exact stable Z hZ' x
    · have hZb : Z ∈ bodySyms G := hZ.resolve_right hZ'
      have : ∃ X, slash X ∉ nonterminals G ∧ slash X = Z := by
        by_contra hcon
        exact hZ' (fun X hX e => hcon ⟨X, hX, e⟩)
      obtain ⟨X, hX, rfl⟩ := this
      have h0 : WN (derivative slash U a G) (n + 1) (slash X) x = 0 := by
        apply eq_zero_of_le_zero hzsf
        have := hb X x
        rwa [hDead X hX hZb] at this
      rw [h0]; exact zero_le' _

/-! ### differentiating twice by the same token -/

/-- the nonterminals of the first derivative: the new start symbol, the heads of `G`, and slash
symbols -/
theorem mem_nonterminals_derivative (slash : σ → σ) (U : σ → K) (a : σ) (G : CFG σ K) (Z : σ)
    (hZ : Z ∈ nonterminals (derivative slash U a G)) :
    (∃ X, Z = slash X) ∨ ∃ r ∈ G.rules, r.head = Z := by
  rcases mem_nonterminals.mp hZ with rfl | ⟨q, hq, rfl⟩
  · exact Or.inl ⟨G.S, rfl⟩
  · have hq' : q ∈ G.rules.flatMap fun r =>
        r :: derivative.go slash U a G (nonterminals G) r 0 r.body 1 :=
      (List.mem_filter.mp hq).1
    obtain ⟨r, hr, hqr⟩ := List.mem_flatMap.mp hq'
    rcases List.mem_cons.mp hqr with rfl | hgo
    · exact Or.inr ⟨q, hr, rfl⟩
    · exact Or.inl ⟨r.head, go_head slash U a G _ r 0 r.body 1 q hgo⟩

/-- every rule created by the inner loop has a body `slash y :: rest` or `rest`, where `y :: rest`
is a suffix of the body of the rule -/
theorem go_body (slash : σ → σ) (U : σ → K) (a : σ) (G : CFG σ K) (N : List σ) (r : Rule σ K)
    (k : Nat) (ys : List σ) (delta : K) :
    ∀ q ∈ derivative.go slash U a G N r k ys delta, ∀ s ∈ q.body, s ∈ ys ∨ ∃ y ∈ ys, s = slash y := by
  induction ys generalizing k delta with
  | nil => intro q hq; simp [derivative.go] at hq
  | cons y rest ih =>
    intro q hq s hs
    rw [derivative.go, List.mem_append] at hq
    rcases hq with hq | hq
    · split at hq
      · simp at hq
      · split at hq
        · split at hq
          · rw [List.mem_singleton] at hq; rw [hq] at hs
            exact Or.inl (List.mem_cons_of_mem _ hs)
          · simp at hq
        · rw [List.mem_singleton] at hq; rw [hq] at hs
          rcases List.mem_cons.mp hs with rfl | hs
          · exact Or.inr ⟨y, by simp, rfl⟩
          · exact Or.inl (List.mem_cons_of_mem _ hs)
    · rcases ih _ _ q hq s hs with h | ⟨y', hy', rfl⟩
      · exact Or.inl (List.mem_cons_of_mem _ h)
      · exact Or.inr ⟨y', List.mem_cons_of_mem _ hy', rfl⟩

theorem mem_bodySyms_derivative (slash : σ → σ) (U : σ → K) (a : σ) (G : CFG σ K) (s : σ)
    (hs : s ∈ bodySyms (derivative slash U a G)) :
    s ∈ bodySyms G ∨ ∃ y ∈ bodySyms G, s = slash y := by
  obtain ⟨q, hq, hsq⟩ := mem_bodySyms.mp hs
  have hq' : q ∈ G.rules.flatMap fun r =>
      r :: derivative.go slash U a G (nonterminals G) r 0 r.body 1 :=
    (List.mem_filter.mp hq).1
  obtain ⟨r, hr, hqr⟩ := List.mem_flatMap.mp hq'
  rcases List.mem_cons.mp hqr with rfl | hgo
  · exact Or.inl (mem_bodySyms.mpr ⟨q, hr, hsq⟩)
  · rcases go_body slash U a G _ r 0 r.body 1 q hgo s hsq with h | ⟨y, hy, rfl⟩
    · exact Or.inl (mem_bodySyms.mpr ⟨r, hr, h⟩)
    · exact Or.inr ⟨y, mem_bodySyms.mpr ⟨r, hr, hy⟩, rfl⟩

/-- with fresh slash symbols, `slash s` is a nonterminal of the first derivative only for a
nonterminal `s` of `G` -/
theorem slash_mem_nonterminals_derivative (slash : σ → σ) (U : σ → K) (a : σ) (G : CFG σ K)
    (hinj : ∀ X Y, slash X = slash Y → X = Y) (hslN : ∀ y, slash y ∉ nonterminals G) (s : σ)
    (hs : slash s ∈ nonterminals (derivative slash U a G)) : s ∈ nonterminals G := by
  rcases mem_nonterminals.mp hs with hS | ⟨q, hq, hqh⟩
  · have : s = G.S := hinj _ _ hS
    exact mem_nonterminals.mpr (Or.inl this)
  · have hq' : q ∈ G.rules.flatMap fun r =>
        r :: derivative.go slash U a G (nonterminals G) r 0 r.body 1 :=
      (List.mem_filter.mp hq).1
    obtain ⟨r, hr, hqr⟩ := List.mem_flatMap.mp hq'
    rcases List.mem_cons.mp hqr with rfl | hgo
    · exact absurd (mem_nonterminals.mpr (Or.inr ⟨q, hr, hqh⟩)) (hslN s)
    · have h1 := go_head slash U a G _ r 0 r.body 1 q hgo
      rw [hqh] at h1
      exact mem_nonterminals.mpr (Or.inr ⟨r, hr, (hinj _ _ h1).symm⟩)

/-- **C03, second derivative by the same token (⊑)**: `G` is free of slash symbols; `U` bounds the
ε-weights of `G`, `U'` those of the first derivative `D₁`.  The second derivative (which takes the
`SKIP` branch at every old head whose slash symbol exists) gives `y` at `slash (slash X)` at least
the weight `G` gives `a :: a :: y` at `X`. -/
theorem derivative_twice_le (slash : σ → σ) (U U' : σ → K) (a : σ) (G : CFG σ K)
    (hinj : ∀ X Y, slash X = slash Y → X = Y) (hslV : ∀ y, slash y ∉ G.V)
    (hslN : ∀ y, slash y ∉ nonterminals G) (hslB : ∀ y, slash y ∉ bodySyms G)
    (hN : ∀ r ∈ G.rules, ∀ s ∈ r.body, s ∉ G.V → ∀ n, WN G n s [] ≼ U s)
    (hN' : ∀ r ∈ (derivative slash U a G).rules, ∀ s ∈ r.body, s ∉ G.V →
      ∀ n, WN (derivative slash U a G) n s [] ≼ U' s)
    (n : Nat) (X : σ) (y : List σ) :
    WN G n X (a :: a :: y)
      ≼ WN (derivative slash U' a (derivative slash U a G)) n (slash (slash X)) y := by
  refine le_trans' (derivative_le slash U a G hinj hslV hslN hslB hN n X (a :: y)) ?_
  refine derivative_skip_le slash U' a (derivative slash U a G) hinj hslV hN' 0 ?_ n (slash X) y
  intro s hs m u
  have hsN := slash_mem_nonterminals_derivative slash U a G hinj hslN s hs
  have hsns : ∀ Y, slash Y ≠ s := fun Y e => hslN Y (e ▸ hsN)
  rw [derivative_old slash U a G hslB m s hsns (a :: u), Nat.add_zero]
  exact derivative_le slash U a G hinj hslV hslN hslB hN m s u

/-- **C03, second derivative by the same token (⊒)**, in a zero-sum-free semiring: `U` is attained
at level `N0` by the ε-weights of `G`, `U'` at level `N0'` by those of the first derivative. -/
theorem derivative_twice_ge (slash : σ → σ) (U U' : σ → K) (a : σ) (G : CFG σ K)
    (hinj : ∀ X Y, slash X = slash Y → X = Y) (hslV : ∀ y, slash y ∉ G.V)
    (hslN : ∀ y, slash y ∉ nonterminals G) (hslB : ∀ y, slash y ∉ bodySyms G)
    (hzsf : ∀ a b : K, a + b = 0 → a = 0)
    (hN0 : ∀ r ∈ G.rules, ∀ s ∈ r.body, s ∉ G.V → ∀ n, WN G n s [] ≼ U s)
    (hV0 : ∀ b ∈ G.V, U b = 0) (N0 : Nat)
    (hN : ∀ r ∈ G.rules, ∀ s ∈ r.body, s ∉ G.V → U s ≼ WN G N0 s [])
    (hV0' : ∀ b ∈ G.V, U' b = 0) (N0' : Nat)
    (hN' : ∀ r ∈ (derivative slash U a G).rules, ∀ s ∈ r.body, s ∉ G.V →
      U' s ≼ WN (derivative slash U a G) N0' s [])
    (n : Nat) (X : σ) (y : List σ) :
    WN (derivative slash U' a (derivative slash U a G)) n (slash (slash X)) y
      ≼ WN G (n + (N0' + N0) + N0) X (a :: a :: y) := by
  have key := (derivative_skip_ge slash U' a (derivative slash U a G) hinj hslV hzsf hV0' N0' hN'
    N0 ?_ ?_ n).2 (slash X) y
  · exact le_trans' key
      (derivative_ge slash U a G hinj hslV hslN hslB hV0 N0 hN _ X (a :: y))
  · intro s hs m u
    have hsN := slash_mem_nonterminals_derivative slash U a G hinj hslN s hs
    have hsns : ∀ Y, slash Y ≠ s := fun Y e => hslN Y (e ▸ hsN)
    rw [derivative_old slash U a G hslB (m + N0) s hsns (a :: u)]
    exact derivative_ge slash U a G hinj hslV hslN hslB hV0 N0 hN m s u
  · intro s hsN hsB m u
    rcases mem_bodySyms_derivative slash U a G _ hsB with h | ⟨z, hz, e⟩
    · exact absurd h (hslB s)
    · have hsz : s = z := hinj _ _ e
      subst hsz
      have hsns : ∀ Y, slash Y ≠ s := fun Y e' => hslB Y (e' ▸ hz)
      rw [derivative_old slash U a G hslB m s hsns (a :: u)]
      apply eq_zero_of_le_zero hzsf
      have h1 := derivative_le slash U a G hinj hslV hslN hslB hN0 m s u
      rwa [WN_zero_of_no_rule (derivative slash U a G) m (slash s) u
        (fun q hq e' => hsN (mem_nonterminals.mpr (Or.inr ⟨q, hq, e'⟩)))] at h1

end
end Genlm

/-! ### non-vacuity: `unfExG` (`0 → 2 1 (2); 2 → 1 (3) | 2 1 (1)`, terminal `1`) differentiated
twice by the token `1` -/
namespace Genlm
open UnfoldAux Sem2Aux DerivAux
section Examples

/-- the first derivative (null weights of `unfExG` are zero) -/
def skipD1 : CFG ℕ ℕ := derivative (· + 100) (fun _ => 0) 1 unfExG
/-- the null weights of the first derivative: `102 → ε (3)` -/
def skipU' (x : ℕ) : ℕ := if x = 102 then 3 else 0

example : skipD1.rules = [⟨2, 0, [2, 1]⟩, ⟨2, 100, [102, 1]⟩, ⟨3, 2, [1]⟩, ⟨3, 102, []⟩,
    ⟨1, 2, [2, 1]⟩, ⟨1, 102, [102, 1]⟩] := by decide
-- the second derivative takes the `SKIP` branch at the heads `0` and `2` (`100`, `102` exist):
-- it only adds rules for `200` and `202`
example : (derivative (· + 100) skipU' 1 skipD1).rules
    = [⟨2, 0, [2, 1]⟩, ⟨2, 100, [102, 1]⟩, ⟨2, 200, [202, 1]⟩, ⟨6, 200, []⟩, ⟨3, 2, [1]⟩,
       ⟨3, 102, []⟩, ⟨1, 2, [2, 1]⟩, ⟨1, 102, [102, 1]⟩, ⟨1, 202, [202, 1]⟩, ⟨3, 202, []⟩] := by
  decide
example : WN unfExG 3 0 [1, 1, 1] = 6 ∧ WN (derivative (· + 100) skipU' 1 skipD1) 3 200 [1] = 6 := by
  decide

theorem skipU'_bound (n s : ℕ) : WN skipD1 n s [] ≼ skipU' s :=
  WN_nil_le_of_prefixed skipD1 skipU'
    (by
      have : ∀ r ∈ skipD1.rules,
          stepL skipD1.V skipD1.rules (fun Z _ => skipU' Z) r.head [] ≤ skipU' r.head := by decide
      exact fun r hr => natLe_nat.mpr (this r hr)) n s

theorem skipU'_attained : ∀ r ∈ skipD1.rules, ∀ s ∈ r.body, s ∉ unfExG.V →
    skipU' s ≼ WN skipD1 1 s [] := by
  have : ∀ r ∈ skipD1.rules, ∀ s ∈ r.body, s ∉ unfExG.V → skipU' s ≤ WN skipD1 1 s [] := by decide
  exact fun r hr s hs hV => natLe_nat.mpr (this r hr s hs hV)

-- all hypotheses of the two bounds for the second derivative are met, at every level, symbol, string
example (n X : ℕ) (y : List ℕ) :
    WN unfExG n X (1 :: 1 :: y) ≼ WN (derivative (· + 100) skipU' 1 skipD1) n (X + 100 + 100) y ∧
    WN (derivative (· + 100) skipU' 1 skipD1) n (X + 100 + 100) y
      ≼ WN unfExG (n + (1 + 0) + 0) X (1 :: 1 :: y) := by
  have hN : ∀ s ∈ nonterminals unfExG, s < 100 := by decide
  have hB : ∀ s ∈ bodySyms unfExG, s < 100 := by decide
  have hinj : ∀ X Y : ℕ, X + 100 = Y + 100 → X = Y := by intro X Y h; omega
  have hslV : ∀ y : ℕ, y + 100 ∉ unfExG.V := by intro y; simp [unfExG]
  have hslN : ∀ y : ℕ, y + 100 ∉ nonterminals unfExG := by intro y h; have := hN _ h; omega
  have hslB : ∀ y : ℕ, y + 100 ∉ bodySyms unfExG := by intro y h; have := hB _ h; omega
  have h0 : ∀ r ∈ unfExG.rules, ∀ s ∈ r.body, s ∉ unfExG.V → ∀ n, WN unfExG n s [] ≼ (fun _ => 0) s :=
    fun _ _ s _ _ m => le_of_eq' (WN_nil_zero_of_no_nullary unfExG (by decide) m s)
  exact ⟨derivative_twice_le (· + 100) (fun _ => 0) skipU' 1 unfExG hinj hslV hslN hslB h0
      (fun _ _ s _ _ m => skipU'_bound m s) n X y,
    derivative_twice_ge (· + 100) (fun _ => 0) skipU' 1 unfExG hinj hslV hslN hslB
      (by intro a b h; omega) h0 (fun _ _ => rfl) 0 (fun _ _ _ _ _ => zero_le' _)
      (by decide) 1 skipU'_attained n X y⟩

end Examples
end Genlm
