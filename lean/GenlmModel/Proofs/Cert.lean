import GenlmModel.Model.Cert
import Mathlib.LinearAlgebra.Matrix.Rank
import Mathlib.LinearAlgebra.Span.Basic
import Mathlib.Data.Rat.Defs
import Mathlib.Tactic.Ring

/-! Soundness of the certificate checkers of `Model/Cert.lean` (equivalence / minimality of
matrix-form weighted automata, `field_wfsa.Simple`).  All over an arbitrary `CommRing K`.

Main results (in `namespace Genlm`; helper lemmas in `namespace Genlm.Cert`):
* `zeroCert_sound`  : `zeroCertCheck C cert = true → ∀ w, C.weight w = 0`.
* `diff_mat`, `diff_bwd`, `diff_weight` : `(A.diff B).weight w = A.weight w - B.weight w` when `A.wf`
  (`B.wf` turns out not to be needed); `diff_wf` : `A.wf → B.wf → (A.diff B).wf`.
* `equivCert_sound` : `A.wf → equivCertCheck A B cert = true → ∀ w, A.weight w = B.weight w`.
* `counterexample_sound`.
* `rankLower_sound` : over a non-trivial ring, `rankLowerCheck A us vs inv = true` implies that every
  well-formed `B` with the same weights as `A` has `us.length ≤ B.dim` (Hankel block `H = P · Q`
  factors through `B.dim`; `Matrix.rank_mul_le_left`).
* concrete accepted certificates over `ℚ` at the end (`decide +kernel`).

Bridge: `toFn d v : Fin d → K`, `toMx m n M : Matrix (Fin m) (Fin n) K` (zero padding);
`dot_eq_dotProduct`, `toFn_matVec`, `toMx_matMul`, `toMx_idMat`, `linComb_mem`. -/

namespace Genlm.Cert
open Matrix

/-! ### list helpers -/

theorem getD_map_lt {α β : Type} (f : α → β) (l : List α) (i : Nat) (a : α) (b : β)
    (h : i < l.length) : (l.map f).getD i b = f (l.getD i a) := by
  simp [List.getD_eq_getElem?_getD, List.getElem?_map, List.getElem?_eq_getElem h]

theorem getD_mem_lt {α : Type} (l : List α) (i : Nat) (a : α) (h : i < l.length) :
    l.getD i a ∈ l := by
  simp [List.getD_eq_getElem?_getD, List.getElem?_eq_getElem h]

theorem getD_range_map {β : Type} (f : Nat → β) (n j : Nat) (b : β) (h : j < n) :
    ((List.range n).map f).getD j b = f j := by
  rw [getD_map_lt f _ j 0 b (by simpa using h)]
  simp [List.getD_eq_getElem?_getD, List.getElem?_range h]

section Bridge
variable {K : Type} [CommRing K]

/-- a list as a function on `Fin d` (padding with zeros) -/
def toFn (d : Nat) (v : Vec K) : Fin d → K := fun i => v.getD i 0

/-- a list of rows as a matrix (padding with zeros) -/
def toMx (m n : Nat) (M : Mat K) : Matrix (Fin m) (Fin n) K :=
  Matrix.of fun i j => (M.getD i []).getD j 0

theorem toMx_row (m n : Nat) (M : Mat K) (i : Fin m) : toMx m n M i = toFn n (M.getD i []) := rfl

theorem toFn_cons_zero (d : Nat) (a : K) (x : Vec K) : toFn (d+1) (a :: x) 0 = a := rfl
theorem toFn_cons_succ (d : Nat) (a : K) (x : Vec K) (i : Fin d) :
    toFn (d+1) (a :: x) i.succ = toFn d x i := rfl

theorem dot_eq_dotProduct : ∀ (d : Nat) (x y : Vec K), x.length = d → y.length = d →
    dot x y = toFn d x ⬝ᵥ toFn d y
  | 0, [], [], _, _ => by simp [dot, dotProduct]
  | d+1, a :: x, b :: y, hx, hy => by
    have ih := dot_eq_dotProduct d x y (by simpa using hx) (by simpa using hy)
    simp only [dot, dotProduct, Fin.sum_univ_succ, toFn_cons_zero, toFn_cons_succ, ih]

@[simp] theorem matVec_length (M : Mat K) (v : Vec K) : (matVec M v).length = M.length := by
  simp [matVec]

theorem toFn_matVec (d : Nat) (M : Mat K) (v : Vec K) (hM : M.length = d)
    (hr : ∀ r ∈ M, r.length = d) (hv : v.length = d) :
    toFn d (matVec M v) = toMx d d M *ᵥ toFn d v := by
  funext i
  have hi : (i : Nat) < M.length := by omega
  show (matVec M v).getD i 0 = _
  rw [matVec, getD_map_lt _ M i [] 0 hi, dot_eq_dotProduct d _ _ (hr _ (getD_mem_lt M i [] hi)) hv]
  rfl

theorem vadd_length : ∀ (x y : Vec K), x.length = y.length → (vadd x y).length = x.length
  | [], [], _ => rfl
  | a :: x, b :: y, h => by simp [vadd, vadd_length x y (by simpa using h)]

theorem toFn_vadd : ∀ (d : Nat) (x y : Vec K), x.length = d → y.length = d →
    toFn d (vadd x y) = toFn d x + toFn d y
  | 0, _, _, _, _ => by funext i; exact i.elim0
  | d+1, a :: x, b :: y, hx, hy => by
    have ih := toFn_vadd d x y (by simpa using hx) (by simpa using hy)
    funext i
    refine Fin.cases ?_ (fun j => ?_) i
    · rfl
    · simpa [vadd, toFn_cons_succ] using congrFun ih j

@[simp] theorem smul_length (c : K) (v : Vec K) : (smul c v).length = v.length := by
  simp [smul]

theorem toFn_smul (d : Nat) (c : K) (v : Vec K) (hv : v.length = d) :
    toFn d (smul c v) = c • toFn d v := by
  funext i
  show (smul c v).getD i 0 = _
  rw [smul, getD_map_lt _ v i 0 0 (by omega)]
  rfl

@[simp] theorem vzero_length (n : Nat) : (vzero n : Vec K).length = n := by simp [vzero]

theorem toFn_vzero (d n : Nat) : toFn d (vzero n : Vec K) = 0 := by
  funext i
  simp only [toFn, vzero, List.getD_eq_getElem?_getD, List.getElem?_replicate]
  split <;> rfl

theorem dot_vzero_left : ∀ (n : Nat) (y : Vec K), dot (vzero n) y = 0
  | 0, _ => by simp [vzero, dot]
  | n+1, [] => by simp [vzero, List.replicate_succ, dot]
  | n+1, b :: y => by
    have := dot_vzero_left n y
    simp only [vzero] at this
    simp [vzero, List.replicate_succ, dot, this]

theorem matVec_zeroMat (n : Nat) (v : Vec K) : matVec (zeroMat n) v = vzero n := by
  simp only [matVec, zeroMat, List.map_replicate, dot_vzero_left]; rfl

/-- a linear combination of vectors of a submodule lies in the submodule -/
theorem linComb_mem (d : Nat) (S : Submodule K (Fin d → K)) :
    ∀ (cs : List K) (U : List (Vec K)), (∀ u ∈ U, u.length = d ∧ toFn d u ∈ S) →
      (linComb d cs U).length = d ∧ toFn d (linComb d cs U) ∈ S
  | [], U, _ => by
    cases U <;> simp [linComb, toFn_vzero]
  | _ :: _, [], _ => by simp [linComb, toFn_vzero]
  | c :: cs, u :: U, h => by
    have hu := h u (by simp)
    have ih := linComb_mem d S cs U (fun v hv => h v (by simp [hv]))
    have hl : (smul c u).length = (linComb d cs U).length := by simp [hu.1, ih.1]
    refine ⟨by rw [linComb, vadd_length _ _ hl]; simp [hu.1], ?_⟩
    rw [linComb, toFn_vadd d _ _ (by simp [hu.1]) ih.1, toFn_smul d c u hu.1]
    exact S.add_mem (S.smul_mem c hu.2) ih.2

end Bridge

/-! ### well-formedness -/

section Wf
variable {σ K : Type} [DecidableEq σ] [CommRing K]

omit [CommRing K] in
theorem isSquare_iff (M : Mat K) (n : Nat) :
    M.isSquare n = true ↔ M.length = n ∧ ∀ r ∈ M, r.length = n := by
  simp [Mat.isSquare, List.all_eq_true]

theorem zeroMat_isSquare (n : Nat) : (zeroMat n : Mat K).isSquare n = true := by
  rw [isSquare_iff]
  simp only [zeroMat, List.length_replicate, List.mem_replicate, true_and]
  rintro r ⟨_, rfl⟩
  simp

omit [CommRing K] in
theorem wf_iff (A : MAut σ K) : A.wf = true ↔
    A.start.length = A.dim ∧ A.stop.length = A.dim ∧
      (∀ p ∈ A.arcs, p.2.isSquare A.dim = true) ∧ A.syms.Nodup := by
  simp [MAut.wf, List.all_eq_true, and_assoc]

theorem matLook_cases (n : Nat) (l : List (σ × Mat K)) (a : σ) :
    matLook n l a = zeroMat n ∨ (a, matLook n l a) ∈ l := by
  induction l with
  | nil => left; rfl
  | cons p l ih =>
    obtain ⟨b, M⟩ := p
    by_cases h : b = a
    · right; subst h; simp [matLook]
    · rcases ih with ih | ih
      · left; simp [matLook, h, ih]
      · right; simp only [matLook, if_neg h]; exact List.mem_cons_of_mem _ ih

theorem matLook_not_mem (n : Nat) (l : List (σ × Mat K)) (a : σ) (h : a ∉ l.map (·.1)) :
    matLook n l a = zeroMat n := by
  induction l with
  | nil => rfl
  | cons p l ih =>
    obtain ⟨b, M⟩ := p
    simp only [List.map_cons, List.mem_cons, not_or] at h
    simp [matLook, Ne.symm h.1, ih h.2]

theorem mat_isSquare (A : MAut σ K) (hA : A.wf = true) (a : σ) :
    (A.mat a).isSquare A.dim = true := by
  rcases matLook_cases A.dim A.arcs a with h | h
  · rw [MAut.mat, h]; exact zeroMat_isSquare _
  · exact ((wf_iff A).1 hA).2.2.1 _ h

theorem mat_length (A : MAut σ K) (hA : A.wf = true) (a : σ) : (A.mat a).length = A.dim :=
  ((isSquare_iff _ _).1 (mat_isSquare A hA a)).1

theorem mat_row_length (A : MAut σ K) (hA : A.wf = true) (a : σ) :
    ∀ r ∈ A.mat a, r.length = A.dim :=
  ((isSquare_iff _ _).1 (mat_isSquare A hA a)).2

theorem bwd_length (A : MAut σ K) (hA : A.wf = true) (w : List σ) : (A.bwd w).length = A.dim := by
  cases w with
  | nil => exact ((wf_iff A).1 hA).2.1
  | cons a w => simp [MAut.bwd, mat_length A hA a]

end Wf

/-! ### soundness of the zero certificate -/

section Zero
variable {σ K : Type} [DecidableEq σ] [DecidableEq K] [CommRing K]

theorem closedRows_spec (n : Nat) (M : Mat K) (U : List (Vec K)) :
    ∀ (us : List (Vec K)) (cs : List (List K)), closedRows n M U us cs = true →
      ∀ u ∈ us, ∃ c, matVec M u = linComb n c U
  | [], _, _ => by simp
  | u :: us, cs, h => by
    simp only [closedRows, Bool.and_eq_true, decide_eq_true_eq] at h
    intro v hv
    rcases List.mem_cons.1 hv with rfl | hv
    · exact ⟨_, h.1⟩
    · exact closedRows_spec n M U us cs.tail h.2 v hv

theorem zeroCertCheck_iff (C : MAut σ K) (cert : ZeroCert σ K) :
    zeroCertCheck C cert = true ↔
      C.wf = true ∧ (∀ u ∈ cert.U, u.length = C.dim) ∧
      C.stop = linComb C.dim cert.cStop cert.U ∧
      (∀ p ∈ C.arcs, closedRows C.dim p.2 cert.U cert.U (coeffLook cert.cArc p.1) = true) ∧
      (∀ u ∈ cert.U, dot C.start u = 0) := by
  simp [zeroCertCheck, List.all_eq_true, and_assoc]

/-- **Soundness of the zero certificate**: an accepted certificate proves that the automaton
assigns weight `0` to every word. -/
theorem _root_.Genlm.zeroCert_sound (C : MAut σ K) (cert : ZeroCert σ K)
    (h : zeroCertCheck C cert = true) : ∀ w, C.weight w = 0 := by
  obtain ⟨hwf, hlen, hstop, harc, horth⟩ := (zeroCertCheck_iff C cert).1 h
  set d := C.dim with hd
  -- the subspace spanned by the certificate
  let S : Submodule K (Fin d → K) := Submodule.span K {x | ∃ u ∈ cert.U, toFn d u = x}
  have hgen : ∀ u ∈ cert.U, u.length = d ∧ toFn d u ∈ S := fun u hu =>
    ⟨hlen u hu, Submodule.subset_span ⟨u, hu, rfl⟩⟩
  -- `S` is closed under every `M_a`
  have hclosed : ∀ a, ∀ x ∈ S, toMx d d (C.mat a) *ᵥ x ∈ S := by
    intro a x hx
    induction hx using Submodule.span_induction with
    | mem x hx =>
      obtain ⟨u, hu, rfl⟩ := hx
      rw [← toFn_matVec d _ u (mat_length C hwf a) (mat_row_length C hwf a) (hlen u hu)]
      rcases matLook_cases C.dim C.arcs a with h0 | hmem
      · -- absent symbol: zero matrix
        have : matVec (C.mat a) u = linComb d [] cert.U := by
          rw [MAut.mat, h0, matVec_zeroMat]; rfl
        rw [this]
        exact (linComb_mem d S _ _ hgen).2
      · obtain ⟨c, hc⟩ := closedRows_spec _ _ _ _ _ (harc _ hmem) u hu
        rw [show C.mat a = matLook C.dim C.arcs a from rfl, hc]
        exact (linComb_mem d S _ _ hgen).2
    | zero => simp
    | add x y _ _ hx hy => rw [mulVec_add]; exact S.add_mem hx hy
    | smul c x _ hx => rw [mulVec_smul]; exact S.smul_mem c hx
  -- `M_w · stop ∈ S`
  have hbwd : ∀ w, toFn d (C.bwd w) ∈ S := by
    intro w
    induction w with
    | nil => show toFn d C.stop ∈ S; rw [hstop]; exact (linComb_mem d S _ _ hgen).2
    | cons a w ih =>
      show toFn d (matVec (C.mat a) (C.bwd w)) ∈ S
      rw [toFn_matVec d _ _ (mat_length C hwf a) (mat_row_length C hwf a) (bwd_length C hwf w)]
      exact hclosed a _ ih
  -- `start` is orthogonal to `S`
  have hzero : ∀ x ∈ S, toFn d C.start ⬝ᵥ x = 0 := by
    intro x hx
    induction hx using Submodule.span_induction with
    | mem x hx =>
      obtain ⟨u, hu, rfl⟩ := hx
      rw [← dot_eq_dotProduct d _ _ ((wf_iff C).1 hwf).1 (hlen u hu)]
      exact horth u hu
    | zero => simp
    | add x y _ _ hx hy => rw [dotProduct_add, hx, hy, add_zero]
    | smul c x _ hx => rw [dotProduct_smul, hx, smul_zero]
  intro w
  rw [MAut.weight, dot_eq_dotProduct d _ _ ((wf_iff C).1 hwf).1 (bwd_length C hwf w)]
  exact hzero _ (hbwd w)

end Zero

/-! ### the difference automaton -/

section Diff
variable {σ K : Type} [DecidableEq σ] [CommRing K]

theorem dot_append : ∀ (a c b e : Vec K), a.length = c.length →
    dot (a ++ b) (c ++ e) = dot a c + dot b e
  | [], [], b, e, _ => by simp [dot]
  | x :: a, y :: c, b, e, h => by
    simp only [List.cons_append, dot, dot_append a c b e (by simpa using h), add_assoc]

theorem dot_map_neg : ∀ (x y : Vec K), dot (x.map fun t => -t) y = - dot x y
  | [], _ => by simp [dot]
  | _ :: _, [] => by simp [dot]
  | a :: x, b :: y => by simp only [List.map_cons, dot, dot_map_neg x y]; ring

theorem matVec_blockDiag (n : Nat) (X Y : Mat K) (x y : Vec K)
    (hX : ∀ r ∈ X, r.length = x.length) :
    matVec (blockDiag x.length n X Y) (x ++ y) = matVec X x ++ matVec Y y := by
  simp only [matVec, blockDiag, List.map_append, List.map_map]
  congr 1
  · apply List.map_congr_left
    intro r hr
    simp [dot_append _ _ _ _ (hX r hr), dot_vzero_left]
  · apply List.map_congr_left
    intro r _
    simp [dot_append (vzero x.length) x r y (by simp), dot_vzero_left]

theorem matLook_map (n : Nat) (l : List σ) (f : σ → Mat K) (a : σ) :
    matLook n (l.map fun b => (b, f b)) a = if a ∈ l then f a else zeroMat n := by
  induction l with
  | nil => simp [matLook]
  | cons b l ih =>
    by_cases h : b = a
    · subst h; simp [matLook]
    · simp [matLook, h, ih, Ne.symm h]

theorem blockDiag_zero (m n : Nat) :
    blockDiag m n (zeroMat m : Mat K) (zeroMat n) = zeroMat (m + n) := by
  simp [blockDiag, zeroMat, vzero, List.map_replicate, List.replicate_append_replicate]

omit [CommRing K] in
theorem mem_diffSyms (A B : MAut σ K) (a : σ) :
    a ∈ A.diffSyms B ↔ a ∈ A.syms ∨ a ∈ B.syms := by
  simp only [MAut.diffSyms, List.mem_append, List.mem_filter, List.contains_eq_mem,
    Bool.not_eq_true', decide_eq_false_iff_not]
  tauto

/-- the matrices of the difference automaton are block diagonal, for *every* symbol -/
theorem _root_.Genlm.diff_mat (A B : MAut σ K) (a : σ) :
    (A.diff B).mat a = blockDiag A.dim B.dim (A.mat a) (B.mat a) := by
  refine (matLook_map (A.dim + B.dim) (A.diffSyms B)
    (fun a => blockDiag A.dim B.dim (A.mat a) (B.mat a)) a).trans ?_
  split
  · rfl
  · rename_i h
    rw [mem_diffSyms, not_or] at h
    rw [MAut.mat, MAut.mat, matLook_not_mem _ _ _ h.1, matLook_not_mem _ _ _ h.2, blockDiag_zero]

theorem _root_.Genlm.diff_bwd (A B : MAut σ K) (hA : A.wf = true) (w : List σ) :
    (A.diff B).bwd w = A.bwd w ++ B.bwd w := by
  induction w with
  | nil => rfl
  | cons a w ih =>
    show matVec ((A.diff B).mat a) ((A.diff B).bwd w)
      = matVec (A.mat a) (A.bwd w) ++ matVec (B.mat a) (B.bwd w)
    rw [ih, diff_mat]
    have := matVec_blockDiag B.dim (A.mat a) (B.mat a) (A.bwd w) (B.bwd w)
      (by rw [bwd_length A hA]; exact mat_row_length A hA a)
    rwa [bwd_length A hA] at this

/-- **Weight of the difference automaton.**  (`B.wf` is not needed: only the sizes of `A` matter
for the block decomposition.) -/
theorem _root_.Genlm.diff_weight (A B : MAut σ K) (hA : A.wf = true) (w : List σ) :
    (A.diff B).weight w = A.weight w - B.weight w := by
  rw [MAut.weight, diff_bwd A B hA]
  show dot (A.start ++ B.start.map fun x => -x) _ = _
  rw [dot_append _ _ _ _ (by rw [bwd_length A hA, ((wf_iff A).1 hA).1]), dot_map_neg]
  simp only [MAut.weight, sub_eq_add_neg]

theorem blockDiag_isSquare (m n : Nat) (X Y : Mat K) (hX : X.isSquare m = true)
    (hY : Y.isSquare n = true) : (blockDiag m n X Y).isSquare (m + n) = true := by
  rw [isSquare_iff] at hX hY ⊢
  refine ⟨by simp [blockDiag, hX.1, hY.1], fun r hr => ?_⟩
  simp only [blockDiag, List.mem_append, List.mem_map] at hr
  rcases hr with ⟨r, hr, rfl⟩ | ⟨r, hr, rfl⟩
  · simp [hX.2 r hr]
  · simp [hY.2 r hr]

/-- the difference of two well-formed automata is well-formed (so the `wf` test inside
`equivCertCheck` never rejects well-formed inputs) -/
theorem _root_.Genlm.diff_wf (A B : MAut σ K) (hA : A.wf = true) (hB : B.wf = true) :
    (A.diff B).wf = true := by
  have hA' := (wf_iff A).1 hA
  have hB' := (wf_iff B).1 hB
  rw [wf_iff]
  refine ⟨by simp [MAut.diff, hA'.1, hB'.1], by simp [MAut.diff, hA'.2.1, hB'.2.1], ?_, ?_⟩
  · intro p hp
    simp only [MAut.diff, List.mem_map] at hp
    obtain ⟨a, _, rfl⟩ := hp
    exact blockDiag_isSquare _ _ _ _ (mat_isSquare A hA a) (mat_isSquare B hB a)
  · have : (A.diff B).syms = A.diffSyms B := by
      simp [MAut.syms, MAut.diff, List.map_map, Function.comp_def]
    rw [this, MAut.diffSyms]
    refine List.Nodup.append hA'.2.2.2 (hB'.2.2.2.filter _) ?_
    intro a ha hb
    simp only [List.mem_filter, List.contains_eq_mem, Bool.not_eq_true',
      decide_eq_false_iff_not] at hb
    exact hb.2 ha

variable [DecidableEq K]

/-- **Soundness of the equivalence certificate.** -/
theorem _root_.Genlm.equivCert_sound (A B : MAut σ K) (cert : ZeroCert σ K) (hA : A.wf = true)
    (h : equivCertCheck A B cert = true) : ∀ w, A.weight w = B.weight w := by
  intro w
  have := zeroCert_sound (A.diff B) cert h w
  rw [diff_weight A B hA] at this
  exact sub_eq_zero.1 this

omit [DecidableEq K] in
/-- a word on which the weights differ refutes equivalence -/
theorem _root_.Genlm.counterexample_sound (A B : MAut σ K) (w : List σ) (h : A.weight w ≠ B.weight w) :
    ¬ ∀ w, A.weight w = B.weight w := fun hall => h (hall w)

end Diff

/-! ### the Hankel rank lower bound -/

section Rank
variable {σ K : Type} [DecidableEq σ] [CommRing K]

/-- the matrix `M_{a₁} ⋯ M_{aₙ}` of a word -/
def wordMx (B : MAut σ K) : List σ → Matrix (Fin B.dim) (Fin B.dim) K
  | [] => 1
  | a :: w => toMx B.dim B.dim (B.mat a) * wordMx B w

omit [CommRing K] in
theorem bwd_append [Add K] [Mul K] [Zero K] (B : MAut σ K) (u v : List σ) :
    B.bwd (u ++ v) = u.foldr (fun a x => matVec (B.mat a) x) (B.bwd v) := by
  simp [MAut.bwd, List.foldr_append]

theorem toFn_fold (B : MAut σ K) (hB : B.wf = true) (x : Vec K) (hx : x.length = B.dim) :
    ∀ u : List σ, (u.foldr (fun a x => matVec (B.mat a) x) x).length = B.dim ∧
      toFn B.dim (u.foldr (fun a x => matVec (B.mat a) x) x) = wordMx B u *ᵥ toFn B.dim x
  | [] => by simp [hx, wordMx]
  | a :: u => by
    obtain ⟨h1, h2⟩ := toFn_fold B hB x hx u
    refine ⟨by simp [mat_length B hB a], ?_⟩
    rw [List.foldr_cons, toFn_matVec _ _ _ (mat_length B hB a) (mat_row_length B hB a) h1, h2,
      wordMx, mulVec_mulVec]

/-- the weight of `u ++ v` factors through the state space -/
theorem weight_append (B : MAut σ K) (hB : B.wf = true) (u v : List σ) :
    B.weight (u ++ v) = (toFn B.dim B.start ᵥ* wordMx B u) ⬝ᵥ toFn B.dim (B.bwd v) := by
  obtain ⟨h1, h2⟩ := toFn_fold B hB (B.bwd v) (bwd_length B hB v) u
  rw [MAut.weight, bwd_append, dot_eq_dotProduct B.dim _ _ ((wf_iff B).1 hB).1 h1, h2,
    dotProduct_mulVec]

theorem toMx_matMul (m k n : Nat) (X Y : Mat K) (hX : X.length = m)
    (hXr : ∀ r ∈ X, r.length = k) (hY : Y.length = k) :
    toMx m n (matMul n X Y) = toMx m k X * toMx k n Y := by
  ext i j
  have hi : (i : Nat) < X.length := by omega
  show ((matMul n X Y).getD i []).getD j 0 = _
  rw [matMul, getD_map_lt _ X i [] [] hi, getD_range_map _ n j 0 j.2,
    dot_eq_dotProduct k _ _ (hXr _ (getD_mem_lt X i [] hi)) (by simp [col, hY])]
  simp only [Matrix.mul_apply, dotProduct]
  refine Finset.sum_congr rfl fun l _ => ?_
  congr 1
  show (col j Y).getD l 0 = _
  rw [col, getD_map_lt _ Y l [] 0 (by omega)]
  rfl

theorem toMx_idMat (k : Nat) : toMx k k (idMat k : Mat K) = 1 := by
  ext i j
  show ((idMat k : Mat K).getD i []).getD j 0 = _
  rw [idMat, getD_range_map _ k i [] i.2, getD_range_map _ k j 0 j.2]
  simp [Matrix.one_apply, Fin.ext_iff]

omit [CommRing K] in
theorem rankLowerCheck_iff [DecidableEq K] [Add K] [Mul K] [Zero K] [One K]
    (A : MAut σ K) (us vs : List (List σ)) (inv : Mat K) :
    rankLowerCheck A us vs inv = true ↔ vs.length = us.length ∧ inv.isSquare us.length = true ∧
      matMul us.length (hankel A us vs) inv = idMat us.length := by
  simp [rankLowerCheck, and_assoc]

/-- **Soundness of the Hankel lower bound** (over a non-trivial commutative ring; in the trivial
ring every check succeeds and the statement is false).  If the certificate is accepted, every
well-formed automaton with the same weights as `A` has at least `us.length` states.  In
particular, if `A.dim = us.length` then `A` is minimal. -/
theorem _root_.Genlm.rankLower_sound [Nontrivial K] [DecidableEq K] (A : MAut σ K) (us vs : List (List σ))
    (inv : Mat K) (h : rankLowerCheck A us vs inv = true)
    (B : MAut σ K) (hB : B.wf = true) (heq : ∀ w, B.weight w = A.weight w) :
    us.length ≤ B.dim := by
  obtain ⟨hvs, hinv, hmul⟩ := (rankLowerCheck_iff A us vs inv).1 h
  rw [isSquare_iff] at hinv
  set k := us.length with hk
  set d := B.dim with hd
  let P : Matrix (Fin k) (Fin d) K :=
    Matrix.of fun i => toFn d B.start ᵥ* wordMx B (us.getD i [])
  let Q : Matrix (Fin d) (Fin k) K :=
    Matrix.of fun l j => toFn d (B.bwd (vs.getD j [])) l
  have hH : toMx k k (hankel A us vs) = P * Q := by
    ext i j
    show ((hankel A us vs).getD i []).getD j 0 = _
    rw [hankel, getD_map_lt _ us i [] [] (by omega), getD_map_lt _ vs j [] 0 (by omega), ← heq,
      weight_append B hB]
    rfl
  have h1 : P * (Q * toMx k k inv) = 1 := by
    rw [← Matrix.mul_assoc, ← hH, ← toMx_matMul k k k _ _ (by simp [hankel, hk]) ?_ hinv.1, hmul,
      toMx_idMat]
    intro r hr
    simp only [hankel, List.mem_map] at hr
    obtain ⟨u, _, rfl⟩ := hr
    simp [hvs]
  have h2 := rank_mul_le_left P (Q * toMx k k inv)
  rw [h1, rank_one, Fintype.card_fin] at h2
  exact h2.trans (rank_le_width P)

end Rank

/-! ### non-vacuity: concrete certificates over `ℚ` (symbol `0 : ℕ` plays the letter `a`) -/

section Examples

/-- `aⁿ ↦ 2⁻ⁿ`, with a useless second state -/
def exA : MAut Nat ℚ := ⟨2, [1, 0], [(0, [[1/2, 0], [0, 1/3]])], [1, 0]⟩
/-- `aⁿ ↦ 2⁻ⁿ`, the mass split over two states -/
def exB : MAut Nat ℚ := ⟨2, [1/2, 1/2], [(0, [[1/2, 0], [0, 1/2]])], [1, 1]⟩
/-- differs from `exA` on `[a]` (and on `[]`) -/
def exB' : MAut Nat ℚ := ⟨2, [1/2, 1/2], [(0, [[1/2, 0], [0, 1/2]])], [1, 0]⟩
/-- `aⁿ ↦ 2⁻ⁿ + 3⁻ⁿ`: Hankel rank 2, so minimal -/
def exC : MAut Nat ℚ := ⟨2, [1, 1], [(0, [[1/2, 0], [0, 1/3]])], [1, 1]⟩

/-- one vector spans the invariant subspace of the difference automaton -/
def exCert : ZeroCert Nat ℚ := ⟨[[1, 0, 1, 1]], [1], [(0, [[1/2]])]⟩

example : exA.wf = true ∧ exB.wf = true ∧ exA.arcs ≠ exB.arcs := by decide +kernel
example : equivCertCheck exA exB exCert = true := by decide +kernel
example : ∀ w, exA.weight w = exB.weight w :=
  equivCert_sound exA exB exCert (by decide +kernel) (by decide +kernel)

example : exA.weight [0] ≠ exB'.weight [0] := by decide +kernel
example : ¬ ∀ w, exA.weight w = exB'.weight w :=
  counterexample_sound exA exB' [0] (by decide +kernel)

/-- a certificate with a two-dimensional subspace and a symbol (`1`) known to one side only -/
def exD : MAut Nat ℚ := ⟨2, [1, 0], [(0, [[0, 1/2], [0, 0]]), (1, [[0, 0], [0, 0]])], [0, 1]⟩
def exE : MAut Nat ℚ := ⟨2, [1, 0], [(0, [[0, 1], [0, 0]])], [0, 1/2]⟩
def exCert2 : ZeroCert Nat ℚ :=
  ⟨[[0, 1, 0, 1/2], [1/2, 0, 1/2, 0]], [1, 0], [(0, [[0, 1], [0, 0]]), (1, [[], []])]⟩
example : equivCertCheck exD exE exCert2 = true := by decide +kernel

example : rankLowerCheck exC [[], [0]] [[], [0]] [[13, -30], [-30, 72]] = true := by
  decide +kernel
example (B : MAut Nat ℚ) (hB : B.wf = true) (h : ∀ w, B.weight w = exC.weight w) : 2 ≤ B.dim :=
  rankLower_sound exC [[], [0]] [[], [0]] [[13, -30], [-30, 72]] (by decide +kernel) B hB h

end Examples

end Genlm.Cert
