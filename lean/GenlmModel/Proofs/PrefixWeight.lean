import GenlmModel.Proofs.Compose
import GenlmModel.Proofs.PrefixT
import GenlmModel.Proofs.BoolLink

/-!
# C03: the prefix grammar assigns to `p` the total weight of the strings that begin with `p`

`CFG.prefix_grammar` is `self @ prefix_transducer(self.R, self.V)` (`genlm/grammar/cfg.py`), i.e.
`compose G (prefixT G.V)` in the model.  This file combines the weighted Bar-Hillel theorems
(`Proofs/Compose.lean`) with the prefix-transducer theorem (`prefix_transducer_unique'`,
`Proofs/PrefixT.lean`).

* `prefixWN G n p = Σ_{trees of height ≤ n from S} weight · [p is a prefix of the yield]`
  (`wsum (yields G n G.S) …`: one summand per derivation tree, so every string that begins with `p` is counted
  exactly once per derivation, with its derivation weight) — the *specification*; `prefixWN_eq_sum`,
  `prefixWN_eq_sum_filter` rewrite it as `Σ_{x ∈ L, p <+: x} WN G n S x` over any duplicate-free candidate
  list `L` that covers the yields (e.g. `strsLe G.V.eraseDups N`, `N ≥ yieldLen G n S`);
* `prefix_weight_composeAll`, `prefix_weight` (C03, level form):
  `WN P (n+2) start p ≼ prefixWN G n p ≼ WN P (n+3) start p` for `P = composeAll G (prefixT G.V)`, resp.
  `P = compose G (prefixT G.V)` (what Python builds).  The prefix transducer has ε on the OUTPUT tape only, so
  the tight, input-ε-free Bar-Hillel theorem applies;
* `prefix_weight_exact` : exact level identity `WN P (n+3) start p = prefixWN G n p` for grammars without
  nullary rules;
* `prefix_weight_limit`, `prefix_weight_limit'` : in a semiring whose natural preorder is antisymmetric, once
  `prefixWN G · p` has stabilised at `L` (from `N0` on), `WN P k start p = L` for all `k ≥ N0 + 3`;
* `prefixWN_mono` : the specification is increasing in the height;
* `prefixWN_consistent` : `prefixWN G n p = WN G n S p + Σ_{t ∈ V} prefixWN G n (p ++ [t])` (the consistency
  equation used by the chain rule, `Proofs/LmLink.lean`); `prefixWN_consistent_of_zero` when `p` itself is
  not in the language (every string of `add_EOS G` ends with `eos`);
* `prefixWN_bool`, `mask_via_prefixWN`, `mask_via_prefix_grammar` : in the Boolean semiring, the next-token
  mask `nextSet` (C01) is the support of the prefix grammar (C03).

Side conditions: `G.V.Nodup` (Python's `V` is a set; with a repeated terminal every arc of the transducer is
doubled: `PrefixT.lean`), no rule with a terminal head, the start symbol is not a terminal
(`composeOK_prefixT`: these two give `ComposeOK G (prefixT G.V)`).
-/
namespace Genlm
set_option linter.unusedSectionVars false
open UnfoldAux WfsaAux FstAux ComposeAux

section Def
variable {σ K : Type} [DecidableEq σ] [Add K] [Mul K] [Zero K] [One K]

/-- **the prefix weight at height `n`**: the total weight of the derivation trees of height `≤ n` from the
start symbol whose yield begins with `p` -/
def prefixWN (G : CFG σ K) (n : Nat) (p : List σ) : K :=
  wsum (yields G n G.S) (fun x => if p <+: x then 1 else 0)

end Def

namespace LinkAux
section
variable {σ K : Type} [DecidableEq σ] [CommSemiring K]

theorem sum_ind_nodup (V : List σ) (hV : V.Nodup) (t : σ) (ht : t ∈ V) :
    (V.map fun t' => if t' = t then (1 : K) else 0).sum = 1 := by
  induction V with
  | nil => simp at ht
  | cons b V ih =>
    obtain ⟨hb, hV'⟩ := List.nodup_cons.mp hV
    simp only [List.map_cons, List.sum_cons]
    by_cases h : b = t
    · subst h
      rw [if_pos rfl, sum_map_zero, add_zero]
      intro a ha
      rw [if_neg]; intro h'; exact hb (h' ▸ ha)
    · rw [if_neg h, zero_add]
      rcases List.mem_cons.mp ht with h' | h'
      · exact absurd h'.symm h
      · exact ih hV' h'

/-- a string that begins with `p` is `p` or begins with exactly one `p ++ [t]` -/
theorem prefix_ind_split (V : List σ) (hV : V.Nodup) (p x : List σ) (hx : ∀ a ∈ x, a ∈ V) :
    (if p <+: x then (1 : K) else 0)
      = (if x = p then 1 else 0) + (V.map fun t => if p ++ [t] <+: x then (1 : K) else 0).sum := by
  by_cases hp : p <+: x
  · obtain ⟨r, rfl⟩ := hp
    rw [if_pos (List.prefix_append p r)]
    cases r with
    | nil =>
      rw [List.append_nil, if_pos rfl, sum_map_zero, add_zero]
      intro t _
      rw [if_neg]
      intro h
      have := h.length_le
      simp at this
    | cons t r =>
      have hne : p ++ t :: r ≠ p := by
        intro h
        have := congrArg List.length h
        simp at this
      rw [if_neg hne, zero_add]
      have ht : t ∈ V := hx t (by simp)
      have hsum : (V.map fun t' => if p ++ [t'] <+: p ++ t :: r then (1 : K) else 0).sum
          = (V.map fun t' => if t' = t then (1 : K) else 0).sum := by
        congr 1; apply List.map_congr_left; intro t' _
        have : p ++ [t'] <+: p ++ t :: r ↔ t' = t := by
          rw [List.prefix_append_right_inj, List.cons_prefix_cons]
          exact ⟨fun h => h.1, fun h => ⟨h, List.nil_prefix⟩⟩
        by_cases h : t' = t
        · rw [if_pos h, if_pos (this.mpr h)]
        · rw [if_neg h, if_neg (fun h' => h (this.mp h'))]
      rw [hsum, sum_ind_nodup V hV t ht]
  · rw [if_neg hp]
    have hne : x ≠ p := fun h => hp (h ▸ List.prefix_refl _)
    rw [if_neg hne, zero_add, sum_map_zero]
    intro t _
    rw [if_neg]
    intro h
    exact hp (List.IsPrefix.trans (List.prefix_append p [t]) h)

theorem sum_mul_ind_filter {α : Type} (L : List α) (P : α → Prop) [DecidablePred P] (f : α → K) :
    (L.map fun x => f x * (if P x then 1 else 0)).sum = ((L.filter fun x => P x).map f).sum := by
  induction L with
  | nil => rfl
  | cons x L ih =>
    simp only [List.map_cons, List.sum_cons]
    by_cases h : P x
    · rw [List.filter_cons_of_pos (by simpa using h), List.map_cons, List.sum_cons, if_pos h, mul_one, ih]
    · rw [List.filter_cons_of_neg (by simpa using h), if_neg h, mul_zero, zero_add, ih]

theorem wsum_add (l : List (List σ × K)) (φ ψ : List σ → K) :
    wsum l (fun x => φ x + ψ x) = wsum l φ + wsum l ψ := by
  simp only [wsum_eq]
  rw [← List.sum_map_add]
  congr 1; apply List.map_congr_left; intro p _; ring

end
end LinkAux

open LinkAux

/-! ### the prefix transducer as the right factor of the composition -/
section Transducer
variable {σ K : Type} [DecidableEq σ] [CommSemiring K]

/-- the prefix transducer reads a symbol on every arc (`x:x` and `x:ε`, never `ε:x`) -/
theorem prefixT_no_eps_input (V : List σ) :
    ∀ e ∈ (prefixT V : FST Nat σ K).arcs, e.inp ≠ none := by
  intro e he
  simp only [prefixT, List.mem_flatMap, List.mem_cons, List.not_mem_nil, or_false] at he
  obtain ⟨x, _, rfl | rfl | rfl⟩ := he <;> simp

/-- every input label of the prefix transducer over `G.V` is a terminal of `G` -/
theorem prefixT_inp_mem (V : List σ) :
    ∀ e ∈ (prefixT V : FST Nat σ K).arcs, ∀ a, e.inp = some a → a ∈ V := by
  intro e he a ha
  simp only [prefixT, List.mem_flatMap, List.mem_cons, List.not_mem_nil, or_false] at he
  obtain ⟨x, hx, rfl | rfl | rfl⟩ := he <;> simp only [Option.some.injEq] at ha <;> exact ha ▸ hx

/-- the side conditions of the composition theorems, for the prefix transducer over the terminals of the
grammar: no rule has a terminal head, the start symbol is not a terminal -/
theorem composeOK_prefixT (G : CFG σ K) (hhead : ∀ r ∈ G.rules, r.head ∉ G.V) (hS : G.S ∉ G.V) :
    ComposeOK G (prefixT G.V : FST Nat σ K) :=
  ⟨hhead, hS, fun e he a ha hna => absurd (prefixT_inp_mem G.V e he a ha) hna⟩

/-- the transducer side of the Bar-Hillel sum is the prefix indicator -/
theorem prefixT_wsum (G : CFG σ K) (hV : G.V.Nodup) (n : Nat) (p : List σ) :
    wsum (yields G n G.S) (fun x => TPk (prefixT G.V : FST Nat σ K) x.length x p) = prefixWN G n p := by
  unfold prefixWN
  apply wsum_congr
  intro q hq
  rw [prefix_transducer_unique' G.V hV]
  have hover : ∀ a ∈ q.1, a ∈ G.V := yields_over G n G.S q hq
  by_cases hp : p <+: q.1
  · rw [if_pos ⟨rfl, hp, hover⟩, if_pos hp]
  · rw [if_neg (fun h => hp h.2.1), if_neg hp]

end Transducer

/-! ### the specification `prefixWN` -/
section Spec
variable {σ K : Type} [DecidableEq σ] [CommSemiring K]

/-- `prefixWN` over a duplicate-free candidate list `L` that contains every yield of height `≤ n`
beginning with `p`: `Σ_{x ∈ L} WN G n S x · [p <+: x]` — each string once, with its `WN` weight -/
theorem prefixWN_eq_sum (G : CFG σ K) (n : Nat) (p : List σ) (L : List (List σ)) (hL : L.Nodup)
    (hcov : ∀ q ∈ yields G n G.S, p <+: q.1 → q.1 ∈ L) :
    prefixWN G n p = (L.map fun x => WN G n G.S x * (if p <+: x then 1 else 0)).sum := by
  unfold prefixWN
  rw [yields_sum_eq G n G.S L hL]
  intro q hq
  by_cases h : p <+: q.1
  · exact Or.inl (hcov q hq h)
  · exact Or.inr (if_neg h)

/-- the same as a sum over the members of `L` that begin with `p` -/
theorem prefixWN_eq_sum_filter (G : CFG σ K) (n : Nat) (p : List σ) (L : List (List σ)) (hL : L.Nodup)
    (hcov : ∀ q ∈ yields G n G.S, p <+: q.1 → q.1 ∈ L) :
    prefixWN G n p = ((L.filter fun x => p <+: x).map fun x => WN G n G.S x).sum := by
  rw [prefixWN_eq_sum G n p L hL hcov]
  exact sum_mul_ind_filter L (fun x => p <+: x) (fun x => WN G n G.S x)

/-- the canonical candidate list: all strings over the terminals of length at most `N ≥ yieldLen G n S` -/
theorem prefixWN_eq_sum_strsLe (G : CFG σ K) (n : Nat) (p : List σ) (N : Nat)
    (hN : yieldLen G n G.S ≤ N) :
    prefixWN G n p
      = (((strsLe G.V.eraseDups N).filter fun x => p <+: x).map fun x => WN G n G.S x).sum :=
  prefixWN_eq_sum_filter G n p _ (strsLe_nodup _ (nodup_eraseDups _) N)
    (fun q hq _ => yields_mem_strsLe G n G.S N hN q hq)

/-- the prefix weights are increasing in the height -/
theorem prefixWN_mono (G : CFG σ K) {n m : Nat} (h : n ≤ m) (p : List σ) :
    prefixWN G n p ≼ prefixWN G m p := by
  have hL := strsLe_nodup G.V.eraseDups (nodup_eraseDups _) (max (yieldLen G n G.S) (yieldLen G m G.S))
  rw [prefixWN_eq_sum G n p _ hL
      (fun q hq _ => yields_mem_strsLe G n G.S _ (Nat.le_max_left _ _) q hq),
    prefixWN_eq_sum G m p _ hL
      (fun q hq _ => yields_mem_strsLe G m G.S _ (Nat.le_max_right _ _) q hq)]
  apply nle_sum
  intro x _
  exact nle_mul (ComposeAux.WN_mono G h G.S x) (nle_refl _)

/-- **consistency**: a derivation whose yield begins with `p` yields `p` itself or begins with `p t` for
exactly one terminal `t` -/
theorem prefixWN_consistent (G : CFG σ K) (hV : G.V.Nodup) (n : Nat) (p : List σ) :
    prefixWN G n p = WN G n G.S p + (G.V.map fun t => prefixWN G n (p ++ [t])).sum := by
  unfold prefixWN
  rw [yields_WN G n G.S p, ← wsum_sum, ← LinkAux.wsum_add]
  apply wsum_congr
  intro q hq
  exact prefix_ind_split G.V hV p q.1 (yields_over G n G.S q hq)

/-- consistency for a context that is not itself in the language (for `add_EOS G`: every context without
`eos`) -/
theorem prefixWN_consistent_of_zero (G : CFG σ K) (hV : G.V.Nodup) (n : Nat) (p : List σ)
    (h0 : WN G n G.S p = 0) :
    prefixWN G n p = (G.V.map fun t => prefixWN G n (p ++ [t])).sum := by
  rw [prefixWN_consistent G hV n p, h0, zero_add]

/-- the empty prefix: the total weight of the derivation trees of height `≤ n` -/
theorem prefixWN_nil (G : CFG σ K) (n : Nat) :
    prefixWN G n [] = ((yields G n G.S).map fun q => q.2).sum := by
  unfold prefixWN
  rw [wsum_eq]
  congr 1; apply List.map_congr_left; intro q _
  rw [if_pos List.nil_prefix, mul_one]

end Spec

/-! ### C03 -/
section Main
variable {σ K : Type} [DecidableEq σ] [CommSemiring K]
variable (G : CFG σ K)

/-- **C03, level form, unpruned construction**: the weight the prefix grammar gives to `p` at the levels
`n + 2` and `n + 3` brackets the total weight of the derivations of height `≤ n` of the strings that begin
with `p` -/
theorem prefix_weight_composeAll (hok : ComposeOK G (prefixT G.V : FST Nat σ K)) (hV : G.V.Nodup)
    (n : Nat) (p : List σ) :
    WN (composeAll G (prefixT G.V : FST Nat σ K)) (n+2) .start (tm p) ≼ prefixWN G n p
    ∧ prefixWN G n p ≼ WN (composeAll G (prefixT G.V : FST Nat σ K)) (n+3) .start (tm p) := by
  have h := compose_epsfree G (prefixT G.V : FST Nat σ K) hok (prefixT_no_eps_input G.V) n p
  rwa [prefixT_wsum G hV n p] at h

/-- **exact level identity** for grammars without nullary rules -/
theorem prefix_weight_exact (hok : ComposeOK G (prefixT G.V : FST Nat σ K)) (hV : G.V.Nodup)
    (hnull : ∀ r ∈ G.rules, r.body ≠ []) (n : Nat) (p : List σ) :
    WN (composeAll G (prefixT G.V : FST Nat σ K)) (n+3) .start (tm p) = prefixWN G n p := by
  rw [compose_epsfree_exact G (prefixT G.V : FST Nat σ K) hok (prefixT_no_eps_input G.V) hnull n p,
    prefixT_wsum G hV n p]

/-- **the limit** (unpruned construction): where `≼` is antisymmetric, once the prefix weight of `p` has
stabilised at `L` from height `N0` on, the prefix grammar gives `p` the weight `L` from level `N0 + 3` on -/
theorem prefix_weight_limit' (hok : ComposeOK G (prefixT G.V : FST Nat σ K)) (hV : G.V.Nodup)
    (hanti : ∀ a b : K, a ≼ b → b ≼ a → a = b) (p : List σ) (N0 : Nat) (L : K)
    (hG : ∀ n, N0 ≤ n → prefixWN G n p = L) (k : Nat) (hk : N0 + 3 ≤ k) :
    WN (composeAll G (prefixT G.V : FST Nat σ K)) k .start (tm p) = L := by
  obtain ⟨n, rfl⟩ : ∃ n, k = n + 3 := ⟨k - 3, by omega⟩
  apply hanti
  · have h := (prefix_weight_composeAll G hok hV (n+1) p).1
    rwa [hG (n+1) (by omega)] at h
  · have h := (prefix_weight_composeAll G hok hV n p).2
    rwa [hG n (by omega)] at h

end Main

section Python
variable {σ K : Type} [DecidableEq σ] [CommSemiring K] [DecidableEq K]
variable (G : CFG σ K)

/-- **C03, level form, for the grammar Python builds** (`CFG.prefix_grammar`: rules restricted to the
supported items, zero weights dropped) -/
theorem prefix_weight (hok : ComposeOK G (prefixT G.V : FST Nat σ K)) (hV : G.V.Nodup) (n : Nat)
    (p : List σ) :
    WN (compose G (prefixT G.V : FST Nat σ K)) (n+2) (compose G (prefixT G.V : FST Nat σ K)).S (tm p)
      ≼ prefixWN G n p
    ∧ prefixWN G n p
      ≼ WN (compose G (prefixT G.V : FST Nat σ K)) (n+3) (compose G (prefixT G.V : FST Nat σ K)).S
          (tm p) := by
  rw [compose_eq_composeAll_start, compose_eq_composeAll_start]
  exact prefix_weight_composeAll G hok hV n p

/-- **C03, limit form**: `CFG.prefix_grammar` assigns to `p` the total weight of all strings that begin with
`p`, each derivation counted once — the stable value `L` of `Σ_{x, p <+: x} WN G n S x` -/
theorem prefix_weight_limit (hok : ComposeOK G (prefixT G.V : FST Nat σ K)) (hV : G.V.Nodup)
    (hanti : ∀ a b : K, a ≼ b → b ≼ a → a = b) (p : List σ) (N0 : Nat) (L : K)
    (hG : ∀ n, N0 ≤ n → prefixWN G n p = L) (k : Nat) (hk : N0 + 3 ≤ k) :
    WN (compose G (prefixT G.V : FST Nat σ K)) k (compose G (prefixT G.V : FST Nat σ K)).S (tm p)
      = L := by
  rw [compose_eq_composeAll_start]
  exact prefix_weight_limit' G hok hV hanti p N0 L hG k hk

end Python

/-! ### the Boolean instance: the next-token mask is the support of the prefix grammar -/
section Bool
variable {σ : Type} [DecidableEq σ]

/-- in the Boolean semiring the prefix weight at height `n` says: some completion of `p` has a derivation of
height `≤ n` -/
theorem prefixWN_bool (G : CFG σ BoolW) (n : Nat) (p : List σ) :
    prefixWN G n p = 1 ↔ ∃ y, WN G n G.S (p ++ y) = 1 := by
  have hW : ∀ x, WN G n G.S x = 1 ↔ ∃ q ∈ yields G n G.S, q.2 = 1 ∧ q.1 = x := by
    intro x
    rw [yields_WN, wsum_eq, bool_sum_map_eq_one]
    constructor
    · rintro ⟨q, hq, h⟩
      obtain ⟨h1, h2⟩ := bool_mul_eq_one.mp h
      refine ⟨q, hq, h1, ?_⟩
      by_contra hne
      rw [if_neg hne] at h2
      exact bool_zero_ne_one h2
    · rintro ⟨q, hq, h1, h2⟩
      exact ⟨q, hq, bool_mul_eq_one.mpr ⟨h1, by rw [if_pos h2]⟩⟩
  unfold prefixWN
  rw [wsum_eq, bool_sum_map_eq_one]
  constructor
  · rintro ⟨q, hq, h⟩
    obtain ⟨h1, h2⟩ := bool_mul_eq_one.mp h
    have hp : p <+: q.1 := by
      by_contra hne
      rw [if_neg hne] at h2
      exact bool_zero_ne_one h2
    obtain ⟨y, hy⟩ := hp
    exact ⟨y, (hW _).mpr ⟨q, hq, h1, hy.symm⟩⟩
  · rintro ⟨y, h⟩
    obtain ⟨q, hq, h1, h2⟩ := (hW _).mp h
    exact ⟨q, hq, bool_mul_eq_one.mpr ⟨h1, by rw [if_pos ⟨y, h2.symm⟩]⟩⟩

/-- the mask through the Boolean prefix weights -/
theorem mask_via_prefixWN (G : CFG σ BoolW) (hS : G.S ∉ G.V) (c : List σ) (t : σ) :
    t ∈ nextSet (boolSupport G) c ↔ t ∈ G.V ∧ ∃ n, prefixWN G n (c ++ [t]) = 1 := by
  rw [mask_via_WN G hS]
  simp only [prefixWN_bool, List.append_assoc, List.singleton_append]
  constructor
  · rintro ⟨h, y, n, hn⟩; exact ⟨h, n, y, hn⟩
  · rintro ⟨h, n, y, hn⟩; exact ⟨h, y, n, hn⟩

/-- **the mask is the support of the prefix grammar** (C01 through C03, Boolean semiring): `t` may follow `c`
iff it is a terminal and the prefix grammar `G @ prefix_transducer` generates `c t` -/
theorem mask_via_prefix_grammar (G : CFG σ BoolW) (hok : ComposeOK G (prefixT G.V : FST Nat σ BoolW))
    (hV : G.V.Nodup) (c : List σ) (t : σ) :
    t ∈ nextSet (boolSupport G) c ↔
      t ∈ G.V ∧ ∃ k, WN (compose G (prefixT G.V : FST Nat σ BoolW)) k
        (compose G (prefixT G.V : FST Nat σ BoolW)).S (tm (c ++ [t])) = 1 := by
  rw [mask_via_prefixWN G hok.start_nt]
  constructor
  · rintro ⟨h, n, hn⟩
    exact ⟨h, n + 3, bool_natLe_one (prefix_weight G hok hV n (c ++ [t])).2 hn⟩
  · rintro ⟨h, k, hk⟩
    refine ⟨h, k, bool_natLe_one ?_ hk⟩
    refine nle_trans ?_ (prefix_weight G hok hV k (c ++ [t])).1
    rw [compose_eq_composeAll_start, compose_eq_composeAll_start]
    exact ComposeAux.WN_mono _ (by omega) _ _

end Bool

/-! ### non-vacuity (weights in `ℕ`) -/
section Examples

/-- `S → a S (2) | b (3) | ε (5)`; `S = 0`, `a = 1`, `b = 2` -/
private def pwG : CFG ℕ ℕ := ⟨0, [1, 2], [⟨2, 0, [1, 0]⟩, ⟨3, 0, [2]⟩, ⟨5, 0, []⟩]⟩

private theorem pwG_ok : ComposeOK pwG (prefixT pwG.V : FST ℕ ℕ ℕ) :=
  composeOK_prefixT pwG (by decide) (by decide)

-- height ≤ 3: `ε (5), b (3), a (10), ab (6), aa (20), aab (12)`; those beginning with `a`: 10+6+20+12
example : prefixWN pwG 3 [1] = 48 := by decide
example : prefixWN pwG 3 [] = 56 ∧ prefixWN pwG 3 [1, 1] = 32 ∧ prefixWN pwG 3 [2] = 3 := by decide
-- consistency at `[1]`: 48 = 10 (the string `a` itself) + 32 (`aa…`) + 6 (`ab…`)
example : prefixWN pwG 3 [1] = WN pwG 3 0 [1] + ([1, 2].map fun t => prefixWN pwG 3 ([1] ++ [t])).sum :=
  prefixWN_consistent pwG (by decide) 3 [1]
example : WN pwG 3 0 [1] = 10 ∧ prefixWN pwG 3 [1, 1] = 32 ∧ prefixWN pwG 3 [1, 2] = 6 := by decide
-- the bracket of `prefix_weight_composeAll` at `n = 2` (levels 4 and 5 of the prefix grammar)
example : prefixWN pwG 2 [1] = 16 := by decide
example : WN (composeAll pwG (prefixT pwG.V : FST ℕ ℕ ℕ)) 4 .start (tm [1]) ≼ 16
    ∧ (16 : ℕ) ≼ WN (composeAll pwG (prefixT pwG.V : FST ℕ ℕ ℕ)) 5 .start (tm [1]) := by
  have h := prefix_weight_composeAll pwG pwG_ok (by decide) 2 [1]
  rwa [show prefixWN pwG 2 [1] = 16 by decide] at h

/-- a grammar with a finite language, where the limit theorem applies with an explicit `L`:
`S → a B (2) | a (3)`, `B → b (5)`; the strings beginning with `a` are `ab` (10) and `a` (3) -/
private def pwFin : CFG ℕ ℕ := ⟨0, [1, 2], [⟨2, 0, [1, 3]⟩, ⟨3, 0, [1]⟩, ⟨5, 3, [2]⟩]⟩

example : prefixWN pwFin 2 [1] = 13 ∧ prefixWN pwFin 1 [1] = 3 := by decide

/-- the Boolean instance: `S → a S b | ε` (`a = 10`, `b = 11`); after `a`, the token `a` is allowed, and the
prefix grammar generates `a a` -/
private def pwB : CFG ℕ BoolW := ⟨0, [10, 11], [⟨1, 0, [10, 0, 11]⟩, ⟨1, 0, []⟩]⟩
private theorem pwB_ok : ComposeOK pwB (prefixT pwB.V : FST ℕ ℕ BoolW) :=
  composeOK_prefixT pwB (by decide) (by decide)
example : prefixWN pwB 3 [10, 10] = 1 ∧ prefixWN pwB 3 [11] = 0 := by decide
example : (10 : ℕ) ∈ nextSet (boolSupport pwB) [10] :=
  (mask_via_prefixWN pwB (by decide) [10] 10).mpr ⟨by decide, 3, by decide⟩
example : ∃ k, WN (compose pwB (prefixT pwB.V : FST ℕ ℕ BoolW)) k
    (compose pwB (prefixT pwB.V : FST ℕ ℕ BoolW)).S (tm ([10] ++ [10])) = 1 :=
  ((mask_via_prefix_grammar pwB pwB_ok (by decide) [10] 10).mp
    ((mask_via_prefixWN pwB (by decide) [10] 10).mpr ⟨by decide, 3, by decide⟩)).2

/-- the hypotheses of the limit theorem are satisfiable: in `BoolW` the preorder is antisymmetric and a prefix
weight that has reached `1` stays there -/
example (k : ℕ) (hk : 3 + 3 ≤ k) : WN (compose pwB (prefixT pwB.V : FST ℕ ℕ BoolW)) k
    (compose pwB (prefixT pwB.V : FST ℕ ℕ BoolW)).S (tm [10, 10]) = 1 :=
  prefix_weight_limit pwB pwB_ok (by decide) bool_natLe_antisymm [10, 10] 3 1
    (fun _ hn => bool_natLe_one (prefixWN_mono pwB hn _) (by decide)) k hk

end Examples

end Genlm
