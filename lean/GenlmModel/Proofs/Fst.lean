import GenlmModel.Model.FstOps
import GenlmModel.Proofs.Wfsa
import Mathlib.Data.List.Nodup

/-! Correctness of the transducer models of `Model/FstOps.lean` (mirror of `genlm/grammar/fst.py`)
against the path-sum specification `Tk` / `TPk` / `TPN` of `Model/Wfsa.lean`
(any commutative semiring, any transducer: ε on either tape, ε:ε arcs, cycles).

* `TPNtab_spec` — the dynamic programme `TPNtab` computes `TPN`.
* `transpose_Tk/TPk/TPN` (`FST.T`), `diag_Tk/TPk/TPN` (`FST.diag`), `fromStringT_TPk/spec`
  (`FST.from_string`), `project_out_Qk/Pk/PN`, `project_in_Qk/Pk/PN` (`FST.project`, finite sums over
  the candidate strings `strsLe`), `fromPairs_TPk/spec/TPN` (`FST.from_pairs`).
* the plain product `composeRaw` (`_pruned_compose` without pruning): `composeRaw_Tk`,
  `composeRaw_TPk` (no hypothesis on ε: product paths with `k` arcs = pairs of `k`-arc paths agreeing
  on a middle string of length `k`), `composeRaw_TPN` (no ε on the middle tape),
  `composeRaw_assoc_Tk`.
* `__matmul__` (`augment`, `epsilonFilter`, two products, `unlift`): `compose_src_sum` (the arcs
  leaving a product state are Mohri's four kinds of moves), `compose_epsfree_Tk/TPk/TPN` (no ε on the
  middle tape: `(T1 @ T2)(x,z) = Σ_y T1(x,y)·T2(y,z)`), `compose'_Tk` (both association branches
  agree), and the general theorem `compose_graded`, `compose_graded_init`, `compose_graded_TPk`
  (graded path sums `GN` / `GPN`: the paths of `T1 @ T2` along which `T1` moves `k1` times and `T2`
  moves `k2` times weigh `Σ_y T1(x,y)[k1]·T2(y,z)[k2]`, every matching pair of paths exactly once),
  with `GN_total`, `compose_GPN_total` (summing the grades out gives `Tk` / `TPN`).
* `totalN_eq` (stratified `total_weight`), `evalN_epsfree` (`T(x, y)` on transducers without ε).

Helper lemmas live in `Genlm.FstAux`. -/
namespace Genlm
open WfsaAux

/-! ### unfolding `Tk` -/
section TkBasics
variable {ι σ K : Type} [DecidableEq ι] [DecidableEq σ] [CommSemiring K]

theorem Tk_zero (T : FST ι σ K) (i : ι) (x y : List σ) (j : ι) :
    Tk T 0 i x y j = if i = j ∧ x = [] ∧ y = [] then 1 else 0 := rfl

/-- uniform unfolding of `Tk`: peel the input label off `x` and the output label off `y` -/
theorem Tk_succ (T : FST ι σ K) (k : Nat) (i : ι) (x y : List σ) (j : ι) :
    Tk T (k+1) i x y j = ((T.arcs.filter (fun e => e.src = i)).map fun e =>
      ((lpeel e.inp x).map fun x' =>
        ((lpeel e.out y).map fun y' => e.w * Tk T k e.dst x' y' j).sum).sum).sum := by
  simp only [Tk, lsum_eq_sum]
  congr 1
  apply List.map_congr_left
  intro e _
  cases e.inp with
  | none =>
    cases e.out with
    | none => simp [lpeel]
    | some c =>
      cases y with
      | nil => simp [lpeel]
      | cons d y' => by_cases hcd : c = d <;> simp [lpeel, hcd]
  | some a =>
    cases e.out with
    | none =>
      cases x with
      | nil => simp [lpeel]
      | cons b x' => by_cases hab : a = b <;> simp [lpeel, hab]
    | some c =>
      cases x with
      | nil => simp [lpeel]
      | cons b x' =>
        cases y with
        | nil => by_cases hab : a = b <;> simp [lpeel, hab]
        | cons d y' =>
          by_cases hab : a = b <;> by_cases hcd : c = d <;> simp [lpeel, hab, hcd]

theorem TPk_eq (T : FST ι σ K) (k : Nat) (x y : List σ) :
    TPk T k x y
      = (T.start.map fun s => (T.stop.map fun f => s.2 * Tk T k s.1 x y f.1 * f.2).sum).sum := by
  simp only [TPk, lsum_eq_sum]

theorem TPN_eq (T : FST ι σ K) (n : Nat) (x y : List σ) :
    TPN T n x y = ((List.range (n+1)).map fun k => TPk T k x y).sum := by
  simp only [TPN, lsum_eq_sum]

/-- if all the mass sits on a single length `m ≤ n`, `TPN` is that `TPk` -/
theorem TPN_eq_single (T : FST ι σ K) (n m : Nat) (x y : List σ) (hm : m ≤ n)
    (h : ∀ k, k ≠ m → TPk T k x y = 0) : TPN T n x y = TPk T m x y := by
  rw [TPN_eq]
  have : ((List.range (n+1)).map fun k => TPk T k x y)
      = ((List.range (n+1)).map fun k => if k = m then TPk T k x y else 0) := by
    apply List.map_congr_left
    intro k _
    by_cases hk : k = m
    · simp [hk]
    · simp [hk, h k hk]
  rw [this, sum_range_ite_eq, if_pos (by omega)]

end TkBasics

/-! ### the dynamic programme `TPNtab` -/
namespace FstAux
section Tab
variable {ι σ K : Type} [DecidableEq ι] [DecidableEq σ] [CommSemiring K]

omit [DecidableEq σ] [CommSemiring K] in
theorem mem_states_start (T : FST ι σ K) (s : ι × K) (h : s ∈ T.start) : s.1 ∈ T.states := by
  simp only [FST.states, List.mem_eraseDups, List.mem_append, List.mem_map]
  exact Or.inl (Or.inl ⟨s, h, rfl⟩)

omit [DecidableEq σ] [CommSemiring K] in
theorem mem_states_dst (T : FST ι σ K) (e : TArc ι σ K) (h : e ∈ T.arcs) : e.dst ∈ T.states := by
  simp only [FST.states, List.mem_eraseDups, List.mem_append, List.mem_flatMap]
  exact Or.inr ⟨e, h, by simp⟩

omit [DecidableEq σ] [CommSemiring K] in
theorem mem_states_src (T : FST ι σ K) (e : TArc ι σ K) (h : e ∈ T.arcs) : e.src ∈ T.states := by
  simp only [FST.states, List.mem_eraseDups, List.mem_append, List.mem_flatMap]
  exact Or.inr ⟨e, h, by simp⟩

omit [DecidableEq σ] [CommSemiring K] in
theorem mem_tpnKeys (T : FST ι σ K) (x y : List σ) (i : ι) (p q : Nat) :
    (i, p, q) ∈ tpnKeys T x y ↔ i ∈ T.states ∧ p ≤ x.length ∧ q ≤ y.length := by
  simp only [tpnKeys, List.mem_flatMap, List.mem_map, List.mem_range, Prod.mk.injEq]
  constructor
  · rintro ⟨i', hi', p', hp', q', hq', rfl, rfl, rfl⟩; exact ⟨hi', by omega, by omega⟩
  · rintro ⟨hi, hp, hq⟩; exact ⟨i, hi, p, by omega, q, by omega, rfl, rfl, rfl⟩

theorem TTab.get_map (keys : List (ι × Nat × Nat)) (g : ι → Nat → Nat → K) (i : ι) (p q : Nat)
    (h : (i, p, q) ∈ keys) :
    TTab.get (keys.map fun k => (k, g k.1 k.2.1 k.2.2)) i p q = g i p q := by
  unfold TTab.get
  induction keys with
  | nil => simp at h
  | cons k keys ih =>
    by_cases hk : k = (i, p, q)
    · subst hk; simp
    · have h' : (i, p, q) ∈ keys := by
        rcases List.mem_cons.mp h with h | h
        · exact absurd h.symm hk
        · exact h
      simp only [List.map_cons, List.find?_cons, hk, decide_false]
      exact ih h'

/-- `advance` computes the (at most one) residual of `lpeel` on a suffix of the tape -/
theorem lpeel_drop (l : Option σ) (x : List σ) (p : Nat) :
    lpeel l (x.drop p) = (advance l x p).toList.map fun p' => x.drop p' := by
  cases l with
  | none => simp [lpeel, advance]
  | some a =>
    by_cases hp : p < x.length
    · rw [List.drop_eq_getElem_cons hp]
      by_cases hab : a = x[p]
      · simp [lpeel, advance, List.getElem?_eq_getElem hp, hab]
      · simp [lpeel, advance, List.getElem?_eq_getElem hp, hab]
    · have hp' : x.length ≤ p := by omega
      rw [List.drop_eq_nil_iff.mpr hp']
      simp [lpeel, advance, List.getElem?_eq_none hp']

omit [DecidableEq ι] [CommSemiring K] in
theorem advance_le (l : Option σ) (x : List σ) (p p' : Nat) (hp : p ≤ x.length)
    (h : advance l x p = some p') : p' ≤ x.length := by
  cases l with
  | none => simp only [advance, Option.some.injEq] at h; omega
  | some a =>
    by_cases hp2 : p < x.length
    · simp only [advance, List.getElem?_eq_getElem hp2] at h
      split at h
      · simp only [Option.some.injEq] at h; omega
      · cases h
    · simp [advance, List.getElem?_eq_none (Nat.le_of_not_lt hp2)] at h

/-- the quantity tabulated at iteration `k` -/
def TBspec (T : FST ι σ K) (x y : List σ) (k : Nat) (i : ι) (p q : Nat) : K :=
  (T.stop.map fun f => Tk T k i (x.drop p) (y.drop q) f.1 * f.2).sum

theorem TBspec_zero (T : FST ι σ K) (x y : List σ) (i : ι) (p q : Nat) :
    TBspec T x y 0 i p q = tpnInitAt T x y i p q := by
  unfold TBspec tpnInitAt
  by_cases hp : x.length ≤ p ∧ y.length ≤ q
  · rw [if_pos hp, wlook_eq_sum_ite, List.drop_eq_nil_iff.mpr hp.1, List.drop_eq_nil_iff.mpr hp.2]
    apply congrArg
    apply List.map_congr_left
    intro f _
    by_cases h : f.1 = i
    · simp [Tk_zero, h]
    · have h' : ¬ i = f.1 := fun h'' => h h''.symm
      simp [Tk_zero, h, h']
  · rw [if_neg hp]
    apply sum_map_zero
    intro f _
    have : ¬ (x.drop p = [] ∧ y.drop q = []) := by
      rw [List.drop_eq_nil_iff, List.drop_eq_nil_iff]; exact hp
    have h2 : ¬ (i = f.1 ∧ x.drop p = [] ∧ y.drop q = []) := fun h => this h.2
    rw [Tk_zero, if_neg h2, zero_mul]

theorem TBspec_succ (T : FST ι σ K) (x y : List σ) (k : Nat) (i : ι) (p q : Nat) :
    TBspec T x y (k+1) i p q = tpnStepAt T x y (TBspec T x y k) i p q := by
  unfold TBspec tpnStepAt
  simp only [Tk_succ, lsum_eq_sum, ← List.sum_map_mul_right]
  rw [sum_swap]
  apply congrArg
  apply List.map_congr_left
  intro e _
  rw [lpeel_drop, lpeel_drop]
  cases advance e.inp x p with
  | none => simp
  | some p' =>
    cases advance e.out y q with
    | none => simp
    | some q' =>
      simp only [Option.toList_some, List.map_cons, List.map_nil, List.sum_cons, List.sum_nil,
        add_zero, ← List.sum_map_mul_left, mul_assoc]

theorem tpnStepAt_congr (T : FST ι σ K) (x y : List σ) (g g' : ι → Nat → Nat → K) (i : ι)
    (p q : Nat) (hp : p ≤ x.length) (hq : q ≤ y.length)
    (h : ∀ j ∈ T.states, ∀ p' ≤ x.length, ∀ q' ≤ y.length, g j p' q' = g' j p' q') :
    tpnStepAt T x y g i p q = tpnStepAt T x y g' i p q := by
  unfold tpnStepAt
  apply congrArg
  apply List.map_congr_left
  intro e he
  have hd := mem_states_dst T e (List.mem_filter.mp he).1
  cases h1 : advance e.inp x p with
  | none => rfl
  | some p' =>
    cases h2 : advance e.out y q with
    | none => rfl
    | some q' =>
      simp only [h _ hd p' (advance_le _ _ _ _ hp h1) q' (advance_le _ _ _ _ hq h2)]

/-- the invariant of the iteration -/
def TTabOk (T : FST ι σ K) (x y : List σ) (k : Nat) (t : TTab ι K) : Prop :=
  ∀ i ∈ T.states, ∀ p ≤ x.length, ∀ q ≤ y.length, t.get i p q = TBspec T x y k i p q

theorem TTabOk_init (T : FST ι σ K) (x y : List σ) :
    TTabOk T x y 0 (tpnInit T x y (tpnKeys T x y)) := by
  intro i hi p hp q hq
  rw [tpnInit, TTab.get_map _ (tpnInitAt T x y) i p q ((mem_tpnKeys T x y i p q).mpr ⟨hi, hp, hq⟩),
    TBspec_zero]

theorem TTabOk_step (T : FST ι σ K) (x y : List σ) (k : Nat) (t : TTab ι K)
    (ht : TTabOk T x y k t) : TTabOk T x y (k+1) (tpnStep T x y (tpnKeys T x y) t) := by
  intro i hi p hp q hq
  rw [tpnStep, TTab.get_map _ (tpnStepAt T x y t.get) i p q
    ((mem_tpnKeys T x y i p q).mpr ⟨hi, hp, hq⟩), TBspec_succ]
  exact tpnStepAt_congr T x y _ _ i p q hp hq ht

theorem tpnAcc_ok (T : FST ι σ K) (x y : List σ) (k : Nat) (t : TTab ι K) (ht : TTabOk T x y k t) :
    tpnAcc T t = TPk T k x y := by
  rw [tpnAcc, TPk_eq, lsum_eq_sum]
  apply congrArg
  apply List.map_congr_left
  intro s hs
  rw [ht s.1 (mem_states_start T s hs) 0 (Nat.zero_le _) 0 (Nat.zero_le _), TBspec, List.drop_zero,
    List.drop_zero, ← List.sum_map_mul_left]
  apply congrArg
  apply List.map_congr_left
  intro f _
  rw [mul_assoc]

theorem tpnLoop_ok (T : FST ι σ K) (x y : List σ) (n k : Nat) (t : TTab ι K)
    (ht : TTabOk T x y k t) :
    tpnLoop T x y (tpnKeys T x y) n t = ((List.range (n+1)).map fun j => TPk T (k+j) x y).sum := by
  induction n generalizing k t with
  | zero => simp [tpnLoop, tpnAcc_ok T x y k t ht]
  | succ n ih =>
    rw [tpnLoop, tpnAcc_ok T x y k t ht, ih (k+1) _ (TTabOk_step T x y k t ht),
      List.range_succ_eq_map (n := n+1), List.map_cons, List.sum_cons, List.map_map]
    simp only [Function.comp_def, Nat.add_zero, Nat.succ_eq_add_one]
    congr 2
    apply List.map_congr_left
    intro j _
    congr 1
    omega

end Tab
end FstAux
open FstAux

section TabSpec
variable {ι σ K : Type} [DecidableEq ι] [DecidableEq σ] [CommSemiring K]

/-- **the transducer dynamic programme computes the stratified path sum `TPN`**
(ε on either tape, ε:ε arcs and cycles allowed) -/
theorem TPNtab_spec (T : FST ι σ K) (n : Nat) (x y : List σ) : TPNtab T n x y = TPN T n x y := by
  rw [TPNtab, tpnLoop_ok T x y n 0 _ (TTabOk_init T x y), TPN_eq]
  simp

end TabSpec

/-! ### concrete transducers for the non-vacuity examples (weights in `ℕ`) -/

/-- two states; `0 -7:8/3-> 1`, an ε:ε arc closing the cycle `1 -ε:ε/5-> 0`, an input-ε loop
`0 -ε:9/2-> 0` and an output-ε arc `1 -7:ε/1-> 1` -/
def exT : FST Nat Nat Nat :=
  ⟨[(0, 1)], [(1, 2)],
   [⟨0, some 7, some 8, 1, 3⟩, ⟨1, none, none, 0, 5⟩, ⟨0, none, some 9, 0, 2⟩, ⟨1, some 7, none, 1, 1⟩]⟩

example : TPNtab exT 4 [7, 7] [8, 8] = 90 := by decide
example : TPN exT 4 [7, 7] [8, 8] = 90 :=
  TPNtab_spec exT 4 [7, 7] [8, 8] ▸ (by decide : TPNtab exT 4 [7, 7] [8, 8] = 90)
example : TPNtab exT 3 [7, 7] [9, 8] = 12 ∧ TPNtab exT 1 [7, 7] [9, 8] = 0 := by decide

/-! ### `FST.T`, `FST.diag`, `FST.from_string` -/
section Mirror
variable {ι σ K : Type} [DecidableEq ι] [DecidableEq σ] [CommSemiring K]

/-- **`T` exchanges the tapes**, path length by path length -/
theorem transpose_Tk (T : FST ι σ K) (k : Nat) (i : ι) (x y : List σ) (j : ι) :
    Tk T.transpose k i y x j = Tk T k i x y j := by
  induction k generalizing i x y with
  | zero =>
    simp only [Tk_zero]
    have : (i = j ∧ y = [] ∧ x = []) ↔ (i = j ∧ x = [] ∧ y = []) := by tauto
    simp only [this]
  | succ k ih =>
    rw [Tk_succ, Tk_succ]
    simp only [FST.transpose, List.filter_map, List.map_map, Function.comp_def]
    apply congrArg
    apply List.map_congr_left
    intro e _
    rw [sum_swap]
    apply congrArg
    apply List.map_congr_left
    intro x' _
    apply congrArg
    apply List.map_congr_left
    intro y' _
    rw [← ih]
    rfl

theorem transpose_TPk (T : FST ι σ K) (k : Nat) (x y : List σ) :
    TPk T.transpose k y x = TPk T k x y := by
  simp only [TPk_eq, transpose_Tk]
  rfl

theorem transpose_TPN (T : FST ι σ K) (n : Nat) (x y : List σ) :
    TPN T.transpose n y x = TPN T n x y := by
  simp only [TPN_eq, transpose_TPk]

omit [DecidableEq ι] [DecidableEq σ] [CommSemiring K] in
theorem transpose_transpose (T : FST ι σ K) : T.transpose.transpose = T := by
  cases T
  simp [FST.transpose, List.map_map, Function.comp_def]

end Mirror

namespace FstAux
section
variable {σ K : Type} [DecidableEq σ] [CommSemiring K]

/-- peeling the same label off both tapes preserves (and reflects) their equality -/
theorem lpeel_diag (l : Option σ) (x y : List σ) (G : List σ → K) :
    ((lpeel l x).map fun x' => ((lpeel l y).map fun y' => if x' = y' then G x' else 0).sum).sum
      = if x = y then ((lpeel l x).map G).sum else 0 := by
  cases l with
  | none => by_cases h : x = y <;> simp [lpeel, h]
  | some a =>
    cases x with
    | nil => simp [lpeel]
    | cons b x' =>
      by_cases hab : a = b
      · subst hab
        cases y with
        | nil => simp [lpeel]
        | cons d y' =>
          by_cases had : a = d
          · subst had
            by_cases h : x' = y' <;> simp [lpeel, h]
          · have : ¬ (a :: x' = d :: y') := fun h => had (List.cons.inj h).1
            simp [lpeel, had, this]
      · simp [lpeel, hab]

end
end FstAux

section Diag
variable {ι σ K : Type} [DecidableEq ι] [DecidableEq σ] [CommSemiring K]

/-- **`diag A` relates `x` to `x` only**, with the weight of `A`, path length by path length -/
theorem diag_Tk (A : WFSA ι σ K) (k : Nat) (i : ι) (x y : List σ) (j : ι) :
    Tk (FST.diag A) k i x y j = if x = y then Qk A k i x j else 0 := by
  induction k generalizing i x y with
  | zero =>
    simp only [Tk_zero, Qk_zero]
    by_cases hxy : x = y
    · subst hxy
      by_cases hij : i = j <;> by_cases hx : x = [] <;> simp [hij, hx]
    · rw [if_neg hxy, if_neg]
      rintro ⟨_, rfl, rfl⟩
      exact hxy rfl
  | succ k ih =>
    rw [Tk_succ, Qk_succ]
    simp only [FST.diag, List.filter_map, List.map_map, Function.comp_def]
    have hterm : ∀ e ∈ A.arcs.filter (fun e => e.src = i),
        ((lpeel e.lbl x).map fun x' => ((lpeel e.lbl y).map fun y' =>
            e.w * Tk (FST.diag A) k e.dst x' y' j).sum).sum
          = if x = y then ((lpeel e.lbl x).map fun x' => e.w * Qk A k e.dst x' j).sum else 0 := by
      intro e _
      rw [← lpeel_diag]
      apply congrArg
      apply List.map_congr_left
      intro x' _
      apply congrArg
      apply List.map_congr_left
      intro y' _
      rw [ih]
      split <;> simp
    have hterm' := hterm
    simp only [FST.diag] at hterm'
    rw [List.map_congr_left hterm']
    by_cases h : x = y
    · simp [h]
    · simp [h]

theorem diag_TPk (A : WFSA ι σ K) (k : Nat) (x y : List σ) :
    TPk (FST.diag A) k x y = if x = y then Pk A k x else 0 := by
  simp only [TPk_eq, Pk_eq, diag_Tk]
  by_cases h : x = y
  · simp [h, FST.diag]
  · simp [h]

theorem diag_TPN (A : WFSA ι σ K) (n : Nat) (x y : List σ) :
    TPN (FST.diag A) n x y = if x = y then PN A n x else 0 := by
  simp only [TPN_eq, PN_eq, diag_TPk]
  by_cases h : x = y
  · simp [h]
  · simp [h]

/-- **`FST.from_string s w` relates `s` to `s` only**, along `|s|` arcs, with weight `w` -/
theorem fromStringT_TPk (s : List σ) (w : K) (k : Nat) (x y : List σ) :
    TPk (FST.fromString s w) k x y = if k = s.length ∧ x = s ∧ y = s then w else 0 := by
  rw [FST.fromString, diag_TPk, fromString_spec_Pk]
  by_cases hxy : x = y
  · subst hxy
    by_cases hk : k = s.length <;> by_cases hx : x = s <;> simp [hk, hx]
  · have : ¬ (k = s.length ∧ x = s ∧ y = s) := fun h => hxy (h.2.1.trans h.2.2.symm)
    simp [hxy, this]

theorem fromStringT_spec (s : List σ) (w : K) (n : Nat) (x y : List σ) :
    TPN (FST.fromString s w) n x y = if x = s ∧ y = s ∧ s.length ≤ n then w else 0 := by
  rw [FST.fromString, diag_TPN, fromString_spec]
  by_cases hxy : x = y
  · subst hxy
    by_cases hn : s.length ≤ n <;> by_cases hx : x = s <;> simp [hn, hx]
  · have : ¬ (x = s ∧ y = s ∧ s.length ≤ n) := fun h => hxy (h.1.trans h.2.1.symm)
    simp [hxy, this]

end Diag

namespace FstAux
section Strs
variable {σ K : Type} [DecidableEq σ] [CommSemiring K]

omit [DecidableEq σ] in
theorem sum_strsLe_succ_eq (syms : List σ) (k : Nat) (F : List σ → K) :
    ((strsLe syms (k+1)).map F).sum
      = F [] + (syms.map fun a => ((strsLe syms k).map fun x => F (a :: x)).sum).sum := by
  simp only [strsLe, List.map_cons, List.sum_cons, sum_flatMap, List.map_map, Function.comp_def]

omit [DecidableEq σ] in
theorem sum_strsEq_succ_eq (syms : List σ) (k : Nat) (F : List σ → K) :
    ((strsEq syms (k+1)).map F).sum
      = (syms.map fun a => ((strsEq syms k).map fun x => F (a :: x)).sum).sum := by
  simp only [strsEq, sum_flatMap, List.map_map, Function.comp_def]

omit [DecidableEq σ] in
/-- a function vanishing on strings longer than `k` has the same sum over `strsLe (k+1)` and
`strsLe k` -/
theorem sum_strsLe_succ (syms : List σ) (k : Nat) (F : List σ → K)
    (hF : ∀ x, k < x.length → F x = 0) :
    ((strsLe syms (k+1)).map F).sum = ((strsLe syms k).map F).sum := by
  induction k generalizing F with
  | zero =>
    rw [sum_strsLe_succ_eq]
    have : (syms.map fun a => ((strsLe syms 0).map fun x => F (a :: x)).sum).sum = 0 := by
      apply sum_map_zero
      intro a _
      simp [strsLe, hF [a] (by simp)]
    rw [this]
    simp [strsLe]
  | succ k ih =>
    rw [sum_strsLe_succ_eq, sum_strsLe_succ_eq syms k]
    congr 1
    apply congrArg
    apply List.map_congr_left
    intro a _
    exact ih (fun x => F (a :: x)) (fun x hx => hF (a :: x) (by simp only [List.length_cons]; omega))

omit [DecidableEq σ] in
theorem sum_strsLe_mono (syms : List σ) (k n : Nat) (hkn : k ≤ n) (F : List σ → K)
    (hF : ∀ x, k < x.length → F x = 0) :
    ((strsLe syms n).map F).sum = ((strsLe syms k).map F).sum := by
  induction n, hkn using Nat.le_induction with
  | base => rfl
  | succ n hn ih =>
    rw [sum_strsLe_succ syms n F (fun x hx => hF x (by omega)), ih]

/-- re-indexing a sum over candidate strings along one peeled label -/
theorem sum_strsLe_lpeel (syms : List σ) (hnd : syms.Nodup) (l : Option σ)
    (hl : ∀ a, l = some a → a ∈ syms) (k : Nat) (H : List σ → K)
    (hH : ∀ x, k < x.length → H x = 0) :
    ((strsLe syms (k+1)).map fun x => ((lpeel l x).map H).sum).sum
      = ((strsLe syms k).map H).sum := by
  cases l with
  | none =>
    simp only [lpeel, List.map_cons, List.map_nil, List.sum_cons, List.sum_nil, add_zero]
    exact sum_strsLe_succ syms k H hH
  | some a =>
    rw [sum_strsLe_succ_eq]
    simp only [lpeel_some_nil, lpeel_some_cons, List.map_nil, List.sum_nil, zero_add]
    rw [sum_swap]
    apply congrArg
    apply List.map_congr_left
    intro x' _
    have h1 : ∀ b ∈ syms, ((if a = b then [x'] else []).map H).sum = if a = b then H x' else 0 := by
      intro b _; split <;> simp
    rw [List.map_congr_left h1, sum_ite_eq_nodup syms hnd a (fun _ => H x'), if_pos (hl a rfl)]

omit [CommSemiring K] in
theorem lpeel_length (l : Option σ) (x x' : List σ) (h : x' ∈ lpeel l x) :
    x.length ≤ x'.length + 1 := by
  cases l with
  | none => simp only [lpeel, List.mem_singleton] at h; subst h; omega
  | some a =>
    cases x with
    | nil => simp [lpeel] at h
    | cons b t =>
      rw [lpeel_some_cons] at h
      split at h
      · simp only [List.mem_singleton] at h; subst h; simp
      · simp at h

omit [CommSemiring K] in
theorem nodup_eraseDups' (l : List σ) : l.eraseDups.Nodup := nodup_eraseDups l

end Strs

section Bounds
variable {ι σ K : Type} [DecidableEq ι] [DecidableEq σ] [CommSemiring K]

/-- a path with `k` arcs reads at most `k` symbols -/
theorem Tk_inp_length (T : FST ι σ K) (k : Nat) (i : ι) (x y : List σ) (j : ι)
    (h : k < x.length) : Tk T k i x y j = 0 := by
  induction k generalizing i x y with
  | zero =>
    rw [Tk_zero, if_neg]
    rintro ⟨_, rfl, _⟩
    simp at h
  | succ k ih =>
    rw [Tk_succ]
    apply sum_map_zero
    intro e _
    apply sum_map_zero
    intro x' hx'
    apply sum_map_zero
    intro y' _
    have := lpeel_length _ _ _ hx'
    rw [ih e.dst x' y' (by omega), mul_zero]

/-- a path with `k` arcs writes at most `k` symbols -/
theorem Tk_out_length (T : FST ι σ K) (k : Nat) (i : ι) (x y : List σ) (j : ι)
    (h : k < y.length) : Tk T k i x y j = 0 := by
  rw [← transpose_Tk]
  exact Tk_inp_length _ k i y x j h

omit [DecidableEq ι] [CommSemiring K] in
theorem inp_mem_inSyms (T : FST ι σ K) (e : TArc ι σ K) (he : e ∈ T.arcs) (a : σ)
    (h : e.inp = some a) : a ∈ T.inSyms := by
  simp only [FST.inSyms, List.mem_eraseDups, List.mem_filterMap]
  exact ⟨e, he, h⟩

omit [DecidableEq ι] [CommSemiring K] in
theorem out_mem_outSyms (T : FST ι σ K) (e : TArc ι σ K) (he : e ∈ T.arcs) (a : σ)
    (h : e.out = some a) : a ∈ T.outSyms := by
  simp only [FST.outSyms, List.mem_eraseDups, List.mem_filterMap]
  exact ⟨e, he, h⟩

end Bounds
end FstAux

/-! ### `FST.project` -/
section Project
variable {ι σ K : Type} [DecidableEq ι] [DecidableEq σ] [CommSemiring K]

theorem project_out_Qk_exact (T : FST ι σ K) (k : Nat) (i : ι) (y : List σ) (j : ι) :
    Qk (T.project true) k i y j = ((strsLe T.inSyms k).map fun x => Tk T k i x y j).sum := by
  induction k generalizing i y with
  | zero =>
    simp only [Qk_zero, strsLe, Tk_zero, List.map_cons, List.map_nil, List.sum_cons, List.sum_nil,
      add_zero, true_and]
  | succ k ih =>
    rw [Qk_succ]
    simp only [Tk_succ]
    rw [sum_swap]
    simp only [FST.project, List.filter_map, List.map_map, Function.comp_def, if_true]
    apply congrArg
    apply List.map_congr_left
    intro e he
    have he' : e ∈ T.arcs := (List.mem_filter.mp he).1
    have h1 := sum_strsLe_lpeel T.inSyms (nodup_eraseDups _) e.inp
      (fun a ha => inp_mem_inSyms T e he' a ha) k
      (fun x' => ((lpeel e.out y).map fun y' => e.w * Tk T k e.dst x' y' j).sum)
      (fun x' hx' => by
        apply sum_map_zero
        intro y' _
        rw [Tk_inp_length T k e.dst x' y' j hx', mul_zero])
    rw [h1, sum_swap]
    apply congrArg
    apply List.map_congr_left
    intro y' _
    have h2 := ih e.dst y'
    simp only [FST.project, if_true] at h2
    rw [h2, List.sum_map_mul_left]

/-- **output projection**: the weight of `y` along `k` arcs in `T.project 1` is the sum over all
inputs `x` of the `T`-weight of `(x, y)` along `k` arcs (the candidate list is every string of
length `≤ n` over the input symbols of `T`, any `n ≥ k`) -/
theorem project_out_Qk (T : FST ι σ K) (k n : Nat) (hkn : k ≤ n) (i : ι) (y : List σ) (j : ι) :
    Qk (T.project true) k i y j = ((strsLe T.inSyms n).map fun x => Tk T k i x y j).sum := by
  rw [project_out_Qk_exact, sum_strsLe_mono T.inSyms k n hkn _
    (fun x hx => Tk_inp_length T k i x y j hx)]

omit [DecidableEq ι] [DecidableEq σ] [CommSemiring K] in
theorem project_in_eq (T : FST ι σ K) : T.project false = T.transpose.project true := by
  simp [FST.project, FST.transpose, List.map_map, Function.comp_def]

omit [DecidableEq ι] [CommSemiring K] in
theorem inSyms_transpose (T : FST ι σ K) : T.transpose.inSyms = T.outSyms := by
  simp only [FST.inSyms, FST.outSyms, FST.transpose, List.filterMap_map, Function.comp_def]

/-- **input projection** -/
theorem project_in_Qk (T : FST ι σ K) (k n : Nat) (hkn : k ≤ n) (i : ι) (x : List σ) (j : ι) :
    Qk (T.project false) k i x j = ((strsLe T.outSyms n).map fun y => Tk T k i x y j).sum := by
  rw [project_in_eq, project_out_Qk _ k n hkn, inSyms_transpose]
  simp only [transpose_Tk]

theorem project_out_Pk (T : FST ι σ K) (k n : Nat) (hkn : k ≤ n) (y : List σ) :
    Pk (T.project true) k y = ((strsLe T.inSyms n).map fun x => TPk T k x y).sum := by
  simp only [Pk_eq, TPk_eq, project_out_Qk T k n hkn]
  have : (T.project true).start = T.start ∧ (T.project true).stop = T.stop := ⟨rfl, rfl⟩
  rw [this.1, this.2]
  rw [sum_swap (strsLe T.inSyms n) T.start]
  apply congrArg
  apply List.map_congr_left
  intro s _
  rw [sum_swap (strsLe T.inSyms n) T.stop]
  apply congrArg
  apply List.map_congr_left
  intro f _
  rw [List.sum_map_mul_right, List.sum_map_mul_left]

theorem project_in_Pk (T : FST ι σ K) (k n : Nat) (hkn : k ≤ n) (x : List σ) :
    Pk (T.project false) k x = ((strsLe T.outSyms n).map fun y => TPk T k x y).sum := by
  rw [project_in_eq, project_out_Pk _ k n hkn, inSyms_transpose]
  simp only [transpose_TPk]

/-- **`project 1` sums out the input tape**, stratified (`≤ n` arcs) -/
theorem project_out_PN (T : FST ι σ K) (n : Nat) (y : List σ) :
    PN (T.project true) n y = ((strsLe T.inSyms n).map fun x => TPN T n x y).sum := by
  simp only [PN_eq, TPN_eq]
  rw [sum_swap]
  apply congrArg
  apply List.map_congr_left
  intro k hk
  exact project_out_Pk T k n (by have := List.mem_range.mp hk; omega) y

theorem project_in_PN (T : FST ι σ K) (n : Nat) (x : List σ) :
    PN (T.project false) n x = ((strsLe T.outSyms n).map fun y => TPN T n x y).sum := by
  rw [project_in_eq, project_out_PN, inSyms_transpose]
  simp only [transpose_TPN]

end Project

namespace FstAux
section Pairs
variable {σ K : Type} [DecidableEq σ] [CommSemiring K]

omit [DecidableEq σ] in
theorem zipLongest_in (xs ys : List σ) : (zipLongest xs ys).filterMap (·.1) = xs := by
  induction xs generalizing ys with
  | nil => simp [zipLongest, List.filterMap_map]
  | cons a xs ih =>
    cases ys with
    | nil => simp [zipLongest, List.filterMap_map]
    | cons b ys => simp [zipLongest, ih]

omit [DecidableEq σ] in
theorem zipLongest_out (xs ys : List σ) : (zipLongest xs ys).filterMap (·.2) = ys := by
  induction xs generalizing ys with
  | nil => simp [zipLongest, List.filterMap_map]
  | cons a xs ih =>
    cases ys with
    | nil => simp [zipLongest, List.filterMap_map]
    | cons b ys => simp [zipLongest, ih]

omit [DecidableEq σ] in
theorem zipLongest_length (xs ys : List σ) :
    (zipLongest xs ys).length = max xs.length ys.length := by
  induction xs generalizing ys with
  | nil => simp [zipLongest]
  | cons a xs ih =>
    cases ys with
    | nil => simp [zipLongest]
    | cons b ys => simp only [zipLongest, List.length_cons, ih]; omega

/-- the final link of pair `i` -/
def finArc (i j : Nat) : TArc PairState σ K := ⟨.inr (i, j), none, none, .inl 1, 1⟩
/-- the chain arc of pair `i` at position `j` -/
def chArc (i j : Nat) (l : Option σ × Option σ) : TArc PairState σ K :=
  ⟨.inr (i, j), l.1, l.2, .inr (i, j+1), 1⟩

/-- in `E`, the states `(i, j), (i, j+1), …` carry exactly the chain spelling `ls` followed by the
final link -/
def ChainAt (E : List (TArc PairState σ K)) (i : Nat) :
    Nat → List (Option σ × Option σ) → Prop
  | j, [] => E.filter (fun e => e.src = .inr (i, j)) = [finArc i j]
  | j, l :: ls => E.filter (fun e => e.src = .inr (i, j)) = [chArc i j l] ∧ ChainAt E i (j+1) ls

omit [DecidableEq σ] in
theorem ChainAt_congr (E E' : List (TArc PairState σ K)) (i j : Nat)
    (ls : List (Option σ × Option σ))
    (h : ∀ j', j ≤ j' → E.filter (fun e => e.src = .inr (i, j'))
      = E'.filter (fun e => e.src = .inr (i, j')))
    (h' : ChainAt E' i j ls) : ChainAt E i j ls := by
  induction ls generalizing j with
  | nil => simp only [ChainAt] at h' ⊢; rw [h j (Nat.le_refl _), h']
  | cons l ls ih =>
    simp only [ChainAt] at h' ⊢
    exact ⟨by rw [h j (Nat.le_refl _), h'.1], ih (j+1) (fun j' hj' => h j' (by omega)) h'.2⟩

omit [DecidableEq σ] in
theorem pairChainArcs_src (i j : Nat) (ls : List (Option σ × Option σ)) :
    ∀ e ∈ (pairChainArcs i j ls : List (TArc PairState σ K)), ∃ j', j ≤ j' ∧ e.src = .inr (i, j') := by
  induction ls generalizing j with
  | nil => simp [pairChainArcs]
  | cons l ls ih =>
    intro e he
    simp only [pairChainArcs, List.mem_cons] at he
    rcases he with rfl | he
    · exact ⟨j, Nat.le_refl _, rfl⟩
    · obtain ⟨j', hj', h⟩ := ih (j+1) e he
      exact ⟨j', by omega, h⟩

omit [DecidableEq σ] [CommSemiring K] in
theorem filter_src_nil {ι : Type} [DecidableEq ι] (E : List (TArc ι σ K)) (s : ι)
    (h : ∀ e ∈ E, e.src ≠ s) : E.filter (fun e => e.src = s) = [] := by
  rw [List.filter_eq_nil_iff]
  intro e he
  simpa using h e he

omit [DecidableEq σ] in
theorem chainAt_chain (i j : Nat) (ls : List (Option σ × Option σ)) :
    ChainAt (pairChainArcs i j ls ++ [(finArc i (j + ls.length) : TArc PairState σ K)]) i j ls := by
  induction ls generalizing j with
  | nil => simp [ChainAt, pairChainArcs, finArc]
  | cons l ls ih =>
    have hlen : j + (l :: ls).length = j + 1 + ls.length := by simp only [List.length_cons]; omega
    rw [hlen]
    have hrest : ∀ j', (pairChainArcs i (j+1) ls ++ [(finArc i (j + 1 + ls.length) : TArc PairState σ K)]).filter
        (fun e : TArc PairState σ K => e.src = Sum.inr (i, j')) = if j' = j then [] else
        (pairChainArcs i (j+1) ls ++ [(finArc i (j + 1 + ls.length) : TArc PairState σ K)]).filter
        (fun e : TArc PairState σ K => e.src = Sum.inr (i, j')) := by
      intro j'
      split
      · next hj =>
        subst hj
        apply filter_src_nil
        intro e he
        rcases List.mem_append.mp he with he | he
        · obtain ⟨j', hj', h⟩ := pairChainArcs_src i (j'+1) ls e he
          rw [h]; intro h2; injection h2 with h3; injection h3 with _ h4; omega
        · simp only [List.mem_singleton] at he; subst he
          simp only [finArc]; intro h2; injection h2 with h3; injection h3 with _ h4; omega
      · rfl
    refine ⟨?_, ?_⟩
    · simp only [pairChainArcs, List.cons_append]
      rw [List.filter_cons_of_pos (by simp), hrest j, if_pos rfl]
      rfl
    · apply ChainAt_congr _ _ i (j+1) ls _ (ih (j+1))
      intro j' hj'
      simp only [pairChainArcs, List.cons_append]
      rw [List.filter_cons_of_neg]
      simp only [decide_eq_true_eq]
      intro h2; injection h2 with h3; injection h3 with _ h4; omega

/-- summing an indicator over the residuals of one label -/
theorem sum_lpeel_ind (l : Option σ) (x t : List σ) (c : K) :
    ((lpeel l x).map fun x' => if x' = t then c else 0).sum
      = if x = l.toList ++ t then c else 0 := by
  cases l with
  | none =>
    change ((lpeel none x).map fun x' => if x' = t then c else 0).sum = if x = t then c else 0
    simp only [lpeel, List.map_cons, List.map_nil, List.sum_cons, List.sum_nil, add_zero]
  | some a =>
    cases x with
    | nil => simp [lpeel]
    | cons b x' =>
      by_cases hab : a = b
      · subst hab; simp [lpeel]
      · have : ¬ (b = a) := fun h => hab h.symm
        simp [lpeel, hab, this]

variable (M : FST PairState σ K)

/-- nothing leaves the final state -/
theorem sink_Tk (hsink : M.arcs.filter (fun e => e.src = .inl 1) = []) (k : Nat) (x y : List σ) :
    Tk M k (.inl 1) x y (.inl 1) = if k = 0 ∧ x = [] ∧ y = [] then 1 else 0 := by
  cases k with
  | zero => simp [Tk_zero]
  | succ k => rw [Tk_succ, hsink]; simp

theorem chain_Tk (hsink : M.arcs.filter (fun e => e.src = .inl 1) = []) (i j : Nat)
    (ls : List (Option σ × Option σ)) (h : ChainAt M.arcs i j ls) (k : Nat) (x y : List σ) :
    Tk M k (.inr (i, j)) x y (.inl 1)
      = if k = ls.length + 1 ∧ x = ls.filterMap (·.1) ∧ y = ls.filterMap (·.2) then 1 else 0 := by
  induction ls generalizing j k x y with
  | nil =>
    cases k with
    | zero => simp [Tk_zero]
    | succ k =>
      simp only [ChainAt] at h
      rw [Tk_succ, h]
      simp only [finArc, lpeel, List.map_cons, List.map_nil, List.sum_cons, List.sum_nil, add_zero,
        one_mul, sink_Tk M hsink, List.length_nil, List.filterMap_nil, Nat.add_eq_right]
  | cons l ls ih =>
    cases k with
    | zero => simp [Tk_zero]
    | succ k =>
      simp only [ChainAt] at h
      rw [Tk_succ, h.1]
      simp only [chArc, List.map_cons, List.map_nil, List.sum_cons, List.sum_nil, add_zero, one_mul,
        ih (j+1) h.2]
      have hin : (l :: ls).filterMap (·.1) = l.1.toList ++ ls.filterMap (·.1) := by
        cases h1 : l.1 <;> simp [h1]
      have hout : (l :: ls).filterMap (·.2) = l.2.toList ++ ls.filterMap (·.2) := by
        cases h1 : l.2 <;> simp [h1]
      rw [hin, hout]
      by_cases hk : k = ls.length + 1
      · have h1 : ∀ x' ∈ lpeel l.1 x, ((lpeel l.2 y).map fun y' =>
            if k = ls.length + 1 ∧ x' = ls.filterMap (·.1) ∧ y' = ls.filterMap (·.2) then (1:K) else 0).sum
            = if x' = ls.filterMap (·.1) then (if y = l.2.toList ++ ls.filterMap (·.2) then 1 else 0)
              else 0 := by
          intro x' _
          by_cases hx' : x' = ls.filterMap (·.1)
          · simp only [hk, hx', true_and, if_true]
            exact sum_lpeel_ind l.2 y _ 1
          · simp [hx']
        rw [List.map_congr_left h1, sum_lpeel_ind]
        by_cases hx : x = l.1.toList ++ ls.filterMap (·.1) <;>
          by_cases hy : y = l.2.toList ++ ls.filterMap (·.2) <;> simp [hk, hx, hy]
      · have hk' : ¬ (k + 1 = (l :: ls).length + 1) := by simp only [List.length_cons]; omega
        rw [if_neg (fun h => hk' h.1)]
        apply sum_map_zero
        intro x' _
        apply sum_map_zero
        intro y' _
        rw [if_neg (fun h => hk h.1)]

omit [DecidableEq σ] in
theorem pairArcs_src (i : Nat) (xs ys : List σ) :
    ∀ e ∈ (pairArcs i xs ys : List (TArc PairState σ K)),
      e.src = .inl 0 ∨ ∃ j, e.src = .inr (i, j) := by
  intro e he
  simp only [pairArcs, List.mem_cons, List.mem_append, List.not_mem_nil, or_false] at he
  rcases he with rfl | he | rfl
  · exact Or.inl rfl
  · obtain ⟨j', _, h⟩ := pairChainArcs_src i 0 _ e he
    exact Or.inr ⟨j', h⟩
  · exact Or.inr ⟨_, rfl⟩

omit [DecidableEq σ] in
theorem pairsArcs_src (i0 : Nat) (ps : List (List σ × List σ)) :
    ∀ e ∈ (pairsArcs i0 ps : List (TArc PairState σ K)),
      e.src = .inl 0 ∨ ∃ i j, i0 ≤ i ∧ e.src = .inr (i, j) := by
  induction ps generalizing i0 with
  | nil => simp [pairsArcs]
  | cons p ps ih =>
    intro e he
    simp only [pairsArcs, List.mem_append] at he
    rcases he with he | he
    · rcases pairArcs_src i0 p.1 p.2 e he with h | ⟨j, h⟩
      · exact Or.inl h
      · exact Or.inr ⟨i0, j, Nat.le_refl _, h⟩
    · rcases ih (i0+1) e he with h | ⟨i, j, hi, h⟩
      · exact Or.inl h
      · exact Or.inr ⟨i, j, by omega, h⟩

/-- contribution of the arcs `E` to the paths leaving the initial state -/
def topSum (k : Nat) (x y : List σ) (E : List (TArc PairState σ K)) : K :=
  ((E.filter (fun e => e.src = .inl 0)).map fun e =>
    ((lpeel e.inp x).map fun x' =>
      ((lpeel e.out y).map fun y' => e.w * Tk M k e.dst x' y' (.inl 1)).sum).sum).sum

theorem topSum_append (k : Nat) (x y : List σ) (E E' : List (TArc PairState σ K)) :
    topSum M k x y (E ++ E') = topSum M k x y E + topSum M k x y E' := by
  simp only [topSum, List.filter_append, List.map_append, List.sum_append]

theorem topSum_pairs (hsink : M.arcs.filter (fun e => e.src = .inl 1) = []) (k : Nat) (x y : List σ)
    (ps : List (List σ × List σ)) (i0 : Nat) (pre : List (TArc PairState σ K))
    (hpre : ∀ e ∈ pre, e.src = .inl 0 ∨ ∃ i j, i < i0 ∧ e.src = .inr (i, j))
    (hM : M.arcs = pre ++ pairsArcs i0 ps) :
    topSum M k x y (pairsArcs i0 ps)
      = (ps.map fun p => if k = max p.1.length p.2.length + 1 ∧ x = p.1 ∧ y = p.2
          then (1 : K) else 0).sum := by
  induction ps generalizing i0 pre with
  | nil => simp [topSum, pairsArcs]
  | cons p ps ih =>
    simp only [pairsArcs, topSum_append, List.map_cons, List.sum_cons]
    have hM' : M.arcs = (pre ++ pairArcs i0 p.1 p.2) ++ pairsArcs (i0+1) ps := by
      rw [hM]; simp [pairsArcs]
    have hpre' : ∀ e ∈ pre ++ pairArcs i0 p.1 p.2,
        e.src = .inl 0 ∨ ∃ i j, i < i0 + 1 ∧ e.src = .inr (i, j) := by
      intro e he
      rcases List.mem_append.mp he with he | he
      · rcases hpre e he with h | ⟨i, j, hi, h⟩
        · exact Or.inl h
        · exact Or.inr ⟨i, j, by omega, h⟩
      · rcases pairArcs_src i0 p.1 p.2 e he with h | ⟨j, h⟩
        · exact Or.inl h
        · exact Or.inr ⟨i0, j, by omega, h⟩
    rw [ih (i0+1) _ hpre' hM']
    congr 1
    -- the block of pair `i0`
    have hchain : ChainAt M.arcs i0 0 (zipLongest p.1 p.2) := by
      apply ChainAt_congr _ _ i0 0 _ _ (chainAt_chain i0 0 (zipLongest p.1 p.2))
      intro j' _
      rw [hM']
      simp only [pairArcs, List.filter_append, List.filter_cons, zipLongest_length, Nat.zero_add]
      have h1 : pre.filter (fun e => e.src = .inr (i0, j')) = [] := by
        apply filter_src_nil
        intro e he
        rcases hpre e he with h | ⟨i, j, hi, h⟩
        · rw [h]; intro h2; cases h2
        · rw [h]; intro h2; injection h2 with h3; injection h3 with h4 _; omega
      have h2 : (pairsArcs (i0+1) ps : List (TArc PairState σ K)).filter
          (fun e => e.src = .inr (i0, j')) = [] := by
        apply filter_src_nil
        intro e he
        rcases pairsArcs_src (i0+1) ps e he with h | ⟨i, j, hi, h⟩
        · rw [h]; intro h2; cases h2
        · rw [h]; intro h2; injection h2 with h3; injection h3 with h4 _; omega
      rw [h1, h2]
      simp [finArc]
    have hlink : topSum M k x y (pairArcs i0 p.1 p.2)
        = Tk M k (.inr (i0, 0)) x y (.inl 1) := by
      simp only [topSum, pairArcs]
      rw [List.filter_cons_of_pos (by simp)]
      have : (pairChainArcs i0 0 (zipLongest p.1 p.2) ++
          [(⟨.inr (i0, max p.1.length p.2.length), none, none, .inl 1, 1⟩ : TArc PairState σ K)]).filter
          (fun e : TArc PairState σ K => e.src = Sum.inl 0) = [] := by
        apply filter_src_nil
        intro e he
        rcases List.mem_append.mp he with he | he
        · obtain ⟨j', _, h⟩ := pairChainArcs_src i0 0 _ e he
          rw [h]; intro h2; cases h2
        · simp only [List.mem_singleton] at he; subst he
          intro h2; cases h2
      rw [this]
      simp [lpeel]
    rw [hlink, chain_Tk M hsink i0 0 _ hchain, zipLongest_length, zipLongest_in, zipLongest_out]

end Pairs
end FstAux

/-! ### `FST.from_pairs` -/
section FromPairs
variable {σ K : Type} [DecidableEq σ] [CommSemiring K]

/-- every accepting path of `from_pairs ps` for `(x, y)` has `max |x| |y| + 2` arcs, and there is
one of weight `1` per occurrence of `(x, y)` in `ps` -/
theorem fromPairs_TPk (ps : List (List σ × List σ)) (k : Nat) (x y : List σ) :
    TPk (FST.fromPairs ps : FST PairState σ K) k x y
      = (ps.map fun p => if k = max p.1.length p.2.length + 2 ∧ x = p.1 ∧ y = p.2
          then (1 : K) else 0).sum := by
  have hsink : (FST.fromPairs ps : FST PairState σ K).arcs.filter (fun e => e.src = .inl 1) = [] := by
    apply filter_src_nil
    intro e he
    rcases pairsArcs_src 0 ps e he with h | ⟨i, j, _, h⟩
    · rw [h]; intro h2; injection h2 with h3; cases h3
    · rw [h]; intro h2; cases h2
  have h0 : TPk (FST.fromPairs ps : FST PairState σ K) k x y
      = Tk (FST.fromPairs ps : FST PairState σ K) k (.inl 0) x y (.inl 1) := by
    simp [TPk_eq, FST.fromPairs]
  rw [h0]
  cases k with
  | zero =>
    rw [Tk_zero, if_neg (by rintro ⟨h, _⟩; injection h with h'; cases h')]
    symm
    apply sum_map_zero
    intro p _
    rw [if_neg]; rintro ⟨h, _⟩; omega
  | succ k =>
    have := topSum_pairs (FST.fromPairs ps : FST PairState σ K) hsink k x y ps 0 []
      (by simp) (by simp [FST.fromPairs])
    rw [Tk_succ]
    simp only [topSum] at this
    have harcs : (FST.fromPairs ps : FST PairState σ K).arcs = pairsArcs 0 ps := rfl
    rw [harcs, this]
    apply congrArg
    apply List.map_congr_left
    intro p _
    have : (k = max p.1.length p.2.length + 1) ↔ (k + 1 = max p.1.length p.2.length + 2) := by omega
    simp only [this]

/-- **`from_pairs_spec`**: at the exact path length `max |x| |y| + 2` the weight of `(x, y)` is the
number of occurrences of `(x, y)` in `ps` (a sum of ones) -/
theorem fromPairs_spec (ps : List (List σ × List σ)) (x y : List σ) :
    TPk (FST.fromPairs ps : FST PairState σ K) (max x.length y.length + 2) x y
      = (ps.map fun p => if p = (x, y) then (1 : K) else 0).sum := by
  rw [fromPairs_TPk]
  apply congrArg
  apply List.map_congr_left
  intro p _
  by_cases hp : p = (x, y)
  · subst hp; simp
  · rw [if_neg hp, if_neg]
    rintro ⟨_, h1, h2⟩
    exact hp (by rw [h1, h2])

/-- no accepting path for `(x, y)` has another length -/
theorem fromPairs_TPk_ne (ps : List (List σ × List σ)) (k : Nat) (x y : List σ)
    (hk : k ≠ max x.length y.length + 2) :
    TPk (FST.fromPairs ps : FST PairState σ K) k x y = 0 := by
  rw [fromPairs_TPk]
  apply sum_map_zero
  intro p _
  rw [if_neg]
  rintro ⟨h, h1, h2⟩
  subst h1 h2
  exact hk h

theorem fromPairs_TPN (ps : List (List σ × List σ)) (n : Nat) (x y : List σ) :
    TPN (FST.fromPairs ps : FST PairState σ K) n x y
      = if max x.length y.length + 2 ≤ n
        then (ps.map fun p => if p = (x, y) then (1 : K) else 0).sum else 0 := by
  by_cases hn : max x.length y.length + 2 ≤ n
  · rw [if_pos hn, TPN_eq_single _ n _ x y hn (fun k hk => fromPairs_TPk_ne ps k x y hk),
      fromPairs_spec]
  · rw [if_neg hn, TPN_eq]
    apply sum_map_zero
    intro k hk
    apply fromPairs_TPk_ne
    have := List.mem_range.mp hk
    omega

theorem sum_ind_eq_count {α : Type} [DecidableEq α] (l : List α) (a : α) :
    (l.map fun p => if p = a then (1 : K) else 0).sum = (l.count a : K) := by
  induction l with
  | nil => simp
  | cons b l ih =>
    rw [List.map_cons, List.sum_cons, ih, List.count_cons]
    by_cases h : b = a <;> simp [h, add_comm]

end FromPairs

namespace FstAux
section
variable {σ K : Type} [DecidableEq σ] [CommSemiring K]

omit [DecidableEq σ] in
theorem sum_mul_sum {α β : Type} (l : List α) (m : List β) (f : α → K) (g : β → K) :
    (l.map f).sum * (m.map g).sum = (l.map fun a => (m.map fun b => f a * g b).sum).sum := by
  rw [← List.sum_map_mul_right]
  apply congrArg
  apply List.map_congr_left
  intro a _
  rw [List.sum_map_mul_left]

omit [DecidableEq σ] [CommSemiring K] in
theorem strsEq_length (syms : List σ) (k : Nat) : ∀ y ∈ strsEq syms k, y.length = k := by
  induction k with
  | zero => simp [strsEq]
  | succ k ih =>
    intro y hy
    simp only [strsEq, List.mem_flatMap, List.mem_map] at hy
    obtain ⟨a, _, y', hy', rfl⟩ := hy
    simp [ih y' hy']

omit [DecidableEq σ] [CommSemiring K] in
theorem strsLe_length (syms : List σ) (k : Nat) : ∀ y ∈ strsLe syms k, y.length ≤ k := by
  induction k with
  | zero => simp [strsLe]
  | succ k ih =>
    intro y hy
    simp only [strsLe, List.mem_cons, List.mem_flatMap, List.mem_map] at hy
    rcases hy with rfl | ⟨a, _, y', hy', rfl⟩
    · simp
    · have := ih y' hy'; simp; omega

omit [DecidableEq σ] in
/-- strings of length `≤ n` = strings of length `0`, `1`, …, `n` -/
theorem sum_strsLe_eq_range (syms : List σ) (n : Nat) (F : List σ → K) :
    ((strsLe syms n).map F).sum
      = ((List.range (n+1)).map fun k => ((strsEq syms k).map F).sum).sum := by
  induction n generalizing F with
  | zero => simp [strsLe, strsEq]
  | succ n ih =>
    rw [sum_strsLe_succ_eq, List.range_succ_eq_map (n := n+1), List.map_cons, List.sum_cons,
      List.map_map]
    congr 1
    · simp [strsEq]
    · simp only [Function.comp_def, Nat.succ_eq_add_one, sum_strsEq_succ_eq]
      have : ∀ a ∈ syms, ((strsLe syms n).map fun x => F (a :: x)).sum
          = ((List.range (n+1)).map fun k => ((strsEq syms k).map fun x => F (a :: x)).sum).sum :=
        fun a _ => ih (fun x => F (a :: x))
      rw [List.map_congr_left this, sum_swap]

end

section
variable {ι σ K : Type} [DecidableEq ι] [DecidableEq σ] [CommSemiring K]

/-- first-arc decomposition when the output is `a :: y'` with `|y'| = k`: only arcs writing `a` -/
theorem Tk_succ_out_full (T : FST ι σ K) (k : Nat) (p : ι) (x : List σ) (a : σ) (y' : List σ)
    (p' : ι) (hy : y'.length = k) :
    Tk T (k+1) p x (a :: y') p' = (T.arcs.map fun e =>
      if e.src = p ∧ e.out = some a then
        ((lpeel e.inp x).map fun x' => e.w * Tk T k e.dst x' y' p').sum else 0).sum := by
  rw [Tk_succ, sum_filter_ite]
  apply congrArg
  apply List.map_congr_left
  intro e _
  by_cases hs : e.src = p
  · simp only [hs, decide_true, if_true, true_and]
    cases ho : e.out with
    | none =>
      rw [if_neg (by simp)]
      apply sum_map_zero
      intro x' _
      simp only [lpeel, List.map_cons, List.map_nil, List.sum_cons, List.sum_nil, add_zero]
      rw [Tk_out_length T k e.dst x' (a :: y') p' (by simp [hy]), mul_zero]
    | some b =>
      by_cases hb : b = a
      · subst hb
        simp [lpeel]
      · have : ¬ (some b = some a) := fun h => hb (Option.some.inj h)
        simp [lpeel, hb, this]
  · simp [hs]

/-- the same on the input tape -/
theorem Tk_succ_inp_full (T : FST ι σ K) (k : Nat) (q : ι) (a : σ) (y' : List σ) (z : List σ)
    (q' : ι) (hy : y'.length = k) :
    Tk T (k+1) q (a :: y') z q' = (T.arcs.map fun e =>
      if e.src = q ∧ e.inp = some a then
        ((lpeel e.out z).map fun z' => e.w * Tk T k e.dst y' z' q').sum else 0).sum := by
  rw [← transpose_Tk, Tk_succ_out_full T.transpose k q z a y' q' hy]
  have harcs : T.transpose.arcs = T.arcs.map fun e => ⟨e.src, e.out, e.inp, e.dst, e.w⟩ := rfl
  rw [harcs, List.map_map]
  apply congrArg
  apply List.map_congr_left
  intro e _
  simp only [Function.comp_def, transpose_Tk]

end
end FstAux

/-! ### the product construction `composeRaw` -/
section Compose
variable {ι κ σ K : Type} [DecidableEq ι] [DecidableEq κ] [DecidableEq σ] [CommSemiring K]

/-- **product paths = pairs of matching paths**: a path with `k` arcs in the product machine
corresponds to exactly one pair of `k`-arc paths of `T1` and `T2` agreeing on a middle string `y`
of length `k` (every arc of the product consumes one middle symbol).  `syms` is any
duplicate-free list containing the output symbols of `T1`. -/
theorem composeRaw_Tk (T1 : FST ι σ K) (T2 : FST κ σ K) (syms : List σ) (hnd : syms.Nodup)
    (hs : ∀ e ∈ T1.arcs, ∀ b, e.out = some b → b ∈ syms)
    (k : Nat) (p : ι) (q : κ) (x z : List σ) (p' : ι) (q' : κ) :
    Tk (T1.composeRaw T2) k (p, q) x z (p', q')
      = ((strsEq syms k).map fun y => Tk T1 k p x y p' * Tk T2 k q y z q').sum := by
  induction k generalizing p q x z with
  | zero =>
    simp only [Tk_zero, strsEq, List.map_cons, List.map_nil, List.sum_cons, List.sum_nil, add_zero,
      Prod.mk.injEq, and_true, true_and]
    by_cases hp : p = p' <;> by_cases hq : q = q' <;> by_cases hx : x = [] <;>
      by_cases hz : z = [] <;> simp [hp, hq, hx, hz]
  | succ k ih =>
    -- both sides equal `Σ_{e1} Σ_{e2} [match ∧ sources] Σ_{y'} U1 e1 y' * U2 e2 y'`
    have hL : Tk (T1.composeRaw T2) (k+1) (p, q) x z (p', q')
        = (T1.arcs.map fun e1 => (T2.arcs.map fun e2 =>
            if (e1.out.isSome ∧ e2.inp = e1.out) ∧ (e1.src = p ∧ e2.src = q) then
              ((strsEq syms k).map fun y' =>
                ((lpeel e1.inp x).map fun x' => e1.w * Tk T1 k e1.dst x' y' p').sum *
                ((lpeel e2.out z).map fun z' => e2.w * Tk T2 k e2.dst y' z' q').sum).sum
            else 0).sum).sum := by
      have harcs : (T1.composeRaw T2).arcs = T1.arcs.flatMap fun e1 =>
          (T2.arcs.filter fun e2 => e1.out.isSome ∧ e2.inp = e1.out).map fun e2 =>
            ⟨(e1.src, e2.src), e1.inp, e2.out, (e1.dst, e2.dst), e1.w * e2.w⟩ := rfl
      rw [Tk_succ, sum_filter_ite, harcs, sum_flatMap]
      simp only [List.map_map, Function.comp_def]
      apply congrArg
      apply List.map_congr_left
      intro e1 _
      rw [sum_filter_ite]
      apply congrArg
      apply List.map_congr_left
      intro e2 _
      by_cases hm : (e1.out.isSome ∧ e2.inp = e1.out)
      · by_cases hsrc : e1.src = p ∧ e2.src = q
        · have hd : decide ((e1.src, e2.src) = (p, q)) = true := by
            simp [hsrc.1, hsrc.2]
          have hm' : decide (e1.out.isSome = true ∧ e2.inp = e1.out) = true := by simpa using hm
          rw [if_pos hm', if_pos hd, if_pos ⟨hm, hsrc⟩]
          simp only [ih]
          -- rearrange the sums
          have : ∀ y' ∈ strsEq syms k,
              ((lpeel e1.inp x).map fun x' => e1.w * Tk T1 k e1.dst x' y' p').sum *
              ((lpeel e2.out z).map fun z' => e2.w * Tk T2 k e2.dst y' z' q').sum
              = ((lpeel e1.inp x).map fun x' => ((lpeel e2.out z).map fun z' =>
                  e1.w * e2.w * (Tk T1 k e1.dst x' y' p' * Tk T2 k e2.dst y' z' q')).sum).sum := by
            intro y' _
            rw [sum_mul_sum]
            apply congrArg
            apply List.map_congr_left
            intro x' _
            apply congrArg
            apply List.map_congr_left
            intro z' _
            ring
          rw [List.map_congr_left this, sum_swap (strsEq syms k) (lpeel e1.inp x)]
          apply congrArg
          apply List.map_congr_left
          intro x' _
          rw [sum_swap (strsEq syms k) (lpeel e2.out z)]
          apply congrArg
          apply List.map_congr_left
          intro z' _
          rw [List.sum_map_mul_left]
        · have hd : decide ((e1.src, e2.src) = (p, q)) = false := by
            simp only [decide_eq_false_iff_not, Prod.mk.injEq]; exact hsrc
          have hm' : decide (e1.out.isSome = true ∧ e2.inp = e1.out) = true := by simpa using hm
          rw [if_pos hm', hd, if_neg Bool.false_ne_true, if_neg (fun h => hsrc h.2)]
      · have hm' : decide (e1.out.isSome = true ∧ e2.inp = e1.out) = false := by
          simpa using hm
        rw [hm', if_neg Bool.false_ne_true, if_neg (fun h => hm h.1)]
    rw [hL, sum_strsEq_succ_eq]
    -- the right-hand side
    have hR : ∀ a ∈ syms, ((strsEq syms k).map fun y' =>
          Tk T1 (k+1) p x (a :: y') p' * Tk T2 (k+1) q (a :: y') z q').sum
        = (T1.arcs.map fun e1 => (T2.arcs.map fun e2 =>
            if (e1.src = p ∧ e1.out = some a) ∧ (e2.src = q ∧ e2.inp = some a) then
              ((strsEq syms k).map fun y' =>
                ((lpeel e1.inp x).map fun x' => e1.w * Tk T1 k e1.dst x' y' p').sum *
                ((lpeel e2.out z).map fun z' => e2.w * Tk T2 k e2.dst y' z' q').sum).sum
            else 0).sum).sum := by
      intro a _
      have h1 : ∀ y' ∈ strsEq syms k,
          Tk T1 (k+1) p x (a :: y') p' * Tk T2 (k+1) q (a :: y') z q'
          = (T1.arcs.map fun e1 => (T2.arcs.map fun e2 =>
              if (e1.src = p ∧ e1.out = some a) ∧ (e2.src = q ∧ e2.inp = some a) then
                ((lpeel e1.inp x).map fun x' => e1.w * Tk T1 k e1.dst x' y' p').sum *
                ((lpeel e2.out z).map fun z' => e2.w * Tk T2 k e2.dst y' z' q').sum
              else 0).sum).sum := by
        intro y' hy'
        have hlen := strsEq_length syms k y' hy'
        rw [Tk_succ_out_full T1 k p x a y' p' hlen, Tk_succ_inp_full T2 k q a y' z q' hlen,
          sum_mul_sum]
        apply congrArg
        apply List.map_congr_left
        intro e1 _
        apply congrArg
        apply List.map_congr_left
        intro e2 _
        by_cases c1 : e1.src = p ∧ e1.out = some a <;> by_cases c2 : e2.src = q ∧ e2.inp = some a <;>
          simp [c1, c2]
      rw [List.map_congr_left h1, sum_swap (strsEq syms k) T1.arcs]
      apply congrArg
      apply List.map_congr_left
      intro e1 _
      rw [sum_swap (strsEq syms k) T2.arcs]
      apply congrArg
      apply List.map_congr_left
      intro e2 _
      split
      · rfl
      · simp
    rw [List.map_congr_left hR, sum_swap syms T1.arcs]
    apply congrArg
    apply List.map_congr_left
    intro e1 he1
    rw [sum_swap syms T2.arcs]
    apply congrArg
    apply List.map_congr_left
    intro e2 _
    -- `Σ_{a ∈ syms} [e1.out = some a ∧ e2.inp = some a] = [e1.out ≠ ε ∧ e2.inp = e1.out]`
    cases ho : e1.out with
    | none =>
      rw [if_neg (by simp)]
      symm
      apply sum_map_zero
      intro a _
      rw [if_neg (by simp)]
    | some b =>
      have hb : b ∈ syms := hs e1 he1 b ho
      have h2 : ∀ a ∈ syms,
          (if (e1.src = p ∧ some b = some a) ∧ (e2.src = q ∧ e2.inp = some a) then
            ((strsEq syms k).map fun y' =>
              ((lpeel e1.inp x).map fun x' => e1.w * Tk T1 k e1.dst x' y' p').sum *
              ((lpeel e2.out z).map fun z' => e2.w * Tk T2 k e2.dst y' z' q').sum).sum else 0)
          = if b = a then
              (if (e1.src = p ∧ e2.src = q) ∧ e2.inp = some a then
                ((strsEq syms k).map fun y' =>
                  ((lpeel e1.inp x).map fun x' => e1.w * Tk T1 k e1.dst x' y' p').sum *
                  ((lpeel e2.out z).map fun z' => e2.w * Tk T2 k e2.dst y' z' q').sum).sum else 0)
            else 0 := by
        intro a _
        by_cases hba : b = a
        · subst hba
          simp only [and_true, if_true]
          by_cases c : (e1.src = p ∧ e2.src = q) ∧ e2.inp = some b
          · rw [if_pos c, if_pos ⟨c.1.1, c.1.2, c.2⟩]
          · rw [if_neg c, if_neg (fun h => c ⟨⟨h.1, h.2.1⟩, h.2.2⟩)]
        · have : ¬ (some b = some a) := fun h => hba (Option.some.inj h)
          rw [if_neg hba, if_neg (fun h => this h.1.2)]
      rw [List.map_congr_left h2, sum_ite_eq_nodup syms hnd b, if_pos hb]
      by_cases c : (e1.src = p ∧ e2.src = q) ∧ e2.inp = some b
      · rw [if_pos c, if_pos ⟨⟨rfl, c.2⟩, c.1⟩]
      · rw [if_neg c, if_neg (fun h => c ⟨h.2, h.1.2⟩)]

end Compose

namespace FstAux
section
variable {K : Type} [CommSemiring K]

theorem sum_mul_sum4 {α β γ δ : Type} (l1 : List α) (m1 : List β) (l2 : List γ) (m2 : List δ)
    (F : α → β → K) (G : γ → δ → K) :
    (l1.map fun a => (m1.map fun b => F a b).sum).sum * (l2.map fun c => (m2.map fun d => G c d).sum).sum
      = (l1.map fun a => (l2.map fun c => (m1.map fun b => (m2.map fun d =>
          F a b * G c d).sum).sum).sum).sum := by
  rw [sum_mul_sum]
  apply congrArg
  apply List.map_congr_left
  intro a _
  apply congrArg
  apply List.map_congr_left
  intro c _
  rw [sum_mul_sum]

end

section
variable {ι σ K : Type} [DecidableEq ι] [DecidableEq σ] [CommSemiring K]

/-- in a transducer without output-ε arcs a path with `k` arcs writes exactly `k` symbols -/
theorem Tk_out_length_eq (T : FST ι σ K) (h : ∀ e ∈ T.arcs, e.out ≠ none) (k : Nat) (i : ι)
    (x y : List σ) (j : ι) (hy : y.length ≠ k) : Tk T k i x y j = 0 := by
  induction k generalizing i x y with
  | zero =>
    rw [Tk_zero, if_neg]
    rintro ⟨_, _, rfl⟩
    simp at hy
  | succ k ih =>
    rw [Tk_succ]
    apply sum_map_zero
    intro e he
    apply sum_map_zero
    intro x' _
    apply sum_map_zero
    intro y' hy'
    have ho := h e (List.mem_filter.mp he).1
    cases hout : e.out with
    | none => exact absurd hout ho
    | some c =>
      rw [hout] at hy'
      cases y with
      | nil => simp [lpeel] at hy'
      | cons d t =>
        rw [lpeel_some_cons] at hy'
        split at hy'
        · simp only [List.mem_singleton] at hy'
          subst hy'
          rw [ih e.dst x' y' (by simpa using hy), mul_zero]
        · simp at hy'

/-- in a transducer without input-ε arcs a path with `k` arcs reads exactly `k` symbols -/
theorem Tk_inp_length_eq (T : FST ι σ K) (h : ∀ e ∈ T.arcs, e.inp ≠ none) (k : Nat) (i : ι)
    (x y : List σ) (j : ι) (hx : x.length ≠ k) : Tk T k i x y j = 0 := by
  rw [← transpose_Tk]
  apply Tk_out_length_eq T.transpose _ k i y x j hx
  intro e he
  simp only [FST.transpose, List.mem_map] at he
  obtain ⟨e0, he0, rfl⟩ := he
  exact h e0 he0

theorem TPk_out_length_eq (T : FST ι σ K) (h : ∀ e ∈ T.arcs, e.out ≠ none) (k : Nat)
    (x y : List σ) (hy : k ≠ y.length) : TPk T k x y = 0 := by
  rw [TPk_eq]
  apply sum_map_zero
  intro s _
  apply sum_map_zero
  intro f _
  rw [Tk_out_length_eq T h k s.1 x y f.1 (fun h' => hy h'.symm), mul_zero, zero_mul]

theorem TPk_inp_length_eq (T : FST ι σ K) (h : ∀ e ∈ T.arcs, e.inp ≠ none) (k : Nat)
    (x y : List σ) (hx : k ≠ x.length) : TPk T k x y = 0 := by
  rw [TPk_eq]
  apply sum_map_zero
  intro s _
  apply sum_map_zero
  intro f _
  rw [Tk_inp_length_eq T h k s.1 x y f.1 (fun h' => hx h'.symm), mul_zero, zero_mul]

end
end FstAux

section ComposeP
variable {ι κ σ K : Type} [DecidableEq ι] [DecidableEq κ] [DecidableEq σ] [CommSemiring K]

/-- accepting paths of the product, path length by path length (no hypothesis on ε) -/
theorem composeRaw_TPk (T1 : FST ι σ K) (T2 : FST κ σ K) (syms : List σ) (hnd : syms.Nodup)
    (hs : ∀ e ∈ T1.arcs, ∀ b, e.out = some b → b ∈ syms) (k : Nat) (x z : List σ) :
    TPk (T1.composeRaw T2) k x z
      = ((strsEq syms k).map fun y => TPk T1 k x y * TPk T2 k y z).sum := by
  have hstart : (T1.composeRaw T2).start
      = T1.start.flatMap fun s1 => T2.start.map fun s2 => ((s1.1, s2.1), s1.2 * s2.2) := rfl
  have hstop : (T1.composeRaw T2).stop
      = T1.stop.flatMap fun f1 => T2.stop.map fun f2 => ((f1.1, f2.1), f1.2 * f2.2) := rfl
  simp only [TPk_eq]
  rw [hstart, hstop, sum_flatMap]
  simp only [List.map_map, Function.comp_def, sum_flatMap, composeRaw_Tk T1 T2 syms hnd hs,
    sum_mul_sum4]
  rw [sum_swap (strsEq syms k) T1.start]
  apply congrArg
  apply List.map_congr_left
  intro s1 _
  rw [sum_swap (strsEq syms k) T2.start]
  apply congrArg
  apply List.map_congr_left
  intro s2 _
  rw [sum_swap (strsEq syms k) T1.stop]
  apply congrArg
  apply List.map_congr_left
  intro f1 _
  rw [sum_swap (strsEq syms k) T2.stop]
  apply congrArg
  apply List.map_congr_left
  intro f2 _
  rw [← List.sum_map_mul_left, ← List.sum_map_mul_right]
  apply congrArg
  apply List.map_congr_left
  intro y _
  ring

/-- **composition without ε on the middle tape**: if no arc of `T1` writes ε and no arc of `T2`
reads ε, the product machine computes `(T1 ∘ T2)(x, z) = Σ_y T1(x, y) · T2(y, z)`, stratified by
the number of arcs (`y` ranges over the strings of length `≤ n` over `syms ⊇` output symbols of
`T1`) -/
theorem composeRaw_TPN (T1 : FST ι σ K) (T2 : FST κ σ K)
    (h1 : ∀ e ∈ T1.arcs, e.out ≠ none) (h2 : ∀ e ∈ T2.arcs, e.inp ≠ none)
    (syms : List σ) (hnd : syms.Nodup) (hs : ∀ e ∈ T1.arcs, ∀ b, e.out = some b → b ∈ syms)
    (n : Nat) (x z : List σ) :
    TPN (T1.composeRaw T2) n x z
      = ((strsLe syms n).map fun y => TPN T1 n x y * TPN T2 n y z).sum := by
  have hy : ∀ y ∈ strsLe syms n, TPN T1 n x y * TPN T2 n y z
      = TPk T1 y.length x y * TPk T2 y.length y z := by
    intro y hy
    have hlen := strsLe_length syms n y hy
    rw [TPN_eq_single T1 n y.length x y hlen (fun k hk => TPk_out_length_eq T1 h1 k x y hk),
      TPN_eq_single T2 n y.length y z hlen (fun k hk => TPk_inp_length_eq T2 h2 k y z hk)]
  rw [List.map_congr_left hy, sum_strsLe_eq_range, TPN_eq]
  apply congrArg
  apply List.map_congr_left
  intro k _
  rw [composeRaw_TPk T1 T2 syms hnd hs]
  apply congrArg
  apply List.map_congr_left
  intro y hy
  rw [strsEq_length syms k y hy]

/-- the same with the canonical candidate list (output symbols of `T1`) -/
theorem composeRaw_TPN' (T1 : FST ι σ K) (T2 : FST κ σ K)
    (h1 : ∀ e ∈ T1.arcs, e.out ≠ none) (h2 : ∀ e ∈ T2.arcs, e.inp ≠ none)
    (n : Nat) (x z : List σ) :
    TPN (T1.composeRaw T2) n x z
      = ((strsLe T1.outSyms n).map fun y => TPN T1 n x y * TPN T2 n y z).sum :=
  composeRaw_TPN T1 T2 h1 h2 T1.outSyms (nodup_eraseDups _)
    (fun e he b hb => out_mem_outSyms T1 e he b hb) n x z

end ComposeP

namespace FstAux
section
variable {σ K : Type} [DecidableEq σ] [CommSemiring K]

theorem sum_filterMap {α β : Type} (l : List α) (f : α → Option β) (g : β → K) :
    ((l.filterMap f).map g).sum
      = (l.map fun a => match f a with | some b => g b | none => 0).sum := by
  induction l with
  | nil => rfl
  | cons a l ih =>
    rw [List.filterMap_cons]
    cases h : f a with
    | none => simp [h, ih]
    | some b => simp [h, ih]

omit [CommSemiring K] [DecidableEq σ] in
theorem sym_injective : Function.Injective (ESym.sym : σ → ESym σ) := by
  intro a b h; injection h

omit [CommSemiring K] in
/-- peeling a lifted label off a lifted string -/
theorem lpeel_lift (l : Option σ) (x : List σ) :
    lpeel (ESym.lift l) (x.map ESym.sym) = (lpeel l x).map fun x' => x'.map ESym.sym := by
  cases l with
  | none => simp [lpeel, ESym.lift]
  | some a =>
    cases x with
    | nil => simp [lpeel, ESym.lift]
    | cons b t =>
      by_cases hab : a = b
      · subst hab; simp [lpeel, ESym.lift]
      · have : ¬ (ESym.sym a = ESym.sym b) := fun h => hab (sym_injective h)
        simp [lpeel, ESym.lift, hab, this]

omit [CommSemiring K] in
theorem lpeel_sym (a : σ) (x : List σ) :
    lpeel (some (ESym.sym a)) (x.map ESym.sym) = (lpeel (some a) x).map fun x' => x'.map ESym.sym :=
  lpeel_lift (some a) x

omit [CommSemiring K] in
theorem lpeel_none' {τ : Type} [DecidableEq τ] (x : List τ) : lpeel (none : Option τ) x = [x] := rfl

omit [CommSemiring K] in
theorem lpeel_e1 (x : List σ) : lpeel (some ESym.e1) (x.map ESym.sym) = [] := by
  cases x with
  | nil => rfl
  | cons b t => simp [lpeel]

omit [CommSemiring K] in
theorem lpeel_e2 (x : List σ) : lpeel (some ESym.e2) (x.map ESym.sym) = [] := by
  cases x with
  | nil => rfl
  | cons b t => simp [lpeel]

omit [CommSemiring K] [DecidableEq σ] in
theorem unlift_lift (l : Option σ) : ESym.unlift (ESym.lift l) = some l := by
  cases l <;> rfl

end
end FstAux

/-! ### `unlift`: back to the original symbols -/
section Unlift
variable {ι σ K : Type} [DecidableEq ι] [DecidableEq σ] [CommSemiring K]

/-- `unlift` is the restriction of the relation to strings of original symbols -/
theorem unlift_Tk (T : FST ι (ESym σ) K) (k : Nat) (i : ι) (x y : List σ) (j : ι) :
    Tk T.unlift k i x y j = Tk T k i (x.map ESym.sym) (y.map ESym.sym) j := by
  induction k generalizing i x y with
  | zero => simp [Tk_zero]
  | succ k ih =>
    have harcs : T.unlift.arcs = T.arcs.filterMap TArc.unlift := rfl
    rw [Tk_succ, Tk_succ, sum_filter_ite, sum_filter_ite, harcs, sum_filterMap]
    apply congrArg
    apply List.map_congr_left
    intro e _
    simp only [ih]
    obtain ⟨s, li, lo, d, w⟩ := e
    by_cases hs : s = i
    · subst hs
      rcases li with _ | a | _ | _ <;> rcases lo with _ | c | _ | _ <;>
        simp [TArc.unlift, ESym.unlift, lpeel_e1, lpeel_e2, lpeel_sym, lpeel_none', Function.comp_def]
    · rcases li with _ | a | _ | _ <;> rcases lo with _ | c | _ | _ <;>
        simp [TArc.unlift, ESym.unlift, hs]

theorem unlift_TPk (T : FST ι (ESym σ) K) (k : Nat) (x y : List σ) :
    TPk T.unlift k x y = TPk T k (x.map ESym.sym) (y.map ESym.sym) := by
  simp only [TPk_eq, unlift_Tk]
  rfl

theorem unlift_TPN (T : FST ι (ESym σ) K) (n : Nat) (x y : List σ) :
    TPN T.unlift n x y = TPN T n (x.map ESym.sym) (y.map ESym.sym) := by
  simp only [TPN_eq, unlift_TPk]

end Unlift

/-! ### the arcs leaving a state of `composeRaw`, `augment`, `epsilonFilter` -/
namespace FstAux
section SrcSums
variable {ι κ σ K : Type} [DecidableEq ι] [DecidableEq κ] [DecidableEq σ] [CommSemiring K]

/-- case analysis on a label: a named eliminator, so that statements built from it agree
syntactically (anonymous `match`es compile to distinct auxiliary matchers) -/
def optCase {α β : Type} (o : Option α) (n : β) (s : α → β) : β :=
  match o with
  | none => n
  | some a => s a

omit [DecidableEq ι] [DecidableEq κ] [DecidableEq σ] [CommSemiring K] in
@[simp] theorem optCase_none {α β : Type} (n : β) (s : α → β) : optCase none n s = n := rfl
omit [DecidableEq ι] [DecidableEq κ] [DecidableEq σ] [CommSemiring K] in
@[simp] theorem optCase_some {α β : Type} (a : α) (n : β) (s : α → β) :
    optCase (some a) n s = s a := rfl

/-- the product arc of two matching arcs -/
def prodArc (e1 : TArc ι σ K) (e2 : TArc κ σ K) : TArc (ι × κ) σ K :=
  ⟨(e1.src, e2.src), e1.inp, e2.out, (e1.dst, e2.dst), e1.w * e2.w⟩

/-- arcs leaving `(p, q)` in the product: matching pairs of arcs leaving `p` and `q` -/
theorem composeRaw_src_sum (A : FST ι σ K) (B : FST κ σ K) (p : ι) (q : κ)
    (g : TArc (ι × κ) σ K → K) :
    (((A.composeRaw B).arcs.filter (fun e => e.src = (p, q))).map g).sum
      = ((A.arcs.filter (fun e => e.src = p)).map fun e1 =>
          ((B.arcs.filter (fun e => e.src = q)).map fun e2 =>
            if e1.out.isSome ∧ e2.inp = e1.out then g (prodArc e1 e2) else 0).sum).sum := by
  have harcs : (A.composeRaw B).arcs = A.arcs.flatMap fun e1 =>
      (B.arcs.filter fun e2 => e1.out.isSome ∧ e2.inp = e1.out).map fun e2 => prodArc e1 e2 := rfl
  rw [sum_filter_ite, harcs, sum_flatMap, sum_filter_ite]
  simp only [List.map_map, Function.comp_def]
  apply congrArg
  apply List.map_congr_left
  intro e1 _
  rw [sum_filter_ite, sum_filter_ite]
  by_cases h1 : e1.src = p
  · simp only [h1, decide_true, if_true]
    apply congrArg
    apply List.map_congr_left
    intro e2 _
    by_cases hm : e1.out.isSome ∧ e2.inp = e1.out
    · have hm' : decide (e1.out.isSome = true ∧ e2.inp = e1.out) = true := by simpa using hm
      rw [if_pos hm', if_pos hm]
      by_cases h2 : e2.src = q
      · simp [prodArc, h1, h2]
      · simp [prodArc, h1, h2]
    · have hm' : decide (e1.out.isSome = true ∧ e2.inp = e1.out) = false := by simpa using hm
      rw [hm', if_neg Bool.false_ne_true, if_neg hm]
      simp
  · have h1' : decide (e1.src = p) = false := by simpa using h1
    rw [h1', if_neg Bool.false_ne_true]
    apply sum_map_zero
    intro e2 _
    split
    · have : ¬ ((prodArc e1 e2).src = (p, q)) := by
        simp only [prodArc, Prod.mk.injEq]; exact fun h => h1 h.1
      simp [this]
    · rfl

omit [DecidableEq σ] in
/-- arcs leaving `p` in `T.augment idx`: the loop and the renamed arcs (nothing if `p` is not a
state of `T`) -/
theorem augment_src_sum (T : FST ι σ K) (idx : Bool) (p : ι) (g : TArc ι (ESym σ) K → K) :
    (((T.augment idx).arcs.filter (fun e => e.src = p)).map g).sum
      = if p ∈ T.states then
          g (augLoop idx p) + ((T.arcs.filter (fun e => e.src = p)).map fun e => g (augArc idx e)).sum
        else 0 := by
  have harcs : (T.augment idx).arcs = T.states.flatMap fun i =>
      augLoop idx i :: (T.arcs.filter (fun e => e.src = i)).map (augArc idx) := rfl
  have hnd : T.states.Nodup := nodup_eraseDups _
  rw [sum_filter_ite, harcs, sum_flatMap]
  have hterm : ∀ i ∈ T.states,
      ((augLoop idx i :: (T.arcs.filter (fun e => e.src = i)).map (augArc idx)).map fun e =>
        if decide (e.src = p) = true then g e else 0).sum
      = if p = i then g (augLoop idx i)
          + ((T.arcs.filter (fun e => e.src = i)).map fun e => g (augArc idx e)).sum else 0 := by
    intro i _
    have hl : (augLoop idx i : TArc ι (ESym σ) K).src = i := by
      unfold augLoop; split <;> rfl
    have ha : ∀ e : TArc ι σ K, (augArc idx e).src = e.src := by
      intro e; unfold augArc; split <;> rfl
    rw [List.map_cons, List.sum_cons, List.map_map]
    by_cases hpi : p = i
    · subst hpi
      rw [if_pos rfl]
      congr 1
      · simp [hl]
      · apply congrArg
        apply List.map_congr_left
        intro e he
        have : e.src = p := by simpa using (List.mem_filter.mp he).2
        simp [ha, this]
    · rw [if_neg hpi]
      have hip : ¬ (i = p) := fun h => hpi h.symm
      have : ((T.arcs.filter (fun e => e.src = i)).map
          ((fun e => if decide (e.src = p) = true then g e else 0) ∘ augArc idx)).sum = 0 := by
        apply sum_map_zero
        intro e he
        have : e.src = i := by simpa using (List.mem_filter.mp he).2
        simp [ha, this, hip]
      rw [this]
      simp [hl, hip]
  rw [List.map_congr_left hterm, sum_ite_eq_nodup T.states hnd p]

end SrcSums

section FilterSums
variable {σ K : Type} [DecidableEq σ] [CommSemiring K]

omit [DecidableEq σ] in
/-- the `Sigma` part and the five fixed arcs of the filter -/
theorem filter_arcs_eq (Sigma : List (Option σ)) :
    (epsilonFilter Sigma : FST Nat (ESym σ) K).arcs
      = (Sigma.flatMap fun a =>
          [⟨0, ESym.lift a, ESym.lift a, 0, 1⟩, ⟨1, ESym.lift a, ESym.lift a, 0, 1⟩,
           ⟨2, ESym.lift a, ESym.lift a, 0, 1⟩]) ++
        [⟨0, some .e2, some .e1, 0, 1⟩, ⟨0, some .e1, some .e1, 1, 1⟩, ⟨0, some .e2, some .e2, 2, 1⟩,
         ⟨1, some .e1, some .e1, 1, 1⟩, ⟨2, some .e2, some .e2, 2, 1⟩] := rfl

omit [DecidableEq σ] [CommSemiring K] in
theorem lift_eq_sym (a : Option σ) (b : σ) : ESym.lift a = some (ESym.sym b) ↔ a = some b := by
  cases a with
  | none => simp [ESym.lift]
  | some c => simp [ESym.lift]

omit [DecidableEq σ] [CommSemiring K] in
theorem lift_ne_e1 (a : Option σ) : ESym.lift a ≠ some ESym.e1 := by
  cases a <;> simp [ESym.lift]

omit [DecidableEq σ] [CommSemiring K] in
theorem lift_ne_e2 (a : Option σ) : ESym.lift a ≠ some ESym.e2 := by
  cases a <;> simp [ESym.lift]

/-- filter arcs leaving `f` and reading the symbol `b` -/
theorem filter_src_sum_sym (Sigma : List (Option σ)) (hnd : Sigma.Nodup) (b : σ)
    (hb : some b ∈ Sigma) (f : Nat) (G : TArc Nat (ESym σ) K → K) :
    (((epsilonFilter Sigma : FST Nat (ESym σ) K).arcs.filter (fun e => e.src = f)).map fun e =>
        if e.inp = some (ESym.sym b) then G e else 0).sum
      = if f ≤ 2 then G ⟨f, some (ESym.sym b), some (ESym.sym b), 0, 1⟩ else 0 := by
  rw [sum_filter_ite, filter_arcs_eq, List.map_append, List.sum_append, sum_flatMap]
  have hterm : ∀ a ∈ Sigma,
      (([⟨0, ESym.lift a, ESym.lift a, 0, 1⟩, ⟨1, ESym.lift a, ESym.lift a, 0, 1⟩,
         ⟨2, ESym.lift a, ESym.lift a, 0, 1⟩] : List (TArc Nat (ESym σ) K)).map fun e =>
        if decide (e.src = f) = true then (if e.inp = some (ESym.sym b) then G e else 0) else 0).sum
      = if some b = a then
          (if f ≤ 2 then G ⟨f, some (ESym.sym b), some (ESym.sym b), 0, 1⟩ else 0) else 0 := by
    intro a _
    by_cases hab : some b = a
    · subst hab
      rcases f with _ | _ | _ | f <;> simp [ESym.lift]
    · have : ¬ (ESym.lift a = some (ESym.sym b)) := fun h => hab ((lift_eq_sym a b).mp h).symm
      simp [hab, this]
  rw [List.map_congr_left hterm, sum_ite_eq_nodup Sigma hnd (some b), if_pos hb]
  simp

/-- filter arcs leaving `f` and reading `ε₁` -/
theorem filter_src_sum_e1 (Sigma : List (Option σ)) (f : Nat) (G : TArc Nat (ESym σ) K → K) :
    (((epsilonFilter Sigma : FST Nat (ESym σ) K).arcs.filter (fun e => e.src = f)).map fun e =>
        if e.inp = some ESym.e1 then G e else 0).sum
      = if f = 0 ∨ f = 1 then G ⟨f, some ESym.e1, some ESym.e1, 1, 1⟩ else 0 := by
  rw [sum_filter_ite, filter_arcs_eq, List.map_append, List.sum_append, sum_flatMap]
  have hterm : (Sigma.map fun a =>
      (([⟨0, ESym.lift a, ESym.lift a, 0, 1⟩, ⟨1, ESym.lift a, ESym.lift a, 0, 1⟩,
         ⟨2, ESym.lift a, ESym.lift a, 0, 1⟩] : List (TArc Nat (ESym σ) K)).map fun e =>
        if decide (e.src = f) = true then (if e.inp = some ESym.e1 then G e else 0) else 0).sum).sum
      = 0 := by
    apply sum_map_zero
    intro a _
    simp [lift_ne_e1]
  rw [hterm]
  rcases f with _ | _ | _ | f <;> simp

/-- filter arcs leaving `f` and reading `ε₂` -/
theorem filter_src_sum_e2 (Sigma : List (Option σ)) (f : Nat) (G : TArc Nat (ESym σ) K → K) :
    (((epsilonFilter Sigma : FST Nat (ESym σ) K).arcs.filter (fun e => e.src = f)).map fun e =>
        if e.inp = some ESym.e2 then G e else 0).sum
      = (if f = 0 then G ⟨0, some ESym.e2, some ESym.e1, 0, 1⟩ + G ⟨0, some ESym.e2, some ESym.e2, 2, 1⟩
          else 0)
        + (if f = 2 then G ⟨2, some ESym.e2, some ESym.e2, 2, 1⟩ else 0) := by
  rw [sum_filter_ite, filter_arcs_eq, List.map_append, List.sum_append, sum_flatMap]
  have hterm : (Sigma.map fun a =>
      (([⟨0, ESym.lift a, ESym.lift a, 0, 1⟩, ⟨1, ESym.lift a, ESym.lift a, 0, 1⟩,
         ⟨2, ESym.lift a, ESym.lift a, 0, 1⟩] : List (TArc Nat (ESym σ) K)).map fun e =>
        if decide (e.src = f) = true then (if e.inp = some ESym.e2 then G e else 0) else 0).sum).sum
      = 0 := by
    apply sum_map_zero
    intro a _
    simp [lift_ne_e2]
  rw [hterm]
  rcases f with _ | _ | _ | f <;> simp

end FilterSums
end FstAux

namespace FstAux
section Stage1
variable {ι κ σ K : Type} [DecidableEq ι] [DecidableEq κ] [DecidableEq σ] [CommSemiring K]

omit [DecidableEq ι] [DecidableEq σ] [CommSemiring K] in
theorem out_mem_outLabels [DecidableEq σ] (T : FST ι σ K) (e : TArc ι σ K) (he : e ∈ T.arcs) :
    e.out ∈ T.outLabels := by
  simp only [FST.outLabels, List.mem_eraseDups, List.mem_map]
  exact ⟨e, he, rfl⟩

omit [DecidableEq ι] [DecidableEq κ] [DecidableEq σ] [CommSemiring K] in
theorem nodup_eraseDups_beq {α : Type} [BEq α] [LawfulBEq α] (l : List α) : l.eraseDups.Nodup := by
  generalize hn : l.length = n
  induction n using Nat.strong_induction_on generalizing l with
  | _ n ih =>
    cases l with
    | nil => simp
    | cons a l =>
      rw [List.eraseDups_cons, List.nodup_cons]
      refine ⟨by simp, ih _ ?_ _ rfl⟩
      subst hn
      exact Nat.lt_succ_of_le (List.length_filter_le _ _)

omit [DecidableEq ι] [DecidableEq κ] [CommSemiring K] in
theorem outLabels_nodup (T : FST ι σ K) : T.outLabels.Nodup :=
  nodup_eraseDups_beq _

/-- arcs leaving `(p, f)` in `T1.augment 0 ∘ filter` -/
theorem augFilter_src_sum (T1 : FST ι σ K) (p : ι) (hp : p ∈ T1.states) (f : Nat)
    (g : TArc (ι × Nat) (ESym σ) K → K) :
    ((((T1.augment false).composeRaw (epsilonFilter T1.outLabels : FST Nat (ESym σ) K)).arcs.filter
        (fun e => e.src = (p, f))).map g).sum
      = (if f = 0 ∨ f = 1 then g ⟨(p, f), none, some .e1, (p, 1), 1 * 1⟩ else 0)
        + ((T1.arcs.filter (fun e => e.src = p)).map fun e1 =>
            optCase e1.out
              ((if f = 0 then
                  g ⟨(p, f), ESym.lift e1.inp, some .e1, (e1.dst, 0), e1.w * 1⟩
                  + g ⟨(p, f), ESym.lift e1.inp, some .e2, (e1.dst, 2), e1.w * 1⟩ else 0)
              + (if f = 2 then g ⟨(p, f), ESym.lift e1.inp, some .e2, (e1.dst, 2), e1.w * 1⟩
                  else 0))
              (fun b =>
                if f ≤ 2 then g ⟨(p, f), ESym.lift e1.inp, some (.sym b), (e1.dst, 0), e1.w * 1⟩
                else 0)).sum := by
  rw [composeRaw_src_sum, augment_src_sum, if_pos hp]
  congr 1
  · -- the loop `ε:ε₁`
    have h := filter_src_sum_e1 T1.outLabels f
      (fun eF => g (prodArc (augLoop false p : TArc ι (ESym σ) K) eF))
    simp only [augLoop, Bool.false_eq_true, if_false, Option.isSome_some, true_and] at h ⊢
    rw [h]
    rfl
  · apply congrArg
    apply List.map_congr_left
    intro e1 he1
    have hsrc : e1.src = p := by simpa using (List.mem_filter.mp he1).2
    have hmem : e1 ∈ T1.arcs := (List.mem_filter.mp he1).1
    cases ho : e1.out with
    | some b =>
      have h := filter_src_sum_sym T1.outLabels (outLabels_nodup T1) b
        (ho ▸ out_mem_outLabels T1 e1 hmem) f
        (fun eF => g (prodArc (augArc false e1 : TArc ι (ESym σ) K) eF))
      simp only [augArc, Bool.false_eq_true, if_false, ho, Option.isSome_some, true_and] at h ⊢
      rw [h]
      simp only [prodArc, hsrc, optCase_some]
    | none =>
      have h := filter_src_sum_e2 T1.outLabels f
        (fun eF => g (prodArc (augArc false e1 : TArc ι (ESym σ) K) eF))
      simp only [augArc, Bool.false_eq_true, if_false, ho, Option.isSome_some, true_and] at h ⊢
      rw [h, optCase_none]
      by_cases h0 : f = 0
      · subst h0; simp [prodArc, hsrc]
      · by_cases h2 : f = 2
        · subst h2; simp [prodArc, hsrc]
        · simp [h0, h2]

end Stage1
end FstAux

namespace FstAux
section Stage2
variable {ι κ σ K : Type} [DecidableEq ι] [DecidableEq κ] [DecidableEq σ] [CommSemiring K]

omit [DecidableEq ι] [DecidableEq κ] in
/-- arcs of `T2.augment 1` leaving `q` and reading the extended symbol `o` -/
theorem aug2_src_sum [DecidableEq κ] (T2 : FST κ σ K) (q : κ) (hq : q ∈ T2.states) (o : ESym σ)
    (G : TArc κ (ESym σ) K → K) :
    (((T2.augment true).arcs.filter (fun e => e.src = q)).map fun e =>
        if e.inp = some o then G e else 0).sum
      = (if o = .e2 then G ⟨q, some .e2, none, q, 1⟩ else 0)
        + ((T2.arcs.filter (fun e => e.src = q)).map fun e2 =>
            if (match e2.inp with | none => ESym.e1 | some a => ESym.sym a) = o then
              G ⟨e2.src, some o, ESym.lift e2.out, e2.dst, e2.w⟩ else 0).sum := by
  rw [augment_src_sum, if_pos hq]
  congr 1
  · by_cases ho : o = .e2
    · subst ho; simp [augLoop]
    · have : ¬ (ESym.e2 = o) := fun h => ho h.symm
      simp [augLoop, ho, this]
  · apply congrArg
    apply List.map_congr_left
    intro e2 _
    cases hi : e2.inp with
    | none =>
      by_cases ho : ESym.e1 = o
      · subst ho; simp [augArc, hi]
      · simp [augArc, hi, ho]
    | some a =>
      by_cases ho : ESym.sym a = o
      · subst ho; simp [augArc, hi]
      · simp [augArc, hi, ho]

/-- `g` on `some`, `0` on `none` -/
def orZero {α : Type} (g : α → K) : Option α → K
  | some a => g a
  | none => 0

omit [DecidableEq σ] [CommSemiring K] in
/-- arcs leaving a state of `unlift` -/
theorem unlift_src_sum {τ : Type} [DecidableEq τ] [DecidableEq σ] [CommSemiring K]
    (T : FST τ (ESym σ) K) (s : τ) (g : TArc τ σ K → K) :
    ((T.unlift.arcs.filter (fun e => e.src = s)).map g).sum
      = ((T.arcs.filter (fun e => e.src = s)).map fun e => orZero g e.unlift).sum := by
  have harcs : T.unlift.arcs = T.arcs.filterMap TArc.unlift := rfl
  rw [sum_filter_ite, sum_filter_ite, harcs, sum_filterMap]
  apply congrArg
  apply List.map_congr_left
  intro e _
  obtain ⟨s', li, lo, d, w⟩ := e
  rcases li with _ | a | _ | _ <;> rcases lo with _ | c | _ | _ <;>
    simp [TArc.unlift, ESym.unlift, orZero]

omit [DecidableEq ι] [DecidableEq κ] [DecidableEq σ] [CommSemiring K] in
theorem unlift_mk {τ : Type} (s d : τ) (a c : Option σ) (w : K) :
    (⟨s, ESym.lift a, ESym.lift c, d, w⟩ : TArc τ (ESym σ) K).unlift = some ⟨s, a, c, d, w⟩ := by
  simp [TArc.unlift, unlift_lift]

/-- the continuation of an arc of `T1.augment 0 ∘ filter` through `T2.augment 1` and `unlift` -/
def contQ (T2 : FST κ σ K) (q : κ) (g : TArc ((ι × Nat) × κ) σ K → K)
    (eL : TArc (ι × Nat) (ESym σ) K) : K :=
  (((T2.augment true).arcs.filter (fun e => e.src = q)).map fun e2 =>
    if eL.out.isSome ∧ e2.inp = eL.out then
      orZero g (prodArc eL e2).unlift else 0).sum

omit [DecidableEq ι] in
theorem contQ_sym (T2 : FST κ σ K) (q : κ) (hq : q ∈ T2.states)
    (g : TArc ((ι × Nat) × κ) σ K → K) (s d : ι × Nat) (a : Option σ) (b : σ) (w : K) :
    contQ T2 q g ⟨s, ESym.lift a, some (ESym.sym b), d, w⟩
      = ((T2.arcs.filter (fun e => e.src = q)).map fun e2 =>
          if e2.inp = some b then g ⟨(s, q), a, e2.out, (d, e2.dst), w * e2.w⟩ else 0).sum := by
  have h := aug2_src_sum T2 q hq (ESym.sym b) (fun e2 =>
    orZero g (prodArc (⟨s, ESym.lift a, some (ESym.sym b), d, w⟩ :
      TArc (ι × Nat) (ESym σ) K) e2).unlift)
  unfold contQ
  simp only [Option.isSome_some, true_and] at h ⊢
  rw [h, if_neg (by simp), zero_add]
  apply congrArg
  apply List.map_congr_left
  intro e2 he2
  have hsrc : e2.src = q := by simpa using (List.mem_filter.mp he2).2
  cases hi : e2.inp with
  | none => simp
  | some a' =>
    by_cases hab : a' = b
    · subst hab
      simp only [if_true, prodArc, hsrc, unlift_mk, orZero]
    · have : ¬ (ESym.sym a' = ESym.sym b) := fun h => hab (sym_injective h)
      simp [hab, this]

omit [DecidableEq ι] in
theorem contQ_e1 (T2 : FST κ σ K) (q : κ) (hq : q ∈ T2.states)
    (g : TArc ((ι × Nat) × κ) σ K → K) (s d : ι × Nat) (a : Option σ) (w : K) :
    contQ T2 q g ⟨s, ESym.lift a, some ESym.e1, d, w⟩
      = ((T2.arcs.filter (fun e => e.src = q)).map fun e2 =>
          if e2.inp = none then g ⟨(s, q), a, e2.out, (d, e2.dst), w * e2.w⟩ else 0).sum := by
  have h := aug2_src_sum T2 q hq ESym.e1 (fun e2 =>
    orZero g (prodArc (⟨s, ESym.lift a, some ESym.e1, d, w⟩ :
      TArc (ι × Nat) (ESym σ) K) e2).unlift)
  unfold contQ
  simp only [Option.isSome_some, true_and] at h ⊢
  rw [h, if_neg (by simp), zero_add]
  apply congrArg
  apply List.map_congr_left
  intro e2 he2
  have hsrc : e2.src = q := by simpa using (List.mem_filter.mp he2).2
  cases hi : e2.inp with
  | none => simp only [if_true, prodArc, hsrc, unlift_mk, orZero]
  | some a' => simp

omit [DecidableEq ι] in
theorem contQ_e2 (T2 : FST κ σ K) (q : κ) (hq : q ∈ T2.states)
    (g : TArc ((ι × Nat) × κ) σ K → K) (s d : ι × Nat) (a : Option σ) (w : K) :
    contQ T2 q g ⟨s, ESym.lift a, some ESym.e2, d, w⟩
      = g ⟨(s, q), a, none, (d, q), w * 1⟩ := by
  have h := aug2_src_sum T2 q hq ESym.e2 (fun e2 =>
    orZero g (prodArc (⟨s, ESym.lift a, some ESym.e2, d, w⟩ :
      TArc (ι × Nat) (ESym σ) K) e2).unlift)
  unfold contQ
  simp only [Option.isSome_some, true_and] at h ⊢
  rw [h, if_pos trivial]
  have : ((T2.arcs.filter (fun e => e.src = q)).map fun e2 =>
      if (match e2.inp with | none => ESym.e1 | some a => ESym.sym a) = ESym.e2 then
        orZero g (prodArc (⟨s, ESym.lift a, some ESym.e2, d, w⟩ : TArc (ι × Nat) (ESym σ) K)
          ⟨e2.src, some ESym.e2, ESym.lift e2.out, e2.dst, e2.w⟩).unlift else 0).sum = 0 := by
    apply sum_map_zero
    intro e2 _
    cases e2.inp <;> simp
  rw [this, add_zero]
  have hnone : (none : Option (ESym σ)) = ESym.lift (none : Option σ) := rfl
  simp only [prodArc]
  rw [hnone, unlift_mk]
  rfl

/-- **the arcs of `T1 @ T2` leaving `((p, f), q)`** are Mohri's: a symbol match (to filter state
`0`), a simultaneous ε move (from `0` to `0`), a move of `T2` alone on an input ε (from `0`, `1` to
`1`), a move of `T1` alone on an output ε (from `0`, `2` to `2`) -/
theorem compose_src_sum (T1 : FST ι σ K) (T2 : FST κ σ K) (p : ι) (hp : p ∈ T1.states) (q : κ)
    (hq : q ∈ T2.states) (f : Nat) (g : TArc ((ι × Nat) × κ) σ K → K) :
    (((T1.compose T2).arcs.filter (fun e => e.src = ((p, f), q))).map g).sum
      = (if f = 0 ∨ f = 1 then
          ((T2.arcs.filter (fun e => e.src = q)).map fun e2 =>
            if e2.inp = none then g ⟨((p, f), q), none, e2.out, ((p, 1), e2.dst), 1 * 1 * e2.w⟩
            else 0).sum else 0)
        + ((T1.arcs.filter (fun e => e.src = p)).map fun e1 =>
            optCase e1.out
              ((if f = 0 then
                  ((T2.arcs.filter (fun e => e.src = q)).map fun e2 =>
                    if e2.inp = none then
                      g ⟨((p, f), q), e1.inp, e2.out, ((e1.dst, 0), e2.dst), e1.w * 1 * e2.w⟩
                    else 0).sum
                  + g ⟨((p, f), q), e1.inp, none, ((e1.dst, 2), q), e1.w * 1 * 1⟩ else 0)
              + (if f = 2 then g ⟨((p, f), q), e1.inp, none, ((e1.dst, 2), q), e1.w * 1 * 1⟩
                  else 0))
              (fun b =>
                if f ≤ 2 then
                  ((T2.arcs.filter (fun e => e.src = q)).map fun e2 =>
                    if e2.inp = some b then
                      g ⟨((p, f), q), e1.inp, e2.out, ((e1.dst, 0), e2.dst), e1.w * 1 * e2.w⟩
                    else 0).sum else 0)).sum := by
  have hC : T1.compose T2 = (((T1.augment false).composeRaw
      (epsilonFilter T1.outLabels : FST Nat (ESym σ) K)).composeRaw (T2.augment true)).unlift := rfl
  rw [hC, unlift_src_sum, composeRaw_src_sum]
  change (((((T1.augment false).composeRaw (epsilonFilter T1.outLabels : FST Nat (ESym σ) K)).arcs.filter
    (fun e => e.src = (p, f))).map (contQ T2 q g)).sum) = _
  rw [augFilter_src_sum T1 p hp f]
  have hnone : (none : Option (ESym σ)) = ESym.lift (none : Option σ) := rfl
  congr 1
  · by_cases hf : f = 0 ∨ f = 1
    · rw [if_pos hf, if_pos hf, hnone, contQ_e1 T2 q hq]
    · rw [if_neg hf, if_neg hf]
  · apply congrArg
    apply List.map_congr_left
    intro e1 _
    cases ho : e1.out with
    | some b =>
      simp only [optCase_some]
      by_cases hf : f ≤ 2
      · simp only [if_pos hf]; rw [contQ_sym T2 q hq]
      · simp only [if_neg hf]
    | none =>
      simp only [optCase_none]
      by_cases h0 : f = 0
      · have h2 : ¬ (f = 2) := by omega
        simp only [if_pos h0, if_neg h2, add_zero]
        rw [contQ_e1 T2 q hq, contQ_e2 T2 q hq]
      · by_cases h2 : f = 2
        · simp only [if_neg h0, if_pos h2, zero_add]
          rw [contQ_e2 T2 q hq]
        · simp only [if_neg h0, if_neg h2]

end Stage2
end FstAux

/-! ### graded path sums and the one-step unfolding of `T1 @ T2` -/
section Graded
variable {ι σ K : Type} [DecidableEq ι] [DecidableEq σ] [CommSemiring K]

/-- `GN M gr fin N k1 k2 i x y`: total weight of the paths of `M` with at most `N` arcs from `i` to a
state satisfying `fin`, reading `x`, writing `y`, whose arcs have total grade exactly `(k1, k2)`
(`gr e` is the grade of the arc `e`; for `T1 @ T2` it records which of the two operands move) -/
def GN (M : FST ι σ K) (gr : TArc ι σ K → Nat × Nat) (fin : ι → Bool) :
    Nat → Nat → Nat → ι → List σ → List σ → K
  | 0, k1, k2, i, x, y => if k1 = 0 ∧ k2 = 0 ∧ fin i = true ∧ x = [] ∧ y = [] then 1 else 0
  | N+1, k1, k2, i, x, y =>
    (if k1 = 0 ∧ k2 = 0 ∧ fin i = true ∧ x = [] ∧ y = [] then 1 else 0)
    + ((M.arcs.filter (fun e => e.src = i)).map fun e =>
        if (gr e).1 ≤ k1 ∧ (gr e).2 ≤ k2 then
          ((lpeel e.inp x).map fun x' => ((lpeel e.out y).map fun y' =>
            e.w * GN M gr fin N (k1 - (gr e).1) (k2 - (gr e).2) e.dst x' y').sum).sum
        else 0).sum

end Graded

section Mohri
variable {ι κ σ K : Type} [DecidableEq ι] [DecidableEq κ] [DecidableEq σ] [CommSemiring K]

/-- the grade of an arc of `T1 @ T2`, read off the filter state it enters: `0` both operands
move, `1` only `T2` moves, `2` only `T1` moves -/
def mohriGrade (e : TArc ((ι × Nat) × κ) σ K) : Nat × Nat :=
  match e.dst.1.2 with
  | 0 => (1, 1)
  | 1 => (0, 1)
  | _ => (1, 0)

/-- the accepting states above `(p', q')`: any of the three filter states -/
def mohriFin (p' : ι) (q' : κ) (s : (ι × Nat) × κ) : Bool :=
  decide (s.1.1 = p' ∧ s.1.2 ≤ 2 ∧ s.2 = q')

/-- value families indexed by filter state, grades, states and strings -/
abbrev MFam (ι κ σ K : Type) := Nat → Nat → Nat → ι → κ → List σ → List σ → K

/-- both operands move along `e1`, `e2` -/
def mBoth (V : MFam ι κ σ K) (k1 k2 : Nat) (x z : List σ) (e1 : TArc ι σ K) (e2 : TArc κ σ K) : K :=
  if 1 ≤ k1 ∧ 1 ≤ k2 then
    ((lpeel e1.inp x).map fun x' => ((lpeel e2.out z).map fun z' =>
      e1.w * e2.w * V 0 (k1 - 1) (k2 - 1) e1.dst e2.dst x' z').sum).sum
  else 0

/-- `T1` moves alone along `e1` (output ε) -/
def mLeft (V : MFam ι κ σ K) (k1 k2 : Nat) (q : κ) (x z : List σ) (e1 : TArc ι σ K) : K :=
  if 1 ≤ k1 then ((lpeel e1.inp x).map fun x' => e1.w * V 2 (k1 - 1) k2 e1.dst q x' z).sum else 0

/-- `T2` moves alone along `e2` (input ε) -/
def mRight (V : MFam ι κ σ K) (k1 k2 : Nat) (p : ι) (x z : List σ) (e2 : TArc κ σ K) : K :=
  if 1 ≤ k2 then ((lpeel e2.out z).map fun z' => e2.w * V 1 k1 (k2 - 1) p e2.dst x z').sum else 0

/-- one step of Mohri's composition, as an operator on value families -/
def mohriStep (T1 : FST ι σ K) (T2 : FST κ σ K) (p' : ι) (q' : κ) (V : MFam ι κ σ K)
    (f k1 k2 : Nat) (p : ι) (q : κ) (x z : List σ) : K :=
  (if k1 = 0 ∧ k2 = 0 ∧ p = p' ∧ q = q' ∧ x = [] ∧ z = [] then 1 else 0)
  + ((if f = 0 ∨ f = 1 then
        ((T2.arcs.filter (fun e => e.src = q)).map fun e2 =>
          if e2.inp = none then mRight V k1 k2 p x z e2 else 0).sum else 0)
    + ((T1.arcs.filter (fun e => e.src = p)).map fun e1 =>
        optCase e1.out
          ((if f = 0 then
              ((T2.arcs.filter (fun e => e.src = q)).map fun e2 =>
                if e2.inp = none then mBoth V k1 k2 x z e1 e2 else 0).sum
              + mLeft V k1 k2 q x z e1 else 0)
          + (if f = 2 then mLeft V k1 k2 q x z e1 else 0))
          (fun b =>
            if f ≤ 2 then
              ((T2.arcs.filter (fun e => e.src = q)).map fun e2 =>
                if e2.inp = some b then mBoth V k1 k2 x z e1 e2 else 0).sum else 0)).sum)

/-- the graded bounded path sums of `T1 @ T2` satisfy Mohri's recurrence -/
theorem GN_compose_step (T1 : FST ι σ K) (T2 : FST κ σ K) (p' : ι) (q' : κ) (N f k1 k2 : Nat)
    (hf : f ≤ 2) (p : ι) (hp : p ∈ T1.states) (q : κ) (hq : q ∈ T2.states) (x z : List σ) :
    GN (T1.compose T2) mohriGrade (mohriFin p' q') (N+1) k1 k2 ((p, f), q) x z
      = mohriStep T1 T2 p' q'
          (fun f k1 k2 p q x z => GN (T1.compose T2) mohriGrade (mohriFin p' q') N k1 k2 ((p, f), q) x z)
          f k1 k2 p q x z := by
  rw [GN, compose_src_sum T1 T2 p hp q hq f]
  unfold mohriStep
  congr 1
  · have : (mohriFin p' q' ((p, f), q) = true) ↔ (p = p' ∧ q = q') := by
      simp [mohriFin, hf]
    simp only [this]
    apply if_congr _ rfl rfl
    tauto
  · simp only [mohriGrade, mBoth, mLeft, mRight, lpeel_none', List.map_cons, List.map_nil,
      List.sum_cons, List.sum_nil, add_zero, mul_one, one_mul, Nat.zero_le, true_and, Nat.sub_zero,
      and_true]

end Mohri

namespace FstAux
section Pull
variable {K : Type} [CommSemiring K]

theorem sum_ite_c {γ : Type} (Y : List γ) (c : Prop) [Decidable c] (F : γ → K) :
    (Y.map fun y => if c then F y else 0).sum = if c then (Y.map F).sum else 0 := by
  by_cases h : c <;> simp [h]

theorem sum_add_map {γ : Type} (Y : List γ) (F G : γ → K) :
    (Y.map fun y => F y + G y).sum = (Y.map F).sum + (Y.map G).sum := List.sum_map_add

/-- distribute a factor over a guarded double sum and bring the outer sum inside (factor on the
left) -/
theorem pullR {γ α β : Type} (Y : List γ) (a : γ → K) (c : Prop) [Decidable c] (E : List α)
    (d : α → Prop) [DecidablePred d] (L : α → List β) (w : α → K) (G : α → β → γ → K) :
    (Y.map fun y => a y * (if c then (E.map fun e => if d e then
        ((L e).map fun t => w e * G e t y).sum else 0).sum else 0)).sum
      = (E.map fun e => if d e then (if c then
          ((L e).map fun t => w e * (Y.map fun y => a y * G e t y).sum).sum else 0) else 0).sum := by
  by_cases hc : c
  · simp only [hc, if_true]
    simp only [← List.sum_map_mul_left]
    rw [sum_swap Y E]
    apply congrArg
    apply List.map_congr_left
    intro e _
    by_cases hd : d e
    · simp only [hd, if_true]
      simp only [← List.sum_map_mul_left]
      rw [sum_swap Y (L e)]
      apply congrArg
      apply List.map_congr_left
      intro t _
      apply congrArg
      apply List.map_congr_left
      intro y _
      ring
    · simp [hd]
  · simp only [hc, if_false, mul_zero]
    rw [sum_map_zero _ _ (fun _ _ => rfl)]
    symm
    apply sum_map_zero
    intro e _
    split <;> rfl

/-- the same with the factor on the right -/
theorem pullL {γ α β : Type} (Y : List γ) (a : γ → K) (c : Prop) [Decidable c] (E : List α)
    (d : α → Prop) [DecidablePred d] (L : α → List β) (w : α → K) (G : α → β → γ → K) :
    (Y.map fun y => (if c then (E.map fun e => if d e then
        ((L e).map fun t => w e * G e t y).sum else 0).sum else 0) * a y).sum
      = (E.map fun e => if d e then (if c then
          ((L e).map fun t => w e * (Y.map fun y => G e t y * a y).sum).sum else 0) else 0).sum := by
  have h := pullR Y a c E d L w (fun e t y => G e t y)
  simp only [mul_comm (a _)] at h
  exact h

/-- two guarded double sums multiplied under an outer sum -/
theorem pullLR {γ α β α' β' : Type} (Y : List γ) (c : Prop) [Decidable c] (E : List α)
    (d : α → Prop) [DecidablePred d] (L : α → List β) (w : α → K) (G : α → β → γ → K)
    (c' : Prop) [Decidable c'] (E' : List α') (d' : α' → Prop) [DecidablePred d']
    (L' : α' → List β') (w' : α' → K) (G' : α' → β' → γ → K) :
    (Y.map fun y =>
        (if c then (E.map fun e => if d e then
          ((L e).map fun t => w e * G e t y).sum else 0).sum else 0)
        * (if c' then (E'.map fun e' => if d' e' then
          ((L' e').map fun t' => w' e' * G' e' t' y).sum else 0).sum else 0)).sum
      = (E.map fun e => if d e then (E'.map fun e' => if d' e' then (if c ∧ c' then
          ((L e).map fun t => ((L' e').map fun t' =>
            w e * w' e' * (Y.map fun y => G e t y * G' e' t' y).sum).sum).sum
          else 0) else 0).sum else 0).sum := by
  rw [pullL Y _ c E d L w G]
  apply congrArg
  apply List.map_congr_left
  intro e _
  by_cases hd : d e
  · simp only [hd, if_true]
    by_cases hc : c
    · simp only [hc, if_true, true_and]
      have h := fun t => pullR Y (fun y => G e t y) c' E' d' L' w' G'
      simp only [h]
      simp only [← List.sum_map_mul_left]
      rw [sum_swap (L e) E']
      apply congrArg
      apply List.map_congr_left
      intro e' _
      by_cases hd' : d' e'
      · simp only [hd', if_true]
        by_cases hc' : c'
        · simp only [hc', if_true]
          apply congrArg
          apply List.map_congr_left
          intro t _
          simp only [← List.sum_map_mul_left]
          apply congrArg
          apply List.map_congr_left
          intro t' _
          apply congrArg
          apply List.map_congr_left
          intro y _
          ring
        · simp [hc']
      · simp [hd']
    · simp only [hc, if_false, false_and]
      symm
      apply sum_map_zero
      intro e' _
      split <;> rfl
  · simp [hd]

end Pull
end FstAux

namespace FstAux
section Parts
variable {ι κ σ K : Type} [DecidableEq ι] [DecidableEq κ] [DecidableEq σ] [CommSemiring K]

/-! first-arc decomposition of the paths of `T1` (to `p'`) by what the first arc writes, and of the
paths of `T2` (to `q'`) by what the first arc reads -/

/-- the empty path -/
def X0 (p' : ι) (k1 : Nat) (p : ι) (x y : List σ) : K :=
  if k1 = 0 ∧ p = p' ∧ x = [] ∧ y = [] then 1 else 0

/-- paths of `T1` whose first arc writes ε -/
def Xe (T1 : FST ι σ K) (p' : ι) (k1 : Nat) (p : ι) (x y : List σ) : K :=
  if 1 ≤ k1 then
    ((T1.arcs.filter (fun e => e.src = p)).map fun e1 =>
      if e1.out = none then
        ((lpeel e1.inp x).map fun x' => e1.w * Tk T1 (k1 - 1) e1.dst x' y p').sum else 0).sum
  else 0

/-- paths of `T1` whose first arc writes a symbol -/
def Xs (T1 : FST ι σ K) (p' : ι) (k1 : Nat) (p : ι) (x y : List σ) : K :=
  if 1 ≤ k1 then
    ((T1.arcs.filter (fun e => e.src = p)).map fun e1 =>
      if e1.out ≠ none then
        ((lpeel e1.inp x).map fun x' =>
          e1.w * ((lpeel e1.out y).map fun y' => Tk T1 (k1 - 1) e1.dst x' y' p').sum).sum
      else 0).sum
  else 0

theorem Tk_split_out (T1 : FST ι σ K) (p' : ι) (k1 : Nat) (p : ι) (x y : List σ) :
    Tk T1 k1 p x y p' = X0 p' k1 p x y + Xe T1 p' k1 p x y + Xs T1 p' k1 p x y := by
  cases k1 with
  | zero => simp [X0, Xe, Xs, Tk_zero]
  | succ k =>
    have h0 : X0 p' (k+1) p x y = (0 : K) := by simp [X0]
    rw [h0, zero_add, Tk_succ]
    simp only [Xe, Xs, Nat.le_add_left, if_true, Nat.add_sub_cancel, ← List.sum_map_add]
    apply congrArg
    apply List.map_congr_left
    intro e1 _
    cases ho : e1.out with
    | none => simp [lpeel]
    | some b => simp [List.sum_map_mul_left]

/-- paths of `T2` whose first arc reads ε -/
def Ye (T2 : FST κ σ K) (q' : κ) (k2 : Nat) (q : κ) (y z : List σ) : K :=
  if 1 ≤ k2 then
    ((T2.arcs.filter (fun e => e.src = q)).map fun e2 =>
      if e2.inp = none then
        ((lpeel e2.out z).map fun z' => e2.w * Tk T2 (k2 - 1) e2.dst y z' q').sum else 0).sum
  else 0

/-- paths of `T2` whose first arc reads a symbol -/
def Ys (T2 : FST κ σ K) (q' : κ) (k2 : Nat) (q : κ) (y z : List σ) : K :=
  if 1 ≤ k2 then
    ((T2.arcs.filter (fun e => e.src = q)).map fun e2 =>
      if e2.inp ≠ none then
        ((lpeel e2.out z).map fun z' =>
          e2.w * ((lpeel e2.inp y).map fun y' => Tk T2 (k2 - 1) e2.dst y' z' q').sum).sum
      else 0).sum
  else 0

theorem Tk_split_inp (T2 : FST κ σ K) (q' : κ) (k2 : Nat) (q : κ) (y z : List σ) :
    Tk T2 k2 q y z q' = X0 q' k2 q z y + Ye T2 q' k2 q y z + Ys T2 q' k2 q y z := by
  cases k2 with
  | zero =>
    simp only [X0, Ye, Ys, Tk_zero]
    have : (q = q' ∧ y = [] ∧ z = []) ↔ (0 = 0 ∧ q = q' ∧ z = [] ∧ y = []) := by tauto
    simp [this]
  | succ k =>
    have h0 : X0 q' (k+1) q z y = (0 : K) := by simp [X0]
    rw [h0, zero_add, Tk_succ]
    simp only [Ye, Ys, Nat.le_add_left, if_true, Nat.add_sub_cancel, ← List.sum_map_add]
    apply congrArg
    apply List.map_congr_left
    intro e2 _
    cases hi : e2.inp with
    | none => simp [lpeel]
    | some b =>
      rw [sum_swap]
      simp [List.sum_map_mul_left]

/-- paths of `T1` allowed in filter state `f`: in state `1` the first arc may not write ε -/
def SA (T1 : FST ι σ K) (p' : ι) (f k1 : Nat) (p : ι) (x y : List σ) : K :=
  X0 p' k1 p x y + (if f = 1 then 0 else Xe T1 p' k1 p x y) + Xs T1 p' k1 p x y

/-- paths of `T2` allowed in filter state `f`: in state `2` the first arc may not read ε -/
def SB (T2 : FST κ σ K) (q' : κ) (f k2 : Nat) (q : κ) (y z : List σ) : K :=
  X0 q' k2 q z y + (if f = 2 then 0 else Ye T2 q' k2 q y z) + Ys T2 q' k2 q y z

theorem SA_eq_Tk (T1 : FST ι σ K) (p' : ι) (f k1 : Nat) (hf : f ≠ 1) (p : ι) (x y : List σ) :
    SA T1 p' f k1 p x y = Tk T1 k1 p x y p' := by
  rw [SA, if_neg hf, Tk_split_out]

theorem SB_eq_Tk (T2 : FST κ σ K) (q' : κ) (f k2 : Nat) (hf : f ≠ 2) (q : κ) (y z : List σ) :
    SB T2 q' f k2 q y z = Tk T2 k2 q y z q' := by
  rw [SB, if_neg hf, Tk_split_inp]

/-- the specification side: matching pairs of paths, restricted as the filter state `f` demands -/
def mohriS (T1 : FST ι σ K) (T2 : FST κ σ K) (p' : ι) (q' : κ) (syms : List σ) (n : Nat) :
    MFam ι κ σ K :=
  fun f k1 k2 p q x z =>
    ((strsLe syms n).map fun y => SA T1 p' f k1 p x y * SB T2 q' f k2 q y z).sum

end Parts
end FstAux

namespace FstAux
section Key
variable {σ K : Type} [DecidableEq σ] [CommSemiring K]

omit [DecidableEq σ] in
theorem sum_strsLe_nil [DecidableEq σ] (syms : List σ) (n : Nat) (c : K) :
    ((strsLe syms n).map fun y => if y = [] then c else 0).sum = c := by
  cases n with
  | zero => simp [strsLe]
  | succ n =>
    rw [sum_strsLe_succ_eq]
    simp

/-- the middle string of two paths starting with symbol arcs: the two first symbols must agree, and
the rest is summed over the same candidates -/
theorem sum_strsLe_key (syms : List σ) (hnd : syms.Nodup) (b b' : σ) (hb : b ∈ syms) (n m : Nat)
    (hm : m + 1 ≤ n) (P Q : List σ → K) (hP : ∀ y, m < y.length → P y = 0) :
    ((strsLe syms n).map fun y =>
        ((lpeel (some b) y).map P).sum * ((lpeel (some b') y).map Q).sum).sum
      = if b = b' then ((strsLe syms n).map fun y => P y * Q y).sum else 0 := by
  obtain ⟨n', rfl⟩ : ∃ n', n = n' + 1 := ⟨n - 1, by omega⟩
  rw [sum_strsLe_succ_eq]
  simp only [lpeel_some_nil, List.map_nil, List.sum_nil, zero_mul, zero_add, lpeel_some_cons]
  rw [sum_swap syms (strsLe syms n')]
  have hterm : ∀ y' ∈ strsLe syms n',
      (syms.map fun c => ((if b = c then [y'] else []).map P).sum
          * ((if b' = c then [y'] else []).map Q).sum).sum
        = if b = b' then P y' * Q y' else 0 := by
    intro y' _
    have h1 : ∀ c ∈ syms, ((if b = c then [y'] else []).map P).sum
          * ((if b' = c then [y'] else []).map Q).sum
        = if b = c then (if b' = c then P y' * Q y' else 0) else 0 := by
      intro c _
      by_cases h1 : b = c <;> by_cases h2 : b' = c <;> simp [h1, h2]
    rw [List.map_congr_left h1, sum_ite_eq_nodup syms hnd b, if_pos hb]
    by_cases h : b = b'
    · simp [h]
    · have : ¬ (b' = b) := fun h' => h h'.symm
      simp [h, this]
  rw [List.map_congr_left hterm, sum_ite_c]
  by_cases h : b = b'
  · simp only [h, if_true]
    symm
    apply sum_strsLe_succ
    intro y hy
    rw [hP y (by omega), zero_mul]
  · simp [h]

end Key

section Products
variable {ι κ σ K : Type} [DecidableEq ι] [DecidableEq κ] [DecidableEq σ] [CommSemiring K]
variable (T1 : FST ι σ K) (T2 : FST κ σ K) (p' : ι) (q' : κ) (syms : List σ) (n : Nat)

theorem prod_X0_X0 (k1 k2 : Nat) (p : ι) (q : κ) (x z : List σ) :
    ((strsLe syms n).map fun y => X0 p' k1 p x y * (X0 q' k2 q z y : K)).sum
      = if k1 = 0 ∧ k2 = 0 ∧ p = p' ∧ q = q' ∧ x = [] ∧ z = [] then 1 else 0 := by
  have : ∀ y ∈ strsLe syms n, X0 p' k1 p x y * (X0 q' k2 q z y : K)
      = if y = [] then (if k1 = 0 ∧ k2 = 0 ∧ p = p' ∧ q = q' ∧ x = [] ∧ z = [] then 1 else 0)
        else 0 := by
    intro y _
    unfold X0
    by_cases hy : y = []
    · subst hy
      by_cases h1 : k1 = 0 ∧ p = p' ∧ x = [] <;> by_cases h2 : k2 = 0 ∧ q = q' ∧ z = []
      · simp [h1.1, h1.2.1, h1.2.2, h2.1, h2.2.1, h2.2.2]
      · have : ¬ (k1 = 0 ∧ k2 = 0 ∧ p = p' ∧ q = q' ∧ x = [] ∧ z = []) :=
          fun h => h2 ⟨h.2.1, h.2.2.2.1, h.2.2.2.2.2⟩
        have h2' : ¬ (k2 = 0 ∧ q = q' ∧ z = [] ∧ ([] : List σ) = []) := fun h => h2 ⟨h.1, h.2.1, h.2.2.1⟩
        rw [if_pos rfl, if_neg this, if_neg h2', mul_zero]
      · have : ¬ (k1 = 0 ∧ k2 = 0 ∧ p = p' ∧ q = q' ∧ x = [] ∧ z = []) :=
          fun h => h1 ⟨h.1, h.2.2.1, h.2.2.2.2.1⟩
        have h1' : ¬ (k1 = 0 ∧ p = p' ∧ x = [] ∧ ([] : List σ) = []) := fun h => h1 ⟨h.1, h.2.1, h.2.2.1⟩
        rw [if_pos rfl, if_neg this, if_neg h1', zero_mul]
      · have : ¬ (k1 = 0 ∧ k2 = 0 ∧ p = p' ∧ q = q' ∧ x = [] ∧ z = []) :=
          fun h => h1 ⟨h.1, h.2.2.1, h.2.2.2.2.1⟩
        have h1' : ¬ (k1 = 0 ∧ p = p' ∧ x = [] ∧ ([] : List σ) = []) := fun h => h1 ⟨h.1, h.2.1, h.2.2.1⟩
        rw [if_pos rfl, if_neg this, if_neg h1', zero_mul]
    · rw [if_neg hy, if_neg (fun h => hy h.2.2.2), zero_mul]
  rw [List.map_congr_left this, sum_strsLe_nil]

theorem prod_X0_Ys (k1 k2 : Nat) (p : ι) (q : κ) (x y z : List σ) :
    X0 p' k1 p x y * Ys T2 q' k2 q y z = 0 := by
  unfold X0
  by_cases hy : y = []
  · subst hy
    have : Ys T2 q' k2 q [] z = 0 := by
      unfold Ys
      split
      · apply sum_map_zero
        intro e2 _
        split
        · next hne =>
          cases hi : e2.inp with
          | none => exact absurd hi hne
          | some b => simp [lpeel]
        · rfl
      · rfl
    rw [this, mul_zero]
  · rw [if_neg (fun h => hy h.2.2.2), zero_mul]

theorem prod_Xs_X0 (k1 k2 : Nat) (p : ι) (q : κ) (x y z : List σ) :
    Xs T1 p' k1 p x y * (X0 q' k2 q z y : K) = 0 := by
  unfold X0
  by_cases hy : y = []
  · subst hy
    have : Xs T1 p' k1 p x [] = 0 := by
      unfold Xs
      split
      · apply sum_map_zero
        intro e1 _
        split
        · next hne =>
          cases ho : e1.out with
          | none => exact absurd ho hne
          | some b => simp [lpeel]
        · rfl
      · rfl
    rw [this, zero_mul]
  · rw [if_neg (fun h => hy h.2.2.2), mul_zero]

/-- `T2` moves alone -/
theorem prod_right (k1 k2 : Nat) (p : ι) (q : κ) (x z : List σ) :
    ((strsLe syms n).map fun y => SA T1 p' 1 k1 p x y * Ye T2 q' k2 q y z).sum
      = ((T2.arcs.filter (fun e => e.src = q)).map fun e2 =>
          if e2.inp = none then mRight (mohriS T1 T2 p' q' syms n) k1 k2 p x z e2 else 0).sum := by
  unfold Ye
  rw [pullR]
  apply congrArg
  apply List.map_congr_left
  intro e2 _
  split
  · unfold mRight mohriS
    simp only [SB_eq_Tk T2 q' 1 _ (by decide)]
  · rfl

/-- `T1` moves alone -/
theorem prod_left (k1 k2 : Nat) (p : ι) (q : κ) (x z : List σ) :
    ((strsLe syms n).map fun y => Xe T1 p' k1 p x y * SB T2 q' 2 k2 q y z).sum
      = ((T1.arcs.filter (fun e => e.src = p)).map fun e1 =>
          if e1.out = none then mLeft (mohriS T1 T2 p' q' syms n) k1 k2 q x z e1 else 0).sum := by
  unfold Xe
  rw [pullL]
  apply congrArg
  apply List.map_congr_left
  intro e1 _
  split
  · unfold mLeft mohriS
    simp only [SA_eq_Tk T1 p' 2 _ (by decide)]
  · rfl

/-- both move on ε -/
theorem prod_diag (k1 k2 : Nat) (p : ι) (q : κ) (x z : List σ) :
    ((strsLe syms n).map fun y => Xe T1 p' k1 p x y * Ye T2 q' k2 q y z).sum
      = ((T1.arcs.filter (fun e => e.src = p)).map fun e1 =>
          if e1.out = none then
            ((T2.arcs.filter (fun e => e.src = q)).map fun e2 =>
              if e2.inp = none then mBoth (mohriS T1 T2 p' q' syms n) k1 k2 x z e1 e2 else 0).sum
          else 0).sum := by
  unfold Xe Ye
  rw [pullLR]
  apply congrArg
  apply List.map_congr_left
  intro e1 _
  split
  · apply congrArg
    apply List.map_congr_left
    intro e2 _
    split
    · unfold mBoth mohriS
      simp only [SA_eq_Tk T1 p' 0 _ (by decide), SB_eq_Tk T2 q' 0 _ (by decide)]
    · rfl
  · rfl

/-- both move on the same symbol -/
theorem prod_match (hnd : syms.Nodup) (hs : ∀ e ∈ T1.arcs, ∀ b, e.out = some b → b ∈ syms)
    (k1 k2 : Nat) (hn : k1 ≤ n) (p : ι) (q : κ) (x z : List σ) :
    ((strsLe syms n).map fun y => Xs T1 p' k1 p x y * Ys T2 q' k2 q y z).sum
      = ((T1.arcs.filter (fun e => e.src = p)).map fun e1 =>
          optCase e1.out 0 (fun b =>
            ((T2.arcs.filter (fun e => e.src = q)).map fun e2 =>
              if e2.inp = some b then mBoth (mohriS T1 T2 p' q' syms n) k1 k2 x z e1 e2
              else 0).sum)).sum := by
  unfold Xs Ys
  rw [pullLR]
  apply congrArg
  apply List.map_congr_left
  intro e1 he1
  have hmem : e1 ∈ T1.arcs := (List.mem_filter.mp he1).1
  cases ho : e1.out with
  | none => simp
  | some b =>
    have hb : b ∈ syms := hs e1 hmem b ho
    rw [if_pos (by simp)]
    apply congrArg
    apply List.map_congr_left
    intro e2 _
    cases hi : e2.inp with
    | none => simp
    | some b' =>
      rw [if_pos (by simp)]
      unfold mBoth
      by_cases hg : 1 ≤ k1 ∧ 1 ≤ k2
      · simp only [hg, and_self, if_true]
        have hkey : ∀ x' z', ((strsLe syms n).map fun y =>
            ((lpeel (some b) y).map fun y' => Tk T1 (k1 - 1) e1.dst x' y' p').sum
              * ((lpeel (some b') y).map fun y' => Tk T2 (k2 - 1) e2.dst y' z' q').sum).sum
            = if b = b' then ((strsLe syms n).map fun y =>
                Tk T1 (k1 - 1) e1.dst x' y p' * Tk T2 (k2 - 1) e2.dst y z' q').sum else 0 := by
          intro x' z'
          exact sum_strsLe_key syms hnd b b' hb n (k1 - 1) (by omega) _ _
            (fun y hy => Tk_out_length T1 (k1 - 1) e1.dst x' y p' hy)
        simp only [hkey]
        by_cases hbb : b = b'
        · subst hbb
          simp only [if_true, mohriS, SA_eq_Tk T1 p' 0 _ (by decide), SB_eq_Tk T2 q' 0 _ (by decide)]
        · have : ¬ (some b' = some b) := fun h => hbb (Option.some.inj h).symm
          simp [hbb, this]
      · simp [hg]

end Products
end FstAux

namespace FstAux
section Assemble
variable {ι κ σ K : Type} [DecidableEq ι] [DecidableEq κ] [DecidableEq σ] [CommSemiring K]

omit [DecidableEq ι] [DecidableEq κ] [DecidableEq σ] in
/-- regroup the arcs of `T1` in `mohriStep` by kind -/
theorem split_e1 (E : List (TArc ι σ K)) (f : Nat) (Mf : TArc ι σ K → σ → K)
    (Df Lf : TArc ι σ K → K) :
    (E.map fun e1 =>
        optCase e1.out ((if f = 0 then Df e1 + Lf e1 else 0) + (if f = 2 then Lf e1 else 0))
          (fun b => if f ≤ 2 then Mf e1 b else 0)).sum
      = (if f ≤ 2 then (E.map fun e1 => optCase e1.out 0 (fun b => Mf e1 b)).sum else 0)
        + (if f = 0 then (E.map fun e1 => if e1.out = none then Df e1 else 0).sum else 0)
        + (if f = 0 ∨ f = 2 then (E.map fun e1 => if e1.out = none then Lf e1 else 0).sum else 0) := by
  induction E with
  | nil => simp
  | cons e1 E ih =>
    simp only [List.map_cons, List.sum_cons, ih]
    cases ho : e1.out with
    | some b =>
      by_cases h2 : f ≤ 2 <;> by_cases h0 : f = 0 <;> by_cases h02 : f = 0 ∨ f = 2 <;>
        simp [h2, h0] <;> ring
    | none =>
      by_cases h0 : f = 0
      · subst h0; simp; ring
      · by_cases h2 : f = 2
        · subst h2; simp; ring
        · simp [h0, h2]

variable (T1 : FST ι σ K) (T2 : FST κ σ K) (p' : ι) (q' : κ) (syms : List σ) (n : Nat)

/-- **the specification satisfies Mohri's recurrence** -/
theorem mohriS_step (hnd : syms.Nodup) (hs : ∀ e ∈ T1.arcs, ∀ b, e.out = some b → b ∈ syms)
    (f k1 k2 : Nat) (hf : f ≤ 2) (hn : k1 ≤ n) (p : ι) (q : κ) (x z : List σ) :
    mohriS T1 T2 p' q' syms n f k1 k2 p q x z
      = mohriStep T1 T2 p' q' (mohriS T1 T2 p' q' syms n) f k1 k2 p q x z := by
  -- pointwise expansion of the product
  have hpt : ∀ y, SA T1 p' f k1 p x y * SB T2 q' f k2 q y z
      = X0 p' k1 p x y * (X0 q' k2 q z y : K)
        + SA T1 p' 1 k1 p x y * (if f = 2 then 0 else Ye T2 q' k2 q y z)
        + (if f = 1 then 0 else Xe T1 p' k1 p x y) * SB T2 q' 2 k2 q y z
        + (if f = 1 then 0 else Xe T1 p' k1 p x y) * (if f = 2 then 0 else Ye T2 q' k2 q y z)
        + Xs T1 p' k1 p x y * Ys T2 q' k2 q y z := by
    intro y
    have h1 := prod_X0_Ys T2 p' q' k1 k2 p q x y z
    have h2 := prod_Xs_X0 T1 p' q' k1 k2 p q x y z
    unfold SA SB
    simp only [if_true]
    generalize (if f = 1 then (0 : K) else Xe T1 p' k1 p x y) = a
    generalize (if f = 2 then (0 : K) else Ye T2 q' k2 q y z) = b
    have : (X0 p' k1 p x y + a + Xs T1 p' k1 p x y) * (X0 q' k2 q z y + b + Ys T2 q' k2 q y z)
        = X0 p' k1 p x y * X0 q' k2 q z y + (X0 p' k1 p x y + 0 + Xs T1 p' k1 p x y) * b
          + a * (X0 q' k2 q z y + 0 + Ys T2 q' k2 q y z) + a * b
          + Xs T1 p' k1 p x y * Ys T2 q' k2 q y z
          + (X0 p' k1 p x y * Ys T2 q' k2 q y z + Xs T1 p' k1 p x y * X0 q' k2 q z y) := by ring
    rw [this, h1, h2]
    ring
  have hsum : mohriS T1 T2 p' q' syms n f k1 k2 p q x z
      = ((strsLe syms n).map fun y => X0 p' k1 p x y * (X0 q' k2 q z y : K)).sum
        + ((strsLe syms n).map fun y =>
            SA T1 p' 1 k1 p x y * (if f = 2 then 0 else Ye T2 q' k2 q y z)).sum
        + ((strsLe syms n).map fun y =>
            (if f = 1 then 0 else Xe T1 p' k1 p x y) * SB T2 q' 2 k2 q y z).sum
        + ((strsLe syms n).map fun y =>
            (if f = 1 then 0 else Xe T1 p' k1 p x y) * (if f = 2 then 0 else Ye T2 q' k2 q y z)).sum
        + ((strsLe syms n).map fun y => Xs T1 p' k1 p x y * Ys T2 q' k2 q y z).sum := by
    show ((strsLe syms n).map fun y => SA T1 p' f k1 p x y * SB T2 q' f k2 q y z).sum = _
    rw [List.map_congr_left (fun y _ => hpt y)]
    simp only [sum_add_map]
  rw [hsum, prod_X0_X0, prod_match T1 T2 p' q' syms n hnd hs k1 k2 hn]
  unfold mohriStep
  rw [split_e1 (T1.arcs.filter (fun e => e.src = p)) f
    (fun e1 b => ((T2.arcs.filter (fun e => e.src = q)).map fun e2 =>
      if e2.inp = some b then mBoth (mohriS T1 T2 p' q' syms n) k1 k2 x z e1 e2 else 0).sum)
    (fun e1 => ((T2.arcs.filter (fun e => e.src = q)).map fun e2 =>
      if e2.inp = none then mBoth (mohriS T1 T2 p' q' syms n) k1 k2 x z e1 e2 else 0).sum)
    (fun e1 => mLeft (mohriS T1 T2 p' q' syms n) k1 k2 q x z e1)]
  have hz : ∀ (F : List σ → K), ((strsLe syms n).map fun y => (0 : K) * F y).sum = 0 :=
    fun F => sum_map_zero _ _ (fun y _ => zero_mul _)
  have hz' : ∀ (F : List σ → K), ((strsLe syms n).map fun y => F y * (0 : K)).sum = 0 :=
    fun F => sum_map_zero _ _ (fun y _ => mul_zero _)
  have h012 : f = 0 ∨ f = 1 ∨ f = 2 := by omega
  rcases h012 with rfl | rfl | rfl
  · simp only [show ¬ ((0 : Nat) = 1) by decide, show ¬ ((0 : Nat) = 2) by decide, if_false, if_true,
      true_or, Nat.zero_le, prod_right, prod_left, prod_diag]
    ring
  · simp only [show ¬ ((1 : Nat) = 2) by decide, show ¬ ((1 : Nat) = 0) by decide, if_false, if_true,
      or_true, or_self, show (1 : Nat) ≤ 2 by decide, prod_right, hz, add_zero]
    ring
  · simp only [show ¬ ((2 : Nat) = 1) by decide, show ¬ ((2 : Nat) = 0) by decide, if_false, if_true,
      or_true, or_self, Nat.le_refl, prod_left, hz', add_zero, zero_add]
    ring

end Assemble
end FstAux

namespace FstAux
section Congr
variable {ι κ σ K : Type} [DecidableEq ι] [DecidableEq κ] [DecidableEq σ] [CommSemiring K]

/-- `mohriStep` only looks at the family at smaller grades, along arcs -/
theorem mohriStep_congr (T1 : FST ι σ K) (T2 : FST κ σ K) (p' : ι) (q' : κ) (V V' : MFam ι κ σ K)
    (f k1 k2 : Nat) (p : ι) (q : κ) (x z : List σ)
    (hR : ∀ e2 ∈ T2.arcs, 1 ≤ k2 → ∀ z', V 1 k1 (k2 - 1) p e2.dst x z' = V' 1 k1 (k2 - 1) p e2.dst x z')
    (hB : ∀ e1 ∈ T1.arcs, ∀ e2 ∈ T2.arcs, 1 ≤ k1 → 1 ≤ k2 → ∀ x' z',
      V 0 (k1 - 1) (k2 - 1) e1.dst e2.dst x' z' = V' 0 (k1 - 1) (k2 - 1) e1.dst e2.dst x' z')
    (hL : ∀ e1 ∈ T1.arcs, 1 ≤ k1 → ∀ x', V 2 (k1 - 1) k2 e1.dst q x' z = V' 2 (k1 - 1) k2 e1.dst q x' z) :
    mohriStep T1 T2 p' q' V f k1 k2 p q x z = mohriStep T1 T2 p' q' V' f k1 k2 p q x z := by
  have hRm : ∀ e2 ∈ T2.arcs.filter (fun e => e.src = q),
      mRight V k1 k2 p x z e2 = mRight V' k1 k2 p x z e2 := by
    intro e2 he2
    unfold mRight
    split
    · next h => simp only [hR e2 (List.mem_filter.mp he2).1 h]
    · rfl
  have hBm : ∀ e1 ∈ T1.arcs.filter (fun e => e.src = p), ∀ e2 ∈ T2.arcs.filter (fun e => e.src = q),
      mBoth V k1 k2 x z e1 e2 = mBoth V' k1 k2 x z e1 e2 := by
    intro e1 he1 e2 he2
    unfold mBoth
    split
    · next h => simp only [hB e1 (List.mem_filter.mp he1).1 e2 (List.mem_filter.mp he2).1 h.1 h.2]
    · rfl
  have hLm : ∀ e1 ∈ T1.arcs.filter (fun e => e.src = p),
      mLeft V k1 k2 q x z e1 = mLeft V' k1 k2 q x z e1 := by
    intro e1 he1
    unfold mLeft
    split
    · next h => simp only [hL e1 (List.mem_filter.mp he1).1 h]
    · rfl
  unfold mohriStep
  congr 2
  · by_cases hf : f = 0 ∨ f = 1
    · rw [if_pos hf, if_pos hf]
      apply congrArg
      apply List.map_congr_left
      intro e2 he2
      rw [hRm e2 he2]
    · rw [if_neg hf, if_neg hf]
  · apply congrArg
    apply List.map_congr_left
    intro e1 he1
    have h1 : ∀ (c : TArc κ σ K → Prop) [DecidablePred c],
        ((T2.arcs.filter (fun e => e.src = q)).map fun e2 =>
          if c e2 then mBoth V k1 k2 x z e1 e2 else 0).sum
        = ((T2.arcs.filter (fun e => e.src = q)).map fun e2 =>
          if c e2 then mBoth V' k1 k2 x z e1 e2 else 0).sum := by
      intro c _
      apply congrArg
      apply List.map_congr_left
      intro e2 he2
      rw [hBm e1 he1 e2 he2]
    cases e1.out with
    | none => simp only [optCase_none, h1 (fun e2 => e2.inp = none), hLm e1 he1]
    | some b => simp only [optCase_some, h1 (fun e2 => e2.inp = some b)]

/-- at grade `(0, 0)` only the empty path remains -/
theorem mohriStep_zero (T1 : FST ι σ K) (T2 : FST κ σ K) (p' : ι) (q' : κ) (V : MFam ι κ σ K)
    (f : Nat) (p : ι) (q : κ) (x z : List σ) :
    mohriStep T1 T2 p' q' V f 0 0 p q x z
      = if p = p' ∧ q = q' ∧ x = [] ∧ z = [] then 1 else 0 := by
  have hR : ∀ e2 : TArc κ σ K, mRight V 0 0 p x z e2 = 0 := fun e2 => by simp [mRight]
  have hB : ∀ (e1 : TArc ι σ K) (e2 : TArc κ σ K), mBoth V 0 0 x z e1 e2 = 0 :=
    fun e1 e2 => by simp [mBoth]
  have hL : ∀ e1 : TArc ι σ K, mLeft V 0 0 q x z e1 = 0 := fun e1 => by simp [mLeft]
  unfold mohriStep
  simp only [hR, hB, hL, ite_self, true_and]
  have h0 : ∀ (l : List (TArc κ σ K)), (l.map fun _ => (0 : K)).sum = 0 :=
    fun l => sum_map_zero _ _ (fun _ _ => rfl)
  simp only [h0, ite_self, add_zero]
  have h1 : ((T1.arcs.filter (fun e => e.src = p)).map fun e1 : TArc ι σ K =>
      optCase e1.out (0 : K) fun _ => 0).sum = 0 := by
    apply sum_map_zero
    intro e1 _
    cases e1.out <;> rfl
  simp only [h1, add_zero]

end Congr
end FstAux

/-! ### the general composition theorem -/
section ComposeGeneral
variable {ι κ σ K : Type} [DecidableEq ι] [DecidableEq κ] [DecidableEq σ] [CommSemiring K]

/-- **Mohri's filter is correct, path by path** (`filter_unique_interleaving` in weighted form):
from the product state `((p, f), q)` of `T1 @ T2`, the paths with at most `N` arcs along which
`T1` moves `k1` times and `T2` moves `k2` times (`k1 + k2 ≤ N`), reading `x`, writing `z` and
ending above `(p', q')` weigh as much as the pairs of a `k1`-arc path of `T1` and a `k2`-arc path of
`T2` agreeing on a middle string `y` — every pair once — where in filter state `1` the path of `T1`
may not start with an output-ε arc and in state `2` the path of `T2` may not start with an
input-ε arc (`mohriS`; no restriction in the initial filter state `0`). -/
theorem compose_graded (T1 : FST ι σ K) (T2 : FST κ σ K) (p' : ι) (q' : κ) (syms : List σ)
    (hnd : syms.Nodup) (hs : ∀ e ∈ T1.arcs, ∀ b, e.out = some b → b ∈ syms)
    (N k1 k2 f : Nat) (hN : k1 + k2 ≤ N) (n : Nat) (hn : k1 ≤ n) (hf : f ≤ 2)
    (p : ι) (hp : p ∈ T1.states) (q : κ) (hq : q ∈ T2.states) (x z : List σ) :
    GN (T1.compose T2) mohriGrade (mohriFin p' q') N k1 k2 ((p, f), q) x z
      = mohriS T1 T2 p' q' syms n f k1 k2 p q x z := by
  induction N generalizing k1 k2 f p q x z with
  | zero =>
    have h1 : k1 = 0 := by omega
    have h2 : k2 = 0 := by omega
    subst h1 h2
    rw [mohriS_step T1 T2 p' q' syms n hnd hs f 0 0 hf hn, mohriStep_zero, GN]
    have : (mohriFin p' q' ((p, f), q) = true) ↔ (p = p' ∧ q = q') := by
      simp [mohriFin, hf]
    simp only [this, true_and]
    apply if_congr _ rfl rfl
    tauto
  | succ N ih =>
    rw [GN_compose_step T1 T2 p' q' N f k1 k2 hf p hp q hq,
      mohriS_step T1 T2 p' q' syms n hnd hs f k1 k2 hf hn]
    apply mohriStep_congr
    · intro e2 he2 h z'
      exact ih k1 (k2 - 1) 1 (by omega) hn (by decide) p hp e2.dst (FstAux.mem_states_dst T2 e2 he2) x z'
    · intro e1 he1 e2 he2 h1 h2 x' z'
      exact ih (k1 - 1) (k2 - 1) 0 (by omega) (by omega) (by decide) e1.dst
        (FstAux.mem_states_dst T1 e1 he1) e2.dst (FstAux.mem_states_dst T2 e2 he2) x' z'
    · intro e1 he1 h x'
      exact ih (k1 - 1) k2 2 (by omega) (by omega) (by decide) e1.dst
        (FstAux.mem_states_dst T1 e1 he1) q hq x' z

/-- the statement from the initial filter state: **every matching pair of paths exactly once** -/
theorem compose_graded_init (T1 : FST ι σ K) (T2 : FST κ σ K) (p' : ι) (q' : κ)
    (N k1 k2 : Nat) (hN : k1 + k2 ≤ N) (n : Nat) (hn : k1 ≤ n)
    (p : ι) (hp : p ∈ T1.states) (q : κ) (hq : q ∈ T2.states) (x z : List σ) :
    GN (T1.compose T2) mohriGrade (mohriFin p' q') N k1 k2 ((p, 0), q) x z
      = ((strsLe T1.outSyms n).map fun y => Tk T1 k1 p x y p' * Tk T2 k2 q y z q').sum := by
  rw [compose_graded T1 T2 p' q' T1.outSyms (nodup_eraseDups _)
    (fun e he b hb => out_mem_outSyms T1 e he b hb) N k1 k2 0 hN n hn (by decide) p hp q hq]
  unfold mohriS
  simp only [SA_eq_Tk T1 p' 0 _ (by decide), SB_eq_Tk T2 q' 0 _ (by decide)]

end ComposeGeneral

/-! ### the two branches of `__matmul__` agree -/
section Assoc
variable {ι κ τ σ K : Type} [DecidableEq ι] [DecidableEq κ] [DecidableEq τ] [DecidableEq σ]
  [CommSemiring K]

omit [DecidableEq ι] [DecidableEq κ] [CommSemiring K] in
/-- the output symbols of a product are output symbols of its right factor -/
theorem composeRaw_out_mem [Mul K] (A : FST ι σ K) (B : FST κ σ K) (syms : List σ)
    (hB : ∀ e ∈ B.arcs, ∀ b, e.out = some b → b ∈ syms) :
    ∀ e ∈ (A.composeRaw B).arcs, ∀ b, e.out = some b → b ∈ syms := by
  intro e he b hb
  simp only [FST.composeRaw, List.mem_flatMap, List.mem_map, List.mem_filter] at he
  obtain ⟨e1, _, e2, ⟨he2, _⟩, rfl⟩ := he
  exact hB e2 he2 b hb

/-- **the product construction is associative** up to re-association of the states, path length
by path length (no hypothesis on ε) -/
theorem composeRaw_assoc_Tk (A : FST ι σ K) (B : FST τ σ K) (C : FST κ σ K) (k : Nat)
    (p : ι) (f : τ) (q : κ) (x z : List σ) (p' : ι) (f' : τ) (q' : κ) :
    Tk ((A.composeRaw B).composeRaw C) k ((p, f), q) x z ((p', f'), q')
      = Tk (A.composeRaw (B.composeRaw C)) k (p, (f, q)) x z (p', (f', q')) := by
  have hA := fun e he b hb => out_mem_outSyms A e he b hb
  have hB := fun e he b hb => out_mem_outSyms B e he b hb
  rw [composeRaw_Tk (A.composeRaw B) C B.outSyms (nodup_eraseDups _)
      (composeRaw_out_mem A B B.outSyms hB),
    composeRaw_Tk A (B.composeRaw C) A.outSyms (nodup_eraseDups _) hA]
  simp only [composeRaw_Tk A B A.outSyms (nodup_eraseDups _) hA,
    composeRaw_Tk B C B.outSyms (nodup_eraseDups _) hB]
  simp only [← List.sum_map_mul_left, ← List.sum_map_mul_right]
  rw [sum_swap]
  apply congrArg
  apply List.map_congr_left
  intro y1 _
  apply congrArg
  apply List.map_congr_left
  intro y2 _
  ring

/-- the two association orders chosen by `__matmul__` give the same relation, path length by path
length -/
theorem compose'_Tk (T1 : FST ι σ K) (T2 : FST κ σ K) (k : Nat) (p : ι) (f : Nat) (q : κ)
    (x z : List σ) (p' : ι) (f' : Nat) (q' : κ) :
    Tk (T1.compose' T2) k (p, (f, q)) x z (p', (f', q'))
      = Tk (T1.compose T2) k ((p, f), q) x z ((p', f'), q') := by
  unfold FST.compose' FST.compose FST.composeR FST.composeL
  rw [unlift_Tk, unlift_Tk, composeRaw_assoc_Tk]

end Assoc

/-! ### `__matmul__` without ε on the middle tape -/
section EpsFree
variable {ι κ σ K : Type} [DecidableEq ι] [DecidableEq κ] [DecidableEq σ] [CommSemiring K]

/-- without ε on the middle tape, `T1 @ T2` (through the filter) has the paths of the plain product,
all of them inside filter state `0` -/
theorem compose_epsfree_Tk (T1 : FST ι σ K) (T2 : FST κ σ K)
    (h1 : ∀ e ∈ T1.arcs, e.out ≠ none) (h2 : ∀ e ∈ T2.arcs, e.inp ≠ none)
    (k f : Nat) (hf : f ≤ 2) (p : ι) (hp : p ∈ T1.states) (q : κ) (hq : q ∈ T2.states)
    (x z : List σ) (p' : ι) (f' : Nat) (q' : κ) :
    Tk (T1.compose T2) k ((p, f), q) x z ((p', f'), q')
      = if (k = 0 ∧ f' = f) ∨ (1 ≤ k ∧ f' = 0) then Tk (T1.composeRaw T2) k (p, q) x z (p', q')
        else 0 := by
  induction k generalizing f p q x z with
  | zero =>
    simp only [Tk_zero, Prod.mk.injEq, true_and, Nat.le_zero_eq, Nat.succ_ne_zero, false_and,
      or_false]
    by_cases hff : f' = f
    · subst hff; simp [and_assoc]
    · have : ¬ (f = f') := fun h => hff h.symm
      simp [hff, this]
  | succ k ih =>
    rw [Tk_succ, compose_src_sum T1 T2 p hp q hq f, Tk_succ, composeRaw_src_sum]
    -- `T2` never moves alone
    have hright : ∀ (G : TArc κ σ K → K),
        ((T2.arcs.filter (fun e => e.src = q)).map fun e2 => if e2.inp = none then G e2 else 0).sum
          = 0 := by
      intro G
      apply sum_map_zero
      intro e2 he2
      rw [if_neg (h2 e2 (List.mem_filter.mp he2).1)]
    rw [hright, ite_self, zero_add]
    have hcond : ((k + 1 = 0 ∧ f' = f) ∨ (1 ≤ k + 1 ∧ f' = 0)) ↔ f' = 0 := by
      constructor
      · rintro (⟨h, _⟩ | ⟨_, h⟩)
        · omega
        · exact h
      · intro h; exact Or.inr ⟨by omega, h⟩
    simp only [hcond]
    rw [← sum_ite_c]
    apply congrArg
    apply List.map_congr_left
    intro e1 he1
    have hmem1 : e1 ∈ T1.arcs := (List.mem_filter.mp he1).1
    cases ho : e1.out with
    | none => exact absurd ho (h1 e1 hmem1)
    | some b =>
      simp only [optCase_some, if_pos hf, Option.isSome_some, true_and]
      rw [← sum_ite_c]
      apply congrArg
      apply List.map_congr_left
      intro e2 he2
      have hmem2 : e2 ∈ T2.arcs := (List.mem_filter.mp he2).1
      by_cases hi : e2.inp = some b
      · simp only [hi, if_true, prodArc]
        have hih : ∀ x' z', Tk (T1.compose T2) k ((e1.dst, 0), e2.dst) x' z' ((p', f'), q')
            = if f' = 0 then Tk (T1.composeRaw T2) k (e1.dst, e2.dst) x' z' (p', q') else 0 := by
          intro x' z'
          rw [ih 0 (by decide) e1.dst (FstAux.mem_states_dst T1 e1 hmem1) e2.dst
            (FstAux.mem_states_dst T2 e2 hmem2)]
          have : ((k = 0 ∧ f' = 0) ∨ (1 ≤ k ∧ f' = 0)) ↔ f' = 0 := by
            constructor
            · rintro (⟨_, h⟩ | ⟨_, h⟩) <;> exact h
            · intro h
              by_cases hk : k = 0
              · exact Or.inl ⟨hk, h⟩
              · exact Or.inr ⟨by omega, h⟩
          simp only [this]
        simp only [hih]
        by_cases hf' : f' = 0
        · simp [hf']
        · simp [hf']
      · simp [hi]

omit [DecidableEq ι] [DecidableEq κ] [DecidableEq σ] in
theorem compose_start [DecidableEq ι] [DecidableEq κ] [DecidableEq σ] (T1 : FST ι σ K)
    (T2 : FST κ σ K) :
    (T1.compose T2).start
      = T1.start.flatMap fun s1 => T2.start.map fun s2 => (((s1.1, 0), s2.1), s1.2 * 1 * s2.2) := by
  simp [FST.compose, FST.composeL, FST.unlift, FST.composeRaw, FST.augment, epsilonFilter,
    List.flatMap_assoc]

omit [DecidableEq ι] [DecidableEq κ] [DecidableEq σ] in
theorem compose_stop [DecidableEq ι] [DecidableEq κ] [DecidableEq σ] (T1 : FST ι σ K)
    (T2 : FST κ σ K) :
    (T1.compose T2).stop
      = T1.stop.flatMap fun f1 => [0, 1, 2].flatMap fun φ => T2.stop.map fun f2 =>
          (((f1.1, φ), f2.1), f1.2 * 1 * f2.2) := by
  simp [FST.compose, FST.composeL, FST.unlift, FST.composeRaw, FST.augment, epsilonFilter,
    List.flatMap_assoc]

theorem compose_epsfree_TPk (T1 : FST ι σ K) (T2 : FST κ σ K)
    (h1 : ∀ e ∈ T1.arcs, e.out ≠ none) (h2 : ∀ e ∈ T2.arcs, e.inp ≠ none)
    (k : Nat) (x z : List σ) :
    TPk (T1.compose T2) k x z = TPk (T1.composeRaw T2) k x z := by
  have hstart : (T1.composeRaw T2).start
      = T1.start.flatMap fun s1 => T2.start.map fun s2 => ((s1.1, s2.1), s1.2 * s2.2) := rfl
  have hstop : (T1.composeRaw T2).stop
      = T1.stop.flatMap fun f1 => T2.stop.map fun f2 => ((f1.1, f2.1), f1.2 * f2.2) := rfl
  simp only [TPk_eq]
  rw [compose_start, compose_stop, hstart, hstop]
  simp only [sum_flatMap, List.map_map, Function.comp_def]
  apply congrArg
  apply List.map_congr_left
  intro s1 hs1
  apply congrArg
  apply List.map_congr_left
  intro s2 hs2
  apply congrArg
  apply List.map_congr_left
  intro f1 _
  simp only [compose_epsfree_Tk T1 T2 h1 h2 k 0 (by decide) s1.1 (FstAux.mem_states_start T1 s1 hs1)
    s2.1 (FstAux.mem_states_start T2 s2 hs2)]
  simp only [List.map_cons, List.map_nil, List.sum_cons, List.sum_nil, add_zero]
  have e1 : ¬ ((1 : Nat) = 0) := by decide
  have e2 : ¬ ((2 : Nat) = 0) := by decide
  by_cases hk : k = 0
  · subst hk
    simp
  · have hk' : 1 ≤ k := by omega
    simp [hk, hk']

/-- **`compose_no_eps`**: if no arc of `T1` writes ε and no arc of `T2` reads ε, the machine built
by `__matmul__` (augmentation, filter, two products) computes
`(T1 @ T2)(x, z) = Σ_y T1(x, y) · T2(y, z)`, stratified by the number of arcs -/
theorem compose_epsfree_TPN (T1 : FST ι σ K) (T2 : FST κ σ K)
    (h1 : ∀ e ∈ T1.arcs, e.out ≠ none) (h2 : ∀ e ∈ T2.arcs, e.inp ≠ none)
    (n : Nat) (x z : List σ) :
    TPN (T1.compose T2) n x z
      = ((strsLe T1.outSyms n).map fun y => TPN T1 n x y * TPN T2 n y z).sum := by
  rw [← composeRaw_TPN' T1 T2 h1 h2]
  simp only [TPN_eq, compose_epsfree_TPk T1 T2 h1 h2]

end EpsFree

/-! ### summing the grades out: `GN` refines the bounded path sums `Tk` -/
namespace FstAux
section Shift
variable {K : Type} [CommSemiring K]

/-- shifting a bounded sum by a grade `g ≤ 1` -/
theorem sum_range_shift (N g : Nat) (hg : g ≤ 1) (F : Nat → K) (hF : F (N+1) = 0) :
    ((List.range (N+2)).map fun k => if g ≤ k then F (k - g) else 0).sum
      = ((List.range (N+1)).map F).sum := by
  have h01 : g = 0 ∨ g = 1 := by omega
  rcases h01 with rfl | rfl
  · simp only [Nat.zero_le, if_true, Nat.sub_zero]
    rw [List.range_succ (n := N+1), List.map_append, List.sum_append]
    simp [hF]
  · rw [List.range_succ_eq_map (n := N+1), List.map_cons, List.sum_cons, List.map_map]
    simp [Function.comp_def]

theorem sum_range_ind0 (N : Nat) (c : K) :
    ((List.range (N+1)).map fun k => if k = 0 then c else 0).sum = c := by
  rw [sum_range_ite_eq (N+1) 0 (fun _ => c)]
  simp

theorem dsum_swap1 {ρ ρ' α : Type} (R : List ρ) (R' : List ρ') (A : List α) (H : ρ → ρ' → α → K) :
    (R.map fun k1 => (R'.map fun k2 => (A.map fun a => H k1 k2 a).sum).sum).sum
      = (A.map fun a => (R.map fun k1 => (R'.map fun k2 => H k1 k2 a).sum).sum).sum := by
  have : ∀ k1 ∈ R, (R'.map fun k2 => (A.map fun a => H k1 k2 a).sum).sum
      = (A.map fun a => (R'.map fun k2 => H k1 k2 a).sum).sum := fun k1 _ => sum_swap R' A _
  rw [List.map_congr_left this, sum_swap R A]

theorem dsum_swap3 {ρ ρ' α β γ : Type} (R : List ρ) (R' : List ρ') (E : List α) (L : α → List β)
    (L' : α → List γ) (H : ρ → ρ' → α → β → γ → K) :
    (R.map fun k1 => (R'.map fun k2 => (E.map fun e => ((L e).map fun b => ((L' e).map fun c =>
        H k1 k2 e b c).sum).sum).sum).sum).sum
      = (E.map fun e => ((L e).map fun b => ((L' e).map fun c =>
          (R.map fun k1 => (R'.map fun k2 => H k1 k2 e b c).sum).sum).sum).sum).sum := by
  rw [dsum_swap1]
  apply congrArg
  apply List.map_congr_left
  intro e _
  rw [dsum_swap1]
  apply congrArg
  apply List.map_congr_left
  intro b _
  rw [dsum_swap1]

end Shift

section Total
variable {ι σ K : Type} [DecidableEq ι] [DecidableEq σ] [CommSemiring K]

/-- ungraded bounded path sum to a set of final states -/
def UN (M : FST ι σ K) (fin : ι → Bool) : Nat → ι → List σ → List σ → K
  | 0, i, x, y => if fin i = true ∧ x = [] ∧ y = [] then 1 else 0
  | N+1, i, x, y =>
    (if fin i = true ∧ x = [] ∧ y = [] then 1 else 0)
    + ((M.arcs.filter (fun e => e.src = i)).map fun e =>
        ((lpeel e.inp x).map fun x' => ((lpeel e.out y).map fun y' =>
          e.w * UN M fin N e.dst x' y').sum).sum).sum

/-- no path with at most `N` arcs of grade `≤ (1, 1)` has a grade component above `N` -/
theorem GN_vanish (M : FST ι σ K) (gr : TArc ι σ K → Nat × Nat)
    (hgr : ∀ e ∈ M.arcs, (gr e).1 ≤ 1 ∧ (gr e).2 ≤ 1) (fin : ι → Bool) (N k1 k2 : Nat)
    (h : N < k1 ∨ N < k2) (i : ι) (x y : List σ) : GN M gr fin N k1 k2 i x y = 0 := by
  induction N generalizing k1 k2 i x y with
  | zero =>
    rw [GN, if_neg]
    rintro ⟨h1, h2, _⟩; omega
  | succ N ih =>
    rw [GN, if_neg (by rintro ⟨h1, h2, _⟩; omega), zero_add]
    apply sum_map_zero
    intro e he
    have hg := hgr e (List.mem_filter.mp he).1
    split
    · apply sum_map_zero
      intro x' _
      apply sum_map_zero
      intro y' _
      rw [ih _ _ (by omega), mul_zero]
    · rfl

/-- summing over all grades forgets the grading -/
theorem GN_sum (M : FST ι σ K) (gr : TArc ι σ K → Nat × Nat)
    (hgr : ∀ e ∈ M.arcs, (gr e).1 ≤ 1 ∧ (gr e).2 ≤ 1) (fin : ι → Bool) (N : Nat)
    (i : ι) (x y : List σ) :
    ((List.range (N+1)).map fun k1 => ((List.range (N+1)).map fun k2 =>
        GN M gr fin N k1 k2 i x y).sum).sum = UN M fin N i x y := by
  induction N generalizing i x y with
  | zero => simp [GN, UN]
  | succ N ih =>
    simp only [GN, UN, sum_add_map]
    congr 1
    · -- the empty path
      have : ∀ k1 ∈ List.range (N+1+1), ((List.range (N+1+1)).map fun k2 =>
          if k1 = 0 ∧ k2 = 0 ∧ fin i = true ∧ x = [] ∧ y = [] then (1 : K) else 0).sum
          = if k1 = 0 then (if fin i = true ∧ x = [] ∧ y = [] then 1 else 0) else 0 := by
        intro k1 _
        by_cases h1 : k1 = 0
        · subst h1
          simp only [true_and, if_true]
          have : ∀ k2 ∈ List.range (N+1+1),
              (if k2 = 0 ∧ fin i = true ∧ x = [] ∧ y = [] then (1 : K) else 0)
              = if k2 = 0 then (if fin i = true ∧ x = [] ∧ y = [] then 1 else 0) else 0 := by
            intro k2 _
            by_cases h2 : k2 = 0 <;> simp [h2]
          rw [List.map_congr_left this, sum_range_ind0]
        · simp [h1]
      rw [List.map_congr_left this, sum_range_ind0]
    · -- one more arc
      have hterm : ∀ (e : TArc ι σ K) (k1 k2 : Nat),
          (if (gr e).1 ≤ k1 ∧ (gr e).2 ≤ k2 then
            ((lpeel e.inp x).map fun x' => ((lpeel e.out y).map fun y' =>
              e.w * GN M gr fin N (k1 - (gr e).1) (k2 - (gr e).2) e.dst x' y').sum).sum else 0)
          = ((lpeel e.inp x).map fun x' => ((lpeel e.out y).map fun y' =>
              e.w * (if (gr e).1 ≤ k1 then (if (gr e).2 ≤ k2 then
                GN M gr fin N (k1 - (gr e).1) (k2 - (gr e).2) e.dst x' y' else 0) else 0)).sum).sum := by
        intro e k1 k2
        by_cases h1 : (gr e).1 ≤ k1 <;> by_cases h2 : (gr e).2 ≤ k2 <;> simp [h1, h2]
      simp only [hterm]
      rw [dsum_swap3]
      apply congrArg
      apply List.map_congr_left
      intro e he
      have hg := hgr e (List.mem_filter.mp he).1
      apply congrArg
      apply List.map_congr_left
      intro x' _
      apply congrArg
      apply List.map_congr_left
      intro y' _
      simp only [List.sum_map_mul_left]
      congr 1
      rw [← ih e.dst x' y']
      -- shift both grades
      have hin : ∀ k1 ∈ List.range (N+2), ((List.range (N+2)).map fun k2 =>
          if (gr e).1 ≤ k1 then (if (gr e).2 ≤ k2 then
            GN M gr fin N (k1 - (gr e).1) (k2 - (gr e).2) e.dst x' y' else 0) else 0).sum
          = if (gr e).1 ≤ k1 then ((List.range (N+1)).map fun b =>
              GN M gr fin N (k1 - (gr e).1) b e.dst x' y').sum else 0 := by
        intro k1 _
        rw [sum_ite_c]
        split
        · exact sum_range_shift N (gr e).2 hg.2
            (fun b => GN M gr fin N (k1 - (gr e).1) b e.dst x' y')
            (GN_vanish M gr hgr fin N _ _ (Or.inr (Nat.lt_succ_self N)) _ _ _)
        · rfl
      rw [List.map_congr_left hin]
      exact sum_range_shift N (gr e).1 hg.1
        (fun a => ((List.range (N+1)).map fun b => GN M gr fin N a b e.dst x' y').sum)
        (sum_map_zero _ _ (fun b _ =>
          GN_vanish M gr hgr fin N _ _ (Or.inl (Nat.lt_succ_self N)) _ _ _))

/-- `UN` is the sum of the exact-length path sums to the final states -/
theorem UN_eq (M : FST ι σ K) (fin : ι → Bool) (J : List ι) (hJ : J.Nodup)
    (hfin : ∀ j, fin j = true ↔ j ∈ J) (N : Nat) (i : ι) (x y : List σ) :
    UN M fin N i x y
      = ((List.range (N+1)).map fun k => (J.map fun j => Tk M k i x y j).sum).sum := by
  have hbase : ∀ (i : ι) (x y : List σ), (if fin i = true ∧ x = [] ∧ y = [] then (1 : K) else 0)
      = (J.map fun j => Tk M 0 i x y j).sum := by
    intro i x y
    have : ∀ j ∈ J, Tk M 0 i x y j
        = if i = j then (if x = [] ∧ y = [] then (1 : K) else 0) else 0 := by
      intro j _
      rw [Tk_zero]
      by_cases h : i = j <;> simp [h]
    rw [List.map_congr_left this, sum_ite_eq_nodup J hJ i (fun _ => if x = [] ∧ y = [] then 1 else 0)]
    by_cases h : fin i = true
    · simp [h, (hfin i).mp h]
    · have : i ∉ J := fun h' => h ((hfin i).mpr h')
      simp [h, this]
  induction N generalizing i x y with
  | zero => rw [UN, hbase]; simp
  | succ N ih =>
    rw [UN, List.range_succ_eq_map (n := N+1), List.map_cons, List.sum_cons, List.map_map, hbase]
    congr 1
    simp only [Function.comp_def, Nat.succ_eq_add_one, Tk_succ, ih]
    -- exchange the sums
    simp only [← List.sum_map_mul_left]
    rw [dsum_swap3]

/-- **the graded sums refine the path sums**: summing `GN` over all grades gives the weight of the
paths with at most `N` arcs to the final states -/
theorem GN_total (M : FST ι σ K) (gr : TArc ι σ K → Nat × Nat)
    (hgr : ∀ e ∈ M.arcs, (gr e).1 ≤ 1 ∧ (gr e).2 ≤ 1) (fin : ι → Bool) (J : List ι) (hJ : J.Nodup)
    (hfin : ∀ j, fin j = true ↔ j ∈ J) (N : Nat) (i : ι) (x y : List σ) :
    ((List.range (N+1)).map fun k1 => ((List.range (N+1)).map fun k2 =>
        GN M gr fin N k1 k2 i x y).sum).sum
      = ((List.range (N+1)).map fun k => (J.map fun j => Tk M k i x y j).sum).sum := by
  rw [GN_sum M gr hgr, UN_eq M fin J hJ hfin]

end Total
end FstAux

/-! ### accepting weights of `T1 @ T2`, by grade -/
section GradedAccept
variable {ι σ K : Type} [DecidableEq ι] [DecidableEq σ] [CommSemiring K]

/-- graded accepting weight: paths with at most `N` arcs of total grade `(k1, k2)` from an initial to
a final state, with the initial and final weights -/
def GPN (M : FST ι σ K) (gr : TArc ι σ K → Nat × Nat) (N k1 k2 : Nat) (x y : List σ) : K :=
  (M.start.map fun s => (M.stop.map fun f =>
    s.2 * GN M gr (fun j => decide (j = f.1)) N k1 k2 s.1 x y * f.2).sum).sum

/-- **summing the grades out gives `TPN`** -/
theorem GPN_total (M : FST ι σ K) (gr : TArc ι σ K → Nat × Nat)
    (hgr : ∀ e ∈ M.arcs, (gr e).1 ≤ 1 ∧ (gr e).2 ≤ 1) (N : Nat) (x y : List σ) :
    ((List.range (N+1)).map fun k1 => ((List.range (N+1)).map fun k2 =>
        GPN M gr N k1 k2 x y).sum).sum = TPN M N x y := by
  unfold GPN
  rw [dsum_swap1]
  simp only [TPN_eq, TPk_eq]
  rw [sum_swap (List.range (N+1)) M.start]
  apply congrArg
  apply List.map_congr_left
  intro s _
  rw [dsum_swap1, sum_swap (List.range (N+1)) M.stop]
  apply congrArg
  apply List.map_congr_left
  intro f _
  have h := GN_total M gr hgr (fun j => decide (j = f.1)) [f.1] (by simp) (by simp) N s.1 x y
  simp only [List.map_cons, List.map_nil, List.sum_cons, List.sum_nil, add_zero] at h
  simp only [List.sum_map_mul_left, List.sum_map_mul_right, h]

/-- `GN` is additive in the set of final states -/
theorem GN_fin_add (M : FST ι σ K) (gr : TArc ι σ K → Nat × Nat) (fin fin1 fin2 : ι → Bool)
    (h : ∀ j, (fin j = true ↔ (fin1 j = true ∨ fin2 j = true)) ∧ ¬ (fin1 j = true ∧ fin2 j = true))
    (N k1 k2 : Nat) (i : ι) (x y : List σ) :
    GN M gr fin N k1 k2 i x y = GN M gr fin1 N k1 k2 i x y + GN M gr fin2 N k1 k2 i x y := by
  have hbase : ∀ (k1 k2 : Nat) (i : ι) (x y : List σ),
      (if k1 = 0 ∧ k2 = 0 ∧ fin i = true ∧ x = [] ∧ y = [] then (1 : K) else 0)
      = (if k1 = 0 ∧ k2 = 0 ∧ fin1 i = true ∧ x = [] ∧ y = [] then 1 else 0)
        + (if k1 = 0 ∧ k2 = 0 ∧ fin2 i = true ∧ x = [] ∧ y = [] then 1 else 0) := by
    intro k1 k2 i x y
    have hi := h i
    by_cases h1 : fin1 i = true <;> by_cases h2 : fin2 i = true
    · exact absurd ⟨h1, h2⟩ hi.2
    · have : fin i = true := hi.1.mpr (Or.inl h1)
      simp [this, h1, h2]
    · have : fin i = true := hi.1.mpr (Or.inr h2)
      simp [this, h1, h2]
    · have : ¬ (fin i = true) := fun h' => by
        rcases hi.1.mp h' with h' | h'
        · exact h1 h'
        · exact h2 h'
      simp [this, h1, h2]
  induction N generalizing k1 k2 i x y with
  | zero => simp only [GN, hbase]
  | succ N ih =>
    simp only [GN, hbase]
    have : ∀ e ∈ M.arcs.filter (fun e => e.src = i),
        (if (gr e).1 ≤ k1 ∧ (gr e).2 ≤ k2 then
          ((lpeel e.inp x).map fun x' => ((lpeel e.out y).map fun y' =>
            e.w * GN M gr fin N (k1 - (gr e).1) (k2 - (gr e).2) e.dst x' y').sum).sum else 0)
        = (if (gr e).1 ≤ k1 ∧ (gr e).2 ≤ k2 then
            ((lpeel e.inp x).map fun x' => ((lpeel e.out y).map fun y' =>
              e.w * GN M gr fin1 N (k1 - (gr e).1) (k2 - (gr e).2) e.dst x' y').sum).sum else 0)
          + (if (gr e).1 ≤ k1 ∧ (gr e).2 ≤ k2 then
            ((lpeel e.inp x).map fun x' => ((lpeel e.out y).map fun y' =>
              e.w * GN M gr fin2 N (k1 - (gr e).1) (k2 - (gr e).2) e.dst x' y').sum).sum else 0) := by
      intro e _
      split
      · simp only [ih, mul_add, sum_add_map]
      · simp
    rw [List.map_congr_left this, sum_add_map]
    ring

end GradedAccept

section ComposeAccept
variable {ι κ σ K : Type} [DecidableEq ι] [DecidableEq κ] [DecidableEq σ] [CommSemiring K]

omit [DecidableEq ι] [DecidableEq κ] [DecidableEq σ] [CommSemiring K] in
theorem mohriGrade_le (e : TArc ((ι × Nat) × κ) σ K) :
    (mohriGrade e).1 ≤ 1 ∧ (mohriGrade e).2 ≤ 1 := by
  unfold mohriGrade
  split <;> simp

/-- the three accepting states above `(p', q')` -/
theorem GN_mohriFin (M : FST ((ι × Nat) × κ) σ K) (gr : TArc ((ι × Nat) × κ) σ K → Nat × Nat)
    (p' : ι) (q' : κ) (N k1 k2 : Nat) (i : (ι × Nat) × κ) (x z : List σ) :
    GN M gr (mohriFin p' q') N k1 k2 i x z
      = GN M gr (fun j => decide (j = ((p', 0), q'))) N k1 k2 i x z
        + (GN M gr (fun j => decide (j = ((p', 1), q'))) N k1 k2 i x z
          + (GN M gr (fun j => decide (j = ((p', 2), q'))) N k1 k2 i x z + 0)) := by
  rw [add_zero]
  rw [GN_fin_add M gr (mohriFin p' q') (fun j => decide (j = ((p', 0), q')))
      (fun j => decide (j = ((p', 1), q')) || decide (j = ((p', 2), q'))),
    GN_fin_add M gr (fun j => decide (j = ((p', 1), q')) || decide (j = ((p', 2), q')))
      (fun j => decide (j = ((p', 1), q'))) (fun j => decide (j = ((p', 2), q')))]
  · intro j
    simp only [Bool.or_eq_true, decide_eq_true_eq]
    refine ⟨trivial, ?_⟩
    rintro ⟨rfl, h⟩
    simp at h
  · rintro ⟨⟨a, φ⟩, b⟩
    simp only [mohriFin, Bool.or_eq_true, decide_eq_true_eq, Prod.mk.injEq]
    constructor
    · constructor
      · rintro ⟨rfl, hφ, rfl⟩
        have : φ = 0 ∨ φ = 1 ∨ φ = 2 := by omega
        rcases this with rfl | rfl | rfl <;> simp
      · rintro (⟨⟨rfl, rfl⟩, rfl⟩ | ⟨⟨rfl, rfl⟩, rfl⟩ | ⟨⟨rfl, rfl⟩, rfl⟩) <;> simp
    · rintro ⟨⟨⟨_, rfl⟩, _⟩, h⟩
      rcases h with ⟨⟨_, h⟩, _⟩ | ⟨⟨_, h⟩, _⟩ <;> simp at h

/-- **the general composition theorem at the level of accepting weights**: the accepting paths of
`T1 @ T2` of grade `(k1, k2)` (at most `N ≥ k1 + k2` arcs) weigh
`Σ_y T1(x, y)[k1 arcs] · T2(y, z)[k2 arcs]` -/
theorem compose_graded_TPk (T1 : FST ι σ K) (T2 : FST κ σ K) (N k1 k2 : Nat) (hN : k1 + k2 ≤ N)
    (n : Nat) (hn : k1 ≤ n) (x z : List σ) :
    GPN (T1.compose T2) mohriGrade N k1 k2 x z
      = ((strsLe T1.outSyms n).map fun y => TPk T1 k1 x y * TPk T2 k2 y z).sum := by
  unfold GPN
  rw [compose_start, compose_stop]
  simp only [sum_flatMap, List.map_map, Function.comp_def]
  simp only [TPk_eq, sum_mul_sum4]
  rw [sum_swap (strsLe T1.outSyms n) T1.start]
  apply congrArg
  apply List.map_congr_left
  intro s1 hs1
  rw [sum_swap (strsLe T1.outSyms n) T2.start]
  apply congrArg
  apply List.map_congr_left
  intro s2 hs2
  rw [sum_swap (strsLe T1.outSyms n) T1.stop]
  apply congrArg
  apply List.map_congr_left
  intro f1 _
  -- the three filter states
  have h3 : ∀ f2 : κ × K,
      (([0, 1, 2] : List Nat).map fun φ =>
        s1.2 * 1 * s2.2 * GN (T1.compose T2) mohriGrade (fun j => decide (j = ((f1.1, φ), f2.1)))
          N k1 k2 ((s1.1, 0), s2.1) x z * (f1.2 * 1 * f2.2)).sum
      = s1.2 * s2.2 * ((strsLe T1.outSyms n).map fun y =>
          Tk T1 k1 s1.1 x y f1.1 * Tk T2 k2 s2.1 y z f2.1).sum * (f1.2 * f2.2) := by
    intro f2
    rw [← compose_graded_init T1 T2 f1.1 f2.1 N k1 k2 hN n hn s1.1
      (FstAux.mem_states_start T1 s1 hs1) s2.1 (FstAux.mem_states_start T2 s2 hs2) x z,
      GN_mohriFin]
    simp only [List.map_cons, List.map_nil, List.sum_cons, List.sum_nil]
    ring
  rw [sum_swap ([0, 1, 2] : List Nat) T2.stop, sum_swap (strsLe T1.outSyms n) T2.stop]
  apply congrArg
  apply List.map_congr_left
  intro f2 _
  rw [h3 f2, ← List.sum_map_mul_left, ← List.sum_map_mul_right]
  apply congrArg
  apply List.map_congr_left
  intro y _
  ring

/-- `TPN (T1 @ T2)` is the sum of the graded accepting weights -/
theorem compose_GPN_total (T1 : FST ι σ K) (T2 : FST κ σ K) (N : Nat) (x z : List σ) :
    ((List.range (N+1)).map fun k1 => ((List.range (N+1)).map fun k2 =>
        GPN (T1.compose T2) mohriGrade N k1 k2 x z).sum).sum = TPN (T1.compose T2) N x z :=
  GPN_total _ _ (fun e _ => mohriGrade_le e) N x z

end ComposeAccept

/-! ### the candidate lists `strsEq`, `strsLe` enumerate without repetition -/
section Cands
variable {σ : Type} [DecidableEq σ]

omit [DecidableEq σ] in
theorem mem_strsEq (syms : List σ) (k : Nat) (y : List σ) :
    y ∈ strsEq syms k ↔ y.length = k ∧ ∀ a ∈ y, a ∈ syms := by
  induction k generalizing y with
  | zero =>
    simp only [strsEq, List.mem_singleton, List.length_eq_zero_iff]
    constructor
    · rintro rfl; simp
    · exact fun h => h.1
  | succ k ih =>
    simp only [strsEq, List.mem_flatMap, List.mem_map]
    constructor
    · rintro ⟨a, ha, y', hy', rfl⟩
      have := (ih y').mp hy'
      refine ⟨by simp [this.1], ?_⟩
      intro b hb
      rcases List.mem_cons.mp hb with rfl | hb
      · exact ha
      · exact this.2 b hb
    · rintro ⟨hl, hs⟩
      cases y with
      | nil => simp at hl
      | cons a y' =>
        refine ⟨a, hs a (by simp), y', (ih y').mpr ⟨by simpa using hl, fun b hb => hs b (by simp [hb])⟩, rfl⟩

omit [DecidableEq σ] in
theorem mem_strsLe (syms : List σ) (k : Nat) (y : List σ) :
    y ∈ strsLe syms k ↔ y.length ≤ k ∧ ∀ a ∈ y, a ∈ syms := by
  induction k generalizing y with
  | zero =>
    simp only [strsLe, List.mem_singleton, Nat.le_zero_eq, List.length_eq_zero_iff]
    constructor
    · rintro rfl; simp
    · exact fun h => h.1
  | succ k ih =>
    simp only [strsLe, List.mem_cons, List.mem_flatMap, List.mem_map]
    constructor
    · rintro (rfl | ⟨a, ha, y', hy', rfl⟩)
      · simp
      · have := (ih y').mp hy'
        refine ⟨by simp only [List.length_cons]; omega, ?_⟩
        intro b hb
        rcases List.mem_cons.mp hb with rfl | hb
        · exact ha
        · exact this.2 b hb
    · rintro ⟨hl, hs⟩
      cases y with
      | nil => exact Or.inl rfl
      | cons a y' =>
        refine Or.inr ⟨a, hs a (by simp), y',
          (ih y').mpr ⟨by simp only [List.length_cons] at hl; omega, fun b hb => hs b (by simp [hb])⟩, rfl⟩

omit [DecidableEq σ] in
theorem nodup_cons_family (syms : List σ) (hnd : syms.Nodup) (L : List (List σ)) (hL : L.Nodup) :
    (syms.flatMap fun a => L.map fun y => a :: y).Nodup := by
  rw [List.nodup_flatMap]
  refine ⟨fun a _ => hL.map (fun y y' h => (List.cons.inj h).2), ?_⟩
  refine hnd.imp ?_
  intro a b hab
  simp only [Function.onFun, List.disjoint_left, List.mem_map]
  rintro y ⟨y1, _, rfl⟩ ⟨y2, _, h⟩
  exact hab (List.cons.inj h).1.symm

omit [DecidableEq σ] in
theorem strsEq_nodup (syms : List σ) (hnd : syms.Nodup) (k : Nat) : (strsEq syms k).Nodup := by
  induction k with
  | zero => simp [strsEq]
  | succ k ih => exact nodup_cons_family syms hnd _ ih

omit [DecidableEq σ] in
theorem strsLe_nodup (syms : List σ) (hnd : syms.Nodup) (k : Nat) : (strsLe syms k).Nodup := by
  induction k with
  | zero => simp [strsLe]
  | succ k ih =>
    simp only [strsLe, List.nodup_cons]
    refine ⟨?_, nodup_cons_family syms hnd _ ih⟩
    simp only [List.mem_flatMap, List.mem_map]
    rintro ⟨a, _, y, _, h⟩
    cases h

/-- a sum over the candidates with a single selected string -/
theorem sum_strsEq_ind {K : Type} [CommSemiring K] (syms : List σ) (hnd : syms.Nodup) (k : Nat)
    (y0 : List σ) (hy0 : ∀ a ∈ y0, a ∈ syms) (F : List σ → K) :
    ((strsEq syms k).map fun y => if y0 = y then F y else 0).sum
      = if y0.length = k then F y0 else 0 := by
  rw [sum_ite_eq_nodup _ (strsEq_nodup syms hnd k) y0]
  have : (y0.length = k ∧ ∀ a ∈ y0, a ∈ syms) ↔ y0.length = k := ⟨fun h => h.1, fun h => ⟨h, hy0⟩⟩
  simp only [mem_strsEq, this]

theorem sum_strsLe_ind {K : Type} [CommSemiring K] (syms : List σ) (hnd : syms.Nodup) (k : Nat)
    (y0 : List σ) (hy0 : ∀ a ∈ y0, a ∈ syms) (F : List σ → K) :
    ((strsLe syms k).map fun y => if y0 = y then F y else 0).sum
      = if y0.length ≤ k then F y0 else 0 := by
  rw [sum_ite_eq_nodup _ (strsLe_nodup syms hnd k) y0]
  have : (y0.length ≤ k ∧ ∀ a ∈ y0, a ∈ syms) ↔ y0.length ≤ k := ⟨fun h => h.1, fun h => ⟨h, hy0⟩⟩
  simp only [mem_strsLe, this]

end Cands

namespace FstAux
section
variable {σ K : Type} [DecidableEq σ] [CommSemiring K]

/-- `sum_strsLe_lpeel` with the same bound on both sides -/
theorem sum_strsLe_lpeel_same (syms : List σ) (hnd : syms.Nodup) (l : Option σ)
    (hl : ∀ a, l = some a → a ∈ syms) (m k : Nat) (hk : k + 1 ≤ m) (H : List σ → K)
    (hH : ∀ x, k < x.length → H x = 0) :
    ((strsLe syms m).map fun x => ((lpeel l x).map H).sum).sum = ((strsLe syms m).map H).sum := by
  obtain ⟨m', rfl⟩ : ∃ m', m = m' + 1 := ⟨m - 1, by omega⟩
  rw [sum_strsLe_lpeel syms hnd l hl m' H (fun x hx => hH x (by omega)),
    sum_strsLe_succ syms m' H (fun x hx => hH x (by omega))]

end
end FstAux

/-! ### `total_weight` (stratified) -/
section Erase
variable {ι σ K : Type} [DecidableEq ι] [DecidableEq σ] [CommSemiring K]

/-- forgetting the labels sums over all label strings -/
theorem eraseLabels_Tk (T : FST ι σ K) (sI sO : List σ) (hI : sI.Nodup) (hO : sO.Nodup)
    (hsI : ∀ e ∈ T.arcs, ∀ a, e.inp = some a → a ∈ sI)
    (hsO : ∀ e ∈ T.arcs, ∀ a, e.out = some a → a ∈ sO)
    (k m : Nat) (hkm : k ≤ m) (i j : ι) :
    Tk T.eraseLabels k i [] [] j
      = ((strsLe sI m).map fun a => ((strsLe sO m).map fun b => Tk T k i a b j).sum).sum := by
  induction k generalizing i with
  | zero =>
    have : ∀ a ∈ strsLe sI m, ((strsLe sO m).map fun b => Tk T 0 i a b j).sum
        = if a = [] then (if i = j then (1 : K) else 0) else 0 := by
      intro a _
      have : ∀ b ∈ strsLe sO m, Tk T 0 i a b j
          = if b = [] then (if i = j ∧ a = [] then (1 : K) else 0) else 0 := by
        intro b _
        rw [Tk_zero]
        by_cases hb : b = [] <;> simp [hb]
      rw [List.map_congr_left this, sum_strsLe_nil]
      by_cases ha : a = [] <;> simp [ha]
    rw [List.map_congr_left this, sum_strsLe_nil, Tk_zero]
    simp
  | succ k ih =>
    have harcs : T.eraseLabels.arcs = T.arcs.map fun e => ⟨e.src, none, none, e.dst, e.w⟩ := rfl
    rw [Tk_succ, harcs, List.filter_map, List.map_map]
    simp only [Function.comp_def, lpeel_none', List.map_cons, List.map_nil, List.sum_cons,
      List.sum_nil, add_zero, Tk_succ]
    rw [dsum_swap1]
    apply congrArg
    apply List.map_congr_left
    intro e he
    have hmem : e ∈ T.arcs := (List.mem_filter.mp he).1
    rw [ih (by omega) e.dst, ← List.sum_map_mul_left]
    -- input tape
    have h1 : ∀ a ∈ strsLe sI m, ((strsLe sO m).map fun b =>
        ((lpeel e.inp a).map fun a' => ((lpeel e.out b).map fun b' =>
          e.w * Tk T k e.dst a' b' j).sum).sum).sum
        = ((lpeel e.inp a).map fun a' => ((strsLe sO m).map fun b =>
            ((lpeel e.out b).map fun b' => e.w * Tk T k e.dst a' b' j).sum).sum).sum :=
      fun a _ => sum_swap _ _ _
    rw [List.map_congr_left h1,
      sum_strsLe_lpeel_same sI hI e.inp (hsI e hmem) m k (by omega)
        (fun a' => ((strsLe sO m).map fun b =>
          ((lpeel e.out b).map fun b' => e.w * Tk T k e.dst a' b' j).sum).sum)
        (fun a' ha' => sum_map_zero _ _ (fun b _ => sum_map_zero _ _ (fun b' _ => by
          rw [Tk_inp_length T k e.dst a' b' j ha', mul_zero])))]
    apply congrArg
    apply List.map_congr_left
    intro a' _
    rw [sum_strsLe_lpeel_same sO hO e.out (hsO e hmem) m k (by omega)
      (fun b' => e.w * Tk T k e.dst a' b' j)
      (fun b' hb' => by rw [Tk_out_length T k e.dst a' b' j hb', mul_zero]),
      List.sum_map_mul_left]

theorem eraseLabels_TPk (T : FST ι σ K) (sI sO : List σ) (hI : sI.Nodup) (hO : sO.Nodup)
    (hsI : ∀ e ∈ T.arcs, ∀ a, e.inp = some a → a ∈ sI)
    (hsO : ∀ e ∈ T.arcs, ∀ a, e.out = some a → a ∈ sO) (k m : Nat) (hkm : k ≤ m) :
    TPk T.eraseLabels k [] []
      = ((strsLe sI m).map fun a => ((strsLe sO m).map fun b => TPk T k a b).sum).sum := by
  simp only [TPk_eq]
  have hs : T.eraseLabels.start = T.start ∧ T.eraseLabels.stop = T.stop := ⟨rfl, rfl⟩
  rw [hs.1, hs.2, dsum_swap1]
  apply congrArg
  apply List.map_congr_left
  intro s _
  rw [dsum_swap1]
  apply congrArg
  apply List.map_congr_left
  intro f _
  rw [eraseLabels_Tk T sI sO hI hO hsI hsO k m hkm]
  simp only [← List.sum_map_mul_left, ← List.sum_map_mul_right]

/-- **`total_weight`, stratified**: the total weight of the accepting paths with at most `n` arcs is
the sum of `TPN` over all pairs of strings (of length `≤ n` over any duplicate-free alphabets
containing the symbols of the machine) -/
theorem totalN_eq (T : FST ι σ K) (sI sO : List σ) (hI : sI.Nodup) (hO : sO.Nodup)
    (hsI : ∀ e ∈ T.arcs, ∀ a, e.inp = some a → a ∈ sI)
    (hsO : ∀ e ∈ T.arcs, ∀ a, e.out = some a → a ∈ sO) (n : Nat) :
    T.totalN n = ((strsLe sI n).map fun a => ((strsLe sO n).map fun b => TPN T n a b).sum).sum := by
  unfold FST.totalN
  simp only [TPN_eq]
  rw [dsum_swap1]
  apply congrArg
  apply List.map_congr_left
  intro k hk
  exact eraseLabels_TPk T sI sO hI hO hsI hsO k n (by have := List.mem_range.mp hk; omega)

end Erase

/-! ### `__call__(x, y)` on transducers without ε -/
section Eval
variable {ι κ σ K : Type} [DecidableEq ι] [DecidableEq κ] [DecidableEq σ] [CommSemiring K]

omit [CommSemiring K] [DecidableEq σ] in
theorem fromStringT_arcs_ne [One K] (s : List σ) (w : K) :
    ∀ e ∈ (FST.fromString s w : FST _ σ K).arcs, e.inp ≠ none ∧ e.out ≠ none := by
  intro e he
  simp only [FST.fromString, FST.diag, WFSA.fromString, List.mem_map, List.mem_flatMap,
    List.mem_range] at he
  obtain ⟨a, ⟨i, _, hi⟩, rfl⟩ := he
  cases h : s[i]? with
  | none => simp [h] at hi
  | some c =>
    simp only [h, List.mem_singleton] at hi
    subst hi
    simp

/-- the arcs of `T1 @ T2` write a symbol as soon as those of `T1` and `T2` do -/
theorem compose_out_ne (T1 : FST ι σ K) (T2 : FST κ σ K)
    (h1 : ∀ e ∈ T1.arcs, e.out ≠ none) (h2 : ∀ e ∈ T2.arcs, e.out ≠ none) :
    ∀ e ∈ (T1.compose T2).arcs, e.out ≠ none := by
  intro e he
  simp only [FST.compose, FST.composeL, FST.unlift, List.mem_filterMap] at he
  obtain ⟨eC, heC, hu⟩ := he
  simp only [FST.composeRaw, List.mem_flatMap, List.mem_map, List.mem_filter] at heC
  obtain ⟨eL, ⟨e1', he1', eF, ⟨heF, hmF⟩, rfl⟩, e2', ⟨he2', hm2⟩, rfl⟩ := heC
  simp only [decide_eq_true_eq] at hmF hm2
  -- the arc of `T2.augment 1`
  simp only [FST.augment, List.mem_flatMap, List.mem_cons, List.mem_map, List.mem_filter] at he2'
  obtain ⟨q, _, he2'⟩ := he2'
  rcases he2' with rfl | ⟨e2, ⟨he2, _⟩, rfl⟩
  · -- the loop `ε₂:ε` needs an `ε₂` written by the filter, hence by `T1.augment 0`
    exfalso
    simp only [augLoop, if_true] at hm2
    have hFout : eF.out = some ESym.e2 := hm2.2.symm
    have hFin : eF.inp = some ESym.e2 := by
      simp only [epsilonFilter, List.mem_append, List.mem_flatMap, List.mem_cons,
        List.not_mem_nil, or_false] at heF
      rcases heF with ⟨a, _, rfl | rfl | rfl⟩ | rfl | rfl | rfl | rfl | rfl <;>
        first
          | rfl
          | (exact absurd hFout (lift_ne_e2 a))
          | (exact absurd hFout (by simp))
    simp only [FST.augment, List.mem_flatMap, List.mem_cons, List.mem_map, List.mem_filter] at he1'
    obtain ⟨p, _, he1'⟩ := he1'
    rcases he1' with rfl | ⟨e1, ⟨he1, _⟩, rfl⟩
    · simp [augLoop, hFin] at hmF
    · have := h1 e1 he1
      cases ho : e1.out with
      | none => exact this ho
      | some b => simp [augArc, ho, hFin] at hmF
  · have := h2 e2 he2
    cases ho : e2.out with
    | none => exact absurd ho this
    | some c =>
      simp only [TArc.unlift, augArc, if_true, ho, ESym.lift, Option.map_some] at hu
      rcases hinp : e1'.inp with _ | a | _ | _ <;> simp only [hinp, ESym.unlift] at hu
      · rw [← Option.some.inj hu]; simp
      · rw [← Option.some.inj hu]; simp
      · cases hu
      · cases hu

end Eval

section EvalThm
variable {ι σ K : Type} [DecidableEq ι] [DecidableEq σ] [CommSemiring K]

/-- product with a single-string transducer on the right -/
theorem composeRaw_fromString_right (A : FST ι σ K) (y0 : List σ) (w : K) (k : Nat) (a b : List σ) :
    TPk (A.composeRaw (FST.fromString y0 w)) k a b
      = if k = y0.length ∧ b = y0 then TPk A k a y0 * w else 0 := by
  have hnd : ((A.outSyms ++ y0).eraseDups).Nodup := nodup_eraseDups _
  have hs : ∀ e ∈ A.arcs, ∀ c, e.out = some c → c ∈ (A.outSyms ++ y0).eraseDups := by
    intro e he c hc
    rw [List.mem_eraseDups, List.mem_append]
    exact Or.inl (out_mem_outSyms A e he c hc)
  have hy0 : ∀ c ∈ y0, c ∈ (A.outSyms ++ y0).eraseDups := by
    intro c hc
    rw [List.mem_eraseDups, List.mem_append]
    exact Or.inr hc
  rw [composeRaw_TPk A _ _ hnd hs]
  simp only [fromStringT_TPk]
  have : ∀ y ∈ strsEq ((A.outSyms ++ y0).eraseDups) k,
      TPk A k a y * (if k = y0.length ∧ y = y0 ∧ b = y0 then w else 0)
      = if y0 = y then (if k = y0.length ∧ b = y0 then TPk A k a y * w else 0) else 0 := by
    intro y _
    by_cases hy : y0 = y
    · subst hy; simp
    · have : ¬ (y = y0) := fun h => hy h.symm
      simp [hy, this]
  rw [List.map_congr_left this, sum_strsEq_ind _ hnd k y0 hy0]
  by_cases hk : k = y0.length
  · simp [hk]
  · have : ¬ (y0.length = k) := fun h => hk h.symm
    simp [hk, this]

/-- product with a single-string transducer on the left -/
theorem composeRaw_fromString_left {κ : Type} [DecidableEq κ] (B : FST κ σ K) (x0 : List σ) (w : K)
    (k : Nat) (a b : List σ) :
    TPk ((FST.fromString x0 w).composeRaw B) k a b
      = if k = x0.length ∧ a = x0 then w * TPk B k x0 b else 0 := by
  have hnd : (((FST.fromString x0 w : FST _ σ K).outSyms ++ x0).eraseDups).Nodup := nodup_eraseDups _
  have hs : ∀ e ∈ (FST.fromString x0 w : FST _ σ K).arcs, ∀ c, e.out = some c →
      c ∈ ((FST.fromString x0 w : FST _ σ K).outSyms ++ x0).eraseDups := by
    intro e he c hc
    rw [List.mem_eraseDups, List.mem_append]
    exact Or.inl (out_mem_outSyms _ e he c hc)
  have hx0 : ∀ c ∈ x0, c ∈ ((FST.fromString x0 w : FST _ σ K).outSyms ++ x0).eraseDups := by
    intro c hc
    rw [List.mem_eraseDups, List.mem_append]
    exact Or.inr hc
  rw [composeRaw_TPk _ B _ hnd hs]
  simp only [fromStringT_TPk]
  have : ∀ y ∈ strsEq (((FST.fromString x0 w : FST _ σ K).outSyms ++ x0).eraseDups) k,
      (if k = x0.length ∧ a = x0 ∧ y = x0 then w else 0) * TPk B k y b
      = if x0 = y then (if k = x0.length ∧ a = x0 then w * TPk B k y b else 0) else 0 := by
    intro y _
    by_cases hy : x0 = y
    · subst hy; simp
    · have : ¬ (y = x0) := fun h => hy h.symm
      simp [hy, this]
  rw [List.map_congr_left this, sum_strsEq_ind _ hnd k x0 hx0]
  by_cases hk : k = x0.length
  · simp [hk]
  · have : ¬ (x0.length = k) := fun h => hk h.symm
    simp [hk, this]

/-- **`T(x, y)` on a transducer without ε**: the stratified total weight of
`from_string x @ T @ from_string y` is the stratified weight of `(x, y)` in `T` -/
theorem evalN_epsfree (T : FST ι σ K) (hin : ∀ e ∈ T.arcs, e.inp ≠ none)
    (hout : ∀ e ∈ T.arcs, e.out ≠ none) (x0 y0 : List σ) (n : Nat) :
    T.evalN x0 y0 n = TPN T n x0 y0 := by
  have hX := fromStringT_arcs_ne (K := K) x0 1
  have hY := fromStringT_arcs_ne (K := K) y0 1
  have hM1 := compose_out_ne (FST.fromString x0 (1 : K)) T (fun e he => (hX e he).2) hout
  -- exact-length accepting weights of the three-way composition
  have hTPk : ∀ k a b,
      TPk (((FST.fromString x0 (1 : K)).compose T).compose (FST.fromString y0 (1 : K))) k a b
        = if (k = y0.length ∧ b = y0) ∧ (k = x0.length ∧ a = x0) then TPk T k x0 y0 else 0 := by
    intro k a b
    rw [compose_epsfree_TPk _ _ hM1 (fun e he => (hY e he).1), composeRaw_fromString_right,
      compose_epsfree_TPk _ _ (fun e he => (hX e he).2) hin, composeRaw_fromString_left]
    by_cases h1 : k = y0.length ∧ b = y0 <;> by_cases h2 : k = x0.length ∧ a = x0 <;>
      simp [h1, h2]
  unfold FST.evalN
  set M := ((FST.fromString x0 (1 : K)).compose T).compose (FST.fromString y0 (1 : K)) with hM
  have hI : ((M.inSyms ++ x0).eraseDups).Nodup := nodup_eraseDups _
  have hO : ((M.outSyms ++ y0).eraseDups).Nodup := nodup_eraseDups _
  rw [totalN_eq M _ _ hI hO
    (fun e he a ha => by
      rw [List.mem_eraseDups, List.mem_append]; exact Or.inl (inp_mem_inSyms M e he a ha))
    (fun e he a ha => by
      rw [List.mem_eraseDups, List.mem_append]; exact Or.inl (out_mem_outSyms M e he a ha))]
  simp only [TPN_eq, hTPk]
  rw [dsum_swap1]
  apply congrArg
  apply List.map_congr_left
  intro k hk
  have hk' : k ≤ n := by have := List.mem_range.mp hk; omega
  -- collapse the two sums
  have hb : ∀ a ∈ strsLe ((M.inSyms ++ x0).eraseDups) n,
      ((strsLe ((M.outSyms ++ y0).eraseDups) n).map fun b =>
        if (k = y0.length ∧ b = y0) ∧ (k = x0.length ∧ a = x0) then TPk T k x0 y0 else 0).sum
      = if x0 = a then
          (if y0.length ≤ n then (if k = y0.length ∧ k = x0.length then TPk T k x0 y0 else 0) else 0)
        else 0 := by
    intro a _
    have : ∀ b ∈ strsLe ((M.outSyms ++ y0).eraseDups) n,
        (if (k = y0.length ∧ b = y0) ∧ (k = x0.length ∧ a = x0) then TPk T k x0 y0 else 0)
        = if y0 = b then (if x0 = a then
            (if k = y0.length ∧ k = x0.length then TPk T k x0 y0 else 0) else 0) else 0 := by
      intro b _
      by_cases hb : y0 = b
      · subst hb
        by_cases ha : x0 = a
        · subst ha; simp
        · have : ¬ (a = x0) := fun h => ha h.symm
          simp [ha, this]
      · have : ¬ (b = y0) := fun h => hb h.symm
        simp [hb, this]
    rw [List.map_congr_left this, sum_strsLe_ind _ hO n y0 (fun c hc => by
      rw [List.mem_eraseDups, List.mem_append]; exact Or.inr hc)]
    by_cases ha : x0 = a <;> simp [ha]
  rw [List.map_congr_left hb, sum_strsLe_ind _ hI n x0 (fun c hc => by
    rw [List.mem_eraseDups, List.mem_append]; exact Or.inr hc)]
  by_cases h1 : k = x0.length
  · by_cases h2 : k = y0.length
    · simp [h1.symm, h2.symm, hk']
    · rw [TPk_out_length_eq T hout k x0 y0 h2]
      simp
  · rw [TPk_inp_length_eq T hin k x0 y0 h1]
    simp

end EvalThm

/-! ### non-vacuity examples (weights in `ℕ`) -/

/-- no output-ε arc; an input-ε arc closing a cycle -/
def exT1 : FST Nat Nat Nat :=
  ⟨[(0, 1)], [(1, 1)],
   [⟨0, some 1, some 2, 1, 3⟩, ⟨1, some 1, some 3, 1, 2⟩, ⟨1, none, some 3, 0, 7⟩]⟩
/-- no input-ε arc; an output-ε arc -/
def exT2 : FST Nat Nat Nat :=
  ⟨[(0, 1)], [(0, 5)], [⟨0, some 2, some 7, 0, 2⟩, ⟨0, some 3, none, 0, 1⟩]⟩

example : TPN exT.transpose 4 [8, 8] [7, 7] = 90 := by decide
example : TPN (FST.diag exA) 4 [7, 7] [7, 7] = 90 ∧ TPN (FST.diag exA) 4 [7, 7] [7, 8] = 0 := by
  decide
example : PN (exT.project true) 3 [9, 8] = 24 ∧ PN (exT.project false) 3 [7] = 42 := by decide
example : TPN (FST.fromString [1, 2] 5 : FST _ Nat Nat) 2 [1, 2] [1, 2] = 5 := by decide
example : TPN (FST.fromPairs [([1, 2], [3]), ([1], [3, 4]), ([1, 2], [3])] : FST _ Nat Nat) 4 [1, 2] [3]
    = 2 := by decide
example : TPN (FST.fromPairs [([1, 2], [3]), ([1], [3, 4]), ([1, 2], [3])] : FST _ Nat Nat) 3 [1, 2] [3]
    = 0 := by decide
-- the hypotheses of `composeRaw_TPN'` are satisfiable and the product is not trivial
example : (∀ e ∈ exT1.arcs, e.out ≠ none) ∧ (∀ e ∈ exT2.arcs, e.inp ≠ none) := by decide
example : TPN (exT1.composeRaw exT2) 2 [1, 1] [7] = 60 := by decide
example : TPN (exT1.composeRaw exT2) 3 [1, 1] [7, 7] = 1260 := by decide
-- through the filter (`__matmul__`): same value
example : TPNtab (exT1.compose exT2) 3 [1, 1] [7] = 60 := by decide +kernel

-- ε on the middle tape on both sides: two transducers with finitely many paths per input
/-- output-ε arcs (`1 -7:ε-> 1`, `1 -7:ε-> 0`) and an `ε:ε` arc -/
def exU1 : FST Nat Nat Nat :=
  ⟨[(0, 1)], [(1, 2)],
   [⟨0, some 7, some 8, 1, 3⟩, ⟨1, none, none, 0, 5⟩, ⟨1, some 7, none, 1, 1⟩, ⟨1, some 7, none, 0, 11⟩,
    ⟨0, some 7, some 9, 0, 2⟩]⟩
/-- input-ε arcs (`0 -ε:4-> 0`, `0 -ε:ε-> 1`) -/
def exU2 : FST Nat Nat Nat :=
  ⟨[(0, 1)], [(0, 1)],
   [⟨0, some 8, some 1, 0, 2⟩, ⟨0, some 9, none, 0, 3⟩, ⟨0, none, some 4, 0, 5⟩, ⟨0, none, none, 1, 1⟩,
    ⟨1, some 8, none, 0, 1⟩]⟩

-- the graded accepting weight of `exU1 @ exU2` and the right-hand side of `compose_graded_TPk`
example : GPN (exU1.compose exU2) mohriGrade 3 1 2 [7] [1, 4] = 60 := by decide +kernel
example : ((strsLe exU1.outSyms 1).map fun y => TPk exU1 1 [7] y * TPk exU2 2 y [1, 4]).sum = 60 := by
  decide +kernel

/-- no ε on either tape -/
def exE : FST Nat Nat Nat :=
  ⟨[(0, 1)], [(1, 2)], [⟨0, some 7, some 8, 1, 3⟩, ⟨1, some 7, some 9, 1, 5⟩]⟩

example : (∀ e ∈ exE.arcs, e.inp ≠ none) ∧ (∀ e ∈ exE.arcs, e.out ≠ none) := by decide
example : exE.evalN [7, 7] [8, 9] 2 = 30 := by decide +kernel
example : TPN exE 2 [7, 7] [8, 9] = 30 := by decide

end Genlm
