import GenlmModel.Proofs.Sem2Null
import Mathlib.Data.List.Nodup

/-! Semantic preservation of `unaryremove` (property C06) relative to the closure `W` of the unary
rule graph, in every commutative semiring.

`UW G k Y X` is the `k`-th partial sum `I + A + … + A^k` of the unary closure (`A Y Z` = total
weight of the unary rules `Y → Z`).

* `unaryRemove_le` : if `W` bounds every partial sum, `WN G n Y x ≼ WN G' n Y x`;
* `unaryRemove_ge` : if `W` is below the partial sum `UW G K0`, `WN G' n Y x ≼ WN G (n (K0+1)) Y x`.
-/
namespace Genlm
set_option linter.unusedSectionVars false
open UnfoldAux

namespace Sem2Aux
section
variable {σ K : Type} [DecidableEq σ] [CommSemiring K] [DecidableEq K]

theorem nodup_eraseDups' (l : List σ) : l.eraseDups.Nodup := by
  generalize hn : l.length = n
  induction n using Nat.strong_induction_on generalizing l with
  | _ n ih =>
    cases l with
    | nil => simp
    | cons a l =>
      rw [List.eraseDups_cons, List.nodup_cons]
      refine ⟨by simp, ih _ ?_ _ rfl⟩
      subst hn
      exact Nat.lt_succ_of_le (List.length_filter_le _ _)

theorem sum_comm' {α β : Type} (l : List α) (m : List β) (F : α → β → K) :
    (l.map fun a => (m.map fun b => F a b).sum).sum = (m.map fun b => (l.map fun a => F a b).sum).sum := by
  induction l with
  | nil => simp
  | cons a l ih => simp only [List.map_cons, List.sum_cons, ih, List.sum_map_add]

theorem sum_filter_ite {α : Type} (l : List α) (p : α → Bool) (F : α → K) :
    ((l.filter p).map F).sum = (l.map fun a => if p a = true then F a else 0).sum := by
  induction l with
  | nil => rfl
  | cons a l ih =>
    by_cases h : p a = true
    · rw [List.filter_cons_of_pos h]; simp [h, ih]
    · rw [List.filter_cons_of_neg h]; simp [h, ih]

/-- the body symbol of a unary rule -/
def uTarget (r : Rule σ K) : σ :=
  match r.body with
  | [y] => y
  | _ => r.head

theorem unary_body {V : List σ} {r : Rule σ K} (h : isUnaryRule V r = true) :
    r.body = [uTarget r] ∧ uTarget r ∉ V := by
  unfold isUnaryRule at h
  unfold uTarget
  split at h
  · next y hb => rw [hb]; exact ⟨rfl, by simpa using h⟩
  · exact absurd h (by simp)

/-- unary part of a step: `(A · g)(Y)` -/
def UNs (V : List σ) (rs : List (Rule σ K)) (g : σ → K) (Y : σ) : K :=
  (rs.map fun r => if isUnaryRule V r = true ∧ r.head = Y then r.w * g (uTarget r) else 0).sum

/-- non-unary part of a step, with an arbitrary value `h r` for the body of `r` -/
def NUs (V : List σ) (rs : List (Rule σ K)) (h : Rule σ K → K) (Y : σ) : K :=
  (rs.map fun r => if isUnaryRule V r = false ∧ r.head = Y then r.w * h r else 0).sum

/-- `(Wf · NU)`: the non-unary rules, each weighted by `Wf` at its head -/
def CLs (V : List σ) (rs : List (Rule σ K)) (Wf : σ → K) (h : Rule σ K → K) : K :=
  (rs.map fun r => if isUnaryRule V r = false then Wf r.head * (r.w * h r) else 0).sum

theorem UNs_le (V : List σ) (rs : List (Rule σ K)) (g g' : σ → K) (h : ∀ Z, g Z ≼ g' Z) (Y : σ) :
    UNs V rs g Y ≼ UNs V rs g' Y := by
  unfold UNs; apply sum_le'; intro r _
  split
  · exact mul_le' (le_rfl' _) (h _)
  · exact le_rfl' _

theorem NUs_le (V : List σ) (rs : List (Rule σ K)) (h h' : Rule σ K → K)
    (hh : ∀ r ∈ rs, h r ≼ h' r) (Y : σ) : NUs V rs h Y ≼ NUs V rs h' Y := by
  unfold NUs; apply sum_le'; intro r hr
  split
  · exact mul_le' (le_rfl' _) (hh r hr)
  · exact le_rfl' _

theorem CLs_le (V : List σ) (rs : List (Rule σ K)) (Wf Wf' : σ → K) (h h' : Rule σ K → K)
    (hW : ∀ r ∈ rs, Wf r.head ≼ Wf' r.head) (hh : ∀ r ∈ rs, h r ≼ h' r) :
    CLs V rs Wf h ≼ CLs V rs Wf' h' := by
  unfold CLs; apply sum_le'; intro r hr
  split
  · exact mul_le' (hW r hr) (mul_le' (le_rfl' _) (hh r hr))
  · exact le_rfl' _

/-- a step splits into its unary and its non-unary part -/
theorem stepL_split (V : List σ) (rs : List (Rule σ K)) (g : σ → List σ → K) (Y : σ) (x : List σ) :
    stepL V rs g Y x
      = UNs V rs (fun Z => g Z x) Y + NUs V rs (fun r => Wbody V g r.body x) Y := by
  rw [stepL_eq_ite]
  unfold UNs NUs
  rw [← List.sum_map_add]
  congr 1; apply List.map_congr_left; intro r _
  by_cases hh : r.head = Y
  · by_cases hu : isUnaryRule V r = true
    · obtain ⟨hb, hV⟩ := unary_body hu
      have : Wbody V g r.body x = g (uTarget r) x := by
        rw [hb, Wbody_singleton, Wsym_nt V g _ hV]
      simp [hh, hu, this]
    · have hu' : isUnaryRule V r = false := by simpa using hu
      simp [hh, hu']
  · simp [hh]

/-- `(I · NU) = NU` -/
theorem CLs_one (V : List σ) (rs : List (Rule σ K)) (h : Rule σ K → K) (Y : σ) :
    CLs V rs (fun X => if Y = X then 1 else 0) h = NUs V rs h Y := by
  unfold CLs NUs
  congr 1; apply List.map_congr_left; intro r _
  by_cases hu : isUnaryRule V r = false
  · by_cases hh : r.head = Y
    · simp [hu, hh]
    · have : ¬ Y = r.head := fun e => hh e.symm
      simp [hu, hh, this]
  · simp [hu]

/-- `((I + A·Wf) · NU)(Y) = NU(Y) + (A · (Wf · NU))(Y)` -/
theorem CLs_succ (V : List σ) (rs : List (Rule σ K)) (Wf : σ → σ → K) (h : Rule σ K → K) (Y : σ) :
    CLs V rs (fun X => (if Y = X then 1 else 0) + UNs V rs (fun Z => Wf Z X) Y) h
      = NUs V rs h Y + UNs V rs (fun Z => CLs V rs (Wf Z) h) Y := by
  rw [← CLs_one V rs h Y]
  unfold CLs UNs
  have e : ∀ r : Rule σ K,
      (if isUnaryRule V r = false then
        ((if Y = r.head then 1 else 0) + (rs.map fun q =>
          if isUnaryRule V q = true ∧ q.head = Y then q.w * Wf (uTarget q) r.head else 0).sum)
          * (r.w * h r) else 0)
      = (if isUnaryRule V r = false then (if Y = r.head then 1 else 0) * (r.w * h r) else 0)
        + (rs.map fun q => if isUnaryRule V q = true ∧ q.head = Y then
            q.w * (if isUnaryRule V r = false then Wf (uTarget q) r.head * (r.w * h r) else 0)
            else 0).sum := by
    intro r
    by_cases hu : isUnaryRule V r = false
    · simp only [hu, if_true, add_mul]
      congr 1
      rw [← List.sum_map_mul_right]
      congr 1; apply List.map_congr_left; intro q _
      split
      · ring
      · rw [zero_mul]
    · simp only [if_neg hu, zero_add]
      symm; apply sum_map_zero; intro q _
      split
      · exact mul_zero _
      · rfl
  rw [List.map_congr_left (fun r _ => e r), List.sum_map_add]
  congr 1
  rw [sum_comm']
  congr 1; apply List.map_congr_left; intro q _
  split
  · rw [← List.sum_map_mul_left]
  · exact sum_map_zero _ _ (fun _ _ => rfl)


theorem UNs_zero (V : List σ) (rs : List (Rule σ K)) (Y : σ) : UNs V rs (fun _ => 0) Y = 0 := by
  unfold UNs; apply sum_map_zero; intro r _
  split
  · exact mul_zero _
  · rfl

theorem stepL_heads (V : List σ) (N : List σ) (hN : N.Nodup) (c : σ → K) (b : List σ)
    (g : σ → List σ → K) (Y : σ) (x : List σ) :
    stepL V (N.map fun Y' => (⟨c Y', Y', b⟩ : Rule σ K)) g Y x
      = if Y ∈ N then c Y * Wbody V g b x else 0 := by
  induction N with
  | nil => simp [stepL_nil]
  | cons a N ih =>
    rw [List.map_cons, stepL_cons, ih (List.nodup_cons.mp hN).2]
    by_cases h : a = Y
    · subst h
      have : a ∉ N := (List.nodup_cons.mp hN).1
      simp [this]
    · have h' : ¬ Y = a := fun e => h e.symm
      simp [h, h']

/-- one step of `unaryremove`'s output, over the rules of the input -/
theorem unaryRemove_step (W : σ → σ → K) (G : CFG σ K) (g : σ → List σ → K) (Y : σ)
    (x : List σ) :
    stepL G.V (unaryRemove W G).rules g Y x
      = if Y ∈ nonterminals G then
          CLs G.V G.rules (W Y) (fun r => Wbody G.V g r.body x) else 0 := by
  show stepL G.V (mkRules ((G.rules.filter (fun r => !isUnaryRule G.V r)).flatMap fun r =>
      (nonterminals G).map fun Y' => (⟨W Y' r.head * r.w, Y', r.body⟩ : Rule σ K))) g Y x = _
  rw [stepL_mkRules, stepL_flatMap, sum_filter_ite]
  have hnd : (nonterminals G).Nodup := nodup_eraseDups' _
  by_cases hY : Y ∈ nonterminals G
  · rw [if_pos hY]
    unfold CLs
    congr 1; apply List.map_congr_left; intro r _
    rw [stepL_heads G.V (nonterminals G) hnd (fun Y' => W Y' r.head * r.w) r.body g Y x,
      if_pos hY]
    by_cases hu : isUnaryRule G.V r = false
    · simp only [hu, Bool.not_false, if_true]; ring
    · have hu' : isUnaryRule G.V r = true := by simpa using hu
      simp [hu']
  · rw [if_neg hY]
    apply sum_map_zero; intro r _
    rw [stepL_heads G.V (nonterminals G) hnd (fun Y' => W Y' r.head * r.w) r.body g Y x,
      if_neg hY]; simp

end
end Sem2Aux

open Sem2Aux
section
variable {σ K : Type} [DecidableEq σ] [CommSemiring K] [DecidableEq K]

/-- `k`-th partial sum `I + A + … + A^k` of the closure of the unary rule graph of `G` -/
def UW (G : CFG σ K) : Nat → σ → σ → K
  | 0, Y, X => if Y = X then 1 else 0
  | k+1, Y, X => (if Y = X then 1 else 0) + UNs G.V G.rules (fun Z => UW G k Z X) Y


theorem UW_zero (G : CFG σ K) (Y : σ) : UW G 0 Y = fun X => if Y = X then 1 else 0 := by
  funext X; rfl

theorem UW_succ (G : CFG σ K) (k : Nat) (Y : σ) :
    UW G (k + 1) Y
      = fun X => (if Y = X then 1 else 0) + UNs G.V G.rules (fun Z => UW G k Z X) Y := by
  funext X; rfl

/-- level `n+1` of `G` is below the `n`-th partial closure applied to the non-unary rules -/
theorem WN_le_closure (G : CFG σ K) (n : Nat) (Y : σ) (x : List σ) :
    WN G (n + 1) Y x ≼ CLs G.V G.rules (UW G n Y) (fun r => Wbody G.V (WN G n) r.body x) := by
  induction n generalizing Y with
  | zero =>
    rw [WN_succ, stepL_split, UW_zero, CLs_one]
    have : (fun Z => WN G 0 Z x) = fun _ => 0 := rfl
    rw [this, UNs_zero, zero_add]
    exact le_rfl' _
  | succ n ih =>
    rw [WN_succ, stepL_split, UW_succ, CLs_succ, add_comm]
    refine add_le' (le_rfl' _) (UNs_le _ _ _ _ ?_ Y)
    intro Z
    refine le_trans' (ih Z) (CLs_le _ _ _ _ _ _ (fun _ _ => le_rfl' _) ?_)
    intro r _
    exact Wbody_le _ _ _ _ (fun s _ u => WN_le_succ G n s u) x

/-- the `k`-th partial closure applied to the non-unary rules at level `m` is below level
`m + k + 1` of `G` -/
theorem closure_le_WN (G : CFG σ K) (k m : Nat) (Y : σ) (x : List σ) :
    CLs G.V G.rules (UW G k Y) (fun r => Wbody G.V (WN G m) r.body x) ≼ WN G (m + k + 1) Y x := by
  induction k generalizing Y with
  | zero =>
    rw [UW_zero, CLs_one, Nat.add_zero, WN_succ, stepL_split]
    exact le_add_left' _ _
  | succ k ih =>
    rw [UW_succ, CLs_succ, show m + (k + 1) + 1 = (m + k + 1) + 1 by omega, WN_succ, stepL_split,
      add_comm]
    refine add_le' (UNs_le _ _ _ _ (fun Z => ih Z) Y) (NUs_le _ _ _ _ ?_ Y)
    intro r _
    exact Wbody_le _ _ _ _ (fun s _ u => WN_le_of_le G (by omega) s u) x

theorem head_mem_nonterminals {G : CFG σ K} {r : Rule σ K} (hr : r ∈ G.rules) :
    r.head ∈ nonterminals G := by
  simp only [nonterminals, List.mem_eraseDups, List.mem_cons, List.mem_map]
  exact Or.inr ⟨r, hr, rfl⟩

/-- **C06.6 (⊑)** `unaryremove` loses nothing, level by level, if the table `W` bounds every
partial sum of the unary closure -/
theorem unaryRemove_le (W : σ → σ → K) (G : CFG σ K)
    (hW : ∀ k, ∀ Y ∈ nonterminals G, ∀ X ∈ nonterminals G, UW G k Y X ≼ W Y X)
    (n : Nat) (Y : σ) (x : List σ) : WN G n Y x ≼ WN (unaryRemove W G) n Y x := by
  induction n generalizing Y x with
  | zero => exact le_rfl' _
  | succ n ih =>
    by_cases hY : Y ∈ nonterminals G
    · refine le_trans' (WN_le_closure G n Y x) ?_
      rw [WN_succ]
      show _ ≼ stepL G.V _ _ _ _
      rw [unaryRemove_step, if_pos hY]
      refine CLs_le _ _ _ _ _ _ (fun r hr => hW n Y hY _ (head_mem_nonterminals hr)) ?_
      intro r _
      exact Wbody_le _ _ _ _ (fun s _ u => ih s u) x
    · rw [WN_zero_of_no_rule G (n + 1) Y x (fun r hr e => hY (e ▸ head_mem_nonterminals hr))]
      exact zero_le' _

/-- **C06.6 (⊒)** `unaryremove` adds nothing if the table `W` is below the `K0`-th partial sum of
the unary closure: level `n` of the new grammar is below level `n (K0+1)` of the old one -/
theorem unaryRemove_ge (W : σ → σ → K) (G : CFG σ K) (K0 : Nat)
    (hW : ∀ Y ∈ nonterminals G, ∀ X ∈ nonterminals G, W Y X ≼ UW G K0 Y X)
    (n : Nat) (Y : σ) (x : List σ) :
    WN (unaryRemove W G) n Y x ≼ WN G (n * (K0 + 1)) Y x := by
  induction n generalizing Y x with
  | zero => exact zero_le' _
  | succ n ih =>
    rw [WN_succ]
    show stepL G.V _ _ _ _ ≼ _
    rw [unaryRemove_step]
    split
    · next hY =>
      rw [show (n + 1) * (K0 + 1) = n * (K0 + 1) + K0 + 1 by ring]
      refine le_trans' ?_ (closure_le_WN G K0 (n * (K0 + 1)) Y x)
      refine CLs_le _ _ _ _ _ _ (fun r hr => hW Y hY _ (head_mem_nonterminals hr)) ?_
      intro r _
      exact Wbody_le _ _ _ _ (fun s _ u => ih s u) x
    · exact zero_le' _

/-- the partial sums of the unary closure increase -/
theorem UW_mono (G : CFG σ K) (k : Nat) (Y X : σ) : UW G k Y X ≼ UW G (k + 1) Y X := by
  induction k generalizing Y with
  | zero =>
    show (if Y = X then 1 else 0) ≼ (if Y = X then 1 else 0) + _
    exact le_add_right' _ _
  | succ k ih =>
    show (if Y = X then 1 else 0) + _ ≼ (if Y = X then 1 else 0) + _
    exact add_le' (le_rfl' _) (UNs_le _ _ _ _ (fun Z => ih Z) Y)

/-- **C06.6** `unaryremove` preserves the weighted language relative to a closure table `W` that
is the value at which the partial sums of the unary closure stabilise -/
theorem unaryRemove_preserves (W : σ → σ → K) (G : CFG σ K) (K0 : Nat)
    (hW : ∀ k, K0 ≤ k → ∀ Y ∈ nonterminals G, ∀ X ∈ nonterminals G, UW G k Y X = W Y X)
    (n : Nat) (Y : σ) (x : List σ) :
    WN G n Y x ≼ WN (unaryRemove W G) n Y x ∧
      WN (unaryRemove W G) n Y x ≼ WN G (n * (K0 + 1)) Y x := by
  have hmono' : ∀ k m, k ≤ m → ∀ Y X, UW G k Y X ≼ UW G m Y X := by
    intro k m h
    induction h with
    | refl => intro _ _; exact le_rfl' _
    | step _ ih => intro Y X; exact le_trans' (ih Y X) (UW_mono G _ Y X)
  refine ⟨unaryRemove_le W G ?_ n Y x,
    unaryRemove_ge W G K0 (fun Y hY X hX => le_of_eq' (hW K0 (Nat.le_refl _) Y hY X hX).symm) n Y x⟩
  intro k Y hY X hX
  rw [← hW (max k K0) (Nat.le_max_right _ _) Y hY X hX]
  exact hmono' k _ (Nat.le_max_left _ _) Y X

/-- any pre-fixed point of `W ↦ I + A·W` bounds all partial sums: this is the hypothesis of
`unaryRemove_le` (a table with `W = I + A·W`, however computed, is such a point) -/
theorem UW_le_of_prefixed (G : CFG σ K) (W : σ → σ → K)
    (hpre : ∀ Y X, (if Y = X then 1 else 0) + UNs G.V G.rules (fun Z => W Z X) Y ≼ W Y X)
    (k : Nat) (Y X : σ) : UW G k Y X ≼ W Y X := by
  induction k generalizing Y with
  | zero => exact le_trans' (le_add_right' _ _) (hpre Y X)
  | succ k ih =>
    refine le_trans' ?_ (hpre Y X)
    show (if Y = X then 1 else 0) + _ ≼ _
    exact add_le' (le_rfl' _) (UNs_le _ _ _ _ (fun Z => ih Z) Y)

/-- where `≼` is antisymmetric, the partial sums of the unary closure stabilise at `W` from `K0` on
and the weight of `x` at `Y` in `G` has stabilised at `L` from level `N` on, `unaryremove` gives `L`
from level `N` on -/
theorem unaryRemove_limit (W : σ → σ → K) (G : CFG σ K) (K0 : Nat)
    (hW : ∀ k, K0 ≤ k → ∀ Y ∈ nonterminals G, ∀ X ∈ nonterminals G, UW G k Y X = W Y X)
    (hanti : ∀ a b : K, a ≼ b → b ≼ a → a = b) (Y : σ) (x : List σ) (N : Nat) (L : K)
    (hL : ∀ m, N ≤ m → WN G m Y x = L) (n : Nat) (hn : N ≤ n) :
    WN (unaryRemove W G) n Y x = L :=
  limit_transfer hanti (a := fun m => WN G m Y x) (b := fun m => WN (unaryRemove W G) m Y x)
    (fun _ _ h => WN_le_of_le _ h Y x) N N L hL (unaryRemove_preserves W G K0 hW N Y x).1
    (fun m => ⟨m * (K0 + 1), Nat.le_mul_of_pos_right m (Nat.succ_pos _),
      (unaryRemove_preserves W G K0 hW m Y x).2⟩) n hn hn

end

/-! ### non-vacuity (`structUnG` of `Proofs/Struct.lean`: `0 → 2 (1); 2 → 1 (3)`, closure `I + A`) -/
section Examples

example : WN structUnG 1 0 [1] = 0 ∧ WN structUnG 2 0 [1] = 3 ∧
    WN (unaryRemove structUnW structUnG) 1 0 [1] = 3 := by decide

/-- the partial sums of the closure of `structUnG` are `structUnW` from `k = 1` on -/
theorem structUn_UW2 (k X : ℕ) : UW structUnG k 2 X = if 2 = X then 1 else 0 := by
  cases k <;> simp [UW, UNs, structUnG, isUnaryRule]

theorem structUn_UW0 (k X : ℕ) :
    UW structUnG (k + 1) 0 X = (if 0 = X then 1 else 0) + (if 2 = X then 1 else 0) := by
  show (if 0 = X then 1 else 0) + UNs structUnG.V structUnG.rules (fun Z => UW structUnG k Z X) 0 = _
  have : UNs structUnG.V structUnG.rules (fun Z => UW structUnG k Z X) 0 = UW structUnG k 2 X := by
    simp [UNs, show structUnG.rules = [⟨1, 0, [2]⟩, ⟨3, 2, [1]⟩] from rfl,
      show structUnG.V = [1] from rfl, isUnaryRule, uTarget]
  rw [this, structUn_UW2]

theorem structUn_stab : ∀ k, 1 ≤ k → ∀ Y ∈ nonterminals structUnG, ∀ X ∈ nonterminals structUnG,
    UW structUnG k Y X = structUnW Y X := by
  intro k hk Y hY X hX
  obtain ⟨k, rfl⟩ : ∃ j, k = j + 1 := ⟨k - 1, by omega⟩
  have hN : nonterminals structUnG = [0, 2] := by decide
  rw [hN] at hY hX
  simp only [List.mem_cons, List.not_mem_nil, or_false] at hY hX
  rcases hY with rfl | rfl <;> rcases hX with rfl | rfl <;>
    simp [structUn_UW0, structUn_UW2, structUnW]

example (n : ℕ) (Y : ℕ) (x : List ℕ) :
    WN structUnG n Y x ≼ WN (unaryRemove structUnW structUnG) n Y x ∧
      WN (unaryRemove structUnW structUnG) n Y x ≼ WN structUnG (n * 2) Y x :=
  unaryRemove_preserves structUnW structUnG 1 structUn_stab n Y x
-- the stretch factor `K0 + 1 = 2` is attained (first example above: level 1 after, level 2 before)

end Examples
end Genlm
