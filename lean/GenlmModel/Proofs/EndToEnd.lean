import GenlmModel.Proofs.LimTransforms2
import GenlmModel.Proofs.IncCky
import GenlmModel.Proofs.EarleyQ

/-! # End-to-end parser theorems over `ℝ≥0∞` (C02 at full strength)

`CFG.__call__` (CKY on `self.cnf`), `IncrementalCKY` on the CNF grammar and `Earley` (with its own
preprocessing `nullaryremove(binarize=True).unarycycleremove().renumber()`) all return `WL G G.S x`, the sum of
the weights of ALL derivation trees of `x` in the ORIGINAL grammar `G` — whatever the nullable and unary parts of
`G` look like (cyclic, divergent, …) — when the numbers the code computes by fixpoint iteration (null weights,
unary closures) are the TRUE ones.

* §0  bridges: `inCNFb = true → InCNF`; `WL = WN` at every level `> |x|` for CNF grammars.
* §1–2  `cfg_call_is_WL`, `inc_cky_call_is_WL` (hypotheses: freshness of names only, `CnfNames`).
* §3a structure, every semiring: `nullPrep`, `NullFree`, `UcShape`, `ucycle_acyc_E1` (the preprocessing establishes
      `Acyc`), `potOrder_topo_E1` (a topological numbering exists), `topoOrder_of_buckets_E1` (the numbering the
      code computes is one), `renameNT_eq_renameCFG_E1`, `acyc_renameCFG_E1` (`renumber`).
* §3b `earley_core_is_WL`, `nullaryRemoveL_correct`, `earley_call_is_WL` (+ `_pot`, `_buckets`, `_nil`),
      `earley_call_as_run_is_WL` (with `renumber` and `order = buckets`).
* §4  `parsers_agree`, `parsers_agree_as_run`.
* non-vacuity: `limCnfG` (§1–2), `limUcG` through the whole Earley pipeline, computed explicitly, value `1`.

## Model vs. code (what was checked against `cfg.py`, `parse/earley.py`, `parse/cky.py`)

* `CFG.cnf` is `separate_terminals().nullaryremove(binarize=True).trim().unaryremove().trim()`; `nullaryremove`
  itself ends with `trim()`, so the code trims twice in a row where `cnfModel` trims once (`trim_idem`: no
  difference, all weights are non-zero after `CFG.add`).
* `IncrementalCKY(cfg)` does NOT convert to CNF: `cfg._cnf` only asserts the shape; `CKYLM` passes
  `cfg.cnf.prefix_grammar.cnf`.  `inc_cky_call_is_WL` is about `IncrementalCKY(cfg.cnf)`.  `IncrementalCKY.__init__`
  also calls `renumber()` (not modelled here for CKY; `names_irrelevant`).
* `Earley.__call__` answers `len(x) == 0` from the nullary rules of the start symbol (`earleyNullary`,
  `earley_call_nil_is_WL`) and does not check that the tokens are terminals: the hypothesis `∀ a ∈ x, a ∈ G.V` of the
  Earley theorems is needed (`Proofs/Earley.lean` has the counterexample), while `cfg_call_is_WL` holds for every list.
* **`renumber()` (finding).**  `earley_call_as_run_is_WL` needs `f y ∉ V` for nonterminals `y`.  The code takes
  `max_v = max(x for x in V if isinstance(x, int))` and names the nonterminals `max_v + 1 + i`.  Terminals that are
  equal to Python ints without being instances of `int` — `numpy.int64` token ids, floats — are ignored by the
  `isinstance` test, so the new names collide with terminals (`np.int64(2) == 2`, same hash).  Observed on
  `S → A B, A → 1, B → 2` with `V = {np.int64(1), np.int64(2)}`: `cfg(x) = 1.0`, `Earley(cfg)(x) = 2.0`,
  `IncrementalCKY(cfg.cnf)` raises `AssertionError` in `_cnf`; same with `V = {1.0, 2.0}`.
* `unarycycleremove` decides `acyclic` from `G[X, X] == zero`; the proof that the start symbol keeps its name (so
  that the nullary rule stays at the start symbol, `NullOK`) needs `A X X = 0` where the grammar has no rule
  `X → X` (`UcShape.noSelf`) — true of `_unary_graph` over `ℝ≥0∞`, where weights cannot cancel (cf. the
  `__setitem__` finding in `Proofs/UCycle.lean` for semirings with cancellation).
* `Earley.order` is `_unary_graph_transpose().buckets`; Tarjan is run on `incoming`, which lists the blocks sources
  first, so for the transposed graph (arcs `body → head`) `order[Y] < order[X]` for every rule `X → Y`
  (`topoOrder_of_buckets_E1`); `ORDER_MAX = 1 + max(order.values())` is `≤ |blocks| + 1`, any strict bound works.
* the numbers `null_weight()` (`agenda(tol=1e-12, maxiter=100000)`) and `_closure` (Lehmann with `star`) return
  are replaced by the TRUE null weights / closures (`nullWL`, `TrueClosures`): the theorems are exact statements
  about the algorithm given exact sub-results, not about floating-point convergence. -/
namespace Genlm
set_option linter.unusedSectionVars false
open scoped ENNReal
open UnfoldAux Sem2Aux LimAux

/-! ## 0. bridges -/
section
variable {σ K : Type} [DecidableEq σ] [DecidableEq K] [CommSemiring K]

/-- the Boolean check `inCNFb` (model of `CFG.in_cnf`) implies the predicate `InCNF` the CKY theorems use -/
theorem inCNF_of_inCNFb_E1 (G : CFG σ K) (h : inCNFb G = true) : InCNF G := by
  intro r hr
  unfold inCNFb at h
  rw [List.all_eq_true] at h
  have h' := h r hr
  rw [Bool.and_eq_true, decide_eq_true_eq] at h'
  obtain ⟨h1, h2⟩ := h'
  refine ⟨h1, ?_⟩
  match hb : r.body with
  | [] =>
    rw [hb] at h2
    exact Or.inl ⟨rfl, by simpa using h2⟩
  | [a] =>
    rw [hb] at h2
    exact Or.inr (Or.inl ⟨a, rfl, by simpa using h2⟩)
  | [B, C] =>
    rw [hb] at h2
    have h3 : B ∉ G.V ∧ C ∉ G.V ∧ B ≠ G.S ∧ C ≠ G.S := by simpa using h2
    exact Or.inr (Or.inr ⟨B, C, rfl, h3.1, h3.2.1, h3.2.2.1, h3.2.2.2⟩)
  | a :: b :: c :: tl =>
    rw [hb] at h2
    exact absurd h2 (by simp)

end

section
variable {σ : Type} [DecidableEq σ]

/-- for a CNF grammar the sum over ALL derivation trees of `x` is reached at every level `> |x|` -/
theorem WL_eq_WN_of_cnf_E1 (G : CFG σ ℝ≥0∞) (h : InCNF G) (X : σ) (x : List σ) (n : Nat)
    (hn : x.length + 1 ≤ n) : WL G X x = WN G n X x := by
  rw [← cky_correct G h x X n hn]
  exact WL_of_stable G X x (x.length + 1) _ (fun m hm => (cky_correct G h x X m hm).symm)

end

/-! ## 1.–2. `CFG.__call__` and `IncrementalCKY` -/
section
variable {σ : Type} [DecidableEq σ] [DecidableEq ℝ≥0∞]

/-- the freshness hypotheses of `cnfL_correct`, bundled: the start symbol and the heads of `G` are
nonterminals; the names `gen k` (`_gen_nt()`, used for `k > ctr`), `fresh` (the new start symbol of
`separate_start`) and `rename y` (`NotNull(y)`) are pairwise different nonterminals that do not occur in `G` -/
structure CnfNames (gen : Nat → σ) (fresh : σ) (rename : σ → σ) (G : CFG σ ℝ≥0∞) (ctr : Nat) : Prop where
  startNT : G.S ∉ G.V
  headsNT : ∀ r ∈ G.rules, r.head ∉ G.V
  genNT : ∀ i, gen i ∉ G.V
  genInj : ∀ i j, ctr < i → ctr < j → gen i = gen j → i = j
  genHead : ∀ r ∈ G.rules, ∀ k, ctr < k → r.head ≠ gen k
  genBody : ∀ r ∈ G.rules, ∀ s ∈ r.body, ∀ k, ctr < k → s ≠ gen k
  genStart : ∀ k, ctr < k → G.S ≠ gen k
  genFresh : ∀ i, gen i ≠ fresh
  freshNT : fresh ∉ G.V
  freshStart : fresh ≠ G.S
  freshHead : ∀ r ∈ G.rules, r.head ≠ fresh
  freshBody : fresh ∉ bodySyms G
  renNT : ∀ y, rename y ∉ G.V
  renInj : ∀ y z, rename y = rename z → y = z
  renStart : ∀ y, rename y ≠ G.S
  renFresh : ∀ y, rename y ≠ fresh
  renGen : ∀ y i, rename y ≠ gen i
  renHead : ∀ y, ∀ r ∈ G.rules, rename y ≠ r.head
  renBody : ∀ y, rename y ∉ bodySyms G

/-- `cnfL_correct` with the bundled hypotheses, `InCNF` form -/
theorem cnfL_inCNF_E1 (gen : Nat → σ) (fresh : σ) (rename : σ → σ) (G : CFG σ ℝ≥0∞) (ctr : Nat)
    (H : CnfNames gen fresh rename G ctr) :
    InCNF (cnfL gen fresh rename G ctr) ∧
      ∀ x, WL (cnfL gen fresh rename G ctr) (cnfL gen fresh rename G ctr).S x = WL G G.S x := by
  obtain ⟨h1, h2⟩ := cnfL_correct gen fresh rename G ctr H.startNT H.headsNT H.genNT H.genInj H.genHead
    H.genBody H.genStart H.genFresh H.freshNT H.freshStart H.freshHead H.freshBody H.renNT H.renInj
    H.renStart H.renFresh H.renGen H.renHead H.renBody
  exact ⟨inCNF_of_inCNFb_E1 _ h1, h2⟩

/-- **C02, `CFG.__call__`, full strength.**  `cfg(x)` = `self.cnf._parse_chart(x)[0, S, len(x)]`: CKY on the
grammar `cnf()` produces with the TRUE null weights and the TRUE unary closure.  For EVERY grammar `G` over
`ℝ≥0∞` (nullary rules, unary cycles, any arity, divergent sums included) and EVERY string `x` (the empty one
included) the value is the sum of the weights of ALL derivation trees of `x` in `G`. -/
theorem cfg_call_is_WL (gen : Nat → σ) (fresh : σ) (rename : σ → σ) (G : CFG σ ℝ≥0∞) (ctr : Nat)
    (H : CnfNames gen fresh rename G ctr) (x : List σ) :
    cfgParse (cnfL gen fresh rename G ctr) x = WL G G.S x := by
  obtain ⟨hI, hW⟩ := cnfL_inCNF_E1 gen fresh rename G ctr H
  rw [cfgParse_eq_WN _ hI x (x.length + 1) (Nat.le_refl _),
    ← WL_eq_WN_of_cnf_E1 _ hI _ x _ (Nat.le_refl _), hW x]

/-- **C02, `IncrementalCKY(cfg.cnf)(x)`, full strength.** -/
theorem inc_cky_call_is_WL (gen : Nat → σ) (fresh : σ) (rename : σ → σ) (G : CFG σ ℝ≥0∞) (ctr : Nat)
    (H : CnfNames gen fresh rename G ctr) (x : List σ) :
    incCkyCall (cnfL gen fresh rename G ctr) x = WL G G.S x := by
  obtain ⟨hI, _⟩ := cnfL_inCNF_E1 gen fresh rename G ctr H
  rw [← cfgParse_eq_incCkyCall _ hI x]
  exact cfg_call_is_WL gen fresh rename G ctr H x

/-- every entry of the incremental chart is a true weight of the CNF grammar (`chart(p)[k][i][X]` is the sum
over all derivation trees of `p[i:k]` from `X`) -/
theorem inc_cky_entry_is_WL (gen : Nat → σ) (fresh : σ) (rename : σ → σ) (G : CFG σ ℝ≥0∞) (ctr : Nat)
    (H : CnfNames gen fresh rename G ctr) (p : List σ) (k i : Nat) (hk : k ≤ p.length) (hi : i ≤ k) (X : σ) :
    colGet ((ckyChart (cnfL gen fresh rename G ctr) p).getD k []) i X
      = WL (cnfL gen fresh rename G ctr) X ((p.take k).drop i) := by
  obtain ⟨hI, _⟩ := cnfL_inCNF_E1 gen fresh rename G ctr H
  have hlen : ((p.take k).drop i).length = k - i := by
    rw [List.length_drop, List.length_take, Nat.min_eq_left hk]
  rw [incCky_entry _ hI p k i hk hi X (k - i + 1) (Nat.le_refl _),
    WL_eq_WN_of_cnf_E1 _ hI X _ (k - i + 1) (by rw [hlen])]

end

/-! ### non-vacuity of 1.–2.: `limCnfG` (cyclic nullable part AND a unary cycle) -/
section ExamplesCky

theorem limCnfG_names_E1 :
    CnfNames (fun i => 2 * i + 10) 9 (fun y => 2 * y + 101) limCnfG 0 where
  startNT := by decide
  headsNT := by intro r hr; rw [limCnfG_heads r hr]; decide
  genNT := by intro i; simp [limCnfG]
  genInj := by intro i j _ _ h; simpa using h
  genHead := by intro r hr k _; rw [limCnfG_heads r hr]; omega
  genBody := by intro r hr s hs k _; have := limCnfG_body s (mem_bodySyms.mpr ⟨r, hr, hs⟩); omega
  genStart := by intro k _; show (0 : ℕ) ≠ _; omega
  genFresh := by intro i; omega
  freshNT := by decide
  freshStart := by decide
  freshHead := by intro r hr; rw [limCnfG_heads r hr]; decide
  freshBody := by decide
  renNT := by intro y; simp [limCnfG]
  renInj := by intro y z h; simpa using h
  renStart := by intro y; show 2 * y + 101 ≠ (0 : ℕ); omega
  renFresh := by intro y; omega
  renGen := by intro y i; omega
  renHead := by intro y r hr; rw [limCnfG_heads r hr]; omega
  renBody := by intro y h; have := limCnfG_body _ h; omega

example (x : List ℕ) :
    cfgParse (cnfL (fun i => 2 * i + 10) 9 (fun y => 2 * y + 101) limCnfG 0) x = WL limCnfG 0 x :=
  cfg_call_is_WL _ _ _ _ _ limCnfG_names_E1 x

end ExamplesCky

/-! ## 3. the Earley parser with its preprocessing

`Earley.__init__` runs `cfg.nullaryremove(binarize=True).unarycycleremove().renumber()`, i.e.
`binarize → separate_start → _push_null_weights(null_weight()) → trim → unarycycleremove → trim → renumber`. -/

/-! ### 3a. structure (every commutative semiring) -/
section
open UCycleAux
variable {σ K : Type} [DecidableEq σ] [DecidableEq K] [CommSemiring K]

/-- head / body predicates that hold of `G`'s rules and of the generated names hold of the rules of
`binarize` (no `separate_terminals` before, unlike `binPrep_inv`) -/
theorem binarize_inv_E1 (Hd Bd : σ → Prop) (gen : Nat → σ) (G : CFG σ K) (ctr : Nat)
    (hHd : ∀ i, Hd (gen i)) (hBd : ∀ i, Bd (gen i))
    (hG : ∀ r ∈ G.rules, Hd r.head ∧ ∀ s ∈ r.body, Bd s) :
    ∀ r ∈ (binarize gen G ctr).1.rules, Hd r.head ∧ ∀ s ∈ r.body, Bd s := by
  refine binarize_forall gen (fun r => Hd r.head ∧ ∀ s ∈ r.body, Bd s) ?_ G ctr hG
  intro p a b c tl k hp hb
  obtain ⟨h1, h2⟩ := hp
  rw [hb] at h2
  refine ⟨⟨hHd k, ?_⟩, ⟨h1, ?_⟩⟩
  · intro s hs; exact h2 s (by simp at hs ⊢; tauto)
  · intro s hs
    rcases List.mem_cons.mp hs with rfl | hs
    · exact hBd k
    · exact h2 s (by simp at hs ⊢; tauto)

/-- the grammar handed to `_push_null_weights` inside `nullaryremove(binarize=True)`:
`binarize → separate_start` -/
def nullPrep (gen : Nat → σ) (fresh : σ) (G : CFG σ K) (ctr : Nat) : CFG σ K :=
  separateStart (binarize gen G ctr).1 fresh

theorem nullPrep_V_E1 (gen : Nat → σ) (fresh : σ) (G : CFG σ K) (ctr : Nat) :
    (nullPrep gen fresh G ctr).V = G.V := by
  unfold nullPrep; rw [separateStart_V]; rfl

theorem nullPrep_S_cases_E1 (gen : Nat → σ) (fresh : σ) (G : CFG σ K) (ctr : Nat) :
    (nullPrep gen fresh G ctr).S = fresh ∨ (nullPrep gen fresh G ctr).S = G.S := by
  unfold nullPrep separateStart
  split
  · exact Or.inl rfl
  · exact Or.inr rfl

theorem nullPrep_mem_E1 (gen : Nat → σ) (fresh : σ) (G : CFG σ K) (ctr : Nat) {r : Rule σ K}
    (hr : r ∈ (nullPrep gen fresh G ctr).rules) :
    r = ⟨1, fresh, [G.S]⟩ ∨ r ∈ (binarize gen G ctr).1.rules := by
  unfold nullPrep separateStart at hr
  split at hr
  · rcases List.mem_cons.mp (mem_mkRules.mp hr).1 with h | h
    · exact Or.inl h
    · exact Or.inr h
  · exact Or.inr hr

theorem nullPrep_inv_E1 (Hd Bd : σ → Prop) (gen : Nat → σ) (fresh : σ) (G : CFG σ K) (ctr : Nat)
    (hHd : ∀ i, Hd (gen i)) (hBd : ∀ i, Bd (gen i))
    (hG : ∀ r ∈ G.rules, Hd r.head ∧ ∀ s ∈ r.body, Bd s) (hf : Hd fresh) (hS : Bd G.S) :
    ∀ r ∈ (nullPrep gen fresh G ctr).rules, Hd r.head ∧ ∀ s ∈ r.body, Bd s := by
  intro r hr
  rcases nullPrep_mem_E1 gen fresh G ctr hr with rfl | h
  · exact ⟨hf, fun s hs => by
      have : s = G.S := by simpa using hs
      exact this ▸ hS⟩
  · exact binarize_inv_E1 Hd Bd gen G ctr hHd hBd hG r h

theorem nullPrep_start_off_E1 (gen : Nat → σ) (fresh : σ) (G : CFG σ K) (ctr : Nat)
    (hgenf : ∀ i, gen i ≠ fresh) (hfS : fresh ≠ G.S) (hfb : fresh ∉ bodySyms G) :
    (nullPrep gen fresh G ctr).S ∉ bodySyms (nullPrep gen fresh G ctr) := by
  have hB := binarize_inv_E1 (fun _ => True) (fun s => s ≠ fresh) gen G ctr (fun _ => trivial)
    hgenf (fun r hr => ⟨trivial, fun s hs e => hfb (mem_bodySyms.mpr ⟨r, hr, e ▸ hs⟩)⟩)
  have hoff := separateStart_off_rhs (binarize gen G ctr).1 fresh
    (fun hm => by
      obtain ⟨r, hr, hm⟩ := mem_bodySyms.mp hm
      exact (hB r hr).2 fresh hm rfl)
    hfS
  simp only [startOffRhs, decide_eq_true_eq] at hoff
  exact hoff

/-- the shape `nullaryremove` establishes and `Earley.__init__` relies on before `unarycycleremove`:
start symbol and heads are nonterminals, the start symbol is on no right-hand side, and only the start
symbol has a nullary rule -/
structure NullFree (H : CFG σ K) : Prop where
  startNT : H.S ∉ H.V
  headsNT : ∀ r ∈ H.rules, r.head ∉ H.V
  startOff : ∀ r ∈ H.rules, H.S ∉ r.body
  nullStart : ∀ r ∈ H.rules, r.body = [] → r.head = H.S

/-- **C07, `_push_null_weights`** (no arity / terminal-separation assumption, unlike `pushNull_shape`) -/
theorem pushNull_nullFree_E1 (nullW : σ → K) (rename : σ → σ) (G : CFG σ K)
    (hS : G.S ∉ G.V) (hheads : ∀ r ∈ G.rules, r.head ∉ G.V) (hoff : G.S ∉ bodySyms G)
    (hrenV : ∀ y, rename y ∉ G.V) (hrenS : ∀ y, rename y ≠ G.S) :
    NullFree (pushNull nullW rename G) := by
  have key : ∀ r ∈ (pushNull nullW rename G).rules,
      r.head ∉ G.V ∧ G.S ∉ r.body ∧ (r.body = [] → r.head = G.S) := by
    intro r hr
    simp only [pushNull] at hr
    rcases List.mem_cons.mp (mem_mkRules.mp hr).1 with rfl | h
    · exact ⟨hS, by simp, fun _ => rfl⟩
    · simp only [List.mem_flatMap] at h
      obtain ⟨q, hq, hmem⟩ := h
      split at hmem
      · simp at hmem
      · simp only [List.mem_map, List.mem_filter] at hmem
        obtain ⟨p, ⟨hp, hpne⟩, rfl⟩ := hmem
        have hpne : p.2 ≠ [] := by simpa using hpne
        have hsub := nullChoices_sublist nullW
          (fun x => if nullW x = 0 ∨ x = G.S then x else rename x) q.body p hp
        refine ⟨?_, ?_, fun h => absurd h hpne⟩
        · exact pnF_notV nullW rename G hrenV (hheads q hq)
        · intro hm
          obtain ⟨y, hy, he⟩ := List.mem_map.mp (hsub.subset hm)
          exact pnF_ne_S nullW rename G hrenS (fun e => hoff (mem_bodySyms.mpr ⟨q, hq, e ▸ hy⟩)) he
  exact ⟨hS, fun r hr => (key r hr).1, fun r hr => (key r hr).2.1, fun r hr => (key r hr).2.2⟩

theorem trim_nullFree_E1 (H : CFG σ K) (h : NullFree H) : NullFree (trim H) :=
  ⟨h.startNT, fun r hr => h.headsNT r ((trim_rules_sub H).subset hr),
    fun r hr => h.startOff r ((trim_rules_sub H).subset hr),
    fun r hr => h.nullStart r ((trim_rules_sub H).subset hr)⟩

/-- what `unarycycleremove` reads off `G = self._unary_graph()`, for the grammar `H`: `blocks` (`G.Blocks`)
is an SCC decomposition (sources first) of the graph of the unary rules of `H` on the node set `nodes`
(`G.N`), which contains the start symbol and every head and no terminal; the keys of each closure matrix lie
in its block; `bot x` (`(x, "bot")`) is injective and new; and `A X X = G[X, X]` is zero where `H` has no unary
rule `X → X`.  Nothing is said here about the VALUES of the closure matrices. -/
structure UcShape (A : σ → σ → K) (blocks : List (Block σ K)) (bot : σ → σ) (nodes : List σ)
    (H : CFG σ K) : Prop where
  scc : IsSccDecomp nodes (unaryEdges H) (blocks.map (·.nodes))
  clo : ∀ b ∈ blocks, ∀ e ∈ b.clo, e.1.1 ∈ b.nodes ∧ e.1.2 ∈ b.nodes
  inj : ∀ x ∈ nodes, ∀ y ∈ nodes, bot x = bot y → x = y
  fresh : ∀ x ∈ nodes, bot x ∉ nodes
  start : H.S ∈ nodes
  heads : ∀ r ∈ H.rules, r.head ∈ nodes
  notV : ∀ x ∈ nodes, x ∉ H.V ∧ bot x ∉ H.V
  body : ∀ r ∈ H.rules, ∀ s ∈ r.body, ∀ u ∈ nodes, s ≠ bot u
  noSelf : ∀ X, (X, X) ∉ unaryEdges H → A X X = 0

theorem UcShape.semHyp {A : σ → σ → K} {blocks : List (Block σ K)} {bot : σ → σ} {nodes : List σ}
    {H : CFG σ K} (h : UcShape A blocks bot nodes H) : SemHyp blocks bot H :=
  ⟨h.scc.nodup, h.clo,
    fun x hx y hy => h.inj x ((h.scc.cover x).mpr hx) y ((h.scc.cover y).mpr hy),
    fun x hx hm => h.fresh x ((h.scc.cover x).mpr hx) ((h.scc.cover _).mpr hm),
    fun r hr => (h.scc.cover _).mp (h.heads r hr),
    fun x hx => h.notV x ((h.scc.cover x).mpr hx)⟩

/-- a rule of the result of `unarycycleremove` is a block rule `X1 → bot(X2)` of a block that is not skipped
or a kept rule `bot(head) → body` -/
theorem ucr_mem_E1 {A : σ → σ → K} {blocks : List (Block σ K)} {bot : σ → σ} {H : CFG σ K}
    {r : Rule σ K} (hr : r ∈ (unaryCycleRemove A blocks bot H).rules) :
    (∃ b ∈ blocks, ucSkipBlock (ucAcyclic A blocks) b = false ∧
        ∃ e ∈ b.clo, r = ⟨e.2, e.1.1, [ucBot (ucAcyclic A blocks) bot e.1.2]⟩) ∨
      (∃ q ∈ H.rules, ucSkipRule (blocks.map (·.nodes)) q = false ∧
        r = ⟨q.w, ucBot (ucAcyclic A blocks) bot q.head, q.body⟩) := by
  have hr' : r ∈ ucBlockRules (ucAcyclic A blocks) bot blocks ++
      ucKeptRules (ucAcyclic A blocks) bot (blocks.map (·.nodes)) H.rules := (mem_mkRules.mp hr).1
  rcases List.mem_append.mp hr' with h | h
  · exact Or.inl (mem_ucBlockRules.mp h)
  · exact Or.inr (mem_ucKeptRules.mp h)

/-- the start symbol of a grammar whose start symbol is on no right-hand side is classified `acyclic` -/
theorem start_acyclic_E1 {A : σ → σ → K} {blocks : List (Block σ K)} {bot : σ → σ} {nodes : List σ}
    {H : CFG σ K} (hN : NullFree H) (hU : UcShape A blocks bot nodes H) :
    H.S ∈ ucAcyclic A blocks := by
  have hnoarc : ∀ c, (c, H.S) ∉ unaryEdges H := by
    intro c hc
    obtain ⟨r, hr, _, hb, _⟩ := mem_unaryEdges.mp hc
    exact hN.startOff r hr (by rw [hb]; simp)
  obtain ⟨N, hN', hSN⟩ := List.mem_flatten.mp ((hU.scc.cover _).mp hU.start)
  obtain ⟨b, hb, rfl⟩ := List.mem_map.mp hN'
  have hall : ∀ v ∈ b.nodes, v = H.S := by
    intro v hv
    have hvn : v ∈ nodes := (hU.scc.cover v).mpr (List.mem_flatten.mpr ⟨_, hN', hv⟩)
    have := ((hU.scc.scc v hvn H.S hU.start).mp ⟨_, hN', hv, hSN⟩).1
    rcases Relation.ReflTransGen.cases_tail this with h | ⟨c, _, hc⟩
    · exact h.symm
    · exact absurd hc (hnoarc c)
  have hnd : b.nodes.Nodup :=
    (List.nodup_flatten.mp hU.scc.nodup).1 _ hN'
  have hsingle : b.nodes = [H.S] := by
    match hbn : b.nodes with
    | [] => rw [hbn] at hSN; simp at hSN
    | [a] => rw [hall a (by rw [hbn]; simp)]
    | a :: c :: t =>
      rw [hbn] at hnd
      have ha := hall a (by rw [hbn]; simp)
      have hc := hall c (by rw [hbn]; simp)
      rw [ha, hc] at hnd
      simp at hnd
  exact mem_ucAcyclic.mpr ⟨b, hb, hsingle, hU.noSelf H.S (hnoarc H.S)⟩

/-- the topological numbering used for the discharged versions: the potential of `edge_pot`, reversed -/
def potOrder (bot : σ → σ) (bl : List (List σ)) (s : σ) : Nat := 2 * bl.length + 1 - pot bot bl s

theorem pot_le_E1 (bot : σ → σ) (bl : List (List σ)) (s : σ) : pot bot bl s ≤ 2 * bl.length + 1 := by
  have hle : ∀ u, blockIdx bl u ≤ bl.length := fun u => List.findIdx_le_length
  unfold pot
  split
  · next x _ => have := hle x; omega
  · have := hle s; omega

/-- **C07, the preprocessing of `Earley.__init__` establishes what the parser relies on**: after
`unarycycleremove` and `trim`, nullary rules only at the start symbol, which is on no right-hand side; no
terminal heads a rule; and `order` — ANY numbering that is topological for the unary rules — gives `Acyc`. -/
theorem ucycle_acyc_E1 (A : σ → σ → K) (blocks : List (Block σ K)) (bot : σ → σ) (nodes : List σ)
    (H : CFG σ K) (hN : NullFree H) (hU : UcShape A blocks bot nodes H) (order : σ → Nat)
    (hT : TopoOrder (trim (unaryCycleRemove A blocks bot H)) order) :
    Acyc (trim (unaryCycleRemove A blocks bot H)) order := by
  have hS := hU.semHyp
  have hSac := start_acyclic_E1 hN hU
  have hSf : H.S ∈ (blocks.map (·.nodes)).flatten := (hU.scc.cover _).mp hU.start
  have key : ∀ r ∈ (unaryCycleRemove A blocks bot H).rules,
      r.head ∉ H.V ∧ H.S ∉ r.body ∧ (r.body = [] → r.head = H.S) := by
    intro r hr
    rcases ucr_mem_E1 hr with ⟨b, hb, hs, e, he, rfl⟩ | ⟨q, hq, _, rfl⟩
    · have hbl : b.nodes ∈ blocks.map (·.nodes) := List.mem_map.mpr ⟨b, hb, rfl⟩
      obtain ⟨h1, h2⟩ := hU.clo b hb e he
      have hf1 : e.1.1 ∈ (blocks.map (·.nodes)).flatten := List.mem_flatten.mpr ⟨_, hbl, h1⟩
      have hf2 : e.1.2 ∈ (blocks.map (·.nodes)).flatten := List.mem_flatten.mpr ⟨_, hbl, h2⟩
      refine ⟨(hS.term _ hf1).1, ?_, fun h => absurd h (by simp)⟩
      have hna := not_acyclic_of_unskipped hS.nodup hb hs h2
      simp only [List.mem_singleton]
      unfold ucBot
      rw [if_neg hna]
      exact fun e' => hS.fresh _ hf2 (e' ▸ hSf)
    · refine ⟨botp_notV hS (hS.heads q hq), hN.startOff q hq, fun hb => ?_⟩
      show ucBot (ucAcyclic A blocks) bot q.head = H.S
      rw [hN.nullStart q hq hb]
      unfold ucBot
      rw [if_pos hSac]
  have sub := trim_rules_sub (unaryCycleRemove A blocks bot H)
  refine ⟨?_, ?_, hT⟩
  · intro r hr hb
    exact ⟨(key r (sub.subset hr)).2.2 hb, fun r' hr' => (key r' (sub.subset hr')).2.1⟩
  · intro r hr
    exact (key r (sub.subset hr)).1

/-- the reversed potential is a topological numbering of the result of `unarycycleremove` (hence `Acyc` needs
no hypothesis on `order` for it), bounded by `2·|blocks| + 2` -/
theorem potOrder_topo_E1 (A : σ → σ → K) (blocks : List (Block σ K)) (bot : σ → σ) (nodes : List σ)
    (H : CFG σ K) (hU : UcShape A blocks bot nodes H) :
    TopoOrder (trim (unaryCycleRemove A blocks bot H)) (potOrder bot (blocks.map (·.nodes))) ∧
    OrderBound (trim (unaryCycleRemove A blocks bot H)) (potOrder bot (blocks.map (·.nodes)))
      (2 * (blocks.map (·.nodes)).length + 2) := by
  constructor
  · intro r hr hlen Y hY hYV
    have hr' := (trim_rules_sub (unaryCycleRemove A blocks bot H)).subset hr
    have hb : r.body = [Y] := by
      match hbb : r.body with
      | [] => rw [hbb] at hlen; simp at hlen
      | [y] => rw [hbb] at hY; simp at hY; rw [hY]
      | a :: b :: t => rw [hbb] at hlen; simp at hlen
    have hedge : (r.head, Y) ∈ unaryEdges (unaryCycleRemove A blocks bot H) :=
      mem_unaryEdges.mpr ⟨r, hr', rfl, hb, hYV⟩
    have := edge_pot A blocks bot H nodes (unaryEdges H) hU.scc
      (fun q hq _ y hy hV => mem_unaryEdges.mpr ⟨q, hq, rfl, hy, hV⟩) hU.clo hU.inj hU.fresh _ _ hedge
    have h2 := pot_le_E1 bot (blocks.map (·.nodes)) Y
    unfold potOrder
    omega
  · intro r _
    unfold potOrder
    omega

end

/-! ### 3b. semantics over `ℝ≥0∞` -/
section
open UCycleAux EarleyAux
variable {σ : Type} [DecidableEq σ] [DecidableEq ℝ≥0∞]

/-- for a grammar in the shape the Earley parser expects (`Acyc`) the sum over ALL derivation trees of `x` is
reached at every level `≥ |x|·M + 1` -/
theorem WL_eq_WN_of_acyc_E1 (G : CFG σ ℝ≥0∞) (order : σ → Nat) (M : Nat) (hA : Acyc G order)
    (hM : OrderBound G order M) (X : σ) (x : List σ) (n : Nat) (hn : x.length * M + 1 ≤ n) :
    WL G X x = WN G n X x := by
  rw [WN_stable G order M hA hM X x n hn]
  exact WL_of_stable G X x (x.length * M + 1) _ (fun m hm => WN_stable G order M hA hM X x m hm)

/-- the pop function `popMax` (first pushed among the items of maximal priority) is admissible -/
theorem earleyPick_ok_E1 (G : CFG σ ℝ≥0∞) (order : σ → Nat) :
    ∀ k, PickOK (itemPrio G order k) (earleyPick G order k) := fun _ => popMax_ok _

/-- `unarycycleremove()` (which trims) applied to the grammar `H` left by `nullaryremove`: the grammar the
Earley parser runs on (up to `renumber`, see §3c) -/
def earleyCore (A : σ → σ → ℝ≥0∞) (blocks : List (Block σ ℝ≥0∞)) (bot : σ → σ) (H : CFG σ ℝ≥0∞) :
    CFG σ ℝ≥0∞ :=
  trim (unaryCycleRemove A blocks bot H)

/-- the closure matrices of `G.Blocks` hold the TRUE closures of the unary rules inside the blocks -/
def TrueClosures (A : σ → σ → ℝ≥0∞) (blocks : List (Block σ ℝ≥0∞)) (nodes : List σ) (H : CFG σ ℝ≥0∞) :
    Prop :=
  ∀ X ∈ nodes, ∀ Z ∈ nodes, ucW A blocks X Z = ucUWL (blocks.map (·.nodes)) H X Z

theorem earleyCore_WL (A : σ → σ → ℝ≥0∞) (blocks : List (Block σ ℝ≥0∞)) (bot : σ → σ) (nodes : List σ)
    (H : CFG σ ℝ≥0∞) (hU : UcShape A blocks bot nodes H) (hW : TrueClosures A blocks nodes H)
    (x : List σ) : WL (earleyCore A blocks bot H) H.S x = WL H H.S x := by
  have hS := hU.semHyp
  have e1 : WL (earleyCore A blocks bot H) H.S x = WL (unaryCycleRemove A blocks bot H) H.S x :=
    trim_WL (unaryCycleRemove A blocks bot H) x
  have e2 := ucycle_WL A blocks bot H hS.nodup hS.clo hS.inj hS.fresh hS.heads hS.term
    (fun r hr s hs u hu => hU.body r hr s hs u ((hU.scc.cover u).mpr hu))
    (fun X hX Z hZ => hW X ((hU.scc.cover X).mpr hX) Z ((hU.scc.cover Z).mpr hZ))
    H.S ((hU.scc.cover _).mp hU.start) x
  exact e1.trans e2

/-- **C02, the Earley parser after `nullaryremove`** (model with the priority-queue agenda, ANY pop among the
items of maximal priority).  `H` is in the shape `nullaryremove` establishes (`NullFree`), `blocks`/`A`/`bot`
are what `unarycycleremove` reads off the unary graph of `H` (`UcShape`), with the TRUE block closures;
`order` is any topological numbering of the unary rules of the result (`Earley.order`; `potOrder` is one,
`earley_core_is_WL_pot`).  Then `Earley(x)` is the sum of the weights of ALL derivation trees of `x` in `H`,
for every string of terminals, the empty string (answered from the nullary rules of the start symbol)
included. -/
theorem earley_core_is_WL (A : σ → σ → ℝ≥0∞) (blocks : List (Block σ ℝ≥0∞)) (bot : σ → σ)
    (nodes : List σ) (H : CFG σ ℝ≥0∞) (hN : NullFree H) (hU : UcShape A blocks bot nodes H)
    (hW : TrueClosures A blocks nodes H) (order : σ → Nat) (M : Nat)
    (hT : TopoOrder (earleyCore A blocks bot H) order) (hM : OrderBound (earleyCore A blocks bot H) order M)
    (pick : Nat → List (Nat × σ) → Option ((Nat × σ) × List (Nat × σ)))
    (hpick : ∀ k, PickOK (itemPrio (earleyCore A blocks bot H) order k) (pick k))
    (x : List σ) (hx : ∀ a ∈ x, a ∈ H.V) :
    earleyCallQ (earleyCore A blocks bot H) pick x = WL H H.S x := by
  have hA : Acyc (earleyCore A blocks bot H) order := ucycle_acyc_E1 A blocks bot nodes H hN hU order hT
  rw [earleyQ_correct (earleyCore A blocks bot H) order M hA hM pick hpick x hx (x.length * M + 1)
    (Nat.le_refl _)]
  rw [← WL_eq_WN_of_acyc_E1 _ order M hA hM _ x _ (Nat.le_refl _)]
  exact earleyCore_WL A blocks bot nodes H hU hW x

/-- the same with the hypotheses on `order` discharged: `order = potOrder`, `ORDER_MAX = 2·|blocks| + 2` -/
theorem earley_core_is_WL_pot (A : σ → σ → ℝ≥0∞) (blocks : List (Block σ ℝ≥0∞)) (bot : σ → σ)
    (nodes : List σ) (H : CFG σ ℝ≥0∞) (hN : NullFree H) (hU : UcShape A blocks bot nodes H)
    (hW : TrueClosures A blocks nodes H)
    (pick : Nat → List (Nat × σ) → Option ((Nat × σ) × List (Nat × σ)))
    (hpick : ∀ k, PickOK (itemPrio (earleyCore A blocks bot H) (potOrder bot (blocks.map (·.nodes))) k)
      (pick k))
    (x : List σ) (hx : ∀ a ∈ x, a ∈ H.V) :
    earleyCallQ (earleyCore A blocks bot H) pick x = WL H H.S x :=
  earley_core_is_WL A blocks bot nodes H hN hU hW _ _
    (potOrder_topo_E1 A blocks bot nodes H hU).1 (potOrder_topo_E1 A blocks bot nodes H hU).2 pick hpick x hx

/-! #### `nullaryremove(binarize=True)` with the TRUE null weights -/

/-- `binarize → separate_start` preserves the true weighted language -/
theorem nullPrep_WL (gen : Nat → σ) (fresh : σ) (rename : σ → σ) (G : CFG σ ℝ≥0∞) (ctr : Nat)
    (Hn : CnfNames gen fresh rename G ctr) (x : List σ) :
    WL (nullPrep gen fresh G ctr) (nullPrep gen fresh G ctr).S x = WL G G.S x := by
  have hB := binarize_inv_E1 (fun s => s ≠ fresh) (fun s => s ≠ fresh) gen G ctr Hn.genFresh Hn.genFresh
    (fun r hr => ⟨Hn.freshHead r hr, fun s hs e => Hn.freshBody (mem_bodySyms.mpr ⟨r, hr, e ▸ hs⟩)⟩)
  have hfresh : Fresh (binarize gen G ctr).1 fresh :=
    ⟨Hn.freshNT, Hn.freshStart, fun r hr => ⟨(hB r hr).1, fun hm => (hB r hr).2 fresh hm rfl⟩⟩
  have h1 := separateStart_WL _ fresh hfresh (show G.S ∉ G.V from Hn.startNT) x
  have h2 := binarize_WL gen G ctr (fun k _ => Hn.genNT k) Hn.genInj Hn.genHead Hn.genBody G.S
    Hn.genStart x
  exact h1.trans h2

/-- `nullaryremove(binarize=True)` (which trims) with the TRUE null weights -/
noncomputable def nullaryRemoveL (gen : Nat → σ) (fresh : σ) (rename : σ → σ) (G : CFG σ ℝ≥0∞)
    (ctr : Nat) : CFG σ ℝ≥0∞ :=
  trim (pushNull (nullWL (nullPrep gen fresh G ctr)) rename (nullPrep gen fresh G ctr))

theorem nullaryRemoveL_V (gen : Nat → σ) (fresh : σ) (rename : σ → σ) (G : CFG σ ℝ≥0∞) (ctr : Nat) :
    (nullaryRemoveL gen fresh rename G ctr).V = G.V := nullPrep_V_E1 gen fresh G ctr

/-- **C06 + C07 (limit), `nullaryremove`**: the result is in the shape the Earley preprocessing relies on and
has the same true weighted language (every string, `ε` included) as `G` -/
theorem nullaryRemoveL_correct (gen : Nat → σ) (fresh : σ) (rename : σ → σ) (G : CFG σ ℝ≥0∞) (ctr : Nat)
    (Hn : CnfNames gen fresh rename G ctr) :
    NullFree (nullaryRemoveL gen fresh rename G ctr) ∧
      ∀ x, WL (nullaryRemoveL gen fresh rename G ctr) (nullaryRemoveL gen fresh rename G ctr).S x
        = WL G G.S x := by
  have hV := nullPrep_V_E1 gen fresh G ctr
  have hP := nullPrep_inv_E1 (fun s => s ∉ G.V ∧ ∀ y, rename y ≠ s) (fun s => ∀ y, rename y ≠ s)
    gen fresh G ctr (fun i => ⟨Hn.genNT i, fun y => Hn.renGen y i⟩) (fun i y => Hn.renGen y i)
    (fun r hr => ⟨⟨Hn.headsNT r hr, fun y => Hn.renHead y r hr⟩,
      fun s hs y e => Hn.renBody y (mem_bodySyms.mpr ⟨r, hr, e ▸ hs⟩)⟩)
    ⟨Hn.freshNT, Hn.renFresh⟩ Hn.renStart
  have hPS : ∀ y, rename y ≠ (nullPrep gen fresh G ctr).S := by
    intro y
    rcases nullPrep_S_cases_E1 gen fresh G ctr with h | h <;> rw [h]
    · exact Hn.renFresh y
    · exact Hn.renStart y
  have hPSV : (nullPrep gen fresh G ctr).S ∉ (nullPrep gen fresh G ctr).V := by
    rw [hV]
    rcases nullPrep_S_cases_E1 gen fresh G ctr with h | h <;> rw [h]
    · exact Hn.freshNT
    · exact Hn.startNT
  have hoff := nullPrep_start_off_E1 gen fresh G ctr Hn.genFresh Hn.freshStart Hn.freshBody
  constructor
  · apply trim_nullFree_E1
    exact pushNull_nullFree_E1 _ rename (nullPrep gen fresh G ctr) hPSV
      (fun r hr => hV ▸ (hP r hr).1.1) hoff (fun y => hV ▸ Hn.renNT y) hPS
  · intro x
    have e5 := trim_WL (pushNull (nullWL (nullPrep gen fresh G ctr)) rename (nullPrep gen fresh G ctr)) x
    have e4 := pushNull_WL_start rename (nullPrep gen fresh G ctr) hPSV hoff
      (fun y => hV ▸ Hn.renNT y) hPS Hn.renInj
      (fun y r hr => (hP r hr).1.2 y)
      (fun y hm => by
        obtain ⟨r, hr, hm⟩ := mem_bodySyms.mp hm
        exact (hP r hr).2 _ hm y rfl) x
    exact e5.trans (e4.trans (nullPrep_WL gen fresh rename G ctr Hn x))

/-! #### the whole pipeline -/

/-- the grammar `Earley.__init__` builds (before `renumber`): `cfg.nullaryremove(binarize=True)
.unarycycleremove()` with the TRUE null weights; `A`, `blocks`, `bot` are what `unarycycleremove` reads off
the unary graph of the intermediate grammar -/
noncomputable def earleyGrammarL (gen : Nat → σ) (fresh : σ) (rename : σ → σ) (A : σ → σ → ℝ≥0∞)
    (blocks : List (Block σ ℝ≥0∞)) (bot : σ → σ) (G : CFG σ ℝ≥0∞) (ctr : Nat) : CFG σ ℝ≥0∞ :=
  earleyCore A blocks bot (nullaryRemoveL gen fresh rename G ctr)

/-- **C02, `Earley(cfg)(x)`, full strength.**  For EVERY grammar `G` over `ℝ≥0∞` (nullary rules, unary
cycles, any arity) the Earley parser — preprocessing with the TRUE null weights and the TRUE block closures,
agenda as a priority queue with any pop among the items of maximal priority — returns, for every string `x` of
terminals (`ε` included), the sum of the weights of ALL derivation trees of `x` in `G`.
Hypotheses: freshness of the generated names (`CnfNames`), well-formedness of the SCC data handed to
`unarycycleremove` (`UcShape`, `TrueClosures`), `order` topological for the unary rules of the final grammar
and bounded by `M` (discharged for `potOrder` in `earley_call_is_WL_pot`), `x` over the terminal alphabet. -/
theorem earley_call_is_WL (gen : Nat → σ) (fresh : σ) (rename : σ → σ) (A : σ → σ → ℝ≥0∞)
    (blocks : List (Block σ ℝ≥0∞)) (bot : σ → σ) (nodes : List σ) (G : CFG σ ℝ≥0∞) (ctr : Nat)
    (Hn : CnfNames gen fresh rename G ctr)
    (hU : UcShape A blocks bot nodes (nullaryRemoveL gen fresh rename G ctr))
    (hW : TrueClosures A blocks nodes (nullaryRemoveL gen fresh rename G ctr))
    (order : σ → Nat) (M : Nat)
    (hT : TopoOrder (earleyGrammarL gen fresh rename A blocks bot G ctr) order)
    (hM : OrderBound (earleyGrammarL gen fresh rename A blocks bot G ctr) order M)
    (pick : Nat → List (Nat × σ) → Option ((Nat × σ) × List (Nat × σ)))
    (hpick : ∀ k, PickOK (itemPrio (earleyGrammarL gen fresh rename A blocks bot G ctr) order k) (pick k))
    (x : List σ) (hx : ∀ a ∈ x, a ∈ G.V) :
    earleyCallQ (earleyGrammarL gen fresh rename A blocks bot G ctr) pick x = WL G G.S x := by
  obtain ⟨hN, hWL⟩ := nullaryRemoveL_correct gen fresh rename G ctr Hn
  have := earley_core_is_WL A blocks bot nodes _ hN hU hW order M hT hM pick hpick x
    (fun a ha => (nullaryRemoveL_V gen fresh rename G ctr) ▸ hx a ha)
  exact this.trans (hWL x)

/-- … with `order = potOrder`: no hypothesis on the order is left -/
theorem earley_call_is_WL_pot (gen : Nat → σ) (fresh : σ) (rename : σ → σ) (A : σ → σ → ℝ≥0∞)
    (blocks : List (Block σ ℝ≥0∞)) (bot : σ → σ) (nodes : List σ) (G : CFG σ ℝ≥0∞) (ctr : Nat)
    (Hn : CnfNames gen fresh rename G ctr)
    (hU : UcShape A blocks bot nodes (nullaryRemoveL gen fresh rename G ctr))
    (hW : TrueClosures A blocks nodes (nullaryRemoveL gen fresh rename G ctr))
    (pick : Nat → List (Nat × σ) → Option ((Nat × σ) × List (Nat × σ)))
    (hpick : ∀ k, PickOK (itemPrio (earleyGrammarL gen fresh rename A blocks bot G ctr)
      (potOrder bot (blocks.map (·.nodes))) k) (pick k))
    (x : List σ) (hx : ∀ a ∈ x, a ∈ G.V) :
    earleyCallQ (earleyGrammarL gen fresh rename A blocks bot G ctr) pick x = WL G G.S x :=
  earley_call_is_WL gen fresh rename A blocks bot nodes G ctr Hn hU hW _ _
    (potOrder_topo_E1 A blocks bot nodes _ hU).1 (potOrder_topo_E1 A blocks bot nodes _ hU).2 pick hpick x hx

/-- the empty string, as the code answers it: `Earley([])` is the total weight of the nullary rules of the start
symbol of the preprocessed grammar, and this is the TRUE null weight of the start symbol of `G` -/
theorem earley_call_nil_is_WL (gen : Nat → σ) (fresh : σ) (rename : σ → σ) (A : σ → σ → ℝ≥0∞)
    (blocks : List (Block σ ℝ≥0∞)) (bot : σ → σ) (nodes : List σ) (G : CFG σ ℝ≥0∞) (ctr : Nat)
    (Hn : CnfNames gen fresh rename G ctr)
    (hU : UcShape A blocks bot nodes (nullaryRemoveL gen fresh rename G ctr))
    (hW : TrueClosures A blocks nodes (nullaryRemoveL gen fresh rename G ctr))
    (pick : Nat → List (Nat × σ) → Option ((Nat × σ) × List (Nat × σ))) :
    earleyCallQ (earleyGrammarL gen fresh rename A blocks bot G ctr) pick [] =
        earleyNullary (earleyGrammarL gen fresh rename A blocks bot G ctr) ∧
      earleyNullary (earleyGrammarL gen fresh rename A blocks bot G ctr) = WL G G.S [] := by
  have h0 : ∀ pick', earleyCallQ (earleyGrammarL gen fresh rename A blocks bot G ctr) pick' [] =
      earleyNullary (earleyGrammarL gen fresh rename A blocks bot G ctr) := by
    intro pick'; unfold earleyCallQ; rw [if_pos List.length_nil]
  refine ⟨h0 pick, ?_⟩
  have hp := earleyPick_ok_E1 (earleyGrammarL gen fresh rename A blocks bot G ctr)
    (potOrder bot (blocks.map (·.nodes)))
  have := earley_call_is_WL_pot gen fresh rename A blocks bot nodes G ctr Hn hU hW _ hp []
    (fun a ha => absurd ha List.not_mem_nil)
  rw [h0] at this
  exact this

/-! ## 4. the three parsers agree -/

/-- **C02: `cfg(x)`, `IncrementalCKY(cfg.cnf)(x)` and `Earley(cfg)(x)` return the same number** — the sum over
ALL derivation trees of `x` in `G` — for every grammar over `ℝ≥0∞` and every string of terminals.  (The
generated names may differ between the `cnf()` run and the Earley preprocessing: two sets of naming
functions.) -/
theorem parsers_agree (gen : Nat → σ) (fresh : σ) (rename : σ → σ) (G : CFG σ ℝ≥0∞) (ctr : Nat)
    (H : CnfNames gen fresh rename G ctr)
    (gen' : Nat → σ) (fresh' : σ) (rename' : σ → σ) (ctr' : Nat)
    (A : σ → σ → ℝ≥0∞) (blocks : List (Block σ ℝ≥0∞)) (bot : σ → σ) (nodes : List σ)
    (Hn : CnfNames gen' fresh' rename' G ctr')
    (hU : UcShape A blocks bot nodes (nullaryRemoveL gen' fresh' rename' G ctr'))
    (hW : TrueClosures A blocks nodes (nullaryRemoveL gen' fresh' rename' G ctr'))
    (order : σ → Nat) (M : Nat)
    (hT : TopoOrder (earleyGrammarL gen' fresh' rename' A blocks bot G ctr') order)
    (hM : OrderBound (earleyGrammarL gen' fresh' rename' A blocks bot G ctr') order M)
    (pick : Nat → List (Nat × σ) → Option ((Nat × σ) × List (Nat × σ)))
    (hpick : ∀ k, PickOK (itemPrio (earleyGrammarL gen' fresh' rename' A blocks bot G ctr') order k)
      (pick k))
    (x : List σ) (hx : ∀ a ∈ x, a ∈ G.V) :
    cfgParse (cnfL gen fresh rename G ctr) x = WL G G.S x ∧
    incCkyCall (cnfL gen fresh rename G ctr) x = cfgParse (cnfL gen fresh rename G ctr) x ∧
    earleyCallQ (earleyGrammarL gen' fresh' rename' A blocks bot G ctr') pick x
      = cfgParse (cnfL gen fresh rename G ctr) x := by
  have h1 := cfg_call_is_WL gen fresh rename G ctr H x
  have h2 := inc_cky_call_is_WL gen fresh rename G ctr H x
  have h3 := earley_call_is_WL gen' fresh' rename' A blocks bot nodes G ctr' Hn hU hW order M hT hM pick
    hpick x hx
  exact ⟨h1, h2.trans h1.symm, h3.trans h1.symm⟩

end

/-! ### 3c. `renumber()` and the order `Earley.__init__` computes -/
section
open UCycleAux EarleyAux
variable {σ K : Type} [DecidableEq σ] [DecidableEq K] [CommSemiring K]

/-- the symbol map of `rename(f)`: terminals stay, nonterminals are renamed -/
def ntMap (V : List σ) (f : σ → σ) (y : σ) : σ := if y ∈ V then y else f y

theorem ntMap_injective_E1 (V : List σ) (f : σ → σ) (hfV : ∀ y, y ∉ V → f y ∉ V)
    (hfinj : ∀ y z, y ∉ V → z ∉ V → f y = f z → y = z) : Function.Injective (ntMap V f) := by
  intro y z h
  unfold ntMap at h
  split at h <;> split at h
  · exact h
  · next hy hz => exact absurd (h ▸ hy) (hfV z hz)
  · next hy hz => exact absurd (h ▸ hz) (hfV y hy)
  · next hy hz => exact hfinj y z hy hz h

theorem map_ntMap_of_terminals_E1 (V : List σ) (f : σ → σ) (x : List σ) (hx : ∀ a ∈ x, a ∈ V) :
    x.map (ntMap V f) = x := by
  induction x with
  | nil => rfl
  | cons a x ih =>
    rw [List.map_cons, ih (fun b hb => hx b (by simp [hb]))]
    unfold ntMap
    rw [if_pos (hx a (by simp))]

/-- on a grammar whose start symbol and heads are nonterminals and whose rules have non-zero weights (any
trimmed grammar) `rename(f)` is the plain renaming of all symbols by `ntMap` -/
theorem renameNT_eq_renameCFG_E1 (f : σ → σ) (G : CFG σ K) (hS : G.S ∉ G.V)
    (hheads : ∀ r ∈ G.rules, r.head ∉ G.V) (hnz : ∀ r ∈ G.rules, r.w ≠ 0) :
    renameNT f G = renameCFG (ntMap G.V f) G := by
  have hV : G.V.map (ntMap G.V f) = G.V := map_ntMap_of_terminals_E1 G.V f G.V (fun _ h => h)
  have hS' : f G.S = ntMap G.V f G.S := by unfold ntMap; rw [if_neg hS]
  have hR : mkRules (G.rules.map fun r =>
        (⟨r.w, f r.head, r.body.map fun y => if y ∈ G.V then y else f y⟩ : Rule σ K))
      = G.rules.map fun r => ⟨r.w, ntMap G.V f r.head, r.body.map (ntMap G.V f)⟩ := by
    unfold mkRules
    rw [List.filter_eq_self.mpr]
    · apply List.map_congr_left
      intro r hr
      have : f r.head = ntMap G.V f r.head := by unfold ntMap; rw [if_neg (hheads r hr)]
      rw [this]; rfl
    · intro q hq
      obtain ⟨r, hr, rfl⟩ := List.mem_map.mp hq
      simpa using hnz r hr
  unfold renameNT renameCFG
  rw [hV, ← hS', hR]

/-- the shape the Earley parser relies on is invariant under injective renaming; the order is transported
along any left inverse of the renaming -/
theorem acyc_renameCFG_E1 (g ginv : σ → σ) (hinv : Function.LeftInverse ginv g) (G : CFG σ K)
    (order : σ → Nat) (hA : Acyc G order) : Acyc (renameCFG g G) (order ∘ ginv) := by
  have hg : Function.Injective g := hinv.injective
  refine ⟨?_, ?_, ?_⟩
  · intro r' hr' hb
    obtain ⟨r, hr, rfl⟩ := List.mem_map.mp hr'
    have hb' : r.body = [] := by simpa using hb
    obtain ⟨h1, h2⟩ := hA.nullOK r hr hb'
    refine ⟨congrArg g h1, ?_⟩
    intro q' hq' hm
    obtain ⟨q, hq, rfl⟩ := List.mem_map.mp hq'
    obtain ⟨y, hy, he⟩ := List.mem_map.mp hm
    exact h2 q hq (hg he ▸ hy)
  · intro r' hr' hm
    obtain ⟨r, hr, rfl⟩ := List.mem_map.mp hr'
    exact hA.headsNT r hr ((List.mem_map_of_injective hg).mp hm)
  · intro r' hr' hlen Y' hY' hYV
    obtain ⟨r, hr, rfl⟩ := List.mem_map.mp hr'
    obtain ⟨Y, hY, rfl⟩ := List.mem_map.mp hY'
    have := hA.topo r hr (by simpa using hlen) Y hY
      (fun hV => hYV (List.mem_map.mpr ⟨Y, hV, rfl⟩))
    show order (ginv (g Y)) < order (ginv (g r.head))
    rw [hinv, hinv]
    exact this

/-- **the order the code uses.**  `Earley.order = cfg._unary_graph_transpose().buckets`: the index of the block
of a symbol in an SCC decomposition (sources first) of the TRANSPOSED unary graph (arcs `body → head`).  If the
unary rules have no cycle (witnessed by any topological numbering `order0`) this is a topological numbering,
bounded by `ORDER_MAX = 1 + max(order.values()) ≤ |blocks| + 1`. -/
theorem topoOrder_of_buckets_E1 (G : CFG σ K) (order0 : σ → Nat) (hT0 : TopoOrder G order0)
    (nodes : List σ) (bl : List (List σ))
    (hd : IsSccDecomp nodes ((unaryEdges G).map Prod.swap) bl) :
    TopoOrder G (blockIdx bl) ∧ OrderBound G (blockIdx bl) (bl.length + 1) := by
  have hdec : ∀ a b, Relation.ReflTransGen (arcRel ((unaryEdges G).map Prod.swap)) a b →
      order0 a ≤ order0 b := by
    intro a b h
    induction h with
    | refl => exact Nat.le_refl _
    | tail _ hbc ih =>
      obtain ⟨e, he, hsw⟩ := List.mem_map.mp hbc
      have he' : (e.1, e.2) ∈ unaryEdges G := he
      obtain ⟨r, hr, h1, h2, h3⟩ := mem_unaryEdges.mp he'
      have := hT0 r hr (by rw [h2]; rfl) e.2 (by rw [h2]; simp) h3
      have e1 : e.2 = _ := congrArg Prod.fst hsw
      have e2 : e.1 = _ := congrArg Prod.snd hsw
      rw [h1, e1, e2] at this
      exact Nat.le_trans ih (Nat.le_of_lt this)
  constructor
  · intro r hr hlen Y hY hYV
    have hb : r.body = [Y] := by
      match hbb : r.body with
      | [] => rw [hbb] at hlen; simp at hlen
      | [y] => rw [hbb] at hY; simp at hY; rw [hY]
      | a :: b :: t => rw [hbb] at hlen; simp at hlen
    have harc : arcRel ((unaryEdges G).map Prod.swap) Y r.head :=
      List.mem_map.mpr ⟨(r.head, Y), mem_unaryEdges.mpr ⟨r, hr, rfl, hb, hYV⟩, rfl⟩
    have hle := hd.idx_mono harc
    rcases Nat.lt_or_ge (blockIdx bl Y) (blockIdx bl r.head) with h | hge
    · exact h
    · exfalso
      have heq : blockIdx bl Y = blockIdx bl r.head := Nat.le_antisymm hle hge
      have hn := hd.closed _ harc
      obtain ⟨N, hN, hYN⟩ := blockIdx_spec bl Y ((hd.cover _).mp hn.1)
      obtain ⟨M, hM, hhM⟩ := blockIdx_spec bl r.head ((hd.cover _).mp hn.2)
      rw [heq, hM] at hN
      have : M = N := Option.some.inj hN
      subst this
      have hback := ((hd.scc Y hn.1 r.head hn.2).mp ⟨M, List.mem_of_getElem? hM, hYN, hhM⟩).2
      have h1 := hdec _ _ hback
      have h2 := hT0 r hr hlen Y hY hYV
      omega
  · intro r _
    have : blockIdx bl r.head ≤ bl.length := List.findIdx_le_length
    omega

end

section
open UCycleAux EarleyAux
variable {σ : Type} [DecidableEq σ] [DecidableEq ℝ≥0∞]

/-- everything the later stages need to know about the grammar `Earley.__init__` builds before `renumber` -/
theorem earleyGrammarL_spec (gen : Nat → σ) (fresh : σ) (rename : σ → σ) (A : σ → σ → ℝ≥0∞)
    (blocks : List (Block σ ℝ≥0∞)) (bot : σ → σ) (nodes : List σ) (G : CFG σ ℝ≥0∞) (ctr : Nat)
    (Hn : CnfNames gen fresh rename G ctr)
    (hU : UcShape A blocks bot nodes (nullaryRemoveL gen fresh rename G ctr))
    (hW : TrueClosures A blocks nodes (nullaryRemoveL gen fresh rename G ctr)) :
    Acyc (earleyGrammarL gen fresh rename A blocks bot G ctr) (potOrder bot (blocks.map (·.nodes))) ∧
    (earleyGrammarL gen fresh rename A blocks bot G ctr).V = G.V ∧
    (∀ r ∈ (earleyGrammarL gen fresh rename A blocks bot G ctr).rules, r.w ≠ 0) ∧
    ∀ x, WL (earleyGrammarL gen fresh rename A blocks bot G ctr)
      (earleyGrammarL gen fresh rename A blocks bot G ctr).S x = WL G G.S x := by
  obtain ⟨hN, hWL⟩ := nullaryRemoveL_correct gen fresh rename G ctr Hn
  refine ⟨?_, nullaryRemoveL_V gen fresh rename G ctr, ?_, ?_⟩
  · exact ucycle_acyc_E1 A blocks bot nodes _ hN hU _ (potOrder_topo_E1 A blocks bot nodes _ hU).1
  · intro r hr
    exact (mem_trimTo.mp hr).2.2.1
  · intro x
    exact (earleyCore_WL A blocks bot nodes _ hU hW x).trans (hWL x)

/-- **C02, `Earley(cfg)(x)` with the order the code computes** (no `renumber`): `order = buckets` of any SCC
decomposition `bl'` (sources first) of the transposed unary graph of the preprocessed grammar,
`ORDER_MAX = |bl'| + 1`.  No hypothesis about the order is left. -/
theorem earley_call_is_WL_buckets (gen : Nat → σ) (fresh : σ) (rename : σ → σ) (A : σ → σ → ℝ≥0∞)
    (blocks : List (Block σ ℝ≥0∞)) (bot : σ → σ) (nodes : List σ) (G : CFG σ ℝ≥0∞) (ctr : Nat)
    (Hn : CnfNames gen fresh rename G ctr)
    (hU : UcShape A blocks bot nodes (nullaryRemoveL gen fresh rename G ctr))
    (hW : TrueClosures A blocks nodes (nullaryRemoveL gen fresh rename G ctr))
    (nodes' : List σ) (bl' : List (List σ))
    (hd' : IsSccDecomp nodes'
      ((unaryEdges (earleyGrammarL gen fresh rename A blocks bot G ctr)).map Prod.swap) bl')
    (pick : Nat → List (Nat × σ) → Option ((Nat × σ) × List (Nat × σ)))
    (hpick : ∀ k, PickOK (itemPrio (earleyGrammarL gen fresh rename A blocks bot G ctr)
      (blockIdx bl') k) (pick k))
    (x : List σ) (hx : ∀ a ∈ x, a ∈ G.V) :
    earleyCallQ (earleyGrammarL gen fresh rename A blocks bot G ctr) pick x = WL G G.S x := by
  have hb := topoOrder_of_buckets_E1 (earleyGrammarL gen fresh rename A blocks bot G ctr) _
    (potOrder_topo_E1 A blocks bot nodes _ hU).1 nodes' bl' hd'
  exact earley_call_is_WL gen fresh rename A blocks bot nodes G ctr Hn hU hW _ _ hb.1 hb.2 pick hpick x hx

/-- the grammar `Earley.__init__` builds, `renumber()` (`rename(f)` for the injective `f` of the
`Integerizer`) included -/
noncomputable def earleyGrammarRenL (gen : Nat → σ) (fresh : σ) (rename : σ → σ) (A : σ → σ → ℝ≥0∞)
    (blocks : List (Block σ ℝ≥0∞)) (bot : σ → σ) (f : σ → σ) (G : CFG σ ℝ≥0∞) (ctr : Nat) :
    CFG σ ℝ≥0∞ :=
  renameNT f (earleyGrammarL gen fresh rename A blocks bot G ctr)

/-- the renumbered grammar: shape, a topological numbering, terminal alphabet, true weighted language -/
theorem earleyGrammarRenL_spec (gen : Nat → σ) (fresh : σ) (rename : σ → σ) (A : σ → σ → ℝ≥0∞)
    (blocks : List (Block σ ℝ≥0∞)) (bot : σ → σ) (nodes : List σ) (f : σ → σ) (G : CFG σ ℝ≥0∞)
    (ctr : Nat) (Hn : CnfNames gen fresh rename G ctr)
    (hU : UcShape A blocks bot nodes (nullaryRemoveL gen fresh rename G ctr))
    (hW : TrueClosures A blocks nodes (nullaryRemoveL gen fresh rename G ctr))
    (hfV : ∀ y, y ∉ G.V → f y ∉ G.V) (hfinj : ∀ y z, y ∉ G.V → z ∉ G.V → f y = f z → y = z) :
    (∃ order0, Acyc (earleyGrammarRenL gen fresh rename A blocks bot f G ctr) order0) ∧
    (earleyGrammarRenL gen fresh rename A blocks bot f G ctr).V = G.V ∧
    ∀ x, (∀ a ∈ x, a ∈ G.V) →
      WL (earleyGrammarRenL gen fresh rename A blocks bot f G ctr)
        (earleyGrammarRenL gen fresh rename A blocks bot f G ctr).S x = WL G G.S x := by
  obtain ⟨hA, hV, hnz, hWL⟩ := earleyGrammarL_spec gen fresh rename A blocks bot nodes G ctr Hn hU hW
  have hg : Function.Injective (ntMap (earleyGrammarL gen fresh rename A blocks bot G ctr).V f) :=
    ntMap_injective_E1 _ f (hV ▸ hfV) (hV ▸ hfinj)
  have hSV : (earleyGrammarL gen fresh rename A blocks bot G ctr).S ∉
      (earleyGrammarL gen fresh rename A blocks bot G ctr).V := by
    rw [hV]
    exact (nullaryRemoveL_V gen fresh rename G ctr) ▸
      (nullaryRemoveL_correct gen fresh rename G ctr Hn).1.startNT
  have heq : earleyGrammarRenL gen fresh rename A blocks bot f G ctr =
      renameCFG (ntMap (earleyGrammarL gen fresh rename A blocks bot G ctr).V f)
        (earleyGrammarL gen fresh rename A blocks bot G ctr) :=
    renameNT_eq_renameCFG_E1 f _ hSV hA.headsNT hnz
  have : Nonempty σ := ⟨G.S⟩
  refine ⟨⟨potOrder bot (blocks.map (·.nodes)) ∘
      Function.invFun (ntMap (earleyGrammarL gen fresh rename A blocks bot G ctr).V f), ?_⟩, hV, ?_⟩
  · rw [heq]
    exact acyc_renameCFG_E1 _ _ (Function.leftInverse_invFun hg) _ _ hA
  · intro x hx
    rw [heq]
    have hxm : x.map (ntMap (earleyGrammarL gen fresh rename A blocks bot G ctr).V f) = x :=
      map_ntMap_of_terminals_E1 _ f x (fun a ha => hV ▸ hx a ha)
    have := rename_WL (ntMap (earleyGrammarL gen fresh rename A blocks bot G ctr).V f) hg
      (earleyGrammarL gen fresh rename A blocks bot G ctr)
      (earleyGrammarL gen fresh rename A blocks bot G ctr).S x
    rw [hxm] at this
    exact this.trans (hWL x)

/-- **C02, `Earley(cfg)(x)` as the code runs it**: preprocessing `nullaryremove(binarize=True)
.unarycycleremove().renumber()` (TRUE null weights, TRUE block closures, `f` the injective renaming of
`renumber`), `order = _unary_graph_transpose().buckets` (`bl'` any SCC decomposition, sources first, of the
transposed unary graph of the final grammar), agenda = priority queue with any pop among the items of maximal
priority.  For every `G` over `ℝ≥0∞` and every string `x` of terminals, `ε` included, the value is the sum of
the weights of ALL derivation trees of `x` in `G`. -/
theorem earley_call_as_run_is_WL (gen : Nat → σ) (fresh : σ) (rename : σ → σ) (A : σ → σ → ℝ≥0∞)
    (blocks : List (Block σ ℝ≥0∞)) (bot : σ → σ) (nodes : List σ) (f : σ → σ) (G : CFG σ ℝ≥0∞)
    (ctr : Nat) (Hn : CnfNames gen fresh rename G ctr)
    (hU : UcShape A blocks bot nodes (nullaryRemoveL gen fresh rename G ctr))
    (hW : TrueClosures A blocks nodes (nullaryRemoveL gen fresh rename G ctr))
    (hfV : ∀ y, y ∉ G.V → f y ∉ G.V) (hfinj : ∀ y z, y ∉ G.V → z ∉ G.V → f y = f z → y = z)
    (nodes' : List σ) (bl' : List (List σ))
    (hd' : IsSccDecomp nodes'
      ((unaryEdges (earleyGrammarRenL gen fresh rename A blocks bot f G ctr)).map Prod.swap) bl')
    (pick : Nat → List (Nat × σ) → Option ((Nat × σ) × List (Nat × σ)))
    (hpick : ∀ k, PickOK (itemPrio (earleyGrammarRenL gen fresh rename A blocks bot f G ctr)
      (blockIdx bl') k) (pick k))
    (x : List σ) (hx : ∀ a ∈ x, a ∈ G.V) :
    earleyCallQ (earleyGrammarRenL gen fresh rename A blocks bot f G ctr) pick x = WL G G.S x := by
  obtain ⟨⟨order0, hA0⟩, hV, hWL⟩ :=
    earleyGrammarRenL_spec gen fresh rename A blocks bot nodes f G ctr Hn hU hW hfV hfinj
  have hb := topoOrder_of_buckets_E1 (earleyGrammarRenL gen fresh rename A blocks bot f G ctr) order0
    hA0.topo nodes' bl' hd'
  have hA : Acyc (earleyGrammarRenL gen fresh rename A blocks bot f G ctr) (blockIdx bl') :=
    ⟨hA0.nullOK, hA0.headsNT, hb.1⟩
  rw [earleyQ_correct _ (blockIdx bl') (bl'.length + 1) hA hb.2 pick hpick x
    (fun a ha => hV.symm ▸ hx a ha) (x.length * (bl'.length + 1) + 1) (Nat.le_refl _)]
  rw [← WL_eq_WN_of_acyc_E1 _ (blockIdx bl') (bl'.length + 1) hA hb.2 _ x _ (Nat.le_refl _)]
  exact hWL x hx

/-- **C02: the three parsers, as the code runs them, return the same number** -/
theorem parsers_agree_as_run (gen : Nat → σ) (fresh : σ) (rename : σ → σ) (G : CFG σ ℝ≥0∞) (ctr : Nat)
    (H : CnfNames gen fresh rename G ctr)
    (gen' : Nat → σ) (fresh' : σ) (rename' : σ → σ) (ctr' : Nat)
    (A : σ → σ → ℝ≥0∞) (blocks : List (Block σ ℝ≥0∞)) (bot : σ → σ) (nodes : List σ) (f : σ → σ)
    (Hn : CnfNames gen' fresh' rename' G ctr')
    (hU : UcShape A blocks bot nodes (nullaryRemoveL gen' fresh' rename' G ctr'))
    (hW : TrueClosures A blocks nodes (nullaryRemoveL gen' fresh' rename' G ctr'))
    (hfV : ∀ y, y ∉ G.V → f y ∉ G.V) (hfinj : ∀ y z, y ∉ G.V → z ∉ G.V → f y = f z → y = z)
    (nodes' : List σ) (bl' : List (List σ))
    (hd' : IsSccDecomp nodes'
      ((unaryEdges (earleyGrammarRenL gen' fresh' rename' A blocks bot f G ctr')).map Prod.swap) bl')
    (pick : Nat → List (Nat × σ) → Option ((Nat × σ) × List (Nat × σ)))
    (hpick : ∀ k, PickOK (itemPrio (earleyGrammarRenL gen' fresh' rename' A blocks bot f G ctr')
      (blockIdx bl') k) (pick k))
    (x : List σ) (hx : ∀ a ∈ x, a ∈ G.V) :
    cfgParse (cnfL gen fresh rename G ctr) x = WL G G.S x ∧
    incCkyCall (cnfL gen fresh rename G ctr) x = WL G G.S x ∧
    earleyCallQ (earleyGrammarRenL gen' fresh' rename' A blocks bot f G ctr') pick x = WL G G.S x :=
  ⟨cfg_call_is_WL gen fresh rename G ctr H x, inc_cky_call_is_WL gen fresh rename G ctr H x,
    earley_call_as_run_is_WL gen' fresh' rename' A blocks bot nodes f G ctr' Hn hU hW hfV hfinj nodes' bl'
      hd' pick hpick x hx⟩

end

/-! ### non-vacuity of 3.–4.: `limUcG` = `0 → 0 (1/2) | 10 (1/2)` (a unary self-loop at the start symbol: every
string of the language has infinitely many derivation trees).  The preprocessing is computed explicitly:
`separate_start` introduces `9 → 0`, nothing is nullable, `unarycycleremove` sees the blocks `{9}` (acyclic) and
`{0}` (closure `Σ 2⁻ᵏ = 2`, never attained by a partial sum). -/
section
variable {σ K : Type} [DecidableEq σ] [CommSemiring K]
theorem WN_nil_of_no_nullary_E1 (G : CFG σ K) (h : ∀ r ∈ G.rules, r.body ≠ []) :
    ∀ n X, WN G n X [] = 0 := by
  intro n
  induction n with
  | zero => intro X; rfl
  | succ n ih =>
    intro X
    simp only [WN, lsum_eq_sum]
    apply sum_map_zero
    intro r hr
    obtain ⟨hr, _⟩ := List.mem_filter.mp hr
    match hb : r.body with
    | [] => exact absurd hb (h r hr)
    | t :: tt =>
      rw [EarleyAux.Wbody_cons_nil]
      have : Wsym G.V (WN G n) t [] = 0 := by
        unfold Wsym; split
        · simp
        · exact ih t
      rw [this, zero_mul, mul_zero]
end


section ExamplesEarley
open UCycleAux EarleyAux

noncomputable def e2eGen (i : ℕ) : ℕ := 2 * i + 20
noncomputable def e2eRen (y : ℕ) : ℕ := 2 * y + 101

theorem e2e_bin : (binarize e2eGen limUcG 0).1 = ⟨0, [10], [⟨2⁻¹, 0, [10]⟩, ⟨2⁻¹, 0, [0]⟩]⟩ := by
  simp [binarize, binarizeLoop, limUcG, addRule]

theorem e2e_prep : nullPrep e2eGen 9 limUcG 0 = ⟨9, [10], [⟨1, 9, [0]⟩, ⟨2⁻¹, 0, [10]⟩, ⟨2⁻¹, 0, [0]⟩]⟩ := by
  unfold nullPrep
  rw [e2e_bin]
  simp [separateStart, bodySyms, mkRules]

noncomputable def e2eP : CFG ℕ ℝ≥0∞ := ⟨9, [10], [⟨1, 9, [0]⟩, ⟨2⁻¹, 0, [10]⟩, ⟨2⁻¹, 0, [0]⟩]⟩
noncomputable def e2eH : CFG ℕ ℝ≥0∞ := ⟨9, [10], [⟨1, 9, [0]⟩, ⟨2⁻¹, 0, [10]⟩, ⟨2⁻¹, 0, [0]⟩]⟩

theorem e2e_null : nullWL e2eP = fun _ => 0 := by
  funext y
  unfold nullWL
  split
  · rfl
  · refine WL_zero_of_levels _ _ _ (fun n => WN_nil_of_no_nullary_E1 _ ?_ n y)
    intro r hr
    simp only [e2eP, List.mem_cons, List.not_mem_nil, or_false] at hr
    rcases hr with rfl | rfl | rfl <;> simp

theorem e2e_push : pushNull (fun _ => (0 : ℝ≥0∞)) e2eRen e2eP = e2eH := by
  simp [pushNull, e2eP, e2eH, nullChoices, mkRules]

theorem e2e_T : reachable e2eH (generating e2eH) = [9, 9, 0, 9, 0, 10, 0, 9, 0, 10, 0, 9, 0, 10, 0] := by decide

theorem e2e_trim : trim e2eH = e2eH := by
  unfold trim
  rw [e2e_T]
  simp [trimTo, e2eH]

theorem e2e_nullaryRemove : nullaryRemoveL e2eGen 9 e2eRen limUcG 0 = e2eH := by
  unfold nullaryRemoveL
  rw [e2e_prep]
  show trim (pushNull (nullWL e2eP) e2eRen e2eP) = e2eH
  rw [e2e_null, e2e_push, e2e_trim]

noncomputable def e2eB : List (Block ℕ ℝ≥0∞) := [⟨[9], [((9, 9), 1)]⟩, ⟨[0], [((0, 0), 2)]⟩]
noncomputable def e2eA (X Y : ℕ) : ℝ≥0∞ := if X = 0 ∧ Y = 0 then 2⁻¹ else if X = 9 ∧ Y = 0 then 1 else 0

theorem e2e_bl : e2eB.map (·.nodes) = [[9], [0]] := rfl
theorem e2e_edges : unaryEdges e2eH = [(9, 0), (0, 0)] := by decide

theorem e2e_acyclic : ucAcyclic e2eA e2eB = [9] := by
  simp [ucAcyclic, e2eB, e2eA]

theorem e2e_shape : UcShape e2eA e2eB (· + 100) [9, 0] e2eH where
  scc := by
    rw [e2e_bl, e2e_edges]
    exact (sccCheck_iff (⟨[9, 0], []⟩ : WGraph ℕ ℕ) [(9, 0), (0, 0)] [[9], [0]]).mp (by decide)
  clo := by
    intro b hb e he
    simp only [e2eB, List.mem_cons, List.not_mem_nil, or_false] at hb
    rcases hb with rfl | rfl <;>
      · simp only [List.mem_singleton] at he
        subst he
        simp
  inj := by intro x _ y _ h; simpa using h
  fresh := by decide
  start := by decide
  heads := by decide
  notV := by decide
  body := by decide
  noSelf := by
    intro X hX
    rw [e2e_edges] at hX
    have h0 : X ≠ 0 := by rintro rfl; simp at hX
    simp [e2eA, h0]

theorem e2e_UNp (g : ℕ → ℝ≥0∞) (Y : ℕ) :
    UNp (ucSkipRule [[9], [0]]) e2eH.rules g Y = if Y = 0 then 2⁻¹ * g 0 else 0 := by
  have h1 : ucSkipRule (K := ℝ≥0∞) [[9], [0]] ⟨1, 9, [0]⟩ = false := by decide
  have h2 : ucSkipRule (K := ℝ≥0∞) [[9], [0]] ⟨2⁻¹, 0, [10]⟩ = false := by decide
  have h3 : ucSkipRule (K := ℝ≥0∞) [[9], [0]] ⟨2⁻¹, 0, [0]⟩ = true := by decide
  by_cases hY : Y = 0
  · subst hY; simp [UNp, e2eH, h1, h2, h3, uTarget]
  · have hY' : ¬ (0 = Y) := fun e => hY e.symm
    simp [UNp, e2eH, h1, h2, h3, hY, hY']

theorem e2e_UW_succ (k X Z : ℕ) :
    ucUW [[9], [0]] e2eH (k + 1) X Z
      = (if X = Z then 1 else 0) + (if X = 0 then 2⁻¹ * ucUW [[9], [0]] e2eH k 0 Z else 0) := by
  show (if X = Z then 1 else 0) + UNp _ _ _ _ = _
  rw [e2e_UNp]
  rfl

theorem e2e_UW_9 (k Z : ℕ) : ucUW [[9], [0]] e2eH k 9 Z = if 9 = Z then 1 else 0 := by
  cases k with
  | zero => rfl
  | succ k => rw [e2e_UW_succ]; simp

theorem e2e_UW_09 (k : ℕ) : ucUW [[9], [0]] e2eH k 0 9 = 0 := by
  induction k with
  | zero => show (if (0 : ℕ) = 9 then (1 : ℝ≥0∞) else 0) = 0; simp
  | succ k ih => rw [e2e_UW_succ, ih]; simp

theorem e2e_UW_00 (k : ℕ) : ucUW [[9], [0]] e2eH k 0 0 = ucUW [[0]] limUcG k 0 0 := by
  induction k with
  | zero => rfl
  | succ k ih => rw [e2e_UW_succ, limUc_succ, ih]; simp

theorem e2e_clo : TrueClosures e2eA e2eB [9, 0] e2eH := by
  intro X hX Z hZ
  rw [e2e_bl]
  unfold ucW ucUWL
  rw [e2e_acyclic]
  simp only [List.mem_cons, List.not_mem_nil, or_false] at hX hZ
  rcases hX with rfl | rfl
  · rw [if_pos (by simp)]
    simp only [e2e_UW_9, iSup_const]
  · rw [if_neg (by simp)]
    rcases hZ with rfl | rfl
    · simp only [e2e_UW_09, iSup_const]
      simp [ucClo, ucAllClo, e2eB, wlook]
    · simp only [e2e_UW_00]
      have := limUc_sup
      unfold ucUWL at this
      rw [this]
      simp [ucClo, ucAllClo, e2eB, wlook]

theorem e2e_names : CnfNames e2eGen 9 e2eRen limUcG 0 where
  startNT := by decide
  headsNT := by decide
  genNT := by intro i; simp [limUcG, e2eGen]
  genInj := by intro i j _ _ h; simpa [e2eGen] using h
  genHead := by
    intro r hr k _
    have : r.head = 0 := by
      simp only [limUcG, List.mem_cons, List.not_mem_nil, or_false] at hr
      rcases hr with rfl | rfl <;> rfl
    rw [this]; unfold e2eGen; omega
  genBody := by
    intro r hr s hs k _
    have : ∀ s ∈ bodySyms limUcG, s < 20 := by decide
    have := this s (mem_bodySyms.mpr ⟨r, hr, hs⟩)
    unfold e2eGen; omega
  genStart := by intro k _; show (0 : ℕ) ≠ _; unfold e2eGen; omega
  genFresh := by intro i; unfold e2eGen; omega
  freshNT := by decide
  freshStart := by decide
  freshHead := by decide
  freshBody := by decide
  renNT := by intro y; simp [limUcG, e2eRen]
  renInj := by intro y z h; simpa [e2eRen] using h
  renStart := by intro y; show e2eRen y ≠ (0 : ℕ); unfold e2eRen; omega
  renFresh := by intro y; unfold e2eRen; omega
  renGen := by intro y i; unfold e2eRen e2eGen; omega
  renHead := by
    intro y r hr
    have : r.head = 0 := by
      simp only [limUcG, List.mem_cons, List.not_mem_nil, or_false] at hr
      rcases hr with rfl | rfl <;> rfl
    rw [this]; unfold e2eRen; omega
  renBody := by
    intro y h
    have : ∀ s ∈ bodySyms limUcG, s < 20 := by decide
    have := this _ h
    unfold e2eRen at this; omega

/-- non-vacuity of `earley_call_is_WL_pot` -/
example (x : List ℕ) (hx : ∀ a ∈ x, a ∈ limUcG.V) :
    earleyCallQ (earleyGrammarL e2eGen 9 e2eRen e2eA e2eB (· + 100) limUcG 0)
      (earleyPick (earleyGrammarL e2eGen 9 e2eRen e2eA e2eB (· + 100) limUcG 0)
        (potOrder (· + 100) (e2eB.map (·.nodes)))) x = WL limUcG 0 x := by
  have hp := earleyPick_ok_E1 (earleyGrammarL e2eGen 9 e2eRen e2eA e2eB (· + 100) limUcG 0)
      (potOrder (· + 100) (e2eB.map (·.nodes)))
  exact earley_call_is_WL_pot e2eGen 9 e2eRen e2eA e2eB (· + 100) [9, 0] limUcG 0 e2e_names
    (by rw [e2e_nullaryRemove]; exact e2e_shape) (by rw [e2e_nullaryRemove]; exact e2e_clo) _ hp x hx


noncomputable def e2eU : CFG ℕ ℝ≥0∞ := ⟨9, [10], [⟨2, 0, [100]⟩, ⟨1, 9, [0]⟩, ⟨2⁻¹, 100, [10]⟩]⟩

theorem e2e_ucr : unaryCycleRemove e2eA e2eB (· + 100) e2eH = e2eU := by
  have h1 : ucSkipRule (K := ℝ≥0∞) [[9], [0]] ⟨1, 9, [0]⟩ = false := by decide
  have h2 : ucSkipRule (K := ℝ≥0∞) [[9], [0]] ⟨2⁻¹, 0, [10]⟩ = false := by decide
  have h3 : ucSkipRule (K := ℝ≥0∞) [[9], [0]] ⟨2⁻¹, 0, [0]⟩ = true := by decide
  unfold unaryCycleRemove
  rw [e2e_acyclic, e2e_bl]
  simp [ucBlockRules, ucKeptRules, ucSkipBlock, ucBot, mkRules, e2eB, e2eH, e2eU, h1, h2, h3]


theorem e2e_TU : reachable e2eU (generating e2eU) = [9, 9, 0, 9, 100, 0, 9, 100, 0, 10, 9, 100, 0, 10] := by
  decide

theorem e2e_core : earleyCore e2eA e2eB (· + 100) e2eH = e2eU := by
  unfold earleyCore
  rw [e2e_ucr]
  unfold trim
  rw [e2e_TU]
  simp [trimTo, e2eU]

noncomputable def e2eR : CFG ℕ ℝ≥0∞ :=
  ⟨1009, [10], [⟨2, 1000, [1100]⟩, ⟨1, 1009, [1000]⟩, ⟨2⁻¹, 1100, [10]⟩]⟩

theorem e2e_ren : earleyGrammarRenL e2eGen 9 e2eRen e2eA e2eB (· + 100) (· + 1000) limUcG 0 = e2eR := by
  unfold earleyGrammarRenL earleyGrammarL
  rw [e2e_nullaryRemove, e2e_core]
  simp [renameNT, e2eU, e2eR, mkRules]

theorem e2e_edgesR : (unaryEdges e2eR).map Prod.swap = [(1100, 1000), (1000, 1009)] := by decide

/-- non-vacuity of `earley_call_as_run_is_WL` -/
theorem e2e_as_run (x : List ℕ) (hx : ∀ a ∈ x, a ∈ limUcG.V) :
    earleyCallQ (earleyGrammarRenL e2eGen 9 e2eRen e2eA e2eB (· + 100) (· + 1000) limUcG 0)
      (earleyPick (earleyGrammarRenL e2eGen 9 e2eRen e2eA e2eB (· + 100) (· + 1000) limUcG 0)
        (blockIdx [[1100], [1000], [1009]])) x = WL limUcG 0 x := by
  have hp := earleyPick_ok_E1 (earleyGrammarRenL e2eGen 9 e2eRen e2eA e2eB (· + 100) (· + 1000) limUcG 0)
    (blockIdx [[1100], [1000], [1009]])
  exact earley_call_as_run_is_WL e2eGen 9 e2eRen e2eA e2eB (· + 100) [9, 0] (· + 1000) limUcG 0 e2e_names
    (by rw [e2e_nullaryRemove]; exact e2e_shape) (by rw [e2e_nullaryRemove]; exact e2e_clo)
    (by intro y _; simp [limUcG]) (by intro y z _ _ h; simpa using h)
    [1100, 1000, 1009] [[1100], [1000], [1009]]
    (by
      rw [e2e_ren, e2e_edgesR]
      exact (sccCheck_iff (⟨[1100, 1000, 1009], []⟩ : WGraph ℕ ℕ) [(1100, 1000), (1000, 1009)]
        [[1100], [1000], [1009]]).mp (by decide))
    _ hp x hx


theorem limUcG_succ_E1 (n : ℕ) :
    WN limUcG (n + 1) 0 [10] = 2⁻¹ * WN limUcG n 0 [10] + 2⁻¹ := by
  simp [WN, limUcG, Wbody_singleton, Wsym]

theorem limUcG_value_E1 : WL limUcG 0 [10] = 1 := by
  have hle : ∀ n, WN limUcG n 0 [10] ≤ 1 := by
    intro n
    induction n with
    | zero => exact zero_le
    | succ n ih =>
      rw [limUcG_succ_E1]
      calc 2⁻¹ * WN limUcG n 0 [10] + 2⁻¹ ≤ 2⁻¹ * 1 + 2⁻¹ := by gcongr
        _ = 1 := by rw [mul_one, ENNReal.inv_two_add_inv_two]
  have hfix : WL limUcG 0 [10] = 2⁻¹ * WL limUcG 0 [10] + 2⁻¹ := by
    unfold WL
    rw [ENNReal.mul_iSup, ENNReal.iSup_add, ← Monotone.iSup_nat_add (WN_monotone limUcG 0 [10]) 1]
    exact iSup_congr fun n => limUcG_succ_E1 n
  have hfin : WL limUcG 0 [10] ≠ ⊤ := ne_top_of_le_ne_top (by norm_num) (iSup_le hle)
  have hfin' : 2⁻¹ * WL limUcG 0 [10] ≠ ⊤ := ENNReal.mul_ne_top (by norm_num) hfin
  have h2 : 2⁻¹ * WL limUcG 0 [10] + 2⁻¹ * WL limUcG 0 [10] = 2⁻¹ * WL limUcG 0 [10] + 2⁻¹ := by
    rw [← add_mul, ENNReal.inv_two_add_inv_two, one_mul]; exact hfix
  have h3 : 2⁻¹ * WL limUcG 0 [10] = 2⁻¹ := (ENNReal.add_right_inj hfin').mp h2
  calc WL limUcG 0 [10] = 2 * (2⁻¹ * WL limUcG 0 [10]) := by
        rw [← mul_assoc, ENNReal.mul_inv_cancel (by norm_num) (by norm_num), one_mul]
    _ = 1 := by rw [h3, ENNReal.mul_inv_cancel (by norm_num) (by norm_num)]


/-- the statement is about an actual number: on `[10]` the Earley parser (as run) and the two CKY parsers all
return `1 = Σ_k 2⁻ᵏ⁻¹`, the sum over the infinitely many derivation trees `0 → 0 → … → 0 → 10` -/
example :
    earleyCallQ (earleyGrammarRenL e2eGen 9 e2eRen e2eA e2eB (· + 100) (· + 1000) limUcG 0)
      (earleyPick (earleyGrammarRenL e2eGen 9 e2eRen e2eA e2eB (· + 100) (· + 1000) limUcG 0)
        (blockIdx [[1100], [1000], [1009]])) [10] = 1 ∧
    cfgParse (cnfL e2eGen 9 e2eRen limUcG 0) [10] = 1 ∧
    incCkyCall (cnfL e2eGen 9 e2eRen limUcG 0) [10] = 1 :=
  ⟨(e2e_as_run [10] (by decide)).trans limUcG_value_E1,
    (cfg_call_is_WL _ _ _ _ _ e2e_names [10]).trans limUcG_value_E1,
    (inc_cky_call_is_WL _ _ _ _ _ e2e_names [10]).trans limUcG_value_E1⟩

/-- non-vacuity of `parsers_agree` (general-order form, `order = potOrder`) -/
example (x : List ℕ) (hx : ∀ a ∈ x, a ∈ limUcG.V) :
    cfgParse (cnfL e2eGen 9 e2eRen limUcG 0) x = WL limUcG 0 x ∧
    incCkyCall (cnfL e2eGen 9 e2eRen limUcG 0) x = cfgParse (cnfL e2eGen 9 e2eRen limUcG 0) x ∧
    earleyCallQ (earleyGrammarL e2eGen 9 e2eRen e2eA e2eB (· + 100) limUcG 0)
      (earleyPick (earleyGrammarL e2eGen 9 e2eRen e2eA e2eB (· + 100) limUcG 0)
        (potOrder (· + 100) (e2eB.map (·.nodes)))) x = cfgParse (cnfL e2eGen 9 e2eRen limUcG 0) x := by
  have hp := earleyPick_ok_E1 (earleyGrammarL e2eGen 9 e2eRen e2eA e2eB (· + 100) limUcG 0)
      (potOrder (· + 100) (e2eB.map (·.nodes)))
  have hU : UcShape e2eA e2eB (· + 100) [9, 0] (nullaryRemoveL e2eGen 9 e2eRen limUcG 0) := by
    rw [e2e_nullaryRemove]; exact e2e_shape
  exact parsers_agree e2eGen 9 e2eRen limUcG 0 e2e_names e2eGen 9 e2eRen 0 e2eA e2eB (· + 100) [9, 0]
    e2e_names hU (by rw [e2e_nullaryRemove]; exact e2e_clo) _ _
    (potOrder_topo_E1 e2eA e2eB (· + 100) [9, 0] _ hU).1
    (potOrder_topo_E1 e2eA e2eB (· + 100) [9, 0] _ hU).2 _ hp x hx

end ExamplesEarley

end Genlm
