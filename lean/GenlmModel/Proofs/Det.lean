import GenlmModel.Model.Det
import GenlmModel.Proofs.Wfsa2
import Mathlib.Algebra.BigOperators.Group.List.Basic
import Mathlib.Algebra.BigOperators.Ring.List
import Mathlib.Algebra.Field.Basic
import Mathlib.Algebra.Order.Field.Rat
import Mathlib.Algebra.Order.Field.Basic
import Mathlib.Algebra.Order.BigOperators.Group.List
import Mathlib.Data.List.Nodup
import Mathlib.Tactic.Ring

/-! # `WFSA.determinize` (property C13): the result is deterministic and equivalent

Model: `Model/Det.lean` (`determinizeRun` / `determinizeN`, the body of `determinize` after
`self = self.epsremove.push`).  All statements are about an arbitrary machine `A`; the semantic ones
assume `A.EpsFree` (which `epsremove` establishes) and a field `K` with decidable equality.

* `det_deterministic` — one initial state of weight one, no ε arc, at most one arc per state and symbol
  (any `inv`, no algebra needed);
* `subsetRun_invariant`, `det_forward_invariant`, `det_chart`, `det_forward_invariant_chart` — Mohri's
  invariant `c * Q[q] = α_u(q)`: the subset `Q` and weight `c` reached on `u` rescale the forward chart
  of `A`; `det_chart`: the forward chart of `D` on `u` is the single entry `(Q, c)`;
* `detBuild_Bk` — backward version: `β_D(P, x) = Σ_q P[q] β_A(q, x)`;
* `det_preserves` (+ `_PN`) — **whenever `determinizeN` returns `some D`, `forward D x = forward A x`
  for every `x`**, over any field and for weights of any sign;
* `det_no_zeroDiv_of_pos` — with positive arc weights and non-negative initial weights the
  construction never divides by zero.

Division by zero.  Python evaluates `W ** (-1)` once per key of the chart `R`: an empty `R` gives
the arc `Q -a/0-> {}` (kept by the model: the dead subset `[]`), a non-empty `R` of mass `W = 0`
raises `ZeroDivisionError`, which the model reports as `zeroDiv` (`determinizeN = none`).  This is
why `det_preserves` needs no sign hypothesis; modelling that step as "no arc" instead would make
the statement false for weights of both signs (`DetAux.exCancel`), and it does happen with
non-negative weights as soon as an arc of weight `0` leads to a dead state (`DetAux.exDead`, the
shape `push` produces for machines that are not trim).  Helpers in `Genlm.DetAux`. -/
set_option linter.unusedSectionVars false

namespace Genlm
open WfsaAux Wfsa2Aux

namespace DetAux

/-! ### list lemmas -/
section Lists
variable {ι σ K : Type} [DecidableEq ι] [DecidableEq σ] [DecidableEq K]
  [Add K] [Mul K] [Zero K] [One K]

theorem filter_eq_of_nodup {α : Type} [DecidableEq α] (T : List α) (hT : T.Nodup) (a : α) :
    T.filter (fun b => b = a) = if a ∈ T then [a] else [] := by
  induction T with
  | nil => simp
  | cons b T ih =>
    rw [List.nodup_cons] at hT
    by_cases hba : b = a
    · subst hba
      rw [List.filter_cons_of_pos (by simp), ih hT.2]
      simp [hT.1]
    · rw [List.filter_cons_of_neg (by simpa using hba), ih hT.2]
      have : ¬ a = b := fun h => hba h.symm
      simp [this]

/-- the arcs leaving `P` with label `a` in a machine built by `detBuild` -/
theorem filter_detArcs (inv : K → K) (A : WFSA ι σ K) (S : List (List (ι × K))) (hS : S.Nodup)
    (T : List σ) (hT : T.Nodup) (P : List (ι × K)) (a : σ) :
    ((S.flatMap fun P' => T.map fun b => detArc inv A P' b).filter
        fun e => e.src = P ∧ e.lbl = some a)
      = if P ∈ S ∧ a ∈ T then [detArc inv A P a] else [] := by
  have hin : ∀ P', (T.map fun b => detArc inv A P' b).filter (fun e => e.src = P ∧ e.lbl = some a)
      = if P' = P ∧ a ∈ T then [detArc inv A P a] else [] := by
    intro P'
    rw [List.filter_map]
    by_cases hP : P' = P
    · subst hP
      have : ((fun e : Arc (List (ι × K)) σ K => decide (e.src = P' ∧ e.lbl = some a))
          ∘ fun b => detArc inv A P' b) = fun b => decide (b = a) := by
        funext b; simp [detArc]
      rw [this, filter_eq_of_nodup T hT a]
      by_cases ha : a ∈ T <;> simp [ha]
    · have : ((fun e : Arc (List (ι × K)) σ K => decide (e.src = P ∧ e.lbl = some a))
          ∘ fun b => detArc inv A P' b) = fun _ => false := by
        funext b; simp [detArc, hP]
      rw [this]; simp [hP]
  induction S with
  | nil => simp
  | cons P' S ih =>
    rw [List.nodup_cons] at hS
    rw [List.flatMap_cons, List.filter_append, hin, ih hS.2]
    by_cases hP : P' = P
    · subst hP; by_cases ha : a ∈ T <;> simp [ha, hS.1]
    · have : ¬ P = P' := fun h => hP h.symm
      simp [hP, this]

theorem mem_labels_iff (A : WFSA ι σ K) (a : σ) : a ∈ A.labels ↔ ∃ e ∈ A.arcs, e.lbl = some a := by
  simp [WFSA.labels, List.mem_eraseDups, List.mem_filterMap]

theorem nodup_labels (A : WFSA ι σ K) : A.labels.Nodup := nodup_eraseDups _

theorem powerRaw_of_not_label (A : WFSA ι σ K) (Q : List (ι × K)) (a : σ) (h : a ∉ A.labels) :
    powerRaw A Q a = [] := by
  unfold powerRaw
  rw [List.flatMap_eq_nil_iff]
  intro q _
  rw [List.map_eq_nil_iff, List.filter_eq_nil_iff]
  intro e he hc
  simp only [decide_eq_true_eq] at hc
  exact h ((mem_labels_iff A a).mpr ⟨e, he, hc.2⟩)

theorem canonChart_nil (A : WFSA ι σ K) : canonChart A [] = [] := by
  simp [canonChart]

theorem powerChart_of_raw_nil (A : WFSA ι σ K) (Q : List (ι × K)) (a : σ) (h : powerRaw A Q a = []) :
    powerChart A Q a = [] := by
  rw [powerChart, h, canonChart_nil]

theorem powerFails_of_raw_nil (A : WFSA ι σ K) (Q : List (ι × K)) (a : σ) (h : powerRaw A Q a = []) :
    powerFails A Q a = false := by
  simp [powerFails, powerChart_of_raw_nil A Q a h]

theorem powerArc_of_raw_nil (inv : K → K) (A : WFSA ι σ K) (Q : List (ι × K)) (a : σ)
    (h : powerRaw A Q a = []) : (powerArc inv A Q a).1 = [] := by
  simp [powerArc, powerChart_of_raw_nil A Q a h]

end Lists

/-! ### the worklist loop -/
section Loop
variable {ι σ K : Type} [DecidableEq ι] [DecidableEq σ] [DecidableEq K]
  [Add K] [Mul K] [Zero K] [One K]

theorem detInner_spec (inv : K → K) (A : WFSA ι σ K) (P : List (ι × K)) (as : List σ)
    (stack vis stack' vis' : List (List (ι × K)))
    (h : detInner inv A P as stack vis = some (stack', vis')) :
    ∃ N : List (List (ι × K)), stack' = N ++ stack ∧ vis' = N ++ vis ∧ N.Nodup ∧ (∀ Q ∈ N, Q ∉ vis) ∧
      ∀ a ∈ as, powerFails A P a = false ∧ (powerArc inv A P a).1 ∈ vis' := by
  induction as generalizing stack vis with
  | nil =>
    simp only [detInner, Option.some.injEq, Prod.mk.injEq] at h
    exact ⟨[], by simp [h.1], by simp [h.2], List.nodup_nil, by simp, by simp⟩
  | cons a as ih =>
    rw [detInner] at h
    by_cases hf : powerFails A P a = true
    · simp [hf] at h
    · have hf' : powerFails A P a = false := by simpa using hf
      simp only [hf', Bool.false_eq_true, if_false] at h
      by_cases hm : (powerArc inv A P a).1 ∈ vis
      · simp only [hm, if_true] at h
        obtain ⟨N, h1, h2, h3, h4, h5⟩ := ih stack vis h
        refine ⟨N, h1, h2, h3, h4, ?_⟩
        intro b hb
        rcases List.mem_cons.mp hb with rfl | hb
        · exact ⟨hf', by rw [h2]; exact List.mem_append_right _ hm⟩
        · exact h5 b hb
      · simp only [hm, if_false] at h
        obtain ⟨N, h1, h2, h3, h4, h5⟩ := ih _ _ h
        refine ⟨N ++ [(powerArc inv A P a).1], by simp [h1], by simp [h2], ?_, ?_, ?_⟩
        · rw [List.nodup_append]
          refine ⟨h3, List.nodup_singleton _, ?_⟩
          intro x hx y hy
          rw [List.mem_singleton] at hy
          subst hy
          intro hxy
          exact h4 x hx (by simp [hxy])
        · intro Q hQ
          rcases List.mem_append.mp hQ with hQ | hQ
          · exact fun hc => h4 Q hQ (List.mem_cons_of_mem _ hc)
          · rw [List.mem_singleton] at hQ; rw [hQ]; exact hm
        · intro b hb
          rcases List.mem_cons.mp hb with rfl | hb
          · exact ⟨hf', by rw [h2]; simp⟩
          · exact h5 b hb

/-- the invariant of the `while` loop -/
structure LoopInv (inv : K → K) (A : WFSA ι σ K) (stack vis done : List (List (ι × K))) : Prop where
  stackND : stack.Nodup
  doneND : done.Nodup
  visND : vis.Nodup
  mem_vis : ∀ Q, Q ∈ vis ↔ Q ∈ stack ∨ Q ∈ done
  disj : ∀ Q ∈ stack, Q ∉ done
  closed : ∀ P ∈ done, ∀ a ∈ A.labels, powerFails A P a = false ∧ (powerArc inv A P a).1 ∈ vis
  init : initSubset A ∈ vis

theorem loopInv_init (inv : K → K) (A : WFSA ι σ K) :
    LoopInv inv A [initSubset A] [initSubset A] [] where
  stackND := List.nodup_singleton _
  doneND := List.nodup_nil
  visND := List.nodup_singleton _
  mem_vis := by simp
  disj := by simp
  closed := by simp
  init := by simp

theorem loopInv_step (inv : K → K) (A : WFSA ι σ K) (P : List (ι × K))
    (stack vis done stack' vis' : List (List (ι × K)))
    (hI : LoopInv inv A (P :: stack) vis done)
    (h : detInner inv A P A.labels stack vis = some (stack', vis')) :
    LoopInv inv A stack' vis' (P :: done) := by
  obtain ⟨N, h1, h2, h3, h4, h5⟩ := detInner_spec inv A P A.labels stack vis stack' vis' h
  subst h1 h2
  have hst := List.nodup_cons.mp hI.stackND
  have hPvis : P ∈ vis := (hI.mem_vis P).mpr (Or.inl (by simp))
  have hPdone : P ∉ done := hI.disj P (by simp)
  have hsub : ∀ Q ∈ stack, Q ∈ vis := fun Q hQ => (hI.mem_vis Q).mpr (Or.inl (by simp [hQ]))
  refine ⟨?_, ?_, ?_, ?_, ?_, ?_, ?_⟩
  · rw [List.nodup_append]
    exact ⟨h3, hst.2, fun x hx y hy hxy => h4 x hx (hxy ▸ hsub y hy)⟩
  · exact List.nodup_cons.mpr ⟨hPdone, hI.doneND⟩
  · rw [List.nodup_append]
    exact ⟨h3, hI.visND, fun x hx y hy hxy => h4 x hx (hxy ▸ hy)⟩
  · intro Q
    simp only [List.mem_append, List.mem_cons, hI.mem_vis Q]
    constructor
    · rintro (h | (h | h) | h)
      · exact Or.inl (Or.inl h)
      · exact Or.inr (Or.inl h)
      · exact Or.inl (Or.inr h)
      · exact Or.inr (Or.inr h)
    · rintro ((h | h) | (h | h))
      · exact Or.inl h
      · exact Or.inr (Or.inl (Or.inr h))
      · exact Or.inr (Or.inl (Or.inl h))
      · exact Or.inr (Or.inr h)
  · intro Q hQ hc
    rcases List.mem_append.mp hQ with hQ | hQ
    · rcases List.mem_cons.mp hc with hc | hc
      · exact h4 Q hQ (hc ▸ hPvis)
      · exact h4 Q hQ ((hI.mem_vis Q).mpr (Or.inr hc))
    · rcases List.mem_cons.mp hc with hc | hc
      · exact hst.1 (hc ▸ hQ)
      · exact hI.disj Q (by simp [hQ]) hc
  · intro P' hP' a ha
    rcases List.mem_cons.mp hP' with rfl | hP'
    · exact h5 a ha
    · exact ⟨(hI.closed P' hP' a ha).1, List.mem_append_right _ (hI.closed P' hP' a ha).2⟩
  · exact List.mem_append_right _ hI.init

theorem detLoop_spec (inv : K → K) (A : WFSA ι σ K) (n : Nat)
    (stack vis done vis' done' : List (List (ι × K)))
    (hI : LoopInv inv A stack vis done)
    (h : detLoop inv A n stack vis done = .done (vis', done')) :
    LoopInv inv A [] vis' done' := by
  induction n generalizing stack vis done with
  | zero =>
    cases stack with
    | nil =>
      simp only [detLoop, DetOutcome.done.injEq, Prod.mk.injEq] at h
      rw [← h.1, ← h.2]; exact hI
    | cons P stack => simp [detLoop] at h
  | succ n ih =>
    cases stack with
    | nil =>
      simp only [detLoop, DetOutcome.done.injEq, Prod.mk.injEq] at h
      rw [← h.1, ← h.2]; exact hI
    | cons P stack =>
      rw [detLoop] at h
      cases hin : detInner inv A P A.labels stack vis with
      | none => rw [hin] at h; simp at h
      | some sv =>
        rw [hin] at h
        exact ih sv.1 sv.2 (P :: done) (loopInv_step inv A P stack vis done sv.1 sv.2 hI hin) h

/-- what a successful run returns -/
theorem determinizeN_eq_some (inv : K → K) (A : WFSA ι σ K) (fuel : Nat)
    (D : WFSA (List (ι × K)) σ K) (h : determinizeN inv A fuel = some D) :
    ∃ vis done, D = detBuild inv A vis done ∧ LoopInv inv A [] vis done := by
  unfold determinizeN determinizeRun at h
  cases hl : detLoop inv A fuel [initSubset A] [initSubset A] [] with
  | done vd =>
    rw [hl] at h
    simp only [Option.some.injEq] at h
    exact ⟨vd.1, vd.2, h.symm, detLoop_spec inv A fuel _ _ _ vd.1 vd.2 (loopInv_init inv A) hl⟩
  | outOfFuel => rw [hl] at h; simp at h
  | zeroDiv => rw [hl] at h; simp at h

end Loop
end DetAux
open DetAux

/-! ### C13, structure: the result is deterministic -/
section Deterministic
variable {ι σ K : Type} [DecidableEq ι] [DecidableEq σ] [DecidableEq K]
  [Add K] [Mul K] [Zero K] [One K]

/-- **the result of `determinize` is deterministic**: a single initial state (of weight one), no ε
arc, and at most one arc per state and symbol (any weights, any `inv`) -/
theorem det_deterministic (inv : K → K) (A : WFSA ι σ K) (fuel : Nat)
    (D : WFSA (List (ι × K)) σ K) (h : determinizeN inv A fuel = some D) :
    D.start = [(initSubset A, 1)] ∧ (∀ e ∈ D.arcs, e.lbl ≠ none) ∧
      ∀ (P : List (ι × K)) (a : σ),
        (D.arcs.filter fun e => e.src = P ∧ e.lbl = some a).length ≤ 1 := by
  obtain ⟨vis, done, rfl, hI⟩ := determinizeN_eq_some inv A fuel D h
  refine ⟨rfl, ?_, ?_⟩
  · intro e he
    simp only [detBuild, List.mem_flatMap, List.mem_map] at he
    obtain ⟨P, _, a, _, rfl⟩ := he
    simp [detArc]
  · intro P a
    simp only [detBuild]
    rw [filter_detArcs inv A done hI.doneND A.labels (nodup_labels A) P a]
    split <;> simp

end Deterministic

/-! ### weighted subsets and one step of the construction -/
namespace DetAux
section Sem
variable {ι σ K : Type} [DecidableEq ι] [DecidableEq σ] [DecidableEq K] [CommSemiring K]

theorem wlook_flatMap_key {κ : Type} [DecidableEq κ] (S : List κ) (hS : S.Nodup) (g : κ → List (κ × K))
    (hg : ∀ i' ∈ S, ∀ q ∈ g i', q.1 = i') (i : κ) :
    wlook (S.flatMap g) i = if i ∈ S then ((g i).map (·.2)).sum else 0 := by
  rw [wlook_eq_sum_ite, sum_flatMap, ← sum_ite_eq_nodup S hS i (fun i' => ((g i').map (·.2)).sum)]
  apply congrArg
  apply List.map_congr_left
  intro i' hi'
  by_cases h : i = i'
  · subst h
    simp only [if_true]
    apply congrArg
    apply List.map_congr_left
    intro q hq
    simp [hg i hi' q hq]
  · simp only [h, if_false]
    apply sum_map_zero
    intro q hq
    have : q.1 ≠ i := by rw [hg i' hi' q hq]; exact fun h' => h h'.symm
    simp [this]

theorem wlook_map_smul (l : List (ι × K)) (k : K) (p : ι) :
    wlook (l.map fun r => (r.1, k * r.2)) p = k * wlook l p := by
  simp only [wlook_eq_sum_ite, List.map_map, Function.comp_def, ← List.sum_map_mul_left]
  apply congrArg
  apply List.map_congr_left
  intro r _
  split <;> simp

theorem Bk_nil (A : WFSA ι σ K) (i : ι) : Bk A 0 i [] = wlook A.stop i := by
  rw [Bk_zero]; simp

/-- on an ε-free machine the first arc of a path spelling `a :: x` is labelled `a` -/
theorem Bk_cons (A : WFSA ι σ K) (hA : A.EpsFree) (k : Nat) (i : ι) (a : σ) (x : List σ) :
    Bk A (k+1) i (a :: x) = ((A.arcs.filter fun e => e.src = i ∧ e.lbl = some a).map fun e =>
      e.w * Bk A k e.dst x).sum := by
  unfold Bk
  simp only [Qk_cons_epsfree A hA, ← List.sum_map_mul_right, ← List.sum_map_mul_left]
  rw [sum_swap]
  apply congrArg
  apply List.map_congr_left
  intro e _
  apply congrArg
  apply List.map_congr_left
  intro f _
  rw [mul_assoc]

theorem powerRaw_mem_states (A : WFSA ι σ K) (Q : List (ι × K)) (a : σ) :
    ∀ r ∈ powerRaw A Q a, r.1 ∈ A.states := by
  intro r hr
  simp only [powerRaw, List.mem_flatMap, List.mem_map, List.mem_filter] at hr
  obtain ⟨q, _, e, ⟨he, _⟩, rfl⟩ := hr
  exact mem_states_dst A e he

theorem canonChart_keys_nodup (A : WFSA ι σ K) (l : List (ι × K)) :
    (A.states.filter fun p => p ∈ l.map (·.1)).Nodup := (nodup_states A).filter _

theorem wlook_canonChart (A : WFSA ι σ K) (l : List (ι × K)) (hl : ∀ q ∈ l, q.1 ∈ A.states) (p : ι) :
    wlook (canonChart A l) p = wlook l p := by
  unfold canonChart
  rw [wlook_map_nodup _ (canonChart_keys_nodup A l)]
  split
  · rfl
  · rename_i h
    symm
    apply wlook_eq_zero
    intro q hq hqp
    apply h
    rw [List.mem_filter]
    refine ⟨hqp ▸ hl q hq, ?_⟩
    simp only [List.mem_map, decide_eq_true_eq]
    exact ⟨q, hq, hqp⟩

/-- the representation is canonical: charts with the same keys and the same accumulated weights
(equal Python dictionaries) have the same canonical form -/
theorem canonChart_ext (A : WFSA ι σ K) (l l' : List (ι × K))
    (hk : ∀ p, p ∈ l.map (·.1) ↔ p ∈ l'.map (·.1)) (hw : ∀ p, wlook l p = wlook l' p) :
    canonChart A l = canonChart A l' := by
  unfold canonChart
  have : (A.states.filter fun p => p ∈ l.map (·.1)) = A.states.filter fun p => p ∈ l'.map (·.1) := by
    apply List.filter_congr
    intro p _
    simp only [decide_eq_decide]
    exact hk p
  rw [this]
  apply List.map_congr_left
  intro p _
  rw [hw]

theorem sum_canonChart (A : WFSA ι σ K) (l : List (ι × K)) (hl : ∀ q ∈ l, q.1 ∈ A.states) (G : ι → K) :
    ((canonChart A l).map fun q => q.2 * G q.1).sum = (l.map fun q => q.2 * G q.1).sum := by
  rw [sum_eq_sum_wlook l _ (canonChart_keys_nodup A l) (by
    intro q hq
    rw [List.mem_filter]
    refine ⟨hl q hq, ?_⟩
    simp only [List.mem_map, decide_eq_true_eq]
    exact ⟨q, hq, rfl⟩) G]
  simp [canonChart, List.map_map, Function.comp_def]

theorem sum_powerRaw (A : WFSA ι σ K) (Q : List (ι × K)) (a : σ) (G : ι → K) :
    ((powerRaw A Q a).map fun r => r.2 * G r.1).sum
      = (Q.map fun q => q.2 *
          ((A.arcs.filter fun e => e.src = q.1 ∧ e.lbl = some a).map fun e => e.w * G e.dst).sum).sum := by
  unfold powerRaw
  rw [sum_flatMap]
  apply congrArg
  apply List.map_congr_left
  intro q _
  rw [List.map_map, ← List.sum_map_mul_left]
  apply congrArg
  apply List.map_congr_left
  intro e _
  simp [mul_assoc]

theorem sum_powerChart (A : WFSA ι σ K) (Q : List (ι × K)) (a : σ) (G : ι → K) :
    ((powerChart A Q a).map fun r => r.2 * G r.1).sum
      = (Q.map fun q => q.2 *
          ((A.arcs.filter fun e => e.src = q.1 ∧ e.lbl = some a).map fun e => e.w * G e.dst).sum).sum := by
  rw [powerChart, sum_canonChart A _ (powerRaw_mem_states A Q a), sum_powerRaw]

theorem wlook_powerChart (A : WFSA ι σ K) (Q : List (ι × K)) (a : σ) (p : ι) :
    wlook (powerChart A Q a) p = wlook (powerRaw A Q a) p :=
  wlook_canonChart A _ (powerRaw_mem_states A Q a) p

/-- `powerRaw` is linear in the chart, and only depends on its accumulated weights -/
theorem wlook_powerRaw_congr (A : WFSA ι σ K) (Q prev : List (ι × K)) (c : K)
    (h : ∀ q, c * wlook Q q = wlook prev q) (a : σ) (p : ι) :
    c * wlook (powerRaw A Q a) p = wlook (powerRaw A prev a) p := by
  let H : ι → K := fun i => ((A.arcs.filter fun e => e.src = i ∧ e.lbl = some a).map fun e =>
    e.w * (if e.dst = p then 1 else 0)).sum
  have hw : ∀ l : List (ι × K), wlook (powerRaw A l a) p = (l.map fun q => q.2 * H q.1).sum := by
    intro l
    rw [← sum_powerRaw A l a (fun i => if i = p then 1 else 0), wlook_eq_sum_ite]
    apply congrArg
    apply List.map_congr_left
    intro r _
    split <;> simp
  let ks := (Q.map (·.1) ++ prev.map (·.1)).eraseDups
  have hks : ks.Nodup := nodup_eraseDups _
  rw [hw, hw, sum_eq_sum_wlook Q ks hks (by
      intro q hq
      simp only [ks, List.mem_eraseDups, List.mem_append, List.mem_map]
      exact Or.inl ⟨q, hq, rfl⟩) H,
    sum_eq_sum_wlook prev ks hks (by
      intro q hq
      simp only [ks, List.mem_eraseDups, List.mem_append, List.mem_map]
      exact Or.inr ⟨q, hq, rfl⟩) H,
    ← List.sum_map_mul_left]
  apply congrArg
  apply List.map_congr_left
  intro i _
  rw [← mul_assoc, h]

theorem wlook_initSubset (A : WFSA ι σ K) (q : ι) : wlook (initSubset A) q = wlook A.start q := by
  unfold initSubset
  rw [wlook_map_nodup _ ((nodup_states A).filter _)]
  split
  · rfl
  · rename_i h
    rw [List.mem_filter] at h
    by_cases hq : q ∈ A.states
    · have : wlook A.start q = 0 := by
        by_contra hne
        exact h ⟨hq, by simpa using hne⟩
      rw [this]
    · symm
      apply wlook_eq_zero
      intro s hs hsq
      exact hq (hsq ▸ mem_states_start A s hs)

theorem sum_initSubset (A : WFSA ι σ K) (G : ι → K) :
    ((initSubset A).map fun q => q.2 * G q.1).sum = (A.states.map fun i => wlook A.start i * G i).sum := by
  unfold initSubset
  rw [List.map_map]
  rw [sum_filter_of_zero A.states (fun i => decide (wlook A.start i ≠ 0))
    (fun i => wlook A.start i * G i) (by
      intro i _ hi
      have : wlook A.start i = 0 := by simpa using hi
      rw [this, zero_mul])]
  rfl

end Sem

section SemField
variable {ι σ K : Type} [DecidableEq ι] [DecidableEq σ] [DecidableEq K] [Field K]

/-- a step that does not divide by zero: either the chart `R` is empty or its mass is invertible -/
theorem powerFails_false_iff (A : WFSA ι σ K) (Q : List (ι × K)) (a : σ) :
    powerFails A Q a = false ↔ powerChart A Q a = [] ∨ powerMass A Q a ≠ 0 := by
  simp only [powerFails, Bool.and_eq_false_iff, Bool.not_eq_false', List.isEmpty_iff,
    decide_eq_false_iff_not]

/-- rescaling: `W * Σ_{p ∈ Q'} Q'[p] * G p = Σ_{p ∈ R} R[p] * G p` -/
theorem sum_powerArc (A : WFSA ι σ K) (Q : List (ι × K)) (a : σ) (hok : powerFails A Q a = false)
    (G : ι → K) :
    (powerArc (·⁻¹) A Q a).2 * (((powerArc (·⁻¹) A Q a).1).map fun p => p.2 * G p.1).sum
      = ((powerChart A Q a).map fun r => r.2 * G r.1).sum := by
  simp only [powerArc, List.map_map, Function.comp_def]
  rcases (powerFails_false_iff A Q a).mp hok with h | h
  · simp [h]
  · rw [← List.sum_map_mul_left]
    apply congrArg
    apply List.map_congr_left
    intro r _
    rw [← mul_assoc, mul_inv_cancel_left₀ h]

theorem wlook_powerArc (A : WFSA ι σ K) (Q : List (ι × K)) (a : σ) (hok : powerFails A Q a = false)
    (p : ι) :
    (powerArc (·⁻¹) A Q a).2 * wlook (powerArc (·⁻¹) A Q a).1 p = wlook (powerRaw A Q a) p := by
  simp only [powerArc]
  rw [wlook_map_smul, ← wlook_powerChart]
  rcases (powerFails_false_iff A Q a).mp hok with h | h
  · simp [h, wlook_nil]
  · rw [mul_inv_cancel_left₀ h]

end SemField
end DetAux
open DetAux

/-! ### C13, semantics -/
section Preserves
variable {ι σ K : Type} [DecidableEq ι] [DecidableEq σ] [DecidableEq K] [Field K]

/-- **forward invariant of the subset construction**: along a run that never divides by zero, the
subset `Q` reached on `u` and the accumulated weight `c` satisfy `c * Q[q] = α_u(q)`, the forward
weight of `q` after `u` in `A` (the chart of `WFSA.__call__`) -/
theorem subsetRun_invariant (A : WFSA ι σ K) (u : List σ) (hu : subsetRunOk A (·⁻¹) (initSubset A) u = true)
    (q : ι) :
    (subsetRun (·⁻¹) A u).2 * wlook (subsetRun (·⁻¹) A u).1 q = wlook (fwdChart A A.start u) q := by
  suffices h : ∀ (u : List σ) (Q : List (ι × K)) (c : K) (prev : List (ι × K)),
      (∀ q, c * wlook Q q = wlook prev q) → subsetRunOk A (·⁻¹) Q u = true → ∀ q,
      (u.foldl (fun s a => ((powerArc (·⁻¹) A s.1 a).1, s.2 * (powerArc (·⁻¹) A s.1 a).2)) (Q, c)).2
        * wlook (u.foldl (fun s a => ((powerArc (·⁻¹) A s.1 a).1, s.2 * (powerArc (·⁻¹) A s.1 a).2))
            (Q, c)).1 q
        = wlook (fwdChart A prev u) q by
    exact h u (initSubset A) 1 A.start (fun q => by rw [one_mul, wlook_initSubset]) hu q
  intro u
  induction u with
  | nil => intro Q c prev h _ q; exact h q
  | cons a u ih =>
    intro Q c prev h hok q
    simp only [subsetRunOk, Bool.and_eq_true, Bool.not_eq_true'] at hok
    rw [List.foldl_cons]
    have hstep : fwdChart A prev (a :: u) = fwdChart A (fwdStep A prev a) u := rfl
    rw [hstep]
    apply ih _ _ _ _ hok.2
    intro p
    have : fwdStep A prev a = accum (powerRaw A prev a) := rfl
    rw [this, wlook_accum, ← wlook_powerRaw_congr A Q prev c h a p, mul_assoc,
      wlook_powerArc A Q a hok.1]

/-- runs from a processed subset (or from the dead subset `[]`) never divide by zero -/
theorem subsetRunOk_of_closed (A : WFSA ι σ K) (inv : K → K) (vis done : List (List (ι × K)))
    (hI : LoopInv inv A [] vis done) (u : List σ) (Q : List (ι × K)) (hQ : Q ∈ done ∨ Q = []) :
    subsetRunOk A inv Q u = true := by
  induction u generalizing Q with
  | nil => rfl
  | cons a u ih =>
    simp only [subsetRunOk, Bool.and_eq_true, Bool.not_eq_true']
    by_cases ha : a ∈ A.labels
    · rcases hQ with hQ | hQ
      · have := hI.closed Q hQ a ha
        refine ⟨this.1, ih _ (Or.inl ?_)⟩
        have hv := (hI.mem_vis _).mp this.2
        simpa using hv
      · subst hQ
        have hr : powerRaw A [] a = [] := rfl
        exact ⟨powerFails_of_raw_nil A [] a hr, ih _ (Or.inr (powerArc_of_raw_nil inv A [] a hr))⟩
    · have hr := powerRaw_of_not_label A Q a ha
      exact ⟨powerFails_of_raw_nil A Q a hr, ih _ (Or.inr (powerArc_of_raw_nil inv A Q a hr))⟩

/-- when `determinize` ends normally, no run of the subset construction divides by zero -/
theorem det_subsetRunOk (A : WFSA ι σ K) (inv : K → K) (fuel : Nat) (D : WFSA (List (ι × K)) σ K)
    (h : determinizeN inv A fuel = some D) (u : List σ) : subsetRunOk A inv (initSubset A) u = true := by
  obtain ⟨vis, done, _, hI⟩ := determinizeN_eq_some inv A fuel D h
  apply subsetRunOk_of_closed A inv vis done hI u
  left
  have := (hI.mem_vis _).mp hI.init
  simpa using this

/-- **C13, forward invariant**: if `determinize` ends normally then for every word `u`, the subset
`Q` reached and the weight `c` accumulated by the subset construction satisfy `c * Q[q] = α_u(q)` -/
theorem det_forward_invariant (A : WFSA ι σ K) (fuel : Nat) (D : WFSA (List (ι × K)) σ K)
    (h : determinizeN (·⁻¹) A fuel = some D) (u : List σ) (q : ι) :
    (subsetRun (·⁻¹) A u).2 * wlook (subsetRun (·⁻¹) A u).1 q = wlook (fwdChart A A.start u) q :=
  subsetRun_invariant A u (det_subsetRunOk A _ fuel D h u) q

/-- backward weights in the result: `β_D(P, x) = Σ_q P[q] · β_A(q, x)` for every state `P` of `D` -/
theorem detBuild_Bk (A : WFSA ι σ K) (hA : A.EpsFree) (vis done : List (List (ι × K)))
    (hI : LoopInv (·⁻¹) A [] vis done) (x : List σ) (P : List (ι × K)) (hP : P ∈ done) :
    Bk (detBuild (·⁻¹) A vis done) x.length P x = (P.map fun q => q.2 * Bk A x.length q.1 x).sum := by
  have hDeps : (detBuild (·⁻¹) A vis done).EpsFree := by
    intro e he
    simp only [detBuild, List.mem_flatMap, List.mem_map] at he
    obtain ⟨P, _, a, _, rfl⟩ := he
    simp [detArc]
  induction x generalizing P with
  | nil =>
    simp only [List.length_nil, Bk_nil]
    have hPv : P ∈ vis := (hI.mem_vis P).mpr (Or.inr hP)
    simp only [detBuild]
    rw [wlook_flatMap_key vis hI.visND _ (by
      intro Q _ r hr
      simp only [List.mem_map] at hr
      obtain ⟨q, _, rfl⟩ := hr
      rfl)]
    simp [hPv, List.map_map, Function.comp_def]
  | cons a x ih =>
    simp only [List.length_cons]
    rw [Bk_cons _ hDeps]
    have harcs : (detBuild (·⁻¹) A vis done).arcs
        = done.flatMap fun P => A.labels.map fun a => detArc (·⁻¹) A P a := rfl
    rw [harcs, filter_detArcs _ A done hI.doneND A.labels (nodup_labels A) P a]
    by_cases ha : a ∈ A.labels
    · have hcl := hI.closed P hP a ha
      have hP' : (powerArc (·⁻¹) A P a).1 ∈ done := by
        have := (hI.mem_vis _).mp hcl.2
        simpa using this
      rw [if_pos ⟨hP, ha⟩]
      simp only [List.map_cons, List.map_nil, List.sum_cons, List.sum_nil, add_zero]
      change (powerArc (·⁻¹) A P a).2
        * Bk (detBuild (·⁻¹) A vis done) x.length (powerArc (·⁻¹) A P a).1 x = _
      rw [ih _ hP', sum_powerArc A P a hcl.1 (fun i => Bk A x.length i x),
        sum_powerChart A P a (fun i => Bk A x.length i x)]
      apply congrArg
      apply List.map_congr_left
      intro q _
      rw [Bk_cons A hA]
    · rw [if_neg (fun h => ha h.2)]
      simp only [List.map_nil, List.sum_nil]
      symm
      apply sum_map_zero
      intro q _
      rw [Bk_cons A hA]
      have : (A.arcs.filter fun e => e.src = q.1 ∧ e.lbl = some a) = [] := by
        rw [List.filter_eq_nil_iff]
        intro e he hc
        simp only [decide_eq_true_eq] at hc
        exact ha ((mem_labels_iff A a).mpr ⟨e, he, hc.2⟩)
      rw [this]; simp

/-- **C13: determinisation preserves every string weight.**  Whenever `determinize` ends normally
(the loop empties the worklist within `fuel` iterations and never divides by zero — in which case
Python raises `ZeroDivisionError`), the result `D` assigns every string the weight `A` assigns
(over any field, weights of any sign) -/
theorem det_preserves (A : WFSA ι σ K) (hA : A.EpsFree) (fuel : Nat) (D : WFSA (List (ι × K)) σ K)
    (h : determinizeN (·⁻¹) A fuel = some D) (x : List σ) : forward D x = forward A x := by
  have hdet := det_deterministic _ A fuel D h
  obtain ⟨vis, done, rfl, hI⟩ := determinizeN_eq_some _ A fuel D h
  have h0 : initSubset A ∈ done := by
    have := (hI.mem_vis _).mp hI.init
    simpa using this
  rw [forward_correct _ hdet.2.1, Pk_eq_Bk, forward_correct A hA, Pk_eq_states_Bk]
  have : (detBuild (·⁻¹) A vis done).start = [(initSubset A, 1)] := rfl
  rw [this]
  simp only [List.map_cons, List.map_nil, List.sum_cons, List.sum_nil, add_zero, one_mul]
  rw [detBuild_Bk A hA vis done hI x _ h0, sum_initSubset A (fun i => Bk A x.length i x)]

theorem det_preserves_PN (A : WFSA ι σ K) (hA : A.EpsFree) (fuel : Nat) (D : WFSA (List (ι × K)) σ K)
    (h : determinizeN (·⁻¹) A fuel = some D) (n : Nat) (x : List σ) (hn : x.length ≤ n) :
    PN D n x = PN A n x := by
  rw [← forward_correct_PN D (det_deterministic _ A fuel D h).2.1 x n hn,
    ← forward_correct_PN A hA x n hn, det_preserves A hA fuel D h]

end Preserves

/-! ### the run of the result is the run of the subset construction -/
section Chart
variable {ι σ K : Type} [DecidableEq ι] [DecidableEq σ] [DecidableEq K] [CommSemiring K]

theorem DetAux.accum_singleton {κ : Type} [DecidableEq κ] (i : κ) (w : K) :
    accum [(i, w)] = [(i, w)] := by
  simp [accum, wlook, lsum, List.eraseDups_cons]

/-- **the chart of `D` on a word is the single entry computed by the subset construction**
(`WFSA.__call__` on `D` follows exactly one path) -/
theorem det_chart (inv : K → K) (A : WFSA ι σ K) (fuel : Nat) (D : WFSA (List (ι × K)) σ K)
    (h : determinizeN inv A fuel = some D) (u : List σ) (hu : ∀ a ∈ u, a ∈ A.labels) :
    fwdChart D D.start u = [subsetRun inv A u] := by
  obtain ⟨vis, done, rfl, hI⟩ := determinizeN_eq_some inv A fuel D h
  have h0 : initSubset A ∈ done := by
    have := (hI.mem_vis _).mp hI.init
    simpa using this
  suffices hgen : ∀ (u : List σ) (Q : List (ι × K)) (c : K), Q ∈ done → (∀ a ∈ u, a ∈ A.labels) →
      fwdChart (detBuild inv A vis done) [(Q, c)] u
        = [u.foldl (fun s a => ((powerArc inv A s.1 a).1, s.2 * (powerArc inv A s.1 a).2)) (Q, c)] by
    exact hgen u (initSubset A) 1 h0 hu
  intro u
  induction u with
  | nil => intro Q c _ _; rfl
  | cons a u ih =>
    intro Q c hQ hu
    have ha : a ∈ A.labels := hu a (by simp)
    have hcl := hI.closed Q hQ a ha
    have hQ' : (powerArc inv A Q a).1 ∈ done := by
      have := (hI.mem_vis _).mp hcl.2
      simpa using this
    have hstep : fwdChart (detBuild inv A vis done) [(Q, c)] (a :: u)
        = fwdChart (detBuild inv A vis done) (fwdStep (detBuild inv A vis done) [(Q, c)] a) u := rfl
    have hfs : fwdStep (detBuild inv A vis done) [(Q, c)] a
        = [((powerArc inv A Q a).1, c * (powerArc inv A Q a).2)] := by
      unfold fwdStep
      have harcs : (detBuild inv A vis done).arcs
          = done.flatMap fun P => A.labels.map fun a => detArc inv A P a := rfl
      simp only [List.flatMap_cons, List.flatMap_nil, List.append_nil]
      rw [harcs, filter_detArcs inv A done hI.doneND A.labels (nodup_labels A) Q a, if_pos ⟨hQ, ha⟩]
      exact accum_singleton _ _
    rw [hstep, hfs, List.foldl_cons]
    exact ih _ _ hQ' (fun b hb => hu b (by simp [hb]))

end Chart

section ChartField
variable {ι σ K : Type} [DecidableEq ι] [DecidableEq σ] [DecidableEq K] [Field K]

/-- **C13, forward invariant, on the result itself**: if the run of `D` on `u` reaches the
subset `Q` with weight `c`, then `c * Q[q]` is the forward weight of `q` after `u` in `A` -/
theorem det_forward_invariant_chart (A : WFSA ι σ K) (fuel : Nat) (D : WFSA (List (ι × K)) σ K)
    (h : determinizeN (·⁻¹) A fuel = some D) (u : List σ) (hu : ∀ a ∈ u, a ∈ A.labels)
    (Q : List (ι × K)) (c : K) (hQ : fwdChart D D.start u = [(Q, c)]) (q : ι) :
    c * wlook Q q = wlook (fwdChart A A.start u) q := by
  rw [det_chart _ A fuel D h u hu] at hQ
  have := det_forward_invariant A fuel D h u q
  simp only [List.cons.injEq, and_true] at hQ
  rw [hQ] at this
  exact this

end ChartField

/-! ### positive weights: the construction never divides by zero -/
section Positive
variable {ι σ K : Type} [DecidableEq ι] [DecidableEq σ] [DecidableEq K]
  [Field K] [LinearOrder K] [IsStrictOrderedRing K]

/-- every entry of the weighted subset is positive -/
def DetAux.Pos (Q : List (ι × K)) : Prop := ∀ q ∈ Q, 0 < q.2

theorem DetAux.wlook_nonneg_of (l : List (ι × K)) (hl : ∀ r ∈ l, 0 ≤ r.2) (p : ι) : 0 ≤ wlook l p := by
  rw [wlook_eq_sum_ite]
  apply List.sum_nonneg
  intro t ht
  obtain ⟨r, hr, rfl⟩ := List.mem_map.mp ht
  split
  · exact hl r hr
  · exact le_refl _

theorem DetAux.wlook_pos_of (l : List (ι × K)) (hl : ∀ r ∈ l, 0 < r.2) (p : ι)
    (hp : p ∈ l.map (·.1)) : 0 < wlook l p := by
  induction l with
  | nil => simp at hp
  | cons r l ih =>
    rw [wlook_cons]
    have hnn : 0 ≤ wlook l p := wlook_nonneg_of l (fun r' hr' => le_of_lt (hl r' (by simp [hr']))) p
    by_cases hrp : r.1 = p
    · rw [if_pos hrp]
      exact add_pos_of_pos_of_nonneg (hl r (by simp)) hnn
    · rw [if_neg hrp, zero_add]
      apply ih (fun r' hr' => hl r' (by simp [hr']))
      simp only [List.map_cons, List.mem_cons] at hp
      rcases hp with hp | hp
      · exact absurd hp.symm hrp
      · exact hp

theorem DetAux.pos_initSubset (A : WFSA ι σ K) (hstart : ∀ i, 0 ≤ wlook A.start i) :
    Pos (initSubset A) := by
  intro q hq
  simp only [initSubset, List.mem_map, List.mem_filter, decide_eq_true_eq] at hq
  obtain ⟨i, ⟨_, hne⟩, rfl⟩ := hq
  exact lt_of_le_of_ne (hstart i) (Ne.symm hne)

theorem DetAux.pos_powerChart (A : WFSA ι σ K) (hw : ∀ e ∈ A.arcs, 0 < e.w) (Q : List (ι × K))
    (hQ : Pos Q) (a : σ) : Pos (powerChart A Q a) := by
  intro r hr
  simp only [powerChart, canonChart, List.mem_map, List.mem_filter, decide_eq_true_eq] at hr
  obtain ⟨p, ⟨_, hp⟩, rfl⟩ := hr
  apply wlook_pos_of _ _ p (by simpa using hp)
  intro r hr
  simp only [powerRaw, List.mem_flatMap, List.mem_map, List.mem_filter] at hr
  obtain ⟨q, hq, e, ⟨he, _⟩, rfl⟩ := hr
  exact mul_pos (hQ q hq) (hw e he)

/-- from a positive subset the step is defined and leads to a positive subset -/
theorem DetAux.pos_powerArc (A : WFSA ι σ K) (hw : ∀ e ∈ A.arcs, 0 < e.w) (Q : List (ι × K))
    (hQ : Pos Q) (a : σ) : powerFails A Q a = false ∧ Pos (powerArc (·⁻¹) A Q a).1 := by
  have hR := pos_powerChart A hw Q hQ a
  by_cases hnil : powerChart A Q a = []
  · refine ⟨(powerFails_false_iff A Q a).mpr (Or.inl hnil), ?_⟩
    intro q hq
    simp [powerArc, hnil] at hq
  · have hW : 0 < powerMass A Q a := by
      unfold powerMass
      rw [lsum_eq_sum]
      apply List.sum_pos
      · intro t ht
        obtain ⟨r, hr, rfl⟩ := List.mem_map.mp ht
        exact hR r hr
      · simpa using hnil
    refine ⟨(powerFails_false_iff A Q a).mpr (Or.inr (ne_of_gt hW)), ?_⟩
    intro q hq
    simp only [powerArc, List.mem_map] at hq
    obtain ⟨r, hr, rfl⟩ := hq
    exact mul_pos (inv_pos.mpr hW) (hR r hr)

theorem DetAux.detInner_pos (A : WFSA ι σ K) (hw : ∀ e ∈ A.arcs, 0 < e.w) (P : List (ι × K))
    (hP : Pos P) (as : List σ) (stack vis : List (List (ι × K))) (hst : ∀ Q ∈ stack, Pos Q) :
    ∃ sv, detInner (·⁻¹) A P as stack vis = some sv ∧ ∀ Q ∈ sv.1, Pos Q := by
  induction as generalizing stack vis with
  | nil => exact ⟨(stack, vis), rfl, hst⟩
  | cons a as ih =>
    have h := pos_powerArc A hw P hP a
    rw [detInner]
    simp only [h.1, Bool.false_eq_true, if_false]
    by_cases hm : (powerArc (·⁻¹) A P a).1 ∈ vis
    · simp only [hm, if_true]
      exact ih stack vis hst
    · simp only [hm, if_false]
      apply ih
      intro Q hQ
      rcases List.mem_cons.mp hQ with rfl | hQ
      · exact h.2
      · exact hst Q hQ

theorem DetAux.detLoop_pos (A : WFSA ι σ K) (hw : ∀ e ∈ A.arcs, 0 < e.w) (n : Nat)
    (stack vis done : List (List (ι × K))) (hst : ∀ Q ∈ stack, Pos Q) :
    detLoop (·⁻¹) A n stack vis done ≠ .zeroDiv := by
  induction n generalizing stack vis done with
  | zero => cases stack <;> simp [detLoop]
  | succ n ih =>
    cases stack with
    | nil => simp [detLoop]
    | cons P stack =>
      obtain ⟨sv, hsv, hpos⟩ := detInner_pos A hw P (hst P (by simp)) A.labels stack vis
        (fun Q hQ => hst Q (by simp [hQ]))
      rw [detLoop, hsv]
      exact ih sv.1 sv.2 (P :: done) hpos

/-- **positive machines never raise**: if every arc weight is positive and the (accumulated) initial
weights are non-negative, `determinize` never divides by zero — it either ends normally or runs on -/
theorem det_no_zeroDiv_of_pos (A : WFSA ι σ K) (hw : ∀ e ∈ A.arcs, 0 < e.w)
    (hstart : ∀ i, 0 ≤ wlook A.start i) (fuel : Nat) :
    (∃ D, determinizeRun (·⁻¹) A fuel = .done D) ∨ determinizeRun (·⁻¹) A fuel = .outOfFuel := by
  unfold determinizeRun
  have h := detLoop_pos A hw fuel [initSubset A] [initSubset A] [] (by
    intro Q hQ
    rw [List.mem_singleton] at hQ
    rw [hQ]
    exact pos_initSubset A hstart)
  cases hl : detLoop (·⁻¹) A fuel [initSubset A] [initSubset A] [] with
  | done vd => exact Or.inl ⟨_, rfl⟩
  | outOfFuel => exact Or.inr rfl
  | zeroDiv => exact absurd hl h

end Positive

/-! ### non-vacuity examples and counterexamples -/
namespace DetAux

def isDone {α : Type} : DetOutcome α → Bool
  | .done _ => true
  | _ => false
def isOutOfFuel {α : Type} : DetOutcome α → Bool
  | .outOfFuel => true
  | _ => false
def isZeroDiv {α : Type} : DetOutcome α → Bool
  | .zeroDiv => true
  | _ => false

/-- a non-deterministic machine (two `7`-arcs from state `0`) that determinises in 5 iterations -/
def exDet : WFSA Nat Nat ℚ :=
  ⟨[(0, 1)], [(1, 1/2), (2, 1/3)],
   [⟨0, some 7, 1, 1/2⟩, ⟨0, some 7, 2, 1/4⟩, ⟨1, some 8, 1, 1/2⟩, ⟨2, some 8, 1, 1/3⟩,
    ⟨2, some 7, 2, 1/3⟩]⟩

example : exDet.EpsFree := by decide
example : (determinizeN (·⁻¹) exDet 5).isSome = true := by decide +kernel
example : (determinizeN (·⁻¹) exDet 4).isSome = false := by decide +kernel
example : subsetRun (·⁻¹) exDet [7] = ([(1, 2/3), (2, 1/3)], 3/4) := by decide +kernel
example : (determinizeN (·⁻¹) exDet 5).map (fun D => (D.arcs.length, forward D [7, 8, 8]))
    = some (10, 1/12) := by decide +kernel
example : forward exDet [7, 8, 8] = 1/12 := by decide +kernel
example (D : WFSA (List (Nat × ℚ)) Nat ℚ) (h : determinizeN (·⁻¹) exDet 5 = some D) (x : List Nat) :
    forward D x = forward exDet x := det_preserves exDet (by decide) 5 D h x
example (fuel : Nat) : (∃ D, determinizeRun (·⁻¹) exDet fuel = .done D)
    ∨ determinizeRun (·⁻¹) exDet fuel = .outOfFuel :=
  det_no_zeroDiv_of_pos exDet (by decide +kernel)
    (fun i => wlook_nonneg_of _ (by decide +kernel) i) fuel

/-- weights of both signs: after `7` the chart is `{1: 1, 2: -1}` of mass `0`, Python raises
`ZeroDivisionError` (outcome `zeroDiv`) although the string `7` has weight `1`.  Modelling the
failing step as "no arc" would therefore NOT preserve the weights. -/
def exCancel : WFSA Nat Nat ℚ :=
  ⟨[(0, 1)], [(1, 1)], [⟨0, some 7, 1, 1⟩, ⟨0, some 7, 2, -1⟩]⟩

example : isZeroDiv (determinizeRun (·⁻¹) exCancel 10) = true := by decide +kernel
example : forward exCancel [7] = 1 := by decide +kernel

/-- non-negative weights with a dead state (as `push` leaves them: the arc into the state `2` of
backward weight `0` is kept with weight `0`): the chart for `8` is `{2: 0}`, Python raises -/
def exDead : WFSA Nat Nat ℚ :=
  ⟨[(0, 1/2)], [(1, 1)], [⟨0, some 7, 1, 1⟩, ⟨0, some 8, 2, 0⟩]⟩

example : isZeroDiv (determinizeRun (·⁻¹) exDead 10) = true := by decide +kernel

/-- the classical machine without a deterministic equivalent: the loop never ends -/
def exLoop : WFSA Nat Nat ℚ :=
  ⟨[(0, 1)], [(1, 1), (2, 1)],
   [⟨0, some 7, 1, 1⟩, ⟨0, some 7, 2, 1⟩, ⟨1, some 8, 1, 1⟩, ⟨2, some 8, 2, 1/2⟩]⟩

example : isOutOfFuel (determinizeRun (·⁻¹) exLoop 12) = true := by decide +kernel

end DetAux

end Genlm
