import GenlmModel.Proofs.ComposeCore
import GenlmModel.Proofs.ComposeEps
import GenlmModel.Proofs.ComposePrune

/-! `CFG.__matmul__` (grammar ∘ transducer): the weighted Bar-Hillel identity for the models
`composeAll` / `compose` of `Model/Compose.lean`, in every commutative semiring, for every grammar and
every transducer (ε on either tape, ε:ε arcs, cycles, dead states).

Heights change (a terminal leaf of a derivation of `G` becomes the arc rule `(i, a, j) → b`, one level
deeper, while a nullary rule stays at its level; a run of `m` ε-input arcs costs `m` more levels), so
there is NO exact level-wise identity between `WN (composeAll G T)` and `Σ_x WN G n X x * Tk T …` (see
the counterexample `bhShiftG` below); the statements are pairs of bounds in the natural preorder `≼` of
the semiring (`NatLe`, `Proofs/TrimSem.lean`) with explicit level shifts, around the *exact* quantity
`wsum (yields G n X) φ = Σ_x WN G n X x * φ x` (the sum over ALL strings `x`, `Model/Compose.lean`;
`yields_WN`, `yields_sum_le`, `yields_sum_eq` relate it to `WN` and to sums over a candidate list).
Output strings `y : List σ` are read in the composed grammar as `tm y = y.map CSym.term`.

* `compose_epsfree`, `compose_epsfree_ge/le`, `compose_epsfree_item`, `compose_epsfree_terminal`,
  `compose_letter`, and the exact identities `compose_epsfree_exact`, `compose_letter_exact`,
  `compose_epsfree_item_exact` for grammars without nullary rules — no ε on the input tape: `WN H (n+2) start y ≼ Σ_x WN G n S x · TPk T |x| x y
  ≼ WN H (n+3) start y`;
* `compose_eps`, `compose_eps_ge/le` — the general case, through the special rules `a → ε a`,
  `Other(S) → Other(S) ε`: `Σ_x WN G n S x · TPN T m x y ≼ WN H (n+2m+3) start y` and
  `WN H (n+2) start y ≼ Σ_x WN G n S x · TPN T ((n+2)(|x|+1)) x y`; `compose_limit` (equality of the
  limits where `≼` is antisymmetric);
* `compose_eq_composeAll` (`Proofs/ComposePrune.lean`) — restricting the rules to the supported items
  and dropping zero weights changes nothing; `compose_spec`, `compose_spec_epsfree` — the above for
  the grammar Python builds;
* `compose_acceptor`, `compose_acceptor_epsfree`, `compose_string` — the pointwise product.

Side conditions (`ComposeOK`, decidable): no rule of `G` has a terminal head, the start symbol is not a
terminal, and an input label of the transducer that is not a terminal of `G` does not occur in `G` at
all (Python builds the arc rule `(i, a, j) → b` for *every* input label `a`; if `a` is a nonterminal of
`G` these rules add derivations that are not in `Σ_x G(x)·T(x, y)`: example `bhBadG`).

Helpers: `Proofs/ComposeRel.lean` (relation algebra, `Tk_rec`), `Proofs/ComposeStep.lean` (one
unfolding of `WN (composeAll G T)`), `Proofs/ComposeCore.lean` (`yields`, the body lemma `bh_body`,
`bh_lower`, `bh_upper`), `Proofs/ComposeEps.lean` (block decomposition of the ε-runs).
-/
namespace Genlm
set_option linter.unusedSectionVars false
open UnfoldAux WfsaAux FstAux ComposeAux

namespace ComposeAux
/-! ### transducers without ε on the input tape -/
section EpsFree
variable {ι σ K : Type} [DecidableEq ι] [DecidableEq σ] [CommSemiring K]
variable (G : CFG σ K) (T : FST ι σ K)

theorem epsfree_eps (hin : ∀ e ∈ T.arcs, e.inp ≠ none) (n : Nat) (i j : ι) (hi : i ∈ T.states)
    (y : List σ) : WN (composeAll G T) n (.item i .eps j) (tm y) = 0 := by
  cases n with
  | zero => rfl
  | succ n => rw [step_eps G T n i j hi, arcR_zero_of_no_arc T none hin]

theorem epsfree_term (hok : ComposeOK G T) (hin : ∀ e ∈ T.arcs, e.inp ≠ none) (n : Nat) (a : σ)
    (ha : a ∈ G.V) (i j : ι) (hi : i ∈ T.states) (y : List σ) :
    WN (composeAll G T) (n+1) (.item i (.sym a) j) (tm y) = arcR T (some a) i y j := by
  rw [step_sym G T n i j hi, if_pos ha]
  have h1 : G.rules.filter (fun r => r.head = a) = [] := by
    rw [List.filter_eq_nil_iff]
    intro r hr
    simp only [decide_eq_true_eq]
    intro h; exact hok.head_nt r hr (h ▸ ha)
  rw [h1]
  simp only [List.map_nil, List.sum_nil, zero_add]
  have : chainR T.states (hrel (WN (composeAll G T) n)) [.eps, .sym a] i y j = 0 := by
    simp only [chainR]
    apply rcomp_zero_left
    intro u s _
    exact epsfree_eps G T hin n i s hi u
  rw [this, zero_add]

/-- without input ε, `Tk` is the relation of the input string (and forces `k = |x|`) -/
theorem epsfree_Tk (hin : ∀ e ∈ T.arcs, e.inp ≠ none) (k : Nat) (i : ι) (x y : List σ) (j : ι) :
    Tk T k i x y j
      = if k = x.length then seqR T.states (fun a => arcR T (some a)) x i y j else 0 := by
  induction k generalizing i x y with
  | zero =>
    cases x with
    | nil => simp [Tk_zero, seqR, rid]
    | cons a x' => simp [Tk_zero]
  | succ k ih =>
    rw [Tk_rec]
    have h0 : rcomp T.states (arcR T none) (fun s y' j' => Tk T k s x y' j') i y j = 0 :=
      rcomp_zero_left _ _ _ _ _ _ (fun u s _ => arcR_zero_of_no_arc T none hin i s u)
    rw [h0, zero_add]
    cases x with
    | nil => simp
    | cons a x' =>
      simp only [List.length_cons, Nat.add_right_cancel_iff, seqR]
      by_cases hk : k = x'.length
      · rw [if_pos hk]
        apply rcomp_congr
        · intros; rfl
        · intro s _ u; rw [ih, if_pos hk]
      · rw [if_neg hk]
        apply rcomp_zero_right
        intro s _ u; rw [ih, if_neg hk]

theorem epsfree_Tk_len (hin : ∀ e ∈ T.arcs, e.inp ≠ none) (i : ι) (x y : List σ) (j : ι) :
    Tk T x.length i x y j = seqR T.states (fun a => arcR T (some a)) x i y j := by
  rw [epsfree_Tk T hin, if_pos rfl]

/-- **items, lower bound** (no ε on the input tape) -/
theorem compose_epsfree_item_ge (hok : ComposeOK G T) (hin : ∀ e ∈ T.arcs, e.inp ≠ none) (n : Nat)
    (X : σ) (hX : NtOK G T X) (i j : ι) (hi : i ∈ T.states) (hj : j ∈ T.states) (y : List σ) :
    wsum (yields G n X) (fun x => Tk T x.length i x y j)
      ≼ WN (composeAll G T) (n+1) (.item i (.sym X) j) (tm y) := by
  rw [wsum_congr _ (fun x => Tk T x.length i x y j)
    (fun x => seqR T.states (fun a => arcR T (some a)) x i y j)
    (fun p _ => epsfree_Tk_len T hin i p.1 y j)]
  refine bh_lower G T hok (fun a => arcR T (some a)) 1 ?_ n X hX i j hi hj y
  intro a ha i' hi' y' j' _
  exact nle_of_eq (epsfree_term G T hok hin 0 a ha i' j' hi' y').symm

/-- **items, upper bound** (no ε on the input tape) -/
theorem compose_epsfree_item_le (hok : ComposeOK G T) (hin : ∀ e ∈ T.arcs, e.inp ≠ none) (n : Nat)
    (X : σ) (hX : NtOK G T X) (i j : ι) (hi : i ∈ T.states) (hj : j ∈ T.states) (y : List σ) :
    WN (composeAll G T) n (.item i (.sym X) j) (tm y)
      ≼ wsum (yields G n X) (fun x => Tk T x.length i x y j) := by
  rw [wsum_congr _ (fun x => Tk T x.length i x y j)
    (fun x => seqR T.states (fun a => arcR T (some a)) x i y j)
    (fun p _ => epsfree_Tk_len T hin i p.1 y j)]
  refine bh_upper G T hok (fun a => arcR T (some a)) n ?_ n (Nat.le_refl n) X hX i j hi hj y
  intro a ha i' hi' y' j' _
  cases n with
  | zero => exact nle_zero _
  | succ m => exact nle_of_eq (epsfree_term G T hok hin m a ha i' j' hi' y')

/-- **items, exact** (no ε on the input tape, no nullary rule): every derivation tree of `G` of height
`h` becomes a tree of height exactly `h + 1` at the triples -/
theorem epsfree_item_exact (hok : ComposeOK G T) (hin : ∀ e ∈ T.arcs, e.inp ≠ none)
    (hnull : ∀ r ∈ G.rules, r.body ≠ []) (n : Nat) (X : σ) (hX : NtOK G T X) (i j : ι)
    (hi : i ∈ T.states) (hj : j ∈ T.states) (y : List σ) :
    WN (composeAll G T) (n+1) (.item i (.sym X) j) (tm y)
      = wsum (yields G n X) (fun x => Tk T x.length i x y j) := by
  rw [wsum_congr _ (fun x => Tk T x.length i x y j)
    (fun x => seqR T.states (fun a => arcR T (some a)) x i y j)
    (fun p _ => epsfree_Tk_len T hin i p.1 y j)]
  induction n generalizing X i j y with
  | zero =>
    rw [step_nt G T 0 X hX i j hi y]
    simp only [yields, wsum_nil]
    apply sum_map_zero
    intro r hr
    have hb := hnull r (List.mem_filter.mp hr).1
    cases hbody : r.body with
    | nil => exact absurd hbody hb
    | cons Y Ys =>
      simp only [List.map_cons, chainR]
      rw [rcomp_zero_left T.states _ _ i j y (fun _ _ _ => rfl), mul_zero]
  | succ n ih =>
    rw [step_nt G T (n+1) X hX i j hi y,
      bh_step G T.states (nodup_eraseDups _) (fun a => arcR T (some a)) n X i j hi y]
    congr 1; apply List.map_congr_left; intro r hr
    congr 1
    apply chainR_congr _ _ _ _ i j hi y
    intro Y hY s hs u t ht
    obtain ⟨Y0, hY0, rfl⟩ := List.mem_map.mp hY
    have hr' : r ∈ G.rules := (List.mem_filter.mp hr).1
    by_cases hV : Y0 ∈ G.V
    · rw [gρ_term G T.states (nodup_eraseDups _) _ n Y0 hV s t ht u]
      exact epsfree_term G T hok hin n Y0 hV s t hs u
    · rw [gρ_nt G T.states _ n Y0 hV s t u]
      exact ih Y0 (ntOK_body hok r hr' Y0 hY0 hV) s t hs ht u

theorem epsfree_other (hin : ∀ e ∈ T.arcs, e.inp ≠ none) (n : Nat) (i j : ι) (hi : i ∈ T.states)
    (hj : j ∈ T.states) (y : List σ) :
    WN (composeAll G T) (n+1) (.item i .other j) (tm y)
      = WN (composeAll G T) n (.item i (.sym G.S) j) (tm y) := by
  rw [step_other G T n i j hi]
  simp only [chainR]
  rw [comp_rid T.states (nodup_eraseDups _), if_pos hj]
  have : rcomp T.states (hrel (WN (composeAll G T) n) .other)
      (rcomp T.states (hrel (WN (composeAll G T) n) .eps) rid) i y j = 0 := by
    apply rcomp_zero_right
    intro s hs u
    apply rcomp_zero_left
    intro u' t _
    exact epsfree_eps G T hin n s t hs u'
  rw [this, add_zero]
  rfl

theorem epsfree_start (hin : ∀ e ∈ T.arcs, e.inp ≠ none) (n : Nat) (y : List σ) :
    WN (composeAll G T) (n+2) .start (tm y)
      = (T.start.map fun s => (T.stop.map fun t =>
          s.2 * t.2 * WN (composeAll G T) n (.item s.1 (.sym G.S) t.1) (tm y)).sum).sum := by
  rw [step_start]
  congr 1; apply List.map_congr_left; intro s hs
  congr 1; apply List.map_congr_left; intro t ht
  rw [epsfree_other G T hin n s.1 t.1 (FstAux.mem_states_start T s hs) (mem_states_stop T t ht)]

theorem TPk_pair (l : List (List σ × K)) (y : List σ) :
    wsum l (fun x => TPk T x.length x y)
      = (T.start.map fun s => (T.stop.map fun t =>
          s.2 * t.2 * wsum l (fun x => Tk T x.length s.1 x y t.1)).sum).sum := by
  rw [← wsum_pair l T.start T.stop (fun i j x => Tk T x.length i x y j)]
  apply wsum_congr; intro p _
  rw [TPk_eq]

end EpsFree
end ComposeAux

section EpsFreeMain
variable {ι σ K : Type} [DecidableEq ι] [DecidableEq σ] [CommSemiring K]
variable (G : CFG σ K) (T : FST ι σ K)

/-- **Weighted Bar-Hillel, no ε on the input tape** (ε on the output tape allowed): the exact sum
`Σ_x WN G n S x * T(x, y)` over all input strings `x` (an accepting path reading `x` has `|x|` arcs)
lies between the levels `n + 2` and `n + 3` of the composed grammar -/
theorem compose_epsfree (hok : ComposeOK G T) (hin : ∀ e ∈ T.arcs, e.inp ≠ none) (n : Nat)
    (y : List σ) :
    WN (composeAll G T) (n+2) .start (tm y) ≼ wsum (yields G n G.S) (fun x => TPk T x.length x y)
    ∧ wsum (yields G n G.S) (fun x => TPk T x.length x y) ≼ WN (composeAll G T) (n+3) .start (tm y) := by
  rw [TPk_pair, epsfree_start G T hin n y, epsfree_start G T hin (n+1) y]
  constructor
  · apply nle_sum; intro s hs
    apply nle_sum; intro t ht
    apply nle_mul_left
    exact compose_epsfree_item_le G T hok hin n G.S (ntOK_start hok) s.1 t.1
      (FstAux.mem_states_start T s hs) (mem_states_stop T t ht) y
  · apply nle_sum; intro s hs
    apply nle_sum; intro t ht
    apply nle_mul_left
    exact compose_epsfree_item_ge G T hok hin n G.S (ntOK_start hok) s.1 t.1
      (FstAux.mem_states_start T s hs) (mem_states_stop T t ht) y

/-- the triples of a terminal: one arc (any level `≥ 1`) -/
theorem compose_epsfree_terminal (hok : ComposeOK G T) (hin : ∀ e ∈ T.arcs, e.inp ≠ none) (n : Nat)
    (a : σ) (ha : a ∈ G.V) (i j : ι) (hi : i ∈ T.states) (y : List σ) :
    WN (composeAll G T) (n+1) (.item i (.sym a) j) (tm y) = Tk T 1 i [a] y j := by
  rw [epsfree_term G T hok hin n a ha i j hi y, epsfree_Tk T hin 1 i [a] y j]
  simp only [List.length_cons, List.length_nil, if_true, seqR]
  rw [arcR_comp_rid]

/-- the triples of a nonterminal `X` that no arc reads: the exact sum
`Σ_x WN G n X x * Tk T |x| i x y j` over all input strings lies between the levels `n` and `n + 1` -/
theorem compose_epsfree_item (hok : ComposeOK G T) (hin : ∀ e ∈ T.arcs, e.inp ≠ none) (n : Nat)
    (X : σ) (hX : X ∉ G.V) (hXarc : ∀ e ∈ T.arcs, e.inp ≠ some X) (i j : ι) (hi : i ∈ T.states)
    (hj : j ∈ T.states) (y : List σ) :
    WN (composeAll G T) n (.item i (.sym X) j) (tm y)
      ≼ wsum (yields G n X) (fun x => Tk T x.length i x y j)
    ∧ wsum (yields G n X) (fun x => Tk T x.length i x y j)
      ≼ WN (composeAll G T) (n+1) (.item i (.sym X) j) (tm y) :=
  ⟨compose_epsfree_item_le G T hok hin n X ⟨hX, hXarc⟩ i j hi hj y,
   compose_epsfree_item_ge G T hok hin n X ⟨hX, hXarc⟩ i j hi hj y⟩

/-- lower bound over any duplicate-free candidate list of input strings -/
theorem compose_epsfree_ge (hok : ComposeOK G T) (hin : ∀ e ∈ T.arcs, e.inp ≠ none) (n : Nat)
    (y : List σ) (L : List (List σ)) (hL : L.Nodup) :
    (L.map fun x => WN G n G.S x * TPk T x.length x y).sum
      ≼ WN (composeAll G T) (n+3) .start (tm y) :=
  nle_trans (yields_sum_le G n G.S L hL _) (compose_epsfree G T hok hin n y).2

/-- upper bound over the strings of terminals of length at most `N`, for `N` at least the longest
yield of height `≤ n` -/
theorem compose_epsfree_le (hok : ComposeOK G T) (hin : ∀ e ∈ T.arcs, e.inp ≠ none) (n : Nat)
    (y : List σ) (N : Nat) (hN : yieldLen G n G.S ≤ N) :
    WN (composeAll G T) (n+2) .start (tm y)
      ≼ ((strsLe G.V.eraseDups N).map fun x => WN G n G.S x * TPk T x.length x y).sum := by
  rw [yields_sum_eq G n G.S _ (strsLe_nodup _ (nodup_eraseDups _) N) _
    (fun p hp => Or.inl (yields_mem_strsLe G n G.S N hN p hp))]
  exact (compose_epsfree G T hok hin n y).1

/-- without ε on the output tape only the inputs of the length of the output matter -/
theorem ComposeAux.letter_sum (hout : ∀ e ∈ T.arcs, e.out ≠ none) (n : Nat) (y : List σ) :
    ((strsEq G.V.eraseDups y.length).map fun x => WN G n G.S x * TPk T y.length x y).sum
      = wsum (yields G n G.S) (fun x => TPk T x.length x y) := by
  rw [← yields_sum_eq G n G.S (strsEq G.V.eraseDups y.length)
    (strsEq_nodup _ (nodup_eraseDups _) _) _ ?_]
  · congr 1; apply List.map_congr_left; intro x hx
    rw [((mem_strsEq _ _ x).mp hx).1]
  · intro p hp
    by_cases hl : p.1.length = y.length
    · left
      rw [mem_strsEq]
      exact ⟨hl, fun a ha => List.mem_eraseDups.mpr (yields_over G n G.S p hp a ha)⟩
    · right
      exact TPk_out_length_eq T hout p.1.length p.1 y hl

/-- **letter-to-letter transducers** (every arc reads one symbol and writes one symbol): the inputs
have the length of the output -/
theorem compose_letter (hok : ComposeOK G T) (hin : ∀ e ∈ T.arcs, e.inp ≠ none)
    (hout : ∀ e ∈ T.arcs, e.out ≠ none) (n : Nat) (y : List σ) :
    WN (composeAll G T) (n+2) .start (tm y)
      ≼ ((strsEq G.V.eraseDups y.length).map fun x => WN G n G.S x * TPk T y.length x y).sum
    ∧ ((strsEq G.V.eraseDups y.length).map fun x => WN G n G.S x * TPk T y.length x y).sum
      ≼ WN (composeAll G T) (n+3) .start (tm y) := by
  rw [letter_sum G T hout n y]
  exact compose_epsfree G T hok hin n y

/-- **exact identity** (no ε on the input tape, no nullary rule in the grammar): level `n + 3` of the
composed grammar is exactly `Σ_x WN G n S x * T(x, y)`.  The hypothesis on nullary rules cannot be
dropped (`bhShiftG` below). -/
theorem compose_epsfree_exact (hok : ComposeOK G T) (hin : ∀ e ∈ T.arcs, e.inp ≠ none)
    (hnull : ∀ r ∈ G.rules, r.body ≠ []) (n : Nat) (y : List σ) :
    WN (composeAll G T) (n+3) .start (tm y)
      = wsum (yields G n G.S) (fun x => TPk T x.length x y) := by
  rw [TPk_pair, epsfree_start G T hin (n+1) y]
  congr 1; apply List.map_congr_left; intro s hs
  congr 1; apply List.map_congr_left; intro t ht
  rw [epsfree_item_exact G T hok hin hnull n G.S (ntOK_start hok) s.1 t.1
    (FstAux.mem_states_start T s hs) (mem_states_stop T t ht) y]

/-- the same at the triples of a nonterminal `X` that no arc reads -/
theorem compose_epsfree_item_exact (hok : ComposeOK G T) (hin : ∀ e ∈ T.arcs, e.inp ≠ none)
    (hnull : ∀ r ∈ G.rules, r.body ≠ []) (n : Nat) (X : σ) (hX : X ∉ G.V)
    (hXarc : ∀ e ∈ T.arcs, e.inp ≠ some X) (i j : ι) (hi : i ∈ T.states) (hj : j ∈ T.states)
    (y : List σ) :
    WN (composeAll G T) (n+1) (.item i (.sym X) j) (tm y)
      = wsum (yields G n X) (fun x => Tk T x.length i x y j) :=
  epsfree_item_exact G T hok hin hnull n X ⟨hX, hXarc⟩ i j hi hj y

/-- **exact identity, letter-to-letter transducers**: the sum ranges over the strings of terminals of
the length of the output -/
theorem compose_letter_exact (hok : ComposeOK G T) (hin : ∀ e ∈ T.arcs, e.inp ≠ none)
    (hout : ∀ e ∈ T.arcs, e.out ≠ none) (hnull : ∀ r ∈ G.rules, r.body ≠ []) (n : Nat)
    (y : List σ) :
    WN (composeAll G T) (n+3) .start (tm y)
      = ((strsEq G.V.eraseDups y.length).map fun x => WN G n G.S x * TPk T y.length x y).sum := by
  rw [compose_epsfree_exact G T hok hin hnull n y, letter_sum G T hout n y]

end EpsFreeMain

/-! ### ε on both tapes -/
section EpsMain
variable {ι σ K : Type} [DecidableEq ι] [DecidableEq σ] [CommSemiring K]
variable (G : CFG σ K) (T : FST ι σ K)

/-- **Weighted Bar-Hillel, general transducer** (ε on either tape, ε:ε arcs, cycles): the two
level-indexed families `Σ_x WN G n S x * TPN T m x y` (sum over all input strings `x`) and
`WN (composeAll G T) k start y` are cofinal in the natural preorder of the semiring -/
theorem compose_eps (hok : ComposeOK G T) (n m : Nat) (y : List σ) :
    wsum (yields G n G.S) (fun x => TPN T m x y)
      ≼ WN (composeAll G T) (n + 2 * m + 3) .start (tm y)
    ∧ WN (composeAll G T) (n + 2) .start (tm y)
      ≼ wsum (yields G n G.S) (fun x => TPN T ((n + 2) * (x.length + 1)) x y) :=
  ⟨eps_lower G T hok n m y, eps_upper G T hok n y⟩

/-- lower bound over any duplicate-free candidate list of input strings -/
theorem compose_eps_ge (hok : ComposeOK G T) (n m : Nat) (y : List σ) (L : List (List σ))
    (hL : L.Nodup) :
    (L.map fun x => WN G n G.S x * TPN T m x y).sum
      ≼ WN (composeAll G T) (n + 2 * m + 3) .start (tm y) :=
  nle_trans (yields_sum_le G n G.S L hL _) (eps_lower G T hok n m y)

theorem ComposeAux.TPN_mono {m m' : Nat} (h : m ≤ m') (x y : List σ) : TPN T m x y ≼ TPN T m' x y := by
  rw [TPN_pathsLe, TPN_pathsLe]
  apply nle_sum; intro s _
  apply nle_sum; intro t _
  exact nle_mul (nle_mul_left _ (pathsLe_mono T h x s.1 t.1 y)) (nle_refl _)

/-- upper bound over the strings of terminals of length at most `N`, for `N` at least the longest
yield of height `≤ n` -/
theorem compose_eps_le (hok : ComposeOK G T) (n : Nat) (y : List σ) (N : Nat)
    (hN : yieldLen G n G.S ≤ N) :
    WN (composeAll G T) (n + 2) .start (tm y)
      ≼ ((strsLe G.V.eraseDups N).map fun x =>
          WN G n G.S x * TPN T ((n + 2) * (N + 1)) x y).sum := by
  rw [yields_sum_eq G n G.S _ (strsLe_nodup _ (nodup_eraseDups _) N) _
    (fun p hp => Or.inl (yields_mem_strsLe G n G.S N hN p hp))]
  refine nle_trans (eps_upper G T hok n y) ?_
  apply wsum_le
  intro p hp
  apply TPN_mono
  have := Nat.le_trans (yields_length G n G.S p hp) hN
  exact Nat.mul_le_mul_left _ (by omega)

/-- **the limit**: in a semiring whose natural preorder is antisymmetric (ℕ, ℝ≥0, Boolean, tropical, …),
if the transducer side has stabilised at `N0` arcs and the grammar side at height `N0`, the composed
grammar has the same weight from level `3·N0 + 3` on -/
theorem compose_limit (hok : ComposeOK G T) (hanti : ∀ a b : K, a ≼ b → b ≼ a → a = b)
    (y : List σ) (N0 : Nat) (L : K)
    (hT : ∀ x m, N0 ≤ m → TPN T m x y = TPN T N0 x y)
    (hG : ∀ n, N0 ≤ n → wsum (yields G n G.S) (fun x => TPN T N0 x y) = L)
    (k : Nat) (hk : 3 * N0 + 3 ≤ k) : WN (composeAll G T) k .start (tm y) = L := by
  apply hanti
  · obtain ⟨n, rfl⟩ : ∃ n, k = n + 2 := ⟨k - 2, by omega⟩
    have h := eps_upper G T hok n y
    have hb : ∀ l : Nat, N0 ≤ (n + 2) * (l + 1) := fun l =>
      calc N0 ≤ n + 2 := by omega
        _ = (n + 2) * 1 := (Nat.mul_one _).symm
        _ ≤ (n + 2) * (l + 1) := Nat.mul_le_mul_left _ (by omega)
    rw [wsum_congr _ _ (fun x => TPN T N0 x y) (fun p _ => hT p.1 _ (hb _)), hG n (by omega)] at h
    exact h
  · obtain ⟨n, rfl⟩ : ∃ n, k = n + 2 * N0 + 3 := ⟨k - (2 * N0 + 3), by omega⟩
    have h := eps_lower G T hok n N0 y
    rw [hG n (by omega)] at h
    exact h

end EpsMain

/-! ### the grammar Python builds -/
section Python
variable {ι σ K : Type} [DecidableEq ι] [DecidableEq σ] [CommSemiring K] [DecidableEq K]
variable (G : CFG σ K) (T : FST ι σ K)

/-- `compose_eps` for `compose G T` (rules restricted to the supported items, zero weights dropped) -/
theorem compose_spec (hok : ComposeOK G T) (n m : Nat) (y : List σ) :
    wsum (yields G n G.S) (fun x => TPN T m x y)
      ≼ WN (compose G T) (n + 2 * m + 3) (compose G T).S (tm y)
    ∧ WN (compose G T) (n + 2) (compose G T).S (tm y)
      ≼ wsum (yields G n G.S) (fun x => TPN T ((n + 2) * (x.length + 1)) x y) := by
  rw [compose_eq_composeAll_start, compose_eq_composeAll_start]
  exact compose_eps G T hok n m y

/-- `compose_epsfree` for `compose G T` -/
theorem compose_spec_epsfree (hok : ComposeOK G T) (hin : ∀ e ∈ T.arcs, e.inp ≠ none) (n : Nat)
    (y : List σ) :
    WN (compose G T) (n+2) (compose G T).S (tm y)
      ≼ wsum (yields G n G.S) (fun x => TPk T x.length x y)
    ∧ wsum (yields G n G.S) (fun x => TPk T x.length x y)
      ≼ WN (compose G T) (n+3) (compose G T).S (tm y) := by
  rw [compose_eq_composeAll_start, compose_eq_composeAll_start]
  exact compose_epsfree G T hok hin n y

end Python

/-! ### acceptors and strings: the pointwise product -/
section Product
variable {ι σ K : Type} [DecidableEq ι] [DecidableEq σ] [CommSemiring K]
variable (G : CFG σ K)

theorem ComposeAux.wsum_ind_mul (l : List (List σ × K)) (y : List σ) (c : List σ → K) :
    wsum l (fun x => if x = y then c x else 0)
      = wsum l (fun x => if x = y then 1 else 0) * c y := by
  simp only [wsum_eq]
  rw [← List.sum_map_mul_right]
  congr 1; apply List.map_congr_left; intro p _
  by_cases h : p.1 = y
  · simp [h]
  · simp [h]

/-- **grammar ∘ acceptor** (`G @ A`, through `FST.diag`): the pointwise product, in cofinal form -/
theorem compose_acceptor (A : WFSA ι σ K) (hok : ComposeOK G (FST.diag A)) (n m : Nat)
    (y : List σ) :
    WN G n G.S y * PN A m y ≼ WN (composeAll G (FST.diag A)) (n + 2 * m + 3) .start (tm y)
    ∧ WN (composeAll G (FST.diag A)) (n + 2) .start (tm y)
      ≼ WN G n G.S y * PN A ((n + 2) * (y.length + 1)) y := by
  obtain ⟨h1, h2⟩ := compose_eps G (FST.diag A) hok n m y
  constructor
  · have := wsum_ind_mul (yields G n G.S) y (fun x => PN A m x)
    rw [← yields_WN] at this
    rw [← this]
    rw [wsum_congr _ _ (fun x => if x = y then PN A m x else 0) (fun p _ => diag_TPN A m p.1 y)] at h1
    exact h1
  · have := wsum_ind_mul (yields G n G.S) y (fun x => PN A ((n + 2) * (x.length + 1)) x)
    rw [← yields_WN] at this
    rw [← this]
    rw [wsum_congr _ _ (fun x => if x = y then PN A ((n + 2) * (x.length + 1)) x else 0)
      (fun p _ => diag_TPN A _ p.1 y)] at h2
    exact h2

/-- **grammar ∘ ε-free acceptor**: tight levels -/
theorem compose_acceptor_epsfree (A : WFSA ι σ K) (hA : A.EpsFree) (hok : ComposeOK G (FST.diag A))
    (n : Nat) (y : List σ) :
    WN (composeAll G (FST.diag A)) (n + 2) .start (tm y) ≼ WN G n G.S y * Pk A y.length y
    ∧ WN G n G.S y * Pk A y.length y ≼ WN (composeAll G (FST.diag A)) (n + 3) .start (tm y) := by
  have hin : ∀ e ∈ (FST.diag A).arcs, e.inp ≠ none := by
    intro e he
    simp only [FST.diag, List.mem_map] at he
    obtain ⟨e0, he0, rfl⟩ := he
    exact hA e0 he0
  have := wsum_ind_mul (yields G n G.S) y (fun x => Pk A x.length x)
  rw [← yields_WN] at this
  rw [← this]
  have h := compose_epsfree G (FST.diag A) hok hin n y
  rw [wsum_congr _ _ (fun x => if x = y then Pk A x.length x else 0)
    (fun p _ => diag_TPk A _ p.1 y)] at h
  exact h

/-- **grammar ∘ string** (`G @ s`, through `FST.from_string`): only `s` survives, with its weight -/
theorem compose_string (s : List σ) (w : K) (hok : ComposeOK G (FST.fromString s w)) (n : Nat)
    (y : List σ) :
    WN (composeAll G (FST.fromString s w)) (n + 2) .start (tm y)
      ≼ (if y = s then WN G n G.S s * w else 0)
    ∧ (if y = s then WN G n G.S s * w else 0)
      ≼ WN (composeAll G (FST.fromString s w)) (n + 3) .start (tm y) := by
  have hin : ∀ e ∈ (FST.fromString s w).arcs, e.inp ≠ none := by
    intro e he
    simp only [FST.fromString, FST.diag, WFSA.fromString, List.mem_map, List.mem_flatMap] at he
    obtain ⟨e0, ⟨i, _, hi⟩, rfl⟩ := he
    split at hi
    · simp only [List.mem_singleton] at hi; subst hi; simp
    · simp at hi
  have h := compose_epsfree G (FST.fromString s w) hok hin n y
  have hw : wsum (yields G n G.S) (fun x => TPk (FST.fromString s w) x.length x y)
      = if y = s then WN G n G.S s * w else 0 := by
    rw [wsum_congr _ _ (fun x => if x = s then (if y = s then w else 0) else 0)
      (fun p _ => ?_), wsum_ind_mul _ s (fun _ => if y = s then w else 0), ← yields_WN]
    · by_cases hy : y = s <;> simp [hy]
    · rw [fromStringT_TPk]
      by_cases h1 : p.1 = s
      · by_cases h2 : y = s <;> simp [h1, h2]
      · simp [h1]
  rw [hw] at h
  exact h

end Product

/-! ### non-vacuity and counterexamples (weights in `ℕ`) -/
section Examples

/-- `0 → 1 0 (2) | ε (3)`, terminal `1` -/
def bhG : CFG ℕ ℕ := ⟨0, [1], [⟨2, 0, [1, 0]⟩, ⟨3, 0, []⟩]⟩
/-- two states, no ε on the input tape: `0 -1:7-> 0` (2), `0 -1:ε-> 1` (3); initial `0` (1), final `1` (5) -/
def bhT0 : FST ℕ ℕ ℕ :=
  ⟨[(0, 1)], [(1, 5)], [⟨0, some 1, some 7, 0, 2⟩, ⟨0, some 1, none, 1, 3⟩]⟩
/-- the same with the ε-input loop `1 -ε:8-> 1` (1) -/
def bhT : FST ℕ ℕ ℕ :=
  ⟨[(0, 1)], [(1, 5)],
    [⟨0, some 1, some 7, 0, 2⟩, ⟨0, some 1, none, 1, 3⟩, ⟨1, none, some 8, 1, 1⟩]⟩

theorem bhG_bhT0_ok : ComposeOK bhG bhT0 := by decide
theorem bhG_bhT_ok : ComposeOK bhG bhT := by decide

-- the construction: 34 rules over all state tuples, 14 of them over the supported items (as in Python)
example : (composeAll bhG bhT).rules.length = 34 := by decide
set_option maxRecDepth 100000 in
example : (compose bhG bhT).rules.length = 14 := by decide
example : WN (compose bhG bhT0) 5 (compose bhG bhT0).S (tm [7]) = 360 :=
  (compose_eq_composeAll_start bhG bhT0 5 _).trans (by decide)
-- the input `1 1` (weight 2·2·3 = 12) is written `7` along `0 -1:7-> 0 -1:ε-> 1` (1·2·3·5 = 30)
example : WN bhG 3 0 [1, 1] = 12 ∧ TPk bhT0 2 [1, 1] [7] = 30 := by decide
example : wsum (yields bhG 3 0) (fun x => TPk bhT0 x.length x [7]) = 360 := by decide
example : WN (composeAll bhG bhT0) 4 .start (tm [7]) = 0
    ∧ WN (composeAll bhG bhT0) 5 .start (tm [7]) = 360 := by decide
-- `compose_epsfree` at `n = 3` sandwiches 360 between the levels 5 and 6
example : WN (composeAll bhG bhT0) 5 .start (tm [7]) ≼ 360
    ∧ (360 : ℕ) ≼ WN (composeAll bhG bhT0) 6 .start (tm [7]) := by
  have h := compose_epsfree bhG bhT0 bhG_bhT0_ok (by decide) 3 [7]
  rwa [show wsum (yields bhG 3 bhG.S) (fun x => TPk bhT0 x.length x [7]) = 360 by decide] at h
-- with the ε-input loop: `7 8` along `0 -1:7-> 0 -1:ε-> 1 -ε:8-> 1`
example : wsum (yields bhG 3 0) (fun x => TPN bhT 3 x [7, 8]) = 360 := by decide
example : (360 : ℕ) ≼ WN (composeAll bhG bhT) 12 .start (tm [7, 8]) := by
  have h := (compose_eps bhG bhT bhG_bhT_ok 3 3 [7, 8]).1
  rwa [show wsum (yields bhG 3 bhG.S) (fun x => TPN bhT 3 x [7, 8]) = 360 by decide] at h
-- the preorder is antisymmetric on `ℕ`, so `compose_limit` applies there
example : ∀ a b : ℕ, a ≼ b → b ≼ a → a = b := by
  rintro a b ⟨c, rfl⟩ ⟨d, h⟩; omega

/-- `0 → 2 1 | 1`, `2 → ε`: the two derivations of `1` have heights 2 and 1 in the grammar, but both
have height 2 at the triples of the composed grammar -/
def bhShiftG : CFG ℕ ℕ := ⟨0, [1], [⟨1, 0, [2, 1]⟩, ⟨1, 0, [1]⟩, ⟨1, 2, []⟩]⟩
/-- one state, one letter-to-letter arc `0 -1:1-> 0` -/
def bhOneT : FST ℕ ℕ ℕ := ⟨[(0, 1)], [(0, 1)], [⟨0, some 1, some 1, 0, 1⟩]⟩

example : ComposeOK bhShiftG bhOneT := by decide
/-- **no exact level-wise identity**: the levels of the triple `(0, S, 0)` are `0, 0, 2`, those of
`Σ_x WN G n S x · Tk T |y| 0 x y 0` are `0, 1, 2`: neither `WN H n = Σ_n` nor `WN H (n+1) = Σ_n` -/
example :
    (WN (composeAll bhShiftG bhOneT) 1 (.item 0 (.sym 0) 0) (tm [1]) = 0
      ∧ WN (composeAll bhShiftG bhOneT) 2 (.item 0 (.sym 0) 0) (tm [1]) = 2)
    ∧ (WN bhShiftG 1 0 [1] * Tk bhOneT 1 0 [1] [1] 0 = 1
      ∧ WN bhShiftG 2 0 [1] * Tk bhOneT 1 0 [1] [1] 0 = 2) := by decide

/-- a grammar without nullary rules: `0 → 1 0 (2) | 1 (3)`; `compose_letter_exact` applies with
`bhOneT` -/
def bhPlusG : CFG ℕ ℕ := ⟨0, [1], [⟨2, 0, [1, 0]⟩, ⟨3, 0, [1]⟩]⟩
example : WN (composeAll bhPlusG bhOneT) 5 .start (tm [1, 1]) = 6 := by decide
example : WN (composeAll bhPlusG bhOneT) (2 + 3) .start (tm [1, 1])
    = ((strsEq bhPlusG.V.eraseDups 2).map fun x => WN bhPlusG 2 0 x * TPk bhOneT 2 x [1, 1]).sum :=
  compose_letter_exact bhPlusG bhOneT (by decide) (by decide) (by decide) (by decide) 2 [1, 1]

/-- the side condition on the input labels cannot be dropped: the arc `0 -0:9-> 1` reads the
*nonterminal* `0` of `0 → 1`; Python adds the rule `(0, 0, 1) → 9` and the composed grammar generates
`9`, although the transducer accepts no string of the grammar -/
def bhBadT : FST ℕ ℕ ℕ := ⟨[(0, 1)], [(1, 1)], [⟨0, some 0, some 9, 1, 1⟩]⟩
def bhBadG : CFG ℕ ℕ := ⟨0, [1], [⟨1, 0, [1]⟩]⟩
example : ¬ ComposeOK bhBadG bhBadT := by decide
example : WN (composeAll bhBadG bhBadT) 3 .start (tm [9]) = 1
    ∧ wsum (yields bhBadG 3 0) (fun x => TPN bhBadT 3 x [9]) = 0 := by decide

end Examples

end Genlm
