import GenlmModel.Proofs.LimPrefix
import GenlmModel.Proofs.Deriv

/-! # Fixed points, local normalisation and the derivative grammar at the limit (`ℝ≥0∞`)

* `WL_fixpoint`, `ZL_fixpoint` — the limits `WL G` / `ZL G` are fixed points of the one-step maps of the grammar
  (ω-continuity of `+`, `*` on `ℝ≥0∞`); `Wbody_iSupP` is the continuity of a rule body;
* `ln_WN`, `ln_WL`, `ln_WL_ZL`, `ln_heads_sum_one_ZL`, `ln_ZL_one` (C20) — `locally_normalize` with the TRUE total
  weights `Z = ZL G` (one on terminals: `ZLc`): string weights are rescaled by `Z X`, the rule weights of a head sum
  to one, and the normalised grammar has total weight one at every head with `0 < Z X < ∞`;
* `derivative_WL` (C03) — the derivative grammar with the TRUE nullable weights `U y = WL G y []` gives `y` at
  `slash X` exactly the weight `G` gives `a :: y` at `X` (no attainment hypothesis: the upper bound is proved against
  the fixed point `WL G`). -/
namespace Genlm
set_option linter.unusedSectionVars false
open scoped ENNReal
open UnfoldAux Sem2Aux DerivAux LimAux

namespace LimAux
variable {σ : Type} [DecidableEq σ]

/-- list-indexed products of suprema of increasing sequences -/
theorem listProd_iSup_of_monotone {α : Type} (l : List α) (f : α → ℕ → ℝ≥0∞) (hf : ∀ a, Monotone (f a)) :
    (l.map fun a => ⨆ n, f a n).prod = ⨆ n, (l.map fun a => f a n).prod := by
  induction l with
  | nil => simp
  | cons a l ih =>
    simp only [List.map_cons, List.prod_cons]
    rw [ih, iSup_mul_iSup_of_monotone (hf a)]
    intro i j hij
    exact List.prod_le_prod' (fun c _ => hf c hij)

theorem Wsym_monotone (V : List σ) (f : ℕ → σ → List σ → ℝ≥0∞) (hf : ∀ s u, Monotone (fun n => f n s u))
    (s : σ) (u : List σ) : Monotone (fun n => Wsym V (f n) s u) := by
  intro i j hij
  simp only [Wsym]
  split
  · exact le_rfl
  · exact hf s u hij

theorem Wbody_monotone (V : List σ) (f : ℕ → σ → List σ → ℝ≥0∞) (hf : ∀ s u, Monotone (fun n => f n s u))
    (body x : List σ) : Monotone (fun n => Wbody V (f n) body x) := by
  intro i j hij
  exact natLe_iff_le.mp (Wbody_le V (f i) (f j) body (fun s _ u => natLe_iff_le.mpr (hf s u hij)) x)

theorem Wsym_iSupP (V : List σ) (f : ℕ → σ → List σ → ℝ≥0∞) (s : σ) (u : List σ) :
    Wsym V (fun s u => ⨆ n, f n s u) s u = ⨆ n, Wsym V (f n) s u := by
  simp only [Wsym]
  split
  · rw [iSup_const]
  · rfl

/-- **continuity of a rule body**: the weight of a body under the supremum of an increasing sequence of tables is
the supremum of the weights -/
theorem Wbody_iSupP (V : List σ) (f : ℕ → σ → List σ → ℝ≥0∞) (hf : ∀ s u, Monotone (fun n => f n s u))
    (body x : List σ) :
    Wbody V (fun s u => ⨆ n, f n s u) body x = ⨆ n, Wbody V (f n) body x := by
  induction body generalizing x with
  | nil => simp only [Wbody]; rw [iSup_const]
  | cons s ss ih =>
    simp only [Wbody, lsum_eq_sum]
    rw [← listSum_iSup_of_monotone (splits x)
      (fun p n => Wsym V (f n) s p.1 * Wbody V (f n) ss p.2)
      (fun p i j hij => mul_le_mul' (Wsym_monotone V f hf s p.1 hij) (Wbody_monotone V f hf ss p.2 hij))]
    congr 1; apply List.map_congr_left; intro p _
    rw [Wsym_iSupP, ih, iSup_mul_iSup_of_monotone (Wsym_monotone V f hf s p.1) (Wbody_monotone V f hf ss p.2)]

end LimAux

/-! ### the limits are fixed points -/
section Fixpoint
variable {σ : Type} [DecidableEq σ]

/-- **`WL G` is a fixed point of the grammar's one-step map**: the weight of `x` from `X` is the sum over the
rules `X → body` of the rule weight times the weight with which the body yields `x` -/
theorem WL_fixpoint (G : CFG σ ℝ≥0∞) (X : σ) (x : List σ) :
    WL G X x = stepL G.V G.rules (WL G) X x := by
  have hW : WL G = fun s u => ⨆ n, WN G n s u := rfl
  unfold WL
  rw [← Monotone.iSup_nat_add (WN_monotone G X x) 1]
  simp_rw [WN_succ]
  unfold stepL
  rw [← listSum_iSup_of_monotone _ (fun (r : Rule σ ℝ≥0∞) n => r.w * Wbody G.V (WN G n) r.body x)
    (fun r i j hij => mul_le_mul' le_rfl
      (Wbody_monotone G.V (fun n => WN G n) (fun s u => WN_monotone G s u) r.body x hij))]
  congr 1; apply List.map_congr_left; intro r _
  rw [← ENNReal.mul_iSup, ← Wbody_iSupP G.V (fun n => WN G n) (fun s u => WN_monotone G s u)]

/-- **`ZL G` is a fixed point of the polynomial system of the grammar** -/
theorem ZL_fixpoint (G : CFG σ ℝ≥0∞) (X : σ) : ZL G X = znPoly G (ZL G) X := by
  unfold ZL
  rw [← Monotone.iSup_nat_add (ZN_monotone G X) 1]
  simp_rw [ZN_succ]
  unfold znPoly
  have hmono : ∀ y, Monotone (fun n => if y ∈ G.V then (1 : ℝ≥0∞) else ZN G n y) := by
    intro y i j hij
    show (if y ∈ G.V then (1 : ℝ≥0∞) else ZN G i y) ≤ (if y ∈ G.V then (1 : ℝ≥0∞) else ZN G j y)
    split
    · exact le_rfl
    · exact ZN_monotone G y hij
  rw [← listSum_iSup_of_monotone _
    (fun (r : Rule σ ℝ≥0∞) n => r.w * (r.body.map fun y => if y ∈ G.V then (1 : ℝ≥0∞) else ZN G n y).prod)
    (fun r i j hij => mul_le_mul' le_rfl (List.prod_le_prod' (fun y _ => hmono y hij)))]
  congr 1; apply List.map_congr_left; intro r _
  rw [← ENNReal.mul_iSup,
    ← listProd_iSup_of_monotone r.body (fun y n => if y ∈ G.V then (1 : ℝ≥0∞) else ZN G n y) hmono]
  congr 2; apply List.map_congr_left; intro y _
  split
  · rw [iSup_const]
  · rfl

/-- the weight of a string is at most the total weight -/
theorem WL_le_ZL_P (G : CFG σ ℝ≥0∞) (X : σ) (x : List σ) : WL G X x ≤ ZL G X := by
  rw [ZL_eq_tsum_WL_P]; exact ENNReal.le_tsum x

end Fixpoint

/-! ### C20: local normalisation with the true total weights -/
section Norm
variable {σ : Type} [DecidableEq σ] [DecidableEq ℝ≥0∞]

/-- body level (as `ln_Wbody`, which is stated for fields) -/
theorem ln_Wbody' (V : List σ) (f g : σ → List σ → ℝ≥0∞) (Z : σ → ℝ≥0∞)
    (hsym : ∀ s u, Wsym V f s u * Z s = Wsym V g s u) (body x : List σ) :
    Wbody V f body x * (body.map Z).prod = Wbody V g body x := by
  induction body generalizing x with
  | nil => simp [Wbody]
  | cons s ss ih =>
    simp only [Wbody, lsum_eq_sum, List.map_cons, List.prod_cons]
    rw [← List.sum_map_mul_right]
    congr 1
    apply List.map_congr_left
    intro p _
    rw [← hsym s p.1, ← ih p.2]
    ring

/-- rules of a head of non-zero total weight (as `ln_rules_filter`, which is stated for fields) -/
theorem ln_rules_filter' (inv : ℝ≥0∞ → ℝ≥0∞) (G : CFG σ ℝ≥0∞) (Z : σ → ℝ≥0∞) (X : σ) (hX : Z X ≠ 0) :
    (locallyNormalize inv G Z).rules.filter (fun r => decide (r.head = X))
      = (G.rules.filter (fun r => decide (r.head = X))).map fun r =>
          { w := lnWeight inv Z r, head := r.head, body := r.body } := by
  simp only [locallyNormalize, List.filter_map, List.filter_filter]
  congr 1
  apply List.filter_congr
  intro r _
  by_cases h : r.head = X
  · simp [h, hX]
  · simp [h]

/-- **local normalisation, level form over `ℝ≥0∞`**: `Z` is one on terminals, finite, and a symbol with `Z = 0`
derives nothing.  No fixed-point hypothesis on `Z`. -/
theorem ln_WN (G : CFG σ ℝ≥0∞) (Z : σ → ℝ≥0∞) (hV : ∀ a ∈ G.V, Z a = 1)
    (hZ0 : ∀ b, Z b = 0 → ∀ n y, WN G n b y = 0) (hZI : ∀ b, Z b ≠ ∞) (n : Nat) (X : σ) (x : List σ) :
    WN (locallyNormalize (·⁻¹) G Z) n X x * Z X = WN G n X x := by
  induction n generalizing X x with
  | zero => simp [WN]
  | succ n ih =>
    by_cases hX : Z X = 0
    · rw [hX, mul_zero, hZ0 X hX]
    · have hsym : ∀ s u, Wsym G.V (WN (locallyNormalize (·⁻¹) G Z) n) s u * Z s
          = Wsym G.V (WN G n) s u := by
        intro s u
        unfold Wsym
        split
        next h => rw [hV s h, mul_one]
        next => exact ih s u
      have hVV : (locallyNormalize (·⁻¹) G Z).V = G.V := rfl
      simp only [WN, lsum_eq_sum]
      rw [ln_rules_filter' _ G Z X hX, List.map_map, ← List.sum_map_mul_right, hVV]
      congr 1
      apply List.map_congr_left
      intro r hr
      have hh : r.head = X := by simpa using (List.mem_filter.mp hr).2
      simp only [Function.comp_def, lnWeight, lprod_eq_prod]
      rw [← ln_Wbody' G.V _ (WN G n) Z hsym r.body x, hh]
      have h1 := ENNReal.mul_inv_cancel hX (hZI X)
      calc r.w * (r.body.map Z).prod * (Z X)⁻¹
              * Wbody G.V (WN (locallyNormalize (·⁻¹) G Z) n) r.body x * Z X
          = r.w * (Wbody G.V (WN (locallyNormalize (·⁻¹) G Z) n) r.body x * (r.body.map Z).prod)
              * (Z X * (Z X)⁻¹) := by ring
        _ = _ := by rw [h1, mul_one]

/-- **local normalisation at the limit**: string weights (sums over ALL derivation trees) are rescaled by `Z X` -/
theorem ln_WL (G : CFG σ ℝ≥0∞) (Z : σ → ℝ≥0∞) (hV : ∀ a ∈ G.V, Z a = 1)
    (hZ0 : ∀ b, Z b = 0 → ∀ n y, WN G n b y = 0) (hZI : ∀ b, Z b ≠ ∞) (X : σ) (x : List σ) :
    WL (locallyNormalize (·⁻¹) G Z) X x * Z X = WL G X x := by
  unfold WL
  rw [ENNReal.iSup_mul]
  exact iSup_congr fun n => ln_WN G Z hV hZ0 hZI n X x

/-- the chart returned by `agenda()`, at the limit: one on terminals, the total weight `ZL G` elsewhere -/
noncomputable def ZLc (G : CFG σ ℝ≥0∞) (X : σ) : ℝ≥0∞ := if X ∈ G.V then 1 else ZL G X

theorem ZLc_term (G : CFG σ ℝ≥0∞) (a : σ) (ha : a ∈ G.V) : ZLc G a = 1 := if_pos ha
theorem ZLc_nt (G : CFG σ ℝ≥0∞) (X : σ) (hX : X ∉ G.V) : ZLc G X = ZL G X := if_neg hX

/-- a symbol of total weight zero derives nothing -/
theorem WN_eq_zero_of_ZLc (G : CFG σ ℝ≥0∞) (b : σ) (hb : ZLc G b = 0) (n : Nat) (y : List σ) :
    WN G n b y = 0 := by
  unfold ZLc at hb
  split at hb
  · simp at hb
  · exact le_antisymm (hb ▸ (WN_le_WL G n b y).trans (WL_le_ZL_P G b y)) zero_le

/-- `ZLc` satisfies the grammar's equation in the form `locally_normalize` uses (`Z.product(body)` multiplies
over ALL body symbols) -/
theorem ZLc_fixpoint (G : CFG σ ℝ≥0∞) (X : σ) (hX : X ∉ G.V) :
    ZLc G X = ((G.rules.filter (fun r => r.head = X)).map fun r => r.w * (r.body.map (ZLc G)).prod).sum := by
  rw [ZLc_nt G X hX, ZL_fixpoint]
  rfl

/-- **C20 (proportionality) with the true total weights**: if every nonterminal has finite total weight, the
locally normalised grammar gives every string the weight of the original grammar divided by `Z X` -/
theorem ln_WL_ZL (G : CFG σ ℝ≥0∞) (hfin : ∀ b, b ∉ G.V → ZL G b ≠ ∞) (X : σ) (x : List σ) :
    WL (locallyNormalize (·⁻¹) G (ZLc G)) X x * ZLc G X = WL G X x := by
  refine ln_WL G (ZLc G) (ZLc_term G) (WN_eq_zero_of_ZLc G) ?_ X x
  intro b
  unfold ZLc
  split
  · exact ENNReal.one_ne_top
  · next h => exact hfin b h

theorem ln_WL_ZL_div (G : CFG σ ℝ≥0∞) (hfin : ∀ b, b ∉ G.V → ZL G b ≠ ∞) (X : σ) (hX : X ∉ G.V)
    (h0 : ZL G X ≠ 0) (x : List σ) :
    WL (locallyNormalize (·⁻¹) G (ZLc G)) X x = WL G X x / ZL G X := by
  rw [← ln_WL_ZL G hfin X x, ZLc_nt G X hX, ENNReal.mul_div_cancel_right h0 (hfin X hX)]

/-- **C20 (rule weights of a head sum to one)**: at every head of positive finite total weight -/
theorem ln_heads_sum_one_ZL (G : CFG σ ℝ≥0∞) (X : σ) (hX : X ∉ G.V) (h0 : ZL G X ≠ 0) (hI : ZL G X ≠ ∞) :
    (((locallyNormalize (·⁻¹) G (ZLc G)).rules.filter (fun r => r.head = X)).map (·.w)).sum = 1 := by
  have h0' : ZLc G X ≠ 0 := by rw [ZLc_nt G X hX]; exact h0
  have hI' : ZLc G X ≠ ∞ := by rw [ZLc_nt G X hX]; exact hI
  rw [ln_rules_filter' _ G (ZLc G) X h0', List.map_map]
  simp only [Function.comp_def, lnWeight, lprod_eq_prod]
  have hh : ∀ r ∈ G.rules.filter (fun r => decide (r.head = X)),
      r.w * (r.body.map (ZLc G)).prod * (ZLc G r.head)⁻¹ = r.w * (r.body.map (ZLc G)).prod * (ZLc G X)⁻¹ := by
    intro r hr
    have : r.head = X := by simpa using (List.mem_filter.mp hr).2
    rw [this]
  rw [List.map_congr_left hh, List.sum_map_mul_right, ← ZLc_fixpoint G X hX]
  exact ENNReal.mul_inv_cancel h0' hI'

/-- **C20 (the normalised grammar is a probability distribution)**: total weight one at every head of positive
finite total weight -/
theorem ln_ZL_one (G : CFG σ ℝ≥0∞) (hfin : ∀ b, b ∉ G.V → ZL G b ≠ ∞) (X : σ) (hX : X ∉ G.V)
    (h0 : ZL G X ≠ 0) : ZL (locallyNormalize (·⁻¹) G (ZLc G)) X = 1 := by
  rw [ZL_eq_tsum_WL_P]
  simp_rw [ln_WL_ZL_div G hfin X hX h0, div_eq_mul_inv]
  rw [ENNReal.tsum_mul_right, ← ZL_eq_tsum_WL_P]
  exact ENNReal.mul_inv_cancel h0 (hfin X hX)

/-- … and total weight zero at the heads of total weight zero (their rules are skipped) -/
theorem ln_ZL_zero (G : CFG σ ℝ≥0∞) (hfin : ∀ b, b ∉ G.V → ZL G b ≠ ∞) (X : σ) (hX : X ∉ G.V)
    (h0 : ZL G X = 0) : ZL (locallyNormalize (·⁻¹) G (ZLc G)) X = 0 := by
  rw [ZL_eq_tsum_WL_P, ENNReal.tsum_eq_zero]
  intro x
  have h := ln_WL_ZL G hfin X x
  have hz : WL G X x = 0 := le_antisymm (h0 ▸ WL_le_ZL_P G X x) zero_le
  unfold WL
  rw [ENNReal.iSup_eq_zero]
  intro n
  cases n with
  | zero => rfl
  | succ n =>
    simp only [WN, lsum_eq_sum]
    have : (locallyNormalize (·⁻¹) G (ZLc G)).rules.filter (fun r => decide (r.head = X)) = [] := by
      rw [List.filter_eq_nil_iff]
      intro r hr
      simp only [locallyNormalize, List.mem_map, List.mem_filter] at hr
      obtain ⟨r0, ⟨_, hr0⟩, rfl⟩ := hr
      simp only [decide_eq_true_eq]
      intro hh
      simp only [ne_eq, decide_not, Bool.not_eq_eq_eq_not, Bool.not_true, decide_eq_false_iff_not] at hr0
      apply hr0
      rw [hh, ZLc_nt G X hX, h0]
    rw [this]
    simp

/-- the same for the grammar Python really builds (zero-weight rules skipped by `CFG.add`) -/
theorem ln_WL_ZL_drop (G : CFG σ ℝ≥0∞) (hfin : ∀ b, b ∉ G.V → ZL G b ≠ ∞) (X : σ) (x : List σ) :
    WL (locallyNormalizeDrop (·⁻¹) G (ZLc G)) X x * ZLc G X = WL G X x := by
  rw [← ln_WL_ZL G hfin X x]
  congr 1
  exact WL_congr _ _ _ _ _ _ (fun n => WN_dropZero _ n X x)

theorem ln_ZL_one_drop (G : CFG σ ℝ≥0∞) (hfin : ∀ b, b ∉ G.V → ZL G b ≠ ∞) (X : σ) (hX : X ∉ G.V)
    (h0 : ZL G X ≠ 0) : ZL (locallyNormalizeDrop (·⁻¹) G (ZLc G)) X = 1 := by
  rw [ZL_eq_tsum_WL_P, ← ln_ZL_one G hfin X hX h0, ZL_eq_tsum_WL_P]
  refine tsum_congr fun x => ?_
  exact WL_congr _ _ _ _ _ _ (fun n => WN_dropZero _ n X x)

end Norm

/-! ### C03: the derivative grammar with the true nullable weights -/
section Deriv
variable {σ : Type} [DecidableEq σ] [DecidableEq ℝ≥0∞]

/-- the TRUE nullable weights: the total weight of the derivations of the empty string (zero on terminals) -/
noncomputable def nullWLp (G : CFG σ ℝ≥0∞) (y : σ) : ℝ≥0∞ := if y ∈ G.V then 0 else WL G y []

/-- **C03 (derivative) at the limit**: with the true nullable weights `U y = WL G y []`, the derivative grammar
gives `y` at `slash X` exactly the weight `G` gives `a :: y` at `X` — sums over all derivation trees, cyclic
nullable parts included, no attainment or stabilisation hypothesis -/
theorem derivative_WL (slash : σ → σ) (a : σ) (G : CFG σ ℝ≥0∞)
    (hinj : ∀ X Y, slash X = slash Y → X = Y) (hslV : ∀ y, slash y ∉ G.V)
    (hslN : ∀ y, slash y ∉ nonterminals G) (hslB : ∀ y, slash y ∉ bodySyms G) (X : σ) (y : List σ) :
    WL (derivative slash (nullWLp G) a G) (slash X) y = WL G X (a :: y) := by
  apply le_antisymm
  · refine iSup_le fun n => ?_
    induction n generalizing X y with
    | zero => exact zero_le
    | succ n ih =>
      rw [WN_succ]
      show stepL G.V _ _ _ _ ≤ _
      rw [derivative_step slash (nullWLp G) a G hinj hslV hslN, WL_fixpoint G X (a :: y), stepL_eq_ite]
      apply List.sum_le_sum
      intro r hr
      split
      · refine mul_le_mul' le_rfl ?_
        rw [Wbody_cons_eq_DB]
        apply natLe_iff_le.mp
        apply DB_le
        · intro s _
          by_cases hsV : s ∈ G.V
          · simp only [nullWLp, if_pos hsV]; exact zero_le' _
          · simp only [nullWLp, if_neg hsV]; rw [Wsym_nt _ _ _ hsV]; exact le_rfl' _
        · intro s _ _ u; exact natLe_iff_le.mpr (ih s u)
        · intro s hs _ u
          rw [derivative_old slash (nullWLp G) a G hslB n s
            (fun Y e => hslB Y (e ▸ mem_bodySyms.mpr ⟨r, hr, hs⟩)) u]
          exact natLe_iff_le.mpr (WN_le_WL G n s u)
      · exact le_rfl
  · refine iSup_le fun n => le_iSup_of_le n ?_
    apply natLe_iff_le.mp
    apply derivative_le slash (nullWLp G) a G hinj hslV hslN hslB
    intro r _ s _ hsV m
    simp only [nullWLp, if_neg hsV]
    exact natLe_iff_le.mpr (WN_le_WL G m s [])

/-- at the start symbols: the derivative grammar generates `y` with the weight of `a :: y` -/
theorem derivative_WL_start (slash : σ → σ) (a : σ) (G : CFG σ ℝ≥0∞)
    (hinj : ∀ X Y, slash X = slash Y → X = Y) (hslV : ∀ y, slash y ∉ G.V)
    (hslN : ∀ y, slash y ∉ nonterminals G) (hslB : ∀ y, slash y ∉ bodySyms G) (y : List σ) :
    WL (derivative slash (nullWLp G) a G) (derivative slash (nullWLp G) a G).S y = WL G G.S (a :: y) :=
  derivative_WL slash a G hinj hslV hslN hslB G.S y

end Deriv

/-! ### non-vacuity: `limG` (`S → a S (1/2) | ε (1/2)`, infinitely many strings) -/
section Examples
variable [DecidableEq ℝ≥0∞]

theorem limG_fin : ∀ b, b ∉ limG.V → ZL limG b ≠ ∞ := by
  intro b _
  by_cases hb : b = 0
  · subst hb; exact limG_ZL_ne_top
  · have : ZL limG b = 0 := by
      unfold ZL
      rw [ENNReal.iSup_eq_zero]
      intro n
      apply ZN_of_not_head
      simp [heads, limG, hb]
    rw [this]; exact ENNReal.zero_ne_top

theorem limG_ZL_ne_zero : ZL limG 0 ≠ 0 := by
  intro h
  have h1 : ZN limG 1 0 ≤ ZL limG 0 := le_iSup (fun n => ZN limG n 0) 1
  rw [h, nonpos_iff_eq_zero] at h1
  have : ZN limG 1 0 = 2⁻¹ := by simp [ZN, limG, lsum, lprod]
  rw [this] at h1
  simp at h1

/-- all hypotheses of the local-normalisation theorems hold for `limG` at its start symbol -/
example (x : List ℕ) :
    WL (locallyNormalize (·⁻¹) limG (ZLc limG)) 0 x = WL limG 0 x / ZL limG 0 :=
  ln_WL_ZL_div limG limG_fin 0 (by simp [limG]) limG_ZL_ne_zero x
example : ZL (locallyNormalize (·⁻¹) limG (ZLc limG)) 0 = 1 :=
  ln_ZL_one limG limG_fin 0 (by simp [limG]) limG_ZL_ne_zero
example : (((locallyNormalize (·⁻¹) limG (ZLc limG)).rules.filter (fun r => r.head = 0)).map (·.w)).sum = 1 :=
  ln_heads_sum_one_ZL limG 0 (by simp [limG]) limG_ZL_ne_zero limG_ZL_ne_top

/-- the derivative of `limG` by the token `a = 1` with `slash = (· + 100)`: the hypotheses on `slash` hold, and
the value is not `0 = 0` (`WL limG S [a] ≥ 1/4`) -/
example : WL (derivative (· + 100) (nullWLp limG) 1 limG) 100 [] = WL limG 0 [1] := by
  refine derivative_WL (· + 100) 1 limG (by intro X Y h; omega) (by intro y; simp [limG]) ?_ ?_ 0 []
  · intro y h
    rcases mem_nonterminals.mp h with h | ⟨r, hr, h⟩
    · simp [limG] at h
    · simp only [limG, List.mem_cons, List.not_mem_nil, or_false] at hr
      rcases hr with rfl | rfl <;> simp at h
  · intro y h
    obtain ⟨r, hr, h⟩ := mem_bodySyms.mp h
    simp only [limG, List.mem_cons, List.not_mem_nil, or_false] at hr
    rcases hr with rfl | rfl <;> simp at h

end Examples

end Genlm
