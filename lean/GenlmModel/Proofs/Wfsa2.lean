import GenlmModel.Model.WfsaOps2
import GenlmModel.Proofs.Wfsa
import GenlmModel.Proofs.Horn
import Mathlib.Algebra.BigOperators.Group.List.Basic
import Mathlib.Algebra.BigOperators.Ring.List
import Mathlib.Algebra.Field.Basic
import Mathlib.Algebra.Order.Field.Rat
import Mathlib.Algebra.Order.BigOperators.Group.List
import Mathlib.Logic.Relation
import Mathlib.Tactic.Ring
import GenlmModel.Proofs.Basic
import Mathlib.Algebra.Ring.Defs
import Mathlib.Algebra.Ring.Nat
import Mathlib.Data.List.Infix
import Mathlib.Data.List.Nodup
/-! Correctness of the WFSA mirror models of `Model/WfsaOps2.lean` (`genlm/grammar/wfsa/base.py`:
`push`, `accessible`, `co_accessible`, `_trim`, `trim`, `trim_vals`, `total_weight`, `epsremove`,
`to_cfg`, `to_bytes`) against the path-sum specification `Qk` / `Pk` / `PN` of `Model/Wfsa.lean`
and the derivation-tree specification `WN` of `Model/Basic.lean`.

Part 1 (this header): `push`, `trim`.
* `Bk`, `Bk_zero`, `Bk_succ`, `Pk_eq_states_Bk` — stratified backward sums;
* `push_preserves` (+ `_PN`, `_of_coacc`, `_nonneg`), `push_Qk`, `push_Qk_closed`, `push_stochastic`, `push_start_sum` — weight pushing;
* `mem_accessible`, `mem_coaccessible` — the graph searches compute reachability (`Relation.ReflTransGen`);
* `trimTo_Pk`, `wfsa_trim_Pk`, `wfsa_trim_PN`, `wfsa_trim_useful`, `trimVals_Pk_nonneg` — trimming;
* counterexample `exPushBad`: with weights of both signs `push` (with `V = backward`) can lose strings.
The other parts carry their own headers below. -/
namespace Genlm
open WfsaAux

/-! ### helpers (in `Genlm.Wfsa2Aux`, opened below) -/
namespace Wfsa2Aux

section Sums
variable {K : Type} [CommSemiring K]

/-- two duplicate-free index lists give the same sum when the summand vanishes off their intersection -/
theorem sum_nodup_restrict {α : Type} [DecidableEq α] (l m : List α) (hl : l.Nodup) (hm : m.Nodup)
    (f : α → K) (h1 : ∀ i ∈ l, i ∉ m → f i = 0) (h2 : ∀ i ∈ m, i ∉ l → f i = 0) :
    (l.map f).sum = (m.map f).sum := by
  have e1 : (l.map f).sum = (l.map fun i => (m.map fun j => if i = j then f j else 0).sum).sum := by
    apply congrArg
    apply List.map_congr_left
    intro i hi
    rw [sum_ite_eq_nodup m hm i f]
    by_cases him : i ∈ m
    · rw [if_pos him]
    · rw [if_neg him, h1 i hi him]
  have e2 : (m.map f).sum = (m.map fun j => (l.map fun i => if i = j then f j else 0).sum).sum := by
    apply congrArg
    apply List.map_congr_left
    intro j hj
    have : (l.map fun i => if i = j then f j else 0) = (l.map fun i => if j = i then f i else 0) := by
      apply List.map_congr_left
      intro i _
      by_cases hij : i = j
      · subst hij; simp
      · have : ¬ j = i := fun h => hij h.symm
        simp [hij, this]
    rw [this, sum_ite_eq_nodup l hl j f]
    by_cases hjl : j ∈ l
    · rw [if_pos hjl]
    · rw [if_neg hjl, h2 j hj hjl]
  rw [e1, e2, sum_swap]

end Sums

section Lists
variable {ι σ K : Type} [DecidableEq ι]

/-- arcs grouped by source over a duplicate-free list of sources: selecting one source -/
theorem filter_src_flatMap (l : List ι) (hl : l.Nodup) (g : ι → List (Arc ι σ K))
    (hg : ∀ i, ∀ e ∈ g i, e.src = i) (i0 : ι) :
    (l.flatMap g).filter (fun e => e.src = i0) = if i0 ∈ l then g i0 else [] := by
  induction l with
  | nil => simp
  | cons a l ih =>
    rw [List.nodup_cons] at hl
    rw [List.flatMap_cons, List.filter_append, ih hl.2]
    by_cases ha : a = i0
    · subst ha
      have h1 : (g a).filter (fun e => e.src = a) = g a := by
        rw [List.filter_eq_self]
        intro e he
        simp [hg a e he]
      simp [h1, hl.1]
    · have h1 : (g a).filter (fun e => e.src = i0) = [] := by
        rw [List.filter_eq_nil_iff]
        intro e he
        simp [hg a e he, ha]
      have h2 : (i0 ∈ a :: l) ↔ i0 ∈ l := by
        rw [List.mem_cons]
        exact ⟨fun h => h.resolve_left (fun h' => ha h'.symm), Or.inr⟩
      simp only [h1, List.nil_append, h2]

end Lists

section Chart
variable {ι K : Type} [DecidableEq ι] [CommSemiring K]

theorem wlook_eq_zero (l : List (ι × K)) (i : ι) (h : ∀ q ∈ l, q.1 ≠ i) : wlook l i = 0 := by
  rw [wlook_eq_sum_ite]
  apply sum_map_zero
  intro q hq
  simp [h q hq]

theorem mem_of_wlook_ne_zero (l : List (ι × K)) (i : ι) (h : wlook l i ≠ 0) : ∃ q ∈ l, q.1 = i := by
  by_contra hc
  exact h (wlook_eq_zero l i (fun q hq hqi => hc ⟨q, hq, hqi⟩))

/-- a chart written as `keys.map (i ↦ (i, β i))` over duplicate-free keys -/
theorem wlook_map_nodup (ks : List ι) (hks : ks.Nodup) (β : ι → K) (i : ι) :
    wlook (ks.map fun j => (j, β j)) i = if i ∈ ks then β i else 0 := by
  rw [wlook_eq_sum_ite, List.map_map]
  have : ((fun p : ι × K => if p.1 = i then p.2 else 0) ∘ fun j => (j, β j))
      = fun j => if i = j then β j else 0 := by
    funext j
    by_cases hij : j = i
    · subst hij; simp
    · have : ¬ i = j := fun h => hij h.symm
      simp [hij, this]
  rw [this, sum_ite_eq_nodup ks hks i β]

end Chart
end Wfsa2Aux
open Wfsa2Aux

/-! ### backward (suffix) sums -/
section Bk
variable {ι σ K : Type} [DecidableEq ι] [DecidableEq σ] [CommSemiring K]

/-- `Bk A k i x`: total weight of the paths of exactly `k` arcs from `i` spelling `x`, final weight
included (the stratified backward weight of `i`) -/
def Bk (A : WFSA ι σ K) (k : Nat) (i : ι) (x : List σ) : K :=
  (A.stop.map fun f => Qk A k i x f.1 * f.2).sum

theorem Bk_zero (A : WFSA ι σ K) (i : ι) (x : List σ) :
    Bk A 0 i x = if x = [] then wlook A.stop i else 0 := by
  unfold Bk
  by_cases hx : x = []
  · rw [if_pos hx, wlook_eq_sum_ite]
    apply congrArg
    apply List.map_congr_left
    intro f _
    by_cases h : f.1 = i
    · simp [Qk_zero, h, hx]
    · have h' : ¬ i = f.1 := fun h'' => h h''.symm
      simp [Qk_zero, h, h']
  · rw [if_neg hx]
    apply sum_map_zero
    intro f _
    simp [Qk_zero, hx]

theorem Bk_succ (A : WFSA ι σ K) (k : Nat) (i : ι) (x : List σ) :
    Bk A (k+1) i x = ((A.arcs.filter (fun e => e.src = i)).map fun e =>
      ((lpeel e.lbl x).map fun x' => e.w * Bk A k e.dst x').sum).sum := by
  unfold Bk
  simp only [Qk_succ, ← List.sum_map_mul_right, ← List.sum_map_mul_left]
  rw [sum_swap]
  apply congrArg
  apply List.map_congr_left
  intro e _
  rw [sum_swap]
  apply congrArg
  apply List.map_congr_left
  intro x' _
  apply congrArg
  apply List.map_congr_left
  intro f _
  rw [mul_assoc]

theorem Pk_eq_Bk (A : WFSA ι σ K) (k : Nat) (x : List σ) :
    Pk A k x = (A.start.map fun s => s.2 * Bk A k s.1 x).sum := by
  rw [Pk_eq]
  apply congrArg
  apply List.map_congr_left
  intro s _
  unfold Bk
  rw [← List.sum_map_mul_left]
  apply congrArg
  apply List.map_congr_left
  intro f _
  rw [mul_assoc]

omit [DecidableEq σ] [CommSemiring K] in
theorem mem_states_iff (A : WFSA ι σ K) (i : ι) :
    i ∈ A.states ↔ (∃ s ∈ A.start, s.1 = i) ∨ (∃ f ∈ A.stop, f.1 = i)
      ∨ ∃ e ∈ A.arcs, e.src = i ∨ e.dst = i := by
  simp only [WFSA.states, List.mem_eraseDups, List.mem_append, List.mem_map, List.mem_flatMap,
    List.mem_cons, List.not_mem_nil, or_false, or_assoc]
  constructor
  · rintro (h | h | ⟨e, he, h⟩)
    · exact Or.inl h
    · exact Or.inr (Or.inl h)
    · exact Or.inr (Or.inr ⟨e, he, h.imp Eq.symm Eq.symm⟩)
  · rintro (h | h | ⟨e, he, h⟩)
    · exact Or.inl h
    · exact Or.inr (Or.inl h)
    · exact Or.inr (Or.inr ⟨e, he, h.imp Eq.symm Eq.symm⟩)

omit [DecidableEq σ] [CommSemiring K] in
theorem mem_states_src (A : WFSA ι σ K) (e : Arc ι σ K) (h : e ∈ A.arcs) : e.src ∈ A.states :=
  (mem_states_iff A _).mpr (Or.inr (Or.inr ⟨e, h, Or.inl rfl⟩))

omit [DecidableEq σ] [CommSemiring K] in
theorem mem_states_stop (A : WFSA ι σ K) (f : ι × K) (h : f ∈ A.stop) : f.1 ∈ A.states :=
  (mem_states_iff A _).mpr (Or.inr (Or.inl ⟨f, h, rfl⟩))

omit [DecidableEq σ] [CommSemiring K] in
theorem nodup_states (A : WFSA ι σ K) : A.states.Nodup := nodup_eraseDups _

/-- the accepting weight only depends on the accumulated initial weights -/
theorem Pk_eq_states_Bk (A : WFSA ι σ K) (k : Nat) (x : List σ) :
    Pk A k x = (A.states.map fun i => wlook A.start i * Bk A k i x).sum := by
  rw [Pk_eq_Bk]
  exact sum_eq_sum_wlook A.start A.states (nodup_states A) (fun s hs => mem_states_start A s hs)
    (fun i => Bk A k i x)

omit [DecidableEq σ] in
/-- `total_weight` is `Σ_s start(s) · b(s)` over the initial entries -/
theorem totalWeight_eq (A : WFSA ι σ K) (b : ι → K) :
    A.totalWeight b = (A.start.map fun s => s.2 * b s.1).sum := by
  rw [WFSA.totalWeight, lsum_eq_sum]
  exact (sum_eq_sum_wlook A.start _ (nodup_eraseDups _) (fun s hs => by
    rw [List.mem_eraseDups]; exact List.mem_map_of_mem hs) b).symm

end Bk

/-! ### `push` -/
section Push
variable {ι σ K : Type} [DecidableEq ι] [DecidableEq σ] [DecidableEq K]

omit [DecidableEq σ] in
theorem mem_live [Zero K] (A : WFSA ι σ K) (V : ι → K) (i : ι) :
    i ∈ A.live V ↔ i ∈ A.states ∧ V i ≠ 0 := by
  simp [WFSA.live]

omit [DecidableEq σ] in
theorem nodup_live [Zero K] (A : WFSA ι σ K) (V : ι → K) : (A.live V).Nodup :=
  (nodup_states A).filter _

variable [Field K]

omit [DecidableEq σ] in
theorem push_arcs_filter (A : WFSA ι σ K) (V : ι → K) (i : ι) (hi : i ∈ A.live V) :
    (A.push (·⁻¹) V).arcs.filter (fun e => e.src = i)
      = (A.arcs.filter fun e => e.src = i).map fun e => ⟨i, e.lbl, e.dst, (V i)⁻¹ * e.w * V e.dst⟩ := by
  have := filter_src_flatMap (A.live V) (nodup_live A V)
    (fun i => (A.arcs.filter fun e => e.src = i).map fun e =>
      (⟨i, e.lbl, e.dst, (V i)⁻¹ * e.w * V e.dst⟩ : Arc ι σ K))
    (by
      intro j e he
      obtain ⟨e', _, rfl⟩ := List.mem_map.mp he
      rfl) i
  rw [if_pos hi] at this
  exact this

omit [DecidableEq σ] in
theorem push_wlook_stop (A : WFSA ι σ K) (V : ι → K) (i : ι) :
    wlook (A.push (·⁻¹) V).stop i = if i ∈ A.live V then (V i)⁻¹ * wlook A.stop i else 0 :=
  wlook_map_nodup (A.live V) (nodup_live A V) (fun i => (V i)⁻¹ * wlook A.stop i) i

/-- the backward sums of the live states are rescaled by `(V i)⁻¹`, provided the states with
`V = 0` accept nothing -/
theorem push_Bk (A : WFSA ι σ K) (V : ι → K)
    (hdead : ∀ i ∈ A.states, V i = 0 → ∀ k x, Bk A k i x = 0)
    (k : Nat) (i : ι) (x : List σ) (hi : i ∈ A.states) (hVi : V i ≠ 0) :
    Bk (A.push (·⁻¹) V) k i x = (V i)⁻¹ * Bk A k i x := by
  have hlive : i ∈ A.live V := (mem_live A V i).mpr ⟨hi, hVi⟩
  induction k generalizing i x with
  | zero =>
    rw [Bk_zero, Bk_zero, push_wlook_stop, if_pos hlive]
    by_cases hx : x = [] <;> simp [hx]
  | succ k ih =>
    rw [Bk_succ, Bk_succ, push_arcs_filter A V i hlive, List.map_map, ← List.sum_map_mul_left]
    apply congrArg
    apply List.map_congr_left
    intro e he
    have he' := (List.mem_filter.mp he).1
    simp only [Function.comp_def]
    rw [← List.sum_map_mul_left]
    apply congrArg
    apply List.map_congr_left
    intro x' _
    have hd := mem_states_dst A e he'
    by_cases hVd : V e.dst = 0
    · rw [hVd, hdead e.dst hd hVd k x']
      simp
    · rw [ih e.dst x' hd hVd ((mem_live A V _).mpr ⟨hd, hVd⟩)]
      have : V e.dst * (V e.dst)⁻¹ = 1 := mul_inv_cancel₀ hVd
      calc (V i)⁻¹ * e.w * V e.dst * ((V e.dst)⁻¹ * Bk A k e.dst x')
          = (V i)⁻¹ * e.w * (V e.dst * (V e.dst)⁻¹) * Bk A k e.dst x' := by ring
        _ = (V i)⁻¹ * (e.w * Bk A k e.dst x') := by rw [this]; ring

/-- **weight pushing preserves the weight of every string** (stratum by stratum), for any potential
`V` such that the states with `V = 0` accept nothing (true of `V = backward` over non-negative
weights; see the counterexample `exPushBad` below for why the hypothesis is needed) -/
theorem push_preserves (A : WFSA ι σ K) (V : ι → K)
    (hdead : ∀ i ∈ A.states, V i = 0 → ∀ k x, Bk A k i x = 0) (k : Nat) (x : List σ) :
    Pk (A.push (·⁻¹) V) k x = Pk A k x := by
  rw [Pk_eq_states_Bk A, Pk_eq_Bk]
  have hstart : (A.push (·⁻¹) V).start = (A.live V).map fun i => (i, wlook A.start i * V i) := rfl
  rw [hstart, List.map_map, WFSA.live, sum_filter_ite]
  apply congrArg
  apply List.map_congr_left
  intro i hi
  simp only [Function.comp_def, decide_eq_true_eq]
  by_cases hVi : V i = 0
  · simp [hVi, hdead i hi hVi k x]
  · rw [if_pos hVi, push_Bk A V hdead k i x hi hVi]
    have : V i * (V i)⁻¹ = 1 := mul_inv_cancel₀ hVi
    calc wlook A.start i * V i * ((V i)⁻¹ * Bk A k i x)
        = wlook A.start i * (V i * (V i)⁻¹) * Bk A k i x := by ring
      _ = wlook A.start i * Bk A k i x := by rw [this]; ring

theorem push_preserves_PN (A : WFSA ι σ K) (V : ι → K)
    (hdead : ∀ i ∈ A.states, V i = 0 → ∀ k x, Bk A k i x = 0) (n : Nat) (x : List σ) :
    PN (A.push (·⁻¹) V) n x = PN A n x := by
  simp only [PN_eq, push_preserves A V hdead]

omit [DecidableEq σ] in
/-- **the pushed machine is stochastic**: if `V` solves the backward equation at `i` and `V i ≠ 0`,
the final weight of `i` plus the weights of the arcs leaving `i` sum to one -/
theorem push_stochastic (A : WFSA ι σ K) (V : ι → K) (i : ι)
    (hV : V i = wlook A.stop i + ((A.arcs.filter fun e => e.src = i).map fun e => e.w * V e.dst).sum)
    (hVi : V i ≠ 0) :
    wlook (A.push (·⁻¹) V).stop i
      + (((A.push (·⁻¹) V).arcs.filter fun e => e.src = i).map (·.w)).sum = 1 := by
  have hi : i ∈ A.states := by
    by_contra hni
    apply hVi
    rw [hV, wlook_eq_zero A.stop i (fun f hf hfi => hni (hfi ▸ mem_states_stop A f hf))]
    have : A.arcs.filter (fun e => e.src = i) = [] := by
      rw [List.filter_eq_nil_iff]
      intro e he
      have : e.src ≠ i := fun h => hni (h ▸ mem_states_src A e he)
      simp [this]
    simp [this]
  have hlive : i ∈ A.live V := (mem_live A V i).mpr ⟨hi, hVi⟩
  rw [push_wlook_stop, if_pos hlive, push_arcs_filter A V i hlive, List.map_map]
  have : (((fun e : Arc ι σ K => e.w) ∘ fun e : Arc ι σ K =>
        (⟨i, e.lbl, e.dst, (V i)⁻¹ * e.w * V e.dst⟩ : Arc ι σ K)))
      = fun e => (V i)⁻¹ * (e.w * V e.dst) := by
    funext e; simp only [Function.comp_def]; ring
  rw [this, List.sum_map_mul_left, ← mul_add, ← hV]
  exact inv_mul_cancel₀ hVi

end Push

/-! ### `accessible`, `co_accessible`, `_trim`, `trim` -/
section Trim
variable {ι σ K : Type} [DecidableEq ι] [DecidableEq σ] [DecidableEq K]

/-- one arc (of any weight) from `a` to `b` -/
def WFSA.Step (A : WFSA ι σ K) (a b : ι) : Prop := ∃ e ∈ A.arcs, e.src = a ∧ e.dst = b

variable [CommSemiring K]

/-- reachable from a state with non-zero (accumulated) initial weight -/
def WFSA.Reach (A : WFSA ι σ K) (i : ι) : Prop :=
  ∃ s, wlook A.start s ≠ 0 ∧ Relation.ReflTransGen A.Step s i

/-- some state with non-zero (accumulated) final weight is reachable -/
def WFSA.CoReach (A : WFSA ι σ K) (i : ι) : Prop :=
  ∃ f, wlook A.stop f ≠ 0 ∧ Relation.ReflTransGen A.Step i f

omit [DecidableEq σ] in
theorem acc_of_start (A : WFSA ι σ K) (i : ι) (h : wlook A.start i ≠ 0) : i ∈ A.accessible := by
  rw [WFSA.accessible, hlfp_spec]
  obtain ⟨s, hs, rfl⟩ := mem_of_wlook_ne_zero A.start i h
  refine Derivable.fire ⟨[], s.1⟩ ?_ (by simp)
  simp only [WFSA.accClauses, List.mem_append, List.mem_map, List.mem_filter]
  exact Or.inl ⟨s, ⟨hs, by simpa using h⟩, rfl⟩

omit [DecidableEq σ] in
theorem acc_closed (A : WFSA ι σ K) (e : Arc ι σ K) (he : e ∈ A.arcs) (h : e.src ∈ A.accessible) :
    e.dst ∈ A.accessible := by
  rw [WFSA.accessible, hlfp_spec] at h ⊢
  refine Derivable.fire ⟨[e.src], e.dst⟩ ?_ (by simpa using h)
  simp only [WFSA.accClauses, List.mem_append, List.mem_map]
  exact Or.inr ⟨e, he, rfl⟩

omit [DecidableEq σ] in
/-- **`accessible` computes reachability from the initial states** -/
theorem mem_accessible (A : WFSA ι σ K) (i : ι) : i ∈ A.accessible ↔ A.Reach i := by
  constructor
  · intro h
    rw [WFSA.accessible, hlfp_spec] at h
    induction h with
    | fire c hc _ ih =>
      simp only [WFSA.accClauses, List.mem_append, List.mem_map, List.mem_filter] at hc
      rcases hc with ⟨s, ⟨_, hs⟩, rfl⟩ | ⟨e, he, rfl⟩
      · exact ⟨s.1, by simpa using hs, Relation.ReflTransGen.refl⟩
      · obtain ⟨s, hs, hp⟩ := ih e.src (by simp)
        exact ⟨s, hs, hp.tail ⟨e, he, rfl, rfl⟩⟩
  · rintro ⟨s, hs, hp⟩
    induction hp with
    | refl => exact acc_of_start A s hs
    | tail _ hstep ih =>
      obtain ⟨e, he, rfl, rfl⟩ := hstep
      exact acc_closed A e he ih

omit [DecidableEq ι] [DecidableEq σ] [DecidableEq K] [CommSemiring K] in
theorem reverse_Step (A : WFSA ι σ K) (a b : ι) : A.reverse.Step a b ↔ A.Step b a := by
  simp only [WFSA.Step, WFSA.reverse, List.mem_map]
  constructor
  · rintro ⟨_, ⟨e, he, rfl⟩, rfl, rfl⟩; exact ⟨e, he, rfl, rfl⟩
  · rintro ⟨e, he, rfl, rfl⟩; exact ⟨_, ⟨e, he, rfl⟩, rfl, rfl⟩

omit [DecidableEq σ] in
/-- **`co_accessible` computes reachability of the final states** -/
theorem mem_coaccessible (A : WFSA ι σ K) (i : ι) : i ∈ A.coaccessible ↔ A.CoReach i := by
  rw [WFSA.coaccessible, mem_accessible]
  have hswap : A.reverse.Step = Function.swap A.Step := by
    funext a b; exact propext (reverse_Step A a b)
  simp only [WFSA.Reach, WFSA.CoReach, hswap, Relation.reflTransGen_swap]
  rfl

omit [DecidableEq σ] in
theorem coacc_of_stop (A : WFSA ι σ K) (i : ι) (h : wlook A.stop i ≠ 0) : i ∈ A.coaccessible :=
  acc_of_start A.reverse i h

omit [DecidableEq σ] in
theorem coacc_closed (A : WFSA ι σ K) (e : Arc ι σ K) (he : e ∈ A.arcs) (h : e.dst ∈ A.coaccessible) :
    e.src ∈ A.coaccessible :=
  acc_closed A.reverse ⟨e.dst, e.lbl, e.src, e.w⟩ (List.mem_map.mpr ⟨e, he, rfl⟩) h

/-- a state that is not co-accessible accepts nothing -/
theorem Bk_of_not_coacc (A : WFSA ι σ K) (k : Nat) (i : ι) (x : List σ) (h : i ∉ A.coaccessible) :
    Bk A k i x = 0 := by
  induction k generalizing i x with
  | zero =>
    rw [Bk_zero]
    have : wlook A.stop i = 0 := by
      by_contra hne
      exact h (coacc_of_stop A i hne)
    simp [this]
  | succ k ih =>
    rw [Bk_succ]
    apply sum_map_zero
    intro e he
    have he' := List.mem_filter.mp he
    have hsrc : e.src = i := by simpa using he'.2
    have hd : e.dst ∉ A.coaccessible := fun hd => h (hsrc ▸ coacc_closed A e he'.1 hd)
    apply sum_map_zero
    intro x' _
    rw [ih e.dst x' hd, mul_zero]

omit [DecidableEq σ] [DecidableEq K] in
theorem trimTo_arcs_filter (A : WFSA ι σ K) (act : List ι) (i : ι) (hi : i ∈ act) :
    (A.trimTo act).arcs.filter (fun e => e.src = i)
      = A.arcs.filter fun e => e.src = i ∧ e.dst ∈ act := by
  have := filter_src_flatMap act.eraseDups (nodup_eraseDups act)
    (fun i => A.arcs.filter fun e => e.src = i ∧ e.dst ∈ act)
    (by
      intro j e he
      have := (List.mem_filter.mp he).2
      simp only [decide_eq_true_eq] at this
      exact this.1) i
  rw [if_pos (List.mem_eraseDups.mpr hi)] at this
  exact this

omit [DecidableEq σ] [DecidableEq K] in
theorem trimTo_wlook_stop (A : WFSA ι σ K) (act : List ι) (i : ι) :
    wlook (A.trimTo act).stop i = if i ∈ act then wlook A.stop i else 0 := by
  have := wlook_map_nodup act.eraseDups (nodup_eraseDups act) (fun i => wlook A.stop i) i
  simp only [List.mem_eraseDups] at this
  exact this

omit [DecidableEq K] in
/-- backward sums of the kept states are unchanged, as long as the removed states that can be
entered (`R` is closed under the arcs of non-zero weight) accept nothing -/
theorem trimTo_Bk (A : WFSA ι σ K) (act : List ι) (R : ι → Prop)
    (hR : ∀ e ∈ A.arcs, R e.src → R e.dst ∨ e.w = 0)
    (hB : ∀ i, R i → i ∉ act → ∀ k x, Bk A k i x = 0)
    (k : Nat) (i : ι) (x : List σ) (hi : i ∈ act) (hRi : R i) :
    Bk (A.trimTo act) k i x = Bk A k i x := by
  induction k generalizing i x with
  | zero => rw [Bk_zero, Bk_zero, trimTo_wlook_stop, if_pos hi]
  | succ k ih =>
    rw [Bk_succ, Bk_succ, trimTo_arcs_filter A act i hi, sum_filter_ite, sum_filter_ite]
    apply congrArg
    apply List.map_congr_left
    intro e he
    by_cases hsrc : e.src = i
    · rcases hR e he (hsrc ▸ hRi) with hRd | hw0
      swap
      · simp [hw0]
      by_cases hd : e.dst ∈ act
      · simp only [hsrc, hd, and_self, decide_true, if_true]
        apply congrArg
        apply List.map_congr_left
        intro x' _
        rw [ih e.dst x' hd hRd]
      · simp only [hsrc, hd, and_false, decide_false, decide_true, if_true]
        rw [if_neg (by simp)]
        symm
        apply sum_map_zero
        intro x' _
        rw [hB e.dst hRd hd k x', mul_zero]
    · simp [hsrc]

omit [DecidableEq K] in
/-- **`_trim(active)` preserves the weight of every string** when: `R` is a set of states closed under
the arcs of non-zero weight that contains `active` and every state with non-zero initial weight, and the removed states of
`R` accept nothing -/
theorem trimTo_Pk (A : WFSA ι σ K) (act : List ι) (R : ι → Prop)
    (hR : ∀ e ∈ A.arcs, R e.src → R e.dst ∨ e.w = 0)
    (hstart : ∀ i, ¬ R i → wlook A.start i = 0)
    (hact : ∀ i ∈ act, R i)
    (hB : ∀ i, R i → i ∉ act → ∀ k x, Bk A k i x = 0)
    (k : Nat) (x : List σ) :
    Pk (A.trimTo act) k x = Pk A k x := by
  rw [Pk_eq_states_Bk A, Pk_eq_Bk]
  have hstart' : (A.trimTo act).start = act.eraseDups.map fun i => (i, wlook A.start i) := rfl
  rw [hstart', List.map_map]
  have h1 : (act.eraseDups.map ((fun s : ι × K => s.2 * Bk (A.trimTo act) k s.1 x) ∘
        fun i => (i, wlook A.start i)))
      = act.eraseDups.map fun i => wlook A.start i * Bk A k i x := by
    apply List.map_congr_left
    intro i hi
    have hi' : i ∈ act := List.mem_eraseDups.mp hi
    simp only [Function.comp_def]
    rw [trimTo_Bk A act R hR hB k i x hi' (hact i hi')]
  rw [h1]
  apply sum_nodup_restrict _ _ (nodup_eraseDups act) (nodup_states A)
  · intro i _ hni
    rw [wlook_eq_zero A.start i (fun s hs hsi => hni (hsi ▸ mem_states_start A s hs)), zero_mul]
  · intro i _ hni
    have hni' : i ∉ act := fun h => hni (List.mem_eraseDups.mpr h)
    by_cases hRi : R i
    · rw [hB i hRi hni' k x, mul_zero]
    · rw [hstart i hRi, zero_mul]

/-- **`trim` preserves the weight of every string** (any commutative semiring, stratum by stratum) -/
theorem wfsa_trim_Pk (A : WFSA ι σ K) (k : Nat) (x : List σ) : Pk A.trim k x = Pk A k x := by
  apply trimTo_Pk A _ (fun i => i ∈ A.accessible)
  · exact fun e he h => Or.inl (acc_closed A e he h)
  · intro i hi
    by_contra hne
    exact hi (acc_of_start A i hne)
  · intro i hi
    exact (List.mem_filter.mp hi).1
  · intro i hacc hni k x
    apply Bk_of_not_coacc
    intro hco
    exact hni (List.mem_filter.mpr ⟨hacc, by simpa using hco⟩)

theorem wfsa_trim_PN (A : WFSA ι σ K) (n : Nat) (x : List σ) : PN A.trim n x = PN A n x := by
  simp only [PN_eq, wfsa_trim_Pk]

omit [DecidableEq σ] [DecidableEq K] in
/-- the states of `_trim(active)` are exactly `active` -/
theorem mem_states_trimTo (A : WFSA ι σ K) (act : List ι) (i : ι) :
    i ∈ (A.trimTo act).states ↔ i ∈ act := by
  rw [mem_states_iff]
  simp only [WFSA.trimTo, List.mem_map, List.mem_flatMap, List.mem_filter, List.mem_eraseDups,
    decide_eq_true_eq]
  constructor
  · rintro (⟨_, ⟨j, hj, rfl⟩, rfl⟩ | ⟨_, ⟨j, hj, rfl⟩, rfl⟩ | ⟨e, ⟨j, hj, _, rfl, hd⟩, rfl | rfl⟩)
    · exact hj
    · exact hj
    · exact hj
    · exact hd
  · intro hi
    exact Or.inl ⟨_, ⟨i, hi, rfl⟩, rfl⟩

omit [DecidableEq σ] in
theorem mem_states_trim (A : WFSA ι σ K) (i : ι) :
    i ∈ A.trim.states ↔ i ∈ A.accessible ∧ i ∈ A.coaccessible := by
  rw [WFSA.trim, mem_states_trimTo]
  simp

omit [DecidableEq σ] in
/-- **every state of `trim A` is useful in `A`**: reachable from an initial state and able to reach a
final state (and conversely every such state of `A` is kept) -/
theorem wfsa_trim_useful (A : WFSA ι σ K) (i : ι) : i ∈ A.trim.states ↔ A.Reach i ∧ A.CoReach i := by
  rw [mem_states_trim, mem_accessible, mem_coaccessible]

end Trim

/-! ### `push`, continued: the exact path-weight relation, decidable side conditions, examples -/
section Push2
variable {ι σ K : Type} [DecidableEq ι] [DecidableEq σ] [DecidableEq K] [Field K]

/-- **path weights of the pushed machine**: from a live state `i`, `push` rescales the path weights of
the machine restricted to the live states (`_trim(live)`) by `(V i)⁻¹ … V j` — the arcs into states
with `V = 0` are kept by `push`, but with weight `0`.  No hypothesis on `V`. -/
theorem push_Qk (A : WFSA ι σ K) (V : ι → K) (k : Nat) (i : ι) (x : List σ) (j : ι)
    (hi : i ∈ A.states) (hVi : V i ≠ 0) :
    Qk (A.push (·⁻¹) V) k i x j = (V i)⁻¹ * Qk (A.trimTo (A.live V)) k i x j * V j := by
  have hlive : i ∈ A.live V := (mem_live A V i).mpr ⟨hi, hVi⟩
  induction k generalizing i x with
  | zero =>
    rw [Qk_zero, Qk_zero]
    by_cases h : i = j ∧ x = []
    · rw [if_pos h, ← h.1, mul_one, inv_mul_cancel₀ hVi]
    · rw [if_neg h, mul_zero, zero_mul]
  | succ k ih =>
    rw [Qk_succ, Qk_succ, push_arcs_filter A V i hlive, trimTo_arcs_filter A _ i hlive, List.map_map,
      sum_filter_ite, sum_filter_ite, ← List.sum_map_mul_left, ← List.sum_map_mul_right]
    apply congrArg
    apply List.map_congr_left
    intro e he
    simp only [Function.comp_def, decide_eq_true_eq]
    by_cases hsrc : e.src = i
    · have hd := mem_states_dst A e he
      by_cases hVd : V e.dst = 0
      · have hnl : e.dst ∉ A.live V := fun h => ((mem_live A V _).mp h).2 hVd
        simp [hsrc, hVd, hnl]
      · have hl : e.dst ∈ A.live V := (mem_live A V _).mpr ⟨hd, hVd⟩
        simp only [hsrc, hl, and_self, if_true]
        rw [← List.sum_map_mul_left, ← List.sum_map_mul_right]
        apply congrArg
        apply List.map_congr_left
        intro x' _
        rw [ih e.dst x' hd hVd hl]
        have : V e.dst * (V e.dst)⁻¹ = 1 := mul_inv_cancel₀ hVd
        calc (V i)⁻¹ * e.w * V e.dst * ((V e.dst)⁻¹ * Qk (A.trimTo (A.live V)) k e.dst x' j * V j)
            = (V i)⁻¹ * e.w * (V e.dst * (V e.dst)⁻¹) * Qk (A.trimTo (A.live V)) k e.dst x' j * V j := by
              ring
          _ = (V i)⁻¹ * (e.w * Qk (A.trimTo (A.live V)) k e.dst x' j) * V j := by rw [this]; ring
    · simp [hsrc]

/-- when no arc leads from a live state to a state with `V = 0`, the restriction is invisible -/
theorem trimTo_live_Qk (A : WFSA ι σ K) (V : ι → K)
    (hcl : ∀ e ∈ A.arcs, V e.src ≠ 0 → V e.dst ≠ 0)
    (k : Nat) (i : ι) (x : List σ) (j : ι) (hi : i ∈ A.states) (hVi : V i ≠ 0) :
    Qk (A.trimTo (A.live V)) k i x j = Qk A k i x j := by
  have hlive : i ∈ A.live V := (mem_live A V i).mpr ⟨hi, hVi⟩
  induction k generalizing i x with
  | zero => rfl
  | succ k ih =>
    rw [Qk_succ, Qk_succ, trimTo_arcs_filter A _ i hlive, sum_filter_ite, sum_filter_ite]
    apply congrArg
    apply List.map_congr_left
    intro e he
    by_cases hsrc : e.src = i
    · have hd := mem_states_dst A e he
      have hVd : V e.dst ≠ 0 := hcl e he (hsrc ▸ hVi)
      have hl : e.dst ∈ A.live V := (mem_live A V _).mpr ⟨hd, hVd⟩
      simp only [hsrc, hl, and_self, decide_true, if_true]
      apply congrArg
      apply List.map_congr_left
      intro x' _
      rw [ih e.dst x' hd hVd hl]
    · simp [hsrc]

/-- **path weights of the pushed machine, all reachable potentials non-zero**:
`Qk (push A V) k i x j = (V i)⁻¹ * Qk A k i x j * V j` -/
theorem push_Qk_closed (A : WFSA ι σ K) (V : ι → K)
    (hcl : ∀ e ∈ A.arcs, V e.src ≠ 0 → V e.dst ≠ 0)
    (k : Nat) (i : ι) (x : List σ) (j : ι) (hi : i ∈ A.states) (hVi : V i ≠ 0) :
    Qk (A.push (·⁻¹) V) k i x j = (V i)⁻¹ * Qk A k i x j * V j := by
  rw [push_Qk A V k i x j hi hVi, trimTo_live_Qk A V hcl k i x j hi hVi]

/-- a decidable sufficient condition for `push_preserves`: `V` does not vanish on the co-accessible
states -/
theorem push_preserves_of_coacc (A : WFSA ι σ K) (V : ι → K)
    (h : ∀ i ∈ A.states, V i = 0 → i ∉ A.coaccessible) (k : Nat) (x : List σ) :
    Pk (A.push (·⁻¹) V) k x = Pk A k x :=
  push_preserves A V (fun i hi hVi k x => Bk_of_not_coacc A k i x (h i hi hVi)) k x

omit [DecidableEq σ] in
/-- the initial weights of the pushed machine add up to the total weight `Σ_s start(s) · V(s)` -/
theorem push_start_sum (A : WFSA ι σ K) (V : ι → K) :
    ((A.push (·⁻¹) V).start.map (·.2)).sum = A.totalWeight V := by
  rw [totalWeight_eq, sum_eq_sum_wlook A.start A.states (nodup_states A)
    (fun s hs => mem_states_start A s hs) V]
  have hstart : (A.push (·⁻¹) V).start = (A.live V).map fun i => (i, wlook A.start i * V i) := rfl
  rw [hstart, List.map_map, WFSA.live, sum_filter_ite]
  apply congrArg
  apply List.map_congr_left
  intro i _
  by_cases hVi : V i = 0 <;> simp [hVi]

end Push2

section PushOrdered
variable {ι σ K : Type} [DecidableEq ι] [DecidableEq σ] [DecidableEq K]
  [CommSemiring K] [LinearOrder K] [IsStrictOrderedRing K] [NoZeroDivisors K]

omit [DecidableEq K] [NoZeroDivisors K] in
theorem list_sum_eq_zero_of_nonneg {α : Type} (l : List α) (f : α → K) (h0 : ∀ a ∈ l, 0 ≤ f a)
    (hs : (l.map f).sum = 0) : ∀ a ∈ l, f a = 0 := by
  induction l with
  | nil => simp
  | cons b l ih =>
    have hb : 0 ≤ f b := h0 b (by simp)
    have hl : 0 ≤ (l.map f).sum := List.sum_nonneg (by
      intro y hy
      obtain ⟨a, ha, rfl⟩ := List.mem_map.mp hy
      exact h0 a (by simp [ha]))
    rw [List.map_cons, List.sum_cons] at hs
    have h1 := (add_eq_zero_iff_of_nonneg hb hl).mp hs
    intro a ha
    rcases List.mem_cons.mp ha with rfl | ha
    · exact h1.1
    · exact ih (fun a ha => h0 a (by simp [ha])) h1.2 a ha

omit [DecidableEq K] in
/-- over non-negative weights, a state whose backward potential vanishes accepts nothing: the side
condition of `push_preserves` holds for every non-negative solution `V` of the backward equations -/
theorem dead_of_nonneg (A : WFSA ι σ K) (V : ι → K)
    (hw : ∀ e ∈ A.arcs, 0 ≤ e.w) (hstop : ∀ i ∈ A.states, 0 ≤ wlook A.stop i)
    (hV0 : ∀ i ∈ A.states, 0 ≤ V i)
    (hV : ∀ i ∈ A.states, V i = wlook A.stop i
      + ((A.arcs.filter fun e => e.src = i).map fun e => e.w * V e.dst).sum) :
    ∀ i ∈ A.states, V i = 0 → ∀ k x, Bk A k i x = 0 := by
  intro i hi hVi k
  induction k generalizing i with
  | zero =>
    intro x
    have hnn : 0 ≤ ((A.arcs.filter fun e => e.src = i).map fun e => e.w * V e.dst).sum :=
      List.sum_nonneg (by
        intro y hy
        obtain ⟨e, he, rfl⟩ := List.mem_map.mp hy
        have he' := (List.mem_filter.mp he).1
        exact mul_nonneg (hw e he') (hV0 _ (mem_states_dst A e he')))
    have h0 := hV i hi
    rw [hVi] at h0
    have := (add_eq_zero_iff_of_nonneg (hstop i hi) hnn).mp h0.symm
    rw [Bk_zero, this.1]
    simp
  | succ k ih =>
    intro x
    have hnn : 0 ≤ ((A.arcs.filter fun e => e.src = i).map fun e => e.w * V e.dst).sum :=
      List.sum_nonneg (by
        intro y hy
        obtain ⟨e, he, rfl⟩ := List.mem_map.mp hy
        have he' := (List.mem_filter.mp he).1
        exact mul_nonneg (hw e he') (hV0 _ (mem_states_dst A e he')))
    have h0 := hV i hi
    rw [hVi] at h0
    have hsum := ((add_eq_zero_iff_of_nonneg (hstop i hi) hnn).mp h0.symm).2
    have hterm := list_sum_eq_zero_of_nonneg _ (fun e : Arc ι σ K => e.w * V e.dst) (by
      intro e he
      have he' := (List.mem_filter.mp he).1
      exact mul_nonneg (hw e he') (hV0 _ (mem_states_dst A e he'))) hsum
    rw [Bk_succ]
    apply sum_map_zero
    intro e he
    have he' := (List.mem_filter.mp he).1
    apply sum_map_zero
    intro x' _
    rcases mul_eq_zero.mp (hterm e he) with hw0 | hVd
    · rw [hw0, zero_mul]
    · rw [ih e.dst (mem_states_dst A e he') hVd x', mul_zero]

/-- **`trim_vals` preserves every string's weight over non-negative weights**, for any non-negative
solutions `fwd`, `bwd` of the forward and backward equations -/
theorem trimVals_Pk_nonneg (A : WFSA ι σ K) (fwd bwd : ι → K)
    (hw : ∀ e ∈ A.arcs, 0 ≤ e.w)
    (hstart : ∀ i ∈ A.states, 0 ≤ wlook A.start i) (hstop : ∀ i ∈ A.states, 0 ≤ wlook A.stop i)
    (hF0 : ∀ i ∈ A.states, 0 ≤ fwd i) (hB0 : ∀ i ∈ A.states, 0 ≤ bwd i)
    (hF : ∀ j ∈ A.states, fwd j = wlook A.start j
      + ((A.arcs.filter fun e => e.dst = j).map fun e => fwd e.src * e.w).sum)
    (hBw : ∀ i ∈ A.states, bwd i = wlook A.stop i
      + ((A.arcs.filter fun e => e.src = i).map fun e => e.w * bwd e.dst).sum)
    (k : Nat) (x : List σ) : Pk (A.trimVals fwd bwd) k x = Pk A k x := by
  have hnn : ∀ j, 0 ≤ ((A.arcs.filter fun e => e.dst = j).map fun e => fwd e.src * e.w).sum := by
    intro j
    apply List.sum_nonneg
    intro y hy
    obtain ⟨e, he, rfl⟩ := List.mem_map.mp hy
    have he' := (List.mem_filter.mp he).1
    exact mul_nonneg (hF0 _ (mem_states_src A e he')) (hw e he')
  apply trimTo_Pk A _ (fun i => i ∈ A.states ∧ fwd i ≠ 0)
  · intro e he hsrc
    by_cases hw0 : e.w = 0
    · exact Or.inr hw0
    · refine Or.inl ⟨mem_states_dst A e he, fun h0 => ?_⟩
      have h1 := hF e.dst (mem_states_dst A e he)
      rw [h0] at h1
      have hsum := ((add_eq_zero_iff_of_nonneg (hstart _ (mem_states_dst A e he)) (hnn e.dst)).mp
        h1.symm).2
      have hterm := list_sum_eq_zero_of_nonneg _ (fun e' : Arc ι σ K => fwd e'.src * e'.w) (by
        intro e' he'
        have he'' := (List.mem_filter.mp he').1
        exact mul_nonneg (hF0 _ (mem_states_src A e' he'')) (hw e' he'')) hsum e
        (List.mem_filter.mpr ⟨he, by simp⟩)
      rcases mul_eq_zero.mp hterm with h | h
      · exact hsrc.2 h
      · exact hw0 h
  · intro i hi
    by_cases his : i ∈ A.states
    · have h0 : fwd i = 0 := by
        by_contra h; exact hi ⟨his, h⟩
      have h1 := hF i his
      rw [h0] at h1
      exact ((add_eq_zero_iff_of_nonneg (hstart i his) (hnn i)).mp h1.symm).1
    · exact wlook_eq_zero A.start i (fun s hs hsi => his (hsi ▸ mem_states_start A s hs))
  · intro i hi
    have := List.mem_filter.mp hi
    simp only [ne_eq, decide_eq_true_eq] at this
    exact ⟨this.1, this.2.1⟩
  · intro i hRi hni k x
    have hb : bwd i = 0 := by
      by_contra h
      exact hni (List.mem_filter.mpr ⟨hRi.1, by simp [hRi.2, h]⟩)
    exact dead_of_nonneg A bwd hw hstop hB0 hBw i hRi.1 hb k x

end PushOrdered

section PushOrderedField
variable {ι σ K : Type} [DecidableEq ι] [DecidableEq σ] [DecidableEq K]
  [Field K] [LinearOrder K] [IsStrictOrderedRing K]

/-- **weight pushing with the backward weights over non-negative weights preserves every string's
weight** -/
theorem push_preserves_nonneg (A : WFSA ι σ K) (V : ι → K)
    (hw : ∀ e ∈ A.arcs, 0 ≤ e.w) (hstop : ∀ i ∈ A.states, 0 ≤ wlook A.stop i)
    (hV0 : ∀ i ∈ A.states, 0 ≤ V i)
    (hV : ∀ i ∈ A.states, V i = wlook A.stop i
      + ((A.arcs.filter fun e => e.src = i).map fun e => e.w * V e.dst).sum)
    (k : Nat) (x : List σ) : Pk (A.push (·⁻¹) V) k x = Pk A k x :=
  push_preserves A V (dead_of_nonneg A V hw hstop hV0 hV) k x

end PushOrderedField

/-! ### non-vacuity examples (in `Genlm.Wfsa2Aux`) -/
namespace Wfsa2Aux
section Examples

/-- four states over `ℚ`: `0` initial, `1` final, `2` a dead end (not co-accessible), `3` not accessible;
loops on `0` and `1` -/
def exQ : WFSA Nat Nat ℚ :=
  ⟨[(0, 1)], [(1, 1/2)],
   [⟨0, some 7, 0, 1/2⟩, ⟨0, some 8, 1, 1/4⟩, ⟨1, some 7, 1, 1/3⟩, ⟨0, some 8, 2, 1⟩, ⟨3, some 7, 0, 1⟩]⟩

/-- its backward weights (`V 1 = 1/2 + V 1 / 3`, `V 0 = V 0 / 2 + V 1 / 4 + V 2`, `V 2 = 0`, `V 3 = V 0`) -/
def exV (i : Nat) : ℚ := if i = 0 ∨ i = 3 then 3/8 else if i = 1 then 3/4 else 0

example : exQ.states = [0, 1, 2, 3] := by decide +kernel
theorem exV_backward : ∀ i ∈ exQ.states, exV i = wlook exQ.stop i
    + ((exQ.arcs.filter fun e => e.src = i).map fun e => e.w * exV e.dst).sum := by decide +kernel
theorem exV_dead : ∀ i ∈ exQ.states, exV i = 0 → i ∉ exQ.coaccessible := by decide +kernel
example : ∀ e ∈ exQ.arcs, 0 ≤ e.w := by decide +kernel
example : ∀ i ∈ exQ.states, 0 ≤ exV i := by decide +kernel

example (k : Nat) (x : List Nat) : Pk (exQ.push (·⁻¹) exV) k x = Pk exQ k x :=
  push_preserves_of_coacc exQ exV exV_dead k x
example : Pk (exQ.push (·⁻¹) exV) 3 [7, 8, 7] = 1/48 ∧ Pk exQ 3 [7, 8, 7] = 1/48 := by decide +kernel
/-- the weights have moved: the pushed machine starts with the total weight `3/8` -/
example : (exQ.push (·⁻¹) exV).start = [(0, 3/8), (1, 0), (3, 0)] := by decide +kernel
/-- stochasticity at the states `0` and `1`, from the theorem and by evaluation -/
example : wlook (exQ.push (·⁻¹) exV).stop 0
    + (((exQ.push (·⁻¹) exV).arcs.filter fun e => e.src = 0).map (·.w)).sum = 1 :=
  push_stochastic exQ exV 0 (exV_backward 0 (by decide +kernel)) (by decide +kernel)
example : ∀ i ∈ [0, 1, 3], wlook (exQ.push (·⁻¹) exV).stop i
    + (((exQ.push (·⁻¹) exV).arcs.filter fun e => e.src = i).map (·.w)).sum = 1 := by decide +kernel
/-- the arc into the dead state `2` is kept with weight `0` -/
example : (⟨0, some 8, 2, 0⟩ : Arc Nat Nat ℚ) ∈ (exQ.push (·⁻¹) exV).arcs := by decide +kernel

/-- **counterexample to unconditional preservation**: with a negative final weight the backward weight
of the initial state `0` cancels (`V 0 = 1·1 + 1·(-1) = 0`) although `0` accepts `[7]` with weight `1`;
`push` then drops state `0`, and the string `[7]` loses its weight. -/
def exPushBad : WFSA Nat Nat ℚ :=
  ⟨[(0, 1)], [(1, 1), (2, -1)], [⟨0, some 7, 1, 1⟩, ⟨0, some 8, 2, 1⟩]⟩
def exPushBadV (i : Nat) : ℚ := if i = 1 then 1 else if i = 2 then -1 else 0

example : ∀ i ∈ exPushBad.states, exPushBadV i = wlook exPushBad.stop i
    + ((exPushBad.arcs.filter fun e => e.src = i).map fun e => e.w * exPushBadV e.dst).sum := by
  decide +kernel
example : Pk exPushBad 1 [7] = 1 ∧ Pk (exPushBad.push (·⁻¹) exPushBadV) 1 [7] = 0 := by decide +kernel

/-- the unrestricted relation `Qk (push A V) = (V i)⁻¹ * Qk A * V j` fails when a path crosses a state
with `V = 0` (here `V` is an arbitrary potential vanishing on the middle state `1`) -/
def exChain : WFSA Nat Nat ℚ := ⟨[(0, 1)], [(2, 1)], [⟨0, some 7, 1, 1⟩, ⟨1, some 7, 2, 1⟩]⟩
def exChainV (i : Nat) : ℚ := if i = 1 then 0 else 1
example : Qk (exChain.push (·⁻¹) exChainV) 2 0 [7, 7] 2 = 0
    ∧ (exChainV 0)⁻¹ * Qk exChain 2 0 [7, 7] 2 * exChainV 2 = 1
    ∧ Qk (exChain.trimTo (exChain.live exChainV)) 2 0 [7, 7] 2 = 0 := by decide +kernel

/-- `trim` on `exQ` keeps the useful states `0`, `1` -/
example : exQ.trim.states = [0, 1] := by decide +kernel
example : exQ.trim.arcs = [⟨0, some 7, 0, 1/2⟩, ⟨0, some 8, 1, 1/4⟩, ⟨1, some 7, 1, 1/3⟩] := by
  decide +kernel
example : PN exQ.trim 3 [7, 8, 7] = 1/48 := by decide +kernel
example : PN exQ.trim 3 [7, 8, 7] = PN exQ 3 [7, 8, 7] := wfsa_trim_PN exQ 3 [7, 8, 7]

/-- an initial entry whose accumulated weight is zero does not make its state accessible
(`accessible` starts from `self.I`): here `5` has initial weight `1 + (-1) = 0` -/
def exZeroStart : WFSA Nat Nat ℤ :=
  ⟨[(0, 1), (5, 1), (5, -1)], [(1, 1)], [⟨0, some 7, 1, 2⟩, ⟨5, some 7, 1, 3⟩]⟩
example : 5 ∉ exZeroStart.accessible ∧ 5 ∈ exZeroStart.coaccessible := by decide
example : exZeroStart.trim.states = [0, 1] := by decide
example : Pk exZeroStart.trim 1 [7] = 2 ∧ Pk exZeroStart 1 [7] = 2 := by decide

end Examples
end Wfsa2Aux

/-! ## part 2

Correctness of `WFSA.epsremove` (`Model/WfsaOps2.lean`, Python `genlm/grammar/wfsa/base.py`)
relative to the closure matrix, in the ε-acyclic case (any commutative semiring, any machine):

* `epsremove_epsfree`            — A: the result has no ε arc (any `S`, `out`);
* `Wfsa2Eps.Qk_nil_eps`          — (a) on the empty string `Qk A` is `Qk A.epsPart` (a power of the ε matrix);
* `Wfsa2Eps.Qk_cons_factor`      — (b) first-symbol factorisation `ε^m · a-arc · rest`;
* `Wfsa2Eps.Qk_vanish`, `Pk_vanish` — (c) no path spelling `x` has `(|x|+1)(N+1)` arcs or more;
* `Wfsa2Eps.conv_vanish`         — (d) Cauchy product of finitely supported sequences;
* `Wfsa2Eps.Lsum_eq`             — (e) `Σ_{k0 ∈ out i} S i k0 * Qk (epsremove) |x| k0 x j = Σ_k Qk A k i x j`;
* `epsremove_correct`, `epsremove_correct_PN`, `forward_epsremove` — B: `Pk`, `PN`, `WFSA.__call__`;
* `epsremove_correct_states`, `eps_acyclic_of_rank` — the same with decidable hypotheses;
* `Wfsa2Eps.exE_correct` and the examples after it — C: non-vacuity, and the hypotheses `hnd`, `hout` matter. -/
open WfsaAux

namespace Wfsa2Eps

/-! ### sums over `List.range` -/
section Range
variable {K : Type} [CommSemiring K]

theorem sum_range_vanish (h : Nat → K) (a n : Nat) (han : a ≤ n) (hz : ∀ m, a ≤ m → h m = 0) :
    ((List.range n).map h).sum = ((List.range a).map h).sum := by
  induction n, han using Nat.le_induction with
  | base => rfl
  | succ n hn ih =>
    rw [List.range_succ, List.map_append, List.sum_append, ih, List.map_cons, List.map_nil,
      List.sum_cons, List.sum_nil, hz n hn, add_zero, add_zero]

/-- the triangular form of a Cauchy product (shifted by one) -/
theorem conv_tri (f g : Nat → K) (c : Nat) :
    ((List.range c).map fun k => ((List.range k).map fun m => f m * g (k-1-m)).sum).sum
      = ((List.range c).map fun m => f m * ((List.range (c-1-m)).map g).sum).sum := by
  induction c with
  | zero => rfl
  | succ c ih =>
    rw [List.range_succ, List.map_append, List.sum_append, ih, List.map_append, List.sum_append]
    simp only [List.map_cons, List.map_nil, List.sum_cons, List.sum_nil, add_zero]
    have h0 : c + 1 - 1 - c = 0 := by omega
    rw [h0, List.range_zero, List.map_nil, List.sum_nil, mul_zero, add_zero, ← List.sum_map_add]
    apply congrArg
    apply List.map_congr_left
    intro m hm
    have hm' := List.mem_range.mp hm
    have h1 : c + 1 - 1 - m = (c - 1 - m) + 1 := by omega
    rw [h1, List.range_succ, List.map_append, List.sum_append, List.map_cons, List.map_nil,
      List.sum_cons, List.sum_nil, add_zero, mul_add]

/-- **Cauchy product of two finitely supported sequences** (shifted by one) -/
theorem conv_vanish (f g : Nat → K) (a b c : Nat) (hf : ∀ m, a ≤ m → f m = 0)
    (hg : ∀ r, b ≤ r → g r = 0) (hc : a + b ≤ c) :
    ((List.range c).map fun k => ((List.range k).map fun m => f m * g (k-1-m)).sum).sum
      = ((List.range a).map f).sum * ((List.range b).map g).sum := by
  rw [conv_tri, ← List.sum_map_mul_right,
    ← sum_range_vanish (fun m => f m * ((List.range b).map g).sum) a c (by omega)
      (fun m hm => by rw [hf m hm, zero_mul])]
  apply congrArg
  apply List.map_congr_left
  intro m _
  by_cases hm : a ≤ m
  · rw [hf m hm, zero_mul, zero_mul]
  · rw [sum_range_vanish g b (c-1-m) (by omega) hg]

end Range

section
variable {ι σ K : Type} [DecidableEq ι] [DecidableEq σ] [CommSemiring K]

/-! ### the ε part -/

omit [DecidableEq σ] in
/-- sums over the arcs of `A.epsPart` leaving `i`, as sums over `A.arcs` -/
theorem sum_epsPart_src (A : WFSA ι σ K) (i : ι) (g : Arc ι σ K → K) :
    ((A.epsPart.arcs.filter (fun e => e.src = i)).map g).sum
      = (A.arcs.map fun e => if e.src = i ∧ e.lbl = none then g e else 0).sum := by
  have harcs : A.epsPart.arcs = A.arcs.filter (fun e => e.lbl.isNone) := rfl
  rw [harcs, sum_filter_ite, sum_filter_ite]
  apply congrArg
  apply List.map_congr_left
  intro e _
  cases hl : e.lbl <;> by_cases hi : e.src = i <;> simp [hi]

theorem Qk_eps_succ (A : WFSA ι σ K) (m : Nat) (i : ι) (x : List σ) (j : ι) :
    Qk A.epsPart (m+1) i x j
      = (A.arcs.map fun e => if e.src = i ∧ e.lbl = none then e.w * Qk A.epsPart m e.dst x j else 0).sum := by
  rw [Qk_succ, sum_epsPart_src]
  apply congrArg
  apply List.map_congr_left
  intro e _
  by_cases h : e.src = i ∧ e.lbl = none
  · simp only [h.2, lpeel_none, List.map_cons, List.map_nil, List.sum_cons, List.sum_nil,
      add_zero]
  · simp only [if_neg h]

/-- (a) on the empty string only the ε arcs matter -/
theorem Qk_nil_eps (A : WFSA ι σ K) (k : Nat) (i j : ι) :
    Qk A k i [] j = Qk A.epsPart k i [] j := by
  induction k generalizing i with
  | zero => rfl
  | succ k ih =>
    rw [Qk_eps_succ, Qk_succ, sum_filter_ite]
    apply congrArg
    apply List.map_congr_left
    intro e _
    cases hl : e.lbl with
    | none => by_cases hi : e.src = i <;> simp [lpeel_none, hi, ih]
    | some c => simp [lpeel_some_nil]

/-! ### (b) first-symbol factorisation -/

/-- `m` ε arcs from `i`, then an arc labelled `a`, then `r` arcs spelling `x` up to `j` -/
def fac (A : WFSA ι σ K) (a : σ) (x : List σ) (j : ι) (m r : Nat) (i : ι) : K :=
  (A.arcs.map fun e =>
    if e.lbl = some a then Qk A.epsPart m i [] e.src * e.w * Qk A r e.dst x j else 0).sum

theorem fac_eq_filter (A : WFSA ι σ K) (a : σ) (x : List σ) (j : ι) (m r : Nat) (i : ι) :
    fac A a x j m r i = ((A.arcs.filter (fun e => e.lbl = some a)).map fun e =>
      Qk A.epsPart m i [] e.src * e.w * Qk A r e.dst x j).sum := by
  rw [sum_filter_ite]
  simp only [fac, decide_eq_true_eq]

theorem fac_zero (A : WFSA ι σ K) (a : σ) (x : List σ) (j : ι) (r : Nat) (i : ι) :
    fac A a x j 0 r i
      = (A.arcs.map fun e => if e.src = i ∧ e.lbl = some a then e.w * Qk A r e.dst x j else 0).sum := by
  unfold fac
  apply congrArg
  apply List.map_congr_left
  intro e _
  rw [Qk_zero]
  by_cases hi : e.src = i
  · subst hi; by_cases hl : e.lbl = some a <;> simp [hl]
  · have hi' : ¬ i = e.src := fun h => hi h.symm
    simp [hi, hi']

theorem fac_succ (A : WFSA ι σ K) (a : σ) (x : List σ) (j : ι) (m r : Nat) (i : ι) :
    fac A a x j (m+1) r i
      = (A.arcs.map fun e0 => if e0.src = i ∧ e0.lbl = none then e0.w * fac A a x j m r e0.dst else 0).sum := by
  unfold fac
  simp only [Qk_eps_succ]
  have hL : ∀ e : Arc ι σ K,
      (if e.lbl = some a then
        (A.arcs.map fun e0 => if e0.src = i ∧ e0.lbl = none then
          e0.w * Qk A.epsPart m e0.dst [] e.src else 0).sum * e.w * Qk A r e.dst x j else 0)
      = (A.arcs.map fun e0 => if e0.src = i ∧ e0.lbl = none then
          e0.w * (if e.lbl = some a then Qk A.epsPart m e0.dst [] e.src * e.w * Qk A r e.dst x j else 0)
          else 0).sum := by
    intro e
    by_cases hl : e.lbl = some a
    · simp only [if_pos hl, ← List.sum_map_mul_right]
      apply congrArg
      apply List.map_congr_left
      intro e0 _
      split
      · ring
      · simp
    · simp only [if_neg hl, mul_zero, ite_self]
      exact (sum_map_zero _ _ (fun _ _ => rfl)).symm
  simp only [hL]
  rw [sum_swap]
  apply congrArg
  apply List.map_congr_left
  intro e0 _
  split
  · rw [List.sum_map_mul_left]
  · exact sum_map_zero _ _ (fun _ _ => rfl)

/-- (b) a path spelling `a :: x`: `m` ε arcs, the arc reading `a`, then the rest -/
theorem Qk_cons_fac (A : WFSA ι σ K) (k : Nat) (i : ι) (a : σ) (x : List σ) (j : ι) :
    Qk A k i (a :: x) j = ((List.range k).map fun m => fac A a x j m (k-1-m) i).sum := by
  induction k generalizing i with
  | zero => simp [Qk_zero]
  | succ k ih =>
    rw [Qk_succ, sum_filter_ite]
    have hsplit : ∀ e0 ∈ A.arcs,
        (if decide (e0.src = i) = true then
          ((lpeel e0.lbl (a :: x)).map fun x' => e0.w * Qk A k e0.dst x' j).sum else 0)
        = (if e0.src = i ∧ e0.lbl = none then
            e0.w * ((List.range k).map fun m => fac A a x j m (k-1-m) e0.dst).sum else 0)
          + (if e0.src = i ∧ e0.lbl = some a then e0.w * Qk A k e0.dst x j else 0) := by
      intro e0 _
      cases hl : e0.lbl with
      | none => by_cases hi : e0.src = i <;> simp [lpeel_none, hi, ih]
      | some c =>
        by_cases hi : e0.src = i <;> by_cases hca : c = a <;> simp [lpeel_some_cons, hi, hca]
    rw [List.map_congr_left hsplit, List.sum_map_add, ← fac_zero,
      List.range_succ_eq_map (n := k), List.map_cons, List.sum_cons, List.map_map]
    simp only [Function.comp_def, Nat.succ_eq_add_one, Nat.add_sub_cancel, Nat.sub_zero]
    have hidx : ((List.range k).map fun m => fac A a x j (m + 1) (k - (m + 1)) i)
        = ((List.range k).map fun m => fac A a x j (m + 1) (k - 1 - m) i) :=
      List.map_congr_left (fun m _ => by rw [show k - (m + 1) = k - 1 - m by omega])
    rw [hidx, add_comm]
    congr 1
    simp only [fac_succ]
    rw [sum_swap]
    apply congrArg
    apply List.map_congr_left
    intro e0 _
    split
    · rw [List.sum_map_mul_left]
    · exact (sum_map_zero _ _ (fun _ _ => rfl)).symm

/-- (b), as a sum over the arcs labelled `a` -/
theorem Qk_cons_factor (A : WFSA ι σ K) (k : Nat) (i : ι) (a : σ) (x : List σ) (j : ι) :
    Qk A k i (a :: x) j = ((List.range k).map fun m =>
      ((A.arcs.filter (fun e => e.lbl = some a)).map fun e =>
        Qk A.epsPart m i [] e.src * e.w * Qk A (k-1-m) e.dst x j).sum).sum := by
  simp only [Qk_cons_fac, fac_eq_filter]

/-! ### (c) vanishing beyond `(|x|+1)(N+1)` arcs -/

theorem Qk_vanish (A : WFSA ι σ K) (N : Nat)
    (hacyc : ∀ i k m, N < m → Qk A.epsPart m i [] k = 0) (x : List σ) :
    ∀ (k : Nat) (i j : ι), (x.length+1)*(N+1) ≤ k → Qk A k i x j = 0 := by
  induction x with
  | nil =>
    intro k i j hk
    rw [Qk_nil_eps]
    apply hacyc
    simp only [List.length_nil, Nat.zero_add, Nat.one_mul] at hk
    omega
  | cons a x ih =>
    intro k i j hk
    rw [List.length_cons, Nat.succ_mul] at hk
    rw [Qk_cons_fac]
    apply sum_map_zero
    intro m hm
    have hm' := List.mem_range.mp hm
    unfold fac
    apply sum_map_zero
    intro e _
    by_cases hmN : N < m
    · rw [hacyc _ _ _ hmN]; simp
    · rw [ih (k-1-m) e.dst j (by omega)]; simp

theorem Pk_vanish (A : WFSA ι σ K) (N : Nat)
    (hacyc : ∀ i k m, N < m → Qk A.epsPart m i [] k = 0) (x : List σ) (k : Nat)
    (hk : (x.length+1)*(N+1) ≤ k) : Pk A k x = 0 := by
  rw [Pk_eq]
  apply sum_map_zero; intro s _
  apply sum_map_zero; intro f _
  rw [Qk_vanish A N hacyc x k _ _ hk]; simp

/-! ### (e) the ε-free machine -/

omit [DecidableEq ι] [DecidableEq σ] in
theorem epsfree (A : WFSA ι σ K) (S : ι → ι → K) (out : ι → List ι) :
    ∀ e ∈ (A.epsremove S out).arcs, e.lbl ≠ none := by
  intro e he
  simp only [WFSA.epsremove, List.mem_flatMap, List.mem_map, List.mem_filter] at he
  obtain ⟨e0, ⟨_, h0⟩, k, _, rfl⟩ := he
  intro h
  simp only at h
  simp [h] at h0

/-- one step of the ε-free machine: the arc reading `a` of the original machine followed by the closure -/
theorem Qk_epsremove_cons (A : WFSA ι σ K) (S : ι → ι → K) (out : ι → List ι)
    (n : Nat) (k0 : ι) (a : σ) (x : List σ) (j : ι) :
    Qk (A.epsremove S out) (n+1) k0 (a :: x) j
      = (A.arcs.map fun e => if e.src = k0 ∧ e.lbl = some a then
          e.w * ((out e.dst).map fun k => S e.dst k * Qk (A.epsremove S out) n k x j).sum else 0).sum := by
  have harcs : (A.epsremove S out).arcs = (A.arcs.filter (fun e => e.lbl.isSome)).flatMap fun e =>
      (out e.dst).map fun k => ⟨e.src, e.lbl, k, e.w * S e.dst k⟩ := rfl
  rw [Qk_cons_epsfree _ (epsfree A S out), sum_filter_ite, harcs, sum_flatMap, sum_filter_ite]
  apply congrArg
  apply List.map_congr_left
  intro e _
  simp only [List.map_map, Function.comp_def]
  by_cases h : e.src = k0 ∧ e.lbl = some a
  · simp only [h.2, h.1, Option.isSome_some, if_true, and_self, decide_true,
      ← List.sum_map_mul_left, mul_assoc]
  · have hz : ((out e.dst).map fun k =>
        if decide (e.src = k0 ∧ e.lbl = some a) = true then
          e.w * S e.dst k * Qk (A.epsremove S out) n k x j else 0).sum = 0 :=
      sum_map_zero _ _ (fun k _ => by simp [h])
    rw [hz, if_neg h, ite_self]

/-- `Σ_{k0 ∈ out i} S i k0 * (weight of the ε-free machine from k0)` -/
def Lsum (A : WFSA ι σ K) (S : ι → ι → K) (out : ι → List ι) (i : ι) (x : List σ) (j : ι) : K :=
  ((out i).map fun k0 => S i k0 * Qk (A.epsremove S out) x.length k0 x j).sum

omit [DecidableEq σ] in
/-- selecting one entry of a row of `S` through its adjacency list -/
theorem sum_out_sel (A : WFSA ι σ K) (S : ι → ι → K) (out : ι → List ι)
    (hout : ∀ i ∈ A.states, ∀ k, S i k ≠ 0 → k ∈ out i) (hnd : ∀ i ∈ A.states, (out i).Nodup)
    (i : ι) (hi : i ∈ A.states) (j : ι) (h : ι → K) :
    ((out i).map fun k0 => if j = k0 then S i k0 * h k0 else 0).sum = S i j * h j := by
  rw [sum_ite_eq_nodup (out i) (hnd i hi) j (fun k => S i k * h k)]
  by_cases hj : j ∈ out i
  · rw [if_pos hj]
  · have h0 : S i j = 0 := by
      by_contra h0
      exact hj (hout i hi j h0)
    rw [if_neg hj, h0, zero_mul]

theorem Lsum_nil (A : WFSA ι σ K) (S : ι → ι → K) (out : ι → List ι)
    (hout : ∀ i ∈ A.states, ∀ k, S i k ≠ 0 → k ∈ out i) (hnd : ∀ i ∈ A.states, (out i).Nodup)
    (i : ι) (hi : i ∈ A.states) (j : ι) : Lsum A S out i [] j = S i j := by
  have h := sum_out_sel A S out hout hnd i hi j (fun _ => 1)
  rw [mul_one] at h
  rw [← h]
  unfold Lsum
  apply congrArg
  apply List.map_congr_left
  intro k0 _
  rw [List.length_nil, Qk_zero]
  by_cases hk : k0 = j
  · subst hk; simp
  · have hk' : ¬ j = k0 := fun h => hk h.symm
    simp [hk, hk']

theorem Lsum_cons_aux (arcs : List (Arc ι σ K)) (o : List ι) (s : ι → K) (a : σ) (T : Arc ι σ K → K)
    (hsel : ∀ (j : ι) (h : ι → K), (o.map fun k0 => if j = k0 then s k0 * h k0 else 0).sum = s j * h j) :
    (o.map fun k0 => s k0 *
        (arcs.map fun e => if e.src = k0 ∧ e.lbl = some a then e.w * T e else 0).sum).sum
      = (arcs.map fun e => if e.lbl = some a then s e.src * e.w * T e else 0).sum := by
  simp only [← List.sum_map_mul_left]
  rw [sum_swap]
  apply congrArg
  apply List.map_congr_left
  intro e _
  by_cases hl : e.lbl = some a
  · rw [if_pos hl, mul_assoc, ← hsel e.src (fun _ => e.w * T e)]
    apply congrArg
    apply List.map_congr_left
    intro k0 _
    by_cases hk : e.src = k0
    · simp only [hk, hl, and_self, if_true]
    · simp only [hk, false_and, if_false, mul_zero]
  · rw [if_neg hl]
    exact sum_map_zero _ _ (fun k0 _ => by simp [hl])

theorem Lsum_cons (A : WFSA ι σ K) (S : ι → ι → K) (out : ι → List ι)
    (hout : ∀ i ∈ A.states, ∀ k, S i k ≠ 0 → k ∈ out i) (hnd : ∀ i ∈ A.states, (out i).Nodup)
    (i : ι) (hi : i ∈ A.states) (a : σ) (x : List σ) (j : ι) :
    Lsum A S out i (a :: x) j
      = (A.arcs.map fun e => if e.lbl = some a then S i e.src * e.w * Lsum A S out e.dst x j else 0).sum := by
  unfold Lsum
  simp only [List.length_cons, Qk_epsremove_cons]
  exact Lsum_cons_aux A.arcs (out i) (S i) a
    (fun e => ((out e.dst).map fun k => S e.dst k * Qk (A.epsremove S out) x.length k x j).sum)
    (fun j h => sum_out_sel A S out hout hnd i hi j h)

/-- (e) the ε-free machine, weighted by a row of the closure, is the path sum of the original machine -/
theorem Lsum_eq (A : WFSA ι σ K) (S : ι → ι → K) (out : ι → List ι) (N : Nat)
    (hS : ∀ i ∈ A.states, ∀ k, S i k = ((List.range (N+1)).map fun m => Qk A.epsPart m i [] k).sum)
    (hout : ∀ i ∈ A.states, ∀ k, S i k ≠ 0 → k ∈ out i) (hnd : ∀ i ∈ A.states, (out i).Nodup)
    (hacyc : ∀ i k m, N < m → Qk A.epsPart m i [] k = 0) (x : List σ) :
    ∀ (i : ι) (j : ι), i ∈ A.states →
      Lsum A S out i x j = ((List.range ((x.length+1)*(N+1))).map fun k => Qk A k i x j).sum := by
  induction x with
  | nil =>
    intro i j hi
    rw [Lsum_nil A S out hout hnd i hi, hS i hi j]
    simp only [List.length_nil, Nat.zero_add, Nat.one_mul, ← Qk_nil_eps]
  | cons a x ih =>
    intro i j hi
    rw [Lsum_cons A S out hout hnd i hi]
    simp only [Qk_cons_fac, fac]
    have hR : ((List.range ((List.length (a :: x) + 1) * (N + 1))).map fun k =>
          ((List.range k).map fun m => (A.arcs.map fun e =>
            if e.lbl = some a then Qk A.epsPart m i [] e.src * e.w * Qk A (k-1-m) e.dst x j else 0).sum).sum).sum
        = (A.arcs.map fun e => ((List.range ((List.length (a :: x) + 1) * (N + 1))).map fun k =>
            ((List.range k).map fun m =>
              if e.lbl = some a then Qk A.epsPart m i [] e.src * e.w * Qk A (k-1-m) e.dst x j else 0).sum).sum).sum := by
      rw [← sum_swap]
      apply congrArg
      apply List.map_congr_left
      intro k _
      rw [sum_swap]
    rw [hR]
    apply congrArg
    apply List.map_congr_left
    intro e he
    by_cases hl : e.lbl = some a
    · simp only [if_pos hl]
      rw [hS i hi e.src, ih e.dst j (mem_states_dst A e he), ← List.sum_map_mul_right]
      exact (conv_vanish (fun m => Qk A.epsPart m i [] e.src * e.w) (fun r => Qk A r e.dst x j)
        (N+1) ((x.length+1)*(N+1)) _
        (fun m hm => by rw [hacyc _ _ m (by omega), zero_mul])
        (fun r hr => Qk_vanish A N hacyc x r _ _ hr)
        (by rw [List.length_cons, Nat.succ_mul (x.length+1)]; omega)).symm
    · simp only [if_neg hl]
      exact (sum_map_zero _ _ (fun k _ => sum_map_zero _ _ (fun _ _ => rfl))).symm

/-- (f) lifting to accepting paths -/
theorem Pk_epsremove (A : WFSA ι σ K) (S : ι → ι → K) (out : ι → List ι) (N : Nat)
    (hS : ∀ i ∈ A.states, ∀ k, S i k = ((List.range (N+1)).map fun m => Qk A.epsPart m i [] k).sum)
    (hout : ∀ i ∈ A.states, ∀ k, S i k ≠ 0 → k ∈ out i) (hnd : ∀ i ∈ A.states, (out i).Nodup)
    (hacyc : ∀ i k m, N < m → Qk A.epsPart m i [] k = 0) (x : List σ) :
    Pk (A.epsremove S out) x.length x
      = ((List.range ((x.length+1)*(N+1))).map fun k => Pk A k x).sum := by
  have hstart : (A.epsremove S out).start
      = A.start.flatMap fun s => (out s.1).map fun k => (k, s.2 * S s.1 k) := rfl
  have hstop : (A.epsremove S out).stop = A.stop := rfl
  rw [Pk_eq, hstart, hstop, sum_flatMap]
  simp only [List.map_map, Function.comp_def]
  have h1 : ∀ s ∈ A.start,
      ((out s.1).map fun k => (A.stop.map fun f =>
        s.2 * S s.1 k * Qk (A.epsremove S out) x.length k x f.1 * f.2).sum).sum
      = (A.stop.map fun f => s.2 *
          ((List.range ((x.length+1)*(N+1))).map fun k => Qk A k s.1 x f.1).sum * f.2).sum := by
    intro s hs
    rw [sum_swap]
    apply congrArg
    apply List.map_congr_left
    intro f _
    rw [← Lsum_eq A S out N hS hout hnd hacyc x s.1 f.1 (mem_states_start A s hs), Lsum,
      ← List.sum_map_mul_left, ← List.sum_map_mul_right]
    apply congrArg
    apply List.map_congr_left
    intro k _
    rw [mul_assoc s.2]
  rw [List.map_congr_left h1]
  simp only [Pk_eq]
  exact sum_pull A.start A.stop (List.range ((x.length+1)*(N+1))) (fun s => s.2) (fun f => f.2)
    (fun k s f => Qk A k s.1 x f.1)

end
end Wfsa2Eps
open Wfsa2Eps

section Main
variable {ι σ K : Type} [DecidableEq ι] [DecidableEq σ] [CommSemiring K]

omit [DecidableEq ι] [DecidableEq σ] in
/-- **A. `epsremove` returns a machine without ε arcs** (whatever `S`, `out`) -/
theorem epsremove_epsfree (A : WFSA ι σ K) (S : ι → ι → K) (out : ι → List ι) :
    (A.epsremove S out).EpsFree := epsfree A S out

/-- **B. `epsremove` is correct relative to the closure matrix** (ε-acyclic case): if `S` is the sum of
the powers `0..N` of the ε matrix, `out i` lists (once) at least the support of row `i`, and the ε
powers vanish beyond `N`, the ε-free machine gives `x` (along its `|x|` arcs) the total weight of
the accepting paths of `A` spelling `x`. -/
theorem epsremove_correct (A : WFSA ι σ K) (S : ι → ι → K) (out : ι → List ι) (N : Nat)
    (hS : ∀ i ∈ A.states, ∀ k, S i k = ((List.range (N+1)).map fun m => Qk A.epsPart m i [] k).sum)
    (hout : ∀ i ∈ A.states, ∀ k, S i k ≠ 0 → k ∈ out i) (hnd : ∀ i, (out i).Nodup)
    (hacyc : ∀ i k m, N < m → Qk A.epsPart m i [] k = 0) (x : List σ) :
    Pk (A.epsremove S out) x.length x
      = ((List.range ((x.length+1)*(N+1))).map fun k => Pk A k x).sum :=
  Pk_epsremove A S out N hS hout (fun i _ => hnd i) hacyc x

/-- the paths of an ε-acyclic machine spelling `x` have fewer than `(|x|+1)(N+1)` arcs -/
theorem PN_eq_of_acyclic (A : WFSA ι σ K) (N : Nat)
    (hacyc : ∀ i k m, N < m → Qk A.epsPart m i [] k = 0) (x : List σ) (n : Nat)
    (hn : (x.length+1)*(N+1) ≤ n + 1) :
    PN A n x = ((List.range ((x.length+1)*(N+1))).map fun k => Pk A k x).sum := by
  rw [PN_eq]
  exact sum_range_vanish (fun k => Pk A k x) _ _ hn (fun k hk => Pk_vanish A N hacyc x k hk)

theorem epsremove_correct_PN (A : WFSA ι σ K) (S : ι → ι → K) (out : ι → List ι) (N : Nat)
    (hS : ∀ i ∈ A.states, ∀ k, S i k = ((List.range (N+1)).map fun m => Qk A.epsPart m i [] k).sum)
    (hout : ∀ i ∈ A.states, ∀ k, S i k ≠ 0 → k ∈ out i) (hnd : ∀ i, (out i).Nodup)
    (hacyc : ∀ i k m, N < m → Qk A.epsPart m i [] k = 0) (x : List σ) (n : Nat)
    (hn : (x.length+1)*(N+1) ≤ n + 1) :
    Pk (A.epsremove S out) x.length x = PN A n x := by
  rw [epsremove_correct A S out N hS hout hnd hacyc x, PN_eq_of_acyclic A N hacyc x n hn]

/-- **`WFSA.__call__`** (`self = self.epsremove`, then the loop) **computes the stratified path sum** -/
theorem forward_epsremove (A : WFSA ι σ K) (S : ι → ι → K) (out : ι → List ι) (N : Nat)
    (hS : ∀ i ∈ A.states, ∀ k, S i k = ((List.range (N+1)).map fun m => Qk A.epsPart m i [] k).sum)
    (hout : ∀ i ∈ A.states, ∀ k, S i k ≠ 0 → k ∈ out i) (hnd : ∀ i, (out i).Nodup)
    (hacyc : ∀ i k m, N < m → Qk A.epsPart m i [] k = 0) (x : List σ) (n : Nat)
    (hn : (x.length+1)*(N+1) ≤ n + 1) :
    forward (A.epsremove S out) x = PN A n x := by
  rw [forward_correct _ (epsremove_epsfree A S out), epsremove_correct_PN A S out N hS hout hnd hacyc x n hn]

/-! ### decidable forms of the hypotheses -/

namespace Wfsa2Eps

/-- paths do not leave a set of states closed under the arcs -/
theorem Qk_support (B : WFSA ι σ K) (P : ι → Prop) (hP : ∀ e ∈ B.arcs, P e.dst)
    (m : Nat) (i : ι) (x : List σ) (k : ι) (hi : P i) (hk : ¬ P k) : Qk B m i x k = 0 := by
  induction m generalizing i x with
  | zero =>
    have : ¬ i = k := fun h => hk (h ▸ hi)
    simp [Qk_zero, this]
  | succ m ih =>
    rw [Qk_succ]
    apply sum_map_zero
    intro e he
    apply sum_map_zero
    intro x' _
    rw [ih e.dst x' (hP e (List.mem_filter.mp he).1), mul_zero]

omit [DecidableEq σ] in
/-- only the entries `S i k`, `i` a state and `k ∈ out i`, are read -/
theorem epsremove_congr (A : WFSA ι σ K) (S S' : ι → ι → K) (out : ι → List ι)
    (h : ∀ i ∈ A.states, ∀ k ∈ out i, S' i k = S i k) : A.epsremove S' out = A.epsremove S out := by
  have h1 : (A.epsremove S' out).start = (A.epsremove S out).start := by
    apply List.flatMap_congr
    intro s hs
    apply List.map_congr_left
    intro k hk
    rw [h s.1 (mem_states_start A s hs) k hk]
  have h2 : (A.epsremove S' out).arcs = (A.epsremove S out).arcs := by
    apply List.flatMap_congr
    intro e he
    apply List.map_congr_left
    intro k hk
    rw [h e.dst (mem_states_dst A e (List.mem_filter.mp he).1) k hk]
  have h3 : (A.epsremove S' out).stop = (A.epsremove S out).stop := rfl
  cases hA : A.epsremove S' out
  cases hB : A.epsremove S out
  rw [hA, hB] at h1 h2 h3
  simp only at h1 h2 h3
  rw [h1, h2, h3]

end Wfsa2Eps

/-- **B, with every hypothesis but `hacyc` quantified over the (finitely many) states**: decidable when
`K` has decidable equality.  `hsub`: the adjacency lists only mention states. -/
theorem epsremove_correct_states (A : WFSA ι σ K) (S : ι → ι → K) (out : ι → List ι) (N : Nat)
    (hS : ∀ i ∈ A.states, ∀ k ∈ A.states,
      S i k = ((List.range (N+1)).map fun m => Qk A.epsPart m i [] k).sum)
    (hout : ∀ i ∈ A.states, ∀ k ∈ A.states, S i k ≠ 0 → k ∈ out i)
    (hsub : ∀ i ∈ A.states, ∀ k ∈ out i, k ∈ A.states)
    (hnd : ∀ i ∈ A.states, (out i).Nodup)
    (hacyc : ∀ i k m, N < m → Qk A.epsPart m i [] k = 0) (x : List σ) :
    Pk (A.epsremove S out) x.length x
      = ((List.range ((x.length+1)*(N+1))).map fun k => Pk A k x).sum := by
  rw [← epsremove_congr A S (fun i k => if k ∈ A.states then S i k else 0) out
    (fun i hi k hk => by simp only [if_pos (hsub i hi k hk)])]
  apply Pk_epsremove A _ out N _ _ hnd hacyc
  · intro i hi k
    by_cases hk : k ∈ A.states
    · simp only [if_pos hk]; exact hS i hi k hk
    · simp only [if_neg hk]
      symm
      apply sum_map_zero
      intro m _
      exact Qk_support A.epsPart (· ∈ A.states)
        (fun e he => mem_states_dst A e (List.mem_filter.mp he).1) m i [] k hi hk
  · intro i hi k hne
    by_cases hk : k ∈ A.states
    · simp only [if_pos hk] at hne; exact hout i hi k hk hne
    · simp only [if_neg hk] at hne; exact absurd rfl hne

/-- a sufficient (decidable, given `rank`) condition for `hacyc`: every ε arc decreases a rank bounded by `N` -/
theorem eps_acyclic_of_rank (A : WFSA ι σ K) (rank : ι → Nat) (N : Nat)
    (hr : ∀ e ∈ A.arcs, e.lbl = none → rank e.dst < rank e.src) (hN : ∀ i, rank i ≤ N) :
    ∀ i k m, N < m → Qk A.epsPart m i [] k = 0 := by
  have h : ∀ m i k, rank i < m → Qk A.epsPart m i [] k = 0 := by
    intro m
    induction m with
    | zero => intro i k hm; omega
    | succ m ih =>
      intro i k hm
      rw [Qk_eps_succ]
      apply sum_map_zero
      intro e he
      by_cases hc : e.src = i ∧ e.lbl = none
      · have := hr e he hc.2
        rw [hc.1] at this
        rw [if_pos hc, ih e.dst k (by omega), mul_zero]
      · rw [if_neg hc]
  intro i k m hm
  exact h m i k (by have := hN i; omega)

end Main

/-! ### non-vacuity -/
namespace Wfsa2Eps
section Examples

/-- `0 -ε/5-> 1 -ε/2-> 2` with loops reading `7` on every state; `N = 2` -/
def exE : WFSA Nat Nat Nat :=
  ⟨[(0, 1)], [(1, 2), (2, 1)],
   [⟨0, none, 1, 5⟩, ⟨1, none, 2, 2⟩, ⟨1, some 7, 1, 3⟩, ⟨0, some 7, 0, 1⟩, ⟨2, some 7, 2, 1⟩]⟩

/-- the closure of the ε graph of `exE`: `I + E + E²` -/
def exS : Nat → Nat → Nat
  | 0, 0 => 1 | 0, 1 => 5 | 0, 2 => 10
  | 1, 1 => 1 | 1, 2 => 2
  | 2, 2 => 1
  | _, _ => 0

def exOut : Nat → List Nat
  | 0 => [0, 1, 2]
  | 1 => [1, 2]
  | 2 => [2]
  | _ => []

def exRank : Nat → Nat
  | 0 => 2
  | 1 => 1
  | _ => 0

theorem exE_acyclic : ∀ i k m, 2 < m → Qk exE.epsPart m i [] k = 0 :=
  eps_acyclic_of_rank exE exRank 2 (by decide) (by
    intro i
    match i with
    | 0 => decide
    | 1 => decide
    | _+2 => exact Nat.zero_le _)

example : (exE.epsremove exS exOut).EpsFree := epsremove_epsfree _ _ _

/-- all hypotheses of `epsremove_correct_states` hold for `exE`, `exS`, `exOut`, `N = 2` -/
theorem exE_correct (x : List Nat) :
    Pk (exE.epsremove exS exOut) x.length x
      = ((List.range ((x.length+1)*(2+1))).map fun k => Pk exE k x).sum :=
  epsremove_correct_states exE exS exOut 2 (by decide) (by decide) (by decide) (by decide) exE_acyclic x

example : Pk (exE.epsremove exS exOut) 2 [7, 7] = 310 := by decide
example : ((List.range 9).map fun k => Pk exE k [7, 7]).sum = 310 := by decide
example : forward (exE.epsremove exS exOut) [7, 7] = 310 := by decide

/-- the `Nodup` hypothesis matters: listing a target twice counts its paths twice -/
def exOutDup : Nat → List Nat
  | 0 => [0, 1, 1, 2]
  | 1 => [1, 2]
  | 2 => [2]
  | _ => []

example : Pk (exE.epsremove exS exOutDup) 2 [7, 7] ≠ ((List.range 9).map fun k => Pk exE k [7, 7]).sum := by
  decide

/-- the support hypothesis matters: omitting a reachable target loses its paths -/
def exOutMiss : Nat → List Nat
  | 0 => [0, 1]
  | 1 => [1, 2]
  | 2 => [2]
  | _ => []

example : Pk (exE.epsremove exS exOutMiss) 2 [7, 7] ≠ ((List.range 9).map fun k => Pk exE k [7, 7]).sum := by
  decide

/-- the truncated closure `WFSA.epsStarN` of the model file satisfies `hS` by definition, and agrees
with the table `exS` -/
theorem epsStarN_eq {ι σ K : Type} [DecidableEq ι] [DecidableEq σ] [CommSemiring K]
    (A : WFSA ι σ K) (N : Nat) (i k : ι) :
    A.epsStarN N i k = ((List.range (N+1)).map fun m => Qk A.epsPart m i [] k).sum := by
  simp only [WFSA.epsStarN, lsum_eq_sum]

example : ∀ i ∈ exE.states, ∀ k ∈ exE.states, exE.epsStarN 2 i k = exS i k := by decide

end Examples
end Wfsa2Eps

/-! ## part 3

Correctness of `WFSA.to_cfg` (`Model/WfsaOps2.lean`) against the stratified specifications
`WN` (derivation trees of bounded height) and `PN` (accepting paths of bounded length), for any
commutative semiring and any machine (ε arcs, cycles, repeated entries allowed), under the two
conditions that the renaming loop of `to_cfg` establishes: `S ∉ A.states` and
`∀ i ∈ A.states, i ∉ A.labels`.  Helpers and examples in `namespace Genlm.Wfsa2Cfg`, the five main theorems in `Genlm`:

* `toCfgRight_state`, `toCfgLeft_state` — the nonterminal of a state derives the backward / forward path sums;
* `toCfgRight_spec`, `toCfgLeft_spec`   — `WN (to_cfg A S) (n+2) S x = PN A n x`;
* `toCfg_start_low`                     — the two lowest strata of `S` are empty (both modes);
* `sum_splits_left_singleton`, `sum_splits_right_singleton`, `splits_concat` — split sums with one side a single symbol.

`S ∉ A.labels` is *not* needed (and not established by the Python loop, which only tests
`S in self.states or not V.isdisjoint(self.states)`): `WN` never asks whether the root symbol is a
terminal.  Other consumers of the grammar (anything calling `is_terminal(S)`) would care. -/
open WfsaAux

namespace Wfsa2Cfg

section Sums
variable {K : Type} [CommSemiring K]

theorem sum_swap2 {α β γ : Type} (l : List α) (P : α → List β) (m : List γ) (F : α → β → γ → K) :
    (l.map fun a => ((P a).map fun b => (m.map fun c => F a b c).sum).sum).sum
      = (m.map fun c => (l.map fun a => ((P a).map fun b => F a b c).sum).sum).sum := by
  refine Eq.trans ?_ (sum_swap l m fun a c => ((P a).map fun b => F a b c).sum)
  apply congrArg
  apply List.map_congr_left
  intro a _
  exact sum_swap _ _ _

end Sums

section Splits
variable {σ K : Type} [DecidableEq σ] [CommSemiring K]

/-- sum over splits with the left part forced to be the single symbol `a` -/
theorem sum_splits_left_singleton (a : σ) (x : List σ) (F : List σ → K) :
    ((splits x).map fun p => (if p.1 = [a] then 1 else 0) * F p.2).sum
      = ((lpeel (some a) x).map F).sum := by
  cases x with
  | nil => simp [splits, lpeel_some_nil]
  | cons b t =>
    simp only [splits, List.map_cons, List.sum_cons, List.map_map, Function.comp_def, lpeel_some_cons]
    have h := sum_splits_left_nil t (fun u v => (if b :: u = [a] then (1 : K) else 0) * F v)
      (fun u v hu => by simp [hu])
    rw [h]
    by_cases hab : a = b
    · subst hab; simp
    · have : ¬ b = a := fun h => hab h.symm
      simp [hab, this]

omit [DecidableEq σ] in
theorem splits_concat (x : List σ) (b : σ) :
    splits (x ++ [b]) = (splits x).map (fun p => (p.1, p.2 ++ [b])) ++ [(x ++ [b], [])] := by
  induction x with
  | nil => simp [splits]
  | cons c x ih =>
    simp only [List.cons_append, splits, ih, List.map_append, List.map_map, Function.comp_def,
      List.map_cons, List.map_nil, List.cons_append]

/-- sum over splits with the right part forced to be the single symbol `a` -/
theorem sum_splits_right_singleton (a : σ) (x : List σ) (F : List σ → K) :
    ((splits x).map fun p => F p.1 * (if p.2 = [a] then 1 else 0)).sum
      = ((rpeel (some a) x).map F).sum := by
  rcases List.eq_nil_or_concat x with rfl | ⟨t, b, rfl⟩
  · simp [splits, rpeel_nil]
  · rw [List.concat_eq_append, splits_concat, rpeel_concat]
    simp only [List.map_append, List.map_map, Function.comp_def, List.sum_append, List.map_cons,
      List.map_nil, List.sum_cons, List.sum_nil]
    have h := sum_splits_right_nil t (fun u => F u * (if b = a then (1 : K) else 0))
    have h' : ((splits t).map fun p => F p.1 * (if p.2 ++ [b] = [a] then (1 : K) else 0)).sum
        = ((splits t).map fun p => F p.1 * (if b = a then (1 : K) else 0)
            * (if p.2 = [] then 1 else 0)).sum := by
      apply congrArg
      apply List.map_congr_left
      intro p _
      cases hp : p.2 with
      | nil => simp
      | cons c u => simp
    rw [h', h]
    by_cases hab : a = b
    · subst hab; simp
    · have : ¬ b = a := fun h => hab h.symm
      simp [hab, this]

end Splits

section Right
variable {σ K : Type} [DecidableEq σ] [CommSemiring K]

theorem toCfg_WN_succ (G : CFG σ K) (n : Nat) (X : σ) (x : List σ) :
    WN G (n+1) X x = ((G.rules.filter (fun r => r.head = X)).map fun r =>
      r.w * Wbody G.V (WN G n) r.body x).sum := by
  simp only [WN, lsum_eq_sum]

omit [CommSemiring K] in
theorem mem_labels (A : WFSA σ σ K) (e : Arc σ σ K) (he : e ∈ A.arcs) (a : σ) (hl : e.lbl = some a) :
    a ∈ A.labels := by
  simp only [WFSA.labels, List.mem_eraseDups, List.mem_filterMap]
  exact ⟨e, he, hl⟩

omit [CommSemiring K] in
theorem mem_states_stop (A : WFSA σ σ K) (f : σ × K) (h : f ∈ A.stop) : f.1 ∈ A.states := by
  simp only [WFSA.states, List.mem_eraseDups, List.mem_append, List.mem_map]
  exact Or.inl (Or.inr ⟨f, h, rfl⟩)

omit [CommSemiring K] in
theorem mem_states_src (A : WFSA σ σ K) (e : Arc σ σ K) (h : e ∈ A.arcs) : e.src ∈ A.states := by
  simp only [WFSA.states, List.mem_eraseDups, List.mem_append, List.mem_flatMap]
  exact Or.inr ⟨e, h, by simp⟩

/-- one unfolding of `WN` at a state `i ≠ S` of the right-recursive grammar -/
theorem toCfgRight_step (A : WFSA σ σ K) (S : σ) (g : σ → List σ → K) (i : σ) (x : List σ)
    (hSi : S ≠ i) (hdst : ∀ e ∈ A.arcs, e.dst ∉ A.labels) :
    (((A.toCfgRight S).rules.filter (fun r => r.head = i)).map fun r =>
        r.w * Wbody (A.toCfgRight S).V g r.body x).sum
      = (A.stop.map fun f => (if i = f.1 ∧ x = [] then 1 else 0) * f.2).sum
        + ((A.arcs.filter (fun e => e.src = i)).map fun e =>
            ((lpeel e.lbl x).map fun x' => e.w * g e.dst x').sum).sum := by
  rw [sum_filter_ite, sum_filter_ite]
  simp only [WFSA.toCfgRight, List.map_append, List.sum_append, List.map_map, Function.comp_def]
  have h1 : (A.start.map fun s => if decide (S = i) = true then
      s.2 * Wbody A.labels g [s.1] x else 0).sum = 0 := by
    apply sum_map_zero
    intro s _
    simp [hSi]
  rw [h1, zero_add]
  congr 1
  · apply congrArg
    apply List.map_congr_left
    intro f _
    by_cases h : f.1 = i
    · subst h
      by_cases hx : x = [] <;> simp [Wbody, hx]
    · have h' : ¬ i = f.1 := fun e => h e.symm
      simp [h, h']
  · apply congrArg
    apply List.map_congr_left
    intro e he
    have hd := hdst e he
    cases hl : e.lbl with
    | none =>
      by_cases h : e.src = i
      · simp [h, Wbody_singleton, Wsym, hd, lpeel_none]
      · simp [h]
    | some a =>
      have ha : a ∈ A.labels := mem_labels A e he a hl
      by_cases h : e.src = i
      · simp only [h, decide_true, if_true]
        have hb : Wbody A.labels g [a, e.dst] x
            = ((splits x).map fun p => (if p.1 = [a] then 1 else 0) * g e.dst p.2).sum := by
          rw [Wbody, lsum_eq_sum]
          apply congrArg
          apply List.map_congr_left
          intro p _
          rw [Wbody_singleton]
          simp [Wsym, ha, hd]
        rw [hb, sum_splits_left_singleton, List.sum_map_mul_left]
      · simp [h]

/-- one unfolding of `WN` at the fresh start symbol `S` of the right-recursive grammar -/
theorem toCfgRight_step_start (A : WFSA σ σ K) (S : σ) (g : σ → List σ → K) (x : List σ)
    (hS : S ∉ A.states) (hdisj : ∀ i ∈ A.states, i ∉ A.labels) :
    (((A.toCfgRight S).rules.filter (fun r => r.head = S)).map fun r =>
        r.w * Wbody (A.toCfgRight S).V g r.body x).sum
      = (A.start.map fun s => s.2 * g s.1 x).sum := by
  rw [sum_filter_ite]
  simp only [WFSA.toCfgRight, List.map_append, List.sum_append]
  rw [sum_map_zero (A.stop.map _), sum_map_zero (A.arcs.map _), add_zero, add_zero]
  · rw [List.map_map]
    apply congrArg
    apply List.map_congr_left
    intro s hs
    have : s.1 ∉ A.labels := hdisj _ (mem_states_start A s hs)
    simp [Wbody_singleton, Wsym, this]
  · intro r hr
    obtain ⟨e, he, rfl⟩ := List.mem_map.mp hr
    have : e.src ≠ S := fun h => hS (h ▸ mem_states_src A e he)
    cases e.lbl <;> simp [this]
  · intro r hr
    obtain ⟨f, hf, rfl⟩ := List.mem_map.mp hr
    have : f.1 ≠ S := fun e => hS (e ▸ mem_states_stop A f hf)
    simp [this]

/-- backward sums `Σ_{k<n} Σ_f Qk A k i x f.1 * f.2` satisfy the recursion of `WN` -/
theorem bwd_succ (A : WFSA σ σ K) (n : Nat) (i : σ) (x : List σ) :
    ((List.range (n+1)).map fun k => (A.stop.map fun f => Qk A k i x f.1 * f.2).sum).sum
      = (A.stop.map fun f => (if i = f.1 ∧ x = [] then 1 else 0) * f.2).sum
        + ((A.arcs.filter (fun e => e.src = i)).map fun e =>
            ((lpeel e.lbl x).map fun x' => e.w *
              ((List.range n).map fun k => (A.stop.map fun f => Qk A k e.dst x' f.1 * f.2).sum).sum).sum).sum := by
  rw [List.sum_range_succ']
  congr 1
  simp only [Qk_succ, ← List.sum_map_mul_right, ← List.sum_map_mul_left]
  rw [sum_swap2]
  apply congrArg
  apply List.map_congr_left
  intro k _
  rw [sum_swap2]
  apply congrArg
  apply List.map_congr_left
  intro f _
  apply congrArg
  apply List.map_congr_left
  intro e _
  apply congrArg
  apply List.map_congr_left
  intro x' _
  ring

/-- **right-recursive `to_cfg`, at a state**: the trees of height `≤ n` rooted at the nonterminal `i`
are the paths with `< n` arcs from `i` to a final state, weighted by the final weight. -/
theorem _root_.Genlm.toCfgRight_state (A : WFSA σ σ K) (S : σ) (hS : S ∉ A.states)
    (hdisj : ∀ i ∈ A.states, i ∉ A.labels) :
    ∀ n, ∀ i ∈ A.states, ∀ x, WN (A.toCfgRight S) n i x
      = ((List.range n).map fun k => (A.stop.map fun f => Qk A k i x f.1 * f.2).sum).sum := by
  intro n
  induction n with
  | zero => intro i _ x; simp [WN]
  | succ n ih =>
    intro i hi x
    have hSi : S ≠ i := fun h => hS (h ▸ hi)
    rw [toCfg_WN_succ, toCfgRight_step A S _ i x hSi (fun e he => hdisj _ (mem_states_dst A e he)), bwd_succ]
    congr 1
    apply congrArg
    apply List.map_congr_left
    intro e he
    apply congrArg
    apply List.map_congr_left
    intro x' _
    rw [ih e.dst (mem_states_dst A e (List.mem_filter.mp he).1)]

/-- **`WFSA.to_cfg(recursion="right")` preserves the weighted language**, stratum by stratum:
derivation trees of height `≤ n+2` from `S` are the accepting paths with `≤ n` arcs. -/
theorem _root_.Genlm.toCfgRight_spec (A : WFSA σ σ K) (S : σ) (hS : S ∉ A.states)
    (hdisj : ∀ i ∈ A.states, i ∉ A.labels) (n : Nat) (x : List σ) :
    WN (A.toCfgRight S) (n+2) S x = PN A n x := by
  rw [PN_eq]
  rw [toCfg_WN_succ]
  rw [toCfgRight_step_start A S _ x hS hdisj]
  simp only [Pk_eq]
  rw [sum_swap]
  apply congrArg
  apply List.map_congr_left
  intro s hs
  rw [toCfgRight_state A S hS hdisj (n+1) s.1 (mem_states_start A s hs), ← List.sum_map_mul_left]
  apply congrArg
  apply List.map_congr_left
  intro k _
  rw [← List.sum_map_mul_left]
  apply congrArg
  apply List.map_congr_left
  intro f _
  rw [mul_assoc]

end Right

section Left
variable {σ K : Type} [DecidableEq σ] [CommSemiring K]

/-- one unfolding of `WN` at a state `j ≠ S` of the left-recursive grammar -/
theorem toCfgLeft_step (A : WFSA σ σ K) (S : σ) (g : σ → List σ → K) (j : σ) (x : List σ)
    (hSj : S ≠ j) (hsrc : ∀ e ∈ A.arcs, e.src ∉ A.labels) :
    (((A.toCfgLeft S).rules.filter (fun r => r.head = j)).map fun r =>
        r.w * Wbody (A.toCfgLeft S).V g r.body x).sum
      = (A.start.map fun s => s.2 * (if s.1 = j ∧ x = [] then 1 else 0)).sum
        + ((A.arcs.filter (fun e => e.dst = j)).map fun e =>
            ((rpeel e.lbl x).map fun x' => g e.src x' * e.w).sum).sum := by
  rw [sum_filter_ite, sum_filter_ite]
  simp only [WFSA.toCfgLeft, List.map_append, List.sum_append, List.map_map, Function.comp_def]
  have h1 : (A.stop.map fun f => if decide (S = j) = true then
      f.2 * Wbody A.labels g [f.1] x else 0).sum = 0 := by
    apply sum_map_zero
    intro f _
    simp [hSj]
  rw [h1, zero_add]
  congr 1
  · apply congrArg
    apply List.map_congr_left
    intro s _
    by_cases h : s.1 = j
    · by_cases hx : x = [] <;> simp [Wbody, hx, h]
    · simp [h]
  · apply congrArg
    apply List.map_congr_left
    intro e he
    have hd := hsrc e he
    cases hl : e.lbl with
    | none =>
      by_cases h : e.dst = j
      · simp [h, Wbody_singleton, Wsym, hd, rpeel_none, mul_comm]
      · simp [h]
    | some a =>
      have ha : a ∈ A.labels := mem_labels A e he a hl
      by_cases h : e.dst = j
      · simp only [h, decide_true, if_true]
        have hb : Wbody A.labels g [e.src, a] x
            = ((splits x).map fun p => g e.src p.1 * (if p.2 = [a] then 1 else 0)).sum := by
          rw [Wbody, lsum_eq_sum]
          apply congrArg
          apply List.map_congr_left
          intro p _
          rw [Wbody_singleton]
          simp [Wsym, ha, hd]
        rw [hb, sum_splits_right_singleton, List.sum_map_mul_right, mul_comm]
      · simp [h]

/-- one unfolding of `WN` at the fresh start symbol `S` of the left-recursive grammar -/
theorem toCfgLeft_step_start (A : WFSA σ σ K) (S : σ) (g : σ → List σ → K) (x : List σ)
    (hS : S ∉ A.states) (hdisj : ∀ i ∈ A.states, i ∉ A.labels) :
    (((A.toCfgLeft S).rules.filter (fun r => r.head = S)).map fun r =>
        r.w * Wbody (A.toCfgLeft S).V g r.body x).sum
      = (A.stop.map fun f => f.2 * g f.1 x).sum := by
  rw [sum_filter_ite]
  simp only [WFSA.toCfgLeft, List.map_append, List.sum_append]
  rw [sum_map_zero (A.start.map _), sum_map_zero (A.arcs.map _), add_zero, add_zero]
  · rw [List.map_map]
    apply congrArg
    apply List.map_congr_left
    intro f hf
    have : f.1 ∉ A.labels := hdisj _ (mem_states_stop A f hf)
    simp [Wbody_singleton, Wsym, this]
  · intro r hr
    obtain ⟨e, he, rfl⟩ := List.mem_map.mp hr
    have : e.dst ≠ S := fun h => hS (h ▸ mem_states_dst A e he)
    cases e.lbl <;> simp [this]
  · intro r hr
    obtain ⟨s, hs, rfl⟩ := List.mem_map.mp hr
    have : s.1 ≠ S := fun e => hS (e ▸ mem_states_start A s hs)
    simp [this]

/-- forward sums `Σ_{k<n} Σ_s s.2 * Qk A k s.1 x j` satisfy the recursion of `WN` -/
theorem fwd_succ (A : WFSA σ σ K) (n : Nat) (j : σ) (x : List σ) :
    ((List.range (n+1)).map fun k => (A.start.map fun s => s.2 * Qk A k s.1 x j).sum).sum
      = (A.start.map fun s => s.2 * (if s.1 = j ∧ x = [] then 1 else 0)).sum
        + ((A.arcs.filter (fun e => e.dst = j)).map fun e =>
            ((rpeel e.lbl x).map fun x' =>
              ((List.range n).map fun k => (A.start.map fun s => s.2 * Qk A k s.1 x' e.src).sum).sum
                * e.w).sum).sum := by
  rw [List.sum_range_succ']
  congr 1
  simp only [Qk_succ_right, ← List.sum_map_mul_right, ← List.sum_map_mul_left]
  rw [sum_swap2]
  apply congrArg
  apply List.map_congr_left
  intro k _
  rw [sum_swap2]
  apply congrArg
  apply List.map_congr_left
  intro s _
  apply congrArg
  apply List.map_congr_left
  intro e _
  apply congrArg
  apply List.map_congr_left
  intro x' _
  ring

/-- **left-recursive `to_cfg`, at a state**: the trees of height `≤ n` rooted at the nonterminal `j`
are the paths with `< n` arcs from an initial state to `j`, weighted by the initial weight. -/
theorem _root_.Genlm.toCfgLeft_state (A : WFSA σ σ K) (S : σ) (hS : S ∉ A.states)
    (hdisj : ∀ i ∈ A.states, i ∉ A.labels) :
    ∀ n, ∀ j ∈ A.states, ∀ x, WN (A.toCfgLeft S) n j x
      = ((List.range n).map fun k => (A.start.map fun s => s.2 * Qk A k s.1 x j).sum).sum := by
  intro n
  induction n with
  | zero => intro j _ x; simp [WN]
  | succ n ih =>
    intro j hj x
    have hSj : S ≠ j := fun h => hS (h ▸ hj)
    rw [toCfg_WN_succ, toCfgLeft_step A S _ j x hSj (fun e he => hdisj _ (mem_states_src A e he)),
      fwd_succ]
    congr 1
    apply congrArg
    apply List.map_congr_left
    intro e he
    apply congrArg
    apply List.map_congr_left
    intro x' _
    rw [ih e.src (mem_states_src A e (List.mem_filter.mp he).1)]

/-- **`WFSA.to_cfg(recursion="left")` preserves the weighted language**, stratum by stratum. -/
theorem _root_.Genlm.toCfgLeft_spec (A : WFSA σ σ K) (S : σ) (hS : S ∉ A.states)
    (hdisj : ∀ i ∈ A.states, i ∉ A.labels) (n : Nat) (x : List σ) :
    WN (A.toCfgLeft S) (n+2) S x = PN A n x := by
  rw [PN_eq, toCfg_WN_succ, toCfgLeft_step_start A S _ x hS hdisj]
  simp only [Pk_eq]
  have h : ∀ f ∈ A.stop, f.2 * WN (A.toCfgLeft S) (n+1) f.1 x
      = ((List.range (n+1)).map fun k => (A.start.map fun s => s.2 * Qk A k s.1 x f.1 * f.2).sum).sum := by
    intro f hf
    rw [toCfgLeft_state A S hS hdisj (n+1) f.1 (mem_states_stop A f hf), mul_comm,
      ← List.sum_map_mul_right]
    apply congrArg
    apply List.map_congr_left
    intro k _
    rw [← List.sum_map_mul_right]
  rw [List.map_congr_left h, sum_swap]
  apply congrArg
  apply List.map_congr_left
  intro k _
  rw [sum_swap]

end Left

section Low
variable {σ K : Type} [DecidableEq σ] [CommSemiring K]

/-- the strata `0` and `1` of the start symbol are empty: a derivation needs the rule for `S` and at
least one rule of a state -/
theorem _root_.Genlm.toCfg_start_low (A : WFSA σ σ K) (S : σ) (hS : S ∉ A.states)
    (hdisj : ∀ i ∈ A.states, i ∉ A.labels) (x : List σ) :
    WN (A.toCfgRight S) 0 S x = 0 ∧ WN (A.toCfgRight S) 1 S x = 0 ∧
    WN (A.toCfgLeft S) 0 S x = 0 ∧ WN (A.toCfgLeft S) 1 S x = 0 := by
  refine ⟨rfl, ?_, rfl, ?_⟩
  · rw [toCfg_WN_succ, toCfgRight_step_start A S _ x hS hdisj]
    exact sum_map_zero _ _ (fun s _ => by simp [WN])
  · rw [toCfg_WN_succ, toCfgLeft_step_start A S _ x hS hdisj]
    exact sum_map_zero _ _ (fun s _ => by simp [WN])

end Low

/-! ### non-vacuity: concrete machines over `ℕ` -/
section Examples

/-- states `10`, `11`; labels `7`, `8`; an ε arc closing the cycle `10 -7-> 11 -ε-> 10`, a loop on `8` -/
def exC : WFSA Nat Nat Nat :=
  ⟨[(10, 2)], [(11, 3)], [⟨10, some 7, 11, 5⟩, ⟨11, none, 10, 1⟩, ⟨10, some 8, 10, 1⟩]⟩

/-- the state `7` is named like the terminal `7` -/
def exClash : WFSA Nat Nat Nat := ⟨[(7, 2)], [(11, 3)], [⟨7, some 7, 11, 5⟩]⟩

example : exC.states = [10, 11] ∧ exC.labels = [7, 8] := by decide
/-- the hypotheses of the theorems hold for `exC` with `S = 99` -/
example : 99 ∉ exC.states ∧ ∀ i ∈ exC.states, i ∉ exC.labels := by decide

example : WN (exC.toCfgRight 99) 3 99 [7] = 30 ∧ PN exC 1 [7] = 30 := by decide
example : WN (exC.toCfgLeft 99) 3 99 [7] = 30 := by decide
example : WN (exC.toCfgRight 99) 5 99 [7, 7] = 150 ∧ PN exC 3 [7, 7] = 150 := by decide
example : WN (exC.toCfgLeft 99) 5 99 [7, 7] = 150 := by decide
example : WN (exC.toCfgRight 99) 5 99 [7, 7] = PN exC 3 [7, 7] :=
  toCfgRight_spec exC 99 (by decide) (by decide) 3 [7, 7]
example : WN (exC.toCfgLeft 99) 5 99 [7, 7] = PN exC 3 [7, 7] :=
  toCfgLeft_spec exC 99 (by decide) (by decide) 3 [7, 7]

/-- `hdisj` matters: a state named like a terminal is read as that terminal in rule bodies -/
example : ¬ (∀ i ∈ exClash.states, i ∉ exClash.labels) ∧
    WN (exClash.toCfgRight 99) 3 99 [7] = 2 ∧ WN (exClash.toCfgLeft 99) 3 99 [7] = 0 ∧
    PN exClash 1 [7] = 30 := by decide
/-- `S ∈ A.labels` is harmless for `WN` -/
example : 7 ∈ exC.labels ∧ WN (exC.toCfgRight 7) 5 7 [7, 7] = 150 := by decide
/-- `hS` matters: a start symbol that is also a state inherits that state's rules -/
example : 10 ∈ exC.states ∧ WN (exC.toCfgRight 10) 3 10 [7] = 45 ∧ PN exC 1 [7] = 30 := by decide

end Examples

end Wfsa2Cfg

/-! ## part 4

Correctness of the mirror model `WFSA.toBytes` of `WFSA.to_bytes` (`Model/WfsaOps2.lean`) against
the path-sum specification `Qk` / `Pk` / `PN` (any commutative semiring, any ε-free machine whose arcs
have pairwise distinct `(source, label, target)`, any encoding without empty code words):

* `chainArcs_eq`        — the loop of `to_bytes` builds the positional chain `chainArcsPos`;
* `Qk_succ_toBytes_inl`, `Qk_succ_toBytes_inr`, `stepT_closed` — walking in the byte machine: from an
  original state one enters a chain, from a chain state the only way on is the next arc of that chain;
* `toBytes_Qk`          — between original states the byte machine computes `QB`, the byte-level reading of `A`;
* `mem_decs`, `nodup_decs`, `QB_eq_sum_decs` — `QB` is the sum over the decodings `decs` of the byte string;
* `toBytes_Pk`, `toBytes_PN` — **the byte machine gives a byte string the total weight of its decodings**;
  `toBytes_Pk_not_encoding` (`0` on non-encodings), `toBytes_Pk_unique`, `toBytes_Pk_encode`,
  `toBytes_Pk_prefixFree` (the weight of the decoded string when the decoding is unique);
* examples: a 1-byte and a 3-byte symbol; an ambiguous encoding; `exDup`: with a repeated
  `(source, label, target)` the chains share their states and the weights come out wrong. -/
open WfsaAux

namespace Wfsa2Bytes

section Chain
variable {ι σ β K : Type} [CommSemiring K]

theorem chainArcs_eq_aux (i : ι) (a : σ) (j : ι) (w : K) (rest : List β) (p : Nat) :
    chainArcs i a j w (chainSrc i a j p) p rest
      = (List.range rest.length).flatMap fun q =>
          match rest[q]? with
          | some b => [(⟨chainSrc i a j (p+q), some b, chainDst i a j (p + rest.length) (p+q),
              chainW w (p + rest.length) (p+q)⟩ : Arc (BState ι σ) β K)]
          | none => [] := by
  induction rest generalizing p with
  | nil => rfl
  | cons b rest ih =>
    cases rest with
    | nil => simp [chainArcs, chainDst, chainW]
    | cons b' bs =>
      rw [chainArcs]
      have h := ih (p+1)
      rw [show chainSrc i a j (p+1) = Sum.inr (i, a, j, p) from rfl] at h
      rw [h]
      have hlen : (b :: b' :: bs).length = (b' :: bs).length + 1 := rfl
      rw [hlen, List.range_succ_eq_map (n := (b' :: bs).length), List.flatMap_cons, List.flatMap_map]
      have hne : ¬ (p + 1 = p + ((b' :: bs).length + 1)) := by simp
      simp only [List.getElem?_cons_zero, Nat.add_zero, chainDst, chainW, hne, if_false,
        List.singleton_append, List.getElem?_cons_succ]
      congr 1
      apply List.flatMap_congr
      intro q _
      have e1 : p + 1 + q = p + (q + 1) := by omega
      have e2 : p + 1 + (b' :: bs).length = p + ((b' :: bs).length + 1) := by omega
      rw [e1, e2]

theorem chainArcs_eq (i : ι) (a : σ) (j : ι) (w : K) (bs : List β) :
    chainArcs i a j w (.inl i) 0 bs = chainArcsPos i a j w bs := by
  have h := chainArcs_eq_aux i a j w bs 0
  simp only [Nat.zero_add] at h
  exact h

/-- a sum over the arcs of a chain is a sum over the positions -/
theorem sum_chainArcsPos (i : ι) (a : σ) (j : ι) (w : K) (bs : List β)
    (G : Arc (BState ι σ) β K → K) :
    ((chainArcsPos i a j w bs).map G).sum
      = ((List.range bs.length).map fun p => if h : p < bs.length then
          G ⟨chainSrc i a j p, some bs[p], chainDst i a j bs.length p, chainW w bs.length p⟩
          else 0).sum := by
  rw [chainArcsPos, sum_flatMap]
  apply congrArg
  apply List.map_congr_left
  intro p hp
  have hp' : p < bs.length := List.mem_range.mp hp
  rw [List.getElem?_eq_getElem hp', dif_pos hp']
  simp

/-- a sum selecting one key of a list whose keys are pairwise distinct -/
theorem sum_ite_key_nodup {α γ : Type} [DecidableEq γ] (l : List α) (f : α → γ)
    (hl : (l.map f).Nodup) (e0 : α) (he0 : e0 ∈ l) (F : α → K) :
    (l.map fun e => if f e = f e0 then F e else 0).sum = F e0 := by
  induction l with
  | nil => cases he0
  | cons b l ih =>
    rw [List.map_cons, List.nodup_cons] at hl
    rw [List.map_cons, List.sum_cons]
    rcases List.mem_cons.mp he0 with h | h
    · subst h
      rw [if_pos rfl, sum_map_zero, add_zero]
      intro e he
      have : f e ≠ f e0 := fun h' => hl.1 (h' ▸ List.mem_map_of_mem he)
      simp [this]
    · have : f b ≠ f e0 := fun h' => hl.1 (h' ▸ List.mem_map_of_mem h)
      rw [if_neg this, zero_add, ih hl.2 h]

end Chain

section Step
variable {ι σ β K : Type} [DecidableEq ι] [DecidableEq σ] [DecidableEq β] [CommSemiring K]

/-- the arcs of `A` have pairwise distinct `(source, label, target)` (always the case in Python, where
the arcs are the entries of the dictionary `δ[i][a][j]`) -/
def DistinctArcs (A : WFSA ι σ K) : Prop := (A.arcs.map fun e => (e.src, e.lbl, e.dst)).Nodup

instance (A : WFSA ι σ K) : Decidable (DistinctArcs A) := by unfold DistinctArcs; infer_instance

/-- take the `p`-th arc of the chain of `(i,a,j,w)` (bytes `bs`), then `k` more arcs, reading `y` and
ending in `q` -/
def stepT (B : WFSA (BState ι σ) β K) (k : Nat) (y : List β) (q : BState ι σ)
    (i : ι) (a : σ) (j : ι) (w : K) (bs : List β) (p : Nat) : K :=
  if h : p < bs.length then
    ((lpeel (some bs[p]) y).map fun y' =>
      chainW w bs.length p * Qk B k (chainDst i a j bs.length p) y' q).sum
  else 0

omit [DecidableEq ι] [DecidableEq σ] [DecidableEq β] [CommSemiring K] in
theorem chainSrc_eq_inl (i : ι) (a : σ) (j : ι) (p : Nat) (i' : ι) :
    chainSrc i a j p = (Sum.inl i' : BState ι σ) ↔ p = 0 ∧ i = i' := by
  cases p with
  | zero => simp [chainSrc]
  | succ p => simp [chainSrc]

omit [DecidableEq ι] [DecidableEq σ] [DecidableEq β] [CommSemiring K] in
theorem chainSrc_eq_inr (i : ι) (a : σ) (j : ι) (p : Nat) (i' : ι) (a' : σ) (j' : ι) (t : Nat) :
    chainSrc i a j p = (Sum.inr (i', a', j', t) : BState ι σ)
      ↔ p = t + 1 ∧ (i, some a, j) = (i', some a', j') := by
  cases p with
  | zero => simp [chainSrc]
  | succ p =>
    simp only [chainSrc, Sum.inr.injEq, Prod.mk.injEq, Option.some.injEq, Nat.add_right_cancel_iff]
    constructor
    · rintro ⟨h1, h2, h3, h4⟩; exact ⟨h4, h1, h2, h3⟩
    · rintro ⟨h4, h1, h2, h3⟩; exact ⟨h1, h2, h3, h4⟩

/-- one step of the byte machine from any state `s`, as a sum over the arcs of `A` and the positions
of their chains -/
theorem Qk_succ_toBytes (enc : σ → List β) (A : WFSA ι σ K) (hA : A.EpsFree) (k : Nat)
    (s : BState ι σ) (y : List β) (q : BState ι σ) :
    Qk (A.toBytes enc) (k+1) s y q = (A.arcs.map fun e =>
      match e.lbl with
      | none => 0
      | some a => ((List.range (enc a).length).map fun p =>
          if chainSrc e.src a e.dst p = s then
            stepT (A.toBytes enc) k y q e.src a e.dst e.w (enc a) p else 0).sum).sum := by
  rw [Qk_succ, sum_filter_ite]
  have harcs : (A.toBytes enc).arcs = A.arcs.flatMap fun e =>
      match e.lbl with
      | none => [⟨.inl e.src, none, .inl e.dst, e.w⟩]
      | some a => chainArcs e.src a e.dst e.w (.inl e.src) 0 (enc a) := rfl
  rw [harcs, sum_flatMap]
  apply congrArg
  apply List.map_congr_left
  intro e he
  cases hl : e.lbl with
  | none => exact absurd hl (hA e he)
  | some a =>
    simp only []
    rw [chainArcs_eq, sum_chainArcsPos]
    apply congrArg
    apply List.map_congr_left
    intro p hp
    have hp' : p < (enc a).length := List.mem_range.mp hp
    rw [dif_pos hp']
    simp only [decide_eq_true_eq, stepT, dif_pos hp']

/-- from an original state: the first arcs of the chains of the arcs leaving it -/
theorem Qk_succ_toBytes_inl (enc : σ → List β) (A : WFSA ι σ K) (hA : A.EpsFree) (k : Nat)
    (i : ι) (y : List β) (q : BState ι σ) :
    Qk (A.toBytes enc) (k+1) (.inl i) y q = (A.arcs.map fun e =>
      match e.lbl with
      | none => 0
      | some a => if e.src = i then
          stepT (A.toBytes enc) k y q e.src a e.dst e.w (enc a) 0 else 0).sum := by
  rw [Qk_succ_toBytes enc A hA]
  apply congrArg
  apply List.map_congr_left
  intro e _
  cases e.lbl with
  | none => rfl
  | some a =>
    simp only [chainSrc_eq_inl]
    by_cases hi : e.src = i
    · simp only [hi, and_true, if_true]
      rw [sum_range_ite_eq]
      by_cases h0 : 0 < (enc a).length
      · rw [if_pos h0]
      · rw [if_neg h0, stepT, dif_neg h0]
    · simp only [hi, and_false, if_false]
      exact sum_map_zero _ _ (fun _ _ => rfl)

/-- from the `t`-th chain state of an arc `e0` of `A`: the only way on is the next arc of that chain
(this is where the distinctness of the triples is needed) -/
theorem Qk_succ_toBytes_inr (enc : σ → List β) (A : WFSA ι σ K) (hA : A.EpsFree)
    (hD : DistinctArcs A) (e0 : Arc ι σ K) (he0 : e0 ∈ A.arcs) (a : σ) (ha : e0.lbl = some a)
    (k t : Nat) (y : List β) (q : BState ι σ) :
    Qk (A.toBytes enc) (k+1) (.inr (e0.src, a, e0.dst, t)) y q
      = stepT (A.toBytes enc) k y q e0.src a e0.dst e0.w (enc a) (t+1) := by
  rw [Qk_succ_toBytes enc A hA]
  have key := sum_ite_key_nodup A.arcs (fun e => (e.src, e.lbl, e.dst)) hD e0 he0
    (fun e => match e.lbl with
      | none => 0
      | some a' => stepT (A.toBytes enc) k y q e.src a' e.dst e.w (enc a') (t+1))
  simp only [ha] at key
  rw [← key]
  apply congrArg
  apply List.map_congr_left
  intro e _
  cases hl : e.lbl with
  | none => simp
  | some a' =>
    simp only [chainSrc_eq_inr]
    by_cases htr : (e.src, some a', e.dst) = (e0.src, some a, e0.dst)
    · simp only [htr, and_true, if_true]
      rw [sum_range_ite_eq]
      by_cases h0 : t + 1 < (enc a').length
      · rw [if_pos h0]
      · rw [if_neg h0, stepT, dif_neg h0]
    · simp only [htr, and_false, if_false]
      exact sum_map_zero _ _ (fun _ _ => rfl)

/-- running down the chain of the arc `e0` from position `p`: the remaining bytes must be read, the
weight of `e0` is collected, and the walk goes on from the target of `e0` -/
theorem stepT_closed (enc : σ → List β) (A : WFSA ι σ K) (hA : A.EpsFree)
    (hD : DistinctArcs A) (e0 : Arc ι σ K) (he0 : e0 ∈ A.arcs) (a : σ) (ha : e0.lbl = some a)
    (j' : ι) (d : Nat) : ∀ (p k : Nat) (y : List β), p + d + 1 = (enc a).length →
    stepT (A.toBytes enc) k y (.inl j') e0.src a e0.dst e0.w (enc a) p
      = if (enc a).drop p <+: y ∧ (enc a).length - p ≤ k + 1 then
          e0.w * Qk (A.toBytes enc) (k + 1 - ((enc a).length - p)) (.inl e0.dst)
            (y.drop ((enc a).length - p)) (.inl j')
        else 0 := by
  induction d with
  | zero =>
    intro p k y hp
    have hp' : p < (enc a).length := by omega
    have hlen : (enc a).length - p = 1 := by omega
    rw [stepT, dif_pos hp', List.drop_eq_getElem_cons hp', hlen]
    have hnil : (enc a).drop (p+1) = [] := List.drop_eq_nil_iff.mpr (by omega)
    have hd : chainDst e0.src a e0.dst (enc a).length p = Sum.inl e0.dst := by
      simp [chainDst, show p + 1 = (enc a).length by omega]
    have hw : chainW e0.w (enc a).length p = e0.w := by
      simp [chainW, show p + 1 = (enc a).length by omega]
    rw [hnil, hd, hw]
    cases y with
    | nil => simp [lpeel]
    | cons c y' =>
      by_cases hc : (enc a)[p] = c
      · subst hc
        simp [lpeel]
      · simp [lpeel, hc]
  | succ d ih =>
    intro p k y hp
    have hp' : p < (enc a).length := by omega
    rw [stepT, dif_pos hp', List.drop_eq_getElem_cons hp']
    have hd : chainDst e0.src a e0.dst (enc a).length p = Sum.inr (e0.src, a, e0.dst, p) := by
      simp [chainDst, show ¬ (p + 1 = (enc a).length) by omega]
    have hw : chainW e0.w (enc a).length p = 1 := by
      simp [chainW, show ¬ (p + 1 = (enc a).length) by omega]
    rw [hd, hw]
    cases y with
    | nil =>
      rw [if_neg (fun h => by have := h.1; simp at this; omega)]
      simp [lpeel]
    | cons c y' =>
      by_cases hc : (enc a)[p] = c
      · subst hc
        simp only [lpeel, if_true, List.map_cons, List.map_nil, List.sum_cons, List.sum_nil,
          add_zero, one_mul, List.cons_prefix_cons, true_and]
        cases k with
        | zero =>
          rw [Qk_zero, if_neg (by simp), if_neg (by omega)]
        | succ k =>
          rw [Qk_succ_toBytes_inr enc A hA hD e0 he0 a ha, ih (p+1) k y' (by omega)]
          have e1 : (enc a).length - p = ((enc a).length - (p+1)) + 1 := by omega
          have e2 : k + 1 + 1 - ((enc a).length - (p + 1) + 1) = k + 1 - ((enc a).length - (p+1)) := by
            omega
          rw [e1, List.drop_succ_cons, e2]
          have e3 : (enc a).length - (p + 1) + 1 ≤ k + 1 + 1 ↔ (enc a).length - (p + 1) ≤ k + 1 := by
            omega
          simp only [e3]
      · rw [if_neg (fun h => hc (List.cons_prefix_cons.mp h.1).1)]
        simp [lpeel, hc]

end Step

section Main
variable {ι σ β K : Type} [DecidableEq ι] [DecidableEq σ] [DecidableEq β] [CommSemiring K]

omit [DecidableEq ι] [DecidableEq β] [CommSemiring K] in
theorem mem_labels (A : WFSA ι σ K) (a : σ) : a ∈ A.labels ↔ ∃ e ∈ A.arcs, e.lbl = some a := by
  simp only [WFSA.labels, List.mem_eraseDups, List.mem_filterMap]

omit [DecidableEq ι] [DecidableEq β] [CommSemiring K] in
theorem nodup_labels (A : WFSA ι σ K) : A.labels.Nodup := nodup_eraseDups _

omit [DecidableEq σ] in
theorem QB_zero (enc : σ → List β) (A : WFSA ι σ K) (i : ι) (bs : List β) (j : ι) :
    QB enc A 0 i bs j = if i = j ∧ bs = [] then 1 else 0 := rfl

omit [DecidableEq σ] in
theorem QB_succ (enc : σ → List β) (A : WFSA ι σ K) (n : Nat) (i : ι) (bs : List β) (j : ι) :
    QB enc A (n+1) i bs j = (if i = j ∧ bs = [] then 1 else 0) + (A.arcs.map fun e =>
      if e.src = i then
        (match e.lbl with
        | none => 0
        | some a => if enc a <+: bs then e.w * QB enc A n e.dst (bs.drop (enc a).length) j else 0)
      else 0).sum := by
  rw [QB, lsum_eq_sum, sum_filter_ite]
  congr 1
  apply congrArg
  apply List.map_congr_left
  intro e _
  by_cases hi : e.src = i
  · cases e.lbl with
    | none => simp [hi]
    | some a => simp [hi, List.isPrefixOf_iff_prefix]
  · simp [hi]

/-- the byte machine, between original states, against the byte-level reading `QB` of `A` -/
theorem toBytes_Qk_fuel (enc : σ → List β) (A : WFSA ι σ K) (hA : A.EpsFree) (hD : DistinctArcs A)
    (hE : ∀ a ∈ A.labels, enc a ≠ []) (j : ι) (n : Nat) : ∀ (i : ι) (bs : List β), bs.length ≤ n →
    Qk (A.toBytes enc) bs.length (.inl i) bs (.inl j) = QB enc A n i bs j := by
  induction n with
  | zero =>
    intro i bs hbs
    have : bs = [] := List.length_eq_zero_iff.mp (by omega)
    subst this
    simp [Qk_zero, QB_zero]
  | succ n ih =>
    intro i bs hbs
    cases bs with
    | nil =>
      rw [QB_succ, sum_map_zero, add_zero]
      · simp [Qk_zero]
      · intro e he
        cases hl : e.lbl with
        | none => simp
        | some a =>
          have hne := hE a ((mem_labels A a).mpr ⟨e, he, hl⟩)
          simp [hne]
    | cons b bs' =>
      rw [List.length_cons, Qk_succ_toBytes_inl enc A hA, QB_succ, if_neg (by simp), zero_add]
      apply congrArg
      apply List.map_congr_left
      intro e he
      cases hl : e.lbl with
      | none => simp
      | some a =>
        simp only []
        by_cases hi : e.src = i
        · rw [if_pos hi, if_pos hi]
          have hne := hE a ((mem_labels A a).mpr ⟨e, he, hl⟩)
          have hlen : 0 < (enc a).length := List.length_pos_iff.mpr hne
          rw [stepT_closed enc A hA hD e he a hl j ((enc a).length - 1) 0 bs'.length (b :: bs')
            (by omega)]
          simp only [List.drop_zero, Nat.sub_zero]
          by_cases hpre : enc a <+: b :: bs'
          · have hle : (enc a).length ≤ bs'.length + 1 := by simpa using hpre.length_le
            rw [if_pos ⟨hpre, hle⟩, if_pos hpre]
            have hl2 : ((b :: bs').drop (enc a).length).length = bs'.length + 1 - (enc a).length := by
              simp
            have hbs' : bs'.length + 1 ≤ n + 1 := by simpa using hbs
            rw [← hl2, ih e.dst _ (by rw [hl2]; omega)]
          · rw [if_neg (fun h => hpre h.1), if_neg hpre]
        · rw [if_neg hi, if_neg hi]

end Main

section Decs
variable {σ β : Type} [DecidableEq σ] [DecidableEq β]

omit [DecidableEq σ] in
theorem decs_zero (enc : σ → List β) (alph : List σ) (bs : List β) :
    decs enc alph 0 bs = if bs = [] then [[]] else [] := rfl

omit [DecidableEq σ] in
theorem decs_succ (enc : σ → List β) (alph : List σ) (n : Nat) (bs : List β) :
    decs enc alph (n+1) bs = (if bs = [] then [[]] else []) ++ alph.flatMap fun a =>
      if enc a <+: bs then (decs enc alph n (bs.drop (enc a).length)).map (a :: ·) else [] := by
  rw [decs]
  simp only [List.isPrefixOf_iff_prefix]

omit [DecidableEq σ] [DecidableEq β] in
theorem flatMap_enc_eq_nil (enc : σ → List β) (alph : List σ) (hE : ∀ a ∈ alph, enc a ≠ [])
    (x : List σ) (hx : ∀ a ∈ x, a ∈ alph) : x.flatMap enc = [] ↔ x = [] := by
  cases x with
  | nil => simp
  | cons a x' =>
    simp only [List.flatMap_cons, List.append_eq_nil_iff, reduceCtorEq, iff_false, not_and]
    intro h
    exact absurd h (hE a (hx a (by simp)))

omit [DecidableEq σ] in
/-- `decs` enumerates the decodings of `bs` over `alph` -/
theorem mem_decs (enc : σ → List β) (alph : List σ) (hE : ∀ a ∈ alph, enc a ≠ []) (n : Nat) :
    ∀ (bs : List β) (x : List σ), bs.length ≤ n →
      (x ∈ decs enc alph n bs ↔ (∀ a ∈ x, a ∈ alph) ∧ x.flatMap enc = bs) := by
  induction n with
  | zero =>
    intro bs x hbs
    have : bs = [] := List.length_eq_zero_iff.mp (by omega)
    subst this
    rw [decs_zero, if_pos rfl, List.mem_singleton]
    constructor
    · rintro rfl; simp
    · rintro ⟨h1, h2⟩; exact (flatMap_enc_eq_nil enc alph hE x h1).mp h2
  | succ n ih =>
    intro bs x hbs
    rw [decs_succ, List.mem_append, List.mem_flatMap]
    constructor
    · rintro (h | ⟨a, ha, h⟩)
      · by_cases hb : bs = []
        · rw [if_pos hb, List.mem_singleton] at h
          subst h; subst hb; simp
        · rw [if_neg hb] at h; cases h
      · by_cases hpre : enc a <+: bs
        · rw [if_pos hpre, List.mem_map] at h
          obtain ⟨x', hx', rfl⟩ := h
          have hlen : 0 < (enc a).length := List.length_pos_iff.mpr (hE a ha)
          have := (ih (bs.drop (enc a).length) x' (by rw [List.length_drop]; omega)).mp hx'
          refine ⟨?_, ?_⟩
          · intro c hc
            rcases List.mem_cons.mp hc with rfl | hc
            · exact ha
            · exact this.1 c hc
          · rw [List.flatMap_cons, this.2]
            exact List.prefix_iff_eq_append.mp hpre
        · rw [if_neg hpre] at h; cases h
    · rintro ⟨h1, h2⟩
      cases x with
      | nil =>
        left
        have : bs = [] := by simpa using h2.symm
        rw [if_pos this]; simp
      | cons a x' =>
        right
        have ha : a ∈ alph := h1 a (by simp)
        have hlen : 0 < (enc a).length := List.length_pos_iff.mpr (hE a ha)
        rw [List.flatMap_cons] at h2
        have hpre : enc a <+: bs := ⟨_, h2⟩
        have hdrop : bs.drop (enc a).length = x'.flatMap enc := by
          rw [← h2, List.drop_left]
        refine ⟨a, ha, ?_⟩
        rw [if_pos hpre, List.mem_map]
        refine ⟨x', ?_, rfl⟩
        rw [ih _ x' (by rw [List.length_drop]; omega)]
        exact ⟨fun c hc => h1 c (by simp [hc]), hdrop.symm⟩

omit [DecidableEq σ] in
/-- no decoding is listed twice -/
theorem nodup_decs (enc : σ → List β) (alph : List σ) (hN : alph.Nodup) (n : Nat) :
    ∀ bs : List β, (decs enc alph n bs).Nodup := by
  induction n with
  | zero =>
    intro bs
    rw [decs_zero]
    split <;> simp
  | succ n ih =>
    intro bs
    rw [decs_succ, List.nodup_append]
    refine ⟨by split <;> simp, ?_, ?_⟩
    · rw [List.nodup_flatMap]
      refine ⟨?_, ?_⟩
      · intro a _
        split
        · exact (ih _).map (fun _ _ h => (List.cons.inj h).2)
        · simp
      · refine hN.imp ?_
        intro a c hac x hxa hxc
        dsimp only at hxa hxc
        split at hxa
        · split at hxc
          · obtain ⟨_, _, rfl⟩ := List.mem_map.mp hxa
            obtain ⟨_, _, h⟩ := List.mem_map.mp hxc
            exact hac (List.cons.inj h).1.symm
          · cases hxc
        · cases hxa
    · intro x hx y hy hxy
      subst hxy
      have hx' : x = [] := by
        split at hx
        · simpa using hx
        · cases hx
      subst hx'
      obtain ⟨a, _, ha⟩ := List.mem_flatMap.mp hy
      split at ha
      · obtain ⟨_, _, h⟩ := List.mem_map.mp ha
        cases h
      · cases ha

end Decs

section Decode
variable {ι σ β K : Type} [DecidableEq ι] [DecidableEq σ] [DecidableEq β] [CommSemiring K]

/-- the byte-level reading of `A` is the sum, over the decodings of the byte string, of the
symbol-level path weights -/
theorem QB_eq_sum_decs (enc : σ → List β) (A : WFSA ι σ K) (hA : A.EpsFree)
    (hE : ∀ a ∈ A.labels, enc a ≠ []) (j : ι) (n : Nat) : ∀ (i : ι) (bs : List β), bs.length ≤ n →
    QB enc A n i bs j = ((decs enc A.labels n bs).map fun x => Qk A x.length i x j).sum := by
  induction n with
  | zero =>
    intro i bs hbs
    have : bs = [] := List.length_eq_zero_iff.mp (by omega)
    subst this
    simp [QB_zero, decs_zero, Qk_zero]
  | succ n ih =>
    intro i bs hbs
    rw [QB_succ, decs_succ, List.map_append, List.sum_append]
    congr 1
    · by_cases hb : bs = []
      · simp [hb, Qk_zero]
      · simp [hb]
    · -- the weight contributed by the arc `e` read as the symbol `a`
      let F : σ → Arc ι σ K → K := fun a e =>
        if enc a <+: bs then
          e.w * ((decs enc A.labels n (bs.drop (enc a).length)).map fun x' =>
            Qk A x'.length e.dst x' j).sum
        else 0
      have hL : ∀ e ∈ A.arcs,
          (if e.src = i then
            (match e.lbl with
            | none => 0
            | some a => if enc a <+: bs then e.w * QB enc A n e.dst (bs.drop (enc a).length) j else 0)
          else 0)
          = (A.labels.map fun a => if e.src = i ∧ e.lbl = some a then F a e else 0).sum := by
        intro e he
        cases hl : e.lbl with
        | none => exact absurd hl (hA e he)
        | some a0 =>
          have hmem : a0 ∈ A.labels := (mem_labels A a0).mpr ⟨e, he, hl⟩
          have hlen : 0 < (enc a0).length := List.length_pos_iff.mpr (hE a0 hmem)
          by_cases hi : e.src = i
          · simp only [hi, true_and, if_true, Option.some.injEq]
            rw [sum_ite_eq_nodup A.labels (nodup_labels A) a0 (fun a => F a e), if_pos hmem]
            simp only [F]
            by_cases hpre : enc a0 <+: bs
            · rw [if_pos hpre, if_pos hpre, ih e.dst _ (by rw [List.length_drop]; omega)]
            · rw [if_neg hpre, if_neg hpre]
          · simp only [hi, false_and, if_false]
            exact (sum_map_zero _ _ (fun _ _ => rfl)).symm
      rw [List.map_congr_left hL, sum_swap, sum_flatMap]
      apply congrArg
      apply List.map_congr_left
      intro a _
      by_cases hpre : enc a <+: bs
      · simp only [hpre, if_true, F, List.map_map, Function.comp_def, List.length_cons,
          Qk_cons_epsfree A hA, sum_filter_ite, decide_eq_true_eq]
        rw [sum_swap]
        apply congrArg
        apply List.map_congr_left
        intro e _
        by_cases hc : e.src = i ∧ e.lbl = some a
        · simp only [hc, and_self, if_true, List.sum_map_mul_left]
        · simp only [hc, if_false]
          exact (sum_map_zero _ _ (fun _ _ => rfl)).symm
      · simp only [hpre, if_false, F, ite_self, List.map_nil, List.sum_nil]
        exact sum_map_zero _ _ (fun _ _ => rfl)

end Decode

section Aux
variable {ι σ β K : Type}

theorem chainArcs_lbl [One K] (i : ι) (a : σ) (j : ι) (w : K) (rest : List β) :
    ∀ (cur : BState ι σ) (t : Nat), ∀ arc ∈ chainArcs i a j w cur t rest, arc.lbl ≠ none := by
  induction rest with
  | nil => intro cur t arc h; cases h
  | cons b rest ih =>
    intro cur t arc h
    cases rest with
    | nil =>
      rw [chainArcs, List.mem_singleton] at h
      subst h; simp
    | cons b' bs =>
      rw [chainArcs, List.mem_cons] at h
      rcases h with h | h
      · subst h; simp
      · exact ih _ _ arc h

theorem eq_singleton_of_nodup {α : Type} (l : List α) (x : α) (hN : l.Nodup) (hx : x ∈ l)
    (hall : ∀ y ∈ l, y = x) : l = [x] := by
  cases l with
  | nil => cases hx
  | cons a l' =>
    have ha : a = x := hall a (by simp)
    subst ha
    cases l' with
    | nil => rfl
    | cons b l'' =>
      have hb : b = a := hall b (by simp)
      subst hb
      simp at hN

end Aux

section Labels
variable {ι σ K : Type} [DecidableEq ι] [DecidableEq σ] [CommSemiring K]

/-- an ε-free machine gives no weight to a string using a symbol that labels none of its arcs -/
theorem Qk_eq_zero_of_not_labels (A : WFSA ι σ K) (hA : A.EpsFree) (x : List σ)
    (hx : ∃ a ∈ x, a ∉ A.labels) : ∀ (k : Nat) (i j : ι), Qk A k i x j = 0 := by
  induction x with
  | nil => obtain ⟨a, ha, _⟩ := hx; cases ha
  | cons c x ih =>
    intro k i j
    cases k with
    | zero => exact Qk_epsfree_length A hA 0 i _ j (by simp)
    | succ k =>
      rw [Qk_cons_epsfree A hA]
      apply sum_map_zero
      intro e he
      have he' := List.mem_filter.mp he
      simp only [decide_eq_true_eq] at he'
      have hc : c ∈ A.labels := (mem_labels A c).mpr ⟨e, he'.1, he'.2.2⟩
      obtain ⟨a, ha, hna⟩ := hx
      rcases List.mem_cons.mp ha with rfl | ha
      · exact absurd hc hna
      · rw [ih ⟨a, ha, hna⟩, mul_zero]

theorem Pk_eq_zero_of_not_labels (A : WFSA ι σ K) (hA : A.EpsFree) (x : List σ)
    (hx : ∃ a ∈ x, a ∉ A.labels) (k : Nat) : Pk A k x = 0 := by
  rw [Pk_eq]
  apply sum_map_zero; intro s _
  apply sum_map_zero; intro f _
  rw [Qk_eq_zero_of_not_labels A hA x hx]; simp

end Labels

section Codes
variable {σ β : Type}

/-- no code word is a prefix of another one (e.g. the UTF-8 encoding of single characters) -/
def PrefixFree (enc : σ → List β) : Prop := ∀ a b, enc a <+: enc b → a = b

/-- a prefix-free code without empty code words is uniquely decodable -/
theorem flatMap_injective_of_prefixFree (enc : σ → List β) (hP : PrefixFree enc)
    (hE : ∀ a, enc a ≠ []) : ∀ x x' : List σ, x.flatMap enc = x'.flatMap enc → x = x' := by
  intro x
  induction x with
  | nil =>
    intro x' h
    cases x' with
    | nil => rfl
    | cons a x' =>
      rw [List.flatMap_nil, List.flatMap_cons] at h
      exact absurd (List.append_eq_nil_iff.mp h.symm).1 (hE a)
  | cons a x ih =>
    intro x' h
    cases x' with
    | nil =>
      rw [List.flatMap_nil, List.flatMap_cons] at h
      exact absurd (List.append_eq_nil_iff.mp h).1 (hE a)
    | cons a' x' =>
      rw [List.flatMap_cons, List.flatMap_cons] at h
      have haa : a = a' := by
        rcases Nat.le_total (enc a).length (enc a').length with hle | hle
        · exact hP a a' (List.prefix_of_prefix_length_le ⟨_, h⟩ ⟨_, rfl⟩ hle)
        · exact (hP a' a (List.prefix_of_prefix_length_le ⟨_, h.symm⟩ ⟨_, rfl⟩ hle)).symm
      subst haa
      rw [ih x' (List.append_cancel_left h)]

end Codes
end Wfsa2Bytes
open Wfsa2Bytes

/-! ### headline statements -/
section Headline
variable {ι σ β K : Type} [DecidableEq ι] [DecidableEq σ] [DecidableEq β] [CommSemiring K]

omit [DecidableEq ι] [DecidableEq σ] [DecidableEq β] in
/-- the byte machine of an ε-free machine is ε-free -/
theorem toBytes_epsFree (enc : σ → List β) (A : WFSA ι σ K) (hA : A.EpsFree) :
    (A.toBytes enc).EpsFree := by
  intro arc harc
  have harcs : (A.toBytes enc).arcs = A.arcs.flatMap fun e =>
      match e.lbl with
      | none => [⟨.inl e.src, none, .inl e.dst, e.w⟩]
      | some a => chainArcs e.src a e.dst e.w (.inl e.src) 0 (enc a) := rfl
  rw [harcs, List.mem_flatMap] at harc
  obtain ⟨e, he, h⟩ := harc
  cases hl : e.lbl with
  | none => exact absurd hl (hA e he)
  | some a =>
    rw [hl] at h
    exact chainArcs_lbl _ _ _ _ _ _ _ arc h

/-- **`to_bytes`, path weights**: between two original states, the byte machine gives the byte string
`bs` the byte-level reading `QB` of `A` -/
theorem toBytes_Qk (enc : σ → List β) (A : WFSA ι σ K) (hA : A.EpsFree) (hD : DistinctArcs A)
    (hE : ∀ a ∈ A.labels, enc a ≠ []) (i : ι) (bs : List β) (j : ι) :
    Qk (A.toBytes enc) bs.length (.inl i) bs (.inl j) = QB enc A bs.length i bs j :=
  toBytes_Qk_fuel enc A hA hD hE j bs.length i bs (Nat.le_refl _)

/-- ... which is the total weight of the decodings of `bs` -/
theorem toBytes_Qk_decs (enc : σ → List β) (A : WFSA ι σ K) (hA : A.EpsFree) (hD : DistinctArcs A)
    (hE : ∀ a ∈ A.labels, enc a ≠ []) (i : ι) (bs : List β) (j : ι) :
    Qk (A.toBytes enc) bs.length (.inl i) bs (.inl j)
      = ((decs enc A.labels bs.length bs).map fun x => Qk A x.length i x j).sum := by
  rw [toBytes_Qk enc A hA hD hE, QB_eq_sum_decs enc A hA hE j bs.length i bs (Nat.le_refl _)]

/-- **`to_bytes` is correct**: the byte machine gives every byte string the total weight of its
decodings -/
theorem toBytes_Pk (enc : σ → List β) (A : WFSA ι σ K) (hA : A.EpsFree) (hD : DistinctArcs A)
    (hE : ∀ a ∈ A.labels, enc a ≠ []) (bs : List β) :
    Pk (A.toBytes enc) bs.length bs
      = ((decs enc A.labels bs.length bs).map fun x => Pk A x.length x).sum := by
  have hstart : (A.toBytes enc).start = A.start.map fun s => (Sum.inl s.1, s.2) := rfl
  have hstop : (A.toBytes enc).stop = A.stop.map fun s => (Sum.inl s.1, s.2) := rfl
  simp only [Pk_eq, hstart, hstop, List.map_map, Function.comp_def,
    toBytes_Qk_decs enc A hA hD hE, ← List.sum_map_mul_left, ← List.sum_map_mul_right]
  trans (A.start.map fun s => ((decs enc A.labels bs.length bs).map fun x =>
      (A.stop.map fun f => s.2 * Qk A x.length s.1 x f.1 * f.2).sum).sum).sum
  · apply congrArg
    apply List.map_congr_left
    intro s _
    exact sum_swap _ _ _
  · exact sum_swap _ _ _

theorem toBytes_PN (enc : σ → List β) (A : WFSA ι σ K) (hA : A.EpsFree) (hD : DistinctArcs A)
    (hE : ∀ a ∈ A.labels, enc a ≠ []) (bs : List β) (n : Nat) (hn : bs.length ≤ n) :
    PN (A.toBytes enc) n bs
      = ((decs enc A.labels bs.length bs).map fun x => PN A x.length x).sum := by
  rw [PN_eq_single _ n bs.length bs hn
    (fun k hk => Pk_epsfree_length _ (toBytes_epsFree enc A hA) k bs hk), toBytes_Pk enc A hA hD hE]
  apply congrArg
  apply List.map_congr_left
  intro x _
  rw [PN_eq_single A x.length x.length x (Nat.le_refl _)
    (fun k hk => Pk_epsfree_length A hA k x hk)]

/-- a byte string that is not an encoding weighs `0` -/
theorem toBytes_Pk_not_encoding (enc : σ → List β) (A : WFSA ι σ K) (hA : A.EpsFree)
    (hD : DistinctArcs A) (hE : ∀ a ∈ A.labels, enc a ≠ []) (bs : List β)
    (h : ∀ x : List σ, (∀ a ∈ x, a ∈ A.labels) → x.flatMap enc ≠ bs) :
    Pk (A.toBytes enc) bs.length bs = 0 := by
  rw [toBytes_Pk enc A hA hD hE]
  have : decs enc A.labels bs.length bs = [] := by
    rw [List.eq_nil_iff_forall_not_mem]
    intro x hx
    have := (mem_decs enc A.labels hE bs.length bs x (Nat.le_refl _)).mp hx
    exact h x this.1 this.2
  rw [this]; rfl

/-- a byte string with a single decoding weighs what its decoding weighs -/
theorem toBytes_Pk_unique (enc : σ → List β) (A : WFSA ι σ K) (hA : A.EpsFree)
    (hD : DistinctArcs A) (hE : ∀ a ∈ A.labels, enc a ≠ []) (x : List σ)
    (hx : ∀ a ∈ x, a ∈ A.labels)
    (hU : ∀ x' : List σ, (∀ a ∈ x', a ∈ A.labels) → x'.flatMap enc = x.flatMap enc → x' = x) :
    Pk (A.toBytes enc) (x.flatMap enc).length (x.flatMap enc) = Pk A x.length x := by
  rw [toBytes_Pk enc A hA hD hE]
  have : decs enc A.labels (x.flatMap enc).length (x.flatMap enc) = [x] := by
    apply eq_singleton_of_nodup _ _ (nodup_decs enc A.labels (nodup_labels A) _ _)
    · exact (mem_decs enc A.labels hE _ _ x (Nat.le_refl _)).mpr ⟨hx, rfl⟩
    · intro y hy
      have := (mem_decs enc A.labels hE _ _ y (Nat.le_refl _)).mp hy
      exact hU y this.1 this.2
  rw [this]; simp

/-- for a uniquely decodable encoding the byte machine computes, on the encoding of any string `x`,
the weight `A` gives to `x` -/
theorem toBytes_Pk_encode (enc : σ → List β) (A : WFSA ι σ K) (hA : A.EpsFree)
    (hD : DistinctArcs A) (hU : ∀ x x' : List σ, x.flatMap enc = x'.flatMap enc → x = x')
    (x : List σ) :
    Pk (A.toBytes enc) (x.flatMap enc).length (x.flatMap enc) = Pk A x.length x := by
  have hE : ∀ a ∈ A.labels, enc a ≠ [] := by
    intro a _ h
    have := hU [a] [] (by simp [h])
    cases this
  by_cases hx : ∀ a ∈ x, a ∈ A.labels
  · exact toBytes_Pk_unique enc A hA hD hE x hx (fun x' _ h => hU x' x h)
  · rw [toBytes_Pk_not_encoding enc A hA hD hE, Pk_eq_zero_of_not_labels A hA x (by simpa using hx)]
    intro x' hx' h
    exact hx (hU x' x h ▸ hx')

theorem toBytes_Pk_prefixFree (enc : σ → List β) (A : WFSA ι σ K) (hA : A.EpsFree)
    (hD : DistinctArcs A) (hP : PrefixFree enc) (hE : ∀ a, enc a ≠ []) (x : List σ) :
    Pk (A.toBytes enc) (x.flatMap enc).length (x.flatMap enc) = Pk A x.length x :=
  toBytes_Pk_encode enc A hA hD (flatMap_injective_of_prefixFree enc hP hE) x

end Headline
/-! ### non-vacuity: a machine with a 1-byte symbol (`0`, "a") and a 3-byte symbol (`3`, "€") -/
namespace Wfsa2Bytes
section Examples

/-- `0 ↦ "a"`, `1 ↦ "b"`, `2 ↦ "ab"` (not prefix-free), anything else `↦ "€"` -/
def exEnc (a : Nat) : List Nat :=
  if a = 0 then [97] else if a = 1 then [98] else if a = 2 then [97, 98] else [226, 130, 172]

def exB : WFSA Nat Nat Nat :=
  ⟨[(0, 1)], [(1, 2)], [⟨0, some 0, 0, 3⟩, ⟨0, some 3, 1, 5⟩, ⟨1, some 0, 1, 7⟩]⟩

example : exB.EpsFree ∧ DistinctArcs exB ∧ ∀ a ∈ exB.labels, exEnc a ≠ [] := by decide
example : (exB.toBytes exEnc).arcs =
    [⟨.inl 0, some 97, .inl 0, 3⟩,
     ⟨.inl 0, some 226, .inr (0, 3, 1, 0), 1⟩, ⟨.inr (0, 3, 1, 0), some 130, .inr (0, 3, 1, 1), 1⟩,
     ⟨.inr (0, 3, 1, 1), some 172, .inl 1, 5⟩,
     ⟨.inl 1, some 97, .inl 1, 7⟩] := by decide
example : decs exEnc exB.labels 5 [97, 226, 130, 172, 97] = [[0, 3, 0]] := by decide
example : Pk (exB.toBytes exEnc) 5 [97, 226, 130, 172, 97] = 210 ∧ Pk exB 3 [0, 3, 0] = 210 := by decide
example : Pk (exB.toBytes exEnc) 5 [97, 226, 130, 172, 97] = Pk exB 3 [0, 3, 0] :=
  toBytes_Pk_unique exEnc exB (by decide) (by decide) (by decide) [0, 3, 0] (by decide)
    (fun x' h1 h2 => by
      have h2' : x'.flatMap exEnc = [97, 226, 130, 172, 97] := h2.trans (by decide)
      have := (mem_decs exEnc exB.labels (by decide) 5 _ x' (Nat.le_refl _)).mpr ⟨h1, h2'⟩
      rw [show decs exEnc exB.labels 5 [97, 226, 130, 172, 97] = [[0, 3, 0]] by decide] at this
      exact List.mem_singleton.mp this)
/-- a truncated code word is not an encoding -/
example : Pk (exB.toBytes exEnc) 2 [226, 130] = 0 ∧ decs exEnc exB.labels 2 [226, 130] = [] := by decide

/-- an ambiguous byte string collects the weights of all its decodings ("a"·"b" and "ab") -/
def exAmb : WFSA Nat Nat Nat :=
  ⟨[(0, 1)], [(2, 1)], [⟨0, some 0, 1, 2⟩, ⟨1, some 1, 2, 3⟩, ⟨0, some 2, 2, 5⟩]⟩

example : exAmb.EpsFree ∧ DistinctArcs exAmb ∧ ∀ a ∈ exAmb.labels, exEnc a ≠ [] := by decide
example : decs exEnc exAmb.labels 2 [97, 98] = [[0, 1], [2]] := by decide
example : Pk (exAmb.toBytes exEnc) 2 [97, 98] = 11 ∧ Pk exAmb 2 [0, 1] = 6 ∧ Pk exAmb 1 [2] = 5 := by
  decide

/-- the hypothesis `DistinctArcs` matters: two parallel arcs `0 --"€"--> 1` of weights `2` and `3` get the
same chain states, and the two chains cross-multiply (`2·2·(2+3)` instead of `2+3`) -/
def exDup : WFSA Nat Nat Nat := ⟨[(0, 1)], [(1, 1)], [⟨0, some 3, 1, 2⟩, ⟨0, some 3, 1, 3⟩]⟩

example : exDup.EpsFree ∧ ¬ DistinctArcs exDup ∧ ∀ a ∈ exDup.labels, exEnc a ≠ [] := by decide
example : Pk exDup 1 [3] = 5 ∧ decs exEnc exDup.labels 3 [226, 130, 172] = [[3]]
    ∧ Pk (exDup.toBytes exEnc) 3 [226, 130, 172] = 20 := by decide

/-- a prefix-free encoding (`false ↦ "a"`, `true ↦ "€"`): the byte machine computes the weight of the
decoded string -/
def exEncP (a : Bool) : List Nat := if a then [226, 130, 172] else [97]

def exP : WFSA Nat Bool Nat :=
  ⟨[(0, 1)], [(1, 2)], [⟨0, some false, 0, 3⟩, ⟨0, some true, 1, 5⟩, ⟨1, some false, 1, 7⟩]⟩

example : PrefixFree exEncP ∧ ∀ a, exEncP a ≠ [] := by
  refine ⟨?_, ?_⟩
  · intro a b h
    cases a <;> cases b <;> simp [exEncP] at h <;> rfl
  · intro a; cases a <;> simp [exEncP]

example : Pk (exP.toBytes exEncP) 5 [97, 226, 130, 172, 97] = Pk exP 3 [false, true, false] :=
  toBytes_Pk_prefixFree exEncP exP (by decide) (by decide)
    (by intro a b h; cases a <;> cases b <;> simp [exEncP] at h <;> rfl)
    (by intro a; cases a <;> simp [exEncP]) [false, true, false]

end Examples
end Wfsa2Bytes

end Genlm
