import GenlmModel.Model.Compose
import GenlmModel.Proofs.TrimSem
import GenlmModel.Proofs.Fst

/-! Auxiliary algebra for `Proofs/Compose.lean` (everything in `Genlm.ComposeAux`): the natural
preorder `≼` without decidability of `K`, weighted relations `state × output × state` with their
composition `rcomp` (associative, `rid` is a unit on the states of the list), and the arc relation
`arcR` of a transducer with the corresponding unfolding `Tk_rec` of `Tk`. -/

namespace Genlm
set_option linter.unusedSectionVars false
open UnfoldAux WfsaAux FstAux

namespace ComposeAux

/-! ### the natural preorder, without decidability of `K` -/
section Le
variable {K : Type} [CommSemiring K]

theorem nle_refl (a : K) : a ≼ a := ⟨0, (add_zero a).symm⟩
theorem nle_of_eq {a b : K} (h : a = b) : a ≼ b := h ▸ nle_refl a
theorem nle_zero (a : K) : (0 : K) ≼ a := ⟨a, (zero_add a).symm⟩
theorem nle_trans {a b c : K} (h1 : a ≼ b) (h2 : b ≼ c) : a ≼ c := by
  obtain ⟨d, rfl⟩ := h1; obtain ⟨e, rfl⟩ := h2; exact ⟨d + e, add_assoc _ _ _⟩
theorem nle_add {a a' b b' : K} (h1 : a ≼ a') (h2 : b ≼ b') : a + b ≼ a' + b' := by
  obtain ⟨d, rfl⟩ := h1; obtain ⟨e, rfl⟩ := h2; exact ⟨d + e, by ring⟩
theorem nle_mul {a a' b b' : K} (h1 : a ≼ a') (h2 : b ≼ b') : a * b ≼ a' * b' := by
  obtain ⟨d, rfl⟩ := h1; obtain ⟨e, rfl⟩ := h2; exact ⟨a * e + d * b + d * e, by ring⟩
theorem nle_add_right (a b : K) : a ≼ a + b := ⟨b, rfl⟩
theorem nle_add_left (a b : K) : a ≼ b + a := ⟨b, add_comm _ _⟩
theorem nle_mul_left (c : K) {a b : K} (h : a ≼ b) : c * a ≼ c * b := nle_mul (nle_refl c) h

theorem nle_sum {α : Type} (l : List α) (f g : α → K) (h : ∀ a ∈ l, f a ≼ g a) :
    (l.map f).sum ≼ (l.map g).sum := by
  induction l with
  | nil => exact nle_refl _
  | cons a l ih =>
    simp only [List.map_cons, List.sum_cons]
    exact nle_add (h a (by simp)) (ih (fun b hb => h b (by simp [hb])))

end Le

/-! ### weighted relations `state × output string × state` and their composition -/
section Rel
variable {ι σ K : Type} [DecidableEq ι] [DecidableEq σ] [CommSemiring K]

/-- the identity relation: no move, nothing written -/
def rid : ι → List σ → ι → K := fun i y j => if i = j ∧ y = [] then 1 else 0

/-- composition: the output is cut in two, the middle state ranges over `S` -/
def rcomp (S : List ι) (A B : ι → List σ → ι → K) : ι → List σ → ι → K := fun i y j =>
  ((splits y).map fun p => (S.map fun s => A i p.1 s * B s p.2 j).sum).sum

theorem rcomp_assoc (S : List ι) (A B C : ι → List σ → ι → K) :
    rcomp S (rcomp S A B) C = rcomp S A (rcomp S B C) := by
  funext i y j
  simp only [rcomp]
  have hL : ∀ p ∈ splits y,
      (S.map fun s => ((splits p.1).map fun q => (S.map fun t => A i q.1 t * B t q.2 s).sum).sum
        * C s p.2 j).sum
      = ((splits p.1).map fun q =>
          (S.map fun t => (S.map fun s => A i q.1 t * B t q.2 s * C s p.2 j).sum).sum).sum := by
    intro p _
    have h1 : ∀ s ∈ S,
        ((splits p.1).map fun q => (S.map fun t => A i q.1 t * B t q.2 s).sum).sum * C s p.2 j
        = ((splits p.1).map fun q => (S.map fun t => A i q.1 t * B t q.2 s * C s p.2 j).sum).sum := by
      intro s _
      rw [← List.sum_map_mul_right]
      congr 1; apply List.map_congr_left; intro q _
      rw [← List.sum_map_mul_right]
    rw [List.map_congr_left h1,
      sum_swap S (splits p.1) (fun s q => (S.map fun t => A i q.1 t * B t q.2 s * C s p.2 j).sum)]
    congr 1; apply List.map_congr_left; intro q _
    exact sum_swap S S (fun s t => A i q.1 t * B t q.2 s * C s p.2 j)
  have hR : ∀ p ∈ splits y,
      (S.map fun t => A i p.1 t *
        ((splits p.2).map fun q => (S.map fun s => B t q.1 s * C s q.2 j).sum).sum).sum
      = ((splits p.2).map fun q =>
          (S.map fun t => (S.map fun s => A i p.1 t * B t q.1 s * C s q.2 j).sum).sum).sum := by
    intro p _
    have h1 : ∀ t ∈ S,
        A i p.1 t * ((splits p.2).map fun q => (S.map fun s => B t q.1 s * C s q.2 j).sum).sum
        = ((splits p.2).map fun q => (S.map fun s => A i p.1 t * B t q.1 s * C s q.2 j).sum).sum := by
      intro t _
      rw [← List.sum_map_mul_left]
      congr 1; apply List.map_congr_left; intro q _
      rw [← List.sum_map_mul_left]
      congr 1; apply List.map_congr_left; intro s _
      rw [mul_assoc]
    rw [List.map_congr_left h1]
    exact sum_swap S (splits p.2) (fun t q => (S.map fun s => A i p.1 t * B t q.1 s * C s q.2 j).sum)
  rw [List.map_congr_left hL, List.map_congr_left hR]
  classical
  exact (splits_assoc y (fun u v w =>
    (S.map fun t => (S.map fun s => A i u t * B t v s * C s w j).sum).sum)).symm

theorem rcomp_congr (S : List ι) (A A' B B' : ι → List σ → ι → K) (i j : ι) (y : List σ)
    (hA : ∀ u s, s ∈ S → A i u s = A' i u s) (hB : ∀ s ∈ S, ∀ u, B s u j = B' s u j) :
    rcomp S A B i y j = rcomp S A' B' i y j := by
  simp only [rcomp]
  congr 1; apply List.map_congr_left; intro p _
  congr 1; apply List.map_congr_left; intro s hs
  rw [hA p.1 s hs, hB s hs p.2]

theorem rcomp_le (S : List ι) (A A' B B' : ι → List σ → ι → K) (i j : ι) (y : List σ)
    (hA : ∀ u s, s ∈ S → A i u s ≼ A' i u s) (hB : ∀ s ∈ S, ∀ u, B s u j ≼ B' s u j) :
    rcomp S A B i y j ≼ rcomp S A' B' i y j := by
  simp only [rcomp]
  apply nle_sum; intro p _
  apply nle_sum; intro s hs
  exact nle_mul (hA p.1 s hs) (hB s hs p.2)

theorem rcomp_add_left (S : List ι) (A A' B : ι → List σ → ι → K) (i j : ι) (y : List σ) :
    rcomp S (fun i y j => A i y j + A' i y j) B i y j = rcomp S A B i y j + rcomp S A' B i y j := by
  simp only [rcomp]
  rw [← List.sum_map_add]
  congr 1; apply List.map_congr_left; intro p _
  rw [← List.sum_map_add]
  congr 1; apply List.map_congr_left; intro s _
  ring

theorem rcomp_add_right (S : List ι) (A B B' : ι → List σ → ι → K) (i j : ι) (y : List σ) :
    rcomp S A (fun i y j => B i y j + B' i y j) i y j = rcomp S A B i y j + rcomp S A B' i y j := by
  simp only [rcomp]
  rw [← List.sum_map_add]
  congr 1; apply List.map_congr_left; intro p _
  rw [← List.sum_map_add]
  congr 1; apply List.map_congr_left; intro s _
  ring

theorem rcomp_zero_left (S : List ι) (A B : ι → List σ → ι → K) (i j : ι) (y : List σ)
    (hA : ∀ u s, s ∈ S → A i u s = 0) : rcomp S A B i y j = 0 := by
  simp only [rcomp]
  apply sum_map_zero; intro p _
  apply sum_map_zero; intro s hs
  rw [hA p.1 s hs, zero_mul]

theorem rcomp_zero_right (S : List ι) (A B : ι → List σ → ι → K) (i j : ι) (y : List σ)
    (hB : ∀ s ∈ S, ∀ u, B s u j = 0) : rcomp S A B i y j = 0 := by
  simp only [rcomp]
  apply sum_map_zero; intro p _
  apply sum_map_zero; intro s hs
  rw [hB s hs p.2, mul_zero]

theorem rid_comp (S : List ι) (hS : S.Nodup) (B : ι → List σ → ι → K) (i j : ι) (y : List σ) :
    rcomp S rid B i y j = if i ∈ S then B i y j else 0 := by
  simp only [rcomp, rid]
  have h1 : ∀ p ∈ splits y,
      (S.map fun s => (if i = s ∧ p.1 = [] then (1 : K) else 0) * B s p.2 j).sum
      = (if p.1 = [] then 1 else 0) * (if i ∈ S then B i p.2 j else 0) := by
    intro p _
    rw [← sum_ite_eq_nodup S hS i (fun s => B s p.2 j), ← List.sum_map_mul_left]
    congr 1; apply List.map_congr_left; intro s _
    by_cases h1 : i = s <;> by_cases h2 : p.1 = [] <;> simp [h1, h2]
  rw [List.map_congr_left h1]
  classical
  exact sum_splits_left_nil' y (fun v => if i ∈ S then B i v j else 0)

theorem comp_rid (S : List ι) (hS : S.Nodup) (A : ι → List σ → ι → K) (i j : ι) (y : List σ) :
    rcomp S A rid i y j = if j ∈ S then A i y j else 0 := by
  simp only [rcomp, rid]
  have h1 : ∀ p ∈ splits y,
      (S.map fun s => A i p.1 s * (if s = j ∧ p.2 = [] then (1 : K) else 0)).sum
      = (if j ∈ S then A i p.1 j else 0) * (if p.2 = [] then 1 else 0) := by
    intro p _
    rw [← sum_ite_eq_nodup S hS j (fun s => A i p.1 s), ← List.sum_map_mul_right]
    congr 1; apply List.map_congr_left; intro s _
    by_cases h1 : j = s
    · subst h1; by_cases h2 : p.2 = [] <;> simp [h2]
    · have h1' : ¬ s = j := fun h => h1 h.symm
      simp [h1, h1']
  rw [List.map_congr_left h1]
  exact sum_splits_right_nil y (fun v => if j ∈ S then A i v j else 0)

end Rel

/-! ### the arcs of a transducer as relations -/
section Arcs
variable {ι σ K : Type} [DecidableEq ι] [DecidableEq σ] [CommSemiring K]

/-- one arc with input label `l` (`none` = ε) from `i` to `j` writing `y` -/
def arcR (T : FST ι σ K) (l : Option σ) : ι → List σ → ι → K := fun i y j =>
  (T.arcs.map fun e => if e.src = i ∧ e.inp = l ∧ e.dst = j ∧ y = e.out.toList then e.w else 0).sum

theorem arcR_src (T : FST ι σ K) (l : Option σ) (i j : ι) (y : List σ) (hi : i ∉ T.states) :
    arcR T l i y j = 0 := by
  unfold arcR
  apply sum_map_zero; intro e he
  rw [if_neg]
  rintro ⟨h, _⟩
  exact hi (h ▸ FstAux.mem_states_src T e he)

theorem arcR_dst (T : FST ι σ K) (l : Option σ) (i j : ι) (y : List σ) (hj : j ∉ T.states) :
    arcR T l i y j = 0 := by
  unfold arcR
  apply sum_map_zero; intro e he
  rw [if_neg]
  rintro ⟨_, _, h, _⟩
  exact hj (h ▸ FstAux.mem_states_dst T e he)

theorem sum_splits_single (c : σ) (y : List σ) (F : List σ → K) :
    ((splits y).map fun p => if p.1 = [c] then F p.2 else 0).sum = ((lpeel (some c) y).map F).sum := by
  cases y with
  | nil => simp [splits, lpeel_some_nil]
  | cons b t =>
    have h := Genlm.sum_splits_left_nil t (fun u v => if b :: u = [c] then F v else 0)
      (fun u v hu => by simp [hu])
    simp only [splits, List.map_cons, List.sum_cons, List.map_map, Function.comp_def, lpeel_some_cons]
    have h0 : (if ([] : List σ) = [c] then F (b :: t) else 0) = 0 := by simp
    refine Eq.trans (congrArg₂ (· + ·) h0 h) ?_
    by_cases hcb : c = b
    · subst hcb; simp
    · have : ¬ b = c := fun h => hcb h.symm
      simp [hcb, this]

/-- splits whose left part is the string of an output label -/
theorem sum_splits_olabel (o : Option σ) (y : List σ) (F : List σ → K) :
    ((splits y).map fun p => if p.1 = o.toList then F p.2 else 0).sum = ((lpeel o y).map F).sum := by
  classical
  cases o with
  | none =>
    simp only [Option.toList_none, lpeel_none, List.map_cons, List.map_nil, List.sum_cons,
      List.sum_nil, add_zero]
    have := sum_splits_left_nil' y F
    rw [← this]
    congr 1; apply List.map_congr_left; intro p _
    by_cases h : p.1 = [] <;> simp [h]
  | some c => exact sum_splits_single c y F

/-- composing one arc relation with a continuation: the arcs leaving `i` with the given input label -/
theorem arcR_comp (T : FST ι σ K) (l : Option σ) (B : ι → List σ → ι → K) (i j : ι) (y : List σ) :
    rcomp T.states (arcR T l) B i y j
      = ((T.arcs.filter (fun e => e.src = i)).map fun e =>
          if e.inp = l then ((lpeel e.out y).map fun y' => e.w * B e.dst y' j).sum else 0).sum := by
  have hS : T.states.Nodup := nodup_eraseDups _
  simp only [rcomp, arcR]
  -- pull the arc sum outside
  have h1 : ∀ p ∈ splits y, (T.states.map fun s =>
        (T.arcs.map fun e => if e.src = i ∧ e.inp = l ∧ e.dst = s ∧ p.1 = e.out.toList then e.w else 0).sum
          * B s p.2 j).sum
      = (T.arcs.map fun e => if e.src = i ∧ e.inp = l then
            (if p.1 = e.out.toList then e.w * B e.dst p.2 j else 0) else 0).sum := by
    intro p _
    have h2 : ∀ s ∈ T.states,
        (T.arcs.map fun e => if e.src = i ∧ e.inp = l ∧ e.dst = s ∧ p.1 = e.out.toList then e.w else 0).sum
          * B s p.2 j
        = (T.arcs.map fun e => if e.dst = s then
            (if e.src = i ∧ e.inp = l ∧ p.1 = e.out.toList then e.w * B s p.2 j else 0) else 0).sum := by
      intro s _
      rw [← List.sum_map_mul_right]
      congr 1; apply List.map_congr_left; intro e _
      by_cases h1 : e.dst = s <;> by_cases h2 : e.src = i <;> by_cases h3 : e.inp = l <;>
        by_cases h4 : p.1 = e.out.toList <;> simp [h1, h2, h3, h4]
    rw [List.map_congr_left h2, sum_swap]
    congr 1; apply List.map_congr_left; intro e he
    rw [sum_ite_eq_nodup T.states hS e.dst
      (fun s => if e.src = i ∧ e.inp = l ∧ p.1 = e.out.toList then e.w * B s p.2 j else 0),
      if_pos (FstAux.mem_states_dst T e he)]
    by_cases h2 : e.src = i <;> by_cases h3 : e.inp = l <;>
      by_cases h4 : p.1 = e.out.toList <;> simp [h2, h3, h4]
  rw [List.map_congr_left h1, sum_swap, sum_filter_ite]
  congr 1; apply List.map_congr_left; intro e _
  by_cases h2 : e.src = i
  · by_cases h3 : e.inp = l
    · simp only [h2, h3, and_self, if_true, decide_true]
      exact sum_splits_olabel e.out y (fun y' => e.w * B e.dst y' j)
    · simp [h2, h3]
  · simp [h2]

/-- `Tk` unfolded through the arc relations: the first arc reads nothing, or the first symbol -/
theorem Tk_rec (T : FST ι σ K) (k : Nat) (i : ι) (x y : List σ) (j : ι) :
    Tk T (k+1) i x y j
      = rcomp T.states (arcR T none) (fun s y' j' => Tk T k s x y' j') i y j
        + (match x with
           | [] => 0
           | a :: x' => rcomp T.states (arcR T (some a)) (fun s y' j' => Tk T k s x' y' j') i y j) := by
  rw [Tk_succ, arcR_comp]
  cases x with
  | nil =>
    simp only [add_zero]
    congr 1; apply List.map_congr_left; intro e _
    cases h : e.inp with
    | none => simp [lpeel_none]
    | some a => simp [lpeel_some_nil]
  | cons a x' =>
    simp only
    rw [arcR_comp, ← List.sum_map_add]
    congr 1; apply List.map_congr_left; intro e _
    cases h : e.inp with
    | none => simp [lpeel_none]
    | some b =>
      by_cases hba : b = a
      · subst hba; simp [lpeel_some_cons]
      · simp [lpeel_some_cons, hba]

end Arcs
end ComposeAux
end Genlm
