import GenlmModel.Model.Semi
import GenlmModel.Proofs.Basic
import GenlmModel.Proofs.Derives
import GenlmModel.Proofs.Mask
import GenlmModel.Proofs.TrimSem

/-!
# The Boolean layer: `Derives` is `WN` over the Boolean semiring

`BoolW` (`Model/Semi.lean`) is the Boolean carrier of the driver.  This file

* proves that its `Add/Mul/Zero/One` instances form a commutative semiring (`BoolW.commSemiring`);
* links the weight-free derivation relation `Derives` (`Proofs/Derives.lean`, the specification language of
  the mask theorems `viable_spec`, `nextSet_spec`) to the weighted reference semantics `WN` evaluated in
  `BoolW`:  `Derives_iff_WN_bool`, `Derives_iff_Wsym_bool`, `DerivesBody_iff_Wbody_bool` (a rule is usable
  iff its weight is `1 = ⟨true⟩`: `boolSupport`), and the special case of all weights `1`
  (`Derives_iff_WN_bool_one`);
* restates the next-token mask through `WN`: `mask_via_WN`, `mask_via_WN_one`, `viable_via_WN`.

No side condition on the heads of the rules is needed: `WN G n X x` for a NONterminal `X` only ever consults
`WN G _ Y _` at nonterminals `Y` (`Wsym` tests `Y ∈ V` first), so rules with a terminal head are dead in both
semantics.  The only side condition is `X ∉ G.V` (for `X ∈ G.V` the two semantics differ when a rule has the
terminal head `X`: example `boolBadG` below); the uniform statement through `Wsym` needs no condition at all.
-/
namespace Genlm

/-- the Boolean carrier of the driver is a commutative semiring (`+` = or, `*` = and) -/
instance BoolW.commSemiring : CommSemiring BoolW where
  add := (· + ·)
  zero := 0
  mul := (· * ·)
  one := 1
  add_assoc := by rintro ⟨a⟩ ⟨b⟩ ⟨c⟩; cases a <;> cases b <;> cases c <;> rfl
  zero_add := by rintro ⟨a⟩; cases a <;> rfl
  add_zero := by rintro ⟨a⟩; cases a <;> rfl
  add_comm := by rintro ⟨a⟩ ⟨b⟩; cases a <;> cases b <;> rfl
  left_distrib := by rintro ⟨a⟩ ⟨b⟩ ⟨c⟩; cases a <;> cases b <;> cases c <;> rfl
  right_distrib := by rintro ⟨a⟩ ⟨b⟩ ⟨c⟩; cases a <;> cases b <;> cases c <;> rfl
  zero_mul := by rintro ⟨a⟩; cases a <;> rfl
  mul_zero := by rintro ⟨a⟩; cases a <;> rfl
  mul_assoc := by rintro ⟨a⟩ ⟨b⟩ ⟨c⟩; cases a <;> cases b <;> cases c <;> rfl
  one_mul := by rintro ⟨a⟩; cases a <;> rfl
  mul_one := by rintro ⟨a⟩; cases a <;> rfl
  mul_comm := by rintro ⟨a⟩ ⟨b⟩; cases a <;> cases b <;> rfl
  nsmul := nsmulRec
  npow := npowRec

namespace LinkAux

/-! ### arithmetic of `BoolW` -/

theorem bool_cases (a : BoolW) : a = 0 ∨ a = 1 := by
  rcases a with ⟨a⟩; cases a
  · exact Or.inl rfl
  · exact Or.inr rfl

theorem bool_zero_ne_one : (0 : BoolW) ≠ 1 := by decide

theorem bool_add_eq_one {a b : BoolW} : a + b = 1 ↔ a = 1 ∨ b = 1 := by
  rcases a with ⟨a⟩; rcases b with ⟨b⟩; cases a <;> cases b <;> decide

theorem bool_mul_eq_one {a b : BoolW} : a * b = 1 ↔ a = 1 ∧ b = 1 := by
  rcases a with ⟨a⟩; rcases b with ⟨b⟩; cases a <;> cases b <;> decide

theorem bool_sum_eq_one (l : List BoolW) : l.sum = 1 ↔ (1 : BoolW) ∈ l := by
  induction l with
  | nil => simp only [List.sum_nil, List.not_mem_nil, iff_false]; exact bool_zero_ne_one
  | cons a l ih =>
    rw [List.sum_cons, bool_add_eq_one, ih, List.mem_cons]
    constructor
    · rintro (h | h)
      · exact Or.inl h.symm
      · exact Or.inr h
    · rintro (h | h)
      · exact Or.inl h.symm
      · exact Or.inr h

theorem bool_sum_map_eq_one {α : Type} (l : List α) (f : α → BoolW) :
    (l.map f).sum = 1 ↔ ∃ a ∈ l, f a = 1 := by
  rw [bool_sum_eq_one, List.mem_map]

/-- the natural preorder of `BoolW` is `false ≤ true` -/
theorem bool_natLe_one {a b : BoolW} (h : a ≼ b) (ha : a = 1) : b = 1 := by
  obtain ⟨c, rfl⟩ := h
  exact bool_add_eq_one.mpr (Or.inl ha)

/-- … and it is antisymmetric (so the limit theorems `compose_limit`, `unfold_limit`, … apply) -/
theorem bool_natLe_antisymm : ∀ a b : BoolW, a ≼ b → b ≼ a → a = b := by
  intro a b h1 h2
  rcases bool_cases a with rfl | rfl
  · rcases bool_cases b with rfl | rfl
    · rfl
    · exact (bool_natLe_one h2 rfl)
  · exact (bool_natLe_one h1 rfl).symm

end LinkAux

open LinkAux UnfoldAux

section
variable {σ : Type} [DecidableEq σ]

/-- the grammar of the usable rules: weight `1 = ⟨true⟩` (a rule of weight `0 = ⟨false⟩` contributes to no
derivation sum; `CFG.add` drops such rules) -/
def boolSupport (G : CFG σ BoolW) : CFG σ BoolW := { G with rules := G.rules.filter fun r => r.w = 1 }

namespace LinkAux

/-! ### monotonicity in the height -/

theorem bool_Wsym_mono (G : CFG σ BoolW) {n m : Nat} (h : n ≤ m) (s : σ) (x : List σ)
    (h1 : Wsym G.V (WN G n) s x = 1) : Wsym G.V (WN G m) s x = 1 :=
  bool_natLe_one (Wsym_le G.V _ _ s (fun u => WN_le_of_le G h s u) x) h1

theorem bool_Wbody_mono (G : CFG σ BoolW) {n m : Nat} (h : n ≤ m) (β : List σ) (x : List σ)
    (h1 : Wbody G.V (WN G n) β x = 1) : Wbody G.V (WN G m) β x = 1 :=
  bool_natLe_one (Wbody_le G.V _ _ β (fun s _ u => WN_le_of_le G h s u) x) h1

theorem bool_WN_mono (G : CFG σ BoolW) {n m : Nat} (h : n ≤ m) (X : σ) (x : List σ)
    (h1 : WN G n X x = 1) : WN G m X x = 1 :=
  bool_natLe_one (WN_le_of_le G h X x) h1

/-! ### unfolding `Wbody` and `WN` in `BoolW` -/

theorem bool_Wbody_cons (V : List σ) (f : σ → List σ → BoolW) (s : σ) (ss x : List σ) :
    Wbody V f (s :: ss) x = 1 ↔ ∃ u v, u ++ v = x ∧ Wsym V f s u = 1 ∧ Wbody V f ss v = 1 := by
  simp only [Wbody, lsum_eq_sum]
  rw [bool_sum_map_eq_one]
  constructor
  · rintro ⟨⟨u, v⟩, hp, h⟩
    exact ⟨u, v, (mem_splits x u v).mp hp, bool_mul_eq_one.mp h⟩
  · rintro ⟨u, v, he, h⟩
    exact ⟨(u, v), (mem_splits x u v).mpr he, bool_mul_eq_one.mpr h⟩

theorem bool_Wbody_nil (V : List σ) (f : σ → List σ → BoolW) (x : List σ) :
    Wbody V f [] x = 1 ↔ x = [] := by
  simp only [Wbody]
  by_cases h : x = []
  · simp [h]
  · simp only [h, iff_false]; exact bool_zero_ne_one

theorem bool_WN_succ (G : CFG σ BoolW) (n : Nat) (X : σ) (x : List σ) :
    WN G (n+1) X x = 1 ↔
      ∃ r ∈ G.rules, r.head = X ∧ r.w = 1 ∧ Wbody G.V (WN G n) r.body x = 1 := by
  simp only [WN, lsum_eq_sum]
  rw [bool_sum_map_eq_one]
  constructor
  · rintro ⟨r, hr, h⟩
    obtain ⟨h1, h2⟩ := List.mem_filter.mp hr
    obtain ⟨h3, h4⟩ := bool_mul_eq_one.mp h
    exact ⟨r, h1, by simpa using h2, h3, h4⟩
  · rintro ⟨r, h1, h2, h3, h4⟩
    exact ⟨r, List.mem_filter.mpr ⟨h1, by simpa using h2⟩, bool_mul_eq_one.mpr ⟨h3, h4⟩⟩

theorem bool_Wsym_term (V : List σ) (f : σ → List σ → BoolW) {a : σ} (ha : a ∈ V) (x : List σ) :
    Wsym V f a x = 1 ↔ x = [a] := by
  unfold Wsym
  rw [if_pos ha]
  by_cases h : x = [a]
  · simp [h]
  · simp only [h, iff_false]; exact bool_zero_ne_one

theorem bool_Wsym_nt (V : List σ) (f : σ → List σ → BoolW) {X : σ} (hX : X ∉ V) (x : List σ) :
    Wsym V f X x = f X x := by
  unfold Wsym; rw [if_neg hX]

/-! ### soundness: a Boolean derivation sum equal to `1` is witnessed by a derivation tree -/

theorem body_sound (G : CFG σ BoolW) (f : σ → List σ → BoolW)
    (hf : ∀ s x, Wsym G.V f s x = 1 → Derives (boolSupport G) s x) (β x : List σ)
    (h : Wbody G.V f β x = 1) : DerivesBody (boolSupport G) β x := by
  induction β generalizing x with
  | nil => rw [(bool_Wbody_nil _ _ _).mp h]; exact .nil
  | cons s ss ih =>
    obtain ⟨u, v, rfl, h1, h2⟩ := (bool_Wbody_cons _ _ _ _ _).mp h
    exact .cons (hf s u h1) (ih v h2)

theorem sym_sound (G : CFG σ BoolW) (n : Nat) (s : σ) (x : List σ)
    (h : Wsym G.V (WN G n) s x = 1) : Derives (boolSupport G) s x := by
  induction n generalizing s x with
  | zero =>
    by_cases hs : s ∈ G.V
    · rw [(bool_Wsym_term _ _ hs x).mp h]
      exact .term (G := boolSupport G) hs
    · rw [bool_Wsym_nt _ _ hs] at h
      exact absurd h bool_zero_ne_one
  | succ n ih =>
    by_cases hs : s ∈ G.V
    · rw [(bool_Wsym_term _ _ hs x).mp h]
      exact .term (G := boolSupport G) hs
    · rw [bool_Wsym_nt _ _ hs] at h
      obtain ⟨r, hr, rfl, hw, hb⟩ := (bool_WN_succ G n s x).mp h
      have hr' : r ∈ (boolSupport G).rules :=
        List.mem_filter.mpr ⟨hr, by simpa using hw⟩
      exact .rule hr' hs (body_sound G _ ih r.body x hb)

/-! ### completeness: a derivation tree has some height -/

theorem complete (G : CFG σ BoolW) :
    (∀ s x, Derives (boolSupport G) s x → ∃ n, Wsym G.V (WN G n) s x = 1) ∧
    (∀ β x, DerivesBody (boolSupport G) β x → ∃ n, Wbody G.V (WN G n) β x = 1) := by
  apply Derives.both
  · intro a ha
    exact ⟨0, (bool_Wsym_term _ _ ha [a]).mpr rfl⟩
  · intro r x hr hh _ ⟨n, hn⟩
    refine ⟨n + 1, ?_⟩
    have hh' : r.head ∉ G.V := hh
    rw [bool_Wsym_nt _ _ hh', bool_WN_succ]
    obtain ⟨h1, h2⟩ := List.mem_filter.mp hr
    exact ⟨r, h1, rfl, by simpa using h2, hn⟩
  · exact ⟨0, (bool_Wbody_nil _ _ _).mpr rfl⟩
  · intro s ss u v _ _ ⟨n1, h1⟩ ⟨n2, h2⟩
    refine ⟨max n1 n2, (bool_Wbody_cons _ _ _ _ _).mpr ⟨u, v, rfl, ?_, ?_⟩⟩
    · exact bool_Wsym_mono G (Nat.le_max_left _ _) s u h1
    · exact bool_Wbody_mono G (Nat.le_max_right _ _) ss v h2

omit [DecidableEq σ] in
/-- a grammar all of whose weights are `1` is its own support, as far as `Derives` can tell -/
theorem derives_support_of_one (G : CFG σ BoolW) (hw : ∀ r ∈ G.rules, r.w = 1) (s : σ) (x : List σ) :
    Derives (boolSupport G) s x ↔ Derives G s x := by
  have hR : ∀ r, r ∈ (boolSupport G).rules ↔ r ∈ G.rules := by
    intro r
    simp only [boolSupport, List.mem_filter, decide_eq_true_eq]
    exact ⟨fun h => h.1, fun h => ⟨h, hw r h⟩⟩
  exact ⟨(Derives_congr (G := boolSupport G) (G' := G) (fun _ => Iff.rfl) hR).1 s x,
    (Derives_congr (G := G) (G' := boolSupport G) (fun _ => Iff.rfl) (fun r => (hR r).symm)).1 s x⟩

end LinkAux

/-! ### the link theorems -/

/-- **`Derives` = Boolean `WN`, uniform statement** (terminals and nonterminals, no side condition): the
symbol `s` derives `x` with the usable rules iff the Boolean weight of `x` from `s` is `1` at some height -/
theorem Derives_iff_Wsym_bool (G : CFG σ BoolW) (s : σ) (x : List σ) :
    Derives (boolSupport G) s x ↔ ∃ n, Wsym G.V (WN G n) s x = 1 :=
  ⟨(complete G).1 s x, fun ⟨n, h⟩ => sym_sound G n s x h⟩

/-- the same for a string of symbols -/
theorem DerivesBody_iff_Wbody_bool (G : CFG σ BoolW) (β x : List σ) :
    DerivesBody (boolSupport G) β x ↔ ∃ n, Wbody G.V (WN G n) β x = 1 :=
  ⟨(complete G).2 β x, fun ⟨n, h⟩ => body_sound G _ (sym_sound G n) β x h⟩

/-- **`Derives` = Boolean `WN`** at a nonterminal: `X` derives `x` with the rules of weight `1` iff some
level of the Boolean derivation sum is `1`.  No condition on the heads of the rules, on `G.S`, or on `x`. -/
theorem Derives_iff_WN_bool (G : CFG σ BoolW) (X : σ) (hX : X ∉ G.V) (x : List σ) :
    Derives (boolSupport G) X x ↔ ∃ n, WN G n X x = 1 := by
  rw [Derives_iff_Wsym_bool]
  simp only [bool_Wsym_nt _ _ hX]

/-- the terminal case: a terminal derives itself and nothing else (whatever rules have it as their head) -/
theorem Derives_terminal_bool (G : CFG σ BoolW) (a : σ) (ha : a ∈ G.V) (x : List σ) :
    Derives (boolSupport G) a x ↔ x = [a] := by
  rw [Derives_iff_Wsym_bool]
  simp only [bool_Wsym_term _ _ ha]
  exact ⟨fun ⟨_, h⟩ => h, fun h => ⟨0, h⟩⟩

/-- the levels are increasing: `∃ n` can be read as "for all large `n`" -/
theorem WN_bool_mono (G : CFG σ BoolW) {n m : Nat} (h : n ≤ m) (X : σ) (x : List σ)
    (h1 : WN G n X x = 1) : WN G m X x = 1 := bool_WN_mono G h X x h1

/-- **all weights `1`**: `Derives G` itself -/
theorem Derives_iff_WN_bool_one (G : CFG σ BoolW) (hw : ∀ r ∈ G.rules, r.w = 1) (X : σ)
    (hX : X ∉ G.V) (x : List σ) : Derives G X x ↔ ∃ n, WN G n X x = 1 := by
  rw [← derives_support_of_one G hw, Derives_iff_WN_bool G X hX]

/-- the language of the start symbol: a derivation exists iff the Boolean string weight is `1` -/
theorem language_iff_WN_bool (G : CFG σ BoolW) (hS : G.S ∉ G.V) (x : List σ) :
    Derives (boolSupport G) G.S x ↔ ∃ n, WN G n G.S x = 1 := Derives_iff_WN_bool G G.S hS x

/-! ### the next-token mask through `WN` -/

/-- the viable-prefix test decides `∃ y n, WN G n S (c ++ y) = 1` -/
theorem viable_via_WN (G : CFG σ BoolW) (hS : G.S ∉ G.V) (c : List σ) :
    viable (boolSupport G) c = true ↔ ∃ y n, WN G n G.S (c ++ y) = 1 := by
  rw [viable_spec]
  constructor
  · rintro ⟨y, h⟩; exact ⟨y, (Derives_iff_WN_bool G G.S hS _).mp h⟩
  · rintro ⟨y, h⟩; exact ⟨y, (Derives_iff_WN_bool G G.S hS _).mpr h⟩

/-- **the mask is the support of the Boolean prefix weights**: `t` is allowed after `c` iff it is a terminal
and some completion `c t y` has Boolean weight `1` -/
theorem mask_via_WN (G : CFG σ BoolW) (hS : G.S ∉ G.V) (c : List σ) (t : σ) :
    t ∈ nextSet (boolSupport G) c ↔ t ∈ G.V ∧ ∃ y n, WN G n G.S (c ++ t :: y) = 1 := by
  rw [nextSet_spec]
  constructor
  · rintro ⟨ht, y, h⟩; exact ⟨ht, y, (Derives_iff_WN_bool G G.S hS _).mp h⟩
  · rintro ⟨ht, y, h⟩; exact ⟨ht, y, (Derives_iff_WN_bool G G.S hS _).mpr h⟩

/-- the same for a grammar all of whose rules have weight `1` (the Boolean image of a grammar whose weights
are all non-zero) -/
theorem mask_via_WN_one (G : CFG σ BoolW) (hw : ∀ r ∈ G.rules, r.w = 1) (hS : G.S ∉ G.V) (c : List σ)
    (t : σ) : t ∈ nextSet G c ↔ t ∈ G.V ∧ ∃ y n, WN G n G.S (c ++ t :: y) = 1 := by
  rw [nextSet_spec]
  constructor
  · rintro ⟨ht, y, h⟩; exact ⟨ht, y, (Derives_iff_WN_bool_one G hw G.S hS _).mp h⟩
  · rintro ⟨ht, y, h⟩; exact ⟨ht, y, (Derives_iff_WN_bool_one G hw G.S hS _).mpr h⟩

/-- without any condition on the start symbol, through `Wsym` -/
theorem mask_via_Wsym (G : CFG σ BoolW) (c : List σ) (t : σ) :
    t ∈ nextSet (boolSupport G) c ↔
      t ∈ G.V ∧ ∃ y n, Wsym G.V (WN G n) G.S (c ++ t :: y) = 1 := by
  rw [nextSet_spec]
  constructor
  · rintro ⟨ht, y, h⟩; exact ⟨ht, y, (Derives_iff_Wsym_bool G G.S _).mp h⟩
  · rintro ⟨ht, y, h⟩; exact ⟨ht, y, (Derives_iff_Wsym_bool G G.S _).mpr h⟩

end

/-! ### non-vacuity and the counterexample for a terminal start symbol -/
section Examples

/-- `S → a S b | ε | A`, `A → S` (a unary cycle), and a dead rule `S → b` of weight `0`;
`S = 0`, `A = 1`, `a = 10`, `b = 11` -/
private def boolExG : CFG Nat BoolW :=
  ⟨0, [10, 11], [⟨1, 0, [10, 0, 11]⟩, ⟨1, 0, []⟩, ⟨1, 0, [1]⟩, ⟨1, 1, [0]⟩, ⟨0, 0, [11]⟩]⟩

example : WN boolExG 3 0 [10, 10, 11, 11] = 1 := by decide
example : WN boolExG 2 0 [10, 10, 11, 11] = 0 := by decide
example : Derives (boolSupport boolExG) 0 [10, 10, 11, 11] :=
  (Derives_iff_WN_bool boolExG 0 (by decide) _).mpr ⟨3, by decide⟩
/-- the rule of weight `0` is not usable: `b` alone is not derived (at no level, by `Derives_iff_WN_bool`) -/
example : WN boolExG 4 0 [11] = 0 := by decide
example : (10 : Nat) ∈ nextSet (boolSupport boolExG) [10] :=
  (mask_via_WN boolExG (by decide) [10] 10).mpr ⟨by decide, [11, 11], 3, by decide⟩

/-- `X ∉ G.V` cannot be dropped in `Derives_iff_WN_bool`: `a → ε` with `a` a terminal.  `WN` at the terminal
`a` sees the rule, `Derives` (like `CFG.derivations`, which tests `is_terminal` first) does not. -/
private def boolBadG : CFG Nat BoolW := ⟨10, [10], [⟨1, 10, []⟩]⟩
example : WN boolBadG 1 10 [] = 1 := by decide
example : ¬ Derives (boolSupport boolBadG) 10 [] := by
  rw [Derives_terminal_bool boolBadG 10 (by decide)]; decide

end Examples

end Genlm
