import GenlmModel.Generated.Earley
import Mathlib.Tactic.Linarith
/-! Agenda priority of the Earley parsers is a strict topological order on dependent items.

All statements are about the GENERATED definitions `Genlm.Gen.Earley.{orderMax, prio}` and
`Genlm.Gen.EarleyRescaled.{orderMax, prio}` (translated from `genlm/grammar/parse/earley.py`,
`earley_rescaled.py`), which are unfolded in the proofs. -/
namespace Genlm

namespace Gen.Earley

/-- `ORDER_MAX = 1 + max(order.values())` strictly dominates every order value. -/
theorem orderMax_gt (m : Int) : orderMax m > m := by
  unfold orderMax; omega

set_option linter.unusedVariables false in
/-- An item `(J, Y)` that feeds `(I, X)` in column `K` (a strictly wider item `I < J`, or the same span and
`order Y < order X`) has a strictly larger priority, i.e. is popped strictly before it. -/
theorem priority_strict (K I J m oX oY : Int) (h0X : 0 ≤ oX) (hX : oX ≤ m) (h0Y : 0 ≤ oY) (hY : oY ≤ m)
    (hJK : J < K) (hdep : I < J ∨ (I = J ∧ oY < oX)) :
    prio K J (orderMax m) oY > prio K I (orderMax m) oX := by
  unfold prio orderMax
  rcases hdep with h | ⟨rfl, h⟩
  · nlinarith [mul_nonneg (sub_nonneg.2 (Int.add_one_le_of_lt h)) (by linarith : (0 : Int) ≤ 1 + m)]
  · linarith

/-- counter-model of the old defect (`ORDER_MAX = max(order.values())`, here `m = 1`): the dependent items
`(J,Y) = (1, order 1)` and `(I,X) = (0, order 0)` in column `K = 2` tie. -/
example : ¬ (prio 2 1 1 1 > prio 2 0 1 0) := by decide

/-- …and the shipped `orderMax` separates the same pair. -/
example : prio 2 1 (orderMax 1) 1 > prio 2 0 (orderMax 1) 0 := by decide

end Gen.Earley

namespace Gen.EarleyRescaled

/-- `ORDER_MAX = 1 + max(order.values())` strictly dominates every order value. -/
theorem orderMax_gt (m : Int) : orderMax m > m := by
  unfold orderMax; omega

set_option linter.unusedVariables false in
/-- An item `(J, Y)` that feeds `(I, X)` in column `K` (a strictly wider item `I < J`, or the same span and
`order Y < order X`) has a strictly larger priority, i.e. is popped strictly before it. -/
theorem priority_strict (K I J m oX oY : Int) (h0X : 0 ≤ oX) (hX : oX ≤ m) (h0Y : 0 ≤ oY) (hY : oY ≤ m)
    (hJK : J < K) (hdep : I < J ∨ (I = J ∧ oY < oX)) :
    prio K J (orderMax m) oY > prio K I (orderMax m) oX := by
  unfold prio orderMax
  rcases hdep with h | ⟨rfl, h⟩
  · nlinarith [mul_nonneg (sub_nonneg.2 (Int.add_one_le_of_lt h)) (by linarith : (0 : Int) ≤ 1 + m)]
  · linarith

/-- counter-model of the old defect (`ORDER_MAX = max(order.values())`, here `m = 1`). -/
example : ¬ (prio 2 1 1 1 > prio 2 0 1 0) := by decide

example : prio 2 1 (orderMax 1) 1 > prio 2 0 (orderMax 1) 0 := by decide

end Gen.EarleyRescaled

end Genlm
