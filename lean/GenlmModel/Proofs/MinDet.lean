import GenlmModel.Model.Det
import GenlmModel.Proofs.Det
import GenlmModel.Proofs.Wfsa2
import Mathlib.Algebra.Field.Basic
import Mathlib.Algebra.Order.Field.Rat
import Mathlib.Data.List.Nodup

/-! # `WFSA.min_det` (property C13, second half): determinisation-based minimisation

Python (`genlm/grammar/wfsa/base.py`):

    min_det     = self.reverse.determinize.trim.reverse.determinize.trim       (Brzozowski)
    determinize : self = self.epsremove.push ; <Mohri's subset construction>

Models used: `WFSA.reverse` (`Model/WfsaOps.lean`), `WFSA.trim`, `WFSA.push`, `WFSA.epsremove`
(`Model/WfsaOps2.lean`), `determinizeN` (`Model/Det.lean`: the body of `determinize` *after*
`self = self.epsremove.push`, `none` = out of fuel or `ZeroDivisionError`).  `K` is a field with decidable
equality and `inv = (·⁻¹)` in the semantic statements; the structural ones hold for any `inv` over a
commutative semiring.  `A` is a machine without ε arcs (`A.EpsFree`).

What is proved (main statements in `Genlm`, helpers in `Genlm.MinDetAux`, everything prefixed `minDet`):

1. **Core pipeline** `reverse ; subset construction ; trim ; reverse ; subset construction ; trim`
   (`h1 : determinizeN (·⁻¹) A.reverse f1 = some D1`, `h2 : determinizeN (·⁻¹) D1.trim.reverse f2 = some D2`):
   * `minDet_preserves` — `forward D2.trim x = forward A x` for every `x`;
     `minDet_preserves_PN` — `PN D2.trim n x = PN A n x` whenever `x.length ≤ n`;
   * `minDet_deterministic` / `minDet_result_deterministic` — `D2.trim` is deterministic
     (`minDet_Deterministic R q0`: no ε arc; at most one arc per state and symbol; every initial entry of
     non-zero weight is `(q0, 1)` with `q0 = initSubset D1.trim.reverse`; no state is listed twice in `start` —
     `_trim(active)` emits `add_I(i, start[i])` for *every* active `i`, the zero ones are skipped by
     Python's `I`); `minDet_trimTo_start_mem`: `(q0, 1)` is listed as soon as `q0` is kept by `trim`.
2. **With the two weight pushings** (`h1 : determinizeN (·⁻¹) (A.reverse.push (·⁻¹) V1) f1 = some D1`,
   `h2 : determinizeN (·⁻¹) (D1.trim.reverse.push (·⁻¹) V2) f2 = some D2`): `minDet_push_preserves(_PN)`
   under the hypothesis of `push_preserves` (the states of potential zero accept nothing),
   `minDet_push_preserves(_PN)_of_coacc` under the decidable hypothesis of `push_preserves_of_coacc`
   (the potentials do not vanish on co-accessible states), `minDet_push_result_deterministic`.
3. **`epsremove`**: `minDet_epsremove_id` — on an ε-free machine, `epsremove` with the closure of the empty
   ε graph (`minDet_idS i k = if i = k then 1 else 0`, `minDet_idOut i = [i]`: Python's `E.closure()` stores
   only `S[i,i] = star(0) = 1`, zero entries are never stored by `WeightedGraph.__setitem__`) returns the
   machine itself.  Both machines handed to `determinize` inside `min_det` are ε-free
   (`minDet_reverse_epsFree`, `minDet_trim_epsFree`, `minDet_det_epsFree`, `minDet_push_epsFree`), hence
   `minDet_determinizePyN_eq`: the full `determinize` is `push` followed by the subset construction.
4. **Mirror models** `minDetN` (core pipeline) and `minDetPyN` (every step of `min_det`:
   `reverse ; epsremove ; push ; subset construction ; trim ; reverse ; epsremove ; push ; subset
   construction ; trim`), with `minDetN_correct`, `minDetPyN_correct`: whenever they return `some R`,
   `R` is deterministic and `forward R = forward A`, `PN R n x = PN A n x` (`x.length ≤ n`).

What is NOT covered:
* the potentials `V1`, `V2` are parameters (Python: `self.backward`, the solution of a linear system
  computed by `WeightedGraph.solve_right`); the theorems hold for every potential satisfying the stated
  hypothesis, which `backward` satisfies over non-negative weights (`push_preserves_nonneg`) but not in
  general (`Wfsa2Aux.exPushBad`);
* termination and absence of `ZeroDivisionError` are hypotheses (`determinizeN … = some _`); the subset
  construction need not terminate (`DetAux.exLoop`), and `push` leaves arcs of weight `0` into dead states
  which can make the construction raise (`DetAux.exDead`) — `min_det` trims only *after* determinising:
  `minDet_exUseless` is a machine with an unreachable state on which `min_det` raises (FINDING);
* `epsremove` is covered only for ε-free inputs (closure of the empty ε graph, assuming `star(0) = 1`);
  for inputs with ε arcs compose with `epsremove_correct` (`Proofs/Wfsa2.lean`) — not done here;
* **minimality of the result is not proved** (nor the uniqueness of the pushed minimal machine); only
  determinism and weight preservation are.  `minDet_exMerge` shows two equivalent states being merged.
* as everywhere in the WFSA models, entries of weight zero that Python's `I` / `F` skip are kept
  (they contribute `0`), and repeated keys mean the sum. -/
set_option linter.unusedSectionVars false

namespace Genlm
open WfsaAux Wfsa2Aux DetAux

/-- a (sub)deterministic machine whose only initial state of non-zero weight is `q0` (weight one):
no ε arc, at most one arc per state and symbol, every initial entry of non-zero weight is `(q0, 1)`
and no state is listed twice in `start` (Python's `I` skips the entries of weight zero) -/
def minDet_Deterministic {ι σ K : Type} [DecidableEq ι] [DecidableEq σ] [Zero K] [One K]
    (R : WFSA ι σ K) (q0 : ι) : Prop :=
  (∀ e ∈ R.arcs, e.lbl ≠ none) ∧
  (∀ (P : ι) (a : σ), (R.arcs.filter fun e => e.src = P ∧ e.lbl = some a).length ≤ 1) ∧
  (∀ s ∈ R.start, s.2 ≠ 0 → s = (q0, 1)) ∧ (R.start.map (·.1)).Nodup

namespace MinDetAux

section Struct
variable {ι σ K : Type} [DecidableEq ι] [DecidableEq σ] [DecidableEq K] [CommSemiring K]

theorem minDet_reverse_epsFree (A : WFSA ι σ K) (hA : A.EpsFree) : A.reverse.EpsFree := by
  intro e he
  simp only [WFSA.reverse, List.mem_map] at he
  obtain ⟨e', he', rfl⟩ := he
  exact hA e' he'

theorem minDet_trimTo_arcs_subset (A : WFSA ι σ K) (act : List ι) (e : Arc ι σ K)
    (he : e ∈ (A.trimTo act).arcs) : e ∈ A.arcs := by
  simp only [WFSA.trimTo, List.mem_flatMap, List.mem_filter] at he
  obtain ⟨_, _, he, _⟩ := he
  exact he

theorem minDet_trimTo_epsFree (A : WFSA ι σ K) (hA : A.EpsFree) (act : List ι) :
    (A.trimTo act).EpsFree :=
  fun e he => hA e (minDet_trimTo_arcs_subset A act e he)

theorem minDet_trim_epsFree (A : WFSA ι σ K) (hA : A.EpsFree) : A.trim.EpsFree :=
  minDet_trimTo_epsFree A hA _

theorem minDet_det_epsFree (inv : K → K) (A : WFSA ι σ K) (fuel : Nat)
    (D : WFSA (List (ι × K)) σ K) (h : determinizeN inv A fuel = some D) : D.EpsFree :=
  (det_deterministic inv A fuel D h).2.1

/-- `_trim(active)` keeps, for every state and symbol, a sublist of the arcs -/
theorem minDet_trimTo_filter_sublist (A : WFSA ι σ K) (act : List ι) (P : ι) (a : σ) :
    ((A.trimTo act).arcs.filter fun e => e.src = P ∧ e.lbl = some a).Sublist
      (A.arcs.filter fun e => e.src = P ∧ e.lbl = some a) := by
  have key : ∀ l : List (Arc ι σ K), (l.filter fun e => e.src = P ∧ e.lbl = some a)
      = (l.filter fun e => e.src = P).filter fun e => e.lbl = some a := by
    intro l
    rw [List.filter_filter]
    apply List.filter_congr
    intro e _
    simp [Bool.and_comm]
  rw [key, key]
  apply List.Sublist.filter
  by_cases hP : P ∈ act
  · rw [trimTo_arcs_filter A act P hP]
    have : (A.arcs.filter fun e => e.src = P ∧ e.dst ∈ act)
        = (A.arcs.filter fun e => e.src = P).filter fun e => e.dst ∈ act := by
      rw [List.filter_filter]
      apply List.filter_congr
      intro e _
      simp [Bool.and_comm]
    rw [this]
    exact List.filter_sublist
  · have := filter_src_flatMap act.eraseDups (nodup_eraseDups act)
      (fun i => A.arcs.filter fun e => e.src = i ∧ e.dst ∈ act)
      (by
        intro j e he
        have := (List.mem_filter.mp he).2
        simp only [decide_eq_true_eq] at this
        exact this.1) P
    rw [if_neg (fun h => hP (List.mem_eraseDups.mp h))] at this
    have h2 : (A.trimTo act).arcs.filter (fun e => e.src = P) = [] := this
    rw [h2]
    exact List.nil_sublist _

theorem minDet_wlook_singleton {κ : Type} [DecidableEq κ] (q i : κ) (w : K) :
    wlook [(q, w)] i = if q = i then w else 0 := by
  rw [wlook_eq_sum_ite]
  simp

/-- trimming a machine with the single initial entry `(q0, 1)`: the non-zero initial entries -/
theorem minDet_trimTo_start (A : WFSA ι σ K) (q0 : ι) (hA : A.start = [(q0, 1)]) (act : List ι) :
    (∀ s ∈ (A.trimTo act).start, s.2 ≠ 0 → s = (q0, 1)) ∧
      ((A.trimTo act).start.map (·.1)).Nodup := by
  constructor
  · intro s hs hne
    simp only [WFSA.trimTo, List.mem_map] at hs
    obtain ⟨i, _, rfl⟩ := hs
    rw [hA, minDet_wlook_singleton] at hne ⊢
    by_cases h : q0 = i
    · subst h; simp
    · simp [h] at hne
  · have : (A.trimTo act).start.map (·.1) = act.eraseDups := by
      simp [WFSA.trimTo, List.map_map, Function.comp_def]
    rw [this]
    exact nodup_eraseDups act

/-- … and the initial state itself is listed (with weight one) when it is kept -/
theorem minDet_trimTo_start_mem (A : WFSA ι σ K) (q0 : ι) (hA : A.start = [(q0, 1)]) (act : List ι)
    (h : q0 ∈ act) : (q0, 1) ∈ (A.trimTo act).start := by
  simp only [WFSA.trimTo, List.mem_map]
  refine ⟨q0, List.mem_eraseDups.mpr h, ?_⟩
  rw [hA, minDet_wlook_singleton]
  simp

/-- **`trim` of a determinised machine is deterministic** -/
theorem minDet_trim_det_deterministic (inv : K → K) (B : WFSA ι σ K) (fuel : Nat)
    (D : WFSA (List (ι × K)) σ K) (h : determinizeN inv B fuel = some D) :
    minDet_Deterministic D.trim (initSubset B) := by
  have hdet := det_deterministic inv B fuel D h
  refine ⟨minDet_trim_epsFree D hdet.2.1, ?_, ?_⟩
  · intro P a
    exact le_trans (minDet_trimTo_filter_sublist D _ P a).length_le (hdet.2.2 P a)
  · exact minDet_trimTo_start D _ hdet.1 _

end Struct

section PushEps
variable {ι σ K : Type} [DecidableEq ι] [DecidableEq σ] [DecidableEq K]
  [Add K] [Mul K] [Zero K] [One K]

theorem minDet_push_lbl (inv : K → K) (A : WFSA ι σ K) (V : ι → K) (e : Arc ι σ K)
    (he : e ∈ (A.push inv V).arcs) : ∃ e' ∈ A.arcs, e.lbl = e'.lbl := by
  simp only [WFSA.push, List.mem_flatMap, List.mem_map, List.mem_filter] at he
  obtain ⟨_, _, e', ⟨he', _⟩, rfl⟩ := he
  exact ⟨e', he', rfl⟩


theorem minDet_push_epsFree (inv : K → K) (A : WFSA ι σ K) (hA : A.EpsFree) (V : ι → K) :
    (A.push inv V).EpsFree := by
  intro e he
  obtain ⟨e', he', hl⟩ := minDet_push_lbl inv A V e he
  rw [hl]
  exact hA e' he'

end PushEps

/-! ### `epsremove` on an ε-free machine -/
section EpsId
variable {ι σ K : Type} [DecidableEq ι]

/-- the closure matrix of an empty ε graph: `S[i,i] = star(0) = 1`, nothing else is stored -/
def minDet_idS [Zero K] [One K] (i k : ι) : K := if i = k then 1 else 0

/-- `S.outgoing[i] = {i}` -/
def minDet_idOut (i : ι) : List ι := [i]

omit [DecidableEq ι] in
theorem minDet_flatMap_singleton {α : Type} (l : List α) (f : α → α) (hf : ∀ a ∈ l, f a = a) :
    (l.flatMap fun a => [f a]) = l := by
  induction l with
  | nil => rfl
  | cons a l ih =>
    rw [List.flatMap_cons, hf a (by simp), ih (fun b hb => hf b (by simp [hb]))]
    rfl

end EpsId

/-! ### the chain of equalities -/
section Chain
variable {ι σ K : Type} [DecidableEq ι] [DecidableEq σ] [DecidableEq K] [Field K]

/-- the chain `trim ∘ det ∘ (·) ∘ reverse ∘ trim ∘ det ∘ (·) ∘ reverse`, where `B1`, `B2` are any ε-free
machines equivalent to the inputs of the two determinisations -/
theorem minDet_chain_PN (A B1 : WFSA ι σ K) (hB1 : B1.EpsFree)
    (hB1A : ∀ n y, PN B1 n y = PN A.reverse n y)
    (f1 : Nat) (D1 : WFSA (List (ι × K)) σ K) (h1 : determinizeN (·⁻¹) B1 f1 = some D1)
    (B2 : WFSA (List (ι × K)) σ K) (hB2 : B2.EpsFree)
    (hB2D : ∀ n y, PN B2 n y = PN D1.trim.reverse n y)
    (f2 : Nat) (D2 : WFSA (List (List (ι × K) × K)) σ K) (h2 : determinizeN (·⁻¹) B2 f2 = some D2)
    (n : Nat) (x : List σ) (hn : x.length ≤ n) :
    PN D2.trim n x = PN A n x := by
  have hn' : x.reverse.length ≤ n := by simpa using hn
  calc PN D2.trim n x = PN D2 n x := wfsa_trim_PN D2 n x
    _ = PN B2 n x := det_preserves_PN B2 hB2 f2 D2 h2 n x hn
    _ = PN D1.trim.reverse n x := hB2D n x
    _ = PN D1.trim.reverse n x.reverse.reverse := by rw [List.reverse_reverse]
    _ = PN D1.trim n x.reverse := reverse_PN D1.trim n x.reverse
    _ = PN D1 n x.reverse := wfsa_trim_PN D1 n x.reverse
    _ = PN B1 n x.reverse := det_preserves_PN B1 hB1 f1 D1 h1 n x.reverse hn'
    _ = PN A.reverse n x.reverse := hB1A n _
    _ = PN A n x := reverse_PN A n x

theorem minDet_chain_forward (A : WFSA ι σ K) (hA : A.EpsFree) (B2 : WFSA (List (ι × K)) σ K)
    (f2 : Nat) (D2 : WFSA (List (List (ι × K) × K)) σ K) (h2 : determinizeN (·⁻¹) B2 f2 = some D2)
    (hPN : ∀ n x, x.length ≤ n → PN D2.trim n x = PN A n x) (x : List σ) :
    forward D2.trim x = forward A x := by
  rw [forward_correct_PN D2.trim (minDet_trim_epsFree D2 (minDet_det_epsFree _ B2 f2 D2 h2)) x
      x.length (le_refl _),
    forward_correct_PN A hA x x.length (le_refl _), hPN _ _ (le_refl _)]

end Chain

end MinDetAux
open MinDetAux

/-! ### (3) `epsremove` is the identity on ε-free machines -/
section EpsRemove
variable {ι σ K : Type} [DecidableEq ι] [DecidableEq σ] [CommSemiring K]

/-- **on an ε-free machine `epsremove` (with the closure of the empty ε graph) returns the machine
itself** -/
theorem minDet_epsremove_id (A : WFSA ι σ K) (hA : A.EpsFree) :
    A.epsremove minDet_idS minDet_idOut = A := by
  obtain ⟨st, sp, arcs⟩ := A
  have hf : arcs.filter (fun e => e.lbl.isSome) = arcs := by
    rw [List.filter_eq_self]
    intro e he
    have := hA e he
    cases hl : e.lbl with
    | none => exact absurd hl this
    | some a => rfl
  simp only [WFSA.epsremove, hf, minDet_idOut, List.map_cons, List.map_nil, WFSA.mk.injEq, true_and]
  constructor
  · apply minDet_flatMap_singleton st (fun s => (s.1, s.2 * minDet_idS s.1 s.1))
    intro s _
    simp [minDet_idS]
  · apply minDet_flatMap_singleton arcs (fun e => ⟨e.src, e.lbl, e.dst, e.w * minDet_idS e.dst e.dst⟩)
    intro e _
    simp [minDet_idS]

end EpsRemove

/-! ### mirror models -/
section Models
variable {ι σ K : Type} [DecidableEq ι] [DecidableEq σ] [DecidableEq K]
  [Add K] [Mul K] [Zero K] [One K]

/-- `WFSA.determinize` in full on a machine whose ε graph is empty: `self = self.epsremove.push`
(the closure of the empty ε graph; `V` is Python's `self.backward` of the ε-removed machine), then
the subset construction -/
def minDet_determinizePyN (inv : K → K) (A : WFSA ι σ K) (V : ι → K) (fuel : Nat) :
    Option (WFSA (List (ι × K)) σ K) :=
  determinizeN inv ((A.epsremove minDet_idS minDet_idOut).push inv V) fuel

/-- `min_det` without the two `epsremove.push` steps:
`reverse ; subset construction ; trim ; reverse ; subset construction ; trim` -/
def minDetN (inv : K → K) (A : WFSA ι σ K) (f1 f2 : Nat) :
    Option (WFSA (List (List (ι × K) × K)) σ K) :=
  (determinizeN inv A.reverse f1).bind fun D1 =>
    (determinizeN inv D1.trim.reverse f2).map fun D2 => D2.trim

/-- `WFSA.min_det = self.reverse.determinize.trim.reverse.determinize.trim` on a machine without
ε arcs; `V1`, `V2` are the potentials used by the two `push` steps (Python: `backward`) -/
def minDetPyN (inv : K → K) (A : WFSA ι σ K) (V1 : ι → K) (V2 : List (ι × K) → K) (f1 f2 : Nat) :
    Option (WFSA (List (List (ι × K) × K)) σ K) :=
  (minDet_determinizePyN inv A.reverse V1 f1).bind fun D1 =>
    (minDet_determinizePyN inv D1.trim.reverse V2 f2).map fun D2 => D2.trim

theorem minDetN_eq_some (inv : K → K) (A : WFSA ι σ K) (f1 f2 : Nat)
    (R : WFSA (List (List (ι × K) × K)) σ K) (h : minDetN inv A f1 f2 = some R) :
    ∃ D1 D2, determinizeN inv A.reverse f1 = some D1 ∧
      determinizeN inv D1.trim.reverse f2 = some D2 ∧ R = D2.trim := by
  unfold minDetN at h
  obtain ⟨D1, h1, h⟩ := Option.bind_eq_some_iff.mp h
  obtain ⟨D2, h2, h⟩ := Option.map_eq_some_iff.mp h
  exact ⟨D1, D2, h1, h2, h.symm⟩

theorem minDetPyN_eq_some (inv : K → K) (A : WFSA ι σ K) (V1 : ι → K) (V2 : List (ι × K) → K)
    (f1 f2 : Nat) (R : WFSA (List (List (ι × K) × K)) σ K) (h : minDetPyN inv A V1 V2 f1 f2 = some R) :
    ∃ D1 D2, minDet_determinizePyN inv A.reverse V1 f1 = some D1 ∧
      minDet_determinizePyN inv D1.trim.reverse V2 f2 = some D2 ∧ R = D2.trim := by
  unfold minDetPyN at h
  obtain ⟨D1, h1, h⟩ := Option.bind_eq_some_iff.mp h
  obtain ⟨D2, h2, h⟩ := Option.map_eq_some_iff.mp h
  exact ⟨D1, D2, h1, h2, h.symm⟩

end Models

/-! ### (1) the core pipeline (no push) -/
section Core
variable {ι σ K : Type} [DecidableEq ι] [DecidableEq σ] [DecidableEq K] [Field K]

/-- **(1a) `min_det` (subset constructions, trims, reversals) preserves the stratified weights** -/
theorem minDet_preserves_PN (A : WFSA ι σ K) (hA : A.EpsFree)
    (f1 : Nat) (D1 : WFSA (List (ι × K)) σ K) (h1 : determinizeN (·⁻¹) A.reverse f1 = some D1)
    (f2 : Nat) (D2 : WFSA (List (List (ι × K) × K)) σ K)
    (h2 : determinizeN (·⁻¹) D1.trim.reverse f2 = some D2)
    (n : Nat) (x : List σ) (hn : x.length ≤ n) :
    PN D2.trim n x = PN A n x :=
  minDet_chain_PN A A.reverse (minDet_reverse_epsFree A hA) (fun _ _ => rfl) f1 D1 h1
    D1.trim.reverse
    (minDet_reverse_epsFree _ (minDet_trim_epsFree D1 (minDet_det_epsFree _ _ f1 D1 h1)))
    (fun _ _ => rfl) f2 D2 h2 n x hn

/-- **(1a) … and the value of `WFSA.__call__` on every string** -/
theorem minDet_preserves (A : WFSA ι σ K) (hA : A.EpsFree)
    (f1 : Nat) (D1 : WFSA (List (ι × K)) σ K) (h1 : determinizeN (·⁻¹) A.reverse f1 = some D1)
    (f2 : Nat) (D2 : WFSA (List (List (ι × K) × K)) σ K)
    (h2 : determinizeN (·⁻¹) D1.trim.reverse f2 = some D2) (x : List σ) :
    forward D2.trim x = forward A x :=
  minDet_chain_forward A hA _ f2 D2 h2
    (fun n x hn => minDet_preserves_PN A hA f1 D1 h1 f2 D2 h2 n x hn) x

end Core

section CoreDet
variable {ι σ K : Type} [DecidableEq ι] [DecidableEq σ] [DecidableEq K] [CommSemiring K]

/-- **(1b) the result of `min_det` is deterministic** (any `inv`, any commutative semiring): no ε arc,
at most one arc per state and symbol, a single initial state of non-zero weight -/
theorem minDet_deterministic (inv : K → K) (B : WFSA ι σ K) (fuel : Nat)
    (D : WFSA (List (ι × K)) σ K) (h : determinizeN inv B fuel = some D) :
    minDet_Deterministic D.trim (initSubset B) :=
  minDet_trim_det_deterministic inv B fuel D h

/-- (1b) for the pipeline: the initial state is the initial subset of `D1.trim.reverse` -/
theorem minDet_result_deterministic (inv : K → K) (A : WFSA ι σ K)
    (f1 : Nat) (D1 : WFSA (List (ι × K)) σ K) (_h1 : determinizeN inv A.reverse f1 = some D1)
    (f2 : Nat) (D2 : WFSA (List (List (ι × K) × K)) σ K)
    (h2 : determinizeN inv D1.trim.reverse f2 = some D2) :
    minDet_Deterministic D2.trim (initSubset D1.trim.reverse) :=
  minDet_deterministic inv _ f2 D2 h2

end CoreDet

/-! ### (2) with the two `push` steps -/
section Push
variable {ι σ K : Type} [DecidableEq ι] [DecidableEq σ] [DecidableEq K] [Field K]

/-- **(2a) `min_det` with the weight pushings**, for any potentials `V1`, `V2` whose zeros are dead
states (the hypothesis of `push_preserves`) -/
theorem minDet_push_preserves_PN (A : WFSA ι σ K) (hA : A.EpsFree)
    (V1 : ι → K) (hV1 : ∀ i ∈ A.reverse.states, V1 i = 0 → ∀ k x, Bk A.reverse k i x = 0)
    (f1 : Nat) (D1 : WFSA (List (ι × K)) σ K)
    (h1 : determinizeN (·⁻¹) (A.reverse.push (·⁻¹) V1) f1 = some D1)
    (V2 : List (ι × K) → K)
    (hV2 : ∀ i ∈ D1.trim.reverse.states, V2 i = 0 → ∀ k x, Bk D1.trim.reverse k i x = 0)
    (f2 : Nat) (D2 : WFSA (List (List (ι × K) × K)) σ K)
    (h2 : determinizeN (·⁻¹) (D1.trim.reverse.push (·⁻¹) V2) f2 = some D2)
    (n : Nat) (x : List σ) (hn : x.length ≤ n) :
    PN D2.trim n x = PN A n x :=
  minDet_chain_PN A (A.reverse.push (·⁻¹) V1)
    (minDet_push_epsFree _ _ (minDet_reverse_epsFree A hA) V1)
    (fun n y => push_preserves_PN A.reverse V1 hV1 n y) f1 D1 h1
    (D1.trim.reverse.push (·⁻¹) V2)
    (minDet_push_epsFree _ _
      (minDet_reverse_epsFree _ (minDet_trim_epsFree D1 (minDet_det_epsFree _ _ f1 D1 h1))) V2)
    (fun n y => push_preserves_PN D1.trim.reverse V2 hV2 n y) f2 D2 h2 n x hn

theorem minDet_push_preserves (A : WFSA ι σ K) (hA : A.EpsFree)
    (V1 : ι → K) (hV1 : ∀ i ∈ A.reverse.states, V1 i = 0 → ∀ k x, Bk A.reverse k i x = 0)
    (f1 : Nat) (D1 : WFSA (List (ι × K)) σ K)
    (h1 : determinizeN (·⁻¹) (A.reverse.push (·⁻¹) V1) f1 = some D1)
    (V2 : List (ι × K) → K)
    (hV2 : ∀ i ∈ D1.trim.reverse.states, V2 i = 0 → ∀ k x, Bk D1.trim.reverse k i x = 0)
    (f2 : Nat) (D2 : WFSA (List (List (ι × K) × K)) σ K)
    (h2 : determinizeN (·⁻¹) (D1.trim.reverse.push (·⁻¹) V2) f2 = some D2) (x : List σ) :
    forward D2.trim x = forward A x :=
  minDet_chain_forward A hA _ f2 D2 h2
    (fun n x hn => minDet_push_preserves_PN A hA V1 hV1 f1 D1 h1 V2 hV2 f2 D2 h2 n x hn) x

/-- (2a) with the decidable hypothesis of `push_preserves_of_coacc`: the potentials do not vanish
on co-accessible states -/
theorem minDet_push_preserves_PN_of_coacc (A : WFSA ι σ K) (hA : A.EpsFree)
    (V1 : ι → K) (hV1 : ∀ i ∈ A.reverse.states, V1 i = 0 → i ∉ A.reverse.coaccessible)
    (f1 : Nat) (D1 : WFSA (List (ι × K)) σ K)
    (h1 : determinizeN (·⁻¹) (A.reverse.push (·⁻¹) V1) f1 = some D1)
    (V2 : List (ι × K) → K)
    (hV2 : ∀ i ∈ D1.trim.reverse.states, V2 i = 0 → i ∉ D1.trim.reverse.coaccessible)
    (f2 : Nat) (D2 : WFSA (List (List (ι × K) × K)) σ K)
    (h2 : determinizeN (·⁻¹) (D1.trim.reverse.push (·⁻¹) V2) f2 = some D2)
    (n : Nat) (x : List σ) (hn : x.length ≤ n) :
    PN D2.trim n x = PN A n x :=
  minDet_push_preserves_PN A hA V1
    (fun i hi hVi k x => Bk_of_not_coacc _ k i x (hV1 i hi hVi)) f1 D1 h1 V2
    (fun i hi hVi k x => Bk_of_not_coacc _ k i x (hV2 i hi hVi)) f2 D2 h2 n x hn

theorem minDet_push_preserves_of_coacc (A : WFSA ι σ K) (hA : A.EpsFree)
    (V1 : ι → K) (hV1 : ∀ i ∈ A.reverse.states, V1 i = 0 → i ∉ A.reverse.coaccessible)
    (f1 : Nat) (D1 : WFSA (List (ι × K)) σ K)
    (h1 : determinizeN (·⁻¹) (A.reverse.push (·⁻¹) V1) f1 = some D1)
    (V2 : List (ι × K) → K)
    (hV2 : ∀ i ∈ D1.trim.reverse.states, V2 i = 0 → i ∉ D1.trim.reverse.coaccessible)
    (f2 : Nat) (D2 : WFSA (List (List (ι × K) × K)) σ K)
    (h2 : determinizeN (·⁻¹) (D1.trim.reverse.push (·⁻¹) V2) f2 = some D2) (x : List σ) :
    forward D2.trim x = forward A x :=
  minDet_push_preserves A hA V1
    (fun i hi hVi k x => Bk_of_not_coacc _ k i x (hV1 i hi hVi)) f1 D1 h1 V2
    (fun i hi hVi k x => Bk_of_not_coacc _ k i x (hV2 i hi hVi)) f2 D2 h2 x

/-- (2b) the result is deterministic; its initial state is the initial subset of the pushed machine -/
theorem minDet_push_result_deterministic (inv : K → K) (A : WFSA ι σ K) (V1 : ι → K)
    (f1 : Nat) (D1 : WFSA (List (ι × K)) σ K)
    (_h1 : determinizeN inv (A.reverse.push inv V1) f1 = some D1) (V2 : List (ι × K) → K)
    (f2 : Nat) (D2 : WFSA (List (List (ι × K) × K)) σ K)
    (h2 : determinizeN inv (D1.trim.reverse.push inv V2) f2 = some D2) :
    minDet_Deterministic D2.trim (initSubset (D1.trim.reverse.push inv V2)) :=
  minDet_deterministic inv _ f2 D2 h2

end Push

/-! ### (3)+(4) the mirror models `minDetN`, `minDetPyN` -/
section MirrorEps
variable {ι σ K : Type} [DecidableEq ι] [DecidableEq σ] [DecidableEq K] [CommSemiring K]

/-- on an ε-free machine the full `determinize` is `push` followed by the subset construction -/
theorem minDet_determinizePyN_eq (inv : K → K) (A : WFSA ι σ K) (hA : A.EpsFree) (V : ι → K)
    (fuel : Nat) :
    minDet_determinizePyN inv A V fuel = determinizeN inv (A.push inv V) fuel := by
  rw [minDet_determinizePyN, minDet_epsremove_id A hA]

end MirrorEps

section Mirror
variable {ι σ K : Type} [DecidableEq ι] [DecidableEq σ] [DecidableEq K] [Field K]

/-- **(4) `minDetN`: whenever it returns `some R`, `R` is deterministic and equivalent to `A`** -/
theorem minDetN_correct (A : WFSA ι σ K) (hA : A.EpsFree) (f1 f2 : Nat)
    (R : WFSA (List (List (ι × K) × K)) σ K) (h : minDetN (·⁻¹) A f1 f2 = some R) :
    (∀ x, forward R x = forward A x) ∧ (∀ n x, x.length ≤ n → PN R n x = PN A n x) ∧
      ∃ q0, minDet_Deterministic R q0 := by
  obtain ⟨D1, D2, h1, h2, rfl⟩ := minDetN_eq_some _ A f1 f2 R h
  exact ⟨minDet_preserves A hA f1 D1 h1 f2 D2 h2,
    fun n x hn => minDet_preserves_PN A hA f1 D1 h1 f2 D2 h2 n x hn,
    _, minDet_result_deterministic _ A f1 D1 h1 f2 D2 h2⟩

/-- **`minDetPyN` (all the steps of `min_det` on an ε-free machine, the potentials being parameters):
whenever it returns `some R`, `R` is deterministic and equivalent to `A`** -/
theorem minDetPyN_correct (A : WFSA ι σ K) (hA : A.EpsFree) (V1 : ι → K) (V2 : List (ι × K) → K)
    (f1 f2 : Nat)
    (hV1 : ∀ i ∈ A.reverse.states, V1 i = 0 → i ∉ A.reverse.coaccessible)
    (hV2 : ∀ D1 ∈ minDet_determinizePyN (·⁻¹) A.reverse V1 f1,
      ∀ i ∈ D1.trim.reverse.states, V2 i = 0 → i ∉ D1.trim.reverse.coaccessible)
    (R : WFSA (List (List (ι × K) × K)) σ K) (h : minDetPyN (·⁻¹) A V1 V2 f1 f2 = some R) :
    (∀ x, forward R x = forward A x) ∧ (∀ n x, x.length ≤ n → PN R n x = PN A n x) ∧
      ∃ q0, minDet_Deterministic R q0 := by
  obtain ⟨D1, D2, h1, h2, rfl⟩ := minDetPyN_eq_some _ A V1 V2 f1 f2 R h
  have hV2' := hV2 D1 h1
  have hD1 : D1.trim.reverse.EpsFree := by
    rw [minDet_determinizePyN_eq _ _ (minDet_reverse_epsFree A hA)] at h1
    exact minDet_reverse_epsFree _ (minDet_trim_epsFree D1 (minDet_det_epsFree _ _ f1 D1 h1))
  rw [minDet_determinizePyN_eq _ _ (minDet_reverse_epsFree A hA)] at h1
  rw [minDet_determinizePyN_eq _ _ hD1] at h2
  exact ⟨minDet_push_preserves_of_coacc A hA V1 hV1 f1 D1 h1 V2 hV2' f2 D2 h2,
    fun n x hn => minDet_push_preserves_PN_of_coacc A hA V1 hV1 f1 D1 h1 V2 hV2' f2 D2 h2 n x hn,
    _, minDet_push_result_deterministic _ A V1 f1 D1 h1 V2 f2 D2 h2⟩

end Mirror

/-! ### non-vacuity -/
namespace MinDetAux

/-- the potential of `exDet.reverse` (Python: `exDet.reverse.backward`) -/
def minDet_exV1 (i : Nat) : ℚ := if i = 0 then 1 else if i = 1 then 5/4 else if i = 2 then 3/8 else 0

/-- the potential of the second `push` (the backward weights of `D1.trim.reverse`) -/
def minDet_exV2 (Q : List (Nat × ℚ)) : ℚ :=
  if Q = [(1, 5/8), (2, 1/8)] then 1
  else if Q = [(2, 1/9), (0, 8/9)] then 3/4
  else if Q = [(1, 5/6), (2, 1/6)] then 3/4
  else if Q = [(2, 1/3), (0, 2/3)] then 1/8
  else 0

/-- a deterministic machine with two equivalent states (`1` and `2`) -/
def minDet_exMerge : WFSA Nat Nat ℚ :=
  ⟨[(0, 1)], [(3, 1)],
   [⟨0, some 7, 1, 1/2⟩, ⟨0, some 9, 2, 1/4⟩, ⟨1, some 8, 3, 1/3⟩, ⟨2, some 8, 3, 1/3⟩]⟩

-- `exDet` (`Proofs/Det.lean`) is ε-free and not deterministic; both subset constructions end
example : (determinizeN (·⁻¹) exDet.reverse 5).isSome = true := by decide +kernel
example : (minDetN (·⁻¹) exDet 5 5).isSome = true := by decide +kernel
example : (minDetN (·⁻¹) exDet 5 4).isSome = false := by decide +kernel
example : (minDetN (·⁻¹) exDet 5 5).map (fun R => (R.states.length, R.arcs.length, forward R [7, 8, 8],
    forward R [7, 7, 8])) = some (4, 6, 1/12, 1/72) := by decide +kernel
example : forward exDet [7, 8, 8] = 1/12 ∧ forward exDet [7, 7, 8] = 1/72 := by decide +kernel
example (R : WFSA (List (List (Nat × ℚ) × ℚ)) Nat ℚ) (h : minDetN (·⁻¹) exDet 5 5 = some R)
    (x : List Nat) : forward R x = forward exDet x :=
  (minDetN_correct exDet (by decide) 5 5 R h).1 x

-- with the pushes: the potentials are the backward weights, they satisfy the hypotheses
example : ∀ i ∈ exDet.reverse.states, minDet_exV1 i
    = wlook exDet.reverse.stop i
      + ((exDet.reverse.arcs.filter fun e => e.src = i).map fun e => e.w * minDet_exV1 e.dst).sum := by
  decide +kernel
example : ∀ D1 ∈ minDet_determinizePyN (·⁻¹) exDet.reverse minDet_exV1 5,
    ∀ i ∈ D1.trim.reverse.states, minDet_exV2 i
      = wlook D1.trim.reverse.stop i
        + ((D1.trim.reverse.arcs.filter fun e => e.src = i).map fun e => e.w * minDet_exV2 e.dst).sum := by
  decide +kernel
example : (minDetPyN (·⁻¹) exDet minDet_exV1 minDet_exV2 5 5).isSome = true := by decide +kernel
example : (minDetPyN (·⁻¹) exDet minDet_exV1 minDet_exV2 5 5).map
    (fun R => (R.states.length, R.arcs.length, forward R [7, 8, 8], forward R [7, 7, 8]))
    = some (4, 6, 1/12, 1/72) := by decide +kernel
example (R : WFSA (List (List (Nat × ℚ) × ℚ)) Nat ℚ)
    (h : minDetPyN (·⁻¹) exDet minDet_exV1 minDet_exV2 5 5 = some R) (x : List Nat) :
    forward R x = forward exDet x :=
  (minDetPyN_correct exDet (by decide) minDet_exV1 minDet_exV2 5 5 (by decide +kernel)
    (by decide +kernel) R h).1 x

-- equivalent states are merged (4 states become 3); minimality in general is NOT proved
example : minDet_exMerge.states.length = 4 := by decide +kernel
example : (minDetN (·⁻¹) minDet_exMerge 5 5).map (fun R => (R.states.length, forward R [7, 8],
    forward R [9, 8])) = some (3, 1/6, 1/12) := by decide +kernel
example : forward minDet_exMerge [7, 8] = 1/6 ∧ forward minDet_exMerge [9, 8] = 1/12 := by
  decide +kernel

/-- **`min_det` raises on a machine that is not trim**: the state `2` cannot be reached and has an arc
into the reachable part.  In the reversal it is a dead state (backward weight `0`); `push` keeps the arc
`1 -8-> 2` with weight `0`, the chart of the subset `{1}` for the symbol `8` is `{2: 0}` of mass `0`, and
the first subset construction raises `ZeroDivisionError` (observed on the Python code with the `Float`
semiring: `A.min_det` raises, `A.trim.min_det` does not).  The hypothesis on the potential holds, so this
is not an instance where the theorems fail: `minDetPyN` is `none`. -/
def minDet_exUseless : WFSA Nat Nat ℚ :=
  ⟨[(0, 1)], [(1, 1)], [⟨0, some 7, 1, 1⟩, ⟨2, some 8, 1, 1⟩]⟩

/-- the backward weights of `minDet_exUseless.reverse` -/
def minDet_exUselessV (i : Nat) : ℚ := if i = 2 then 0 else 1

example : ∀ i ∈ minDet_exUseless.reverse.states, minDet_exUselessV i
    = wlook minDet_exUseless.reverse.stop i + ((minDet_exUseless.reverse.arcs.filter
        fun e => e.src = i).map fun e => e.w * minDet_exUselessV e.dst).sum := by decide +kernel
example : ∀ i ∈ minDet_exUseless.reverse.states, minDet_exUselessV i = 0 →
    i ∉ minDet_exUseless.reverse.coaccessible := by decide +kernel
example : isZeroDiv (determinizeRun (·⁻¹)
    ((minDet_exUseless.reverse.epsremove minDet_idS minDet_idOut).push (·⁻¹) minDet_exUselessV) 10)
    = true := by decide +kernel
example (V2 : List (Nat × ℚ) → ℚ) (f2 : Nat) :
    minDetPyN (·⁻¹) minDet_exUseless minDet_exUselessV V2 10 f2 = none := by
  have h : minDet_determinizePyN (·⁻¹) minDet_exUseless.reverse minDet_exUselessV 10 = none := by
    decide +kernel
  simp [minDetPyN, h]
-- without the pushes the pipeline succeeds on this machine
example : (minDetN (·⁻¹) minDet_exUseless 5 5).map (fun R => (R.states.length, forward R [7]))
    = some (2, 1) := by decide +kernel

-- `epsremove` with the closure of the empty ε graph does nothing on `exDet`
example : (exDet.epsremove minDet_idS minDet_idOut).arcs = exDet.arcs := by
  rw [minDet_epsremove_id exDet (by decide)]

end MinDetAux

end Genlm
