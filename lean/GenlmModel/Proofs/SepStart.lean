import GenlmModel.Model.Cfg
import GenlmModel.Proofs.Basic

namespace Genlm
variable {σ K : Type} [DecidableEq σ] [CommSemiring K]

/-- S' is fresh: not a terminal, not a head, not in any body, not the old start. -/
def Fresh (G : CFG σ K) (S' : σ) : Prop :=
  S' ∉ G.V ∧ S' ≠ G.S ∧ ∀ r ∈ G.rules, r.head ≠ S' ∧ S' ∉ r.body

theorem sepStart_old (G : CFG σ K) (S' : σ) (hf : Fresh G S') (n : Nat) (X : σ) (hX : X ≠ S') (x : List σ) :
    WN (sepStart G S') n X x = WN G n X x := by
  induction n generalizing X x with
  | zero => rfl
  | succ n ih =>
    simp only [WN, sepStart, lsum_eq_sum]
    have : (List.filter (fun r : Rule σ K => decide (r.head = X)) (⟨1, S', [G.S]⟩ :: G.rules))
         = List.filter (fun r : Rule σ K => decide (r.head = X)) G.rules := by
      rw [List.filter_cons_of_neg]; simpa using fun h => hX h.symm
    rw [this]
    congr 1
    apply List.map_congr_left
    intro r hr
    have hr' := (List.mem_filter.mp hr).1
    congr 1
    apply Wbody_congr
    intro s hs y
    have : s ≠ S' := fun h => (hf.2.2 r hr').2 (h ▸ hs)
    exact ih s this y

theorem sepStart_spec (G : CFG σ K) (S' : σ) (hf : Fresh G S') (hS : G.S ∉ G.V) (n : Nat) (x : List σ) :
    WN (sepStart G S') (n+1) S' x = WN G n G.S x := by
  simp only [WN, sepStart, lsum_eq_sum]
  have hfil : (List.filter (fun r : Rule σ K => decide (r.head = S')) G.rules) = [] := by
    rw [List.filter_eq_nil_iff]; intro r hr; simpa using (hf.2.2 r hr).1
  rw [List.filter_cons_of_pos (by simp), hfil]
  simp only [List.map_cons, List.map_nil, List.sum_cons, List.sum_nil, add_zero, one_mul]
  rw [Wbody_singleton]
  unfold Wsym
  rw [if_neg hS]
  exact sepStart_old G S' hf n G.S (Ne.symm hf.2.1) x

end Genlm
