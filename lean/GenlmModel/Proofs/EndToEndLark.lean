import GenlmModel.Proofs.FsmWfsa
import GenlmModel.Proofs.Subst
import GenlmModel.Proofs.Regex

/-! # End-to-end theorem for the Lark front end (C18 / C19)

`LarkStuff.char_cfg()` / `byte_cfg()` (`genlm/grammar/lark_interface.py`, `_char_cfg`), composed from the existing
pieces: `fsmToWfsa` (`interegular_to_wfsa`, `Proofs/FsmWfsa.lean`), `WFSA.toBytes`, `WFSA.toCfgRight`
(`Proofs/Wfsa2.lean`), `substCfg` / `substIgnoreCfg` (`Proofs/Subst.lean`).  `interegular` is third party: the FSM
`F k` of every terminal is an INPUT, assumed well formed (`FsmOk`) and characterised by its language
(`hL : (F k).accepts w = true ↔ L k w`; `Fsm.accepts` = a path through live states reading single-character
members of the transition classes, relative to the charset through `expand`).

* §0 `Derives_iff_WN_pos`, `Derives_iff_WN_ne_zero` — in a grammar with positive rule weights (ordered commutative
  semiring: `ℚ≥0`, `ℚ`, `ℝ` …) Boolean derivability is "some level of `WN` is positive / non-zero".
* §1 `WFSA.relab`, `autCfg`, `AutNames`; `autCfg_WN` (weights, every commutative semiring), `autCfg_support`,
  `autCfg_derives_iff`.
* §2 item 1: `terminal_grammar_weight` (exact weights), `terminal_grammar_weight_ne_zero_iff`,
  **`terminal_grammar_accepts_iff`**, `terminal_grammar_accepts_regex`; bytes: `byte_terminal_grammar_weight`,
  `byte_terminal_grammar_accepts_iff`; `utf8_prefixFree` (Lean's `String.utf8EncodeChar` is a prefix code).
* §3 `LarkKind`, `SubstIgnoreKinded`, `SubstIgnoreKinded.hyp` — the `%ignore` hypotheses of `substitution_ignore_spec`
  from a classification of the names (what `SubstKinded.hyp` does for `substitution_spec`).
* §4 `LarkMatch`, `lark_assembled_iff`, `lark_assembled_noignore_iff`; `RuleNames`, `IgnoreNames`, `SymNames`
  (the remaining hypotheses), `IgnoreNames.kinded`, `RuleNames.kinded`.
* §5 item 2: **`char_cfg_accepts_iff`** (+ `_noignore`); item 3: **`byte_cfg_accepts_iff`** (+ `_noignore`),
  `byte_cfg_iff_encoding_of_char_cfg`, `byte_cfg_rejects_non_encoding`, `byte_cfg_decoding_unique`,
  `truncated_not_encoding`.
* §6 item 4: `terminal_grammar_locally_normalised` (+ `_field`), `headSum_charCfg`, `char_cfg_state_normalised`,
  `char_cfg_key_normalised`, and `char_cfg_ignore_head_sum` (the head `$IGNORE` weighs `(|ig| + 1) * decay`).
* §7 non-vacuity: `start: A start | A`, `A ~ a[bc]*` with `ß`, `%ignore / +/`, through `char_cfg` and `byte_cfg`
  with the real UTF-8 encoder; a truncated `ß` is rejected.

## Remaining hypotheses (all decidable for a concrete grammar, except injectivity of the naming functions)

* `FsmOk (F k)`: `fsm.states` duplicate-free, transitions stay in `fsm.states`, `fsm.initial ∈ fsm.states`;
  for bytes also `FsmDistinct (F k)`: no `(character, target)` emitted twice from a state (the transition classes of an
  `interegular` alphabet partition the characters and `fsm.map[i]` is a dict) — `to_bytes` needs pairwise distinct
  `(i, a, j)` (`Proofs/Wfsa2.lean`, `exDup`).
* names (`kind : σ → LarkKind σ`, the code's `f = "N" + str(Integerizer(x))`, injective):
  `RuleNames` — the rule grammar only mentions names of kind `top` and has no rule whose head is a terminal name;
  `IgnoreNames` — `ig` / `ts` split the terminal names, `f("$IGNORE")` has kind `ign`, `f(("tmp", t))` kind `tmp`;
  `SymNames` — characters (bytes) are named injectively, kind `char`; the states of the automaton with start symbol `k`
  are named injectively, kind `sub k`: state names of different terminals differ, and differ from characters.
  In Python a state name is a string `"N<int>"` (length ≥ 2) or a tuple `("_bytes", …)`, a character a string of length
  1, a byte an `int`: the conditions hold, and the renaming loop at the top of `to_cfg` is never entered.
* weights: `0 < inv n` (`inv n = 1 / n`); encoding: a prefix code without empty code word (`utf8_prefixFree`).

## Model (`Proofs/Subst.lean`: `substCfg`, `substIgnoreCfg`) vs. code (`_char_cfg`)

1. **`decay`.**  The code multiplies EVERY rule weight by `decay` (`r.w * decay` for the rule grammar and for the rules
   of every terminal grammar, `decay` for the glue rules); the model puts `w = decay` on the glue rules only and leaves
   `G` and `H k` unscaled.  Same grammar for `decay = 1` (the default); for the Boolean statements only `decay ≠ 0`
   matters (`CFG.add` silently drops rules of weight `0`: with `decay = 0` the code returns a grammar without rules).
2. **Order / identity of rules.**  The code adds, in this order: rule grammar, `$IGNORE` rules, then per terminal its
   grammar followed by its glue rule; the model lists rule grammar, all glue rules, all terminal grammars (`Derives`,
   `WN`, `headSum` do not see the order).  The model keeps a sub-grammar for every key in `ig ++ ts.map tmp`; the code
   for every entry of `self.terminals` (the hypothesis `cover`/`ig_sub`/`ts_sub`: the same set).
3. **Keys.**  For a non-ignored terminal `t` the code names the states `f((t, q))` and the start symbol
   `f(("tmp", t))`; here the family of automata is indexed by the start symbol (`F (tmp t)`, `st (tmp t) q`): an injective
   re-indexing.  `name=` is applied inside `interegular_to_wfsa`; here afterwards (`WFSA.relab`), the same machine.
4. **`%ignore` is weaker than Lark's.**  `$IGNORE → ε | t_ign`: each non-ignored token may be preceded by at most ONE
   ignored token; two consecutive ignored tokens (whitespace then a comment), ignored text after the last token, or
   before an ignored terminal used in a rule, are not accepted (`LarkMatch` states exactly what is).  The class docstring
   says "this preserves semantics": it does not in those cases.
5. **`%ignore` breaks local normalisation** (`char_cfg_ignore_head_sum`): the rules of `$IGNORE` all have weight
   `decay`, total `(|ig| + 1) * decay`; every other head is normalised (`convert()` for the rule grammar — an
   assumption on `G` here —, `char_cfg_state_normalised`, `char_cfg_key_normalised`, the single glue rule of `f(t)`).
   So with `%ignore` the character grammar is not a PCFG even when every piece is.
6. `to_cfg`'s renaming loop and the final `assert len(foo.N & foo.V) == 0` are not modelled: they are implied by the
   naming hypotheses.  `recursion="right"` only (the default); `toCfgLeft_spec` would give the same statements.
7. Empty code words: `to_bytes` fails on `bs[0]` for an empty label; the model emits nothing (never met: labels are
   single characters).
Helpers in `Genlm.LarkAux`. -/
namespace Genlm
set_option linter.unusedSectionVars false
open WfsaAux Wfsa2Aux FsmAux Wfsa2Bytes

/-! ## 0. `Derives` is "positive `WN`" for grammars with positive weights -/
namespace LarkAux

section PosLink
variable {σ K : Type} [DecidableEq σ] [CommSemiring K] [LinearOrder K] [IsStrictOrderedRing K]

theorem mul_pos_iff_E12 {a b : K} (ha : 0 ≤ a) (hb : 0 ≤ b) : 0 < a * b ↔ 0 < a ∧ 0 < b := by
  constructor
  · intro h
    rcases lt_or_eq_of_le ha with h1 | h1
    · rcases lt_or_eq_of_le hb with h2 | h2
      · exact ⟨h1, h2⟩
      · rw [← h2, mul_zero] at h; exact absurd h (lt_irrefl _)
    · rw [← h1, zero_mul] at h; exact absurd h (lt_irrefl _)
  · rintro ⟨h1, h2⟩; exact mul_pos h1 h2

theorem Wsym_nonneg_E12 (V : List σ) (f : σ → List σ → K) (hf : ∀ s x, 0 ≤ f s x) (s : σ)
    (x : List σ) : 0 ≤ Wsym V f s x := by
  unfold Wsym
  split
  · split
    · exact zero_le_one
    · exact le_refl _
  · exact hf s x

theorem Wbody_nonneg_E12 (V : List σ) (f : σ → List σ → K) (hf : ∀ s x, 0 ≤ f s x) (β x : List σ) :
    0 ≤ Wbody V f β x := by
  induction β generalizing x with
  | nil =>
    simp only [Wbody]
    split
    · exact zero_le_one
    · exact le_refl _
  | cons s ss ih =>
    simp only [Wbody, lsum_eq_sum]
    apply List.sum_nonneg
    intro t ht
    obtain ⟨p, _, rfl⟩ := List.mem_map.mp ht
    exact mul_nonneg (Wsym_nonneg_E12 V f hf s p.1) (ih p.2)

theorem WN_nonneg_E12 (G : CFG σ K) (hw : ∀ r ∈ G.rules, 0 ≤ r.w) (n : Nat) (X : σ) (x : List σ) :
    0 ≤ WN G n X x := by
  induction n generalizing X x with
  | zero => exact le_refl _
  | succ n ih =>
    simp only [WN, lsum_eq_sum]
    apply List.sum_nonneg
    intro t ht
    obtain ⟨r, hr, rfl⟩ := List.mem_map.mp ht
    exact mul_nonneg (hw r (List.mem_filter.mp hr).1) (Wbody_nonneg_E12 _ _ ih _ _)

theorem Wsym_pos_term_E12 (V : List σ) (f : σ → List σ → K) {a : σ} (ha : a ∈ V) (x : List σ) :
    0 < Wsym V f a x ↔ x = [a] := by
  unfold Wsym
  rw [if_pos ha]
  by_cases h : x = [a]
  · simp [h]
  · simp [h]

theorem Wbody_pos_nil_E12 (V : List σ) (f : σ → List σ → K) (x : List σ) :
    0 < Wbody V f [] x ↔ x = [] := by
  simp only [Wbody]
  by_cases h : x = []
  · simp [h]
  · simp [h]

theorem Wbody_pos_cons_E12 (V : List σ) (f : σ → List σ → K) (hf : ∀ s x, 0 ≤ f s x) (s : σ)
    (ss x : List σ) :
    0 < Wbody V f (s :: ss) x ↔ ∃ u v, u ++ v = x ∧ 0 < Wsym V f s u ∧ 0 < Wbody V f ss v := by
  simp only [Wbody, lsum_eq_sum]
  rw [sum_pos_iff_of_nonneg _ _ (fun p _ =>
    mul_nonneg (Wsym_nonneg_E12 V f hf s p.1) (Wbody_nonneg_E12 V f hf ss p.2))]
  constructor
  · rintro ⟨⟨u, v⟩, hp, h⟩
    exact ⟨u, v, (mem_splits x u v).mp hp,
      (mul_pos_iff_E12 (Wsym_nonneg_E12 V f hf s u) (Wbody_nonneg_E12 V f hf ss v)).mp h⟩
  · rintro ⟨u, v, he, h⟩
    exact ⟨(u, v), (mem_splits x u v).mpr he,
      (mul_pos_iff_E12 (Wsym_nonneg_E12 V f hf s u) (Wbody_nonneg_E12 V f hf ss v)).mpr h⟩

theorem WN_pos_succ_E12 (G : CFG σ K) (hw : ∀ r ∈ G.rules, 0 < r.w) (n : Nat) (X : σ) (x : List σ) :
    0 < WN G (n+1) X x ↔ ∃ r ∈ G.rules, r.head = X ∧ 0 < Wbody G.V (WN G n) r.body x := by
  have hnn := WN_nonneg_E12 G (fun r hr => le_of_lt (hw r hr)) n
  simp only [WN, lsum_eq_sum]
  rw [sum_pos_iff_of_nonneg _ _ (fun r hr =>
    mul_nonneg (le_of_lt (hw r (List.mem_filter.mp hr).1)) (Wbody_nonneg_E12 _ _ hnn _ _))]
  constructor
  · rintro ⟨r, hr, h⟩
    obtain ⟨h1, h2⟩ := List.mem_filter.mp hr
    exact ⟨r, h1, by simpa using h2,
      ((mul_pos_iff_E12 (le_of_lt (hw r h1)) (Wbody_nonneg_E12 _ _ hnn _ _)).mp h).2⟩
  · rintro ⟨r, h1, h2, h3⟩
    exact ⟨r, List.mem_filter.mpr ⟨h1, by simpa using h2⟩, mul_pos (hw r h1) h3⟩

theorem body_sound_E12 (G : CFG σ K) (f : σ → List σ → K) (hf : ∀ s x, 0 ≤ f s x)
    (hs : ∀ s x, 0 < Wsym G.V f s x → Derives G s x) (β x : List σ)
    (h : 0 < Wbody G.V f β x) : DerivesBody G β x := by
  induction β generalizing x with
  | nil => rw [(Wbody_pos_nil_E12 _ _ _).mp h]; exact .nil
  | cons s ss ih =>
    obtain ⟨u, v, rfl, h1, h2⟩ := (Wbody_pos_cons_E12 _ _ hf _ _ _).mp h
    exact .cons (hs s u h1) (ih v h2)

theorem sym_sound_E12 (G : CFG σ K) (hw : ∀ r ∈ G.rules, 0 < r.w) (n : Nat) (s : σ) (x : List σ)
    (h : 0 < Wsym G.V (WN G n) s x) : Derives G s x := by
  induction n generalizing s x with
  | zero =>
    by_cases hs : s ∈ G.V
    · rw [(Wsym_pos_term_E12 _ _ hs x).mp h]; exact .term hs
    · unfold Wsym at h; rw [if_neg hs] at h; exact absurd h (lt_irrefl _)
  | succ n ih =>
    by_cases hs : s ∈ G.V
    · rw [(Wsym_pos_term_E12 _ _ hs x).mp h]; exact .term hs
    · unfold Wsym at h; rw [if_neg hs] at h
      obtain ⟨r, hr, rfl, hb⟩ := (WN_pos_succ_E12 G hw n s x).mp h
      exact .rule hr hs (body_sound_E12 G _
        (WN_nonneg_E12 G (fun r hr => le_of_lt (hw r hr)) n) ih r.body x hb)

theorem complete_E12 (G : CFG σ K) (hw : ∀ r ∈ G.rules, 0 < r.w) :
    (∀ s x, Derives G s x → ∃ n, ∀ m, n ≤ m → 0 < Wsym G.V (WN G m) s x) ∧
    (∀ β x, DerivesBody G β x → ∃ n, ∀ m, n ≤ m → 0 < Wbody G.V (WN G m) β x) := by
  have hnn := WN_nonneg_E12 G (fun r hr => le_of_lt (hw r hr))
  apply Derives.both
  · intro a ha
    exact ⟨0, fun m _ => (Wsym_pos_term_E12 _ _ ha [a]).mpr rfl⟩
  · intro r x hr hh _ ⟨n, hn⟩
    refine ⟨n + 1, fun m hm => ?_⟩
    obtain ⟨m', rfl⟩ : ∃ m', m = m' + 1 := ⟨m - 1, by omega⟩
    unfold Wsym
    rw [if_neg hh, WN_pos_succ_E12 G hw]
    exact ⟨r, hr, rfl, hn m' (by omega)⟩
  · exact ⟨0, fun m _ => (Wbody_pos_nil_E12 _ _ _).mpr rfl⟩
  · intro s ss u v _ _ ⟨n1, h1⟩ ⟨n2, h2⟩
    refine ⟨max n1 n2, fun m hm => (Wbody_pos_cons_E12 _ _ (hnn m) _ _ _).mpr ⟨u, v, rfl, ?_, ?_⟩⟩
    · exact h1 m (le_trans (Nat.le_max_left _ _) hm)
    · exact h2 m (le_trans (Nat.le_max_right _ _) hm)

end PosLink
end LarkAux
open LarkAux

section PosLinkMain
variable {σ K : Type} [DecidableEq σ] [CommSemiring K] [LinearOrder K] [IsStrictOrderedRing K]

/-- **positive link**: in a grammar all of whose rule weights are positive (ordered commutative semiring:
`ℚ≥0`, `ℚ`, `ℝ`, …), a nonterminal derives `x` iff some level of the derivation sum of `x` is positive -/
theorem Derives_iff_WN_pos (G : CFG σ K) (hw : ∀ r ∈ G.rules, 0 < r.w) (X : σ) (hX : X ∉ G.V)
    (x : List σ) : Derives G X x ↔ ∃ n, 0 < WN G n X x := by
  constructor
  · intro h
    obtain ⟨n, hn⟩ := (complete_E12 G hw).1 X x h
    have := hn n (le_refl _)
    unfold Wsym at this
    rw [if_neg hX] at this
    exact ⟨n, this⟩
  · rintro ⟨n, h⟩
    refine sym_sound_E12 G hw n X x ?_
    unfold Wsym
    rw [if_neg hX]
    exact h

/-- … iff some level is non-zero -/
theorem Derives_iff_WN_ne_zero (G : CFG σ K) (hw : ∀ r ∈ G.rules, 0 < r.w) (X : σ) (hX : X ∉ G.V)
    (x : List σ) : Derives G X x ↔ ∃ n, WN G n X x ≠ 0 := by
  rw [Derives_iff_WN_pos G hw X hX]
  refine exists_congr fun n => ?_
  have := WN_nonneg_E12 G (fun r hr => le_of_lt (hw r hr)) n X x
  exact ⟨fun h => ne_of_gt h, fun h => lt_of_le_of_ne this (Ne.symm h)⟩

end PosLinkMain

/-! ## 1. automaton → grammar: renaming states and labels into the symbol type, then `to_cfg` -/

section Relab
variable {ι κ α β K : Type}

/-- rename the states (`st`, Python: `name=lambda x: f((t, x))`) and the labels (`lb`, the
identification of a character / byte with a grammar symbol) of a machine -/
def WFSA.relab (st : ι → κ) (lb : α → β) (A : WFSA ι α K) : WFSA κ β K where
  start := A.start.map fun s => (st s.1, s.2)
  stop := A.stop.map fun s => (st s.1, s.2)
  arcs := A.arcs.map fun e => ⟨st e.src, e.lbl.map lb, st e.dst, e.w⟩

/-- `to_cfg(S, recursion="right")` of the renamed machine: the grammar of one terminal -/
def autCfg [DecidableEq β] (st : ι → β) (lb : α → β) (A : WFSA ι α K) (S : β) : CFG β K :=
  (A.relab st lb).toCfgRight S

end Relab

namespace LarkAux
section RelabLemmas
variable {ι κ α β K : Type} [DecidableEq ι] [DecidableEq κ] [DecidableEq α] [DecidableEq β]
  [CommSemiring K]

theorem relab_epsFree_E12 (st : ι → κ) (lb : α → β) (A : WFSA ι α K) (hA : A.EpsFree) :
    (A.relab st lb).EpsFree := by
  intro e he
  simp only [WFSA.relab, List.mem_map] at he
  obtain ⟨e', he', rfl⟩ := he
  have := hA e' he'
  cases h : e'.lbl with
  | none => exact absurd h this
  | some a => simp

theorem relab_Qk_E12 (st : ι → κ) (lb : α → β) (hst : Function.Injective st)
    (hlb : Function.Injective lb) (A : WFSA ι α K) (k : Nat) (i : ι) (x : List α) (j : ι) :
    Qk (A.relab st lb) k (st i) (x.map lb) (st j) = Qk A k i x j := by
  induction k generalizing i x with
  | zero =>
    simp only [Qk, hst.eq_iff, List.map_eq_nil_iff]
  | succ k ih =>
    simp only [Qk, lsum_eq_sum]
    have harcs : (A.relab st lb).arcs
        = A.arcs.map fun e => (⟨st e.src, e.lbl.map lb, st e.dst, e.w⟩ : Arc κ β K) := rfl
    rw [harcs, List.filter_map, List.map_map]
    have hfil : A.arcs.filter ((fun e : Arc κ β K => decide (e.src = st i)) ∘
          fun e => (⟨st e.src, e.lbl.map lb, st e.dst, e.w⟩ : Arc κ β K))
        = A.arcs.filter (fun e => decide (e.src = i)) := by
      apply List.filter_congr
      intro e _
      simp [hst.eq_iff]
    rw [hfil]
    apply congrArg
    apply List.map_congr_left
    intro e _
    simp only [Function.comp_def]
    cases hl : e.lbl with
    | none => simp only [Option.map_none, ih]
    | some a =>
      simp only [Option.map_some]
      cases x with
      | nil => rfl
      | cons b x' =>
        simp only [List.map_cons, hlb.eq_iff, ih]

theorem relab_Pk_E12 (st : ι → κ) (lb : α → β) (hst : Function.Injective st)
    (hlb : Function.Injective lb) (A : WFSA ι α K) (k : Nat) (x : List α) :
    Pk (A.relab st lb) k (x.map lb) = Pk A k x := by
  rw [Pk_eq, Pk_eq]
  simp only [WFSA.relab, List.map_map, Function.comp_def]
  apply congrArg
  apply List.map_congr_left
  intro s _
  apply congrArg
  apply List.map_congr_left
  intro t _
  rw [← relab_Qk_E12 st lb hst hlb A]
  rfl

theorem relab_labels_E12 (st : ι → κ) (lb : α → β) (A : WFSA ι α K) (b : β) :
    b ∈ (A.relab st lb).labels ↔ ∃ a ∈ A.labels, b = lb a := by
  simp only [Wfsa2Bytes.mem_labels, WFSA.relab, List.mem_map]
  constructor
  · rintro ⟨e, ⟨e', he', rfl⟩, hl⟩
    cases h : e'.lbl with
    | none => simp [h] at hl
    | some a =>
      simp only [h, Option.map_some, Option.some.injEq] at hl
      exact ⟨a, ⟨e', he', h⟩, hl.symm⟩
  · rintro ⟨a, ⟨e', he', hl⟩, rfl⟩
    exact ⟨_, ⟨e', he', rfl⟩, by simp [hl]⟩

theorem relab_states_E12 (st : ι → κ) (lb : α → β) (A : WFSA ι α K) (q : κ)
    (h : q ∈ (A.relab st lb).states) : ∃ i ∈ A.states, q = st i := by
  rw [Genlm.mem_states_iff] at h
  simp only [WFSA.relab, List.mem_map] at h
  rcases h with ⟨s, ⟨s', hs', rfl⟩, rfl⟩ | ⟨s, ⟨s', hs', rfl⟩, rfl⟩ | ⟨e, ⟨e', he', rfl⟩, h⟩
  · exact ⟨s'.1, mem_states_start A s' hs', rfl⟩
  · exact ⟨s'.1, Genlm.mem_states_stop A s' hs', rfl⟩
  · rcases h with rfl | rfl
    · exact ⟨e'.src, Genlm.mem_states_src A e' he', rfl⟩
    · exact ⟨e'.dst, mem_states_dst A e' he', rfl⟩

theorem exists_map_of_forall_E12 (lb : α → β) (y : List β) (h : ∀ b ∈ y, ∃ a, b = lb a) :
    ∃ x : List α, y = x.map lb := by
  induction y with
  | nil => exact ⟨[], rfl⟩
  | cons b y ih =>
    obtain ⟨a, rfl⟩ := h b (by simp)
    obtain ⟨x, rfl⟩ := ih (fun b hb => h b (by simp [hb]))
    exact ⟨a :: x, rfl⟩

/-- a string that is not the image of a label string weighs nothing -/
theorem relab_Pk_not_image_E12 (st : ι → κ) (lb : α → β) (A : WFSA ι α K) (hA : A.EpsFree)
    (y : List β) (hy : ∀ x : List α, y ≠ x.map lb) (k : Nat) : Pk (A.relab st lb) k y = 0 := by
  apply Pk_eq_zero_of_not_labels _ (relab_epsFree_E12 st lb A hA)
  by_contra hc
  have hall : ∀ b ∈ y, ∃ a, b = lb a := by
    intro b hb
    by_contra hn
    apply hc
    refine ⟨b, hb, fun hl => hn ?_⟩
    obtain ⟨a, _, rfl⟩ := (relab_labels_E12 st lb A b).mp hl
    exact ⟨a, rfl⟩
  obtain ⟨x, hx⟩ := exists_map_of_forall_E12 lb y hall
  exact hy x hx

end RelabLemmas
end LarkAux

section AutCfg
variable {ι α σ K : Type} [DecidableEq ι] [DecidableEq α] [DecidableEq σ] [CommSemiring K]

/-- naming conditions for one automaton: the state names are pairwise distinct, distinct from the
label symbols and from the start symbol (what `to_cfg` tests before renaming the states) -/
structure AutNames (st : ι → σ) (lb : α → σ) (S : σ) : Prop where
  st_inj : Function.Injective st
  lb_inj : Function.Injective lb
  st_lb : ∀ i a, st i ≠ lb a
  S_st : ∀ i, S ≠ st i

theorem autCfg_hyps {st : ι → σ} {lb : α → σ} {S : σ} (h : AutNames st lb S) (A : WFSA ι α K) :
    S ∉ (A.relab st lb).states ∧ ∀ i ∈ (A.relab st lb).states, i ∉ (A.relab st lb).labels := by
  constructor
  · intro hS
    obtain ⟨i, _, hi⟩ := relab_states_E12 st lb A S hS
    exact h.S_st i hi
  · intro q hq hl
    obtain ⟨i, _, rfl⟩ := relab_states_E12 st lb A q hq
    obtain ⟨a, _, ha⟩ := (relab_labels_E12 st lb A _).mp hl
    exact h.st_lb i a ha

/-- **weighted language of the grammar of an ε-free automaton** (any commutative semiring): the trees of
height `≤ n + 2` of the image of the label string `x` weigh what the automaton gives `x`, as soon as
`n ≥ |x|` -/
theorem autCfg_WN {st : ι → σ} {lb : α → σ} {S : σ} (h : AutNames st lb S) (A : WFSA ι α K)
    (hA : A.EpsFree) (n : Nat) (x : List α) :
    WN (autCfg st lb A S) (n+2) S (x.map lb) = if x.length ≤ n then Pk A x.length x else 0 := by
  obtain ⟨h1, h2⟩ := autCfg_hyps h A
  unfold autCfg
  rw [toCfgRight_spec _ S h1 h2]
  have hE := relab_epsFree_E12 st lb A hA
  split
  · rename_i hn
    rw [PN_eq_single _ n (x.map lb).length _ (by simpa using hn)
      (fun k hk => Pk_epsfree_length _ hE k _ hk)]
    rw [List.length_map, relab_Pk_E12 st lb h.st_inj h.lb_inj]
  · rename_i hn
    rw [PN_eq]
    apply sum_map_zero
    intro k hk
    have : k < n + 1 := List.mem_range.mp hk
    exact Pk_epsfree_length _ hE k _ (by rw [List.length_map]; omega)

/-- … and a symbol string that is not the image of a label string weighs nothing at any height -/
theorem autCfg_WN_not_image {st : ι → σ} {lb : α → σ} {S : σ} (h : AutNames st lb S)
    (A : WFSA ι α K) (hA : A.EpsFree) (n : Nat) (y : List σ) (hy : ∀ x : List α, y ≠ x.map lb) :
    WN (autCfg st lb A S) n S y = 0 := by
  obtain ⟨h1, h2⟩ := autCfg_hyps h A
  unfold autCfg
  match n with
  | 0 => rfl
  | 1 => exact (toCfg_start_low _ S h1 h2 y).2.1
  | n+2 =>
    rw [toCfgRight_spec _ S h1 h2, PN_eq]
    apply sum_map_zero
    intro k _
    exact relab_Pk_not_image_E12 st lb A hA y hy k

/-- the support of the grammar of an ε-free automaton -/
theorem autCfg_support {st : ι → σ} {lb : α → σ} {S : σ} (h : AutNames st lb S) (A : WFSA ι α K)
    (hA : A.EpsFree) (y : List σ) :
    (∃ n, WN (autCfg st lb A S) n S y ≠ 0) ↔ ∃ x : List α, y = x.map lb ∧ Pk A x.length x ≠ 0 := by
  constructor
  · rintro ⟨n, hn⟩
    by_cases hy : ∃ x : List α, y = x.map lb
    · obtain ⟨x, rfl⟩ := hy
      refine ⟨x, rfl, ?_⟩
      obtain ⟨h1, h2⟩ := autCfg_hyps h A
      match n with
      | 0 => exact absurd rfl hn
      | 1 => exact absurd (toCfg_start_low _ S h1 h2 _).2.1 hn
      | n+2 =>
        rw [autCfg_WN h A hA] at hn
        split at hn
        · exact hn
        · exact absurd rfl hn
    · exact absurd (autCfg_WN_not_image h A hA n y (fun x hx => hy ⟨x, hx⟩)) hn
  · rintro ⟨x, rfl, hx⟩
    refine ⟨x.length + 2, ?_⟩
    rw [autCfg_WN h A hA, if_pos (le_refl _)]
    exact hx

end AutCfg

section AutCfgDerives
variable {ι α σ K : Type} [DecidableEq ι] [DecidableEq α] [DecidableEq σ] [CommSemiring K]
  [LinearOrder K] [IsStrictOrderedRing K]

/-- all the weights of a machine are positive -/
structure WFSA.Positive (A : WFSA ι α K) : Prop where
  start : ∀ s ∈ A.start, 0 < s.2
  stop : ∀ s ∈ A.stop, 0 < s.2
  arcs : ∀ e ∈ A.arcs, 0 < e.w

theorem autCfg_rules_pos (st : ι → σ) (lb : α → σ) (A : WFSA ι α K) (hP : A.Positive) (S : σ) :
    ∀ r ∈ (autCfg st lb A S).rules, 0 < r.w := by
  intro r hr
  simp only [autCfg, WFSA.toCfgRight, WFSA.relab, List.mem_append, List.mem_map] at hr
  rcases hr with (⟨s, ⟨s', hs', rfl⟩, rfl⟩ | ⟨s, ⟨s', hs', rfl⟩, rfl⟩) | ⟨e, ⟨e', he', rfl⟩, rfl⟩
  · exact hP.start s' hs'
  · exact hP.stop s' hs'
  · cases e'.lbl <;> exact hP.arcs e' he'

/-- **Boolean language of the grammar of a positive ε-free automaton**: the start symbol derives exactly the
images of the label strings to which the automaton gives a non-zero weight -/
theorem autCfg_derives_iff {st : ι → σ} {lb : α → σ} {S : σ} (h : AutNames st lb S)
    (hS : ∀ a, S ≠ lb a) (A : WFSA ι α K) (hA : A.EpsFree) (hP : A.Positive) (y : List σ) :
    Derives (autCfg st lb A S) S y ↔ ∃ x : List α, y = x.map lb ∧ Pk A x.length x ≠ 0 := by
  have hSV : S ∉ (autCfg st lb A S).V := by
    intro hv
    obtain ⟨a, _, ha⟩ := (relab_labels_E12 st lb A S).mp hv
    exact hS a ha
  rw [Derives_iff_WN_ne_zero _ (autCfg_rules_pos st lb A hP S) S hSV, autCfg_support h A hA]

end AutCfgDerives

/-! ## 2. the grammar of one terminal: `to_cfg(interegular_to_wfsa(FSM_t))`, characters and bytes -/

section Terminal
variable {ι τ σ β K : Type} [DecidableEq ι] [DecidableEq σ] [DecidableEq β]

/-- the character grammar of one terminal: `interegular_to_wfsa(regex, name=st).to_cfg(S)` -/
def termCfg [One K] (inv : Nat → K) (st : ι → σ) (ch : Char → σ) (F : Fsm ι τ) (S : σ) : CFG σ K :=
  autCfg st ch (fsmToWfsa inv F) S

/-- the byte grammar of one terminal: `interegular_to_wfsa(regex, name=…).to_bytes().to_cfg(S)`; the states
of the byte machine (`BState`: the FSM states and the intermediate states of the chains) are named by `st`,
the bytes by `bt` -/
def byteTermCfg [One K] (inv : Nat → K) (st : BState ι Char → σ) (bt : β → σ) (enc : Char → List β)
    (F : Fsm ι τ) (S : σ) : CFG σ K :=
  autCfg st bt ((fsmToWfsa inv F).toBytes enc) S

/-- what is assumed of the FSM `interegular` returns: `fsm.states` is a set, transitions stay inside it,
the initial state belongs to it -/
structure FsmOk (F : Fsm ι τ) : Prop where
  nodup : F.states.Nodup
  closed : ∀ e ∈ F.map, e.2.2 ∈ F.states
  init : F.initial ∈ F.states

/-- the transition classes of an `interegular` alphabet are pairwise disjoint and `fsm.map[i]` is a dict:
no `(character, target)` is emitted twice from a state (needed for `to_bytes` only) -/
def FsmDistinct (F : Fsm ι τ) : Prop := ∀ i ∈ F.states, (F.emit i).Nodup

instance (F : Fsm ι τ) : Decidable (FsmOk F) :=
  decidable_of_iff (F.states.Nodup ∧ (∀ e ∈ F.map, e.2.2 ∈ F.states) ∧ F.initial ∈ F.states)
    ⟨fun h => ⟨h.1, h.2.1, h.2.2⟩, fun h => ⟨h.1, h.2, h.3⟩⟩

instance (F : Fsm ι τ) : Decidable (FsmDistinct F) := by unfold FsmDistinct; infer_instance

end Terminal

namespace LarkAux
section TerminalLemmas
variable {ι τ σ β K : Type} [DecidableEq ι] [DecidableEq σ] [DecidableEq β] [CommSemiring K]

theorem fsmToWfsa_distinct_E12 (inv : Nat → K) (F : Fsm ι τ) (hS : F.states.Nodup)
    (hD : FsmDistinct F) : DistinctArcs (fsmToWfsa inv F) := by
  unfold DistinctArcs
  have : ((fsmToWfsa inv F).arcs.map fun e => (e.src, e.lbl, e.dst))
      = F.states.flatMap fun i => if F.fan i = 0 then []
          else (F.emit i).map fun cj => (i, some cj.1, cj.2) := by
    simp only [fsmToWfsa, List.map_flatMap]
    apply List.flatMap_congr
    intro i _
    split
    · rfl
    · simp [List.map_map, Function.comp_def]
  rw [this, List.nodup_flatMap]
  constructor
  · intro i hi
    split
    · exact List.nodup_nil
    · apply (hD i hi).map
      intro a b hab
      simp only [Prod.mk.injEq, Option.some.injEq, true_and] at hab
      exact Prod.ext hab.1 hab.2
  · refine List.Pairwise.imp ?_ hS
    intro i j hij
    simp only [Function.onFun]
    intro t h1 h2
    have e1 : t.1 = i := by
      split at h1
      · simp at h1
      · obtain ⟨cj, _, rfl⟩ := List.mem_map.mp h1; rfl
    have e2 : t.1 = j := by
      split at h2
      · simp at h2
      · obtain ⟨cj, _, rfl⟩ := List.mem_map.mp h2; rfl
    exact hij (e1.symm.trans e2)

theorem Pk_toBytes_ne_zero_iff_E12 {ι : Type} [DecidableEq ι] (enc : Char → List β) (A : WFSA ι Char K)
    (hA : A.EpsFree) (hD : DistinctArcs A) (hP : PrefixFree enc) (hE : ∀ a, enc a ≠ []) (bs : List β) :
    Pk (A.toBytes enc) bs.length bs ≠ 0 ↔ ∃ w : List Char, bs = w.flatMap enc ∧ Pk A w.length w ≠ 0 := by
  constructor
  · intro h
    rw [toBytes_Pk enc A hA hD (fun a _ => hE a)] at h
    by_contra hc
    apply h
    apply sum_map_zero
    intro x hx
    have hx' := (mem_decs enc A.labels (fun a _ => hE a) bs.length bs x (Nat.le_refl _)).mp hx
    by_contra hne
    exact hc ⟨x, hx'.2.symm, hne⟩
  · rintro ⟨w, rfl, hw⟩
    rw [toBytes_Pk_prefixFree enc A hA hD hP hE]
    exact hw

end TerminalLemmas

section TerminalPos
variable {ι τ σ β K : Type} [DecidableEq ι] [DecidableEq σ] [DecidableEq β] [CommSemiring K]
  [LinearOrder K] [IsStrictOrderedRing K]

theorem fsmToWfsa_positive_E12 (inv : Nat → K) (hpos : ∀ n : Nat, n ≠ 0 → 0 < inv n) (F : Fsm ι τ) :
    (fsmToWfsa inv F).Positive := by
  refine ⟨?_, ?_, fsmToWfsa_arc_pos inv hpos F⟩
  · intro s hs
    simp only [fsmToWfsa, List.mem_singleton] at hs
    rw [hs]; exact zero_lt_one
  · intro s hs
    simp only [fsmToWfsa, List.mem_flatMap] at hs
    obtain ⟨i, _, hs⟩ := hs
    split at hs
    · simp at hs
    · rename_i h0
      split at hs
      · simp only [List.mem_singleton] at hs
        rw [hs]; exact hpos _ h0
      · simp at hs

theorem chainArcs_pos_E12 {ι α : Type} (i : ι) (a : α) (j : ι) (w : K) (hw : 0 < w) (bs : List β) :
    ∀ (cur : BState ι α) (t : Nat), ∀ e ∈ chainArcs i a j w cur t bs, 0 < e.w := by
  induction bs with
  | nil => intro cur t e he; simp [chainArcs] at he
  | cons b bs ih =>
    intro cur t e he
    cases bs with
    | nil =>
      simp only [chainArcs, List.mem_singleton] at he
      rw [he]; exact hw
    | cons b' bs' =>
      simp only [chainArcs, List.mem_cons] at he
      rcases he with rfl | he
      · exact zero_lt_one
      · exact ih _ _ e he

theorem toBytes_positive_E12 {ι α : Type} (enc : α → List β) (A : WFSA ι α K) (hP : A.Positive) :
    (A.toBytes enc).Positive := by
  refine ⟨?_, ?_, ?_⟩
  · intro s hs
    simp only [WFSA.toBytes, List.mem_map] at hs
    obtain ⟨s', hs', rfl⟩ := hs
    exact hP.start s' hs'
  · intro s hs
    simp only [WFSA.toBytes, List.mem_map] at hs
    obtain ⟨s', hs', rfl⟩ := hs
    exact hP.stop s' hs'
  · intro e he
    simp only [WFSA.toBytes, List.mem_flatMap] at he
    obtain ⟨e', he', h⟩ := he
    cases hl : e'.lbl with
    | none =>
      rw [hl] at h
      simp only [List.mem_singleton] at h
      rw [h]; exact hP.arcs e' he'
    | some a =>
      rw [hl] at h
      exact chainArcs_pos_E12 _ _ _ _ (hP.arcs e' he') _ _ _ e h

end TerminalPos
end LarkAux

/-- the UTF-8 encoding of single characters is a prefix code (Lean core: decoding the first character of
`encode c ++ rest` gives `c`) -/
theorem utf8_prefixFree : PrefixFree String.utf8EncodeChar := by
  intro a b h
  obtain ⟨t, ht⟩ := h
  have h1 := ByteArray.utf8DecodeChar?_utf8EncodeChar_append (b := t.toByteArray) (c := a)
  have h2 := ByteArray.utf8DecodeChar?_utf8EncodeChar_append (b := ByteArray.empty) (c := b)
  rw [← ht] at h2
  simp only [List.toByteArray_append, ByteArray.append_empty] at h1 h2
  rw [h1] at h2
  exact Option.some.inj h2

section TerminalMain
variable {ι τ σ β K : Type} [DecidableEq ι] [DecidableEq σ] [DecidableEq β] [CommSemiring K]

/-- **weighted language of a terminal grammar** (any commutative semiring, any `inv`): the derivation trees of
height `≤ n + 2` of the character string `w` weigh what `interegular_to_wfsa(…)(w)` returns (`forward`),
as soon as `n ≥ |w|` -/
theorem terminal_grammar_weight (inv : Nat → K) {st : ι → σ} {ch : Char → σ} {S : σ}
    (hN : AutNames st ch S) (F : Fsm ι τ) (n : Nat) (w : List Char) :
    WN (termCfg inv st ch F S) (n+2) S (w.map ch)
      = if w.length ≤ n then forward (fsmToWfsa inv F) w else 0 := by
  unfold termCfg
  rw [autCfg_WN hN _ (fsmToWfsa_epsFree inv F), forward_correct _ (fsmToWfsa_epsFree inv F)]

variable [LinearOrder K] [IsStrictOrderedRing K]

/-- **item 1, weights**: some level of the derivation sum of `y` from the start symbol of the terminal grammar
is non-zero iff `y` spells a character string accepted by the FSM through live states -/
theorem terminal_grammar_weight_ne_zero_iff (inv : Nat → K) (hpos : ∀ n : Nat, n ≠ 0 → 0 < inv n)
    {st : ι → σ} {ch : Char → σ} {S : σ} (hN : AutNames st ch S) (F : Fsm ι τ) (hF : FsmOk F)
    (y : List σ) :
    (∃ n, WN (termCfg inv st ch F S) n S y ≠ 0) ↔ ∃ w : List Char, y = w.map ch ∧ F.accepts w = true := by
  unfold termCfg
  rw [autCfg_support hN _ (fsmToWfsa_epsFree inv F)]
  refine exists_congr fun w => and_congr_right fun _ => ?_
  rw [← forward_correct _ (fsmToWfsa_epsFree inv F),
    fsmToWfsa_support_ne_zero inv hpos F hF.nodup hF.closed hF.init]

/-- **item 1** (`terminal_grammar_accepts_iff`): the grammar `to_cfg(interegular_to_wfsa(FSM_t))` of a
terminal derives (Boolean derivability, equivalently with non-zero weight) exactly the character strings
the FSM accepts through live states -/
theorem terminal_grammar_accepts_iff (inv : Nat → K) (hpos : ∀ n : Nat, n ≠ 0 → 0 < inv n)
    {st : ι → σ} {ch : Char → σ} {S : σ} (hN : AutNames st ch S) (hS : ∀ c, S ≠ ch c)
    (F : Fsm ι τ) (hF : FsmOk F) (y : List σ) :
    Derives (termCfg inv st ch F S) S y ↔ ∃ w : List Char, y = w.map ch ∧ F.accepts w = true := by
  unfold termCfg
  rw [autCfg_derives_iff hN hS _ (fsmToWfsa_epsFree inv F) (fsmToWfsa_positive_E12 inv hpos F)]
  refine exists_congr fun w => and_congr_right fun _ => ?_
  rw [← forward_correct _ (fsmToWfsa_epsFree inv F),
    fsmToWfsa_support_ne_zero inv hpos F hF.nodup hF.closed hF.init]

/-- **item 3, one terminal**: the byte grammar `to_cfg(to_bytes(interegular_to_wfsa(FSM_t)))` derives exactly
the encodings of the character strings the FSM accepts; `enc` is any prefix code without empty code word -/
theorem byte_terminal_grammar_accepts_iff (inv : Nat → K) (hpos : ∀ n : Nat, n ≠ 0 → 0 < inv n)
    {st : BState ι Char → σ} {bt : β → σ} {S : σ} (hN : AutNames st bt S) (hS : ∀ b, S ≠ bt b)
    (enc : Char → List β) (hP : PrefixFree enc) (hE : ∀ a, enc a ≠ [])
    (F : Fsm ι τ) (hF : FsmOk F) (hD : FsmDistinct F) (y : List σ) :
    Derives (byteTermCfg inv st bt enc F S) S y
      ↔ ∃ w : List Char, y = (w.flatMap enc).map bt ∧ F.accepts w = true := by
  unfold byteTermCfg
  have hA := fsmToWfsa_epsFree inv F
  rw [autCfg_derives_iff hN hS _ (toBytes_epsFree enc _ hA)
    (toBytes_positive_E12 enc _ (fsmToWfsa_positive_E12 inv hpos F))]
  constructor
  · rintro ⟨bs, rfl, h⟩
    obtain ⟨w, rfl, hw⟩ := (Pk_toBytes_ne_zero_iff_E12 enc _ hA
      (fsmToWfsa_distinct_E12 inv F hF.nodup hD) hP hE bs).mp h
    refine ⟨w, rfl, ?_⟩
    rw [← forward_correct _ hA,
      fsmToWfsa_support_ne_zero inv hpos F hF.nodup hF.closed hF.init] at hw
    exact hw
  · rintro ⟨w, rfl, hw⟩
    refine ⟨w.flatMap enc, rfl, ?_⟩
    apply (Pk_toBytes_ne_zero_iff_E12 enc _ hA
      (fsmToWfsa_distinct_E12 inv F hF.nodup hD) hP hE _).mpr
    refine ⟨w, rfl, ?_⟩
    rw [← forward_correct _ hA,
      fsmToWfsa_support_ne_zero inv hpos F hF.nodup hF.closed hF.init]
    exact hw

/-- item 1 with the language of the terminal given by a regular expression: if the FSM agrees with Mathlib's
verified matcher `rmatch` of the (desugared, charset-relative) expression `a` — what the harness checks
against `interegular` (`Proofs/Regex.lean`) — the terminal grammar derives exactly `a.toRE.matches'` -/
theorem terminal_grammar_accepts_regex (inv : Nat → K) (hpos : ∀ n : Nat, n ≠ 0 → 0 < inv n)
    {st : ι → σ} {ch : Char → σ} {S : σ} (hN : AutNames st ch S) (hS : ∀ c, S ≠ ch c)
    (F : Fsm ι τ) (hF : FsmOk F) (a : Re.Ast)
    (hFa : ∀ w, F.accepts w = true ↔ a.toRE.rmatch w = true) (y : List σ) :
    Derives (termCfg inv st ch F S) S y ↔ ∃ w : List Char, y = w.map ch ∧ w ∈ a.toRE.matches' := by
  rw [terminal_grammar_accepts_iff inv hpos hN hS F hF]
  refine exists_congr fun w => and_congr_right fun _ => ?_
  rw [hFa, RegularExpression.rmatch_iff_matches']

omit [LinearOrder K] [IsStrictOrderedRing K] in
/-- **weighted language of a byte terminal grammar** (any commutative semiring, prefix code): the encoding of
the character string `w` weighs what the character automaton gives `w` -/
theorem byte_terminal_grammar_weight (inv : Nat → K) {st : BState ι Char → σ} {bt : β → σ} {S : σ}
    (hN : AutNames st bt S) (enc : Char → List β) (hP : PrefixFree enc) (hE : ∀ a, enc a ≠ [])
    (F : Fsm ι τ) (hS : F.states.Nodup) (hD : FsmDistinct F) (n : Nat) (w : List Char) :
    WN (byteTermCfg inv st bt enc F S) (n+2) S ((w.flatMap enc).map bt)
      = if (w.flatMap enc).length ≤ n then forward (fsmToWfsa inv F) w else 0 := by
  unfold byteTermCfg
  have hA := fsmToWfsa_epsFree inv F
  rw [autCfg_WN hN _ (toBytes_epsFree enc _ hA),
    toBytes_Pk_prefixFree enc _ hA (fsmToWfsa_distinct_E12 inv F hS hD) hP hE,
    forward_correct _ hA]

end TerminalMain

/-! ## 3. naming hypotheses for the assembled grammar (the code's `f = "N" + Integerizer`)

`_char_cfg` creates five kinds of names: `f(x)` for a symbol `x` of the rule grammar (terminal names
included), the characters / bytes, `f("$IGNORE")`, `f(("tmp", t))`, and `f((t, q))` for a state `q` of the
automaton of terminal `t`.  `Integerizer` is injective, so names of different kinds, and state names of
different terminals, are different: this is what `kind` records. -/

inductive LarkKind (σ : Type) where
  | top | char | ign | tmp | sub (k : σ)
deriving DecidableEq

section Kinded
variable {σ K : Type}

/-- disjointness conditions of the `%ignore` variant phrased with a classification `kind` of the symbols;
`keys = ig ++ ts.map tmp` are the start symbols of the sub-grammars -/
structure SubstIgnoreKinded (G : CFG σ K) (ignore : σ) (tmp : σ → σ) (ig ts : List σ)
    (H : σ → CFG σ K) (kind : σ → LarkKind σ) : Prop where
  start_top : kind G.S = .top
  head_top : ∀ r ∈ G.rules, kind r.head = .top ∧ r.head ∉ G.V
  body_top : ∀ r ∈ G.rules, ∀ y ∈ r.body, kind y = .top
  term_top : ∀ t ∈ G.V, kind t = .top
  /-- every terminal of the rule grammar is ignored or not, not both; `ig`, `ts` list terminals only -/
  cover : ∀ t ∈ G.V, t ∈ ig ∨ t ∈ ts
  ig_sub : ∀ i ∈ ig, i ∈ G.V
  ts_sub : ∀ t ∈ ts, t ∈ G.V
  ig_ts : ∀ t ∈ ts, t ∉ ig
  ignore_kind : kind ignore = .ign
  tmp_kind : ∀ t ∈ ts, kind (tmp t) = .tmp
  /-- the sub-grammars: terminals are characters, heads are the start symbol or own states,
  bodies use own characters and own states -/
  char_char : ∀ k ∈ ig ++ ts.map tmp, ∀ a ∈ (H k).V, kind a = .char
  sub_head : ∀ k ∈ ig ++ ts.map tmp, ∀ r ∈ (H k).rules, r.head = k ∨ kind r.head = .sub k
  sub_body : ∀ k ∈ ig ++ ts.map tmp, ∀ r ∈ (H k).rules, ∀ y ∈ r.body,
    y ∈ (H k).V ∨ kind y = .sub k

theorem SubstIgnoreKinded.hyp {G : CFG σ K} {w : K} {ignore : σ} {tmp : σ → σ} {ig ts : List σ}
    {H : σ → CFG σ K} {kind : σ → LarkKind σ} (h : SubstIgnoreKinded G ignore tmp ig ts H kind) :
    SubstIgnoreHyp G w ignore tmp ig ts H := by
  -- kinds of the keys
  have hkey : ∀ k ∈ ig ++ ts.map tmp, (k ∈ ig ∧ kind k = .top) ∨ kind k = .tmp := by
    intro k hk
    rcases List.mem_append.1 hk with hk | hk
    · exact .inl ⟨hk, h.term_top k (h.ig_sub k hk)⟩
    · obtain ⟨t, ht, rfl⟩ := List.mem_map.1 hk
      exact .inr (h.tmp_kind t ht)
  have hC : ∀ a, (a ∈ (ig ++ ts.map tmp).flatMap fun k => (H k).V) → kind a = .char := by
    intro a ha
    obtain ⟨k, hk, ha⟩ := List.mem_flatMap.1 ha
    exact h.char_char k hk a ha
  have hG : ∀ y, GSym G y → kind y = .top := by
    rintro y (rfl | ⟨r, hr, hy⟩)
    · exact h.start_top
    · exact h.body_top r hr y hy
  have hts : ∀ t ∈ ts, kind t = .top := fun t ht => h.term_top t (h.ts_sub t ht)
  have hig : ∀ i ∈ ig, kind i = .top := fun i hi => h.term_top i (h.ig_sub i hi)
  -- glue rules
  have hglue : ∀ S (r : Rule σ K), r ∈ (ignoreGlueCfg w ignore tmp ig ts S).rules →
      (r.head = ignore ∨ r.head ∈ ts) ∧
      ∀ y ∈ r.body, y ∈ ig ∨ y = ignore ∨ ∃ t ∈ ts, y = tmp t := by
    intro S r hr
    rcases SubstAux.subst_glue_rules.1 hr with rfl | ⟨i, hi, rfl⟩ | ⟨t, ht, rfl⟩
    · exact ⟨.inl rfl, fun y hy => by cases hy⟩
    · refine ⟨.inl rfl, fun y hy => ?_⟩
      rw [List.mem_singleton.1 hy]; exact .inl hi
    · refine ⟨.inr ht, fun y hy => ?_⟩
      simp only [List.mem_cons, List.not_mem_nil, or_false] at hy
      rcases hy with rfl | rfl
      · exact .inr (.inl rfl)
      · exact .inr (.inr ⟨t, ht, rfl⟩)
  have hglueV : ∀ S, (ignoreGlueCfg w ignore tmp ig ts S).V = ig ++ ts.map tmp := fun _ => rfl
  have hUV : ∀ S, (unionCfg (ig ++ ts.map tmp) H S).V
      = (ig ++ ts.map tmp).flatMap fun k => (H k).V := fun _ => rfl
  have hUR : ∀ S (r : Rule σ K), r ∈ (unionCfg (ig ++ ts.map tmp) H S).rules →
      ∃ k ∈ ig ++ ts.map tmp, r ∈ (H k).rules := fun _ r hr => List.mem_flatMap.1 hr
  -- generic clash eliminators
  have c_tc : ∀ {y}, kind y = .top → kind y = .char → False := fun h1 h2 => by
    rw [h1] at h2; cases h2
  have c_ts : ∀ {y k}, kind y = .top → kind y = .sub k → False := fun h1 h2 => by
    rw [h1] at h2; cases h2
  have c_ti : ∀ {y}, kind y = .top → kind y = .ign → False := fun h1 h2 => by
    rw [h1] at h2; cases h2
  have c_tt : ∀ {y}, kind y = .top → kind y = .tmp → False := fun h1 h2 => by
    rw [h1] at h2; cases h2
  have c_cs : ∀ {y k}, kind y = .char → kind y = .sub k → False := fun h1 h2 => by
    rw [h1] at h2; cases h2
  have c_ci : ∀ {y}, kind y = .char → kind y = .ign → False := fun h1 h2 => by
    rw [h1] at h2; cases h2
  have c_ct : ∀ {y}, kind y = .char → kind y = .tmp → False := fun h1 h2 => by
    rw [h1] at h2; cases h2
  have c_is : ∀ {y k}, kind y = .ign → kind y = .sub k → False := fun h1 h2 => by
    rw [h1] at h2; cases h2
  have c_it : ∀ {y}, kind y = .ign → kind y = .tmp → False := fun h1 h2 => by
    rw [h1] at h2; cases h2
  have c_ms : ∀ {y k}, kind y = .tmp → kind y = .sub k → False := fun h1 h2 => by
    rw [h1] at h2; cases h2
  have hign_key : ignore ∉ ig ++ ts.map tmp := by
    intro hk
    rcases hkey _ hk with ⟨_, h1⟩ | h1
    · exact c_ti h1 h.ignore_kind
    · exact c_it h.ignore_kind h1
  have hts_key : ∀ t ∈ ts, t ∉ ig ++ ts.map tmp := by
    intro t ht hk
    rcases hkey _ hk with ⟨h0, _⟩ | h1
    · exact h.ig_ts t ht h0
    · exact c_tt (hts t ht) h1
  refine ⟨⟨?_, ?_, ?_, ?_, ?_⟩, ?_, ⟨?_, ?_, ?_, ?_⟩, ?_, h.cover⟩
  -- top : SubstShared G (ignoreSubCfg …)
  · exact fun hc => c_tc h.start_top (hC _ hc)
  · exact fun r hr hc => c_tc (h.head_top r hr).1 (hC _ hc)
  · exact fun r hr y hy hc => c_tc (h.body_top r hr y hy) (hC _ hc)
  · intro r hr hg
    rcases List.mem_append.1 hr with hr | hr
    · rcases (hglue _ r hr).1 with he | he
      · exact (c_ti (hG _ hg) (he ▸ h.ignore_kind)).elim
      · exact h.ts_sub _ he
    · obtain ⟨k, hk, hr⟩ := hUR _ r hr
      rcases h.sub_head k hk r hr with he | hs
      · rcases hkey k hk with ⟨h0, _⟩ | h1
        · exact he ▸ h.ig_sub k h0
        · exact (c_tt (hG _ hg) (he ▸ h1)).elim
      · exact (c_ts (hG _ hg) hs).elim
  · rintro r hr (hv | ⟨r', hr', hy⟩)
    · exact (h.head_top r hr).2 hv
    · rcases List.mem_append.1 hr' with hr' | hr'
      · rcases (hglue _ r' hr').2 _ hy with hi | he | ⟨t, ht, he⟩
        · exact (h.head_top r hr).2 (h.ig_sub _ hi)
        · exact c_ti (h.head_top r hr).1 (he ▸ h.ignore_kind)
        · exact c_tt (h.head_top r hr).1 (he ▸ h.tmp_kind t ht)
      · obtain ⟨k, hk, hr'⟩ := hUR _ r' hr'
        rcases h.sub_body k hk r' hr' _ hy with hv | hs
        · exact c_tc (h.head_top r hr).1 (h.char_char k hk _ hv)
        · exact c_ts (h.head_top r hr).1 hs
  -- glue : ∀ t ∈ G.V, SubstShared (ignoreGlueCfg … t) (unionCfg …)
  · intro t ht
    refine ⟨?_, ?_, ?_, ?_, ?_⟩
    · exact fun hc => c_tc (h.term_top t ht) (hC _ hc)
    · intro r hr hc
      rcases (hglue _ r hr).1 with he | he
      · exact c_ci (hC _ hc) (he ▸ h.ignore_kind)
      · exact c_tc (hts _ he) (hC _ hc)
    · intro r hr y hy hc
      rcases (hglue _ r hr).2 y hy with hi | he | ⟨t', ht', he⟩
      · exact c_tc (hig _ hi) (hC _ hc)
      · exact c_ci (hC _ hc) (he ▸ h.ignore_kind)
      · exact c_ct (hC _ hc) (he ▸ h.tmp_kind t' ht')
    · intro r hr hg
      obtain ⟨k, hk, hr⟩ := hUR _ r hr
      rcases h.sub_head k hk r hr with he | hs
      · rw [hglueV, he]; exact hk
      · exfalso
        rcases hg with he | ⟨r', hr', hy⟩
        · exact c_ts (he ▸ h.term_top t ht) hs
        · rcases (hglue _ r' hr').2 _ hy with hi | he | ⟨t', ht', he⟩
          · exact c_ts (hig _ hi) hs
          · exact c_is (he ▸ h.ignore_kind) hs
          · exact c_ms (he ▸ h.tmp_kind t' ht') hs
    · rintro r hr (hv | ⟨r', hr', hy⟩)
      · rw [hglueV] at hv
        rcases (hglue _ r hr).1 with he | he
        · exact hign_key (he ▸ hv)
        · exact hts_key _ he hv
      · obtain ⟨k, hk, hr'⟩ := hUR _ r' hr'
        rcases h.sub_body k hk r' hr' _ hy with hv | hs
        · have hc := h.char_char k hk _ hv
          rcases (hglue _ r hr).1 with he | he
          · exact c_ci hc (he ▸ h.ignore_kind)
          · exact c_tc (hts _ he) hc
        · rcases (hglue _ r hr).1 with he | he
          · exact c_is (he ▸ h.ignore_kind) hs
          · exact c_ts (hts _ he) hs
  -- union : SubstUnion (ig ++ ts.map tmp) H
  · intro t ht t' ht' hne r hr hs
    have kt : kind t = .top ∨ kind t = .tmp := (hkey t ht).imp (·.2) id
    have kt' : kind t' = .top ∨ kind t' = .tmp := (hkey t' ht').imp (·.2) id
    have hsym : r.head ∈ (H t).V ∨ r.head = t ∨ kind r.head = .sub t := by
      rcases hs with he | ⟨r', hr', hy⟩
      · exact .inr (.inl he)
      · exact (h.sub_body t ht r' hr' _ hy).imp id .inr
    rcases h.sub_head t' ht' r hr with he' | hs'
    · rcases hsym with hv | he | hs
      · have hc := h.char_char t ht _ hv
        rcases kt' with k1 | k1
        · exact c_tc (he' ▸ k1) hc
        · exact c_ct hc (he' ▸ k1)
      · exact hne (he.symm.trans he')
      · rcases kt' with k1 | k1
        · exact c_ts (he' ▸ k1) hs
        · exact c_ms (he' ▸ k1) hs
    · rcases hsym with hv | he | hs
      · exact c_cs (h.char_char t ht _ hv) hs'
      · rcases kt with k1 | k1
        · exact c_ts (he ▸ k1) hs'
        · exact c_ms (he ▸ k1) hs'
      · rw [hs] at hs'
        exact hne (LarkKind.sub.inj hs')
  · intro t ht hc
    exfalso
    rcases hkey t ht with ⟨_, k1⟩ | k1
    · exact c_tc k1 (hC _ hc)
    · exact c_ct (hC _ hc) k1
  · intro t ht r hr y hy hc
    rcases h.sub_body t ht r hr y hy with hv | hs
    · exact hv
    · exact (c_cs (hC _ hc) hs).elim
  · intro t ht r hr _ hc
    rcases h.sub_head t ht r hr with he | hs
    · rcases hkey t ht with ⟨_, k1⟩ | k1
      · exact c_tc (he ▸ k1) (hC _ hc)
      · exact c_ct (hC _ hc) (he ▸ k1)
    · exact c_cs (hC _ hc) hs
  -- ignore_nts
  · exact fun hi => c_ti (hts _ hi) h.ignore_kind

end Kinded

/-! ## 4. the assembled grammar -/

section Assembly
variable {σ K : Type}

/-- what a terminal name `t` matches, in characters: an ignored terminal matches its own language; a
non-ignored one matches an optional match of ONE ignored terminal followed by a match of its own language
(`L k` is the language of the sub-grammar whose start symbol is `k`) -/
def LarkMatch (L : σ → List Char → Prop) (tmp : σ → σ) (ig ts : List σ) (t : σ) (w : List Char) : Prop :=
  (t ∈ ig ∧ L t w) ∨
  (t ∈ ts ∧ ∃ w₁ w₂, w = w₁ ++ w₂ ∧ (w₁ = [] ∨ ∃ i ∈ ig, L i w₁) ∧ L (tmp t) w₂)

namespace LarkAux

theorem forall₂_image_E12 {α β γ : Type} {R : α → β → Prop} {R' : α → γ → Prop} (g : γ → β) :
    ∀ (l : List α) (l' : List β), (∀ a ∈ l, ∀ b, R a b ↔ ∃ c, b = g c ∧ R' a c) →
      (List.Forall₂ R l l' ↔ ∃ cs, l' = cs.map g ∧ List.Forall₂ R' l cs)
  | [], l', _ => by
      simp only [List.forall₂_nil_left_iff]
      constructor
      · rintro rfl; exact ⟨[], rfl, rfl⟩
      · rintro ⟨cs, rfl, rfl⟩; rfl
  | a :: l, l', h => by
      have ih := fun u => forall₂_image_E12 (R := R) (R' := R') g l u
        (fun a ha => h a (List.mem_cons_of_mem _ ha))
      simp only [List.forall₂_cons_left_iff]
      constructor
      · rintro ⟨b, u, hab, hu, rfl⟩
        obtain ⟨c, rfl, hc⟩ := (h a (List.mem_cons_self ..) b).mp hab
        obtain ⟨cs, rfl, hcs⟩ := (ih u).mp hu
        exact ⟨c :: cs, rfl, c, cs, hc, hcs, rfl⟩
      · rintro ⟨cs', rfl, c, cs, hc, hcs, rfl⟩
        exact ⟨g c, cs.map g, (h a (List.mem_cons_self ..) _).mpr ⟨c, rfl, hc⟩,
          (ih _).mpr ⟨cs, rfl, hcs⟩, rfl⟩

theorem flatten_map_hom_E12 {γ : Type} (g : List γ → List σ) (g_nil : g [] = [])
    (g_app : ∀ a b, g (a ++ b) = g a ++ g b) (ws : List (List γ)) :
    (ws.map g).flatten = g ws.flatten := by
  induction ws with
  | nil => simp [g_nil]
  | cons w ws ih => simp [g_app, ih]

theorem ignMatch_iff_E12 {tmp : σ → σ} {ig ts : List σ} {H : σ → CFG σ K}
    (g : List Char → List σ) (g_nil : g [] = []) (g_app : ∀ a b, g (a ++ b) = g a ++ g b)
    (L : σ → List Char → Prop)
    (hH : ∀ k ∈ ig ++ ts.map tmp, ∀ u, Derives (H k) k u ↔ ∃ w, u = g w ∧ L k w) (t : σ)
    (u : List σ) :
    IgnMatch tmp ig ts H t u ↔ ∃ w, u = g w ∧ LarkMatch L tmp ig ts t w := by
  unfold IgnMatch LarkMatch
  constructor
  · rintro (⟨hi, hd⟩ | ⟨ht, u₁, u₂, rfl, h1, h2⟩)
    · obtain ⟨w, rfl, hw⟩ := (hH t (List.mem_append_left _ hi) u).mp hd
      exact ⟨w, rfl, .inl ⟨hi, hw⟩⟩
    · obtain ⟨w₂, rfl, hw₂⟩ :=
        (hH (tmp t) (List.mem_append_right _ (List.mem_map_of_mem ht)) u₂).mp h2
      rcases h1 with rfl | ⟨i, hi, h1⟩
      · exact ⟨w₂, by simp, .inr ⟨ht, [], w₂, rfl, .inl rfl, hw₂⟩⟩
      · obtain ⟨w₁, rfl, hw₁⟩ := (hH i (List.mem_append_left _ hi) u₁).mp h1
        exact ⟨w₁ ++ w₂, (g_app _ _).symm, .inr ⟨ht, w₁, w₂, rfl, .inr ⟨i, hi, hw₁⟩, hw₂⟩⟩
  · rintro ⟨w, rfl, (⟨hi, hw⟩ | ⟨ht, w₁, w₂, rfl, h1, h2⟩)⟩
    · exact .inl ⟨hi, (hH t (List.mem_append_left _ hi) _).mpr ⟨w, rfl, hw⟩⟩
    · refine .inr ⟨ht, g w₁, g w₂, g_app _ _, ?_,
        (hH (tmp t) (List.mem_append_right _ (List.mem_map_of_mem ht)) _).mpr ⟨w₂, rfl, h2⟩⟩
      rcases h1 with rfl | ⟨i, hi, h1⟩
      · exact .inl g_nil
      · exact .inr ⟨i, hi, (hH i (List.mem_append_left _ hi) _).mpr ⟨w₁, rfl, h1⟩⟩

end LarkAux

/-- `substitution_ignore_spec` with the languages of the sub-grammars given in characters through a monoid
morphism `g` (`map ch` for the character grammar, `map bt ∘ flatMap enc` for the byte grammar) -/
theorem lark_assembled_iff {G : CFG σ K} {w : K} {ignore : σ} {tmp : σ → σ} {ig ts : List σ}
    {H : σ → CFG σ K} (h : SubstIgnoreHyp G w ignore tmp ig ts H)
    (g : List Char → List σ) (g_nil : g [] = []) (g_app : ∀ a b, g (a ++ b) = g a ++ g b)
    (L : σ → List Char → Prop)
    (hH : ∀ k ∈ ig ++ ts.map tmp, ∀ u, Derives (H k) k u ↔ ∃ w, u = g w ∧ L k w) (s : List σ) :
    Derives (substIgnoreCfg G w ignore tmp ig ts H) G.S s ↔
      ∃ τ ws, Derives G G.S τ ∧ List.Forall₂ (LarkMatch L tmp ig ts) τ ws ∧ s = g ws.flatten := by
  rw [substitution_ignore_spec h]
  refine exists_congr fun τ => ?_
  constructor
  · rintro ⟨parts, h1, h2, rfl⟩
    obtain ⟨ws, rfl, hws⟩ := (forall₂_image_E12 g τ parts
      (fun t _ u => ignMatch_iff_E12 g g_nil g_app L hH t u)).mp h2
    exact ⟨ws, h1, hws, flatten_map_hom_E12 g g_nil g_app ws⟩
  · rintro ⟨ws, h1, h2, rfl⟩
    exact ⟨ws.map g, h1, (forall₂_image_E12 g τ _
      (fun t _ u => ignMatch_iff_E12 g g_nil g_app L hH t u)).mpr ⟨ws, rfl, h2⟩,
      (flatten_map_hom_E12 g g_nil g_app ws).symm⟩

/-- the same without `%ignore` (`substitution_spec`) -/
theorem lark_assembled_noignore_iff {G : CFG σ K} {H : σ → CFG σ K} (h : SubstHyp G H)
    (g : List Char → List σ) (g_nil : g [] = []) (g_app : ∀ a b, g (a ++ b) = g a ++ g b)
    (L : σ → List Char → Prop)
    (hH : ∀ k ∈ G.V, ∀ u, Derives (H k) k u ↔ ∃ w, u = g w ∧ L k w) (s : List σ) :
    Derives (substCfg G H) G.S s ↔
      ∃ τ ws, Derives G G.S τ ∧ List.Forall₂ L τ ws ∧ s = g ws.flatten := by
  rw [substitution_spec h]
  refine exists_congr fun τ => ?_
  constructor
  · rintro ⟨parts, h1, h2, rfl⟩
    obtain ⟨ws, rfl, hws⟩ := (forall₂_image_E12 g τ parts
      (fun t ht u => hH t (Derives.yield_terminals.1 _ _ h1 t ht) u)).mp h2
    exact ⟨ws, h1, hws, flatten_map_hom_E12 g g_nil g_app ws⟩
  · rintro ⟨ws, h1, h2, rfl⟩
    exact ⟨ws.map g, h1, (forall₂_image_E12 g τ _
      (fun t ht u => hH t (Derives.yield_terminals.1 _ _ h1 t ht) u)).mpr ⟨ws, rfl, h2⟩,
      (flatten_map_hom_E12 g g_nil g_app ws).symm⟩

end Assembly

/-! ### the naming hypotheses, for a family of automata -/

section Names
variable {ι α σ K : Type}

/-- the names of the rule grammar: everything it mentions is of kind `top`; it has no rule for a terminal -/
structure RuleNames (G : CFG σ K) (kind : σ → LarkKind σ) : Prop where
  start_top : kind G.S = .top
  head_top : ∀ r ∈ G.rules, kind r.head = .top ∧ r.head ∉ G.V
  body_top : ∀ r ∈ G.rules, ∀ y ∈ r.body, kind y = .top
  term_top : ∀ t ∈ G.V, kind t = .top

/-- … plus the names of the `%ignore` glue: `ig` / `ts` split the terminals into ignored / not ignored -/
structure IgnoreNames (G : CFG σ K) (ignore : σ) (tmp : σ → σ) (ig ts : List σ)
    (kind : σ → LarkKind σ) : Prop extends RuleNames G kind where
  cover : ∀ t ∈ G.V, t ∈ ig ∨ t ∈ ts
  ig_sub : ∀ i ∈ ig, i ∈ G.V
  ts_sub : ∀ t ∈ ts, t ∈ G.V
  ig_ts : ∀ t ∈ ts, t ∉ ig
  ignore_kind : kind ignore = .ign
  tmp_kind : ∀ t ∈ ts, kind (tmp t) = .tmp

/-- the names of the automata: `lb` names the characters (bytes), `st k` the states of the automaton whose
grammar has start symbol `k`; different automata have different state names (`kind = sub k`) -/
structure SymNames (keys : List σ) (st : σ → ι → σ) (lb : α → σ) (kind : σ → LarkKind σ) : Prop where
  lb_inj : Function.Injective lb
  lb_kind : ∀ a, kind (lb a) = .char
  st_inj : ∀ k ∈ keys, Function.Injective (st k)
  st_kind : ∀ k ∈ keys, ∀ i, kind (st k i) = .sub k

end Names

namespace LarkAux
section NamesLemmas
variable {ι α σ K : Type} [DecidableEq σ]

theorem autCfg_V_E12 (st : ι → σ) (lb : α → σ) (A : WFSA ι α K) (S : σ) (a : σ)
    (h : a ∈ (autCfg st lb A S).V) : ∃ c, a = lb c := by
  simp only [autCfg, WFSA.toCfgRight, WFSA.labels, WFSA.relab, List.mem_eraseDups,
    List.mem_filterMap, List.mem_map] at h
  obtain ⟨e, ⟨e', _, rfl⟩, hl⟩ := h
  cases h' : e'.lbl with
  | none => simp [h'] at hl
  | some c => simp only [h', Option.map_some, Option.some.injEq] at hl; exact ⟨c, hl.symm⟩

theorem autCfg_head_E12 (st : ι → σ) (lb : α → σ) (A : WFSA ι α K) (S : σ) (r : Rule σ K)
    (h : r ∈ (autCfg st lb A S).rules) : r.head = S ∨ ∃ i, r.head = st i := by
  simp only [autCfg, WFSA.toCfgRight, WFSA.relab, List.mem_append, List.mem_map] at h
  rcases h with (⟨s, _, rfl⟩ | ⟨s, ⟨s', _, rfl⟩, rfl⟩) | ⟨e, ⟨e', _, rfl⟩, rfl⟩
  · exact .inl rfl
  · exact .inr ⟨_, rfl⟩
  · cases e'.lbl <;> exact .inr ⟨_, rfl⟩

theorem autCfg_body_E12 (st : ι → σ) (lb : α → σ) (A : WFSA ι α K) (S : σ) (r : Rule σ K)
    (h : r ∈ (autCfg st lb A S).rules) (y : σ) (hy : y ∈ r.body) :
    y ∈ (autCfg st lb A S).V ∨ ∃ i, y = st i := by
  have hV : (autCfg st lb A S).V = (A.relab st lb).labels := rfl
  simp only [autCfg, WFSA.toCfgRight, List.mem_append, List.mem_map] at h
  rcases h with (⟨s, hs, rfl⟩ | ⟨s, _, rfl⟩) | ⟨e, he, rfl⟩
  · simp only [WFSA.relab, List.mem_map] at hs
    obtain ⟨s', _, rfl⟩ := hs
    simp only [List.mem_singleton] at hy
    exact .inr ⟨_, hy⟩
  · cases hy
  · have he' := he
    simp only [WFSA.relab, List.mem_map] at he'
    obtain ⟨e', _, rfl⟩ := he'
    cases hl : e'.lbl with
    | none =>
      simp only [hl, Option.map_none, List.mem_singleton] at hy
      exact .inr ⟨_, hy⟩
    | some c =>
      simp only [hl, Option.map_some, List.mem_cons, List.not_mem_nil, or_false] at hy
      rcases hy with rfl | rfl
      · left
        rw [hV]
        exact Wfsa2Cfg.mem_labels _ _ he _ (by simp [hl])
      · exact .inr ⟨_, rfl⟩

end NamesLemmas
end LarkAux

section NamesMain
variable {ι α σ K : Type} [DecidableEq σ]

/-- the naming conditions of one automaton follow from the classification -/
theorem SymNames.autNames {keys : List σ} {st : σ → ι → σ} {lb : α → σ} {kind : σ → LarkKind σ}
    (h : SymNames keys st lb kind) {k : σ} (hk : k ∈ keys) (hkind : kind k = .top ∨ kind k = .tmp) :
    AutNames (st k) lb k ∧ ∀ a, k ≠ lb a := by
  refine ⟨⟨h.st_inj k hk, h.lb_inj, ?_, ?_⟩, ?_⟩
  · intro i a he
    have h1 := h.st_kind k hk i
    rw [he, h.lb_kind] at h1
    cases h1
  · intro i he
    have h1 := h.st_kind k hk i
    rw [← he] at h1
    rcases hkind with h2 | h2 <;> rw [h2] at h1 <;> cases h1
  · intro a he
    have h1 := h.lb_kind a
    rw [← he] at h1
    rcases hkind with h2 | h2 <;> rw [h2] at h1 <;> cases h1

/-- the grammars of a family of automata satisfy the conditions of `substitution_ignore_spec` -/
theorem IgnoreNames.kinded {G : CFG σ K} {ignore : σ} {tmp : σ → σ} {ig ts : List σ}
    {kind : σ → LarkKind σ} (hG : IgnoreNames G ignore tmp ig ts kind)
    {st : σ → ι → σ} {lb : α → σ} (hN : SymNames (ig ++ ts.map tmp) st lb kind)
    (A : σ → WFSA ι α K) :
    SubstIgnoreKinded G ignore tmp ig ts (fun k => autCfg (st k) lb (A k) k) kind := by
  refine ⟨hG.start_top, hG.head_top, hG.body_top, hG.term_top, hG.cover, hG.ig_sub, hG.ts_sub,
    hG.ig_ts, hG.ignore_kind, hG.tmp_kind, ?_, ?_, ?_⟩
  · intro k _ a ha
    obtain ⟨c, rfl⟩ := autCfg_V_E12 _ _ _ _ a ha
    exact hN.lb_kind c
  · intro k hk r hr
    rcases autCfg_head_E12 _ _ _ _ r hr with he | ⟨i, he⟩
    · exact .inl he
    · exact .inr (he ▸ hN.st_kind k hk i)
  · intro k hk r hr y hy
    rcases autCfg_body_E12 _ _ _ _ r hr y hy with hv | ⟨i, he⟩
    · exact .inl hv
    · exact .inr (he ▸ hN.st_kind k hk i)

/-- the kinds of the start symbols of the sub-grammars -/
theorem IgnoreNames.key_kind {G : CFG σ K} {ignore : σ} {tmp : σ → σ} {ig ts : List σ}
    {kind : σ → LarkKind σ} (hG : IgnoreNames G ignore tmp ig ts kind) {k : σ}
    (hk : k ∈ ig ++ ts.map tmp) : kind k = .top ∨ kind k = .tmp := by
  rcases List.mem_append.1 hk with hk | hk
  · exact .inl (hG.term_top k (hG.ig_sub k hk))
  · obtain ⟨t, ht, rfl⟩ := List.mem_map.1 hk
    exact .inr (hG.tmp_kind t ht)

/-- forget the kinds `ign`, `tmp` (no `%ignore`) -/
def LarkKind.toSubst : LarkKind σ → SubstKind σ
  | .top => .top | .char => .char | .ign => .top | .tmp => .top | .sub k => .sub k

/-- the grammars of a family of automata satisfy the conditions of `substitution_spec` -/
theorem RuleNames.kinded {G : CFG σ K} {kind : σ → LarkKind σ} (hG : RuleNames G kind)
    {st : σ → ι → σ} {lb : α → σ} (hN : SymNames G.V st lb kind) (A : σ → WFSA ι α K) :
    SubstKinded G (fun k => autCfg (st k) lb (A k) k) (fun y => (kind y).toSubst) := by
  refine ⟨?_, ?_, ?_, ?_, ?_, ?_, ?_⟩
  · simp only [hG.start_top, LarkKind.toSubst]
  · intro r hr
    exact ⟨by simp only [(hG.head_top r hr).1, LarkKind.toSubst], (hG.head_top r hr).2⟩
  · intro r hr y hy
    simp only [hG.body_top r hr y hy, LarkKind.toSubst]
  · intro t ht
    simp only [hG.term_top t ht, LarkKind.toSubst]
  · intro k _ a ha
    obtain ⟨c, rfl⟩ := autCfg_V_E12 _ _ _ _ a ha
    simp only [hN.lb_kind c, LarkKind.toSubst]
  · intro k hk r hr
    rcases autCfg_head_E12 _ _ _ _ r hr with he | ⟨i, he⟩
    · exact .inl he
    · right
      rw [he, hN.st_kind k hk i]; rfl
  · intro k hk r hr y hy
    rcases autCfg_body_E12 _ _ _ _ r hr y hy with hv | ⟨i, he⟩
    · exact .inl hv
    · right; right
      rw [he, hN.st_kind k hk i]; rfl

end NamesMain

/-! ## 5. headline theorems: `char_cfg`, `byte_cfg` -/

section Headline
variable {ι τ σ β K : Type} [DecidableEq ι] [DecidableEq σ] [DecidableEq β]

/-- model of `LarkStuff.char_cfg()` when the grammar has `%ignore` terminals (`ig ≠ []`): rule grammar `G`,
glue rules (`w` is `decay`), and for every start symbol `k` (`f(t)` for an ignored terminal,
`f(("tmp", t)) = tmp t` otherwise) the grammar of the automaton built from the FSM `F k` -/
def charCfg [One K] (inv : Nat → K) (st : σ → ι → σ) (ch : Char → σ) (F : σ → Fsm ι τ)
    (G : CFG σ K) (w : K) (ignore : σ) (tmp : σ → σ) (ig ts : List σ) : CFG σ K :=
  substIgnoreCfg G w ignore tmp ig ts fun k => termCfg inv (st k) ch (F k) k

/-- model of `LarkStuff.char_cfg()` when the grammar has no `%ignore` terminal -/
def charCfg0 [One K] (inv : Nat → K) (st : σ → ι → σ) (ch : Char → σ) (F : σ → Fsm ι τ)
    (G : CFG σ K) : CFG σ K :=
  substCfg G fun k => termCfg inv (st k) ch (F k) k

/-- model of `LarkStuff.byte_cfg()` with `%ignore` terminals -/
def byteCfg [One K] (inv : Nat → K) (st : σ → BState ι Char → σ) (bt : β → σ)
    (enc : Char → List β) (F : σ → Fsm ι τ) (G : CFG σ K) (w : K) (ignore : σ) (tmp : σ → σ)
    (ig ts : List σ) : CFG σ K :=
  substIgnoreCfg G w ignore tmp ig ts fun k => byteTermCfg inv (st k) bt enc (F k) k

/-- model of `LarkStuff.byte_cfg()` without `%ignore` terminal -/
def byteCfg0 [One K] (inv : Nat → K) (st : σ → BState ι Char → σ) (bt : β → σ)
    (enc : Char → List β) (F : σ → Fsm ι τ) (G : CFG σ K) : CFG σ K :=
  substCfg G fun k => byteTermCfg inv (st k) bt enc (F k) k

variable [CommSemiring K] [LinearOrder K] [IsStrictOrderedRing K]

/-- **item 2** (`char_cfg_accepts_iff`, `%ignore` variant): the character grammar derives `s` iff
`s = w₁ … w_k` (spelled with `ch`) where `t₁ … t_k` is derivable in the rule grammar and each `w_i`
is in `L_{t_i}` (ignored `t_i`) or in `[L_ignore]? · L_{t_i}`.  `L k` is the language of the FSM `F k`. -/
theorem char_cfg_accepts_iff (inv : Nat → K) (hpos : ∀ n : Nat, n ≠ 0 → 0 < inv n)
    {G : CFG σ K} {ignore : σ} {tmp : σ → σ} {ig ts : List σ} {kind : σ → LarkKind σ}
    (hG : IgnoreNames G ignore tmp ig ts kind) {st : σ → ι → σ} {ch : Char → σ}
    (hN : SymNames (ig ++ ts.map tmp) st ch kind) (F : σ → Fsm ι τ)
    (hF : ∀ k ∈ ig ++ ts.map tmp, FsmOk (F k)) (L : σ → List Char → Prop)
    (hL : ∀ k ∈ ig ++ ts.map tmp, ∀ w, (F k).accepts w = true ↔ L k w) (w : K) (s : List σ) :
    Derives (charCfg inv st ch F G w ignore tmp ig ts) G.S s ↔
      ∃ τ ws, Derives G G.S τ ∧ List.Forall₂ (LarkMatch L tmp ig ts) τ ws ∧
        s = ws.flatten.map ch := by
  unfold charCfg
  refine lark_assembled_iff (hG.kinded hN _).hyp (fun w => w.map ch) rfl
    (fun a b => List.map_append) L ?_ s
  intro k hk u
  obtain ⟨h1, h2⟩ := hN.autNames hk (hG.key_kind hk)
  exact (terminal_grammar_accepts_iff inv hpos h1 h2 (F k) (hF k hk) u).trans
    (exists_congr fun w => and_congr_right fun _ => hL k hk w)

/-- **item 2**, no `%ignore` terminal: `s = w₁ … w_k` with `w_i ∈ L_{t_i}`, `t₁ … t_k` derivable -/
theorem char_cfg_accepts_iff_noignore (inv : Nat → K) (hpos : ∀ n : Nat, n ≠ 0 → 0 < inv n)
    {G : CFG σ K} {kind : σ → LarkKind σ} (hG : RuleNames G kind) {st : σ → ι → σ}
    {ch : Char → σ} (hN : SymNames G.V st ch kind) (F : σ → Fsm ι τ)
    (hF : ∀ k ∈ G.V, FsmOk (F k)) (L : σ → List Char → Prop)
    (hL : ∀ k ∈ G.V, ∀ w, (F k).accepts w = true ↔ L k w) (s : List σ) :
    Derives (charCfg0 inv st ch F G) G.S s ↔
      ∃ τ ws, Derives G G.S τ ∧ List.Forall₂ L τ ws ∧ s = ws.flatten.map ch := by
  unfold charCfg0
  refine lark_assembled_noignore_iff (hG.kinded hN _).hyp (fun w => w.map ch) rfl
    (fun a b => List.map_append) L ?_ s
  intro k hk u
  obtain ⟨h1, h2⟩ := hN.autNames hk (.inl (hG.term_top k hk))
  exact (terminal_grammar_accepts_iff inv hpos h1 h2 (F k) (hF k hk) u).trans
    (exists_congr fun w => and_congr_right fun _ => hL k hk w)

/-- **item 3** (`byte_cfg_accepts_iff`, `%ignore` variant): the byte grammar derives exactly the encodings
(`enc`: a prefix code without empty code word, e.g. UTF-8) of the strings of item 2 -/
theorem byte_cfg_accepts_iff (inv : Nat → K) (hpos : ∀ n : Nat, n ≠ 0 → 0 < inv n)
    {G : CFG σ K} {ignore : σ} {tmp : σ → σ} {ig ts : List σ} {kind : σ → LarkKind σ}
    (hG : IgnoreNames G ignore tmp ig ts kind) {st : σ → BState ι Char → σ} {bt : β → σ}
    (hN : SymNames (ig ++ ts.map tmp) st bt kind) (enc : Char → List β) (hP : PrefixFree enc)
    (hE : ∀ a, enc a ≠ []) (F : σ → Fsm ι τ)
    (hF : ∀ k ∈ ig ++ ts.map tmp, FsmOk (F k) ∧ FsmDistinct (F k)) (L : σ → List Char → Prop)
    (hL : ∀ k ∈ ig ++ ts.map tmp, ∀ w, (F k).accepts w = true ↔ L k w) (w : K) (z : List σ) :
    Derives (byteCfg inv st bt enc F G w ignore tmp ig ts) G.S z ↔
      ∃ τ ws, Derives G G.S τ ∧ List.Forall₂ (LarkMatch L tmp ig ts) τ ws ∧
        z = (ws.flatten.flatMap enc).map bt := by
  unfold byteCfg
  refine lark_assembled_iff (hG.kinded hN _).hyp (fun w => (w.flatMap enc).map bt) rfl
    (fun a b => by simp only [List.flatMap_append, List.map_append]) L ?_ z
  intro k hk u
  obtain ⟨h1, h2⟩ := hN.autNames hk (hG.key_kind hk)
  exact (byte_terminal_grammar_accepts_iff inv hpos h1 h2 enc hP hE (F k) (hF k hk).1
    (hF k hk).2 u).trans (exists_congr fun w => and_congr_right fun _ => hL k hk w)

/-- **item 3**, no `%ignore` terminal -/
theorem byte_cfg_accepts_iff_noignore (inv : Nat → K) (hpos : ∀ n : Nat, n ≠ 0 → 0 < inv n)
    {G : CFG σ K} {kind : σ → LarkKind σ} (hG : RuleNames G kind)
    {st : σ → BState ι Char → σ} {bt : β → σ} (hN : SymNames G.V st bt kind)
    (enc : Char → List β) (hP : PrefixFree enc) (hE : ∀ a, enc a ≠ []) (F : σ → Fsm ι τ)
    (hF : ∀ k ∈ G.V, FsmOk (F k) ∧ FsmDistinct (F k)) (L : σ → List Char → Prop)
    (hL : ∀ k ∈ G.V, ∀ w, (F k).accepts w = true ↔ L k w) (z : List σ) :
    Derives (byteCfg0 inv st bt enc F G) G.S z ↔
      ∃ τ ws, Derives G G.S τ ∧ List.Forall₂ L τ ws ∧ z = (ws.flatten.flatMap enc).map bt := by
  unfold byteCfg0
  refine lark_assembled_noignore_iff (hG.kinded hN _).hyp (fun w => (w.flatMap enc).map bt) rfl
    (fun a b => by simp only [List.flatMap_append, List.map_append]) L ?_ z
  intro k hk u
  obtain ⟨h1, h2⟩ := hN.autNames hk (.inl (hG.term_top k hk))
  exact (byte_terminal_grammar_accepts_iff inv hpos h1 h2 enc hP hE (F k) (hF k hk).1
    (hF k hk).2 u).trans (exists_congr fun w => and_congr_right fun _ => hL k hk w)

/-- **item 3, byte grammar vs character grammar**: a byte string is derived by `byte_cfg()` iff it is the
encoding of a character string derived by `char_cfg()` (the two grammars use their own state names
`stc` / `stb` and symbols `ch` / `bt`) -/
theorem byte_cfg_iff_encoding_of_char_cfg (inv : Nat → K) (hpos : ∀ n : Nat, n ≠ 0 → 0 < inv n)
    {G : CFG σ K} {ignore : σ} {tmp : σ → σ} {ig ts : List σ} {kindc kindb : σ → LarkKind σ}
    (hGc : IgnoreNames G ignore tmp ig ts kindc) (hGb : IgnoreNames G ignore tmp ig ts kindb)
    {stc : σ → ι → σ} {ch : Char → σ} (hNc : SymNames (ig ++ ts.map tmp) stc ch kindc)
    {stb : σ → BState ι Char → σ} {bt : β → σ} (hNb : SymNames (ig ++ ts.map tmp) stb bt kindb)
    (enc : Char → List β) (hP : PrefixFree enc) (hE : ∀ a, enc a ≠ []) (F : σ → Fsm ι τ)
    (hF : ∀ k ∈ ig ++ ts.map tmp, FsmOk (F k) ∧ FsmDistinct (F k)) (w : K) (z : List σ) :
    Derives (byteCfg inv stb bt enc F G w ignore tmp ig ts) G.S z ↔
      ∃ s : List Char, z = (s.flatMap enc).map bt ∧
        Derives (charCfg inv stc ch F G w ignore tmp ig ts) G.S (s.map ch) := by
  rw [byte_cfg_accepts_iff inv hpos hGb hNb enc hP hE F hF _ (fun _ _ _ => Iff.rfl) w z]
  constructor
  · rintro ⟨τ, ws, h1, h2, rfl⟩
    refine ⟨ws.flatten, rfl, ?_⟩
    rw [char_cfg_accepts_iff inv hpos hGc hNc F (fun k hk => (hF k hk).1) _
      (fun _ _ _ => Iff.rfl) w]
    exact ⟨τ, ws, h1, h2, rfl⟩
  · rintro ⟨s, rfl, h⟩
    rw [char_cfg_accepts_iff inv hpos hGc hNc F (fun k hk => (hF k hk).1) _
      (fun _ _ _ => Iff.rfl) w] at h
    obtain ⟨τ, ws, h1, h2, h3⟩ := h
    have : s = ws.flatten := List.map_injective_iff.mpr hNc.lb_inj h3
    exact ⟨τ, ws, h1, h2, by rw [this]⟩

/-- **never a truncated or mixed encoding**: a symbol string that is not the image of the encoding of a
character string (a code word cut short, continuation bytes alone, a symbol that is not a byte …) is not
derived -/
theorem byte_cfg_rejects_non_encoding (inv : Nat → K) (hpos : ∀ n : Nat, n ≠ 0 → 0 < inv n)
    {G : CFG σ K} {ignore : σ} {tmp : σ → σ} {ig ts : List σ} {kind : σ → LarkKind σ}
    (hG : IgnoreNames G ignore tmp ig ts kind) {st : σ → BState ι Char → σ} {bt : β → σ}
    (hN : SymNames (ig ++ ts.map tmp) st bt kind) (enc : Char → List β) (hP : PrefixFree enc)
    (hE : ∀ a, enc a ≠ []) (F : σ → Fsm ι τ)
    (hF : ∀ k ∈ ig ++ ts.map tmp, FsmOk (F k) ∧ FsmDistinct (F k)) (w : K) (z : List σ)
    (hz : ∀ s : List Char, z ≠ (s.flatMap enc).map bt) :
    ¬ Derives (byteCfg inv st bt enc F G w ignore tmp ig ts) G.S z := by
  rw [byte_cfg_accepts_iff inv hpos hG hN enc hP hE F hF _ (fun _ _ _ => Iff.rfl) w z]
  rintro ⟨τ, ws, _, _, h⟩
  exact hz _ h

/-- … and the character string a derived byte string encodes is unique -/
theorem byte_cfg_decoding_unique {bt : β → σ} (hbt : Function.Injective bt) (enc : Char → List β)
    (hP : PrefixFree enc) (hE : ∀ a, enc a ≠ []) (s s' : List Char)
    (h : (s.flatMap enc).map bt = (s'.flatMap enc).map bt) : s = s' :=
  flatMap_injective_of_prefixFree enc hP hE s s' (List.map_injective_iff.mpr hbt h)

end Headline

/-! ## 6. local normalisation (item 4): per-head sums of the rule weights -/

section HeadSum
variable {σ K : Type} [DecidableEq σ]

/-- the total weight of the rules of `G` whose head is `X` (`1` for every head = locally normalised) -/
def headSum [Add K] [Zero K] (G : CFG σ K) (X : σ) : K :=
  ((G.rules.filter fun r => r.head = X).map (·.w)).sum

end HeadSum

namespace LarkAux
section HeadSumLemmas
variable {ι α σ K : Type} [DecidableEq ι] [DecidableEq σ] [CommSemiring K]

theorem headSum_eq_zero_E12 (G : CFG σ K) (X : σ) (h : ∀ r ∈ G.rules, r.head ≠ X) :
    headSum G X = 0 := by
  unfold headSum
  rw [sum_filter_ite]
  apply sum_map_zero
  intro r hr
  simp [h r hr]

theorem headSum_rules_append_E12 (S S' S'' : σ) (V V' V'' : List σ) (r₁ r₂ : List (Rule σ K)) (X : σ) :
    headSum (⟨S, V, r₁ ++ r₂⟩ : CFG σ K) X
      = headSum (⟨S', V', r₁⟩ : CFG σ K) X + headSum (⟨S'', V'', r₂⟩ : CFG σ K) X := by
  simp only [headSum, List.filter_append, List.map_append, List.sum_append]

theorem headSum_mergeCfg_E12 (G H : CFG σ K) (X : σ) :
    headSum (mergeCfg G H) X = headSum G X + headSum H X := by
  simp only [headSum, mergeCfg, List.filter_append, List.map_append, List.sum_append]

theorem headSum_unionCfg_E12 (T : List σ) (H : σ → CFG σ K) (S X : σ) :
    headSum (unionCfg T H S) X = (T.map fun k => headSum (H k) X).sum := by
  simp only [headSum, unionCfg]
  induction T with
  | nil => rfl
  | cons k T ih =>
    simp only [List.flatMap_cons, List.filter_append, List.map_append, List.sum_append, ih,
      List.map_cons, List.sum_cons]

/-- the per-head sums of `to_cfg(recursion="right")`: initial weights at the start symbol, final weight plus
outgoing arc weights at a state -/
theorem headSum_toCfgRight_E12 (A : WFSA σ σ K) (S i : σ) :
    headSum (A.toCfgRight S) i
      = (if S = i then (A.start.map (·.2)).sum else 0) + wlook A.stop i
        + ((A.arcs.filter fun e => e.src = i).map (·.w)).sum := by
  simp only [headSum, WFSA.toCfgRight, List.filter_append, List.map_append, List.sum_append]
  congr 1
  · congr 1
    · rw [sum_filter_ite, List.map_map]
      by_cases h : S = i
      · simp [h, Function.comp_def]
      · simp only [h, if_false]
        apply sum_map_zero
        intro s _
        simp [h]
    · rw [sum_filter_ite, List.map_map, wlook_eq_sum_ite]
      apply congrArg
      apply List.map_congr_left
      intro f _
      simp
  · rw [sum_filter_ite, List.map_map, sum_filter_ite]
    apply congrArg
    apply List.map_congr_left
    intro e _
    rcases e with ⟨src, lbl, dst, w⟩
    cases lbl <;> simp

theorem relab_wlook_stop_E12 (st : ι → σ) (lb : α → σ) (hst : Function.Injective st)
    (A : WFSA ι α K) (i : ι) : wlook (A.relab st lb).stop (st i) = wlook A.stop i := by
  rw [wlook_eq_sum_ite, wlook_eq_sum_ite]
  simp only [WFSA.relab, List.map_map, Function.comp_def, hst.eq_iff]

theorem relab_arcs_sum_E12 (st : ι → σ) (lb : α → σ) (hst : Function.Injective st)
    (A : WFSA ι α K) (i : ι) :
    (((A.relab st lb).arcs.filter fun e => e.src = st i).map (·.w)).sum
      = ((A.arcs.filter fun e => e.src = i).map (·.w)).sum := by
  rw [sum_filter_ite, sum_filter_ite]
  simp only [WFSA.relab, List.map_map, Function.comp_def, hst.eq_iff]

/-- per-head sums of the grammar of an automaton, at a state -/
theorem headSum_autCfg_state_E12 {st : ι → σ} {lb : α → σ} {S : σ} (h : AutNames st lb S)
    (A : WFSA ι α K) (i : ι) :
    headSum (autCfg st lb A S) (st i)
      = wlook A.stop i + ((A.arcs.filter fun e => e.src = i).map (·.w)).sum := by
  unfold autCfg
  rw [headSum_toCfgRight_E12, if_neg (h.S_st i), zero_add, relab_wlook_stop_E12 st lb h.st_inj,
    relab_arcs_sum_E12 st lb h.st_inj]

/-- per-head sums of the grammar of an automaton, at the start symbol -/
theorem headSum_autCfg_start_E12 {st : ι → σ} {lb : α → σ} {S : σ} (h : AutNames st lb S)
    (A : WFSA ι α K) : headSum (autCfg st lb A S) S = (A.start.map (·.2)).sum := by
  unfold autCfg
  rw [headSum_toCfgRight_E12, if_pos rfl]
  have h1 : wlook (A.relab st lb).stop S = 0 := by
    apply wlook_eq_zero
    intro q hq
    simp only [WFSA.relab, List.mem_map] at hq
    obtain ⟨q', _, rfl⟩ := hq
    exact fun he => h.S_st _ he.symm
  have h2 : (((A.relab st lb).arcs.filter fun e => e.src = S).map (·.w)).sum = 0 := by
    rw [sum_filter_ite]
    apply sum_map_zero
    intro e he
    simp only [WFSA.relab, List.mem_map] at he
    obtain ⟨e', _, rfl⟩ := he
    have : ¬ st e'.src = S := fun he => h.S_st _ he.symm
    simp [this]
  rw [h1, h2, add_zero, add_zero]
  simp [WFSA.relab, Function.comp_def]

end HeadSumLemmas
end LarkAux

section Normalised
variable {ι τ σ K : Type} [DecidableEq ι] [DecidableEq σ] [CommSemiring K]

/-- **item 4, one terminal** (`inv n = 1 / n`): the terminal grammar is locally normalised — the rules of the
start symbol and of every state with non-zero fan-out sum to one; the other states have no weight at all -/
theorem terminal_grammar_locally_normalised (inv : Nat → K)
    (hinv : ∀ n : Nat, n ≠ 0 → (n : K) * inv n = 1) {st : ι → σ} {ch : Char → σ} {S : σ}
    (hN : AutNames st ch S) (F : Fsm ι τ) (hS : F.states.Nodup) :
    headSum (termCfg inv st ch F S) S = 1 ∧
    (∀ i ∈ F.states, F.fan i ≠ 0 → headSum (termCfg inv st ch F S) (st i) = 1) ∧
    (∀ i, i ∉ F.states ∨ F.fan i = 0 → headSum (termCfg inv st ch F S) (st i) = 0) := by
  unfold termCfg
  refine ⟨?_, ?_, ?_⟩
  · rw [headSum_autCfg_start_E12 hN]; simp [fsmToWfsa]
  · intro i hi hK
    rw [headSum_autCfg_state_E12 hN, fsmToWfsa_normalised inv hinv F hS i hi hK]
  · intro i hi
    rw [headSum_autCfg_state_E12 hN, fsmToWfsa_dead inv F hS i hi]

/-- item 4 over a field of characteristic zero with `inv n = 1 / n` (Python's `1 / K`) -/
theorem terminal_grammar_locally_normalised_field {K : Type} [Field K] [CharZero K]
    {st : ι → σ} {ch : Char → σ} {S : σ} (hN : AutNames st ch S) (F : Fsm ι τ)
    (hS : F.states.Nodup) :
    headSum (termCfg (fun n => (1 : K) / n) st ch F S) S = 1 ∧
    (∀ i ∈ F.states, F.fan i ≠ 0 →
      headSum (termCfg (fun n => (1 : K) / n) st ch F S) (st i) = 1) ∧
    (∀ i, i ∉ F.states ∨ F.fan i = 0 →
      headSum (termCfg (fun n => (1 : K) / n) st ch F S) (st i) = 0) :=
  terminal_grammar_locally_normalised _ (fun n hn => by
    have : (n : K) ≠ 0 := Nat.cast_ne_zero.mpr hn
    exact mul_one_div_cancel this) hN F hS

/-- **item 4, assembled grammar**: decomposition of the per-head sums of `char_cfg()` -/
theorem headSum_charCfg (inv : Nat → K) (st : σ → ι → σ) (ch : Char → σ) (F : σ → Fsm ι τ)
    (G : CFG σ K) (w : K) (ignore : σ) (tmp : σ → σ) (ig ts : List σ) (X : σ) :
    headSum (charCfg inv st ch F G w ignore tmp ig ts) X
      = headSum G X + (headSum (ignoreGlueCfg w ignore tmp ig ts ignore) X
        + ((ig ++ ts.map tmp).map fun k => headSum (termCfg inv (st k) ch (F k) k) X).sum) := by
  unfold charCfg substIgnoreCfg ignoreSubCfg
  rw [headSum_mergeCfg_E12, headSum_mergeCfg_E12, headSum_unionCfg_E12]

/-- the rules of a state of the automaton of `k` are those of its terminal grammar: in `char_cfg()` every
live state is normalised -/
theorem char_cfg_state_normalised (inv : Nat → K) (hinv : ∀ n : Nat, n ≠ 0 → (n : K) * inv n = 1)
    {G : CFG σ K} {ignore : σ} {tmp : σ → σ} {ig ts : List σ} {kind : σ → LarkKind σ}
    (hG : IgnoreNames G ignore tmp ig ts kind) {st : σ → ι → σ} {ch : Char → σ}
    (hN : SymNames (ig ++ ts.map tmp) st ch kind) (hK : (ig ++ ts.map tmp).Nodup)
    (F : σ → Fsm ι τ) (w : K) (k : σ) (hk : k ∈ ig ++ ts.map tmp) (hS : (F k).states.Nodup)
    (i : ι) (hi : i ∈ (F k).states) (hfan : (F k).fan i ≠ 0) :
    headSum (charCfg inv st ch F G w ignore tmp ig ts) (st k i) = 1 := by
  have hkd := hN.st_kind k hk i
  rw [headSum_charCfg]
  have h1 : headSum G (st k i) = 0 := by
    apply headSum_eq_zero_E12
    intro r hr he
    have := (hG.head_top r hr).1
    rw [he, hkd] at this; cases this
  have h2 : headSum (ignoreGlueCfg w ignore tmp ig ts ignore) (st k i) = 0 := by
    apply headSum_eq_zero_E12
    intro r hr he
    rcases SubstAux.subst_glue_rules.1 hr with rfl | ⟨j, _, rfl⟩ | ⟨t, ht, rfl⟩
    · have := hG.ignore_kind; rw [show ignore = st k i from he, hkd] at this; cases this
    · have := hG.ignore_kind; rw [show ignore = st k i from he, hkd] at this; cases this
    · have := hG.term_top t (hG.ts_sub t ht); rw [show t = st k i from he, hkd] at this; cases this
  have h3 : ∀ k' ∈ ig ++ ts.map tmp, headSum (termCfg inv (st k') ch (F k') k') (st k i)
      = if k = k' then headSum (termCfg inv (st k) ch (F k) k) (st k i) else 0 := by
    intro k' hk'
    by_cases hkk : k = k'
    · subst hkk; simp
    · rw [if_neg hkk]
      apply headSum_eq_zero_E12
      intro r hr he
      rcases autCfg_head_E12 _ _ _ _ r hr with he' | ⟨j, he'⟩
      · rcases hG.key_kind hk' with h0 | h0 <;>
          · rw [← he', he, hkd] at h0; cases h0
      · have := hN.st_kind k' hk' j
        rw [← he', he, hkd] at this
        exact hkk (LarkKind.sub.inj this)
  rw [h1, h2, zero_add, zero_add, List.map_congr_left h3,
    sum_ite_eq_nodup _ hK k (fun _ => headSum (termCfg inv (st k) ch (F k) k) (st k i)), if_pos hk]
  obtain ⟨hA, _⟩ := hN.autNames hk (hG.key_kind hk)
  exact (terminal_grammar_locally_normalised inv hinv hA (F k) hS).2.1 i hi hfan

/-- the start symbol `k` of a terminal grammar (`f(t)` or `f(("tmp", t))`) has its single rule `k → initial`,
of weight one, in `char_cfg()` -/
theorem char_cfg_key_normalised (inv : Nat → K)
    {G : CFG σ K} {ignore : σ} {tmp : σ → σ} {ig ts : List σ} {kind : σ → LarkKind σ}
    (hG : IgnoreNames G ignore tmp ig ts kind) {st : σ → ι → σ} {ch : Char → σ}
    (hN : SymNames (ig ++ ts.map tmp) st ch kind) (hK : (ig ++ ts.map tmp).Nodup)
    (F : σ → Fsm ι τ) (w : K) (k : σ) (hk : k ∈ ig ++ ts.map tmp) :
    headSum (charCfg inv st ch F G w ignore tmp ig ts) k = 1 := by
  have hkk := hG.key_kind hk
  rw [headSum_charCfg]
  have h1 : headSum G k = 0 := by
    apply headSum_eq_zero_E12
    intro r hr he
    rcases List.mem_append.1 hk with hk' | hk'
    · exact (hG.head_top r hr).2 (he ▸ hG.ig_sub k hk')
    · obtain ⟨t, ht, rfl⟩ := List.mem_map.1 hk'
      have := (hG.head_top r hr).1
      rw [he, hG.tmp_kind t ht] at this; cases this
  have h2 : headSum (ignoreGlueCfg w ignore tmp ig ts ignore) k = 0 := by
    apply headSum_eq_zero_E12
    intro r hr he
    have hign : ignore ≠ k := by
      intro h
      have := hG.ignore_kind
      rcases hkk with h0 | h0 <;> · rw [h, h0] at this; cases this
    rcases SubstAux.subst_glue_rules.1 hr with rfl | ⟨j, _, rfl⟩ | ⟨t, ht, rfl⟩
    · exact hign he
    · exact hign he
    · have he : t = k := he
      subst he
      rcases List.mem_append.1 hk with hk' | hk'
      · exact hG.ig_ts t ht hk'
      · obtain ⟨t', ht', he'⟩ := List.mem_map.1 hk'
        have := hG.tmp_kind t' ht'
        rw [he', hG.term_top t (hG.ts_sub t ht)] at this; cases this
  have h3 : ∀ k' ∈ ig ++ ts.map tmp, headSum (termCfg inv (st k') ch (F k') k') k
      = if k = k' then headSum (termCfg inv (st k) ch (F k) k) k else 0 := by
    intro k' hk'
    by_cases hkk' : k = k'
    · subst hkk'; simp
    · rw [if_neg hkk']
      apply headSum_eq_zero_E12
      intro r hr he
      rcases autCfg_head_E12 _ _ _ _ r hr with he' | ⟨j, he'⟩
      · exact hkk' (he.symm.trans he')
      · have := hN.st_kind k' hk' j
        rw [← he', he] at this
        rcases hkk with h0 | h0 <;> · rw [h0] at this; cases this
  rw [h1, h2, zero_add, zero_add, List.map_congr_left h3,
    sum_ite_eq_nodup _ hK k (fun _ => headSum (termCfg inv (st k) ch (F k) k) k), if_pos hk]
  obtain ⟨hA, _⟩ := hN.autNames hk hkk
  unfold termCfg
  rw [headSum_autCfg_start_E12 hA]; simp [fsmToWfsa]

/-- **`%ignore` breaks local normalisation**: the rules `$IGNORE → ε` and `$IGNORE → t` (one per ignored
terminal) all have weight `decay`, so the head `$IGNORE` has total weight `(|ig| + 1) * decay`, not `1` -/
theorem char_cfg_ignore_head_sum (inv : Nat → K)
    {G : CFG σ K} {ignore : σ} {tmp : σ → σ} {ig ts : List σ} {kind : σ → LarkKind σ}
    (hG : IgnoreNames G ignore tmp ig ts kind) {st : σ → ι → σ} {ch : Char → σ}
    (hN : SymNames (ig ++ ts.map tmp) st ch kind) (F : σ → Fsm ι τ) (w : K) :
    headSum (charCfg inv st ch F G w ignore tmp ig ts) ignore = ((ig.length : K) + 1) * w := by
  rw [headSum_charCfg]
  have h1 : headSum G ignore = 0 := by
    apply headSum_eq_zero_E12
    intro r hr he
    have := (hG.head_top r hr).1
    rw [he, hG.ignore_kind] at this; cases this
  have h3 : ((ig ++ ts.map tmp).map fun k => headSum (termCfg inv (st k) ch (F k) k) ignore).sum
      = 0 := by
    apply sum_map_zero
    intro k hk
    apply headSum_eq_zero_E12
    intro r hr he
    rcases autCfg_head_E12 _ _ _ _ r hr with he' | ⟨j, he'⟩
    · have := hG.ignore_kind
      rcases hG.key_kind hk with h0 | h0 <;> · rw [← he, he', h0] at this; cases this
    · have := hN.st_kind k hk j
      rw [← he', he, hG.ignore_kind] at this; cases this
  have h2 : headSum (ignoreGlueCfg w ignore tmp ig ts ignore) ignore = ((ig.length : K) + 1) * w := by
    have hts : ∀ t ∈ ts, t ≠ ignore := by
      intro t ht he
      have := hG.term_top t (hG.ts_sub t ht)
      rw [he, hG.ignore_kind] at this; cases this
    simp only [headSum, ignoreGlueCfg, List.filter_append, List.map_append, List.sum_append,
      List.filter_cons, decide_true, if_true, List.map_cons, List.sum_cons]
    have e1 : (((ig.map fun i => (⟨w, ignore, [i]⟩ : Rule σ K)).filter
        fun r => r.head = ignore).map (·.w)).sum = (ig.length : K) * w := by
      rw [sum_filter_ite, List.map_map]
      simp [Function.comp_def, List.sum_replicate]
    have e2 : (((ts.map fun t => (⟨w, t, [ignore, tmp t]⟩ : Rule σ K)).filter
        fun r => r.head = ignore).map (·.w)).sum = 0 := by
      rw [sum_filter_ite, List.map_map]
      apply sum_map_zero
      intro t ht
      simp [hts t ht]
    rw [e1, e2]; ring
  rw [h1, h2, h3, zero_add, add_zero]

end Normalised

/-! ### truncated code words -/

section Truncated
variable {β : Type}

/-- in a prefix code, an encoding followed by a proper non-empty prefix of a code word (a multi-byte
character cut short) is not an encoding -/
theorem truncated_not_encoding (enc : Char → List β) (hP : PrefixFree enc) (hE : ∀ a, enc a ≠ [])
    (c : Char) (z : List β) (hz : z ≠ []) (hpre : z <+: enc c) (hne : z ≠ enc c) (x : List Char) :
    ∀ s : List Char, x.flatMap enc ++ z ≠ s.flatMap enc := by
  induction x with
  | nil =>
    intro s h
    cases s with
    | nil => exact hz (by simpa using h)
    | cons a s' =>
      rw [List.flatMap_nil, List.nil_append, List.flatMap_cons] at h
      have h1 : enc a <+: enc c := List.IsPrefix.trans ⟨_, h.symm⟩ hpre
      have hac := hP a c h1
      subst hac
      have hlen : z.length ≤ (enc a).length := hpre.length_le
      have h2 := congrArg List.length h
      rw [List.length_append] at h2
      have h3 : (s'.flatMap enc).length = 0 := by omega
      rw [List.length_eq_zero_iff.mp h3, List.append_nil] at h
      exact hne h
  | cons a x ih =>
    intro s h
    cases s with
    | nil =>
      rw [List.flatMap_nil, List.flatMap_cons, List.append_assoc] at h
      exact hE a (List.append_eq_nil_iff.mp h).1
    | cons b s' =>
      rw [List.flatMap_cons, List.flatMap_cons, List.append_assoc] at h
      have hab : a = b := by
        rcases Nat.le_total (enc a).length (enc b).length with hle | hle
        · exact hP a b (List.prefix_of_prefix_length_le ⟨_, h⟩ ⟨_, rfl⟩ hle)
        · exact (hP b a (List.prefix_of_prefix_length_le ⟨_, h.symm⟩ ⟨_, rfl⟩ hle)).symm
      subst hab
      exact ih s' (List.append_cancel_left h)

end Truncated

/-! ## 7. non-vacuity: a small Lark grammar, through the whole pipeline

```
start: A start | A
A: /a[bc]*/i-ish          (the FSM `exFsm` of `Proofs/FsmWfsa.lean`, with the two-byte character `ß`)
WS: / +/
%ignore WS
```
-/
namespace LarkAux

/-- the names `_char_cfg` / `byte_cfg` create -/
inductive ExSym where
  | nt (n : Nat)            -- `f(x)`, `x` a symbol of the rule grammar: `0` start, `1` `A`, `5` `WS`
  | ign                     -- `f("$IGNORE")`
  | tmp (n : Nat)           -- `f(("tmp", t))`
  | chr (c : Char)          -- a character
  | st (k : Nat) (q : Nat)  -- `f((t, q))`
  | byte (b : UInt8)        -- a byte
  | bst (k : Nat) (q : BState Nat Char)  -- states of the byte machines
deriving DecidableEq

open ExSym

def exKeyCode : ExSym → Nat
  | nt n => 2 * n
  | tmp n => 2 * n + 1
  | _ => 0

def exKeyOf (c : Nat) : ExSym := if c % 2 = 0 then nt (c / 2) else tmp (c / 2)

def exKind : ExSym → LarkKind ExSym
  | nt _ => .top
  | ign => .ign
  | tmp _ => .tmp
  | chr _ => .char
  | byte _ => .char
  | st k _ => .sub (exKeyOf k)
  | bst k _ => .sub (exKeyOf k)

def exTmp : ExSym → ExSym
  | nt n => tmp n
  | s => s

def exStc (k : ExSym) (q : Nat) : ExSym := st (exKeyCode k) q
def exStb (k : ExSym) (q : BState Nat Char) : ExSym := bst (exKeyCode k) q

/-- `start: A start | A` with the uniform weights of `convert()` -/
def exLarkG : CFG ExSym ℚ :=
  { S := nt 0, V := [nt 1, nt 5], rules := [⟨1/2, nt 0, [nt 1, nt 0]⟩, ⟨1/2, nt 0, [nt 1]⟩] }

/-- the FSM of `/ +/` -/
def exWsFsm : Fsm Nat Nat where
  initial := 0
  states := [0, 1]
  finals := [1]
  map := [(0, 0, 1), (1, 0, 1)]
  live := fun _ => true
  expand := fun _ => [[' ']]

def exLarkF (k : ExSym) : Fsm Nat Nat := if k = nt 5 then exWsFsm else exFsm

def exInv (n : Nat) : ℚ := 1 / n

theorem exInv_pos : ∀ n : Nat, n ≠ 0 → 0 < exInv n := fun n hn => one_div_nat_pos n hn

theorem exLark_ignoreNames : IgnoreNames exLarkG ign exTmp [nt 5] [nt 1] exKind where
  start_top := rfl
  head_top := by decide
  body_top := by decide
  term_top := by decide
  cover := by decide
  ig_sub := by decide
  ts_sub := by decide
  ig_ts := by decide
  ignore_kind := rfl
  tmp_kind := by decide

theorem exLark_symNames_char : SymNames ([nt 5] ++ [nt 1].map exTmp) exStc chr exKind where
  lb_inj := fun a b h => ExSym.chr.inj h
  lb_kind := fun _ => rfl
  st_inj := fun k _ a b h => (ExSym.st.inj h).2
  st_kind := by
    intro k hk i
    simp only [List.map_cons, List.map_nil, List.cons_append, List.nil_append, List.mem_cons,
      List.not_mem_nil, or_false] at hk
    rcases hk with rfl | rfl <;> rfl

theorem exLark_symNames_byte : SymNames ([nt 5] ++ [nt 1].map exTmp) exStb byte exKind where
  lb_inj := fun a b h => ExSym.byte.inj h
  lb_kind := fun _ => rfl
  st_inj := fun k _ a b h => (ExSym.bst.inj h).2
  st_kind := by
    intro k hk i
    simp only [List.map_cons, List.map_nil, List.cons_append, List.nil_append, List.mem_cons,
      List.not_mem_nil, or_false] at hk
    rcases hk with rfl | rfl <;> rfl

theorem exLark_fsmOk : ∀ k ∈ [nt 5] ++ [nt 1].map exTmp, FsmOk (exLarkF k) ∧ FsmDistinct (exLarkF k) := by
  intro k hk
  simp only [List.map_cons, List.map_nil, List.cons_append, List.nil_append, List.mem_cons,
    List.not_mem_nil, or_false] at hk
  rcases hk with rfl | rfl <;> decide

/-- the terminal sequence `A A` is derivable in the rule grammar -/
theorem exLark_AA : Derives exLarkG (nt 0) [nt 1, nt 1] := by
  have t1 : Derives exLarkG (nt 1) [nt 1] := .term (by decide)
  have g1 : Derives exLarkG (nt 0) ([nt 1] ++ []) :=
    .rule (r := ⟨1/2, nt 0, [nt 1]⟩) (by simp [exLarkG]) (by decide) (.cons t1 .nil)
  exact .rule (r := ⟨1/2, nt 0, [nt 1, nt 0]⟩) (by simp [exLarkG]) (by decide)
    (.cons t1 (.cons g1 .nil))

/-- … and matched by `a`, then ` ` (ignored) `aß` -/
theorem exLark_match : List.Forall₂
    (LarkMatch (fun k w => (exLarkF k).accepts w = true) exTmp [nt 5] [nt 1])
    [nt 1, nt 1] [['a'], [' ', 'a', 'ß']] :=
  .cons (.inr ⟨by decide, [], ['a'], rfl, .inl rfl, by decide⟩)
    (.cons (.inr ⟨by decide, [' '], ['a', 'ß'], rfl, .inr ⟨nt 5, by decide, by decide⟩, by decide⟩)
      .nil)

/-- the character grammar accepts `"a aß"` (items 1 + 2, used from right to left) -/
example : Derives (charCfg exInv exStc chr exLarkF exLarkG 1 ign exTmp [nt 5] [nt 1]) (nt 0)
    (['a', ' ', 'a', 'ß'].map chr) :=
  (char_cfg_accepts_iff exInv exInv_pos exLark_ignoreNames exLark_symNames_char exLarkF
    (fun k hk => (exLark_fsmOk k hk).1) _ (fun _ _ _ => Iff.rfl) 1 _).mpr
    ⟨_, _, exLark_AA, exLark_match, rfl⟩

/-- every string it accepts decomposes (left to right) -/
example (s : List ExSym)
    (h : Derives (charCfg exInv exStc chr exLarkF exLarkG 1 ign exTmp [nt 5] [nt 1]) (nt 0) s) :
    ∃ τ ws, Derives exLarkG (nt 0) τ ∧
      List.Forall₂ (LarkMatch (fun k w => (exLarkF k).accepts w = true) exTmp [nt 5] [nt 1]) τ ws ∧
      s = ws.flatten.map chr :=
  (char_cfg_accepts_iff exInv exInv_pos exLark_ignoreNames exLark_symNames_char exLarkF
    (fun k hk => (exLark_fsmOk k hk).1) _ (fun _ _ _ => Iff.rfl) 1 s).mp h

/-- the byte grammar accepts the UTF-8 encoding `61 20 61 C3 9F` of `"a aß"` (item 3) -/
example : Derives (byteCfg exInv exStb byte String.utf8EncodeChar exLarkF exLarkG 1 ign exTmp
      [nt 5] [nt 1]) (nt 0) ([0x61, 0x20, 0x61, 0xC3, 0x9F].map byte) :=
  (byte_cfg_accepts_iff exInv exInv_pos exLark_ignoreNames exLark_symNames_byte
    String.utf8EncodeChar utf8_prefixFree (fun _ => String.utf8EncodeChar_ne_nil) exLarkF
    exLark_fsmOk _ (fun _ _ _ => Iff.rfl) 1 _).mpr
    ⟨_, _, exLark_AA, exLark_match, by decide⟩

/-- … but not `61 20 61 C3`: the two-byte character `ß` cut short -/
example : ¬ Derives (byteCfg exInv exStb byte String.utf8EncodeChar exLarkF exLarkG 1 ign exTmp
      [nt 5] [nt 1]) (nt 0) ([0x61, 0x20, 0x61, 0xC3].map byte) := by
  apply byte_cfg_rejects_non_encoding exInv exInv_pos exLark_ignoreNames exLark_symNames_byte
    String.utf8EncodeChar utf8_prefixFree (fun _ => String.utf8EncodeChar_ne_nil) exLarkF
    exLark_fsmOk
  intro s h
  have h' := List.map_injective_iff.mpr (fun a b h => ExSym.byte.inj h) h
  exact truncated_not_encoding String.utf8EncodeChar utf8_prefixFree
    (fun _ => String.utf8EncodeChar_ne_nil) 'ß' [0xC3] (by decide) (by decide) (by decide)
    ['a', ' ', 'a'] s (by rw [← h']; decide)

/-- item 4 on the example: the state `1` of the automaton of `A` (fan-out `4`) is normalised in the
assembled grammar, the head `$IGNORE` is not -/
example : headSum (charCfg exInv exStc chr exLarkF exLarkG 1 ign exTmp [nt 5] [nt 1])
    (exStc (tmp 1) 1) = 1 :=
  char_cfg_state_normalised exInv (fun n hn => by
      have : (n : ℚ) ≠ 0 := Nat.cast_ne_zero.mpr hn
      exact mul_one_div_cancel this)
    exLark_ignoreNames exLark_symNames_char (by decide) exLarkF 1 (tmp 1) (by decide) (by decide)
    1 (by decide) (by decide)

example : headSum (charCfg exInv exStc chr exLarkF exLarkG 1 ign exTmp [nt 5] [nt 1]) ign = 2 := by
  rw [char_cfg_ignore_head_sum exInv exLark_ignoreNames exLark_symNames_char]
  norm_num

end LarkAux

end Genlm
