import GenlmModel.Proofs.ComposeStep

/-! The algebraic core of the weighted Bar-Hillel identity (helpers of `Proofs/Compose.lean`):

* `yields_WN`, `yields_sum_le`, `yields_sum_eq` — the weighted language `yields G n X` represents
  `WN G n X`, so that `wsum (yields G n X) φ` is `Σ_x WN G n X x * φ x` over all strings;
* `seqR` — the relation of an input string, given the relations `ρ a` of its symbols; `bh_body`,
  `bh_step` — the weighted language of a rule body, paired with `seqR`, is the chain of the paired
  symbols (exact, no hypothesis on the transducer);
* `bh_lower`, `bh_upper` — the two level-wise bounds between `WN (composeAll G T)` at the triples of a
  nonterminal and the paired yields, for any family `ρ` below / above the terminal triples. -/
namespace Genlm
set_option linter.unusedSectionVars false
open UnfoldAux WfsaAux FstAux

namespace ComposeAux
section Lang
variable {σ K : Type} [DecidableEq σ] [CommSemiring K]

theorem wsum_eq (l : List (List σ × K)) (φ : List σ → K) :
    wsum l φ = (l.map fun p => p.2 * φ p.1).sum := by simp only [wsum, lsum_eq_sum]

theorem wsum_nil (φ : List σ → K) : wsum ([] : List (List σ × K)) φ = 0 := by simp [wsum_eq]

theorem wsum_cons (p : List σ × K) (l : List (List σ × K)) (φ : List σ → K) :
    wsum (p :: l) φ = p.2 * φ p.1 + wsum l φ := by simp [wsum_eq]

theorem wsum_le (l : List (List σ × K)) (φ ψ : List σ → K) (h : ∀ p ∈ l, φ p.1 ≼ ψ p.1) :
    wsum l φ ≼ wsum l ψ := by
  rw [wsum_eq, wsum_eq]
  exact nle_sum _ _ _ (fun p hp => nle_mul_left _ (h p hp))

theorem wsum_congr (l : List (List σ × K)) (φ ψ : List σ → K) (h : ∀ p ∈ l, φ p.1 = ψ p.1) :
    wsum l φ = wsum l ψ := by
  rw [wsum_eq, wsum_eq]
  congr 1; apply List.map_congr_left; intro p hp; rw [h p hp]

theorem wsum_lcat (l1 l2 : List (List σ × K)) (φ : List σ → K) :
    wsum (lcat l1 l2) φ = (l1.map fun p => p.2 * wsum l2 (fun v => φ (p.1 ++ v))).sum := by
  simp only [wsum_eq, lcat]
  rw [sum_flatMap]
  congr 1; apply List.map_congr_left; intro p _
  rw [List.map_map, ← List.sum_map_mul_left]
  congr 1; apply List.map_congr_left; intro q _
  simp only [Function.comp_def]; ring

theorem wsum_scale (l : List (List σ × K)) (c : K) (φ : List σ → K) :
    wsum (l.map fun p => (p.1, c * p.2)) φ = c * wsum l φ := by
  simp only [wsum_eq, List.map_map, Function.comp_def]
  rw [← List.sum_map_mul_left]
  congr 1; apply List.map_congr_left; intro p _; ring

/-- the weighted language of a grammar symbol at level `n` -/
def ysym (G : CFG σ K) (n : Nat) (Y : σ) : List (List σ × K) :=
  if Y ∈ G.V then [([Y], 1)] else yields G n Y

theorem yields_succ (G : CFG σ K) (n : Nat) (X : σ) :
    yields G (n+1) X = (G.rules.filter (fun r => r.head = X)).flatMap fun r =>
      (lbody (ysym G n) r.body).map fun p => (p.1, r.w * p.2) := rfl

theorem wsum_yields_succ (G : CFG σ K) (n : Nat) (X : σ) (φ : List σ → K) :
    wsum (yields G (n+1) X) φ
      = ((G.rules.filter (fun r => r.head = X)).map fun r =>
          r.w * wsum (lbody (ysym G n) r.body) φ).sum := by
  rw [yields_succ, wsum_eq, sum_flatMap]
  congr 1; apply List.map_congr_left; intro r _
  rw [← wsum_eq, wsum_scale]

/-- cutting `x` in two at the boundary of `a ++ b` -/
theorem split_ind (a b x : List σ) :
    ((splits x).map fun q => (if q.1 = a then (1 : K) else 0) * (if q.2 = b then 1 else 0)).sum
      = if a ++ b = x then 1 else 0 := by
  induction x generalizing a with
  | nil =>
    simp only [splits, List.map_cons, List.map_nil, List.sum_cons, List.sum_nil, add_zero]
    by_cases ha : a = [] <;> by_cases hb : b = [] <;> simp [ha, hb, eq_comm]
  | cons c x ih =>
    simp only [splits, List.map_cons, List.sum_cons, List.map_map, Function.comp_def]
    cases a with
    | nil =>
      rw [sum_map_zero _ _ (fun q _ => by simp), add_zero]
      by_cases hb : c :: x = b
      · subst hb; simp
      · have hb' : ¬ b = c :: x := fun h => hb h.symm
        simp [hb, hb']
    | cons d a' =>
      have h0 : (if ([] : List σ) = d :: a' then (1 : K) else 0) = 0 := by simp
      rw [h0, zero_mul, zero_add]
      by_cases hdc : c = d
      · subst hdc
        have := ih a'
        simp only [List.cons_append, List.cons.injEq, true_and] at this ⊢
        exact this
      · have h1 : ¬ (d :: a' ++ b = c :: x) := by
          intro h; simp only [List.cons_append, List.cons.injEq] at h; exact hdc h.1.symm
        rw [if_neg h1]
        apply sum_map_zero; intro q _
        simp [hdc]

theorem Wbody_lbody (V : List σ) (f : σ → List σ → K) (m : σ → List (List σ × K)) (body : List σ)
    (h : ∀ Y ∈ body, ∀ u, Wsym V f Y u = wsum (m Y) (fun x' => if x' = u then 1 else 0))
    (x : List σ) : Wbody V f body x = wsum (lbody m body) (fun x' => if x' = x then 1 else 0) := by
  induction body generalizing x with
  | nil =>
    simp only [Wbody, lbody, wsum_cons, wsum_nil, add_zero, one_mul]
    by_cases hx : x = [] <;> simp [hx, eq_comm]
  | cons Y Ys ih =>
    simp only [Wbody, lsum_eq_sum, lbody]
    rw [wsum_lcat]
    have h1 : ∀ q ∈ splits x, Wsym V f Y q.1 * Wbody V f Ys q.2
        = ((m Y).map fun p => ((lbody m Ys).map fun p' =>
            p.2 * p'.2 * ((if q.1 = p.1 then (1 : K) else 0) * (if q.2 = p'.1 then 1 else 0))).sum).sum := by
      intro q _
      rw [h Y (by simp), ih (fun Y' hY' => h Y' (by simp [hY'])), wsum_eq, wsum_eq, sum_mul_sum]
      congr 1; apply List.map_congr_left; intro p _
      congr 1; apply List.map_congr_left; intro p' _
      by_cases h1 : q.1 = p.1
      · by_cases h2 : q.2 = p'.1
        · simp [h1, h2]
        · have h2' : ¬ p'.1 = q.2 := fun h => h2 h.symm
          simp [h2, h2']
      · have h1' : ¬ p.1 = q.1 := fun h => h1 h.symm
        simp [h1, h1']
    rw [List.map_congr_left h1,
      sum_swap (splits x) (m Y) (fun q p => ((lbody m Ys).map fun p' =>
        p.2 * p'.2 * ((if q.1 = p.1 then (1 : K) else 0) * (if q.2 = p'.1 then 1 else 0))).sum)]
    congr 1; apply List.map_congr_left; intro p _
    rw [sum_swap (splits x) (lbody m Ys) (fun q p' =>
        p.2 * p'.2 * ((if q.1 = p.1 then (1 : K) else 0) * (if q.2 = p'.1 then 1 else 0))),
      wsum_eq, ← List.sum_map_mul_left]
    congr 1; apply List.map_congr_left; intro p' _
    rw [List.sum_map_mul_left, split_ind]
    ring

/-- **the weighted language `yields G n X` represents `WN G n X`** -/
theorem yields_WN (G : CFG σ K) (n : Nat) (X : σ) (x : List σ) :
    WN G n X x = wsum (yields G n X) (fun x' => if x' = x then 1 else 0) := by
  induction n generalizing X x with
  | zero => simp [WN, yields, wsum_nil]
  | succ n ih =>
    rw [wsum_yields_succ]
    simp only [WN, lsum_eq_sum]
    congr 1; apply List.map_congr_left; intro r _
    rw [Wbody_lbody G.V (WN G n) (ysym G n) r.body]
    intro Y _ u
    unfold Wsym ysym
    split
    · simp only [wsum_cons, wsum_nil, add_zero, one_mul]
      by_cases hu : u = [Y] <;> simp [hu, eq_comm]
    · exact ih Y u

/-- summing `W x * φ x` over a duplicate-free candidate list -/
theorem lang_sum (l : List (List σ × K)) (L : List (List σ)) (hL : L.Nodup) (φ : List σ → K) :
    (L.map fun x => wsum l (fun x' => if x' = x then 1 else 0) * φ x).sum
      = wsum l (fun x => if x ∈ L then φ x else 0) := by
  simp only [wsum_eq]
  have h1 : ∀ x ∈ L, (l.map fun p => p.2 * (if p.1 = x then (1 : K) else 0)).sum * φ x
      = (l.map fun p => if p.1 = x then p.2 * φ x else 0).sum := by
    intro x _
    rw [← List.sum_map_mul_right]
    congr 1; apply List.map_congr_left; intro p _
    by_cases h : p.1 = x <;> simp [h]
  rw [List.map_congr_left h1, sum_swap]
  congr 1; apply List.map_congr_left; intro p _
  rw [sum_ite_eq_nodup L hL p.1 (fun x => p.2 * φ x)]
  by_cases h : p.1 ∈ L <;> simp [h]

/-- a candidate list never sees more than the whole language -/
theorem yields_sum_le (G : CFG σ K) (n : Nat) (X : σ) (L : List (List σ)) (hL : L.Nodup)
    (φ : List σ → K) :
    (L.map fun x => WN G n X x * φ x).sum ≼ wsum (yields G n X) φ := by
  have : (L.map fun x => WN G n X x * φ x).sum
      = wsum (yields G n X) (fun x => if x ∈ L then φ x else 0) := by
    rw [← lang_sum _ L hL]
    congr 1; apply List.map_congr_left; intro x _; rw [yields_WN]
  rw [this]
  apply wsum_le
  intro p _
  split
  · exact nle_refl _
  · exact nle_zero _

/-- a candidate list that covers the yields on which `φ` does not vanish sees everything -/
theorem yields_sum_eq (G : CFG σ K) (n : Nat) (X : σ) (L : List (List σ)) (hL : L.Nodup)
    (φ : List σ → K) (hcov : ∀ p ∈ yields G n X, p.1 ∈ L ∨ φ p.1 = 0) :
    (L.map fun x => WN G n X x * φ x).sum = wsum (yields G n X) φ := by
  have : (L.map fun x => WN G n X x * φ x).sum
      = wsum (yields G n X) (fun x => if x ∈ L then φ x else 0) := by
    rw [← lang_sum _ L hL]
    congr 1; apply List.map_congr_left; intro x _; rw [yields_WN]
  rw [this]
  apply wsum_congr
  intro p hp
  rcases hcov p hp with h | h
  · rw [if_pos h]
  · rw [h]; simp

end Lang

section Core
variable {ι σ K : Type} [DecidableEq ι] [DecidableEq σ] [CommSemiring K]

/-- the relation of an input string, given the relations of its symbols -/
def seqR (S : List ι) (ρ : σ → ι → List σ → ι → K) : List σ → ι → List σ → ι → K
  | [] => rid
  | a :: x => rcomp S (ρ a) (seqR S ρ x)

theorem seqR_append (S : List ι) (hS : S.Nodup) (ρ : σ → ι → List σ → ι → K) (u v : List σ)
    (i j : ι) (hi : i ∈ S) (y : List σ) :
    seqR S ρ (u ++ v) i y j = rcomp S (seqR S ρ u) (seqR S ρ v) i y j := by
  induction u generalizing i y with
  | nil =>
    simp only [List.nil_append, seqR]
    rw [rid_comp S hS, if_pos hi]
  | cons a u ih =>
    simp only [List.cons_append, seqR]
    rw [rcomp_assoc]
    exact rcomp_congr S _ _ _ _ i j y (fun _ _ _ => rfl) (fun s hs w => ih s hs w)

theorem seqR_le (S : List ι) (ρ ρ' : σ → ι → List σ → ι → K) (x : List σ) (i j : ι)
    (hi : i ∈ S) (y : List σ)
    (h : ∀ a ∈ x, ∀ s ∈ S, ∀ u, ∀ t ∈ S, ρ a s u t ≼ ρ' a s u t) :
    seqR S ρ x i y j ≼ seqR S ρ' x i y j := by
  induction x generalizing i y with
  | nil => exact nle_refl _
  | cons a x ih =>
    simp only [seqR]
    apply rcomp_le
    · intro u s hs; exact h a (by simp) i hi u s hs
    · intro s hs u; exact ih s hs u (fun b hb => h b (by simp [hb]))

theorem rcomp_smul_left (S : List ι) (c : K) (A B : ι → List σ → ι → K) (i j : ι) (y : List σ) :
    rcomp S (fun i y j => c * A i y j) B i y j = c * rcomp S A B i y j := by
  simp only [rcomp]
  rw [← List.sum_map_mul_left]
  congr 1; apply List.map_congr_left; intro p _
  rw [← List.sum_map_mul_left]
  congr 1; apply List.map_congr_left; intro s _
  ring

theorem rcomp_smul_right (S : List ι) (c : K) (A B : ι → List σ → ι → K) (i j : ι) (y : List σ) :
    rcomp S A (fun i y j => c * B i y j) i y j = c * rcomp S A B i y j := by
  simp only [rcomp]
  rw [← List.sum_map_mul_left]
  congr 1; apply List.map_congr_left; intro p _
  rw [← List.sum_map_mul_left]
  congr 1; apply List.map_congr_left; intro s _
  ring

theorem rcomp_wsum_left (S : List ι) (l : List (List σ × K)) (A : List σ → ι → List σ → ι → K)
    (B : ι → List σ → ι → K) (i j : ι) (y : List σ) :
    rcomp S (fun i y j => wsum l (fun x => A x i y j)) B i y j
      = wsum l (fun x => rcomp S (A x) B i y j) := by
  induction l with
  | nil =>
    simp only [wsum_nil]
    exact rcomp_zero_left S _ B i j y (fun _ _ _ => rfl)
  | cons p l ih =>
    simp only [wsum_cons]
    rw [rcomp_add_left S (fun i y j => p.2 * A p.1 i y j) (fun i y j => wsum l (fun x => A x i y j)),
      rcomp_smul_left, ih]

theorem rcomp_wsum_right (S : List ι) (l : List (List σ × K)) (A : ι → List σ → ι → K)
    (B : List σ → ι → List σ → ι → K) (i j : ι) (y : List σ) :
    rcomp S A (fun i y j => wsum l (fun x => B x i y j)) i y j
      = wsum l (fun x => rcomp S A (B x) i y j) := by
  induction l with
  | nil =>
    simp only [wsum_nil]
    exact rcomp_zero_right S A _ i j y (fun _ _ _ => rfl)
  | cons p l ih =>
    simp only [wsum_cons]
    rw [rcomp_add_right S A (fun i y j => p.2 * B p.1 i y j) (fun i y j => wsum l (fun x => B x i y j)),
      rcomp_smul_right, ih]

theorem chainR_le (S : List ι) (g g' : CX σ → ι → List σ → ι → K) (Ys : List (CX σ)) (i j : ι)
    (hi : i ∈ S) (y : List σ)
    (h : ∀ Y ∈ Ys, ∀ s ∈ S, ∀ u, ∀ t ∈ S, g Y s u t ≼ g' Y s u t) :
    chainR S g Ys i y j ≼ chainR S g' Ys i y j := by
  induction Ys generalizing i y with
  | nil => exact nle_refl _
  | cons Y Ys ih =>
    simp only [chainR]
    apply rcomp_le
    · intro u s hs; exact h Y (by simp) i hi u s hs
    · intro s hs u; exact ih s hs u (fun Z hZ => h Z (by simp [hZ]))

theorem chainR_congr (S : List ι) (g g' : CX σ → ι → List σ → ι → K) (Ys : List (CX σ)) (i j : ι)
    (hi : i ∈ S) (y : List σ)
    (h : ∀ Y ∈ Ys, ∀ s ∈ S, ∀ u, ∀ t ∈ S, g Y s u t = g' Y s u t) :
    chainR S g Ys i y j = chainR S g' Ys i y j := by
  induction Ys generalizing i y with
  | nil => rfl
  | cons Y Ys ih =>
    simp only [chainR]
    apply rcomp_congr
    · intro u s hs; exact h Y (by simp) i hi u s hs
    · intro s hs u; exact ih s hs u (fun Z hZ => h Z (by simp [hZ]))

/-- **the body lemma**: the weighted language of a body, paired with the relation of the input
string, is the chain of the paired symbols -/
theorem bh_body (S : List ι) (hS : S.Nodup) (ρ : σ → ι → List σ → ι → K)
    (m : σ → List (List σ × K)) (g : CX σ → ι → List σ → ι → K) (Ys : List σ)
    (hg : ∀ Y ∈ Ys, ∀ s ∈ S, ∀ u t, g (.sym Y) s u t = wsum (m Y) (fun x => seqR S ρ x s u t))
    (i j : ι) (hi : i ∈ S) (y : List σ) :
    wsum (lbody m Ys) (fun x => seqR S ρ x i y j) = chainR S g (Ys.map .sym) i y j := by
  induction Ys generalizing i y with
  | nil =>
    simp only [lbody, wsum_cons, wsum_nil, add_zero, one_mul, List.map_nil, chainR, seqR]
  | cons Y Ys ih =>
    simp only [lbody, List.map_cons, chainR]
    rw [wsum_lcat]
    have h1 : rcomp S (g (.sym Y)) (chainR S g (Ys.map .sym)) i y j
        = rcomp S (fun i y j => wsum (m Y) (fun x => seqR S ρ x i y j))
            (fun i y j => wsum (lbody m Ys) (fun x => seqR S ρ x i y j)) i y j := by
      apply rcomp_congr
      · intro u s _; exact hg Y (by simp) i hi u s
      · intro s hs u
        exact (ih (fun Z hZ => hg Z (by simp [hZ])) s hs u).symm
    rw [h1, rcomp_wsum_left, wsum_eq]
    congr 1; apply List.map_congr_left; intro p _
    rw [rcomp_wsum_right]
    congr 1
    apply wsum_congr
    intro p' _
    exact seqR_append S hS ρ p.1 p'.1 i j hi y

/-- the paired weighted languages of the grammar symbols, as a table over the middle components -/
def gρ (G : CFG σ K) (S : List ι) (ρ : σ → ι → List σ → ι → K) (n : Nat) :
    CX σ → ι → List σ → ι → K
  | .sym Y => fun i y j => wsum (ysym G n Y) (fun x => seqR S ρ x i y j)
  | _ => fun _ _ _ => 0

/-- **one exact step**: the yields of height `≤ n+1` of a nonterminal, paired with the input
relation, through the rules of the nonterminal -/
theorem bh_step (G : CFG σ K) (S : List ι) (hS : S.Nodup) (ρ : σ → ι → List σ → ι → K) (n : Nat)
    (X : σ) (i j : ι) (hi : i ∈ S) (y : List σ) :
    wsum (yields G (n+1) X) (fun x => seqR S ρ x i y j)
      = ((G.rules.filter (fun r => r.head = X)).map fun r =>
          r.w * chainR S (gρ G S ρ n) (r.body.map .sym) i y j).sum := by
  rw [wsum_yields_succ]
  congr 1; apply List.map_congr_left; intro r _
  rw [bh_body S hS ρ (ysym G n) (gρ G S ρ n) r.body (fun _ _ _ _ _ _ => rfl) i j hi y]

/-- the paired language of a terminal is its relation -/
theorem gρ_term (G : CFG σ K) (S : List ι) (hS : S.Nodup) (ρ : σ → ι → List σ → ι → K) (n : Nat)
    (a : σ) (ha : a ∈ G.V) (i j : ι) (hj : j ∈ S) (y : List σ) :
    gρ G S ρ n (.sym a) i y j = ρ a i y j := by
  simp only [gρ, ysym, if_pos ha, wsum_cons, wsum_nil, add_zero, one_mul, seqR]
  rw [comp_rid S hS, if_pos hj]

theorem gρ_nt (G : CFG σ K) (S : List ι) (ρ : σ → ι → List σ → ι → K) (n : Nat)
    (X : σ) (hX : X ∉ G.V) (i j : ι) (y : List σ) :
    gρ G S ρ n (.sym X) i y j = wsum (yields G n X) (fun x => seqR S ρ x i y j) := by
  simp only [gρ, ysym, if_neg hX]

end Core
end ComposeAux

/-- the side conditions of the composition theorems -/
structure ComposeOK {ι σ K : Type} [DecidableEq σ] (G : CFG σ K) (T : FST ι σ K) : Prop where
  head_nt : ∀ r ∈ G.rules, r.head ∉ G.V
  start_nt : G.S ∉ G.V
  inp_ok : ∀ e ∈ T.arcs, ∀ a, e.inp = some a → a ∉ G.V → a ≠ G.S ∧ ∀ r ∈ G.rules, a ∉ r.body

instance {ι σ K : Type} [DecidableEq σ] (G : CFG σ K) (T : FST ι σ K) : Decidable (ComposeOK G T) :=
  decidable_of_iff
    ((∀ r ∈ G.rules, r.head ∉ G.V) ∧ G.S ∉ G.V ∧
      ∀ e ∈ T.arcs, ∀ a, e.inp = some a → a ∉ G.V → a ≠ G.S ∧ ∀ r ∈ G.rules, a ∉ r.body)
    ⟨fun h => ⟨h.1, h.2.1, h.2.2⟩, fun h => ⟨h.head_nt, h.start_nt, h.inp_ok⟩⟩

namespace ComposeAux
section Bounds
variable {ι σ K : Type} [DecidableEq ι] [DecidableEq σ] [CommSemiring K]

/-- a nonterminal that no arc reads -/
def NtOK (G : CFG σ K) (T : FST ι σ K) (X : σ) : Prop := X ∉ G.V ∧ ∀ e ∈ T.arcs, e.inp ≠ some X

theorem ntOK_start {G : CFG σ K} {T : FST ι σ K} (hok : ComposeOK G T) : NtOK G T G.S :=
  ⟨hok.start_nt, fun e he h => (hok.inp_ok e he G.S h hok.start_nt).1 rfl⟩

theorem ntOK_body {G : CFG σ K} {T : FST ι σ K} (hok : ComposeOK G T) (r : Rule σ K)
    (hr : r ∈ G.rules) (Y : σ) (hY : Y ∈ r.body) (hV : Y ∉ G.V) : NtOK G T Y :=
  ⟨hV, fun e he h => (hok.inp_ok e he Y h hV).2 r hr hY⟩

theorem arcR_zero_of_no_arc (T : FST ι σ K) (l : Option σ) (h : ∀ e ∈ T.arcs, e.inp ≠ l)
    (i j : ι) (y : List σ) : arcR T l i y j = 0 := by
  unfold arcR
  apply sum_map_zero; intro e he
  rw [if_neg]
  rintro ⟨_, h', _⟩
  exact h e he h'

/-- one unfolding at the triples of a nonterminal that no arc reads -/
theorem step_nt (G : CFG σ K) (T : FST ι σ K) (n : Nat) (X : σ) (hX : NtOK G T X) (i j : ι)
    (hi : i ∈ T.states) (y : List σ) :
    WN (composeAll G T) (n+1) (.item i (.sym X) j) (tm y)
      = ((G.rules.filter (fun r => r.head = X)).map fun r =>
          r.w * chainR T.states (hrel (WN (composeAll G T) n)) (r.body.map .sym) i y j).sum := by
  rw [step_sym G T n i j hi, if_neg hX.1, add_zero, arcR_zero_of_no_arc T (some X) hX.2, add_zero]

theorem WN_mono {τ : Type} [DecidableEq τ] (G : CFG τ K) {n m : Nat} (h : n ≤ m) (X : τ)
    (x : List τ) : WN G n X x ≼ WN G m X x := by
  classical
  exact WN_le_of_le G h X x

/-- **lower bound**: every family `ρ` below the terminal triples of level `c` gives, through the
yields of height `≤ n`, a lower bound of the nonterminal triples of level `n + c` -/
theorem bh_lower (G : CFG σ K) (T : FST ι σ K) (hok : ComposeOK G T)
    (ρ : σ → ι → List σ → ι → K) (c : Nat)
    (hρ : ∀ a ∈ G.V, ∀ i ∈ T.states, ∀ y, ∀ j ∈ T.states,
      ρ a i y j ≼ WN (composeAll G T) c (.item i (.sym a) j) (tm y))
    (n : Nat) (X : σ) (hX : NtOK G T X) (i j : ι) (hi : i ∈ T.states) (hj : j ∈ T.states)
    (y : List σ) :
    wsum (yields G n X) (fun x => seqR T.states ρ x i y j)
      ≼ WN (composeAll G T) (n + c) (.item i (.sym X) j) (tm y) := by
  induction n generalizing X i j y with
  | zero => simp only [yields, wsum_nil]; exact nle_zero _
  | succ n ih =>
    rw [bh_step G T.states (nodup_eraseDups _) ρ n X i j hi y,
      show n + 1 + c = (n + c) + 1 by omega, step_nt G T (n + c) X hX i j hi y]
    apply nle_sum; intro r hr
    apply nle_mul_left
    apply chainR_le _ _ _ _ i j hi y
    intro Y hY s hs u t ht
    obtain ⟨Y0, hY0, rfl⟩ := List.mem_map.mp hY
    have hr' : r ∈ G.rules := (List.mem_filter.mp hr).1
    by_cases hV : Y0 ∈ G.V
    · rw [gρ_term G T.states (nodup_eraseDups _) ρ n Y0 hV s t ht u]
      exact nle_trans (hρ Y0 hV s hs u t ht) (WN_mono _ (by omega) _ _)
    · rw [gρ_nt G T.states ρ n Y0 hV s t u]
      exact ih Y0 (ntOK_body hok r hr' Y0 hY0 hV) s t hs ht u

/-- **upper bound**: every family `ρ` above the terminal triples of level `c` gives an upper bound of
the nonterminal triples of every level `n ≤ c` -/
theorem bh_upper (G : CFG σ K) (T : FST ι σ K) (hok : ComposeOK G T)
    (ρ : σ → ι → List σ → ι → K) (c : Nat)
    (hρ : ∀ a ∈ G.V, ∀ i ∈ T.states, ∀ y, ∀ j ∈ T.states,
      WN (composeAll G T) c (.item i (.sym a) j) (tm y) ≼ ρ a i y j)
    (n : Nat) (hn : n ≤ c) (X : σ) (hX : NtOK G T X) (i j : ι) (hi : i ∈ T.states)
    (hj : j ∈ T.states) (y : List σ) :
    WN (composeAll G T) n (.item i (.sym X) j) (tm y)
      ≼ wsum (yields G n X) (fun x => seqR T.states ρ x i y j) := by
  induction n generalizing X i j y with
  | zero => exact nle_zero _
  | succ n ih =>
    rw [bh_step G T.states (nodup_eraseDups _) ρ n X i j hi y, step_nt G T n X hX i j hi y]
    apply nle_sum; intro r hr
    apply nle_mul_left
    apply chainR_le _ _ _ _ i j hi y
    intro Y hY s hs u t ht
    obtain ⟨Y0, hY0, rfl⟩ := List.mem_map.mp hY
    have hr' : r ∈ G.rules := (List.mem_filter.mp hr).1
    by_cases hV : Y0 ∈ G.V
    · rw [gρ_term G T.states (nodup_eraseDups _) ρ n Y0 hV s t ht u]
      exact nle_trans (WN_mono _ (by omega) _ _) (hρ Y0 hV s hs u t ht)
    · rw [gρ_nt G T.states ρ n Y0 hV s t u]
      exact ih (by omega) Y0 (ntOK_body hok r hr' Y0 hY0 hV) s t hs ht u

end Bounds

/-! ### bookkeeping: states, yields -/
section Book
variable {ι σ K : Type} [DecidableEq ι] [DecidableEq σ] [CommSemiring K]

theorem mem_states_stop (T : FST ι σ K) (s : ι × K) (h : s ∈ T.stop) : s.1 ∈ T.states := by
  simp only [FST.states, List.mem_eraseDups, List.mem_append, List.mem_map]
  exact Or.inl (Or.inr ⟨s, h, rfl⟩)

theorem wsum_sum {α : Type} (l : List (List σ × K)) (A : List α) (F : α → List σ → K) :
    wsum l (fun x => (A.map fun a => F a x).sum) = (A.map fun a => wsum l (F a)).sum := by
  simp only [wsum_eq]
  rw [sum_swap A l (fun a p => p.2 * F a p.1)]
  congr 1; apply List.map_congr_left; intro p _
  rw [List.sum_map_mul_left]

theorem wsum_mul_left (l : List (List σ × K)) (c : K) (F : List σ → K) :
    wsum l (fun x => c * F x) = c * wsum l F := by
  simp only [wsum_eq]
  rw [← List.sum_map_mul_left]
  congr 1; apply List.map_congr_left; intro p _; ring

/-- pairing with initial and final weights -/
theorem wsum_pair (l : List (List σ × K)) (A B : List (ι × K)) (F : ι → ι → List σ → K) :
    wsum l (fun x => (A.map fun s => (B.map fun t => s.2 * F s.1 t.1 x * t.2).sum).sum)
      = (A.map fun s => (B.map fun t => s.2 * t.2 * wsum l (F s.1 t.1)).sum).sum := by
  rw [wsum_sum]
  congr 1; apply List.map_congr_left; intro s _
  rw [wsum_sum]
  congr 1; apply List.map_congr_left; intro t _
  rw [← wsum_mul_left]
  apply wsum_congr; intro p _; ring

theorem lbody_forall (P : List σ → Prop) (hnil : P []) (happ : ∀ u v, P u → P v → P (u ++ v))
    (m : σ → List (List σ × K)) (body : List σ) (hm : ∀ Y ∈ body, ∀ p ∈ m Y, P p.1) :
    ∀ p ∈ lbody m body, P p.1 := by
  induction body with
  | nil => intro p hp; simp only [lbody, List.mem_singleton] at hp; subst hp; exact hnil
  | cons Y Ys ih =>
    intro p hp
    simp only [lbody, lcat, List.mem_flatMap, List.mem_map] at hp
    obtain ⟨q1, hq1, q2, hq2, rfl⟩ := hp
    exact happ _ _ (hm Y (by simp) q1 hq1) (ih (fun Z hZ => hm Z (by simp [hZ])) q2 hq2)

/-- the yields are strings of terminals -/
theorem yields_over (G : CFG σ K) (n : Nat) (X : σ) : ∀ p ∈ yields G n X, ∀ a ∈ p.1, a ∈ G.V := by
  induction n generalizing X with
  | zero => intro p hp; simp [yields] at hp
  | succ n ih =>
    intro p hp
    rw [yields_succ] at hp
    simp only [List.mem_flatMap, List.mem_map] at hp
    obtain ⟨r, _, q, hq, rfl⟩ := hp
    refine lbody_forall (fun x => ∀ a ∈ x, a ∈ G.V) (by simp) ?_ (ysym G n) r.body ?_ q hq
    · intro u v hu hv a ha
      rcases List.mem_append.mp ha with h | h
      · exact hu a h
      · exact hv a h
    · intro Y _ p' hp'
      unfold ysym at hp'
      split at hp'
      · next hY => simp only [List.mem_singleton] at hp'; subst hp'; simpa using hY
      · exact ih Y p' hp'

theorem le_foldr_max (l : List Nat) (a : Nat) (h : a ∈ l) : a ≤ l.foldr max 0 := by
  induction l with
  | nil => simp at h
  | cons b l ih =>
    simp only [List.foldr_cons]
    rcases List.mem_cons.mp h with rfl | h
    · exact Nat.le_max_left _ _
    · exact Nat.le_trans (ih h) (Nat.le_max_right _ _)

theorem yields_length (G : CFG σ K) (n : Nat) (X : σ) :
    ∀ p ∈ yields G n X, p.1.length ≤ yieldLen G n X := by
  intro p hp
  apply le_foldr_max
  exact List.mem_map.mpr ⟨p, hp, rfl⟩

/-- the candidate list `strsLe V N` covers the yields as soon as `N ≥ yieldLen` -/
theorem yields_mem_strsLe (G : CFG σ K) (n : Nat) (X : σ) (N : Nat) (hN : yieldLen G n X ≤ N) :
    ∀ p ∈ yields G n X, p.1 ∈ strsLe G.V.eraseDups N := by
  intro p hp
  rw [mem_strsLe]
  refine ⟨Nat.le_trans (yields_length G n X p hp) hN, ?_⟩
  intro a ha
  rw [List.mem_eraseDups]
  exact yields_over G n X p hp a ha

end Book
end ComposeAux
end Genlm

