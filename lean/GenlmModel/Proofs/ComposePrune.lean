import GenlmModel.Proofs.ComposeStep
import GenlmModel.Proofs.Horn

/-! Restricting the Bar-Hillel construction to the supported items (`composeItems`, the set `C` of
`_compose_bottom_up_epsilon`) and dropping the zero-weight rules (`CFG.add`) does not change `WN` at any
symbol, string or level: `compose_eq_composeAll`.  No hypothesis on the grammar or the transducer. -/
namespace Genlm
set_option linter.unusedSectionVars false
open UnfoldAux WfsaAux FstAux ComposeAux

namespace ComposeAux
section Prune
variable {ι σ K : Type} [DecidableEq ι] [DecidableEq σ] [CommSemiring K]

/-- the supported items are closed under the rules with a triple as head -/
theorem composeItems_closed (G : CFG σ K) (T : FST ι σ K) (r : Rule (CSym ι σ) K)
    (hr : r ∈ expandedRules G T ++ arcRules T)
    (hb : ∀ b ∈ r.body, b.isItem = true → b ∈ composeItems G T) : r.head ∈ composeItems G T := by
  unfold composeItems at hb ⊢
  rw [hlfp_spec]
  have hc : (⟨r.body.filter CSym.isItem, r.head⟩ : Clause (CSym ι σ)) ∈ itemClauses G T :=
    List.mem_map.mpr ⟨r, hr, rfl⟩
  refine Derivable.fire _ hc ?_
  intro p hp
  obtain ⟨hp1, hp2⟩ := List.mem_filter.mp hp
  exact (hlfp_spec _ _).mp (hb p hp1 hp2)

theorem rules_item_head (G : CFG σ K) (T : FST ι σ K) (r : Rule (CSym ι σ) K)
    (hr : r ∈ (composeAll G T).rules) (i j : ι) (hx : CX σ) (hh : r.head = .item i hx j) :
    r ∈ expandedRules G T ++ arcRules T := by
  have hr' : r ∈ expandedRules G T ++ startRules T ++ arcRules T := hr
  simp only [List.mem_append] at hr' ⊢
  rcases hr' with (h | h) | h
  · exact Or.inl h
  · exfalso
    simp only [startRules, List.mem_flatMap, List.mem_map] at h
    obtain ⟨s, _, t, _, rfl⟩ := h
    cases hh
  · exact Or.inr h

/-- a triple outside the supported set weighs nothing, at every level -/
theorem WN_zero_of_unsupported (G : CFG σ K) (T : FST ι σ K) (n : Nat) (i j : ι) (hx : CX σ)
    (h : CSym.item i hx j ∉ composeItems G T) (u : List (CSym ι σ)) :
    WN (composeAll G T) n (.item i hx j) u = 0 := by
  classical
  induction n generalizing i j hx u with
  | zero => rfl
  | succ n ih =>
    simp only [WN, lsum_eq_sum]
    apply sum_map_zero
    intro r hr
    obtain ⟨hr, hh⟩ := List.mem_filter.mp hr
    have hh : r.head = .item i hx j := by simpa using hh
    have hr2 := rules_item_head G T r hr i j hx hh
    have : ∃ b ∈ r.body, b.isItem = true ∧ b ∉ composeItems G T := by
      by_contra hcon
      push Not at hcon
      exact h (hh ▸ composeItems_closed G T r hr2 hcon)
    obtain ⟨b, hb, hbi, hbC⟩ := this
    cases b with
    | term c => simp [CSym.isItem] at hbi
    | start => simp [CSym.isItem] at hbi
    | item i' hx' j' =>
      have hV : CSym.item i' hx' j' ∉ (composeAll G T).V := fun hmem => by
        simpa [CSym.isItem] using composeV_noItem T _ hmem
      rw [Wbody_eq_zero_of_sym_zero (composeAll G T).V (WN (composeAll G T) n) _ hV
        (fun u => ih i' j' hx' hbC u) r.body hb, mul_zero]

/-- every triple with a non-zero weight, at some level and string, is supported -/
theorem supported_of_WN_ne_zero (G : CFG σ K) (T : FST ι σ K) (n : Nat) (i j : ι) (hx : CX σ)
    (u : List (CSym ι σ)) (h : WN (composeAll G T) n (.item i hx j) u ≠ 0) :
    CSym.item i hx j ∈ composeItems G T := by
  by_contra hc
  exact h (WN_zero_of_unsupported G T n i j hx hc u)

/-- the supported items are the least model of the item clauses -/
theorem mem_composeItems (G : CFG σ K) (T : FST ι σ K) (X : CSym ι σ) :
    X ∈ composeItems G T ↔ Derivable (itemClauses G T) X := hlfp_spec _ _

theorem joinAll_items (S : List ι) (s : ι) (Ys : List (CX σ)) :
    ∀ p ∈ joinAll S s Ys, ∀ b ∈ p.1, CSym.isItem b = true := by
  induction Ys generalizing s with
  | nil => intro p hp; simp only [joinAll, List.mem_singleton] at hp; subst hp; simp
  | cons Y Ys ih =>
    intro p hp b hb
    simp only [joinAll, List.mem_flatMap, List.mem_map] at hp
    obtain ⟨k, _, q, hq, rfl⟩ := hp
    rcases List.mem_cons.mp hb with rfl | hb
    · rfl
    · exact ih k q hq b hb

theorem expanded_items (G : CFG σ K) (T : FST ι σ K) :
    ∀ r ∈ expandedRules G T, ∀ b ∈ r.body, CSym.isItem b = true := by
  intro r hr
  simp only [expandedRules, expandRule, List.mem_flatMap, List.mem_map] at hr
  obtain ⟨r0, _, s, _, p, hp, rfl⟩ := hr
  exact joinAll_items T.states s r0.body p hp

theorem stepL_filter {τ : Type} [DecidableEq τ] (V : List τ) (rs : List (Rule τ K))
    (p : Rule τ K → Bool) (f : τ → List τ → K) (X : τ) (x : List τ)
    (h : ∀ r ∈ rs, p r = false → r.w * Wbody V f r.body x = 0) :
    stepL V (rs.filter p) f X x = stepL V rs f X x := by
  rw [stepL_eq_ite, stepL_eq_ite]
  refine (sum_filter_of_zero _ _ _ ?_).symm
  intro r hr hp
  rw [h r hr hp]; simp

end Prune
end ComposeAux

section PruneMain
variable {ι σ K : Type} [DecidableEq ι] [DecidableEq σ] [CommSemiring K] [DecidableEq K]

/-- **pruning is harmless**: the grammar Python builds (rules restricted to the supported items `C`,
zero-weight rules dropped) and the unrestricted construction agree at every symbol, string and
level -/
theorem compose_eq_composeAll (G : CFG σ K) (T : FST ι σ K) (n : Nat) (X : CSym ι σ)
    (u : List (CSym ι σ)) : WN (compose G T) n X u = WN (composeAll G T) n X u := by
  induction n generalizing X u with
  | zero => rfl
  | succ n ih =>
    have hf : WN (compose G T) n = WN (composeAll G T) n := by funext X u; exact ih X u
    rw [WN_succ', WN_succ', hf]
    show stepL (composeV T) (mkRules (((expandedRules G T).filter fun r =>
        r.body.all (· ∈ composeItems G T)) ++ startRules T ++ arcRules T)) _ X u
      = stepL (composeV T) (expandedRules G T ++ startRules T ++ arcRules T) _ X u
    rw [stepL_mkRules, stepL_app, stepL_app, stepL_app, stepL_app]
    congr 2
    apply stepL_filter
    intro r hr hp
    have : ∃ b ∈ r.body, b ∉ composeItems G T := by
      by_contra hcon
      push Not at hcon
      have : (r.body.all fun b => decide (b ∈ composeItems G T)) = true := by
        rw [List.all_eq_true]; intro b hb; simpa using hcon b hb
      rw [this] at hp; exact absurd hp (by simp)
    obtain ⟨b, hb, hbC⟩ := this
    have hbi := expanded_items G T r hr b hb
    cases b with
    | term c => simp [CSym.isItem] at hbi
    | start => simp [CSym.isItem] at hbi
    | item i' hx' j' =>
      have hV : CSym.item i' hx' j' ∉ composeV T := fun hmem => by
        simpa [CSym.isItem] using composeV_noItem T _ hmem
      rw [Wbody_eq_zero_of_sym_zero (composeV T) (WN (composeAll G T) n) _ hV
        (fun u => WN_zero_of_unsupported G T n i' j' hx' hbC u) r.body hb, mul_zero]

/-- in particular at the start symbol -/
theorem compose_eq_composeAll_start (G : CFG σ K) (T : FST ι σ K) (n : Nat) (u : List (CSym ι σ)) :
    WN (compose G T) n (compose G T).S u = WN (composeAll G T) n (composeAll G T).S u :=
  compose_eq_composeAll G T n .start u

end PruneMain
end Genlm
