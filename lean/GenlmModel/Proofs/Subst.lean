import GenlmModel.Proofs.Derives
import GenlmModel.Proofs.AddEosDerives
import Mathlib.Data.List.Forall2

/-!
Property C19 (`LarkStuff._char_cfg`): the character-level grammar accepts exactly the strings
obtained by taking a terminal sequence derivable in the rule grammar and replacing each terminal
(name) by a string derivable in the sub-grammar of that terminal (i.e. matching its pattern).

Boolean / derivation-tree level (`Derives`), weights ignored.

* Step 1 (`subst_shared_spec`): rule grammar `G` + one shared grammar `H` for all terminal names.
* Step 2 (`subst_union_restrict`): the union of the per-terminal grammars restricted to the
  symbols of one of them is that one.
* Step 3 (`substitution_spec`): the two combined: `G.rules ++ ⋃ₜ (H t).rules`, `V := ⋃ₜ (H t).V`.
* Step 4 (`substitution_ignore_spec`): the `%ignore` variant.
-/
namespace Genlm
variable {σ K : Type}

/-! ### definitions -/

/-- the rules of `G` on top of the rules of `H`; the terminals are those of `H` (the characters) -/
def mergeCfg (G H : CFG σ K) : CFG σ K :=
  { S := G.S, V := H.V, rules := G.rules ++ H.rules }

/-- `y` is a symbol *used* by `G`: the start symbol or a symbol of some rule body -/
def GSym (G : CFG σ K) (y : σ) : Prop := y = G.S ∨ ∃ r ∈ G.rules, y ∈ r.body

/-- `y` is a symbol *used* by the sub-grammar `H`: a terminal name of `G` or a body symbol of `H` -/
def HSym (G H : CFG σ K) (y : σ) : Prop := y ∈ G.V ∨ ∃ r ∈ H.rules, y ∈ r.body

instance [DecidableEq σ] (G : CFG σ K) (y : σ) : Decidable (GSym G y) := by
  unfold GSym; infer_instance

instance [DecidableEq σ] (G H : CFG σ K) (y : σ) : Decidable (HSym G H y) := by
  unfold HSym; infer_instance

/-- side conditions of Step 1 (all decidable) -/
structure SubstShared (G H : CFG σ K) : Prop where
  /-- A1: the symbols of `G` are not characters -/
  start_nchar : G.S ∉ H.V
  head_nchar : ∀ r ∈ G.rules, r.head ∉ H.V
  body_nchar : ∀ r ∈ G.rules, ∀ y ∈ r.body, y ∉ H.V
  /-- A2: `H` defines no symbol used by `G` except the terminal names -/
  sub_head : ∀ r ∈ H.rules, GSym G r.head → r.head ∈ G.V
  /-- A3: `G` defines no symbol used by `H` (in particular no terminal name) -/
  top_head : ∀ r ∈ G.rules, ¬ HSym G H r.head

/-- union of the per-terminal grammars `H t`, `t ∈ T` (`foo.V |= G.V`, rules added) -/
def unionCfg (T : List σ) (H : σ → CFG σ K) (S : σ) : CFG σ K :=
  { S := S, V := T.flatMap fun t => (H t).V, rules := T.flatMap fun t => (H t).rules }

/-- `y` is a symbol used by `H t`: its start symbol `t` or a body symbol -/
def HSymT (H : σ → CFG σ K) (t y : σ) : Prop := y = t ∨ ∃ r ∈ (H t).rules, y ∈ r.body

instance [DecidableEq σ] (H : σ → CFG σ K) (t y : σ) : Decidable (HSymT H t y) := by
  unfold HSymT; infer_instance

/-- side conditions of Step 2 (all decidable) -/
structure SubstUnion (T : List σ) (H : σ → CFG σ K) : Prop where
  /-- B1: no rule of `H t'` defines a symbol used by `H t`, `t ≠ t'` -/
  disj : ∀ t ∈ T, ∀ t' ∈ T, t ≠ t' → ∀ r ∈ (H t').rules, ¬ HSymT H t r.head
  /-- B2: a symbol used by `H t` that is a character of some sub-grammar is a character of `H t` -/
  start_char : ∀ t ∈ T, (t ∈ T.flatMap fun t' => (H t').V) → t ∈ (H t).V
  body_char : ∀ t ∈ T, ∀ r ∈ (H t).rules, ∀ y ∈ r.body,
    (y ∈ T.flatMap fun t' => (H t').V) → y ∈ (H t).V
  /-- B3: a nonterminal defined by `H t` is not a character of another sub-grammar -/
  head_nchar : ∀ t ∈ T, ∀ r ∈ (H t).rules, r.head ∉ (H t).V →
    r.head ∉ T.flatMap fun t' => (H t').V

/-- the character-level grammar of `_char_cfg` (no `%ignore`) -/
def substCfg (G : CFG σ K) (H : σ → CFG σ K) : CFG σ K := mergeCfg G (unionCfg G.V H G.S)

namespace SubstAux

theorem subst_forall₂_append_left {α β : Type} {R : α → β → Prop} :
    ∀ {u v : List α} {l : List β}, List.Forall₂ R (u ++ v) l →
      ∃ l₁ l₂, l = l₁ ++ l₂ ∧ List.Forall₂ R u l₁ ∧ List.Forall₂ R v l₂
  | [], v, l, h => ⟨[], l, rfl, .nil, h⟩
  | a :: u, v, l, h => by
      rw [List.cons_append, List.forall₂_cons_left_iff] at h
      obtain ⟨b, l', hab, hl', rfl⟩ := h
      obtain ⟨l₁, l₂, rfl, h1, h2⟩ := subst_forall₂_append_left hl'
      exact ⟨b :: l₁, l₂, rfl, .cons hab h1, h2⟩

/-- the sub-grammar embeds in the merged grammar -/
theorem subst_embed_sub (G H : CFG σ K) :
    (∀ X s, Derives H X s → Derives (mergeCfg G H) X s) ∧
    (∀ β s, DerivesBody H β s → DerivesBody (mergeCfg G H) β s) :=
  Derives.both
    (fun _ h => .term h)
    (fun _ _ h1 h2 _ ih => .rule (List.mem_append_right _ h1) h2 ih)
    .nil
    (fun _ _ _ _ _ _ ih1 ih2 => .cons ih1 ih2)

/-- Step 1, `←`, every symbol -/
theorem subst_shared_mpr (G H : CFG σ K) (hhead : ∀ r ∈ G.rules, r.head ∉ H.V) :
    (∀ X τ, Derives G X τ → ∀ parts, List.Forall₂ (fun t u => Derives H t u) τ parts →
      Derives (mergeCfg G H) X parts.flatten) ∧
    (∀ β τ, DerivesBody G β τ → ∀ parts, List.Forall₂ (fun t u => Derives H t u) τ parts →
      DerivesBody (mergeCfg G H) β parts.flatten) := by
  refine Derives.both ?_ ?_ ?_ ?_
  · intro a _ parts hp
    rw [List.forall₂_cons_left_iff] at hp
    obtain ⟨u, l', hau, hl', rfl⟩ := hp
    rw [List.forall₂_nil_left_iff] at hl'
    subst hl'
    simpa using (subst_embed_sub G H).1 _ _ hau
  · intro r τ hr _ _ ih parts hp
    exact .rule (List.mem_append_left _ hr) (hhead r hr) (ih parts hp)
  · intro parts hp
    rw [List.forall₂_nil_left_iff] at hp
    subst hp
    exact .nil
  · intro s ss u v _ _ ih1 ih2 parts hp
    obtain ⟨l₁, l₂, rfl, h1, h2⟩ := subst_forall₂_append_left hp
    rw [List.flatten_append]
    exact .cons (ih1 _ h1) (ih2 _ h2)

/-- Step 1, `→`, every symbol, both components simultaneously -/
theorem subst_shared_mp {G H : CFG σ K} (h : SubstShared G H) :
    (∀ X s, Derives (mergeCfg G H) X s →
      (GSym G X → ∃ τ parts, Derives G X τ ∧
        List.Forall₂ (fun t u => Derives H t u) τ parts ∧ s = parts.flatten) ∧
      (HSym G H X → Derives H X s)) ∧
    (∀ β s, DerivesBody (mergeCfg G H) β s →
      ((∀ y ∈ β, GSym G y) → ∃ τ parts, DerivesBody G β τ ∧
        List.Forall₂ (fun t u => Derives H t u) τ parts ∧ s = parts.flatten) ∧
      ((∀ y ∈ β, HSym G H y) → DerivesBody H β s)) := by
  classical
  refine Derives.both ?_ ?_ ?_ ?_
  · intro a ha
    have ha : a ∈ H.V := ha
    refine ⟨fun hg => ?_, fun _ => .term ha⟩
    rcases hg with rfl | ⟨r, hr, hy⟩
    · exact absurd ha h.start_nchar
    · exact absurd ha (h.body_nchar r hr a hy)
  · intro r x hr hnv _ ih
    have hnv : r.head ∉ H.V := hnv
    have hr : r ∈ G.rules ∨ r ∈ H.rules := List.mem_append.1 hr
    -- the `H` component
    have hH : HSym G H r.head → Derives H r.head x := by
      intro hh
      rcases hr with hr | hr
      · exact absurd hh (h.top_head r hr)
      · exact .rule hr hnv (ih.2 fun y hy => .inr ⟨r, hr, hy⟩)
    refine ⟨fun hg => ?_, hH⟩
    by_cases ht : r.head ∈ G.V
    · exact ⟨[r.head], [x], .term ht, .cons (hH (.inl ht)) .nil, by simp⟩
    · rcases hr with hr | hr
      · obtain ⟨τ, parts, h1, h2, h3⟩ := ih.1 fun y hy => .inr ⟨r, hr, hy⟩
        exact ⟨τ, parts, .rule hr ht h1, h2, h3⟩
      · exact absurd (h.sub_head r hr hg) ht
  · exact ⟨fun _ => ⟨[], [], .nil, .nil, rfl⟩, fun _ => .nil⟩
  · intro s ss u v _ _ ih1 ih2
    refine ⟨fun hg => ?_, fun hh => ?_⟩
    · obtain ⟨τ₁, p₁, a1, a2, rfl⟩ := ih1.1 (hg s (List.mem_cons_self ..))
      obtain ⟨τ₂, p₂, b1, b2, rfl⟩ := ih2.1 fun y hy => hg y (List.mem_cons_of_mem _ hy)
      exact ⟨τ₁ ++ τ₂, p₁ ++ p₂, .cons a1 b1, List.rel_append a2 b2, by simp⟩
    · exact .cons (ih1.2 (hh s (List.mem_cons_self ..)))
        (ih2.2 fun y hy => hh y (List.mem_cons_of_mem _ hy))

end SubstAux

open SubstAux

/-! ### Step 1: one shared sub-grammar -/

/-- Step 1 for every symbol `X` used by `G` -/
theorem subst_shared_sym {G H : CFG σ K} (h : SubstShared G H) {X : σ} (hX : GSym G X)
    (s : List σ) :
    Derives (mergeCfg G H) X s ↔
      ∃ τ parts, Derives G X τ ∧ List.Forall₂ (fun t u => Derives H t u) τ parts ∧
        s = parts.flatten :=
  ⟨fun hd => ((subst_shared_mp h).1 X s hd).1 hX,
   fun ⟨_, parts, h1, h2, h3⟩ => h3 ▸ (subst_shared_mpr G H h.head_nchar).1 X _ h1 parts h2⟩

/-- **Step 1**: the language of the merged grammar is the language of `G` with every terminal
name `t` replaced by a string derivable from `t` in `H` -/
theorem subst_shared_spec {G H : CFG σ K} (h : SubstShared G H) (s : List σ) :
    Derives (mergeCfg G H) G.S s ↔
      ∃ τ parts, Derives G G.S τ ∧ List.Forall₂ (fun t u => Derives H t u) τ parts ∧
        s = parts.flatten :=
  subst_shared_sym h (.inl rfl) s

/-- a terminal name derives in the merged grammar what it derives in `H` -/
theorem subst_shared_terminal {G H : CFG σ K} (h : SubstShared G H) {t : σ} (ht : t ∈ G.V)
    (u : List σ) : Derives (mergeCfg G H) t u ↔ Derives H t u :=
  ⟨fun hd => ((subst_shared_mp h).1 t u hd).2 (.inl ht), (subst_embed_sub G H).1 t u⟩

/-! ### Step 2: union of the per-terminal grammars -/

namespace SubstAux

theorem subst_union_mpr {T : List σ} {H : σ → CFG σ K} (S : σ) (h : SubstUnion T H) {t : σ}
    (ht : t ∈ T) :
    (∀ X u, Derives (H t) X u → Derives (unionCfg T H S) X u) ∧
    (∀ β u, DerivesBody (H t) β u → DerivesBody (unionCfg T H S) β u) :=
  Derives.both
    (fun _ ha => .term (List.mem_flatMap.2 ⟨t, ht, ha⟩))
    (fun r _ hr hnv _ ih => .rule (List.mem_flatMap.2 ⟨t, ht, hr⟩) (h.head_nchar t ht r hr hnv) ih)
    .nil
    (fun _ _ _ _ _ _ ih1 ih2 => .cons ih1 ih2)

theorem subst_union_mp {T : List σ} {H : σ → CFG σ K} (S : σ) (h : SubstUnion T H) {t : σ}
    (ht : t ∈ T) :
    (∀ X u, Derives (unionCfg T H S) X u → HSymT H t X → Derives (H t) X u) ∧
    (∀ β u, DerivesBody (unionCfg T H S) β u → (∀ y ∈ β, HSymT H t y) → DerivesBody (H t) β u) := by
  classical
  refine Derives.both ?_ ?_ ?_ ?_
  · intro a ha hs
    have ha : a ∈ T.flatMap fun t' => (H t').V := ha
    rcases hs with rfl | ⟨r, hr, hy⟩
    · exact .term (h.start_char a ht ha)
    · exact .term (h.body_char t ht r hr a hy ha)
  · intro r x hr hnv _ ih hs
    have hnv : r.head ∉ T.flatMap fun t' => (H t').V := hnv
    obtain ⟨t', ht', hr⟩ := List.mem_flatMap.1 hr
    by_cases htt : t = t'
    · subst htt
      exact .rule hr (fun hv => hnv (List.mem_flatMap.2 ⟨t, ht, hv⟩))
        (ih fun y hy => .inr ⟨r, hr, hy⟩)
    · exact absurd hs (h.disj t ht t' ht' htt r hr)
  · exact fun _ => .nil
  · intro s ss u v _ _ ih1 ih2 hs
    exact .cons (ih1 (hs s (List.mem_cons_self ..)))
      (ih2 fun y hy => hs y (List.mem_cons_of_mem _ hy))

end SubstAux

/-- **Step 2**: on the symbols used by `H t`, the union grammar behaves as `H t` -/
theorem subst_union_restrict_sym {T : List σ} {H : σ → CFG σ K} (S : σ) (h : SubstUnion T H)
    {t : σ} (ht : t ∈ T) {X : σ} (hX : HSymT H t X) (u : List σ) :
    Derives (unionCfg T H S) X u ↔ Derives (H t) X u :=
  ⟨fun hd => (subst_union_mp S h ht).1 X u hd hX, (subst_union_mpr S h ht).1 X u⟩

theorem subst_union_restrict {T : List σ} {H : σ → CFG σ K} (S : σ) (h : SubstUnion T H)
    {t : σ} (ht : t ∈ T) (u : List σ) :
    Derives (unionCfg T H S) t u ↔ Derives (H t) t u :=
  subst_union_restrict_sym S h ht (.inl rfl) u

/-! ### Step 3: the headline -/

namespace SubstAux

theorem subst_forall₂_congr {α β : Type} {R R' : α → β → Prop} :
    ∀ {l : List α} {l' : List β}, (∀ a ∈ l, ∀ b, R a b ↔ R' a b) →
      (List.Forall₂ R l l' ↔ List.Forall₂ R' l l')
  | [], l', _ => by simp only [List.forall₂_nil_left_iff]
  | a :: l, l', h => by
      simp only [List.forall₂_cons_left_iff]
      have ih : ∀ u, List.Forall₂ R l u ↔ List.Forall₂ R' l u := fun u =>
        subst_forall₂_congr fun a ha => h a (List.mem_cons_of_mem _ ha)
      simp only [ih, h a (List.mem_cons_self ..)]

end SubstAux

/-- side conditions of `substitution_spec` -/
structure SubstHyp (G : CFG σ K) (H : σ → CFG σ K) : Prop where
  shared : SubstShared G (unionCfg G.V H G.S)
  union : SubstUnion G.V H

/-- **C19**: the character-level grammar `G.rules ++ ⋃ₜ (H t).rules` derives exactly the strings
obtained from a terminal-name sequence `τ` derivable in the rule grammar `G` by replacing every
terminal name `t` by a string `u` derivable in its own sub-grammar `H t` (from its start symbol
`t`) -/
theorem substitution_spec {G : CFG σ K} {H : σ → CFG σ K} (h : SubstHyp G H) (s : List σ) :
    Derives (substCfg G H) G.S s ↔
      ∃ τ parts, Derives G G.S τ ∧ List.Forall₂ (fun t u => Derives (H t) t u) τ parts ∧
        s = parts.flatten := by
  unfold substCfg
  rw [subst_shared_spec h.shared]
  refine exists_congr fun τ => exists_congr fun parts => ?_
  refine and_congr_right fun hτ => and_congr_left' ?_
  exact subst_forall₂_congr fun t ht u =>
    subst_union_restrict G.S h.union (Derives.yield_terminals.1 _ _ hτ t ht) u

/-! ### a corollary with simpler (stronger) hypotheses: a classification of the symbols -/

/-- the three kinds of names `_char_cfg` creates: `f(x)` for a symbol `x` of the rule grammar,
a character, `f((t, q))` for a state `q` of the automaton of terminal `t` -/
inductive SubstKind (σ : Type) where
  | top | char | sub (t : σ)
deriving DecidableEq

/-- disjointness conditions phrased with a classification `kind` of the symbols -/
structure SubstKinded (G : CFG σ K) (H : σ → CFG σ K) (kind : σ → SubstKind σ) : Prop where
  start_top : kind G.S = .top
  head_top : ∀ r ∈ G.rules, kind r.head = .top ∧ r.head ∉ G.V
  body_top : ∀ r ∈ G.rules, ∀ y ∈ r.body, kind y = .top
  term_top : ∀ t ∈ G.V, kind t = .top
  char_char : ∀ t ∈ G.V, ∀ a ∈ (H t).V, kind a = .char
  sub_head : ∀ t ∈ G.V, ∀ r ∈ (H t).rules, r.head = t ∨ kind r.head = .sub t
  sub_body : ∀ t ∈ G.V, ∀ r ∈ (H t).rules, ∀ y ∈ r.body,
    y ∈ (H t).V ∨ y = t ∨ kind y = .sub t

theorem SubstKinded.hyp {G : CFG σ K} {H : σ → CFG σ K} {kind : σ → SubstKind σ}
    (h : SubstKinded G H kind) : SubstHyp G H := by
  have hC : ∀ a, (a ∈ G.V.flatMap fun t => (H t).V) → kind a = .char := by
    intro a ha
    obtain ⟨t, ht, ha⟩ := List.mem_flatMap.1 ha
    exact h.char_char t ht a ha
  have hG : ∀ y, GSym G y → kind y = .top := by
    rintro y (rfl | ⟨r, hr, hy⟩)
    · exact h.start_top
    · exact h.body_top r hr y hy
  have hT : ∀ t ∈ G.V, ∀ y, HSymT H t y → y ∈ (H t).V ∨ y = t ∨ kind y = .sub t := by
    rintro t ht y (rfl | ⟨r, hr, hy⟩)
    · exact .inr (.inl rfl)
    · exact h.sub_body t ht r hr y hy
  have clash1 : ∀ {y}, kind y = .top → kind y = .char → False := fun h1 h2 => by
    rw [h1] at h2; cases h2
  have clash2 : ∀ {y t}, kind y = .top → kind y = .sub t → False := fun h1 h2 => by
    rw [h1] at h2; cases h2
  have clash3 : ∀ {y t}, kind y = .char → kind y = .sub t → False := fun h1 h2 => by
    rw [h1] at h2; cases h2
  refine ⟨⟨?_, ?_, ?_, ?_, ?_⟩, ⟨?_, ?_, ?_, ?_⟩⟩
  · exact fun hc => clash1 h.start_top (hC _ hc)
  · exact fun r hr hc => clash1 (h.head_top r hr).1 (hC _ hc)
  · exact fun r hr y hy hc => clash1 (h.body_top r hr y hy) (hC _ hc)
  · intro r hr hg
    obtain ⟨t, ht, hr⟩ := List.mem_flatMap.1 hr
    rcases h.sub_head t ht r hr with he | hk
    · exact he ▸ ht
    · exact (clash2 (hG _ hg) hk).elim
  · rintro r hr (hv | ⟨r', hr', hy⟩)
    · exact (h.head_top r hr).2 hv
    · obtain ⟨t, ht, hr'⟩ := List.mem_flatMap.1 hr'
      rcases h.sub_body t ht r' hr' _ hy with hv | he | hk
      · exact clash1 (h.head_top r hr).1 (h.char_char t ht _ hv)
      · exact (h.head_top r hr).2 (he ▸ ht)
      · exact clash2 (h.head_top r hr).1 hk
  · intro t ht t' ht' hne r hr hs
    rcases hT t ht _ hs with hv | he | hk <;> rcases h.sub_head t' ht' r hr with he' | hk'
    · exact clash1 (he' ▸ h.term_top t' ht') (h.char_char t ht _ hv)
    · exact clash3 (h.char_char t ht _ hv) hk'
    · exact hne (he.symm.trans he')
    · exact clash2 (he ▸ h.term_top t ht) hk'
    · exact clash2 (he' ▸ h.term_top t' ht') hk
    · rw [hk] at hk'
      exact hne (SubstKind.sub.inj hk')
  · exact fun t ht hc => (clash1 (h.term_top t ht) (hC _ hc)).elim
  · intro t ht r hr y hy hc
    rcases h.sub_body t ht r hr y hy with hv | he | hk
    · exact hv
    · exact (clash1 (he ▸ h.term_top t ht) (hC _ hc)).elim
    · exact (clash3 (hC _ hc) hk).elim
  · intro t ht r hr _ hc
    rcases h.sub_head t ht r hr with he | hk
    · exact clash1 (he ▸ h.term_top t ht) (hC _ hc)
    · exact clash3 (hC _ hc) hk

/-- `substitution_spec` under the classification hypotheses -/
theorem substitution_spec_of_kind {G : CFG σ K} {H : σ → CFG σ K} {kind : σ → SubstKind σ}
    (h : SubstKinded G H kind) (s : List σ) :
    Derives (substCfg G H) G.S s ↔
      ∃ τ parts, Derives G G.S τ ∧ List.Forall₂ (fun t u => Derives (H t) t u) τ parts ∧
        s = parts.flatten :=
  substitution_spec h.hyp s

/-! ### Step 4: the `%ignore` variant -/

/-- the glue rules of the `%ignore` variant: `ignore → ε`, `ignore → i` for every ignored
terminal `i ∈ ig`, `t → ignore (tmp t)` for every non-ignored terminal `t ∈ ts`; its terminals are
the start symbols of the sub-grammars (`w` is Python's `decay`) -/
def ignoreGlueCfg (w : K) (ignore : σ) (tmp : σ → σ) (ig ts : List σ) (S : σ) : CFG σ K :=
  { S := S, V := ig ++ ts.map tmp,
    rules := (⟨w, ignore, []⟩ :: ig.map fun i => ⟨w, ignore, [i]⟩) ++
      ts.map fun t => ⟨w, t, [ignore, tmp t]⟩ }

/-- everything below the rule grammar: the glue rules and the sub-grammars `H i` (`i ∈ ig`, start
symbol `i`) and `H (tmp t)` (`t ∈ ts`, start symbol `tmp t`) -/
def ignoreSubCfg (w : K) (ignore : σ) (tmp : σ → σ) (ig ts : List σ) (H : σ → CFG σ K) :
    CFG σ K :=
  mergeCfg (ignoreGlueCfg w ignore tmp ig ts ignore) (unionCfg (ig ++ ts.map tmp) H ignore)

/-- the character-level grammar of `_char_cfg` with `%ignore` (up to the order of the rules) -/
def substIgnoreCfg (G : CFG σ K) (w : K) (ignore : σ) (tmp : σ → σ) (ig ts : List σ)
    (H : σ → CFG σ K) : CFG σ K :=
  mergeCfg G (ignoreSubCfg w ignore tmp ig ts H)

/-- what a terminal name `t` expands to: an ignored terminal matches its own pattern; a
non-ignored one matches an optional ignored token followed by its own pattern -/
def IgnMatch (tmp : σ → σ) (ig ts : List σ) (H : σ → CFG σ K) (t : σ) (u : List σ) : Prop :=
  (t ∈ ig ∧ Derives (H t) t u) ∨
  (t ∈ ts ∧ ∃ u₁ u₂, u = u₁ ++ u₂ ∧ (u₁ = [] ∨ ∃ i ∈ ig, Derives (H i) i u₁) ∧
    Derives (H (tmp t)) (tmp t) u₂)

/-- side conditions of `substitution_ignore_spec` (all decidable) -/
structure SubstIgnoreHyp (G : CFG σ K) (w : K) (ignore : σ) (tmp : σ → σ) (ig ts : List σ)
    (H : σ → CFG σ K) : Prop where
  /-- Step 1 conditions for the rule grammar on top of glue + sub-grammars -/
  top : SubstShared G (ignoreSubCfg w ignore tmp ig ts H)
  /-- Step 1 conditions for the glue rules (seen from `t`) on top of the sub-grammars -/
  glue : ∀ t ∈ G.V, SubstShared (ignoreGlueCfg w ignore tmp ig ts t)
    (unionCfg (ig ++ ts.map tmp) H ignore)
  /-- Step 2 conditions for the sub-grammars -/
  union : SubstUnion (ig ++ ts.map tmp) H
  ignore_nts : ignore ∉ ts
  cover : ∀ t ∈ G.V, t ∈ ig ∨ t ∈ ts

namespace SubstAux

section glue
variable {w : K} {ignore : σ} {tmp : σ → σ} {ig ts : List σ} {S : σ}

theorem subst_glue_rules {r : Rule σ K} :
    r ∈ (ignoreGlueCfg w ignore tmp ig ts S).rules ↔
      r = ⟨w, ignore, []⟩ ∨ (∃ i ∈ ig, r = ⟨w, ignore, [i]⟩) ∨
        ∃ t ∈ ts, r = ⟨w, t, [ignore, tmp t]⟩ := by
  simp only [ignoreGlueCfg, List.mem_append, List.mem_cons, List.mem_map, or_assoc, eq_comm]

theorem subst_glue_ignore (hi : ignore ∉ ig ++ ts.map tmp) (hts : ignore ∉ ts) (a : List σ) :
    Derives (ignoreGlueCfg w ignore tmp ig ts S) ignore a ↔ a = [] ∨ ∃ i ∈ ig, a = [i] := by
  constructor
  · intro h
    rcases h.inv with ⟨hv, _⟩ | ⟨r, hr, hh, _, hb⟩
    · exact absurd hv hi
    · rcases subst_glue_rules.1 hr with rfl | ⟨i, hi', rfl⟩ | ⟨t, ht, rfl⟩
      · exact .inl hb.inv_nil
      · refine .inr ⟨i, hi', ?_⟩
        exact (DerivesBody_singleton.1 hb).of_terminal (List.mem_append_left _ hi')
      · exact absurd (hh ▸ ht) hts
  · rintro (rfl | ⟨i, hi', rfl⟩)
    · exact Derives.rule (r := ⟨w, ignore, []⟩) (subst_glue_rules.2 (.inl rfl)) hi .nil
    · exact Derives.rule (r := ⟨w, ignore, [i]⟩) (subst_glue_rules.2 (.inr (.inl ⟨i, hi', rfl⟩))) hi
        (DerivesBody_singleton.2 (.term (List.mem_append_left _ hi')))

theorem subst_glue_term (hi : ignore ∉ ig ++ ts.map tmp) (hts : ignore ∉ ts) {t : σ}
    (ht : t ∈ ts) (htv : t ∉ ig ++ ts.map tmp) (τ : List σ) :
    Derives (ignoreGlueCfg w ignore tmp ig ts S) t τ ↔
      τ = [tmp t] ∨ ∃ i ∈ ig, τ = [i, tmp t] := by
  have hne : ignore ≠ t := fun h => hts (h ▸ ht)
  have htmp : tmp t ∈ (ignoreGlueCfg w ignore tmp ig ts S).V :=
    List.mem_append_right _ (List.mem_map_of_mem ht)
  constructor
  · intro h
    rcases h.inv with ⟨hv, _⟩ | ⟨r, hr, hh, _, hb⟩
    · exact absurd hv htv
    · rcases subst_glue_rules.1 hr with rfl | ⟨i, _, rfl⟩ | ⟨t', _, rfl⟩
      · exact absurd hh hne
      · exact absurd hh hne
      · have hh : t' = t := hh
        subst hh
        obtain ⟨a, b, rfl, ha, hb⟩ := hb.inv_cons
        have hb : b = [tmp t'] := (DerivesBody_singleton.1 hb).of_terminal htmp
        subst hb
        rcases (subst_glue_ignore hi hts a).1 ha with rfl | ⟨i, hi', rfl⟩
        · exact .inl rfl
        · exact .inr ⟨i, hi', rfl⟩
  · intro h
    have key : ∀ a, Derives (ignoreGlueCfg w ignore tmp ig ts S) ignore a →
        Derives (ignoreGlueCfg w ignore tmp ig ts S) t (a ++ ([tmp t] ++ [])) := fun a ha =>
      Derives.rule (r := ⟨w, t, [ignore, tmp t]⟩) (subst_glue_rules.2 (.inr (.inr ⟨t, ht, rfl⟩)))
        htv (.cons ha (.cons (.term htmp) .nil))
    rcases h with rfl | ⟨i, hi', rfl⟩
    · exact key [] ((subst_glue_ignore hi hts _).2 (.inl rfl))
    · exact key [i] ((subst_glue_ignore hi hts _).2 (.inr ⟨i, hi', rfl⟩))

/-- `Derives` does not depend on the start symbol recorded in the glue grammar -/
theorem subst_glue_start_irrel (U : CFG σ K) (S' X : σ) (u : List σ) :
    Derives (mergeCfg (ignoreGlueCfg w ignore tmp ig ts S) U) X u ↔
      Derives (mergeCfg (ignoreGlueCfg w ignore tmp ig ts S') U) X u :=
  ⟨(Derives_congr (G := mergeCfg (ignoreGlueCfg w ignore tmp ig ts S) U)
      (G' := mergeCfg (ignoreGlueCfg w ignore tmp ig ts S') U)
      (fun _ => Iff.rfl) (fun _ => Iff.rfl)).1 X u,
   (Derives_congr (G := mergeCfg (ignoreGlueCfg w ignore tmp ig ts S') U)
      (G' := mergeCfg (ignoreGlueCfg w ignore tmp ig ts S) U)
      (fun _ => Iff.rfl) (fun _ => Iff.rfl)).1 X u⟩

end glue

end SubstAux

/-- what a terminal name derives in the glue + sub-grammars part of the `%ignore` grammar -/
theorem subst_ignore_terminal {G : CFG σ K} {w : K} {ignore : σ} {tmp : σ → σ} {ig ts : List σ}
    {H : σ → CFG σ K} (h : SubstIgnoreHyp G w ignore tmp ig ts H) {t : σ} (ht : t ∈ G.V)
    (u : List σ) :
    Derives (ignoreSubCfg w ignore tmp ig ts H) t u ↔ IgnMatch tmp ig ts H t u := by
  have hg := h.glue t ht
  -- consequences of A3 for the glue rules
  have hi : ignore ∉ ig ++ ts.map tmp := fun hv =>
    hg.top_head ⟨w, ignore, []⟩ (subst_glue_rules.2 (.inl rfl)) (.inl hv)
  have htv : ∀ t' ∈ ts, t' ∉ ig ++ ts.map tmp := fun t' ht' hv =>
    hg.top_head ⟨w, t', [ignore, tmp t']⟩ (subst_glue_rules.2 (.inr (.inr ⟨t', ht', rfl⟩)))
      (.inl hv)
  have hU : ∀ t' ∈ ig ++ ts.map tmp, ∀ v, Derives (unionCfg (ig ++ ts.map tmp) H ignore) t' v ↔
      Derives (H t') t' v := fun t' ht' v => subst_union_restrict ignore h.union ht' v
  unfold ignoreSubCfg
  rw [subst_glue_start_irrel _ t]
  by_cases hti : t ∈ ig
  · rw [subst_shared_terminal hg (List.mem_append_left _ hti), hU t (List.mem_append_left _ hti)]
    refine ⟨fun hd => .inl ⟨hti, hd⟩, ?_⟩
    rintro (⟨_, hd⟩ | ⟨hts, _⟩)
    · exact hd
    · exact absurd (List.mem_append_left _ hti) (htv t hts)
  · have hts : t ∈ ts := (h.cover t ht).resolve_left hti
    have htmp : tmp t ∈ ig ++ ts.map tmp := List.mem_append_right _ (List.mem_map_of_mem hts)
    rw [subst_shared_sym hg (X := t) (.inl rfl)]
    constructor
    · rintro ⟨τ, parts, h1, h2, rfl⟩
      refine .inr ⟨hts, ?_⟩
      rcases (subst_glue_term hi h.ignore_nts hts (htv t hts) τ).1 h1 with rfl | ⟨i, hi', rfl⟩
      · rw [List.forall₂_cons_left_iff] at h2
        obtain ⟨u₂, l', hu₂, hl', rfl⟩ := h2
        rw [List.forall₂_nil_left_iff] at hl'
        subst hl'
        exact ⟨[], u₂, by simp, .inl rfl, (hU _ htmp _).1 hu₂⟩
      · rw [List.forall₂_cons_left_iff] at h2
        obtain ⟨u₁, l', hu₁, hl', rfl⟩ := h2
        rw [List.forall₂_cons_left_iff] at hl'
        obtain ⟨u₂, l'', hu₂, hl'', rfl⟩ := hl'
        rw [List.forall₂_nil_left_iff] at hl''
        subst hl''
        exact ⟨u₁, u₂, by simp, .inr ⟨i, hi', (hU _ (List.mem_append_left _ hi') _).1 hu₁⟩,
          (hU _ htmp _).1 hu₂⟩
    · rintro (⟨hti', _⟩ | ⟨_, u₁, u₂, rfl, h1, h2⟩)
      · exact absurd hti' hti
      · have h2' := (hU _ htmp _).2 h2
        rcases h1 with rfl | ⟨i, hi', h1⟩
        · exact ⟨[tmp t], [u₂], (subst_glue_term hi h.ignore_nts hts (htv t hts) _).2 (.inl rfl),
            .cons h2' .nil, by simp⟩
        · exact ⟨[i, tmp t], [u₁, u₂],
            (subst_glue_term hi h.ignore_nts hts (htv t hts) _).2 (.inr ⟨i, hi', rfl⟩),
            .cons ((hU _ (List.mem_append_left _ hi') _).2 h1) (.cons h2' .nil), by simp⟩

/-- **C19 with `%ignore`**: the character-level grammar derives exactly the strings obtained from
a terminal-name sequence `τ` derivable in the rule grammar by replacing every ignored terminal by
a string matching its pattern and every non-ignored terminal `t` by an optional string matching
the pattern of some ignored terminal followed by a string matching the pattern of `t` -/
theorem substitution_ignore_spec {G : CFG σ K} {w : K} {ignore : σ} {tmp : σ → σ} {ig ts : List σ}
    {H : σ → CFG σ K} (h : SubstIgnoreHyp G w ignore tmp ig ts H) (s : List σ) :
    Derives (substIgnoreCfg G w ignore tmp ig ts H) G.S s ↔
      ∃ τ parts, Derives G G.S τ ∧ List.Forall₂ (IgnMatch tmp ig ts H) τ parts ∧
        s = parts.flatten := by
  unfold substIgnoreCfg
  rw [subst_shared_spec h.top]
  refine exists_congr fun τ => exists_congr fun parts => ?_
  refine and_congr_right fun hτ => and_congr_left' ?_
  exact subst_forall₂_congr fun t ht u =>
    subst_ignore_terminal h (Derives.yield_terminals.1 _ _ hτ t ht) u

/-! ### non-vacuity: concrete instances -/

namespace SubstAux

/-- rule grammar `0 → 1 0 | 1` with the single terminal name `1` -/
def substExG : CFG Nat Nat :=
  { S := 0, V := [1], rules := [⟨1, 0, [1, 0]⟩, ⟨1, 0, [1]⟩] }

/-- pattern `x y*` of terminal `1`: `1 → 'x' 2`, `2 → ε | 'y' 2` with `'x' = 10`, `'y' = 11` -/
def substExH : Nat → CFG Nat Nat := fun _ =>
  { S := 1, V := [10, 11], rules := [⟨1, 1, [10, 2]⟩, ⟨1, 2, []⟩, ⟨1, 2, [11, 2]⟩] }

def substExKind : Nat → SubstKind Nat := fun n =>
  if n < 2 then .top else if n < 10 then .sub 1 else .char

theorem substExHyp : SubstHyp substExG substExH :=
  ⟨⟨by decide, by decide, by decide, by decide, by decide⟩,
   ⟨by decide, by decide, by decide, by decide⟩⟩

example : SubstKinded substExG substExH substExKind :=
  ⟨by decide, by decide, by decide, by decide, by decide, by decide, by decide⟩

/-- `x y x` is accepted by the character-level grammar, obtained through `substitution_spec`
from the terminal sequence `1 1` and the matches `x y`, `x` -/
example : Derives (substCfg substExG substExH) 0 [10, 11, 10] := by
  have t1 : Derives substExG 1 [1] := .term (by decide)
  have g1 : Derives substExG 0 ([1] ++ []) :=
    .rule (r := ⟨1, 0, [1]⟩) (by decide) (by decide) (.cons t1 .nil)
  have g2 : Derives substExG 0 ([1] ++ (([1] ++ []) ++ [])) :=
    .rule (r := ⟨1, 0, [1, 0]⟩) (by decide) (by decide) (.cons t1 (.cons g1 .nil))
  have x : Derives (substExH 1) 10 [10] := .term (by decide)
  have y : Derives (substExH 1) 11 [11] := .term (by decide)
  have a0 : Derives (substExH 1) 2 [] := .rule (r := ⟨1, 2, []⟩) (by decide) (by decide) .nil
  have a1 : Derives (substExH 1) 2 ([11] ++ ([] ++ [])) :=
    .rule (r := ⟨1, 2, [11, 2]⟩) (by decide) (by decide) (.cons y (.cons a0 .nil))
  have m1 : Derives (substExH 1) 1 ([10] ++ (([11] ++ ([] ++ [])) ++ [])) :=
    .rule (r := ⟨1, 1, [10, 2]⟩) (by decide) (by decide) (.cons x (.cons a1 .nil))
  have m2 : Derives (substExH 1) 1 ([10] ++ ([] ++ [])) :=
    .rule (r := ⟨1, 1, [10, 2]⟩) (by decide) (by decide) (.cons x (.cons a0 .nil))
  exact (substitution_spec substExHyp _).2
    ⟨[1, 1], [[10, 11], [10]], g2, .cons m1 (.cons m2 .nil), rfl⟩

/-- and conversely the theorem decomposes every accepted string -/
example (s : List Nat) (h : Derives (substCfg substExG substExH) 0 s) :
    ∃ τ parts, Derives substExG 0 τ ∧
      List.Forall₂ (fun t u => Derives (substExH t) t u) τ parts ∧ s = parts.flatten :=
  (substitution_spec substExHyp s).1 h

/-! #### hypothesis A3 (`top_head`) cannot be dropped

`G : 0 → 1`, plus the rule `1 → ε` whose head is the terminal name `1` (dead in `G`);
`H 1 : 1 → 'x'`.  All the other hypotheses hold, the character grammar accepts `ε` (the dead rule
becomes live), but the only substitution instance is `x`. -/

def substBadG : CFG Nat Nat :=
  { S := 0, V := [1], rules := [⟨1, 0, [1]⟩, ⟨1, 1, []⟩] }

def substBadH : Nat → CFG Nat Nat := fun _ =>
  { S := 1, V := [10], rules := [⟨1, 1, [10]⟩] }

example :
    -- all hypotheses except `top_head` …
    (substBadG.S ∉ (unionCfg substBadG.V substBadH substBadG.S).V ∧
      (∀ r ∈ substBadG.rules, r.head ∉ (unionCfg substBadG.V substBadH substBadG.S).V) ∧
      (∀ r ∈ substBadG.rules, ∀ y ∈ r.body,
        y ∉ (unionCfg substBadG.V substBadH substBadG.S).V) ∧
      (∀ r ∈ (unionCfg substBadG.V substBadH substBadG.S).rules,
        GSym substBadG r.head → r.head ∈ substBadG.V)) ∧
    SubstUnion substBadG.V substBadH ∧
    -- … but the equivalence fails for `s = ε`
    Derives (substCfg substBadG substBadH) 0 [] ∧
    ¬ ∃ τ parts, Derives substBadG 0 τ ∧
      List.Forall₂ (fun t u => Derives (substBadH t) t u) τ parts ∧
      ([] : List Nat) = parts.flatten := by
  refine ⟨⟨by decide, by decide, by decide, by decide⟩,
    ⟨by decide, by decide, by decide, by decide⟩, ?_, ?_⟩
  · have e : Derives (substCfg substBadG substBadH) 1 [] :=
      .rule (r := ⟨1, 1, []⟩) (by decide) (by decide) .nil
    exact .rule (r := ⟨1, 0, [1]⟩) (by decide) (by decide) (DerivesBody_singleton.2 e)
  · rintro ⟨τ, parts, h1, h2, h3⟩
    rcases h1.inv with ⟨hv, _⟩ | ⟨r, hr, hh, _, hb⟩
    · exact absurd hv (by decide)
    · have hr : r = ⟨1, 0, [1]⟩ ∨ r = ⟨1, 1, []⟩ := by simpa [substBadG] using hr
      rcases hr with rfl | rfl
      · have hτ : τ = [1] := (DerivesBody_singleton.1 hb).of_terminal (by decide)
        subst hτ
        rw [List.forall₂_cons_left_iff] at h2
        obtain ⟨u, l', hu, hl', rfl⟩ := h2
        rw [List.forall₂_nil_left_iff] at hl'
        subst hl'
        have hu0 : u = [] := by simpa using h3.symm
        subst hu0
        rcases hu.inv with ⟨hv, _⟩ | ⟨r, hr, _, _, hb⟩
        · exact absurd hv (by decide)
        · have hr : r = ⟨1, 1, [10]⟩ := by simpa [substBadH] using hr
          subst hr
          have := (DerivesBody_singleton.1 hb).of_terminal (G := substBadH 1) (by decide)
          cases this
      · exact absurd hh (by decide)

/-! #### the `%ignore` variant

terminal names `1` (pattern `x y*`, not ignored) and `5` (pattern `' '`, ignored, `' ' = 12`);
`ignore = 6`, `tmp t = t + 6`. -/

def substExIgG : CFG Nat Nat :=
  { S := 0, V := [1, 5], rules := [⟨1, 0, [1, 0]⟩, ⟨1, 0, [1]⟩] }

def substExIgH : Nat → CFG Nat Nat := fun t =>
  if t = 5 then { S := 5, V := [12], rules := [⟨1, 5, [12]⟩] }
  else { S := 7, V := [10, 11], rules := [⟨1, 7, [10, 2]⟩, ⟨1, 2, []⟩, ⟨1, 2, [11, 2]⟩] }

theorem substExIgHyp : SubstIgnoreHyp substExIgG 1 6 (· + 6) [5] [1] substExIgH := by
  refine ⟨⟨by decide, by decide, by decide, by decide, by decide⟩, ?_,
    ⟨by decide, by decide, by decide, by decide⟩, by decide, by decide⟩
  intro t ht
  have ht : t = 1 ∨ t = 5 := by simpa [substExIgG] using ht
  rcases ht with rfl | rfl
  · exact ⟨by decide, by decide, by decide, by decide, by decide⟩
  · exact ⟨by decide, by decide, by decide, by decide, by decide⟩

/-- `x ␣ x y` is accepted: terminal sequence `1 1`, the second `1` preceded by an ignored `␣` -/
example : Derives (substIgnoreCfg substExIgG 1 6 (· + 6) [5] [1] substExIgH) 0 [10, 12, 10, 11] := by
  have t1 : Derives substExIgG 1 [1] := .term (by decide)
  have g1 : Derives substExIgG 0 ([1] ++ []) :=
    .rule (r := ⟨1, 0, [1]⟩) (by decide) (by decide) (.cons t1 .nil)
  have g2 : Derives substExIgG 0 ([1] ++ (([1] ++ []) ++ [])) :=
    .rule (r := ⟨1, 0, [1, 0]⟩) (by decide) (by decide) (.cons t1 (.cons g1 .nil))
  have x : Derives (substExIgH 7) 10 [10] := .term (by decide)
  have y : Derives (substExIgH 7) 11 [11] := .term (by decide)
  have a0 : Derives (substExIgH 7) 2 [] := .rule (r := ⟨1, 2, []⟩) (by decide) (by decide) .nil
  have a1 : Derives (substExIgH 7) 2 ([11] ++ ([] ++ [])) :=
    .rule (r := ⟨1, 2, [11, 2]⟩) (by decide) (by decide) (.cons y (.cons a0 .nil))
  have m1 : Derives (substExIgH 7) 7 ([10] ++ (([11] ++ ([] ++ [])) ++ [])) :=
    .rule (r := ⟨1, 7, [10, 2]⟩) (by decide) (by decide) (.cons x (.cons a1 .nil))
  have m2 : Derives (substExIgH 7) 7 ([10] ++ ([] ++ [])) :=
    .rule (r := ⟨1, 7, [10, 2]⟩) (by decide) (by decide) (.cons x (.cons a0 .nil))
  have sp : Derives (substExIgH 5) 5 ([12] ++ []) :=
    .rule (r := ⟨1, 5, [12]⟩) (by decide) (by decide) (.cons (.term (by decide)) .nil)
  have i1 : IgnMatch (· + 6) [5] [1] substExIgH 1 [10] :=
    .inr ⟨by decide, [], [10], rfl, .inl rfl, m2⟩
  have i2 : IgnMatch (· + 6) [5] [1] substExIgH 1 [12, 10, 11] :=
    .inr ⟨by decide, [12], [10, 11], rfl, .inr ⟨5, by decide, sp⟩, m1⟩
  exact (substitution_ignore_spec substExIgHyp _).2
    ⟨[1, 1], [[10], [12, 10, 11]], g2, .cons i1 (.cons i2 .nil), rfl⟩

end SubstAux

end Genlm
