import GenlmModel.Proofs.LimCore
import GenlmModel.Proofs.Zn
import GenlmModel.Proofs.AgendaM
import Mathlib.Topology.Algebra.InfiniteSum.ENNReal

/-! # Kleene least fixed point over `ℝ≥0∞` (property C08 at full strength)

`ZL G X = ⨆ n, ZN G n X` and `WL G X x = ⨆ n, WN G n X x` (`Proofs/LimCore.lean`) are the sums over ALL
derivation trees.  For EVERY grammar over `ℝ≥0∞` (nullary rules, unary cycles, duplicate rules, repeated
symbols in a body, rules whose head is a terminal — nothing is assumed):

* sup-continuity: `iSup_mul_of_monotone`, `list_sum_iSup`, `list_prod_iSup`, `Wsym_iSup`, `Wbody_iSup`,
  `stepL_iSup`, `znPoly_iSup`;
* `ZL_fixed_point`, `ZL_least`, `ZL_le_fixed` — the total weights are THE least solution of the polynomial
  system of the grammar (least among pre-fixed points);
* `WL_fixed_point`, `WL_least` — the same for the string-indexed weights;
* `ZN_eq_tsum_WN`, `ZL_eq_tsum_WL'` (no hypothesis), `ZL_eq_tsum_WL` — the total weight of a symbol is the sum,
  over the whole language, of the weights of the strings;
* `agenda_result_is_ZL` — a terminated run of `CFG.agenda` (any scheduler) holds `ZL G` on the nonterminals and
  `1` on the terminals, provided no rule rewrites a terminal; `agenda_result_is_iSup_agIter` without that proviso.
-/
namespace Genlm
open scoped ENNReal
open UnfoldAux

namespace LimAux

/-! ### 1. sup-continuity helpers -/

/-- product of two increasing sequences: the supremum of the products is the product of the suprema -/
theorem iSup_mul_of_monotone {f g : ℕ → ℝ≥0∞} (hf : Monotone f) (hg : Monotone g) :
    ⨆ n, f n * g n = (⨆ n, f n) * ⨆ n, g n := by
  rw [ENNReal.iSup_mul]
  simp_rw [ENNReal.mul_iSup]
  apply le_antisymm
  · exact iSup_le fun n => le_iSup_of_le n (le_iSup_of_le n le_rfl)
  · refine iSup_le fun i => iSup_le fun j => le_iSup_of_le (max i j) ?_
    exact mul_le_mul' (hf (le_max_left i j)) (hg (le_max_right i j))

/-- a finite (list) sum of increasing sequences commutes with `⨆` -/
theorem list_sum_iSup {α : Type} (l : List α) (F : ℕ → α → ℝ≥0∞) (hF : ∀ a ∈ l, Monotone fun n => F n a) :
    (l.map fun a => ⨆ n, F n a).sum = ⨆ n, (l.map fun a => F n a).sum := by
  induction l with
  | nil => simp
  | cons a l ih =>
    simp only [List.map_cons, List.sum_cons]
    rw [ih fun b hb => hF b (List.mem_cons_of_mem _ hb)]
    refine ENNReal.iSup_add_iSup_of_monotone (hF a (by simp)) ?_
    intro n m h
    exact natLe_iff_le.mp (sum_le' l _ _ fun b hb =>
      natLe_iff_le.mpr (hF b (List.mem_cons_of_mem _ hb) h))

theorem list_prod_le {α : Type} (l : List α) (f g : α → ℝ≥0∞) (h : ∀ a ∈ l, f a ≤ g a) :
    (l.map f).prod ≤ (l.map g).prod := by
  induction l with
  | nil => exact le_rfl
  | cons a l ih =>
    simp only [List.map_cons, List.prod_cons]
    exact mul_le_mul' (h a (by simp)) (ih fun b hb => h b (List.mem_cons_of_mem _ hb))

theorem list_sum_le {α : Type} (l : List α) (f g : α → ℝ≥0∞) (h : ∀ a ∈ l, f a ≤ g a) :
    (l.map f).sum ≤ (l.map g).sum := by
  induction l with
  | nil => exact le_rfl
  | cons a l ih =>
    simp only [List.map_cons, List.sum_cons]
    exact add_le_add (h a (by simp)) (ih fun b hb => h b (List.mem_cons_of_mem _ hb))

/-- a finite (list) product of increasing sequences commutes with `⨆` -/
theorem list_prod_iSup {α : Type} (l : List α) (F : ℕ → α → ℝ≥0∞) (hF : ∀ a ∈ l, Monotone fun n => F n a) :
    (l.map fun a => ⨆ n, F n a).prod = ⨆ n, (l.map fun a => F n a).prod := by
  induction l with
  | nil => simp
  | cons a l ih =>
    simp only [List.map_cons, List.prod_cons]
    rw [ih fun b hb => hF b (List.mem_cons_of_mem _ hb)]
    refine (iSup_mul_of_monotone (hF a (by simp)) ?_).symm
    intro n m h
    exact list_prod_le l _ _ fun b hb => hF b (List.mem_cons_of_mem _ hb) h

end LimAux
open LimAux

section
variable {σ : Type} [DecidableEq σ]

/-- a family of tables, pointwise increasing in the level -/
def MonoFam (F : ℕ → σ → List σ → ℝ≥0∞) : Prop := ∀ s u, Monotone fun n => F n s u

theorem WN_monoFam (G : CFG σ ℝ≥0∞) : MonoFam (WN G) := fun s u => WN_monotone G s u

theorem Wsym_mono_le (V : List σ) (f g : σ → List σ → ℝ≥0∞) (s : σ) (h : ∀ u, f s u ≤ g s u)
    (u : List σ) : Wsym V f s u ≤ Wsym V g s u := by
  unfold Wsym; split
  · exact le_rfl
  · exact h u

theorem Wbody_mono_le (V : List σ) (f g : σ → List σ → ℝ≥0∞) (body : List σ)
    (h : ∀ s ∈ body, ∀ u, f s u ≤ g s u) (x : List σ) : Wbody V f body x ≤ Wbody V g body x :=
  natLe_iff_le.mp (Wbody_le V f g body (fun s hs u => natLe_iff_le.mpr (h s hs u)) x)

theorem stepL_mono_le (V : List σ) (rs : List (Rule σ ℝ≥0∞)) (f g : σ → List σ → ℝ≥0∞)
    (h : ∀ s u, f s u ≤ g s u) (X : σ) (x : List σ) : stepL V rs f X x ≤ stepL V rs g X x :=
  natLe_iff_le.mp (stepL_le V rs f g (fun s u => natLe_iff_le.mpr (h s u)) X x)

theorem Wsym_iSup (V : List σ) (F : ℕ → σ → List σ → ℝ≥0∞) (s : σ) (u : List σ) :
    Wsym V (fun s u => ⨆ n, F n s u) s u = ⨆ n, Wsym V (F n) s u := by
  unfold Wsym; split
  · exact (iSup_const).symm
  · rfl

/-- `Wbody` is sup-continuous in the table -/
theorem Wbody_iSup (V : List σ) (F : ℕ → σ → List σ → ℝ≥0∞) (hF : MonoFam F) (body : List σ)
    (x : List σ) : Wbody V (fun s u => ⨆ n, F n s u) body x = ⨆ n, Wbody V (F n) body x := by
  induction body generalizing x with
  | nil => simp only [Wbody]; exact (iSup_const).symm
  | cons s ss ih =>
    simp only [Wbody, lsum_eq_sum]
    rw [← list_sum_iSup]
    · apply congrArg List.sum
      apply List.map_congr_left
      intro p _
      rw [Wsym_iSup, ih]
      refine (iSup_mul_of_monotone ?_ ?_).symm
      · intro n m h; exact Wsym_mono_le V _ _ s (fun u => hF s u h) p.1
      · intro n m h; exact Wbody_mono_le V _ _ ss (fun t _ u => hF t u h) p.2
    · intro p _ n m h
      exact mul_le_mul' (Wsym_mono_le V _ _ s (fun u => hF s u h) p.1)
        (Wbody_mono_le V _ _ ss (fun t _ u => hF t u h) p.2)

/-- one step of the `WN` recursion is sup-continuous in the table -/
theorem stepL_iSup (V : List σ) (rs : List (Rule σ ℝ≥0∞)) (F : ℕ → σ → List σ → ℝ≥0∞) (hF : MonoFam F)
    (X : σ) (x : List σ) :
    stepL V rs (fun s u => ⨆ n, F n s u) X x = ⨆ n, stepL V rs (F n) X x := by
  unfold stepL
  rw [← list_sum_iSup]
  · apply congrArg List.sum
    apply List.map_congr_left
    intro r _
    rw [Wbody_iSup V F hF, ENNReal.mul_iSup]
  · intro r _ n m h
    exact mul_le_mul' le_rfl (Wbody_mono_le V _ _ r.body (fun t _ u => hF t u h) x)

theorem znPoly_mono_le (G : CFG σ ℝ≥0∞) (z z' : σ → ℝ≥0∞) (h : ∀ X, z X ≤ z' X) (X : σ) :
    znPoly G z X ≤ znPoly G z' X :=
  algLe_iff_le.mp (znPoly_mono G z z' (fun Y => algLe_iff_le.mpr (h Y)) X)

/-- the polynomial system of the grammar is sup-continuous -/
theorem znPoly_iSup (G : CFG σ ℝ≥0∞) (Z : ℕ → σ → ℝ≥0∞) (hZ : ∀ Y, Monotone fun n => Z n Y) (X : σ) :
    znPoly G (fun Y => ⨆ n, Z n Y) X = ⨆ n, znPoly G (Z n) X := by
  unfold znPoly
  rw [← list_sum_iSup]
  · apply congrArg List.sum
    apply List.map_congr_left
    intro r _
    rw [← ENNReal.mul_iSup, ← list_prod_iSup]
    · congr 2
      apply List.map_congr_left
      intro y _
      split
      · exact (iSup_const).symm
      · rfl
    · intro y _ n m h
      dsimp only
      split
      · exact le_rfl
      · exact hZ y h
  · intro r _ n m h
    refine mul_le_mul' le_rfl (list_prod_le _ _ _ fun y _ => ?_)
    split
    · exact le_rfl
    · exact hZ y h

/-! ### 2. `ZL` is the least solution of the polynomial system -/

theorem ZN_le_ZL (G : CFG σ ℝ≥0∞) (n : Nat) (X : σ) : ZN G n X ≤ ZL G X :=
  le_iSup (fun n => ZN G n X) n

theorem iSup_succ_eq {f : ℕ → ℝ≥0∞} (hf : Monotone f) : ⨆ n, f (n + 1) = ⨆ n, f n :=
  le_antisymm (iSup_le fun n => le_iSup f (n + 1))
    (iSup_le fun n => le_iSup_of_le n (hf (Nat.le_succ n)))

/-- **the total weights solve the polynomial equations of the grammar** -/
theorem ZL_fixed_point (G : CFG σ ℝ≥0∞) (X : σ) : ZL G X = znPoly G (ZL G) X := by
  have h : ZL G = fun Y => ⨆ n, ZN G n Y := rfl
  calc ZL G X = ⨆ n, ZN G (n + 1) X := (iSup_succ_eq (ZN_monotone G X)).symm
    _ = ⨆ n, znPoly G (ZN G n) X := iSup_congr fun n => ZN_succ G n X
    _ = znPoly G (ZL G) X := by rw [h, znPoly_iSup G (ZN G) (ZN_monotone G)]

/-- **… and lie below every pre-fixed point**: `ZL G` is the least solution -/
theorem ZL_least (G : CFG σ ℝ≥0∞) (z : σ → ℝ≥0∞) (hz : ∀ X, znPoly G z X ≤ z X) (X : σ) :
    ZL G X ≤ z X := by
  refine iSup_le fun n => ?_
  induction n generalizing X with
  | zero => exact zero_le
  | succ n ih =>
    rw [ZN_succ]
    exact (znPoly_mono_le G _ _ ih X).trans (hz X)

/-- in particular `ZL G` is below every solution -/
theorem ZL_le_fixed (G : CFG σ ℝ≥0∞) (z : σ → ℝ≥0∞) (hz : ∀ X, z X = znPoly G z X) (X : σ) :
    ZL G X ≤ z X :=
  ZL_least G z (fun Y => (hz Y).ge) X

/-! ### 3. `WL` is the least solution of the string-indexed system -/

/-- **the string weights solve the grammar equations** -/
theorem WL_fixed_point (G : CFG σ ℝ≥0∞) (X : σ) (x : List σ) :
    WL G X x = stepL G.V G.rules (WL G) X x := by
  have h : WL G = fun Y u => ⨆ n, WN G n Y u := rfl
  calc WL G X x = ⨆ n, WN G (n + 1) X x := (iSup_succ_eq (WN_monotone G X x)).symm
    _ = ⨆ n, stepL G.V G.rules (WN G n) X x := iSup_congr fun n => WN_succ G n X x
    _ = stepL G.V G.rules (WL G) X x := by rw [h, stepL_iSup G.V G.rules (WN G) (WN_monoFam G)]

/-- **… and lie below every pre-fixed point** -/
theorem WL_least (G : CFG σ ℝ≥0∞) (f : σ → List σ → ℝ≥0∞)
    (hf : ∀ X x, stepL G.V G.rules f X x ≤ f X x) (X : σ) (x : List σ) : WL G X x ≤ f X x := by
  refine iSup_le fun n => ?_
  induction n generalizing X x with
  | zero => exact zero_le
  | succ n ih =>
    rw [WN_succ]
    exact (stepL_mono_le _ _ _ _ ih X x).trans (hf X x)

theorem WL_le_fixed (G : CFG σ ℝ≥0∞) (f : σ → List σ → ℝ≥0∞)
    (hf : ∀ X x, f X x = stepL G.V G.rules f X x) (X : σ) (x : List σ) : WL G X x ≤ f X x :=
  WL_least G f (fun Y u => (hf Y u).ge) X x

/-- `ZL G` is characterised by the two properties: any solution that is below every pre-fixed point is `ZL G` -/
theorem ZL_unique (G : CFG σ ℝ≥0∞) (z : σ → ℝ≥0∞) (hz : ∀ X, z X = znPoly G z X)
    (hmin : ∀ z' : σ → ℝ≥0∞, (∀ X, znPoly G z' X ≤ z' X) → ∀ X, z X ≤ z' X) (X : σ) : z X = ZL G X :=
  le_antisymm (hmin (ZL G) (fun Y => (ZL_fixed_point G Y).ge) X) (ZL_le_fixed G z hz X)

/-- likewise for the string-indexed system -/
theorem WL_unique (G : CFG σ ℝ≥0∞) (f : σ → List σ → ℝ≥0∞) (hf : ∀ X x, f X x = stepL G.V G.rules f X x)
    (hmin : ∀ f' : σ → List σ → ℝ≥0∞, (∀ X x, stepL G.V G.rules f' X x ≤ f' X x) → ∀ X x, f X x ≤ f' X x)
    (X : σ) (x : List σ) : f X x = WL G X x :=
  le_antisymm (hmin (WL G) (fun Y u => (WL_fixed_point G Y u).ge) X x) (WL_le_fixed G f hf X x)

/-! ### 4. the total weight is the sum of the string weights over the whole language -/

theorem nodup_splits_lim {α : Type} (x : List α) : (splits x).Nodup := by
  induction x with
  | nil => simp [splits]
  | cons a x ih =>
    rw [splits, List.nodup_cons]
    refine ⟨?_, ?_⟩
    · intro h
      obtain ⟨p, _, hp⟩ := List.mem_map.mp h
      cases hp
    · refine ih.map ?_
      intro p q h
      simp only [Prod.mk.injEq, List.cons.injEq, true_and] at h
      exact Prod.ext h.1 h.2

open Classical in
/-- a sum over the cuts of `x`, as a sum over all pairs with an indicator -/
theorem sum_splits_eq_tsum {α : Type} (x : List α) (g : List α × List α → ℝ≥0∞) :
    ((splits x).map g).sum = ∑' p : List α × List α, if x = p.1 ++ p.2 then g p else 0 := by
  rw [tsum_eq_sum (s := (splits x).toFinset)]
  · rw [← List.sum_toFinset g (nodup_splits_lim x)]
    refine Finset.sum_congr rfl fun p hp => ?_
    rw [List.mem_toFinset] at hp
    rw [if_pos ((mem_splits x p.1 p.2).mp hp).symm]
  · intro p hp
    rw [List.mem_toFinset] at hp
    rw [if_neg]
    intro e
    exact hp ((mem_splits x p.1 p.2).mpr e.symm)

/-- summing over all strings and all their cuts = summing over all pairs of strings -/
theorem tsum_splits {α : Type} (g : List α × List α → ℝ≥0∞) :
    ∑' x, ((splits x).map g).sum = ∑' p : List α × List α, g p := by
  classical
  simp_rw [sum_splits_eq_tsum]
  rw [ENNReal.tsum_comm]
  refine tsum_congr fun p => ?_
  exact tsum_ite_eq (p.1 ++ p.2) (fun _ => g p)

theorem tsum_list_sum {α β : Type} (l : List α) (g : α → β → ℝ≥0∞) :
    ∑' x, (l.map fun a => g a x).sum = (l.map fun a => ∑' x, g a x).sum := by
  induction l with
  | nil => simp
  | cons a l ih => simp only [List.map_cons, List.sum_cons]; rw [ENNReal.tsum_add, ih]

/-- total weight of a symbol: `1` for a terminal (its only string is `[s]`), the table's total otherwise -/
theorem tsum_Wsym (V : List σ) (f : σ → List σ → ℝ≥0∞) (s : σ) :
    ∑' u, Wsym V f s u = if s ∈ V then 1 else ∑' u, f s u := by
  unfold Wsym
  split
  · exact tsum_ite_eq [s] (fun _ => (1 : ℝ≥0∞))
  · rfl

/-- **`Wbody` over all strings factorises** into the totals of the body symbols -/
theorem tsum_Wbody (V : List σ) (f : σ → List σ → ℝ≥0∞) (body : List σ) :
    ∑' x, Wbody V f body x = (body.map fun s => if s ∈ V then 1 else ∑' u, f s u).prod := by
  induction body with
  | nil =>
    simp only [Wbody, List.map_nil, List.prod_nil]
    exact tsum_ite_eq ([] : List σ) (fun _ => (1 : ℝ≥0∞))
  | cons s ss ih =>
    simp only [Wbody, lsum_eq_sum, List.map_cons, List.prod_cons]
    rw [tsum_splits (fun p => Wsym V f s p.1 * Wbody V f ss p.2),
      ENNReal.tsum_prod (f := fun u v => Wsym V f s u * Wbody V f ss v)]
    simp_rw [ENNReal.tsum_mul_left]
    rw [ENNReal.tsum_mul_right, tsum_Wsym, ih]

/-- level by level: the `n`-th Kleene iterate is the sum over all strings of the height-`≤ n` weights
(every symbol `X`, terminal or not) -/
theorem ZN_eq_tsum_WN (G : CFG σ ℝ≥0∞) (n : Nat) (X : σ) : ZN G n X = ∑' x, WN G n X x := by
  induction n generalizing X with
  | zero => simp [ZN, WN]
  | succ n ih =>
    simp_rw [ZN_succ, WN_succ]
    unfold znPoly stepL
    rw [tsum_list_sum]
    apply congrArg List.sum
    apply List.map_congr_left
    intro r _
    rw [ENNReal.tsum_mul_left, tsum_Wbody]
    congr 2
    apply List.map_congr_left
    intro y _
    split
    · rfl
    · exact ih y

/-- monotone convergence for sums: `∑'` commutes with the supremum of an increasing sequence -/
theorem tsum_iSup_of_monotone {β : Type} (f : ℕ → β → ℝ≥0∞) (hf : ∀ b, Monotone fun n => f n b) :
    ∑' b, ⨆ n, f n b = ⨆ n, ∑' b, f n b := by
  simp_rw [ENNReal.tsum_eq_iSup_sum]
  rw [iSup_comm]
  refine iSup_congr fun s => ?_
  exact ENNReal.finsetSum_iSup_of_monotone (f := fun b n => f n b) hf

/-- **the value of a symbol is the sum of the weights of all strings**, at every symbol -/
theorem ZL_eq_tsum_WL' (G : CFG σ ℝ≥0∞) (X : σ) : ZL G X = ∑' x : List σ, WL G X x := by
  unfold ZL WL
  rw [tsum_iSup_of_monotone (fun n x => WN G n X x) (fun x => WN_monotone G X x)]
  exact iSup_congr fun n => ZN_eq_tsum_WN G n X

/-- the form asked for (the hypothesis is not used) -/
theorem ZL_eq_tsum_WL (G : CFG σ ℝ≥0∞) (X : σ) (_hX : X ∉ G.V) : ZL G X = ∑' x : List σ, WL G X x :=
  ZL_eq_tsum_WL' G X

/-- every single string weighs at most the total -/
theorem WL_le_ZL (G : CFG σ ℝ≥0∞) (X : σ) (x : List σ) : WL G X x ≤ ZL G X := by
  rw [ZL_eq_tsum_WL']; exact ENNReal.le_tsum x

/-! ### 5. the agenda algorithm -/

/-- a terminated run of `CFG.agenda` (empty agenda, any scheduler, any grammar) holds the supremum of the
Kleene iterates of its own step function `agF` -/
theorem agenda_result_is_iSup_agIter (G : CFG σ ℝ≥0∞) {st : AgState σ ℝ≥0∞} (h : AgReach G st)
    (h0 : st.change = []) (X : σ) : st.old X = ⨆ n, agIter G n X := by
  obtain ⟨⟨n, hn⟩, hge⟩ := agenda_terminated_agIter G h (pending_of_empty h0)
  exact le_antisymm (le_iSup_of_le n (natLe_iff_le.mp (hn X)))
    (iSup_le fun m => natLe_iff_le.mp (hge m X))

/-- **`CFG.agenda`, when its agenda empties, returns the least solution `ZL G`** on the nonterminals (and `1` on
the terminals), provided no rule has a terminal as its head (without this `agenda` and `ZN` differ: `agExG3` in
`Proofs/AgendaM.lean`) -/
theorem agenda_result_is_ZL (G : CFG σ ℝ≥0∞) (hV : ∀ r ∈ G.rules, r.head ∉ G.V) {st : AgState σ ℝ≥0∞}
    (h : AgReach G st) (h0 : st.change = []) (X : σ) :
    st.old X = if X ∈ G.V then 1 else ZL G X := by
  obtain ⟨⟨n, hn⟩, hge⟩ := agenda_terminated_agIter G h (pending_of_empty h0)
  apply le_antisymm
  · refine (natLe_iff_le.mp (hn X)).trans ((natLe_iff_le.mp (agIter_le_ZN G hV n X)).trans ?_)
    split
    · exact le_rfl
    · exact ZN_le_ZL G n X
  · have key : ∀ m, (if X ∈ G.V then 1 else ZN G m X) ≤ st.old X := fun m =>
      (natLe_iff_le.mp (ZN_le_agIter G m X)).trans (natLe_iff_le.mp (hge (m + 1) X))
    split
    · next hX => have := key 0; rwa [if_pos hX] at this
    · next hX => exact iSup_le fun m => by have := key m; rwa [if_neg hX] at this

/-- on a nonterminal -/
theorem agenda_result_is_ZL_nt (G : CFG σ ℝ≥0∞) (hV : ∀ r ∈ G.rules, r.head ∉ G.V) {st : AgState σ ℝ≥0∞}
    (h : AgReach G st) (h0 : st.change = []) (X : σ) (hX : X ∉ G.V) : st.old X = ZL G X := by
  rw [agenda_result_is_ZL G hV h h0 X, if_neg hX]

end

/-! ### non-vacuity -/
section examples

/-- divergence: `S → S (1) | ε (1)`; the equation `z = z + 1` has `∞` as its only (hence least) solution -/
private noncomputable def divG : CFG ℕ ℝ≥0∞ := ⟨0, [], [⟨1, 0, [0]⟩, ⟨1, 0, []⟩]⟩

private theorem divG_ZN (n : ℕ) : ZN divG n 0 = n := by
  induction n with
  | zero => simp [ZN]
  | succ n ih =>
    have hr : divG.rules = [⟨1, 0, [0]⟩, ⟨1, 0, []⟩] := rfl
    have hV : divG.V = [] := rfl
    rw [ZN_succ]; simp [znPoly, hr, hV, ih]

example : ZL divG 0 = ∞ := by
  unfold ZL; simp_rw [divG_ZN]; exact ENNReal.iSup_natCast
/-- all of this weight sits on the empty string (infinitely many trees): `ZL_eq_tsum_WL'` + `WL … x ≤ ZL` -/
example : ∑' x, WL divG 0 x = ∞ := by
  rw [← ZL_eq_tsum_WL']; unfold ZL; simp_rw [divG_ZN]; exact ENNReal.iSup_natCast

/-- convergence: `S → a S (½) | ε (½)`, `a = 10`; `z = 1` is a solution, and the least one -/
private noncomputable def geoG : CFG ℕ ℝ≥0∞ := ⟨0, [10], [⟨2⁻¹, 0, [10, 0]⟩, ⟨2⁻¹, 0, []⟩]⟩

private theorem geoG_poly (z : ℕ → ℝ≥0∞) : znPoly geoG z 0 = 2⁻¹ * z 0 + 2⁻¹ := by
  have hr : geoG.rules = [⟨2⁻¹, 0, [10, 0]⟩, ⟨2⁻¹, 0, []⟩] := rfl
  have hV : geoG.V = [10] := rfl
  simp [znPoly, hr, hV]

/-- the hypothesis of `ZL_least` is met by a finite chart -/
example : ∀ X, znPoly geoG (fun _ => 1) X ≤ (fun _ => (1 : ℝ≥0∞)) X := by
  intro X
  by_cases hX : X = 0
  · subst hX; rw [geoG_poly]; simp [ENNReal.inv_two_add_inv_two]
  · have : geoG.rules.filter (fun r => r.head = X) = [] := by
      simp [geoG, Ne.symm hX]
    simp [znPoly, this]


/-- … so `ZL geoG S = 1` exactly: `≤` by `ZL_least`, `≥` from the fixed-point equation `z = ½ z + ½` -/
example : ZL geoG 0 = 1 := by
  have hle : ZL geoG 0 ≤ 1 := ZL_least geoG (fun _ => 1) (fun X => by
    by_cases hX : X = 0
    · subst hX; rw [geoG_poly]; simp [ENNReal.inv_two_add_inv_two]
    · have : geoG.rules.filter (fun r => r.head = X) = [] := by simp [geoG, Ne.symm hX]
      simp [znPoly, this]) 0
  have hfin : ZL geoG 0 ≠ ∞ := ne_top_of_le_ne_top ENNReal.one_ne_top hle
  have hfp := ZL_fixed_point geoG 0
  rw [geoG_poly] at hfp
  have h2 : 2 * ZL geoG 0 = ZL geoG 0 + 1 := by
    conv_lhs => rw [hfp]
    rw [mul_add, ← mul_assoc, ENNReal.mul_inv_cancel (by norm_num) (by norm_num), one_mul]
  rw [two_mul] at h2
  exact (ENNReal.add_right_inj hfin).mp h2

/-- the hypotheses of `agenda_result_is_ZL`: `S → A A (2)`, `A → a (3) | ε (1)` over `ℝ≥0∞`; the scheduler
`a, A, S` empties the agenda -/
private noncomputable def agG : CFG ℕ ℝ≥0∞ := ⟨0, [10], [⟨2, 0, [1, 1]⟩, ⟨3, 1, [10]⟩, ⟨1, 1, []⟩]⟩

private theorem agG_done : (agendaRun agG [10, 1, 0]).change = [] := by
  simp [agendaRun, agendaStep, agendaInit, agPushes, agPositions, agDedup, agG]

example : ∀ r ∈ agG.rules, r.head ∉ agG.V := by simp [agG]
example : (agendaRun agG [10, 1, 0]).old 0 = ZL agG 0 :=
  agenda_result_is_ZL_nt agG (by simp [agG]) (agendaRun_reach agG _) agG_done 0 (by simp [agG])
/-- and so the least solution is computed: `A = 3 + 1 = 4`, `S = 2 · 4 · 4 = 32` -/
example : ZL agG 0 = 32 := by
  rw [← agenda_result_is_ZL_nt agG (by simp [agG]) (agendaRun_reach agG _) agG_done 0 (by simp [agG])]
  simp [agendaRun, agendaStep, agendaInit, agPushes, agPositions, agDedup, agWLoop, agPending, agG, lsum]
  norm_num
end examples
end Genlm
