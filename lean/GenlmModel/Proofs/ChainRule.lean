import GenlmModel.Model.Lm
import GenlmModel.Proofs.Basic
import Mathlib.Algebra.BigOperators.Group.List.Basic
import Mathlib.Algebra.BigOperators.Ring.List
import Mathlib.Algebra.Field.Basic
import Mathlib.Algebra.Order.Field.Rat
import Mathlib.Data.List.Basic
import Mathlib.Tactic.FieldSimp

/-!
Property C04 (pure algebra, any field): `Chart.normalize` produces a distribution, the
conditionals `P(c·t)/P(c)` of a consistent family of prefix weights are distributions, and
their product along a string telescopes to `P(x·eos)/P(ε)` — the chain rule behind `LM.__call__`.
-/
namespace Genlm
variable {τ K : Type} [Field K]

/-! ### `Chart.normalize` -/

theorem chartSum_eq_sum (q : List (τ × K)) : chartSum q = (q.map (·.2)).sum := by
  unfold chartSum
  have : ∀ a : K, q.foldl (fun a e => a + e.2) a = a + (q.map (·.2)).sum := by
    induction q with
    | nil => intro a; simp
    | cons e q ih => intro a; simp only [List.foldl_cons, ih, List.map_cons, List.sum_cons, add_assoc]
  rw [this, zero_add]

private theorem sum_map_div {α : Type} (l : List α) (f : α → K) (Z : K) :
    (l.map fun a => f a / Z).sum = (l.map f).sum / Z := by
  induction l with
  | nil => simp
  | cons a l ih => simp only [List.map_cons, List.sum_cons, ih, add_div]

section normalize
variable [DecidableEq K]

/-- a chart with non-zero total is normalised to total one -/
theorem normalize_sums_to_one (q : List (τ × K)) (hZ : chartSum q ≠ 0) :
    chartSum (normalize q) = 1 := by
  have hn : normalize q = q.map fun e => (e.1, e.2 / chartSum q) := by
    simp only [normalize, hZ, if_false]
  rw [hn, chartSum_eq_sum, List.map_map]
  simp only [Function.comp_def]
  rw [sum_map_div, ← chartSum_eq_sum]
  exact div_self hZ

/-- a chart with total zero is returned unchanged -/
theorem normalize_zero (q : List (τ × K)) (hZ : chartSum q = 0) : normalize q = q := by
  simp only [normalize, hZ, if_true]

/-- normalisation keeps the keys (and their order) -/
theorem normalize_keys (q : List (τ × K)) : (normalize q).map (·.1) = q.map (·.1) := by
  simp only [normalize]
  split
  · rfl
  · simp [List.map_map, Function.comp_def]

/-- each value is divided by the total -/
theorem mem_normalize (q : List (τ × K)) (hZ : chartSum q ≠ 0) (t : τ) (v : K) :
    (t, v) ∈ normalize q ↔ ∃ u, (t, u) ∈ q ∧ v = u / chartSum q := by
  have hn : normalize q = q.map fun e => (e.1, e.2 / chartSum q) := by
    simp only [normalize, hZ, if_false]
  rw [hn]
  simp only [List.mem_map, Prod.mk.injEq, Prod.exists]
  constructor
  · rintro ⟨a, u, h, rfl, rfl⟩; exact ⟨u, h, rfl⟩
  · rintro ⟨u, h, rfl⟩; exact ⟨t, u, h, rfl, rfl⟩

end normalize

/-! ### the chain rule -/

/-- the conditional weight of token `t` after context `c` -/
def cond (P : List τ → K) (c : List τ) (t : τ) : K := P (c ++ [t]) / P c

/-- **local normalisation**: if the prefix weights are consistent at `c`
(`P c = Σ_t P (c·t)`, which for the prefix weights of a language model holds for every context
without `eos`) and `P c ≠ 0`, the conditionals after `c` sum to one -/
theorem cond_sums_to_one (P : List τ → K) (toks : List τ) (c : List τ)
    (hP : P c = (toks.map fun t => P (c ++ [t])).sum) (hc : P c ≠ 0) :
    (toks.map fun t => cond P c t).sum = 1 := by
  unfold cond
  rw [sum_map_div, ← hP]
  exact div_self hc

/-- telescoping product of the ratios of consecutive prefix weights -/
theorem prod_ratio_take (P : List τ → K) (x : List τ) (n : Nat) (hn : n ≤ x.length)
    (h0 : ∀ i, i ≤ n → P (x.take i) ≠ 0) :
    ((List.range n).map fun i => P (x.take (i+1)) / P (x.take i)).prod = P (x.take n) / P [] := by
  induction n with
  | zero => simpa using (div_self (by simpa using h0 0 (Nat.le_refl 0))).symm
  | succ n ih =>
    rw [List.range_succ, List.map_append, List.prod_append, ih (by omega) (fun i hi => h0 i (by omega))]
    have h1 : P (x.take n) ≠ 0 := h0 n (by omega)
    have h2 : P [] ≠ 0 := by simpa using h0 0 (by omega)
    simp only [List.map_cons, List.map_nil, List.prod_cons, List.prod_nil, mul_one]
    field_simp

theorem cond_take (P : List τ → K) (x : List τ) (d : τ) (i : Nat) (hi : i < x.length) :
    cond P (x.take i) (x.getD i d) = P (x.take (i+1)) / P (x.take i) := by
  unfold cond
  rw [List.getD_eq_getElem?_getD, List.getElem?_eq_getElem hi, Option.getD_some,
    List.take_append_getElem hi]

/-- **chain rule**: along a string `x` all of whose prefixes have non-zero weight, the product
of the conditionals of its tokens, times the conditional of `eos` after `x`, is the weight of
`x·eos` relative to the weight of the empty prefix.  (`x.getD i eos` is `x[i]`: the index is in
range.) -/
theorem chain_rule (P : List τ → K) (eos : τ) (x : List τ)
    (h0 : ∀ i, i ≤ x.length → P (x.take i) ≠ 0) :
    ((List.range x.length).map fun i => cond P (x.take i) (x.getD i eos)).prod * cond P x eos
      = P (x ++ [eos]) / P [] := by
  have e : ((List.range x.length).map fun i => cond P (x.take i) (x.getD i eos))
      = (List.range x.length).map fun i => P (x.take (i+1)) / P (x.take i) := by
    apply List.map_congr_left
    intro i hi
    exact cond_take P x eos i (List.mem_range.1 hi)
  rw [e, prod_ratio_take P x x.length (Nat.le_refl _) h0, List.take_length]
  have h1 : P x ≠ 0 := by simpa using h0 x.length (Nat.le_refl _)
  have h2 : P [] ≠ 0 := by simpa using h0 0 (Nat.zero_le _)
  unfold cond
  field_simp

/-- the two halves together, in the form used for a language model: consistent prefix weights
over the token list `toks` (which contains `eos`, without repetition), a string `x` without
`eos` whose prefixes all have non-zero weight -/
theorem chain_rule_lm (P : List τ → K) (toks : List τ) (eos : τ)
    (hP : ∀ c, eos ∉ c → P c = (toks.map fun t => P (c ++ [t])).sum)
    (x : List τ) (hx : eos ∉ x) (h0 : ∀ i, i ≤ x.length → P (x.take i) ≠ 0) :
    (∀ i, i ≤ x.length → (toks.map fun t => cond P (x.take i) t).sum = 1)
    ∧ ((List.range x.length).map fun i => cond P (x.take i) (x.getD i eos)).prod * cond P x eos
        = P (x ++ [eos]) / P [] := by
  refine ⟨fun i hi => ?_, chain_rule P eos x h0⟩
  exact cond_sums_to_one P toks _ (hP _ (fun h => hx (List.mem_of_mem_take h))) (h0 i hi)

/-! ### `LM.__call__` computes that product -/
section call
variable [DecidableEq K]

private theorem foldl_break_zero {α : Type} (f : α → K) (l : List α) :
    l.foldl (fun P a => if P = 0 then P else P * f a) 0 = 0 := by
  induction l with
  | nil => rfl
  | cons a l ih => simpa using ih

/-- the early `break` of `LM.__call__` is unobservable -/
theorem foldl_break {α : Type} (f : α → K) (l : List α) (a : K) :
    l.foldl (fun P b => if P = 0 then P else P * f b) a = a * (l.map f).prod := by
  induction l generalizing a with
  | nil => simp
  | cons b l ih =>
    simp only [List.foldl_cons, List.map_cons, List.prod_cons]
    by_cases ha : a = 0
    · subst ha; simp [foldl_break_zero]
    · simp only [ha, if_false]; rw [ih, mul_assoc]

theorem lmCall_eq_prod (pnext : List τ → τ → K) (d : τ) (ctx : List τ) :
    lmCall pnext ctx
      = ((List.range ctx.length).map fun i => pnext (ctx.take i) (ctx.getD i d)).prod := by
  unfold lmCall
  rw [foldl_break (fun yi : τ × Nat => pnext (ctx.take yi.2) yi.1), one_mul]
  congr 1
  apply List.ext_getElem
  · simp
  · intro i h1 h2
    have hi : i < ctx.length := by simpa using h1
    simp [hi]

/-- `LM.__call__` on `x·eos`, for a model whose next-token weights are the conditionals of `P`,
returns `P (x·eos) / P ε` -/
theorem lmCall_chain_rule (P : List τ → K) (eos : τ) (x : List τ)
    (h0 : ∀ i, i ≤ x.length → P (x.take i) ≠ 0) :
    lmCall (cond P) (x ++ [eos]) = P (x ++ [eos]) / P [] := by
  rw [lmCall_eq_prod (cond P) eos, ← chain_rule P eos x h0]
  simp only [List.length_append, List.length_cons, List.length_nil, Nat.zero_add]
  rw [List.range_succ, List.map_append, List.prod_append]
  congr 1
  · congr 1
    apply List.map_congr_left
    intro i hi
    have hi' : i < x.length := List.mem_range.1 hi
    rw [List.take_append_of_le_length (Nat.le_of_lt hi'), List.getD_eq_getElem?_getD,
      List.getD_eq_getElem?_getD, List.getElem?_append_left hi']
  · simp

end call

/-! ### non-vacuity: a two-token model over `ℚ` -/
section examples
/-- tokens `0` (= eos) and `1`; `P` = weight of the strings `1ⁿ 0` with weights `(1/2)^(n+1)` -/
private def exP : List Nat → ℚ
  | [] => 1
  | [0] => 1/2
  | [1] => 1/2
  | [1, 0] => 1/4
  | [1, 1] => 1/4
  | _ => 0

example : chartSum (normalize [(0, (1:ℚ)), (1, 3)]) = 1 := normalize_sums_to_one _ (by decide +kernel)
example : normalize [(0, (1:ℚ)), (1, 3)] = [(0, 1/4), (1, 3/4)] := by decide +kernel
example : normalize [(0, (1:ℚ)), (1, -1)] = [(0, 1), (1, -1)] := normalize_zero _ (by decide +kernel)
example : exP [] = ([0, 1].map fun t => exP ([] ++ [t])).sum := by decide +kernel
example : exP [1] = ([0, 1].map fun t => exP ([1] ++ [t])).sum := by decide +kernel
example : ∀ i, i ≤ [1].length → exP ([1].take i) ≠ 0 := by decide +kernel
example : lmCall (cond exP) ([1] ++ [0]) = 1/4 :=
  (lmCall_chain_rule exP 0 [1] (by decide +kernel)).trans (by decide +kernel)
end examples

end Genlm
