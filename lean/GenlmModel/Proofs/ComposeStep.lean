import GenlmModel.Proofs.ComposeRel

/-! One unfolding of `WN (composeAll G T)` at every kind of symbol, in terms of the relation algebra of
`Proofs/ComposeRel.lean` (helpers of `Proofs/Compose.lean`, everything in `Genlm.ComposeAux`):
`step_item` (a triple `(i, X, j)`: the rules of `X`, chained through all state sequences, plus the arcs
reading `X`), `step_start`. -/
namespace Genlm
set_option linter.unusedSectionVars false
open UnfoldAux WfsaAux FstAux

namespace ComposeAux
section Step
variable {ι σ K : Type} [DecidableEq ι] [DecidableEq σ] [CommSemiring K]

/-- an output string as a string of the composed grammar -/
def tm (y : List σ) : List (CSym ι σ) := y.map CSym.term

/-- a table of the composed grammar, read at the triples with middle component `X` -/
def hrel (f : CSym ι σ → List (CSym ι σ) → K) (X : CX σ) : ι → List σ → ι → K :=
  fun i y j => f (.item i X j) (tm y)

/-- a body `Y_1 … Y_k` chained through all intermediate states -/
def chainR (S : List ι) (g : CX σ → ι → List σ → ι → K) : List (CX σ) → ι → List σ → ι → K
  | [] => rid
  | Y :: Ys => rcomp S (g Y) (chainR S g Ys)

theorem splits_map {α β : Type} (f : α → β) (x : List α) :
    splits (x.map f) = (splits x).map fun p => (p.1.map f, p.2.map f) := by
  induction x with
  | nil => rfl
  | cons a x ih => simp [splits, ih, List.map_map, Function.comp_def]

theorem tm_eq_nil (y : List σ) : (tm y : List (CSym ι σ)) = [] ↔ y = [] := by simp [tm]

theorem tm_inj (y y' : List σ) : (tm y : List (CSym ι σ)) = tm y' ↔ y = y' := by
  unfold tm
  constructor
  · intro h
    exact List.map_injective_iff.mpr (fun a b hab => by injection hab) h
  · intro h; rw [h]

theorem stepL_eq_ite {τ : Type} [DecidableEq τ] (V : List τ) (rs : List (Rule τ K))
    (f : τ → List τ → K) (X : τ) (x : List τ) :
    stepL V rs f X x = (rs.map fun r => if r.head = X then r.w * Wbody V f r.body x else 0).sum := by
  unfold stepL
  rw [sum_filter_ite]
  congr 1; apply List.map_congr_left; intro r _
  by_cases h : r.head = X <;> simp [h]

theorem stepL_flatMap {τ α : Type} [DecidableEq τ] (V : List τ) (l : List α)
    (g : α → List (Rule τ K)) (f : τ → List τ → K) (X : τ) (x : List τ) :
    stepL V (l.flatMap g) f X x = (l.map fun a => stepL V (g a) f X x).sum := by
  simp only [stepL_eq_ite]
  rw [sum_flatMap]

theorem stepL_app {τ : Type} [DecidableEq τ] (V : List τ) (rs rs' : List (Rule τ K))
    (f : τ → List τ → K) (X : τ) (x : List τ) :
    stepL V (rs ++ rs') f X x = stepL V rs f X x + stepL V rs' f X x := by
  simp [stepL, List.filter_append]

theorem WN_succ' {τ : Type} [DecidableEq τ] (G : CFG τ K) (n : Nat) (X : τ) (x : List τ) :
    WN G (n+1) X x = stepL G.V G.rules (WN G n) X x := by
  simp only [WN, lsum_eq_sum, stepL]

/-- a body starting with a triple -/
theorem Wbody_cons_item (V : List (CSym ι σ)) (hV : ∀ v ∈ V, v.isItem = false)
    (f : CSym ι σ → List (CSym ι σ) → K) (i k : ι) (Y : CX σ) (ss : List (CSym ι σ)) (y : List σ) :
    Wbody V f (.item i Y k :: ss) (tm y)
      = ((splits y).map fun q => f (.item i Y k) (tm q.1) * Wbody V f ss (tm q.2)).sum := by
  have hn : CSym.item i Y k ∉ V := fun h => by simpa [CSym.isItem] using hV _ h
  simp only [Wbody, lsum_eq_sum, Wsym, if_neg hn]
  rw [tm, splits_map, List.map_map]
  rfl

theorem joinAll_sum (S : List ι) (V : List (CSym ι σ)) (hV : ∀ v ∈ V, v.isItem = false)
    (f : CSym ι σ → List (CSym ι σ) → K) (Ys : List (CX σ)) (i j : ι) (y : List σ) :
    ((joinAll S i Ys).map fun p => if p.2 = j then Wbody V f p.1 (tm y) else 0).sum
      = chainR S (hrel f) Ys i y j := by
  induction Ys generalizing i y with
  | nil =>
    simp only [joinAll, chainR, rid, Wbody, List.map_cons, List.map_nil, List.sum_cons, List.sum_nil,
      add_zero, tm_eq_nil]
    by_cases h1 : i = j <;> by_cases h2 : y = [] <;> simp [h1, h2]
  | cons Y Ys ih =>
    simp only [joinAll, chainR]
    rw [sum_flatMap]
    simp only [List.map_map, Function.comp_def]
    have h1 : ∀ k ∈ S,
        ((joinAll S k Ys).map fun p =>
          if p.2 = j then Wbody V f (.item i Y k :: p.1) (tm y) else 0).sum
        = ((splits y).map fun q => f (.item i Y k) (tm q.1) * chainR S (hrel f) Ys k q.2 j).sum := by
      intro k _
      have h2 : ∀ p ∈ joinAll S k Ys,
          (if p.2 = j then Wbody V f (.item i Y k :: p.1) (tm y) else 0)
          = ((splits y).map fun q => f (.item i Y k) (tm q.1) *
              (if p.2 = j then Wbody V f p.1 (tm q.2) else 0)).sum := by
        intro p _
        rw [Wbody_cons_item V hV]
        by_cases hp : p.2 = j
        · simp only [hp, if_true]
        · simp only [hp, if_false, mul_zero]
          rw [sum_map_zero _ _ (fun _ _ => rfl)]
      rw [List.map_congr_left h2,
        sum_swap (joinAll S k Ys) (splits y) (fun p q => f (.item i Y k) (tm q.1) *
          (if p.2 = j then Wbody V f p.1 (tm q.2) else 0))]
      congr 1; apply List.map_congr_left; intro q _
      rw [List.sum_map_mul_left, ih]
    rw [List.map_congr_left h1,
      sum_swap S (splits y) (fun k q => f (.item i Y k) (tm q.1) * chainR S (hrel f) Ys k q.2 j)]
    rfl

theorem expandRule_step (S : List ι) (hS : S.Nodup) (V : List (CSym ι σ))
    (hV : ∀ v ∈ V, v.isItem = false) (f : CSym ι σ → List (CSym ι σ) → K) (r : Rule (CX σ) K)
    (i j : ι) (hx : CX σ) (y : List σ) :
    stepL V (expandRule S r) f (.item i hx j) (tm y)
      = if r.head = hx ∧ i ∈ S then r.w * chainR S (hrel f) r.body i y j else 0 := by
  rw [stepL_eq_ite]
  unfold expandRule
  rw [sum_flatMap]
  simp only [List.map_map, Function.comp_def]
  have h1 : ∀ s ∈ S,
      ((joinAll S s r.body).map fun p =>
        if CSym.item s r.head p.2 = CSym.item i hx j then r.w * Wbody V f p.1 (tm y) else 0).sum
      = if i = s then (if r.head = hx then r.w * chainR S (hrel f) r.body s y j else 0) else 0 := by
    intro s _
    by_cases his : i = s
    · subst his
      rw [if_pos rfl]
      by_cases hh : r.head = hx
      · rw [if_pos hh, ← joinAll_sum S V hV f r.body i j y, ← List.sum_map_mul_left]
        congr 1; apply List.map_congr_left; intro p _
        by_cases hp : p.2 = j <;> simp [hp, hh]
      · rw [if_neg hh]
        apply sum_map_zero; intro p _
        rw [if_neg]
        intro h; injection h with _ h2 _; exact hh h2
    · rw [if_neg his]
      apply sum_map_zero; intro p _
      rw [if_neg]
      intro h; injection h with h1 _ _; exact his h1.symm
  rw [List.map_congr_left h1,
    sum_ite_eq_nodup S hS i (fun s => if r.head = hx then r.w * chainR S (hrel f) r.body s y j else 0)]
  by_cases h1 : i ∈ S <;> by_cases h2 : r.head = hx <;> simp [h1, h2]

theorem composeV_noItem (T : FST ι σ K) : ∀ v ∈ composeV T, v.isItem = false := by
  intro v hv
  simp only [composeV, List.mem_map] at hv
  obtain ⟨b, _, rfl⟩ := hv
  rfl

/-- the rules coming from the grammar rules and the special rules, at a triple -/
theorem expanded_step (G : CFG σ K) (T : FST ι σ K) (f : CSym ι σ → List (CSym ι σ) → K)
    (i j : ι) (hi : i ∈ T.states) (hx : CX σ) (y : List σ) :
    stepL (composeV T) (expandedRules G T) f (.item i hx j) (tm y)
      = ((xRules G).map fun r =>
          if r.head = hx then r.w * chainR T.states (hrel f) r.body i y j else 0).sum := by
  unfold expandedRules
  rw [stepL_flatMap]
  congr 1; apply List.map_congr_left; intro r _
  rw [expandRule_step T.states (nodup_eraseDups _) (composeV T) (composeV_noItem T)]
  by_cases h : r.head = hx <;> simp [h, hi]

theorem startRules_step_item (T : FST ι σ K) (f : CSym ι σ → List (CSym ι σ) → K)
    (i j : ι) (hx : CX σ) (u : List (CSym ι σ)) :
    stepL (composeV T) (startRules T) f (.item i hx j) u = 0 := by
  rw [stepL_eq_ite]
  apply sum_map_zero; intro r hr
  simp only [startRules, List.mem_flatMap, List.mem_map] at hr
  obtain ⟨s, _, t, _, rfl⟩ := hr
  rw [if_neg]; intro h; cases h

theorem expandRule_head (S : List ι) (r : Rule (CX σ) K) :
    ∀ r' ∈ expandRule S r, ∃ i j, r'.head = CSym.item i r.head j := by
  intro r' hr'
  simp only [expandRule, List.mem_flatMap, List.mem_map] at hr'
  obtain ⟨s, _, p, _, rfl⟩ := hr'
  exact ⟨s, p.2, rfl⟩

theorem expanded_step_start (G : CFG σ K) (T : FST ι σ K) (f : CSym ι σ → List (CSym ι σ) → K)
    (u : List (CSym ι σ)) :
    stepL (composeV T) (expandedRules G T) f .start u = 0 := by
  rw [stepL_eq_ite]
  apply sum_map_zero; intro r hr
  simp only [expandedRules, List.mem_flatMap] at hr
  obtain ⟨r0, _, hr⟩ := hr
  obtain ⟨i, j, h⟩ := expandRule_head T.states r0 r hr
  rw [if_neg]; rw [h]; intro h; cases h

theorem arcRules_step_start (T : FST ι σ K) (f : CSym ι σ → List (CSym ι σ) → K)
    (u : List (CSym ι σ)) :
    stepL (composeV T) (arcRules T) f .start u = 0 := by
  rw [stepL_eq_ite]
  apply sum_map_zero; intro r hr
  simp only [arcRules, List.mem_map] at hr
  obtain ⟨e, _, rfl⟩ := hr
  rw [if_neg]; intro h; cases h

theorem startRules_step_start (T : FST ι σ K) (f : CSym ι σ → List (CSym ι σ) → K)
    (u : List (CSym ι σ)) :
    stepL (composeV T) (startRules T) f .start u
      = (T.start.map fun s => (T.stop.map fun t =>
          s.2 * t.2 * f (.item s.1 .other t.1) u).sum).sum := by
  rw [stepL_eq_ite]
  unfold startRules
  rw [sum_flatMap]
  congr 1; apply List.map_congr_left; intro s _
  rw [List.map_map]
  congr 1; apply List.map_congr_left; intro t _
  have hn : CSym.item s.1 CX.other t.1 ∉ composeV T := fun h => by
    simpa [CSym.isItem] using composeV_noItem T _ h
  simp only [Function.comp_def, if_true, Wbody_singleton, Wsym, if_neg hn]

/-- the body of an arc rule matches exactly the string of the output label -/
theorem outBody_W (V : List (CSym ι σ)) (f : CSym ι σ → List (CSym ι σ) → K) (o : Option σ)
    (ho : ∀ b, o = some b → CSym.term b ∈ V) (y : List σ) :
    Wbody V f (outBody o) (tm y) = if y = o.toList then 1 else 0 := by
  cases o with
  | none =>
    show Wbody V f [] (tm y) = if y = [] then 1 else 0
    simp only [Wbody, tm_eq_nil]
  | some b =>
    show Wbody V f [CSym.term b] (tm y) = if y = [b] then 1 else 0
    simp only [Wbody_singleton, Wsym, if_pos (ho b rfl)]
    have : (tm y : List (CSym ι σ)) = [CSym.term b] ↔ y = [b] := by
      rw [show ([CSym.term b] : List (CSym ι σ)) = tm [b] from rfl, tm_inj]
    by_cases hy : y = [b]
    · rw [if_pos (this.mpr hy), if_pos hy]
    · rw [if_neg (fun h => hy (this.mp h)), if_neg hy]

theorem arcBody_W (T : FST ι σ K) (f : CSym ι σ → List (CSym ι σ) → K) (e : TArc ι σ K)
    (he : e ∈ T.arcs) (y : List σ) :
    Wbody (composeV T) f (outBody e.out) (tm y) = if y = e.out.toList then 1 else 0 := by
  apply outBody_W
  intro b hb
  simp only [composeV, List.mem_map]
  exact ⟨b, out_mem_outSyms T e he b hb, rfl⟩

theorem ofLabel_inj (l l' : Option σ) : CX.ofLabel l = CX.ofLabel l' ↔ l = l' := by
  cases l <;> cases l' <;> simp [CX.ofLabel]

theorem arcRules_step_item (T : FST ι σ K) (f : CSym ι σ → List (CSym ι σ) → K)
    (i j : ι) (hx : CX σ) (y : List σ) :
    stepL (composeV T) (arcRules T) f (.item i hx j) (tm y)
      = (T.arcs.map fun e => if e.src = i ∧ CX.ofLabel e.inp = hx ∧ e.dst = j ∧ y = e.out.toList
          then e.w else 0).sum := by
  rw [stepL_eq_ite]
  unfold arcRules
  rw [List.map_map]
  apply congrArg
  apply List.map_congr_left; intro e he
  simp only [Function.comp_def]
  rw [arcBody_W T f e he y]
  by_cases h1 : e.src = i <;> by_cases h2 : CX.ofLabel e.inp = hx <;> by_cases h3 : e.dst = j <;>
    by_cases h4 : y = e.out.toList <;> simp [h1, h2, h3, h4]

theorem arcRules_step_label (T : FST ι σ K) (f : CSym ι σ → List (CSym ι σ) → K)
    (i j : ι) (l : Option σ) (y : List σ) :
    stepL (composeV T) (arcRules T) f (.item i (CX.ofLabel l) j) (tm y) = arcR T l i y j := by
  rw [arcRules_step_item]
  unfold arcR
  congr 1; apply List.map_congr_left; intro e _
  simp only [ofLabel_inj]

theorem arcRules_step_other (T : FST ι σ K) (f : CSym ι σ → List (CSym ι σ) → K)
    (i j : ι) (y : List σ) :
    stepL (composeV T) (arcRules T) f (.item i .other j) (tm y) = 0 := by
  rw [arcRules_step_item]
  apply sum_map_zero; intro e _
  rw [if_neg]
  rintro ⟨_, h, _⟩
  cases h' : e.inp <;> simp [h', CX.ofLabel] at h

/-- **one unfolding at a triple** -/
theorem step_item (G : CFG σ K) (T : FST ι σ K) (n : Nat) (i j : ι) (hi : i ∈ T.states)
    (hx : CX σ) (y : List σ) :
    WN (composeAll G T) (n+1) (.item i hx j) (tm y)
      = ((xRules G).map fun r =>
          if r.head = hx then
            r.w * chainR T.states (hrel (WN (composeAll G T) n)) r.body i y j else 0).sum
        + stepL (composeV T) (arcRules T) (WN (composeAll G T) n) (.item i hx j) (tm y) := by
  rw [WN_succ']
  show stepL (composeV T) (expandedRules G T ++ startRules T ++ arcRules T) _ _ _ = _
  rw [stepL_app, stepL_app, startRules_step_item, add_zero, expanded_step G T _ i j hi]

/-- **one unfolding at the start symbol** -/
theorem step_start (G : CFG σ K) (T : FST ι σ K) (n : Nat) (u : List (CSym ι σ)) :
    WN (composeAll G T) (n+1) .start u
      = (T.start.map fun s => (T.stop.map fun t =>
          s.2 * t.2 * WN (composeAll G T) n (.item s.1 .other t.1) u).sum).sum := by
  rw [WN_succ']
  show stepL (composeV T) (expandedRules G T ++ startRules T ++ arcRules T) _ _ _ = _
  rw [stepL_app, stepL_app, expanded_step_start, arcRules_step_start, zero_add, add_zero,
    startRules_step_start]

/-- the sum over `chain(self, special_rules)`, split into its four parts -/
theorem xsum_split (G : CFG σ K) (F : Rule (CX σ) K → K) :
    ((xRules G).map F).sum
      = (G.rules.map fun r => F ⟨r.w, .sym r.head, r.body.map .sym⟩).sum
        + (G.V.eraseDups.map fun a => F ⟨1, .sym a, [.eps, .sym a]⟩).sum
        + F ⟨1, .other, [.sym G.S]⟩ + F ⟨1, .other, [.other, .eps]⟩ := by
  simp only [xRules, liftRules, specialRules, List.map_append, List.sum_append, List.map_map,
    Function.comp_def, List.map_cons, List.map_nil, List.sum_cons, List.sum_nil, add_zero]
  ring

theorem mem_eraseDups' {α : Type} [DecidableEq α] (a : α) (l : List α) : a ∈ l.eraseDups ↔ a ∈ l := by
  simp

theorem step_sym (G : CFG σ K) (T : FST ι σ K) (n : Nat) (i j : ι) (hi : i ∈ T.states)
    (X : σ) (y : List σ) :
    WN (composeAll G T) (n+1) (.item i (.sym X) j) (tm y)
      = ((G.rules.filter (fun r => r.head = X)).map fun r =>
          r.w * chainR T.states (hrel (WN (composeAll G T) n)) (r.body.map .sym) i y j).sum
        + (if X ∈ G.V then
            chainR T.states (hrel (WN (composeAll G T) n)) [.eps, .sym X] i y j else 0)
        + arcR T (some X) i y j := by
  rw [step_item G T n i j hi, xsum_split]
  have ha := arcRules_step_label T (WN (composeAll G T) n) i j (some X) y
  rw [show CX.ofLabel (some X) = CX.sym X from rfl] at ha
  rw [ha]
  congr 1
  have h3 : ¬ (CX.other : CX σ) = CX.sym X := by intro h; cases h
  simp only [if_neg h3, add_zero]
  congr 1
  · rw [sum_filter_ite]
    congr 1; apply List.map_congr_left; intro r _
    by_cases h : r.head = X
    · simp [h]
    · have : ¬ CX.sym r.head = CX.sym X := fun h' => h (by injection h')
      simp [h, this]
  · have h1 : ∀ a ∈ G.V.eraseDups,
        (if CX.sym a = CX.sym X then
          (1 : K) * chainR T.states (hrel (WN (composeAll G T) n)) [.eps, .sym a] i y j else 0)
        = if X = a then chainR T.states (hrel (WN (composeAll G T) n)) [.eps, .sym a] i y j else 0 := by
      intro a _
      by_cases h : X = a
      · subst h; simp
      · have : ¬ CX.sym a = CX.sym X := fun h' => h (by injection h' with h'; exact h'.symm)
        simp [h, this]
    rw [List.map_congr_left h1, sum_ite_eq_nodup _ (nodup_eraseDups _) X
      (fun a => chainR T.states (hrel (WN (composeAll G T) n)) [.eps, .sym a] i y j)]
    simp only [mem_eraseDups']

theorem step_eps (G : CFG σ K) (T : FST ι σ K) (n : Nat) (i j : ι) (hi : i ∈ T.states)
    (y : List σ) :
    WN (composeAll G T) (n+1) (.item i .eps j) (tm y) = arcR T none i y j := by
  rw [step_item G T n i j hi, xsum_split]
  have ha := arcRules_step_label T (WN (composeAll G T) n) i j none y
  rw [show CX.ofLabel (none : Option σ) = CX.eps from rfl] at ha
  rw [ha]
  have h3 : ¬ (CX.other : CX σ) = CX.eps := by intro h; cases h
  simp only [if_neg h3, add_zero]
  rw [sum_map_zero, sum_map_zero, zero_add, zero_add]
  · intro a _; rw [if_neg]; intro h; cases h
  · intro r _; rw [if_neg]; intro h; cases h

theorem step_other (G : CFG σ K) (T : FST ι σ K) (n : Nat) (i j : ι) (hi : i ∈ T.states)
    (y : List σ) :
    WN (composeAll G T) (n+1) (.item i .other j) (tm y)
      = chainR T.states (hrel (WN (composeAll G T) n)) [.sym G.S] i y j
        + chainR T.states (hrel (WN (composeAll G T) n)) [.other, .eps] i y j := by
  rw [step_item G T n i j hi, xsum_split, arcRules_step_other, add_zero]
  simp only [if_true, one_mul]
  rw [sum_map_zero, sum_map_zero, zero_add, zero_add]
  · intro a _; rw [if_neg]; intro h; cases h
  · intro r _; rw [if_neg]; intro h; cases h

end Step
end ComposeAux
end Genlm
