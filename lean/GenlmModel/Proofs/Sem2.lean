import GenlmModel.Proofs.TrimSem

/-! Semantic preservation of `separate_terminals` (property C06), in every commutative semiring.

`separate_terminals` replaces every terminal occurrence in a non-preterminal rule by a fresh
preterminal nonterminal.  Heights change (a leaf gets one unary step on top), so the statement is a
pair of level-wise bounds in the natural preorder `≼` of the semiring:

* `separateTerminals_le` : `WN G n X x ≼ WN G' (n+1) X x` (every symbol `X`; only needs that the
  generated names are not terminals),
* `separateTerminals_ge` : `WN G' n X x ≼ WN G n X x` for every symbol `X` that is not a generated
  name (needs freshness and injectivity of the generated names).
-/
namespace Genlm
set_option linter.unusedSectionVars false
open UnfoldAux

namespace Sem2Aux
section
variable {σ K : Type} [DecidableEq σ] [CommSemiring K] [DecidableEq K]

theorem all_eq_of_one_eq_zero (h : (1 : K) = 0) (a b : K) : a = b := by
  rw [← mul_one a, ← mul_one b, h, mul_zero, mul_zero]

theorem stepL_nil (V : List σ) (f : σ → List σ → K) (X : σ) (x : List σ) :
    stepL V ([] : List (Rule σ K)) f X x = 0 := by simp [stepL]

theorem stepL_addRule (V : List σ) (rs : List (Rule σ K)) (r : Rule σ K) (f : σ → List σ → K)
    (X : σ) (x : List σ) :
    stepL V (addRule rs r) f X x
      = stepL V rs f X x + (if r.head = X then r.w * Wbody V f r.body x else 0) := by
  unfold addRule
  split
  · next h => rw [h, zero_mul]; simp
  · rw [stepL_append, stepL_cons, stepL_nil, add_zero]

theorem le_add_right' (a b : K) : a ≼ a + b := ⟨b, rfl⟩
theorem le_add_left' (a b : K) : a ≼ b + a := ⟨b, add_comm _ _⟩

/-- `Wbody` is monotone in the table; only nonterminal body symbols matter -/
theorem Wbody_le_nt (V : List σ) (f g : σ → List σ → K) (body : List σ)
    (h : ∀ s ∈ body, s ∉ V → ∀ u, f s u ≼ g s u) (x : List σ) :
    Wbody V f body x ≼ Wbody V g body x := by
  induction body generalizing x with
  | nil => exact le_rfl' _
  | cons s ss ih =>
    simp only [Wbody, lsum_eq_sum]
    apply sum_le'
    intro p _
    refine mul_le' ?_ (ih (fun s' hs' => h s' (by simp [hs'])) p.2)
    unfold Wsym; split
    · exact le_rfl' _
    · next hV => exact h s (by simp) hV p.1

theorem stepL_le_nt (V : List σ) (rs : List (Rule σ K)) (f g : σ → List σ → K)
    (h : ∀ r ∈ rs, ∀ s ∈ r.body, s ∉ V → ∀ u, f s u ≼ g s u) (X : σ) (x : List σ) :
    stepL V rs f X x ≼ stepL V rs g X x := by
  unfold stepL
  apply sum_le'
  intro r hr
  exact mul_le' (le_rfl' _) (Wbody_le_nt V f g r.body (h r (List.mem_filter.mp hr).1) x)

/-- replacing the first symbol and the rest of a body, monotonically -/
theorem Wbody_cons_le (V : List σ) (f g : σ → List σ → K) (s t : σ) (ss tt : List σ)
    (h1 : ∀ u, Wsym V f s u ≼ Wsym V g t u) (h2 : ∀ v, Wbody V f ss v ≼ Wbody V g tt v)
    (x : List σ) : Wbody V f (s :: ss) x ≼ Wbody V g (t :: tt) x := by
  simp only [Wbody, lsum_eq_sum]
  apply sum_le'
  intro p _
  exact mul_le' (h1 p.1) (h2 p.2)

/-- a rule's contribution is below the whole step -/
theorem term_le_stepL (V : List σ) (rs : List (Rule σ K)) (f : σ → List σ → K) (r : Rule σ K)
    (hr : r ∈ rs) (x : List σ) : r.w * Wbody V f r.body x ≼ stepL V rs f r.head x := by
  induction rs with
  | nil => simp at hr
  | cons q rs ih =>
    rw [stepL_cons]
    rcases List.mem_cons.mp hr with rfl | hr
    · rw [if_pos rfl]; exact le_add_right' _ _
    · exact le_trans' (ih hr) (le_add_left' _ _)

theorem Wsym_term (V : List σ) (f : σ → List σ → K) (a : σ) (ha : a ∈ V) (u : List σ) :
    Wsym V f a u = if u = [a] then 1 else 0 := by
  unfold Wsym; rw [if_pos ha]

theorem Wsym_nt (V : List σ) (f : σ → List σ → K) (s : σ) (hs : s ∉ V) (u : List σ) :
    Wsym V f s u = f s u := by
  unfold Wsym; rw [if_neg hs]

/-! ### `separate_terminals` as a fold -/

/-- the loop body of `separateTerminals` -/
def sepStep (gen : Nat → σ) (V : List σ) (st : SepT σ K) (r : Rule σ K) : SepT σ K :=
  if isPreterminalRule V r then { st with rules := addRule st.rules r }
  else
    let (st', b') := SepT.body gen V st r.body
    { st' with rules := addRule st'.rules ⟨r.w, r.head, b'⟩ }

theorem separateTerminals_eq (gen : Nat → σ) (G : CFG σ K) (ctr : Nat) :
    separateTerminals gen G ctr
      = ({ S := G.S, V := G.V,
           rules := (G.rules.foldl (sepStep gen G.V) { ctr := ctr, table := [], rules := [] }).rules },
         (G.rules.foldl (sepStep gen G.V) { ctr := ctr, table := [], rules := [] }).ctr) := rfl

theorem sepStep_pre (gen : Nat → σ) (V : List σ) (st : SepT σ K) (r : Rule σ K)
    (h : isPreterminalRule V r = true) :
    sepStep gen V st r = { st with rules := addRule st.rules r } := by
  unfold sepStep; rw [if_pos h]

theorem sepStep_body (gen : Nat → σ) (V : List σ) (st : SepT σ K) (r : Rule σ K)
    (h : ¬ isPreterminalRule V r = true) :
    sepStep gen V st r =
      { (SepT.body gen V st r.body).1 with
        rules := addRule (SepT.body gen V st r.body).1.rules ⟨r.w, r.head, (SepT.body gen V st r.body).2⟩ } := by
  unfold sepStep; rw [if_neg h]

theorem body_nil (gen : Nat → σ) (V : List σ) (st : SepT σ K) :
    SepT.body gen V st [] = (st, []) := rfl

theorem body_cons_term (gen : Nat → σ) (V : List σ) (st : SepT σ K) (y : σ) (ys : List σ)
    (hy : y ∈ V) :
    SepT.body gen V st (y :: ys)
      = ((SepT.body gen V (st.pre gen y).1 ys).1,
         (st.pre gen y).2 :: (SepT.body gen V (st.pre gen y).1 ys).2) := by
  rw [SepT.body, if_pos hy]

theorem body_cons_nt (gen : Nat → σ) (V : List σ) (st : SepT σ K) (y : σ) (ys : List σ)
    (hy : y ∉ V) :
    SepT.body gen V st (y :: ys)
      = ((SepT.body gen V st ys).1, y :: (SepT.body gen V st ys).2) := by
  rw [SepT.body, if_neg hy]

/-- the state after creating a new preterminal for `x` -/
def preNew (gen : Nat → σ) (st : SepT σ K) (x : σ) : SepT σ K :=
  { ctr := st.ctr + 1, table := st.table ++ [(x, gen (st.ctr + 1))],
    rules := addRule st.rules ⟨1, gen (st.ctr + 1), [x]⟩ }

theorem pre_cases (gen : Nat → σ) (st : SepT σ K) (x : σ) :
    (∃ e ∈ st.table, e.1 = x ∧ st.pre gen x = (st, e.2)) ∨
    st.pre gen x = (preNew gen st x, gen (st.ctr + 1)) := by
  unfold SepT.pre
  split
  · next e he =>
    left
    exact ⟨e, List.mem_of_find?_eq_some he, by simpa using List.find?_some he, rfl⟩
  · right; rfl


/-! ### lower bound: invariants that only need `gen k ∉ V` -/

/-- the table `f` gives every preterminal of the table at least the weight of its terminal -/
def RespGe (f : σ → List σ → K) (T : List (σ × σ)) : Prop :=
  ∀ e ∈ T, ∀ u, (if u = [e.1] then (1 : K) else 0) ≼ f e.2 u

/-- … at most the weight of its terminal -/
def RespLe (f : σ → List σ → K) (T : List (σ × σ)) : Prop :=
  ∀ e ∈ T, ∀ u, f e.2 u ≼ (if u = [e.1] then (1 : K) else 0)

structure InvLo (gen : Nat → σ) (V : List σ) (c0 : Nat) (st : SepT σ K) : Prop where
  lo : c0 ≤ st.ctr
  ent : ∀ e ∈ st.table, e.1 ∈ V ∧ ∃ k, c0 < k ∧ k ≤ st.ctr ∧ e.2 = gen k
  ge : ∀ e ∈ st.table, ∀ (f : σ → List σ → K) u,
    (if u = [e.1] then (1 : K) else 0) ≼ stepL V st.rules f e.2 u

/-- the state only grows -/
structure Grow (V : List σ) (st st' : SepT σ K) : Prop where
  ctr : st.ctr ≤ st'.ctr
  tab : ∀ e ∈ st.table, e ∈ st'.table
  rules : ∀ (f : σ → List σ → K) X x, stepL V st.rules f X x ≼ stepL V st'.rules f X x

theorem Grow.refl (V : List σ) (st : SepT σ K) : Grow V st st :=
  ⟨Nat.le_refl _, fun _ h => h, fun _ _ _ => le_rfl' _⟩

theorem Grow.trans {V : List σ} {a b c : SepT σ K} (h1 : Grow V a b) (h2 : Grow V b c) :
    Grow V a c :=
  ⟨Nat.le_trans h1.ctr h2.ctr, fun e he => h2.tab e (h1.tab e he),
    fun f X x => le_trans' (h1.rules f X x) (h2.rules f X x)⟩

theorem grow_addRule (V : List σ) (st : SepT σ K) (r : Rule σ K) :
    Grow V st { st with rules := addRule st.rules r } :=
  ⟨Nat.le_refl _, fun _ h => h, fun f X x => by
    show _ ≼ stepL V (addRule st.rules r) f X x
    rw [stepL_addRule]; exact le_add_right' _ _⟩

theorem invLo_addRule {gen : Nat → σ} {V : List σ} {c0 : Nat} {st : SepT σ K}
    (h : InvLo gen V c0 st) (r : Rule σ K) :
    InvLo gen V c0 { st with rules := addRule st.rules r } :=
  ⟨h.lo, h.ent, fun e he f u =>
    le_trans' (h.ge e he f u) ((grow_addRule V st r).rules f e.2 u)⟩

theorem pre_lo {gen : Nat → σ} {V : List σ} {c0 : Nat} {st : SepT σ K}
    (h : InvLo gen V c0 st) (x : σ) (hx : x ∈ V) :
    InvLo gen V c0 (st.pre gen x).1 ∧ Grow V st (st.pre gen x).1 ∧
      (x, (st.pre gen x).2) ∈ (st.pre gen x).1.table := by
  rcases pre_cases gen st x with ⟨e, he, hex, heq⟩ | heq
  · rw [heq]
    refine ⟨h, Grow.refl V st, ?_⟩
    have : (x, e.2) = e := by rw [← hex]
    simpa [this] using he
  · rw [heq]
    have hg : Grow V st (preNew gen st x) :=
      ⟨Nat.le_succ _, fun e he => by simp [preNew, he], fun f X u => by
        show _ ≼ stepL V (addRule st.rules _) f X u
        rw [stepL_addRule]; exact le_add_right' _ _⟩
    refine ⟨⟨?_, ?_, ?_⟩, hg, by simp [preNew]⟩
    · exact Nat.le_succ_of_le h.lo
    · intro e he
      rcases List.mem_append.mp he with he | he
      · obtain ⟨h1, k, hk1, hk2, hk3⟩ := h.ent e he
        exact ⟨h1, k, hk1, Nat.le_succ_of_le hk2, hk3⟩
      · have : e = (x, gen (st.ctr + 1)) := by simpa using he
        rw [this]
        exact ⟨hx, st.ctr + 1, Nat.lt_succ_of_le h.lo, Nat.le_refl _, rfl⟩
    · intro e he f u
      rcases List.mem_append.mp he with he | he
      · exact le_trans' (h.ge e he f u) (hg.rules f e.2 u)
      · have : e = (x, gen (st.ctr + 1)) := by simpa using he
        rw [this]
        show _ ≼ stepL V (addRule st.rules _) f _ u
        rw [stepL_addRule, if_pos rfl, one_mul, Wbody_singleton, Wsym_term V f x hx]
        exact le_add_left' _ _

theorem body_lo {gen : Nat → σ} {V : List σ} {c0 : Nat} (hgenV : ∀ k, c0 < k → gen k ∉ V)
    (ys : List σ) (st : SepT σ K) (h : InvLo gen V c0 st) :
    InvLo gen V c0 (SepT.body gen V st ys).1 ∧ Grow V st (SepT.body gen V st ys).1 ∧
      ∀ f : σ → List σ → K, RespGe f (SepT.body gen V st ys).1.table →
        ∀ x, Wbody V f ys x ≼ Wbody V f (SepT.body gen V st ys).2 x := by
  induction ys generalizing st with
  | nil => exact ⟨h, Grow.refl V st, fun _ _ _ => le_rfl' _⟩
  | cons y ys ih =>
    by_cases hy : y ∈ V
    · rw [body_cons_term gen V st y ys hy]
      obtain ⟨h1, g1, m1⟩ := pre_lo h y hy
      obtain ⟨h2, g2, w2⟩ := ih (st.pre gen y).1 h1
      refine ⟨h2, g1.trans g2, ?_⟩
      intro f hf x
      refine Wbody_cons_le V f f _ _ _ _ ?_ (w2 f hf) x
      intro u
      obtain ⟨_, k, hk, _, hk3⟩ := h1.ent _ m1
      have hk3 : (st.pre gen y).2 = gen k := hk3
      rw [Wsym_term V f y hy, Wsym_nt V f _ (hk3 ▸ hgenV k hk)]
      exact hf _ (g2.tab _ m1) u
    · rw [body_cons_nt gen V st y ys hy]
      obtain ⟨h2, g2, w2⟩ := ih st h
      refine ⟨h2, g2, ?_⟩
      intro f hf x
      exact Wbody_cons_le V f f _ _ _ _ (fun u => le_rfl' _) (w2 f hf) x

/-- one loop iteration: the invariant, growth, and the processed rule's contribution -/
theorem step_lo {gen : Nat → σ} {V : List σ} {c0 : Nat} (hgenV : ∀ k, c0 < k → gen k ∉ V)
    (st : SepT σ K) (r : Rule σ K) (h : InvLo gen V c0 st) :
    InvLo gen V c0 (sepStep gen V st r) ∧ Grow V st (sepStep gen V st r) ∧
      ∀ f : σ → List σ → K, RespGe f (sepStep gen V st r).table → ∀ X x,
        stepL V st.rules f X x + (if r.head = X then r.w * Wbody V f r.body x else 0)
          ≼ stepL V (sepStep gen V st r).rules f X x := by
  by_cases hp : isPreterminalRule V r = true
  · rw [sepStep_pre gen V st r hp]
    refine ⟨invLo_addRule h r, grow_addRule V st r, ?_⟩
    intro f _ X x
    show _ ≼ stepL V (addRule st.rules r) f X x
    rw [stepL_addRule]; exact le_rfl' _
  · rw [sepStep_body gen V st r hp]
    obtain ⟨h2, g2, w2⟩ := body_lo hgenV r.body st h
    refine ⟨invLo_addRule h2 _, g2.trans (grow_addRule V _ _), ?_⟩
    intro f hf X x
    show _ ≼ stepL V (addRule (SepT.body gen V st r.body).1.rules _) f X x
    rw [stepL_addRule]
    refine add_le' (g2.rules f X x) ?_
    show _ ≼ (if r.head = X then r.w * Wbody V f (SepT.body gen V st r.body).2 x else 0)
    split
    · exact mul_le' (le_rfl' _) (w2 f hf x)
    · exact le_rfl' _

theorem fold_lo {gen : Nat → σ} {V : List σ} {c0 : Nat} (hgenV : ∀ k, c0 < k → gen k ∉ V)
    (rs : List (Rule σ K)) (st : SepT σ K) (h : InvLo gen V c0 st) :
    InvLo gen V c0 (rs.foldl (sepStep gen V) st) ∧ Grow V st (rs.foldl (sepStep gen V) st) ∧
      ∀ f : σ → List σ → K, RespGe f (rs.foldl (sepStep gen V) st).table → ∀ X x,
        stepL V st.rules f X x + stepL V rs f X x
          ≼ stepL V (rs.foldl (sepStep gen V) st).rules f X x := by
  induction rs generalizing st with
  | nil =>
    refine ⟨h, Grow.refl V st, ?_⟩
    intro f _ X x
    rw [stepL_nil, add_zero]; exact le_rfl' _
  | cons r rs ih =>
    rw [List.foldl_cons]
    obtain ⟨h1, g1, w1⟩ := step_lo hgenV st r h
    obtain ⟨h2, g2, w2⟩ := ih (sepStep gen V st r) h1
    refine ⟨h2, g1.trans g2, ?_⟩
    intro f hf X x
    rw [stepL_cons, ← add_assoc]
    refine le_trans' (add_le' (w1 f (fun e he => hf e (g2.tab e he)) X x) (le_rfl' _)) (w2 f hf X x)


/-! ### upper bound: needs fresh, pairwise different generated names -/

structure InvUp (gen : Nat → σ) (V : List σ) (st : SepT σ K) : Prop where
  le : ∀ e ∈ st.table, ∀ (f : σ → List σ → K) u,
    stepL V st.rules f e.2 u ≼ (if u = [e.1] then (1 : K) else 0)
  future : ∀ k, st.ctr < k → ∀ (f : σ → List σ → K) u, stepL V st.rules f (gen k) u = 0

/-- the rules of symbols that are not new names are untouched -/
def Same (gen : Nat → σ) (V : List σ) (st st' : SepT σ K) : Prop :=
  ∀ X, (∀ k, st.ctr < k → X ≠ gen k) → ∀ (f : σ → List σ → K) x,
    stepL V st'.rules f X x = stepL V st.rules f X x

theorem invUp_addRule {gen : Nat → σ} {V : List σ} {c0 : Nat} {st : SepT σ K}
    (hlo : InvLo gen V c0 st) (h : InvUp gen V st) (r : Rule σ K)
    (hr : ∀ k, c0 < k → r.head ≠ gen k) :
    InvUp gen V { st with rules := addRule st.rules r } := by
  constructor
  · intro e he f u
    show stepL V (addRule st.rules r) f e.2 u ≼ _
    obtain ⟨_, k, hk, _, hk3⟩ := hlo.ent e he
    rw [stepL_addRule, if_neg (hk3 ▸ hr k hk), add_zero]
    exact h.le e he f u
  · intro k hk f u
    show stepL V (addRule st.rules r) f (gen k) u = 0
    rw [stepL_addRule, if_neg (hr k (Nat.lt_of_le_of_lt hlo.lo hk)), add_zero]
    exact h.future k hk f u

theorem pre_up {gen : Nat → σ} {V : List σ} {c0 : Nat}
    (hinj : ∀ i j, c0 < i → c0 < j → gen i = gen j → i = j) {st : SepT σ K}
    (hlo : InvLo gen V c0 st) (h : InvUp gen V st) (x : σ) (hx : x ∈ V) :
    InvUp gen V (st.pre gen x).1 ∧ Same gen V st (st.pre gen x).1 := by
  rcases pre_cases gen st x with ⟨e, he, hex, heq⟩ | heq
  · rw [heq]; exact ⟨h, fun _ _ _ _ => rfl⟩
  · rw [heq]
    have hc : c0 < st.ctr + 1 := Nat.lt_succ_of_le hlo.lo
    refine ⟨⟨?_, ?_⟩, ?_⟩
    · intro e he f u
      show stepL V (addRule st.rules _) f e.2 u ≼ _
      rw [stepL_addRule]
      rcases List.mem_append.mp he with he | he
      · obtain ⟨_, k, hk, hk2, hk3⟩ := hlo.ent e he
        have hne : gen (st.ctr + 1) ≠ e.2 := by
          intro hcon
          have := hinj _ _ hc hk (hcon.trans hk3)
          omega
        rw [if_neg hne, add_zero]
        exact h.le e he f u
      · have he' : e = (x, gen (st.ctr + 1)) := by simpa using he
        rw [he', if_pos rfl, h.future (st.ctr + 1) (Nat.lt_succ_self _), zero_add, one_mul,
          Wbody_singleton, Wsym_term V f x hx]
        exact le_rfl' _
    · intro k hk f u
      have hk' : st.ctr + 1 < k := hk
      show stepL V (addRule st.rules _) f (gen k) u = 0
      have hne : gen (st.ctr + 1) ≠ gen k := by
        intro hcon
        have := hinj _ _ hc (by omega) hcon
        omega
      rw [stepL_addRule, if_neg hne, add_zero]
      exact h.future k (by omega) f u
    · intro X hX f u
      show stepL V (addRule st.rules _) f X u = _
      rw [stepL_addRule, if_neg (fun hcon => hX _ (Nat.lt_succ_self _) hcon.symm), add_zero]

theorem body_up {gen : Nat → σ} {V : List σ} {c0 : Nat} (hgenV : ∀ k, c0 < k → gen k ∉ V)
    (hinj : ∀ i j, c0 < i → c0 < j → gen i = gen j → i = j)
    (ys : List σ) (st : SepT σ K) (hlo : InvLo gen V c0 st) (h : InvUp gen V st) :
    InvUp gen V (SepT.body gen V st ys).1 ∧ Same gen V st (SepT.body gen V st ys).1 ∧
      ∀ f : σ → List σ → K, RespLe f (SepT.body gen V st ys).1.table →
        ∀ x, Wbody V f (SepT.body gen V st ys).2 x ≼ Wbody V f ys x := by
  induction ys generalizing st with
  | nil => exact ⟨h, fun _ _ _ _ => rfl, fun _ _ _ => le_rfl' _⟩
  | cons y ys ih =>
    by_cases hy : y ∈ V
    · rw [body_cons_term gen V st y ys hy]
      obtain ⟨l1, g1, m1⟩ := pre_lo hlo y hy
      obtain ⟨u1, s1⟩ := pre_up hinj hlo h y hy
      obtain ⟨_, g2, _⟩ := body_lo hgenV ys (st.pre gen y).1 l1
      obtain ⟨u2, s2, w2⟩ := ih (st.pre gen y).1 l1 u1
      refine ⟨u2, ?_, ?_⟩
      · intro X hX f x
        rw [s2 X (fun k hk => hX k (Nat.lt_of_le_of_lt g1.ctr hk)) f x, s1 X hX f x]
      · intro f hf x
        refine Wbody_cons_le V f f _ _ _ _ ?_ (w2 f hf) x
        intro u
        obtain ⟨_, k, hk, _, hk3⟩ := l1.ent _ m1
        have hk3 : (st.pre gen y).2 = gen k := hk3
        rw [Wsym_term V f y hy, Wsym_nt V f _ (hk3 ▸ hgenV k hk)]
        exact hf _ (g2.tab _ m1) u
    · rw [body_cons_nt gen V st y ys hy]
      obtain ⟨u2, s2, w2⟩ := ih st hlo h
      refine ⟨u2, s2, ?_⟩
      intro f hf x
      exact Wbody_cons_le V f f _ _ _ _ (fun u => le_rfl' _) (w2 f hf) x

theorem step_up {gen : Nat → σ} {V : List σ} {c0 : Nat} (hgenV : ∀ k, c0 < k → gen k ∉ V)
    (hinj : ∀ i j, c0 < i → c0 < j → gen i = gen j → i = j)
    (st : SepT σ K) (r : Rule σ K) (hr : ∀ k, c0 < k → r.head ≠ gen k)
    (hlo : InvLo gen V c0 st) (h : InvUp gen V st) :
    InvUp gen V (sepStep gen V st r) ∧
      ∀ f : σ → List σ → K, RespLe f (sepStep gen V st r).table →
        ∀ X, (∀ k, c0 < k → X ≠ gen k) → ∀ x,
        stepL V (sepStep gen V st r).rules f X x
          ≼ stepL V st.rules f X x + (if r.head = X then r.w * Wbody V f r.body x else 0) := by
  by_cases hp : isPreterminalRule V r = true
  · rw [sepStep_pre gen V st r hp]
    refine ⟨invUp_addRule hlo h r hr, ?_⟩
    intro f _ X _ x
    show stepL V (addRule st.rules r) f X x ≼ _
    rw [stepL_addRule]; exact le_rfl' _
  · rw [sepStep_body gen V st r hp]
    obtain ⟨l2, _, _⟩ := body_lo hgenV r.body st hlo
    obtain ⟨u2, s2, w2⟩ := body_up hgenV hinj r.body st hlo h
    refine ⟨invUp_addRule l2 u2 _ hr, ?_⟩
    intro f hf X hX x
    show stepL V (addRule (SepT.body gen V st r.body).1.rules _) f X x ≼ _
    rw [stepL_addRule, s2 X (fun k hk => hX k (Nat.lt_of_le_of_lt hlo.lo hk)) f x]
    refine add_le' (le_rfl' _) ?_
    show (if r.head = X then r.w * Wbody V f (SepT.body gen V st r.body).2 x else 0) ≼ _
    split
    · exact mul_le' (le_rfl' _) (w2 f hf x)
    · exact le_rfl' _

theorem fold_up {gen : Nat → σ} {V : List σ} {c0 : Nat} (hgenV : ∀ k, c0 < k → gen k ∉ V)
    (hinj : ∀ i j, c0 < i → c0 < j → gen i = gen j → i = j)
    (rs : List (Rule σ K)) (hrs : ∀ r ∈ rs, ∀ k, c0 < k → r.head ≠ gen k)
    (st : SepT σ K) (hlo : InvLo gen V c0 st) (h : InvUp gen V st) :
    InvUp gen V (rs.foldl (sepStep gen V) st) ∧
      ∀ f : σ → List σ → K, RespLe f (rs.foldl (sepStep gen V) st).table →
        ∀ X, (∀ k, c0 < k → X ≠ gen k) → ∀ x,
        stepL V (rs.foldl (sepStep gen V) st).rules f X x
          ≼ stepL V st.rules f X x + stepL V rs f X x := by
  induction rs generalizing st with
  | nil =>
    refine ⟨h, ?_⟩
    intro f _ X _ x
    rw [stepL_nil, add_zero]; exact le_rfl' _
  | cons r rs ih =>
    rw [List.foldl_cons]
    obtain ⟨l1, _, _⟩ := step_lo hgenV st r hlo
    obtain ⟨u1, w1⟩ := step_up hgenV hinj st r (hrs r (by simp)) hlo h
    obtain ⟨_, g2, _⟩ := fold_lo hgenV rs (sepStep gen V st r) l1
    obtain ⟨u2, w2⟩ := ih (fun r' hr' => hrs r' (by simp [hr'])) (sepStep gen V st r) l1 u1
    refine ⟨u2, ?_⟩
    intro f hf X hX x
    rw [stepL_cons, ← add_assoc]
    exact le_trans' (w2 f hf X hX x)
      (add_le' (w1 f (fun e he => hf e (g2.tab e he)) X hX x) (le_rfl' _))

/-! ### the names generated after the returned counter are still fresh -/

/-- no rule of `rs` mentions a name generated after `c` -/
def FreshAfter (gen : Nat → σ) (c : Nat) (rs : List (Rule σ K)) : Prop :=
  ∀ r ∈ rs, ∀ k, c < k → r.head ≠ gen k ∧ ∀ s ∈ r.body, s ≠ gen k

theorem FreshAfter.mono {gen : Nat → σ} {c c' : Nat} {rs : List (Rule σ K)}
    (h : FreshAfter gen c rs) (hc : c ≤ c') : FreshAfter gen c' rs :=
  fun r hr k hk => h r hr k (Nat.lt_of_le_of_lt hc hk)

theorem FreshAfter.addRule {gen : Nat → σ} {c : Nat} {rs : List (Rule σ K)}
    (h : FreshAfter gen c rs) (r : Rule σ K)
    (hr : ∀ k, c < k → r.head ≠ gen k ∧ ∀ s ∈ r.body, s ≠ gen k) :
    FreshAfter gen c (addRule rs r) := by
  intro q hq
  rcases mem_addRule.mp hq with hq | ⟨rfl, _⟩
  · exact h q hq
  · exact hr

theorem pre_fresh {gen : Nat → σ} {V : List σ} {c0 : Nat} (hgenV : ∀ k, c0 < k → gen k ∉ V)
    (hinj : ∀ i j, c0 < i → c0 < j → gen i = gen j → i = j) {st : SepT σ K}
    (hlo : InvLo gen V c0 st) (h : FreshAfter gen st.ctr st.rules) (x : σ) (hx : x ∈ V) :
    FreshAfter gen (st.pre gen x).1.ctr (st.pre gen x).1.rules := by
  rcases pre_cases gen st x with ⟨e, he, hex, heq⟩ | heq
  · rw [heq]; exact h
  · rw [heq]
    have hc : c0 < st.ctr + 1 := Nat.lt_succ_of_le hlo.lo
    refine FreshAfter.addRule (h.mono (Nat.le_succ _)) _ ?_
    intro k hk
    have hk' : st.ctr + 1 < k := hk
    refine ⟨fun hcon => ?_, fun s hs hcon => ?_⟩
    · have := hinj _ _ hc (by omega) hcon; omega
    · have : s = x := by simpa using hs
      exact hgenV k (by omega) (hcon ▸ this ▸ hx)

theorem body_fresh {gen : Nat → σ} {V : List σ} {c0 : Nat} (hgenV : ∀ k, c0 < k → gen k ∉ V)
    (hinj : ∀ i j, c0 < i → c0 < j → gen i = gen j → i = j)
    (ys : List σ) (hys : ∀ y ∈ ys, ∀ k, c0 < k → y ≠ gen k) (st : SepT σ K)
    (hlo : InvLo gen V c0 st) (h : FreshAfter gen st.ctr st.rules) :
    FreshAfter gen (SepT.body gen V st ys).1.ctr (SepT.body gen V st ys).1.rules ∧
      ∀ s ∈ (SepT.body gen V st ys).2, ∀ k, (SepT.body gen V st ys).1.ctr < k → s ≠ gen k := by
  induction ys generalizing st with
  | nil => exact ⟨h, by simp [body_nil]⟩
  | cons y ys ih =>
    have hys' : ∀ y' ∈ ys, ∀ k, c0 < k → y' ≠ gen k := fun y' hy' => hys y' (by simp [hy'])
    by_cases hy : y ∈ V
    · rw [body_cons_term gen V st y ys hy]
      obtain ⟨l1, g1, m1⟩ := pre_lo hlo y hy
      obtain ⟨l2, g2, _⟩ := body_lo hgenV ys (st.pre gen y).1 l1
      obtain ⟨f2, b2⟩ := ih hys' (st.pre gen y).1 l1 (pre_fresh hgenV hinj hlo h y hy)
      refine ⟨f2, ?_⟩
      intro s hs k hk
      have hk : (SepT.body gen V (st.pre gen y).1 ys).1.ctr < k := hk
      rcases List.mem_cons.mp hs with rfl | hs
      · obtain ⟨_, j, hj, hj2, hj3⟩ := l1.ent _ m1
        have hj3 : (st.pre gen y).2 = gen j := hj3
        intro hcon
        have := hinj j k hj (by have := g2.ctr; omega) (hj3.symm.trans hcon)
        have := g2.ctr
        omega
      · exact b2 s hs k hk
    · rw [body_cons_nt gen V st y ys hy]
      obtain ⟨l2, g2, _⟩ := body_lo hgenV ys st hlo
      obtain ⟨f2, b2⟩ := ih hys' st hlo h
      refine ⟨f2, ?_⟩
      intro s hs k hk
      have hk : (SepT.body gen V st ys).1.ctr < k := hk
      rcases List.mem_cons.mp hs with rfl | hs
      · exact hys s (by simp) k (by have := g2.ctr; have := hlo.lo; omega)
      · exact b2 s hs k hk

theorem step_fresh {gen : Nat → σ} {V : List σ} {c0 : Nat} (hgenV : ∀ k, c0 < k → gen k ∉ V)
    (hinj : ∀ i j, c0 < i → c0 < j → gen i = gen j → i = j)
    (st : SepT σ K) (r : Rule σ K)
    (hr : ∀ k, c0 < k → r.head ≠ gen k ∧ ∀ s ∈ r.body, s ≠ gen k)
    (hlo : InvLo gen V c0 st) (h : FreshAfter gen st.ctr st.rules) :
    FreshAfter gen (sepStep gen V st r).ctr (sepStep gen V st r).rules := by
  by_cases hp : isPreterminalRule V r = true
  · rw [sepStep_pre gen V st r hp]
    exact FreshAfter.addRule h r (fun k hk => hr k (Nat.lt_of_le_of_lt hlo.lo hk))
  · rw [sepStep_body gen V st r hp]
    obtain ⟨l2, g2, _⟩ := body_lo hgenV r.body st hlo
    obtain ⟨f2, b2⟩ := body_fresh hgenV hinj r.body (fun y hy k hk => (hr k hk).2 y hy) st hlo h
    refine FreshAfter.addRule f2 _ ?_
    intro k hk
    exact ⟨(hr k (by have := g2.ctr; have := hlo.lo; omega)).1, fun s hs => b2 s hs k hk⟩

theorem fold_fresh {gen : Nat → σ} {V : List σ} {c0 : Nat} (hgenV : ∀ k, c0 < k → gen k ∉ V)
    (hinj : ∀ i j, c0 < i → c0 < j → gen i = gen j → i = j)
    (rs : List (Rule σ K))
    (hrs : ∀ r ∈ rs, ∀ k, c0 < k → r.head ≠ gen k ∧ ∀ s ∈ r.body, s ≠ gen k)
    (st : SepT σ K) (hlo : InvLo gen V c0 st) (h : FreshAfter gen st.ctr st.rules) :
    FreshAfter gen (rs.foldl (sepStep gen V) st).ctr (rs.foldl (sepStep gen V) st).rules := by
  induction rs generalizing st with
  | nil => exact h
  | cons r rs ih =>
    rw [List.foldl_cons]
    obtain ⟨l1, _, _⟩ := step_lo hgenV st r hlo
    exact ih (fun r' hr' => hrs r' (by simp [hr'])) _ l1
      (step_fresh hgenV hinj st r (hrs r (by simp)) hlo h)

theorem invLo_init (gen : Nat → σ) (V : List σ) (c0 : Nat) :
    InvLo gen V c0 ({ ctr := c0, table := [], rules := [] } : SepT σ K) :=
  ⟨Nat.le_refl _, by simp, by simp⟩

theorem invUp_init (gen : Nat → σ) (V : List σ) (c0 : Nat) :
    InvUp gen V ({ ctr := c0, table := [], rules := [] } : SepT σ K) :=
  ⟨by simp, fun _ _ _ _ => stepL_nil _ _ _ _⟩

end
end Sem2Aux
end Genlm

namespace Genlm
set_option linter.unusedSectionVars false
open UnfoldAux Sem2Aux
section
variable {σ K : Type} [DecidableEq σ] [CommSemiring K] [DecidableEq K]

/-- **C06.3 (⊑)** `separate_terminals` loses nothing: what `G` derives with height `≤ n`, the new
grammar derives with height `≤ n+1`.  Only hypothesis: the generated names are not terminals. -/
theorem separateTerminals_le (gen : Nat → σ) (G : CFG σ K) (ctr : Nat)
    (hgenV : ∀ k, ctr < k → gen k ∉ G.V) (n : Nat) (X : σ) (x : List σ) :
    WN G n X x ≼ WN (separateTerminals gen G ctr).1 (n + 1) X x := by
  rw [separateTerminals_eq]
  obtain ⟨hI, _, hw⟩ := fold_lo hgenV G.rules _ (invLo_init (K := K) gen G.V ctr)
  generalize hst : G.rules.foldl (sepStep gen G.V) { ctr := ctr, table := [], rules := [] } = st
    at hI hw ⊢
  have hresp : ∀ m, RespGe (WN (⟨G.S, G.V, st.rules⟩ : CFG σ K) (m + 1)) st.table := by
    intro m e he u
    rw [WN_succ]
    exact hI.ge e he _ u
  induction n generalizing X x with
  | zero => exact zero_le' _
  | succ n ih =>
    rw [WN_succ, WN_succ]
    refine le_trans' (stepL_le _ _ _ _ (fun s u => ih s u) X x) ?_
    have := hw _ (hresp n) X x
    rwa [stepL_nil, zero_add] at this

/-- **C06.3 (⊒)** `separate_terminals` adds nothing: at every symbol that is not a generated name
the new grammar's level `n` is below the old grammar's level `n`.  The names generated from
`ctr+1` on must be nonterminals, pairwise different, head no rule and occur in no body. -/
theorem separateTerminals_ge (gen : Nat → σ) (G : CFG σ K) (ctr : Nat)
    (hgenV : ∀ k, ctr < k → gen k ∉ G.V)
    (hinj : ∀ i j, ctr < i → ctr < j → gen i = gen j → i = j)
    (hhead : ∀ r ∈ G.rules, ∀ k, ctr < k → r.head ≠ gen k)
    (hbody : ∀ r ∈ G.rules, ∀ s ∈ r.body, ∀ k, ctr < k → s ≠ gen k)
    (n : Nat) (X : σ) (hX : ∀ k, ctr < k → X ≠ gen k) (x : List σ) :
    WN (separateTerminals gen G ctr).1 n X x ≼ WN G n X x := by
  rw [separateTerminals_eq]
  obtain ⟨hI, hw⟩ := fold_up hgenV hinj G.rules hhead _ (invLo_init (K := K) gen G.V ctr)
    (invUp_init gen G.V ctr)
  generalize hst : G.rules.foldl (sepStep gen G.V) { ctr := ctr, table := [], rules := [] } = st
    at hI hw ⊢
  have hresp : ∀ m, RespLe (WN (⟨G.S, G.V, st.rules⟩ : CFG σ K) m) st.table := by
    intro m e he u
    cases m with
    | zero => exact zero_le' _
    | succ m => rw [WN_succ]; exact hI.le e he _ u
  induction n generalizing X x with
  | zero => exact le_rfl' _
  | succ n ih =>
    rw [WN_succ, WN_succ]
    have := hw _ (hresp n) X hX x
    rw [stepL_nil, zero_add] at this
    refine le_trans' this (stepL_le_nt _ _ _ _ ?_ X x)
    intro r hr s hs _ u
    exact ih s (hbody r hr s hs) u

/-- **C06.3** `separate_terminals` preserves the weighted language: the level-indexed approximations
of the two grammars bound each other (shift by one level) at every original symbol -/
theorem separateTerminals_preserves (gen : Nat → σ) (G : CFG σ K) (ctr : Nat)
    (hgenV : ∀ k, ctr < k → gen k ∉ G.V)
    (hinj : ∀ i j, ctr < i → ctr < j → gen i = gen j → i = j)
    (hhead : ∀ r ∈ G.rules, ∀ k, ctr < k → r.head ≠ gen k)
    (hbody : ∀ r ∈ G.rules, ∀ s ∈ r.body, ∀ k, ctr < k → s ≠ gen k)
    (n : Nat) (X : σ) (hX : ∀ k, ctr < k → X ≠ gen k) (x : List σ) :
    WN G n X x ≼ WN (separateTerminals gen G ctr).1 (n + 1) X x ∧
      WN (separateTerminals gen G ctr).1 n X x ≼ WN G n X x :=
  ⟨separateTerminals_le gen G ctr hgenV n X x,
    separateTerminals_ge gen G ctr hgenV hinj hhead hbody n X hX x⟩

/-- the freshness hypotheses survive `separate_terminals`: the counter only grows, and the names
generated after the *returned* counter are nonterminals that head no rule and occur in no body of
the new grammar — exactly what `binarize`, which continues with that counter, needs -/
theorem separateTerminals_fresh (gen : Nat → σ) (G : CFG σ K) (ctr : Nat)
    (hgenV : ∀ k, ctr < k → gen k ∉ G.V)
    (hinj : ∀ i j, ctr < i → ctr < j → gen i = gen j → i = j)
    (hhead : ∀ r ∈ G.rules, ∀ k, ctr < k → r.head ≠ gen k)
    (hbody : ∀ r ∈ G.rules, ∀ s ∈ r.body, ∀ k, ctr < k → s ≠ gen k) :
    ctr ≤ (separateTerminals gen G ctr).2 ∧
      (∀ r ∈ (separateTerminals gen G ctr).1.rules, ∀ k, (separateTerminals gen G ctr).2 < k →
        r.head ≠ gen k) ∧
      (∀ r ∈ (separateTerminals gen G ctr).1.rules, ∀ s ∈ r.body, ∀ k,
        (separateTerminals gen G ctr).2 < k → s ≠ gen k) := by
  rw [separateTerminals_eq]
  obtain ⟨hI, _, _⟩ := fold_lo hgenV G.rules _ (invLo_init (K := K) gen G.V ctr)
  have hf := fold_fresh hgenV hinj G.rules
    (fun r hr k hk => ⟨hhead r hr k hk, fun s hs => hbody r hr s hs k hk⟩) _
    (invLo_init (K := K) gen G.V ctr) (by intro r hr; simp at hr)
  exact ⟨hI.lo, fun r hr k hk => (hf r hr k hk).1, fun r hr s hs k hk => (hf r hr k hk).2 s hs⟩

/-- transfer of a stabilised value along a pair of level-wise bounds, in a semiring whose natural
preorder is antisymmetric: if `a` has stabilised at `L` from `N` on, `a N ≼ b M`, and every `b n`
is below some later `a m`, then `b` is `L` from `max M N` on -/
theorem limit_transfer (hanti : ∀ a b : K, a ≼ b → b ≼ a → a = b) {a b : Nat → K}
    (hb : ∀ n m, n ≤ m → b n ≼ b m) (N M : Nat) (L : K) (hstab : ∀ m, N ≤ m → a m = L)
    (h1 : a N ≼ b M) (h2 : ∀ n, ∃ m, n ≤ m ∧ b n ≼ a m) (n : Nat) (hM : M ≤ n) (hN : N ≤ n) :
    b n = L := by
  apply hanti
  · obtain ⟨m, hm, h⟩ := h2 n
    rwa [hstab m (Nat.le_trans hN hm)] at h
  · have := le_trans' h1 (hb M n hM); rwa [hstab N (Nat.le_refl _)] at this

/-- where `≼` is antisymmetric and the weight of `x` at `X` in `G` has stabilised at `L` from level
`N` on, `separate_terminals` gives `L` from level `N+1` on -/
theorem separateTerminals_limit (gen : Nat → σ) (G : CFG σ K) (ctr : Nat)
    (hgenV : ∀ k, ctr < k → gen k ∉ G.V)
    (hinj : ∀ i j, ctr < i → ctr < j → gen i = gen j → i = j)
    (hhead : ∀ r ∈ G.rules, ∀ k, ctr < k → r.head ≠ gen k)
    (hbody : ∀ r ∈ G.rules, ∀ s ∈ r.body, ∀ k, ctr < k → s ≠ gen k)
    (hanti : ∀ a b : K, a ≼ b → b ≼ a → a = b) (X : σ) (hX : ∀ k, ctr < k → X ≠ gen k)
    (x : List σ) (N : Nat) (L : K) (hstab : ∀ m, N ≤ m → WN G m X x = L) (n : Nat)
    (hn : N + 1 ≤ n) : WN (separateTerminals gen G ctr).1 n X x = L :=
  limit_transfer hanti (a := fun m => WN G m X x)
    (b := fun m => WN (separateTerminals gen G ctr).1 m X x)
    (fun _ _ h => WN_le_of_le _ h X x) N (N + 1) L hstab
    (separateTerminals_le gen G ctr hgenV N X x)
    (fun m => ⟨m, Nat.le_refl _, separateTerminals_ge gen G ctr hgenV hinj hhead hbody m X hX x⟩)
    n hn (by omega)

end
end Genlm
