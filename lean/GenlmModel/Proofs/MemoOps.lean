import GenlmModel.Model.MemoOps
import GenlmModel.Proofs.Memo
import Mathlib.Data.List.Basic

/-!
Property C05: history independence of the incremental parsers.  Whatever sequence of
`chart` / `clear_cache` / re-seed operations was performed before, `chart(p)` returns what a
fresh object returns, namely `pureChart init ext p`.
-/
namespace Genlm
section MemoOps
variable {Tok Col : Type} [DecidableEq Tok]

/-- what fresh objects would answer: one `pureChart` per `chart` operation -/
def expectedAnswers (init : Col) (ext : List Col → Tok → Col) : List (Op Tok) → List (List Col)
  | [] => []
  | .chart p :: ops => pureChart init ext p :: expectedAnswers init ext ops
  | .clear :: ops => expectedAnswers init ext ops
  | .seed :: ops => expectedAnswers init ext ops

omit [DecidableEq Tok] in
theorem Memo.Coherent.nil (init : Col) (ext : List Col → Tok → Col) :
    Memo.Coherent init ext ([] : Memo Tok Col) := by
  intro p c h; simp at h

omit [DecidableEq Tok] in
theorem Memo.Coherent.seed (init : Col) (ext : List Col → Tok → Col) {m : Memo Tok Col}
    (hm : m.Coherent init ext) : Memo.Coherent init ext (([], [init]) :: m) := by
  intro p c h
  simp only [List.mem_cons, Prod.mk.injEq] at h
  rcases h with ⟨rfl, rfl⟩ | h
  · simp [pureChart]
  · exact hm _ _ h

/-- from any coherent table, every operation sequence answers as fresh objects would, and the
table stays coherent -/
theorem runOps_spec (init : Col) (ext : List Col → Tok → Col) (ops : List (Op Tok))
    (m : Memo Tok Col) (hm : m.Coherent init ext) :
    (runOps init ext m ops).1 = expectedAnswers init ext ops
      ∧ (runOps init ext m ops).2.Coherent init ext := by
  induction ops generalizing m with
  | nil => exact ⟨rfl, hm⟩
  | cons op ops ih =>
    cases op with
    | chart p =>
      obtain ⟨h1, h2⟩ := chartM_transparent init ext p m hm
      obtain ⟨h3, h4⟩ := ih _ h2
      simp only [runOps, expectedAnswers]
      exact ⟨by rw [h1, h3], h4⟩
    | clear =>
      simp only [runOps, expectedAnswers]
      exact ih _ (Memo.Coherent.nil init ext)
    | seed =>
      simp only [runOps, expectedAnswers]
      exact ih _ (hm.seed init ext)

/-- **history independence**: starting from the empty table (a fresh parser object), for every
operation sequence, the answer to each `chart p` is `pureChart init ext p`, and the table stays
coherent -/
theorem history_independent (init : Col) (ext : List Col → Tok → Col) (ops : List (Op Tok)) :
    (runOps init ext ([] : Memo Tok Col) ops).1 = expectedAnswers init ext ops
      ∧ (runOps init ext ([] : Memo Tok Col) ops).2.Coherent init ext :=
  runOps_spec init ext ops [] (Memo.Coherent.nil init ext)

/-- a fresh object answers `pureChart` -/
theorem chartM_fresh (init : Col) (ext : List Col → Tok → Col) (p : List Tok) :
    (chartM init ext p ([] : Memo Tok Col)).1 = pureChart init ext p :=
  (chartM_transparent init ext p [] (Memo.Coherent.nil init ext)).1

/-- the same, phrased per call: after *any* history `ops`, the call `chart p` returns exactly
what the same call returns on a fresh object -/
theorem chart_after_history (init : Col) (ext : List Col → Tok → Col) (ops : List (Op Tok))
    (p : List Tok) :
    (chartM init ext p (runOps init ext ([] : Memo Tok Col) ops).2).1
      = (chartM init ext p ([] : Memo Tok Col)).1 := by
  rw [chartM_fresh]
  exact (chartM_transparent init ext p _ (history_independent init ext ops).2).1

/-! ### non-vacuity: a toy column function (`ext c t = t + |c|`) and a history with a clear,
a re-seed and repeated / out-of-order prefixes -/
section examples
private def exExt (c : List Nat) (t : Nat) : Nat := t + c.length
private def exOps : List (Op Nat) :=
  [.chart [5, 6], .chart [5], .seed, .chart [5, 6, 7], .clear, .chart [5, 6], .chart []]

example : (runOps 0 exExt [] exOps).1 = [[0, 6, 8], [0, 6], [0, 6, 8, 10], [0, 6, 8], [0]] :=
  (history_independent 0 exExt exOps).1.trans (by decide)
example : expectedAnswers 0 exExt exOps = [[0, 6, 8], [0, 6], [0, 6, 8, 10], [0, 6, 8], [0]] := by
  decide
/-- the table really is used: after the history it holds the three prefixes of `[5, 6]` -/
example : (runOps 0 exExt [] exOps).2.map (·.1) = [[5, 6], [5], []] := by decide +kernel
end examples

end MemoOps
end Genlm
